/- GENERATED from pytoniq_core/tl/schemas/*.tl and pytoniq_core/tl/generator.py by harness/translate/tl_table.py; do not edit. -/
import TonVerif.Spec.Tl
namespace TonVerif.Generated.Tl
open TonVerif.Spec.Tl

def chunk0 : List Ctor := [
  -- int ? = Int
  ⟨2, 3, 0xa8509bda, [], unpackLE 11 [0x203d203f20746e69, 0x746e49]⟩,
  -- long ? = Long
  ⟨4, 5, 0x22076cba, [], unpackLE 13 [0x3d203f20676e6f6c, 0x676e6f4c20]⟩,
  -- double ? = Double
  ⟨6, 7, 0x2210c154, [], unpackLE 17 [0x3f20656c62756f64, 0x6c62756f44203d20, 0x65]⟩,
  -- string ? = String
  ⟨8, 9, 0xb5286e24, [], unpackLE 17 [0x3f20676e69727473, 0x6e69727453203d20, 0x67]⟩,
  -- object ? = Object
  ⟨10, 11, 0x29704ca0, [], unpackLE 17 [0x3f207463656a626f, 0x63656a624f203d20, 0x74]⟩,
  -- function ? = Function
  ⟨12, 13, 0x7acbc197, [], unpackLE 21 [0x6e6f6974636e7566, 0x6e7546203d203f20, 0x6e6f697463]⟩,
  -- bytes data:string = Bytes
  ⟨14, 15, 0x184614d1, [⟨16, none, false, .string⟩], unpackLE 25 [0x6164207365747962, 0x6e697274733a6174, 0x65747942203d2067, 0x73]⟩,
  -- true = True
  ⟨17, 18, 0x3fedd339, [], unpackLE 11 [0x54203d2065757274, 0x657572]⟩,
  -- boolTrue = Bool
  ⟨19, 20, 0x997275b5, [], unpackLE 15 [0x657572546c6f6f62, 0x6c6f6f42203d20]⟩,
  -- boolFalse = Bool
  ⟨21, 20, 0xbc799737, [], unpackLE 16 [0x736c61466c6f6f62, 0x6c6f6f42203d2065]⟩,
  -- vector t:Type # [ t ] = Vector t
  ⟨22, 23, 0x1cb5c415, [⟨24, none, false, .unsup⟩], unpackLE 32 [0x7420726f74636576, 0x202320657079543a, 0x203d205d2074205b, 0x7420726f74636556]⟩,
  -- int128 4*[ int ] = Int128
  ⟨25, 26, 0x84ccf7b7, [], unpackLE 25 [0x3420383231746e69, 0x5d20746e69205b2a, 0x3231746e49203d20, 0x38]⟩,
  -- int256 8*[ int ] = Int256
  ⟨27, 28, 0x7bedeb5b, [], unpackLE 25 [0x3820363532746e69, 0x5d20746e69205b2a, 0x3532746e49203d20, 0x36]⟩,
  -- tonNode.blockId workchain:int shard:long seqno:int = tonNode.BlockId
  ⟨29, 30, 0xb7cdb167, [⟨31, none, false, .int⟩, ⟨32, none, false, .long⟩, ⟨33, none, false, .int⟩], unpackLE 68 [0x2e65646f4e6e6f74, 0x2064496b636f6c62, 0x696168636b726f77, 0x687320746e693a6e, 0x676e6f6c3a647261, 0x693a6f6e71657320, 0x6e6f74203d20746e, 0x6f6c422e65646f4e, 0x64496b63]⟩,
  -- tonNode.blockIdExt workchain:int shard:long seqno:int root_hash:int256 file_hash:int256 = tonNode.BlockIdExt
  ⟨34, 35, 0x6752eb78, [⟨31, none, false, .int⟩, ⟨32, none, false, .long⟩, ⟨33, none, false, .int⟩, ⟨36, none, false, .int256⟩, ⟨37, none, false, .int256⟩], unpackLE 108 [0x2e65646f4e6e6f74, 0x4564496b636f6c62, 0x636b726f77207478, 0x746e693a6e696168, 0x6c3a647261687320, 0x6e71657320676e6f, 0x6f7220746e693a6f, 0x3a687361685f746f, 0x6620363532746e69, 0x687361685f656c69, 0x20363532746e693a, 0x646f4e6e6f74203d, 0x496b636f6c422e65, 0x74784564]⟩,
  -- tonNode.zeroStateIdExt workchain:int root_hash:int256 file_hash:int256 = tonNode.ZeroStateIdExt
  ⟨38, 39, 0x1d7235ae, [⟨31, none, false, .int⟩, ⟨36, none, false, .int256⟩, ⟨37, none, false, .int256⟩], unpackLE 95 [0x2e65646f4e6e6f74, 0x746174536f72657a, 0x7720747845644965, 0x6e696168636b726f, 0x6f6f7220746e693a, 0x693a687361685f74, 0x696620363532746e, 0x3a687361685f656c, 0x3d20363532746e69, 0x65646f4e6e6f7420, 0x6174536f72655a2e, 0x74784564496574]⟩,
  -- adnl.message.query query_id:int256 query:bytes = adnl.Message
  ⟨40, 41, 0xb48bf97a, [⟨42, none, false, .int256⟩, ⟨43, none, false, .bytes⟩], unpackLE 61 [0x73656d2e6c6e6461, 0x6575712e65676173, 0x7972657571207972, 0x32746e693a64695f, 0x7972657571203635, 0x3d2073657479623a, 0x654d2e6c6e646120, 0x6567617373]⟩,
  -- adnl.message.answer query_id:int256 answer:bytes = adnl.Message
  ⟨44, 41, 0x0fac8416, [⟨42, none, false, .int256⟩, ⟨45, none, false, .bytes⟩], unpackLE 63 [0x73656d2e6c6e6461, 0x736e612e65676173, 0x7265757120726577, 0x746e693a64695f79, 0x77736e6120363532, 0x73657479623a7265, 0x2e6c6e6461203d20, 0x6567617373654d]⟩,
  -- liteServer.error code:int message:string = liteServer.Error
  ⟨46, 47, 0xbba9e148, [⟨48, none, false, .int⟩, ⟨49, none, false, .string⟩], unpackLE 59 [0x767265536574696c, 0x726f7272652e7265, 0x6e693a65646f6320, 0x67617373656d2074, 0x676e697274733a65, 0x536574696c203d20, 0x72452e7265767265, 0x726f72]⟩,
  -- liteServer.accountId workchain:int id:int256 = liteServer.AccountId
  ⟨50, 51, 0x75a0e2c5, [⟨31, none, false, .int⟩, ⟨52, none, false, .int256⟩], unpackLE 67 [0x767265536574696c, 0x756f6363612e7265, 0x726f77206449746e, 0x693a6e696168636b, 0x6e693a646920746e, 0x6c203d2036353274, 0x6576726553657469, 0x6e756f6363412e72, 0x644974]⟩,
  -- liteServer.libraryEntry hash:int256 data:bytes = liteServer.LibraryEntry
  ⟨53, 54, 0x8aff2446, [⟨55, none, false, .int256⟩, ⟨16, none, false, .bytes⟩], unpackLE 72 [0x767265536574696c, 0x617262696c2e7265, 0x207972746e457972, 0x746e693a68736168, 0x6174616420363532, 0x3d2073657479623a, 0x7265536574696c20, 0x7262694c2e726576, 0x7972746e45797261]⟩,
  -- liteServer.masterchainInfo last:tonNode.blockIdExt state_root_hash:int256 init:tonNode.zeroStateIdExt = liteServer.MasterchainInfo
  ⟨56, 57, 0x85832881, [⟨58, none, false, .bare 34⟩, ⟨59, none, false, .int256⟩, ⟨60, none, false, .bare 38⟩], unpackLE 130 [0x767265536574696c, 0x657473616d2e7265, 0x6e496e6961686372, 0x3a7473616c206f66, 0x2e65646f4e6e6f74, 0x4564496b636f6c62, 0x6574617473207478, 0x61685f746f6f725f, 0x3532746e693a6873, 0x743a74696e692036, 0x7a2e65646f4e6e6f, 0x65746174536f7265, 0x203d207478456449, 0x767265536574696c, 0x657473614d2e7265, 0x6e496e6961686372, 0x6f66]⟩,
  -- liteServer.masterchainInfoExt mode:# version:int capabilities:long last:tonNode.blockIdExt last_utime:int now:int state_root_hash:int256 init:tonNode.zeroStateIdExt = liteServer.MasterchainInfoExt
  ⟨61, 62, 0xa8cce0f5, [⟨0, none, false, .nat⟩, ⟨63, none, false, .int⟩, ⟨64, none, false, .long⟩, ⟨58, none, false, .bare 34⟩, ⟨65, none, false, .int⟩, ⟨66, none, false, .int⟩, ⟨59, none, false, .int256⟩, ⟨60, none, false, .bare 38⟩], unpackLE 196 [0x767265536574696c, 0x657473616d2e7265, 0x6e496e6961686372, 0x6f6d207478456f66, 0x72657620233a6564, 0x746e693a6e6f6973, 0x6c69626170616320, 0x6f6c3a7365697469, 0x3a7473616c20676e, 0x2e65646f4e6e6f74, 0x4564496b636f6c62, 0x5f7473616c207478, 0x6e693a656d697475, 0x6e693a776f6e2074, 0x5f65746174732074, 0x7361685f746f6f72, 0x363532746e693a68, 0x6f743a74696e6920, 0x657a2e65646f4e6e, 0x4965746174536f72, 0x6c203d2074784564, 0x6576726553657469, 0x72657473614d2e72, 0x666e496e69616863, 0x7478456f]⟩,
  -- liteServer.currentTime now:int = liteServer.CurrentTime
  ⟨67, 68, 0xe953000d, [⟨66, none, false, .int⟩], unpackLE 55 [0x767265536574696c, 0x65727275632e7265, 0x6e20656d6954746e, 0x3d20746e693a776f, 0x7265536574696c20, 0x727275432e726576, 0x656d6954746e65]⟩,
  -- liteServer.version mode:# version:int capabilities:long now:int = liteServer.Version
  ⟨69, 70, 0x5a0491e5, [⟨0, none, false, .nat⟩, ⟨63, none, false, .int⟩, ⟨64, none, false, .long⟩, ⟨66, none, false, .int⟩], unpackLE 84 [0x767265536574696c, 0x69737265762e7265, 0x3a65646f6d206e6f, 0x6f69737265762023, 0x616320746e693a6e, 0x6974696c69626170, 0x20676e6f6c3a7365, 0x20746e693a776f6e, 0x65536574696c203d, 0x7265562e72657672, 0x6e6f6973]⟩,
  -- liteServer.blockData id:tonNode.blockIdExt data:bytes = liteServer.BlockData
  ⟨71, 72, 0xa574ed6c, [⟨52, none, false, .bare 34⟩, ⟨16, none, false, .bytes⟩], unpackLE 76 [0x767265536574696c, 0x6b636f6c622e7265, 0x3a64692061746144, 0x2e65646f4e6e6f74, 0x4564496b636f6c62, 0x3a61746164207478, 0x203d207365747962, 0x767265536574696c, 0x6b636f6c422e7265, 0x61746144]⟩,
  -- liteServer.blockState id:tonNode.blockIdExt root_hash:int256 file_hash:int256 data:bytes = liteServer.BlockState
  ⟨73, 74, 0xabaddc0c, [⟨52, none, false, .bare 34⟩, ⟨36, none, false, .int256⟩, ⟨37, none, false, .int256⟩, ⟨16, none, false, .bytes⟩], unpackLE 112 [0x767265536574696c, 0x6b636f6c622e7265, 0x6469206574617453, 0x65646f4e6e6f743a, 0x64496b636f6c622e, 0x746f6f7220747845, 0x6e693a687361685f, 0x6c69662036353274, 0x693a687361685f65, 0x616420363532746e, 0x73657479623a6174, 0x536574696c203d20, 0x6c422e7265767265, 0x65746174536b636f]⟩,
  -- liteServer.blockHeader id:tonNode.blockIdExt mode:# header_proof:bytes = liteServer.BlockHeader
  ⟨75, 76, 0x752d8219, [⟨52, none, false, .bare 34⟩, ⟨0, none, false, .nat⟩, ⟨77, none, false, .bytes⟩], unpackLE 95 [0x767265536574696c, 0x6b636f6c622e7265, 0x6920726564616548, 0x646f4e6e6f743a64, 0x496b636f6c622e65, 0x646f6d2074784564, 0x6461656820233a65, 0x666f6f72705f7265, 0x3d2073657479623a, 0x7265536574696c20, 0x636f6c422e726576, 0x7265646165486b]⟩,
  -- liteServer.sendMsgStatus status:int = liteServer.SendMsgStatus
  ⟨78, 79, 0x3950e597, [⟨80, none, false, .int⟩], unpackLE 62 [0x767265536574696c, 0x4d646e65732e7265, 0x7375746174536773, 0x3a73757461747320, 0x696c203d20746e69, 0x7265767265536574, 0x67734d646e65532e, 0x737574617453]⟩,
  -- liteServer.accountState id:tonNode.blockIdExt shardblk:tonNode.blockIdExt shard_proof:bytes proof:bytes state:bytes = liteServer.AccountState
  ⟨81, 82, 0x7079c751, [⟨52, none, false, .bare 34⟩, ⟨83, none, false, .bare 34⟩, ⟨84, none, false, .bytes⟩, ⟨85, none, false, .bytes⟩, ⟨86, none, false, .bytes⟩], unpackLE 141 [0x767265536574696c, 0x756f6363612e7265, 0x206574617453746e, 0x6f4e6e6f743a6469, 0x6b636f6c622e6564, 0x6873207478456449, 0x743a6b6c62647261, 0x622e65646f4e6e6f, 0x784564496b636f6c, 0x5f64726168732074, 0x79623a666f6f7270, 0x6f6f727020736574, 0x2073657479623a66, 0x79623a6574617473, 0x696c203d20736574, 0x7265767265536574, 0x746e756f6363412e, 0x6574617453]⟩,
  -- liteServer.runMethodResult mode:# id:tonNode.blockIdExt shardblk:tonNode.blockIdExt shard_proof:mode.0?bytes proof:mode.0?bytes state_proof:mode.1?bytes init_c7:mode.3?bytes lib_extras:mode.4?bytes exit_code:int result:mode.2?bytes = liteServer.RunMethodResult
  ⟨87, 88, 0xa39a616b, [⟨0, none, false, .nat⟩, ⟨52, none, false, .bare 34⟩, ⟨83, none, false, .bare 34⟩, ⟨84, some (0, 0), false, .bytes⟩, ⟨85, some (0, 0), false, .bytes⟩, ⟨89, some (0, 1), false, .bytes⟩, ⟨90, some (0, 3), false, .bytes⟩, ⟨91, some (0, 4), false, .bytes⟩, ⟨92, none, false, .int⟩, ⟨93, some (0, 2), false, .bytes⟩], unpackLE 260 [0x767265536574696c, 0x654d6e75722e7265, 0x75736552646f6874, 0x3a65646f6d20746c, 0x6e6f743a64692023, 0x6f6c622e65646f4e, 0x2074784564496b63, 0x6b6c626472616873, 0x65646f4e6e6f743a, 0x64496b636f6c622e, 0x7261687320747845, 0x3a666f6f72705f64, 0x623f302e65646f6d, 0x6f72702073657479, 0x2e65646f6d3a666f, 0x2073657479623f30, 0x72705f6574617473, 0x65646f6d3a666f6f, 0x73657479623f312e, 0x37635f74696e6920, 0x3f332e65646f6d3a, 0x696c207365747962, 0x7361727478655f62, 0x3f342e65646f6d3a, 0x7865207365747962, 0x3a65646f635f7469, 0x7573657220746e69, 0x2e65646f6d3a746c, 0x2073657479623f32, 0x65536574696c203d, 0x6e75522e72657672, 0x6552646f6874654d, 0x746c7573]⟩,
  -- liteServer.shardInfo id:tonNode.blockIdExt shardblk:tonNode.blockIdExt shard_proof:bytes shard_descr:bytes = liteServer.ShardInfo
  ⟨94, 95, 0x9fe6cd84, [⟨52, none, false, .bare 34⟩, ⟨83, none, false, .bare 34⟩, ⟨84, none, false, .bytes⟩, ⟨96, none, false, .bytes⟩], unpackLE 129 [0x767265536574696c, 0x64726168732e7265, 0x3a6469206f666e49, 0x2e65646f4e6e6f74, 0x4564496b636f6c62, 0x6472616873207478, 0x4e6e6f743a6b6c62, 0x636f6c622e65646f, 0x732074784564496b, 0x6f72705f64726168, 0x73657479623a666f, 0x645f647261687320, 0x7479623a72637365, 0x74696c203d207365, 0x2e72657672655365, 0x666e496472616853, 0x6f]⟩,
  -- liteServer.allShardsInfo id:tonNode.blockIdExt proof:bytes data:bytes = liteServer.AllShardsInfo
  ⟨97, 98, 0x098fe72d, [⟨52, none, false, .bare 34⟩, ⟨85, none, false, .bytes⟩, ⟨16, none, false, .bytes⟩], unpackLE 96 [0x767265536574696c, 0x68536c6c612e7265, 0x6f666e4973647261, 0x4e6e6f743a646920, 0x636f6c622e65646f, 0x702074784564496b, 0x7479623a666f6f72, 0x3a61746164207365, 0x203d207365747962, 0x767265536574696c, 0x68536c6c412e7265, 0x6f666e4973647261]⟩,
  -- liteServer.transactionInfo id:tonNode.blockIdExt proof:bytes transaction:bytes = liteServer.TransactionInfo
  ⟨99, 100, 0x0edeed47, [⟨52, none, false, .bare 34⟩, ⟨85, none, false, .bytes⟩, ⟨101, none, false, .bytes⟩], unpackLE 107 [0x767265536574696c, 0x736e6172742e7265, 0x6e496e6f69746361, 0x6f743a6469206f66, 0x6c622e65646f4e6e, 0x74784564496b636f, 0x623a666f6f727020, 0x6172742073657479, 0x6e6f69746361736e, 0x3d2073657479623a, 0x7265536574696c20, 0x6e6172542e726576, 0x496e6f6974636173, 0x6f666e]⟩,
  -- liteServer.transactionList ids:vector tonNode.blockIdExt transactions:bytes = liteServer.TransactionList
  ⟨102, 103, 0x6f26c60b, [⟨104, none, true, .bare 34⟩, ⟨105, none, false, .bytes⟩], unpackLE 104 [0x767265536574696c, 0x736e6172742e7265, 0x694c6e6f69746361, 0x763a736469207473, 0x6f7420726f746365, 0x6c622e65646f4e6e, 0x74784564496b636f, 0x6361736e61727420, 0x79623a736e6f6974, 0x696c203d20736574, 0x7265767265536574, 0x6361736e6172542e, 0x7473694c6e6f6974]⟩,
  -- liteServer.transactionId mode:# account:mode.0?int256 lt:mode.1?long hash:mode.2?int256 = liteServer.TransactionId
  ⟨106, 107, 0xb12f65af, [⟨0, none, false, .nat⟩, ⟨108, some (0, 0), false, .int256⟩, ⟨109, some (0, 1), false, .long⟩, ⟨55, some (0, 2), false, .int256⟩], unpackLE 114 [0x767265536574696c, 0x736e6172742e7265, 0x64496e6f69746361, 0x20233a65646f6d20, 0x3a746e756f636361, 0x693f302e65646f6d, 0x746c20363532746e, 0x3f312e65646f6d3a, 0x73616820676e6f6c, 0x322e65646f6d3a68, 0x20363532746e693f, 0x65536574696c203d, 0x6172542e72657672, 0x6e6f69746361736e, 0x6449]⟩,
  -- liteServer.transactionId3 account:int256 lt:long = liteServer.TransactionId3
  ⟨110, 111, 0x2c81da77, [⟨108, none, false, .int256⟩, ⟨109, none, false, .long⟩], unpackLE 76 [0x767265536574696c, 0x736e6172742e7265, 0x64496e6f69746361, 0x6e756f6363612033, 0x363532746e693a74, 0x676e6f6c3a746c20, 0x536574696c203d20, 0x72542e7265767265, 0x6f69746361736e61, 0x3364496e]⟩,
  -- liteServer.blockTransactions id:tonNode.blockIdExt req_count:# incomplete:Bool ids:vector liteServer.transactionId proof:bytes = liteServer.BlockTransactions
  ⟨112, 113, 0xbd8cad2b, [⟨52, none, false, .bare 34⟩, ⟨114, none, false, .nat⟩, ⟨115, none, false, .bool⟩, ⟨104, none, true, .bare 106⟩, ⟨85, none, false, .bytes⟩], unpackLE 157 [0x767265536574696c, 0x6b636f6c622e7265, 0x746361736e617254, 0x3a646920736e6f69, 0x2e65646f4e6e6f74, 0x4564496b636f6c62, 0x635f716572207478, 0x6920233a746e756f, 0x74656c706d6f636e, 0x69206c6f6f423a65, 0x6f746365763a7364, 0x65536574696c2072, 0x6172742e72657672, 0x6e6f69746361736e, 0x666f6f7270206449, 0x3d2073657479623a, 0x7265536574696c20, 0x636f6c422e726576, 0x6361736e6172546b, 0x736e6f6974]⟩,
  -- liteServer.blockTransactionsExt id:tonNode.blockIdExt req_count:# incomplete:Bool transactions:bytes proof:bytes = liteServer.BlockTransactionsExt
  ⟨116, 117, 0xfb8ffce4, [⟨52, none, false, .bare 34⟩, ⟨114, none, false, .nat⟩, ⟨115, none, false, .bool⟩, ⟨105, none, false, .bytes⟩, ⟨85, none, false, .bytes⟩], unpackLE 146 [0x767265536574696c, 0x6b636f6c622e7265, 0x746361736e617254, 0x20747845736e6f69, 0x6f4e6e6f743a6469, 0x6b636f6c622e6564, 0x6572207478456449, 0x3a746e756f635f71, 0x706d6f636e692023, 0x6f6f423a6574656c, 0x61736e617274206c, 0x623a736e6f697463, 0x6f72702073657479, 0x73657479623a666f, 0x536574696c203d20, 0x6c422e7265767265, 0x736e6172546b636f, 0x45736e6f69746361, 0x7478]⟩,
  -- liteServer.signature node_id_short:int256 signature:bytes = liteServer.Signature
  ⟨118, 119, 0xa3def855, [⟨120, none, false, .int256⟩, ⟨121, none, false, .bytes⟩], unpackLE 80 [0x767265536574696c, 0x616e6769732e7265, 0x646f6e2065727574, 0x6f68735f64695f65, 0x3532746e693a7472, 0x74616e6769732036, 0x657479623a657275, 0x6574696c203d2073, 0x532e726576726553, 0x65727574616e6769]⟩
]

def chunk1 : List Ctor := [
  -- liteServer.signatureSet validator_set_hash:int catchain_seqno:int signatures:vector liteServer.signature = liteServer.SignatureSet
  ⟨122, 123, 0xf644a6e6, [⟨124, none, false, .int⟩, ⟨125, none, false, .int⟩, ⟨126, none, true, .bare 118⟩], unpackLE 130 [0x767265536574696c, 0x616e6769732e7265, 0x2074655365727574, 0x6f746164696c6176, 0x61685f7465735f72, 0x6320746e693a6873, 0x5f6e696168637461, 0x6e693a6f6e716573, 0x74616e6769732074, 0x6365763a73657275, 0x6574696c20726f74, 0x732e726576726553, 0x65727574616e6769, 0x536574696c203d20, 0x69532e7265767265, 0x5365727574616e67, 0x7465]⟩,
  -- liteServer.blockLinkBack to_key_block:Bool from:tonNode.blockIdExt to:tonNode.blockIdExt dest_proof:bytes proof:bytes state_proof:bytes = liteServer.BlockLink
  ⟨127, 128, 0xef7e1bef, [⟨129, none, false, .bool⟩, ⟨130, none, false, .bare 34⟩, ⟨131, none, false, .bare 34⟩, ⟨132, none, false, .bytes⟩, ⟨85, none, false, .bytes⟩, ⟨89, none, false, .bytes⟩], unpackLE 158 [0x767265536574696c, 0x6b636f6c622e7265, 0x6b6361426b6e694c, 0x5f79656b5f6f7420, 0x6f423a6b636f6c62, 0x3a6d6f7266206c6f, 0x2e65646f4e6e6f74, 0x4564496b636f6c62, 0x6f743a6f74207478, 0x6c622e65646f4e6e, 0x74784564496b636f, 0x72705f7473656420, 0x657479623a666f6f, 0x3a666f6f72702073, 0x7473207365747962, 0x6f6f72705f657461, 0x2073657479623a66, 0x65536574696c203d, 0x6f6c422e72657672, 0x6b6e694c6b63]⟩,
  -- liteServer.blockLinkForward to_key_block:Bool from:tonNode.blockIdExt to:tonNode.blockIdExt dest_proof:bytes config_proof:bytes signatures:liteServer.SignatureSet = liteServer.BlockLink
  ⟨133, 128, 0x520fce1c, [⟨129, none, false, .bool⟩, ⟨130, none, false, .bare 34⟩, ⟨131, none, false, .bare 34⟩, ⟨132, none, false, .bytes⟩, ⟨134, none, false, .bytes⟩, ⟨126, none, false, .boxed 123⟩], unpackLE 185 [0x767265536574696c, 0x6b636f6c622e7265, 0x77726f466b6e694c, 0x6b5f6f7420647261, 0x6b636f6c625f7965, 0x7266206c6f6f423a, 0x6f4e6e6f743a6d6f, 0x6b636f6c622e6564, 0x6f74207478456449, 0x65646f4e6e6f743a, 0x64496b636f6c622e, 0x7473656420747845, 0x623a666f6f72705f, 0x6e6f632073657479, 0x6f6f72705f676966, 0x2073657479623a66, 0x727574616e676973, 0x536574696c3a7365, 0x69532e7265767265, 0x5365727574616e67, 0x74696c203d207465, 0x2e72657672655365, 0x6e694c6b636f6c42, 0x6b]⟩,
  -- liteServer.partialBlockProof complete:Bool from:tonNode.blockIdExt to:tonNode.blockIdExt steps:vector liteServer.BlockLink = liteServer.PartialBlockProof
  ⟨135, 136, 0x8ed0d2c1, [⟨137, none, false, .bool⟩, ⟨130, none, false, .bare 34⟩, ⟨131, none, false, .bare 34⟩, ⟨138, none, true, .boxed 128⟩], unpackLE 153 [0x767265536574696c, 0x69747261702e7265, 0x506b636f6c426c61, 0x6d6f6320666f6f72, 0x6f423a6574656c70, 0x3a6d6f7266206c6f, 0x2e65646f4e6e6f74, 0x4564496b636f6c62, 0x6f743a6f74207478, 0x6c622e65646f4e6e, 0x74784564496b636f, 0x763a737065747320, 0x696c20726f746365, 0x7265767265536574, 0x694c6b636f6c422e, 0x74696c203d206b6e, 0x2e72657672655365, 0x426c616974726150, 0x6f6f72506b636f6c, 0x66]⟩,
  -- liteServer.configInfo mode:# id:tonNode.blockIdExt state_proof:bytes config_proof:bytes = liteServer.ConfigInfo
  ⟨139, 140, 0xae7b272f, [⟨0, none, false, .nat⟩, ⟨52, none, false, .bare 34⟩, ⟨89, none, false, .bytes⟩, ⟨134, none, false, .bytes⟩], unpackLE 111 [0x767265536574696c, 0x69666e6f632e7265, 0x6f6d206f666e4967, 0x3a646920233a6564, 0x2e65646f4e6e6f74, 0x4564496b636f6c62, 0x6574617473207478, 0x623a666f6f72705f, 0x6e6f632073657479, 0x6f6f72705f676966, 0x2073657479623a66, 0x65536574696c203d, 0x6e6f432e72657672, 0x6f666e49676966]⟩,
  -- liteServer.validatorStats mode:# id:tonNode.blockIdExt count:int complete:Bool state_proof:bytes data_proof:bytes = liteServer.ValidatorStats
  ⟨141, 142, 0xb9f796d8, [⟨0, none, false, .nat⟩, ⟨52, none, false, .bare 34⟩, ⟨143, none, false, .int⟩, ⟨137, none, false, .bool⟩, ⟨89, none, false, .bytes⟩, ⟨144, none, false, .bytes⟩], unpackLE 141 [0x767265536574696c, 0x64696c61762e7265, 0x74617453726f7461, 0x233a65646f6d2073, 0x4e6e6f743a646920, 0x636f6c622e65646f, 0x632074784564496b, 0x746e693a746e756f, 0x74656c706d6f6320, 0x73206c6f6f423a65, 0x6f72705f65746174, 0x73657479623a666f, 0x72705f6174616420, 0x657479623a666f6f, 0x6574696c203d2073, 0x562e726576726553, 0x726f746164696c61, 0x7374617453]⟩,
  -- liteServer.libraryResult result:vector liteServer.libraryEntry = liteServer.LibraryResult
  ⟨145, 146, 0x117ab96b, [⟨93, none, true, .bare 53⟩], unpackLE 89 [0x767265536574696c, 0x617262696c2e7265, 0x746c757365527972, 0x3a746c7573657220, 0x6c20726f74636576, 0x6576726553657469, 0x72617262696c2e72, 0x3d207972746e4579, 0x7265536574696c20, 0x7262694c2e726576, 0x6c75736552797261, 0x74]⟩,
  -- liteServer.libraryResultWithProof id:tonNode.blockIdExt mode:# result:vector liteServer.libraryEntry state_proof:bytes data_proof:bytes = liteServer.LibraryResultWithProof
  ⟨147, 148, 0x10a927bf, [⟨52, none, false, .bare 34⟩, ⟨0, none, false, .nat⟩, ⟨93, none, true, .bare 53⟩, ⟨89, none, false, .bytes⟩, ⟨144, none, false, .bytes⟩], unpackLE 171 [0x767265536574696c, 0x617262696c2e7265, 0x746c757365527972, 0x6f6f725068746957, 0x6e6f743a64692066, 0x6f6c622e65646f4e, 0x2074784564496b63, 0x7220233a65646f6d, 0x65763a746c757365, 0x74696c20726f7463, 0x2e72657672655365, 0x457972617262696c, 0x617473207972746e, 0x666f6f72705f6574, 0x642073657479623a, 0x6f6f72705f617461, 0x2073657479623a66, 0x65536574696c203d, 0x62694c2e72657672, 0x7573655279726172, 0x725068746957746c, 0x666f6f]⟩,
  -- liteServer.shardBlockLink id:tonNode.blockIdExt proof:bytes = liteServer.ShardBlockLink
  ⟨149, 150, 0xd30dcf72, [⟨52, none, false, .bare 34⟩, ⟨85, none, false, .bytes⟩], unpackLE 87 [0x767265536574696c, 0x64726168732e7265, 0x6e694c6b636f6c42, 0x6e6f743a6469206b, 0x6f6c622e65646f4e, 0x2074784564496b63, 0x79623a666f6f7270, 0x696c203d20736574, 0x7265767265536574, 0x6c4264726168532e, 0x6b6e694c6b636f]⟩,
  -- liteServer.shardBlockProof masterchain_id:tonNode.blockIdExt links:vector liteServer.shardBlockLink = liteServer.ShardBlockProof
  ⟨151, 152, 0x1d62a07a, [⟨153, none, false, .bare 34⟩, ⟨154, none, true, .bare 149⟩], unpackLE 128 [0x767265536574696c, 0x64726168732e7265, 0x6f72506b636f6c42, 0x657473616d20666f, 0x695f6e6961686372, 0x646f4e6e6f743a64, 0x496b636f6c622e65, 0x6e696c2074784564, 0x6f746365763a736b, 0x65536574696c2072, 0x6168732e72657672, 0x4c6b636f6c426472, 0x696c203d206b6e69, 0x7265767265536574, 0x6c4264726168532e, 0x666f6f72506b636f]⟩,
  -- liteServer.lookupBlockResult id:tonNode.blockIdExt mode:# mc_block_id:tonNode.blockIdExt client_mc_state_proof:bytes mc_block_proof:bytes shard_links:vector liteServer.shardBlockLink header:bytes prev_header:bytes = liteServer.LookupBlockResult
  ⟨155, 156, 0x99786be7, [⟨52, none, false, .bare 34⟩, ⟨0, none, false, .nat⟩, ⟨157, none, false, .bare 34⟩, ⟨158, none, false, .bytes⟩, ⟨159, none, false, .bytes⟩, ⟨160, none, true, .bare 149⟩, ⟨161, none, false, .bytes⟩, ⟨162, none, false, .bytes⟩], unpackLE 244 [0x767265536574696c, 0x756b6f6f6c2e7265, 0x65526b636f6c4270, 0x3a646920746c7573, 0x2e65646f4e6e6f74, 0x4564496b636f6c62, 0x3a65646f6d207478, 0x6f6c625f636d2023, 0x6f743a64695f6b63, 0x6c622e65646f4e6e, 0x74784564496b636f, 0x5f746e65696c6320, 0x65746174735f636d, 0x623a666f6f72705f, 0x5f636d2073657479, 0x72705f6b636f6c62, 0x657479623a666f6f, 0x5f64726168732073, 0x65763a736b6e696c, 0x74696c20726f7463, 0x2e72657672655365, 0x6f6c426472616873, 0x68206b6e694c6b63, 0x79623a7265646165, 0x7665727020736574, 0x3a7265646165685f, 0x203d207365747962, 0x767265536574696c, 0x756b6f6f4c2e7265, 0x65526b636f6c4270, 0x746c7573]⟩,
  -- liteServer.outMsgQueueSize id:tonNode.blockIdExt size:int = liteServer.OutMsgQueueSize
  ⟨163, 164, 0xa7c64c85, [⟨52, none, false, .bare 34⟩, ⟨165, none, false, .int⟩], unpackLE 86 [0x767265536574696c, 0x734d74756f2e7265, 0x6953657565755167, 0x6f743a646920657a, 0x6c622e65646f4e6e, 0x74784564496b636f, 0x6e693a657a697320, 0x6574696c203d2074, 0x4f2e726576726553, 0x65755167734d7475, 0x657a69536575]⟩,
  -- liteServer.outMsgQueueSizes shards:vector liteServer.outMsgQueueSize ext_msg_queue_size_limit:int = liteServer.OutMsgQueueSizes
  ⟨166, 167, 0xf8504a03, [⟨168, none, true, .bare 163⟩, ⟨169, none, false, .int⟩], unpackLE 127 [0x767265536574696c, 0x734d74756f2e7265, 0x6953657565755167, 0x726168732073657a, 0x6f746365763a7364, 0x65536574696c2072, 0x74756f2e72657672, 0x657565755167734d, 0x74786520657a6953, 0x6575715f67736d5f, 0x5f657a69735f6575, 0x6e693a74696d696c, 0x6574696c203d2074, 0x4f2e726576726553, 0x65755167734d7475, 0x73657a69536575]⟩,
  -- liteServer.debug.verbosity value:int = liteServer.debug.Verbosity
  ⟨170, 171, 0x5d404733, [⟨172, none, false, .int⟩], unpackLE 65 [0x767265536574696c, 0x67756265642e7265, 0x69736f627265762e, 0x65756c6176207974, 0x6c203d20746e693a, 0x6576726553657469, 0x2e67756265642e72, 0x7469736f62726556, 0x79]⟩,
  -- liteServer.nonfinal.candidateId block_id:tonNode.blockIdExt creator:int256 collated_data_hash:int256 = liteServer.nonfinal.CandidateId
  ⟨173, 174, 0x55047fee, [⟨175, none, false, .bare 34⟩, ⟨176, none, false, .int256⟩, ⟨177, none, false, .int256⟩], unpackLE 134 [0x767265536574696c, 0x69666e6f6e2e7265, 0x646e61632e6c616e, 0x2064496574616469, 0x64695f6b636f6c62, 0x65646f4e6e6f743a, 0x64496b636f6c622e, 0x6165726320747845, 0x32746e693a726f74, 0x616c6c6f63203635, 0x617461645f646574, 0x6e693a687361685f, 0x6c203d2036353274, 0x6576726553657469, 0x6e69666e6f6e2e72, 0x69646e61432e6c61, 0x644965746164]⟩,
  -- liteServer.nonfinal.candidate id:liteServer.nonfinal.candidateId data:bytes collated_data:bytes = liteServer.nonfinal.Candidate
  ⟨178, 179, 0x80c3468c, [⟨52, none, false, .bare 173⟩, ⟨16, none, false, .bytes⟩, ⟨180, none, false, .bytes⟩], unpackLE 127 [0x767265536574696c, 0x69666e6f6e2e7265, 0x646e61632e6c616e, 0x6469206574616469, 0x7265536574696c3a, 0x666e6f6e2e726576, 0x6e61632e6c616e69, 0x6449657461646964, 0x79623a6174616420, 0x6c6c6f6320736574, 0x7461645f64657461, 0x2073657479623a61, 0x65536574696c203d, 0x6e6f6e2e72657672, 0x61432e6c616e6966, 0x6574616469646e]⟩,
  -- liteServer.nonfinal.candidateInfo id:liteServer.nonfinal.candidateId available:Bool approved_weight:long signed_weight:long total_weight:long = liteServer.nonfinal.CandidateInfo
  ⟨181, 182, 0x4dec01d5, [⟨52, none, false, .bare 173⟩, ⟨183, none, false, .bool⟩, ⟨184, none, false, .long⟩, ⟨185, none, false, .long⟩, ⟨186, none, false, .long⟩], unpackLE 177 [0x767265536574696c, 0x69666e6f6e2e7265, 0x646e61632e6c616e, 0x666e496574616469, 0x74696c3a6469206f, 0x2e72657672655365, 0x6c616e69666e6f6e, 0x616469646e61632e, 0x6176612064496574, 0x423a656c62616c69, 0x72707061206c6f6f, 0x6965775f6465766f, 0x676e6f6c3a746867, 0x5f64656e67697320, 0x6c3a746867696577, 0x61746f7420676e6f, 0x7468676965775f6c, 0x203d20676e6f6c3a, 0x767265536574696c, 0x69666e6f6e2e7265, 0x646e61432e6c616e, 0x666e496574616469, 0x6f]⟩,
  -- liteServer.nonfinal.validatorGroupInfo next_block_id:tonNode.blockId cc_seqno:int prev:vector tonNode.blockIdExt candidates:vector liteServer.nonfinal.candidateInfo = liteServer.nonfinal.ValidatorGroupInfo
  ⟨187, 188, 0xf9d68aa7, [⟨189, none, false, .bare 29⟩, ⟨190, none, false, .int⟩, ⟨191, none, true, .bare 34⟩, ⟨192, none, true, .bare 181⟩], unpackLE 205 [0x767265536574696c, 0x69666e6f6e2e7265, 0x696c61762e6c616e, 0x6f7247726f746164, 0x6e206f666e497075, 0x636f6c625f747865, 0x6e6f743a64695f6b, 0x6f6c622e65646f4e, 0x5f63632064496b63, 0x6e693a6f6e716573, 0x763a766572702074, 0x6f7420726f746365, 0x6c622e65646f4e6e, 0x74784564496b636f, 0x616469646e616320, 0x746365763a736574, 0x536574696c20726f, 0x6f6e2e7265767265, 0x632e6c616e69666e, 0x6574616469646e61, 0x6c203d206f666e49, 0x6576726553657469, 0x6e69666e6f6e2e72, 0x64696c61562e6c61, 0x756f7247726f7461, 0x6f666e4970]⟩,
  -- liteServer.nonfinal.validatorGroups groups:vector liteServer.nonfinal.validatorGroupInfo = liteServer.nonfinal.ValidatorGroups
  ⟨193, 194, 0x8d0b9dfe, [⟨195, none, true, .bare 187⟩], unpackLE 126 [0x767265536574696c, 0x69666e6f6e2e7265, 0x696c61762e6c616e, 0x6f7247726f746164, 0x756f726720737075, 0x6f746365763a7370, 0x65536574696c2072, 0x6e6f6e2e72657672, 0x61762e6c616e6966, 0x47726f746164696c, 0x6f666e4970756f72, 0x536574696c203d20, 0x6f6e2e7265767265, 0x562e6c616e69666e, 0x726f746164696c61, 0x7370756f7247]⟩,
  -- liteServer.getMasterchainInfo = liteServer.MasterchainInfo
  ⟨196, 57, 0x89b5e62e, [], unpackLE 58 [0x767265536574696c, 0x614d7465672e7265, 0x6961686372657473, 0x203d206f666e496e, 0x767265536574696c, 0x657473614d2e7265, 0x6e496e6961686372, 0x6f66]⟩,
  -- liteServer.getMasterchainInfoExt mode:# = liteServer.MasterchainInfoExt
  ⟨197, 62, 0x70a671df, [⟨0, none, false, .nat⟩], unpackLE 71 [0x767265536574696c, 0x614d7465672e7265, 0x6961686372657473, 0x7478456f666e496e, 0x20233a65646f6d20, 0x65536574696c203d, 0x73614d2e72657672, 0x6e69616863726574, 0x7478456f666e49]⟩,
  -- liteServer.getTime = liteServer.CurrentTime
  ⟨198, 68, 0x16ad5a34, [], unpackLE 43 [0x767265536574696c, 0x69547465672e7265, 0x74696c203d20656d, 0x2e72657672655365, 0x54746e6572727543, 0x656d69]⟩,
  -- liteServer.getVersion = liteServer.Version
  ⟨199, 70, 0x232b940b, [], unpackLE 42 [0x767265536574696c, 0x65567465672e7265, 0x203d206e6f697372, 0x767265536574696c, 0x69737265562e7265, 0x6e6f]⟩,
  -- liteServer.getBlock id:tonNode.blockIdExt = liteServer.BlockData
  ⟨200, 72, 0x6377cf0d, [⟨52, none, false, .bare 34⟩], unpackLE 64 [0x767265536574696c, 0x6c427465672e7265, 0x743a6469206b636f, 0x622e65646f4e6e6f, 0x784564496b636f6c, 0x6574696c203d2074, 0x422e726576726553, 0x617461446b636f6c]⟩,
  -- liteServer.getState id:tonNode.blockIdExt = liteServer.BlockState
  ⟨201, 74, 0xba6e2eb6, [⟨52, none, false, .bare 34⟩], unpackLE 65 [0x767265536574696c, 0x74537465672e7265, 0x743a646920657461, 0x622e65646f4e6e6f, 0x784564496b636f6c, 0x6574696c203d2074, 0x422e726576726553, 0x746174536b636f6c, 0x65]⟩,
  -- liteServer.getBlockHeader id:tonNode.blockIdExt mode:# = liteServer.BlockHeader
  ⟨202, 76, 0x21ec069e, [⟨52, none, false, .bare 34⟩, ⟨0, none, false, .nat⟩], unpackLE 79 [0x767265536574696c, 0x6c427465672e7265, 0x65646165486b636f, 0x6e6f743a64692072, 0x6f6c622e65646f4e, 0x2074784564496b63, 0x3d20233a65646f6d, 0x7265536574696c20, 0x636f6c422e726576, 0x7265646165486b]⟩,
  -- liteServer.sendMessage body:bytes = liteServer.SendMsgStatus
  ⟨203, 79, 0x690ad482, [⟨204, none, false, .bytes⟩], unpackLE 60 [0x767265536574696c, 0x4d646e65732e7265, 0x6220656761737365, 0x657479623a79646f, 0x6574696c203d2073, 0x532e726576726553, 0x745367734d646e65, 0x73757461]⟩,
  -- liteServer.getAccountState id:tonNode.blockIdExt account:liteServer.accountId = liteServer.AccountState
  ⟨205, 82, 0x6b890e25, [⟨52, none, false, .bare 34⟩, ⟨108, none, false, .bare 50⟩], unpackLE 103 [0x767265536574696c, 0x63417465672e7265, 0x617453746e756f63, 0x6f743a6469206574, 0x6c622e65646f4e6e, 0x74784564496b636f, 0x746e756f63636120, 0x7265536574696c3a, 0x6f6363612e726576, 0x203d206449746e75, 0x767265536574696c, 0x756f6363412e7265, 0x6574617453746e]⟩,
  -- liteServer.getAccountStatePrunned id:tonNode.blockIdExt account:liteServer.accountId = liteServer.AccountState
  ⟨206, 82, 0x5a698507, [⟨52, none, false, .bare 34⟩, ⟨108, none, false, .bare 50⟩], unpackLE 110 [0x767265536574696c, 0x63417465672e7265, 0x617453746e756f63, 0x656e6e7572506574, 0x6e6f743a64692064, 0x6f6c622e65646f4e, 0x2074784564496b63, 0x3a746e756f636361, 0x767265536574696c, 0x756f6363612e7265, 0x6c203d206449746e, 0x6576726553657469, 0x6e756f6363412e72, 0x657461745374]⟩,
  -- liteServer.runSmcMethod mode:# id:tonNode.blockIdExt account:liteServer.accountId method_id:long params:bytes = liteServer.RunMethodResult
  ⟨207, 88, 0x5cc65dd2, [⟨0, none, false, .nat⟩, ⟨52, none, false, .bare 34⟩, ⟨108, none, false, .bare 50⟩, ⟨208, none, false, .long⟩, ⟨209, none, false, .bytes⟩], unpackLE 138 [0x767265536574696c, 0x6d536e75722e7265, 0x20646f6874654d63, 0x6920233a65646f6d, 0x646f4e6e6f743a64, 0x496b636f6c622e65, 0x6363612074784564, 0x74696c3a746e756f, 0x2e72657672655365, 0x49746e756f636361, 0x646f6874656d2064, 0x676e6f6c3a64695f, 0x3a736d6172617020, 0x203d207365747962, 0x767265536574696c, 0x654d6e75522e7265, 0x75736552646f6874, 0x746c]⟩,
  -- liteServer.getShardInfo id:tonNode.blockIdExt workchain:int shard:long exact:Bool = liteServer.ShardInfo
  ⟨210, 95, 0x46a2f425, [⟨52, none, false, .bare 34⟩, ⟨31, none, false, .int⟩, ⟨32, none, false, .long⟩, ⟨211, none, false, .bool⟩], unpackLE 104 [0x767265536574696c, 0x68537465672e7265, 0x206f666e49647261, 0x6f4e6e6f743a6469, 0x6b636f6c622e6564, 0x6f77207478456449, 0x3a6e696168636b72, 0x7261687320746e69, 0x6520676e6f6c3a64, 0x6f6f423a74636178, 0x6574696c203d206c, 0x532e726576726553, 0x6f666e4964726168]⟩,
  -- liteServer.getAllShardsInfo id:tonNode.blockIdExt = liteServer.AllShardsInfo
  ⟨212, 98, 0x74d3fd6b, [⟨52, none, false, .bare 34⟩], unpackLE 76 [0x767265536574696c, 0x6c417465672e7265, 0x497364726168536c, 0x743a6469206f666e, 0x622e65646f4e6e6f, 0x784564496b636f6c, 0x6574696c203d2074, 0x412e726576726553, 0x7364726168536c6c, 0x6f666e49]⟩,
  -- liteServer.getOneTransaction id:tonNode.blockIdExt account:liteServer.accountId lt:long = liteServer.TransactionInfo
  ⟨213, 100, 0xd40f24ea, [⟨52, none, false, .bare 34⟩, ⟨108, none, false, .bare 50⟩, ⟨109, none, false, .long⟩], unpackLE 116 [0x767265536574696c, 0x6e4f7465672e7265, 0x6361736e61725465, 0x3a6469206e6f6974, 0x2e65646f4e6e6f74, 0x4564496b636f6c62, 0x756f636361207478, 0x536574696c3a746e, 0x63612e7265767265, 0x206449746e756f63, 0x20676e6f6c3a746c, 0x65536574696c203d, 0x6172542e72657672, 0x6e6f69746361736e, 0x6f666e49]⟩,
  -- liteServer.getTransactions count:# account:liteServer.accountId lt:long hash:int256 = liteServer.TransactionList
  ⟨214, 103, 0x1c40e7a1, [⟨143, none, false, .nat⟩, ⟨108, none, false, .bare 50⟩, ⟨109, none, false, .long⟩, ⟨55, none, false, .int256⟩], unpackLE 112 [0x767265536574696c, 0x72547465672e7265, 0x6f69746361736e61, 0x746e756f6320736e, 0x756f63636120233a, 0x536574696c3a746e, 0x63612e7265767265, 0x206449746e756f63, 0x20676e6f6c3a746c, 0x746e693a68736168, 0x696c203d20363532, 0x7265767265536574, 0x6361736e6172542e, 0x7473694c6e6f6974]⟩,
  -- liteServer.lookupBlock mode:# id:tonNode.blockId lt:mode.1?long utime:mode.2?int = liteServer.BlockHeader
  ⟨215, 76, 0xfac8f71e, [⟨0, none, false, .nat⟩, ⟨52, none, false, .bare 29⟩, ⟨109, some (0, 1), false, .long⟩, ⟨216, some (0, 2), false, .int⟩], unpackLE 105 [0x767265536574696c, 0x756b6f6f6c2e7265, 0x6d206b636f6c4270, 0x646920233a65646f, 0x65646f4e6e6f743a, 0x64496b636f6c622e, 0x65646f6d3a746c20, 0x20676e6f6c3f312e, 0x6f6d3a656d697475, 0x746e693f322e6564, 0x536574696c203d20, 0x6c422e7265767265, 0x65646165486b636f, 0x72]⟩,
  -- liteServer.lookupBlockWithProof mode:# id:tonNode.blockId mc_block_id:tonNode.blockIdExt lt:mode.1?long utime:mode.2?int = liteServer.LookupBlockResult
  ⟨217, 156, 0x9c045ff8, [⟨0, none, false, .nat⟩, ⟨52, none, false, .bare 29⟩, ⟨157, none, false, .bare 34⟩, ⟨109, some (0, 1), false, .long⟩, ⟨216, some (0, 2), false, .int⟩], unpackLE 151 [0x767265536574696c, 0x756b6f6f6c2e7265, 0x69576b636f6c4270, 0x20666f6f72506874, 0x6920233a65646f6d, 0x646f4e6e6f743a64, 0x496b636f6c622e65, 0x6f6c625f636d2064, 0x6f743a64695f6b63, 0x6c622e65646f4e6e, 0x74784564496b636f, 0x65646f6d3a746c20, 0x20676e6f6c3f312e, 0x6f6d3a656d697475, 0x746e693f322e6564, 0x536574696c203d20, 0x6f4c2e7265767265, 0x636f6c4270756b6f, 0x746c757365526b]⟩,
  -- liteServer.listBlockTransactions id:tonNode.blockIdExt mode:# count:# after:mode.7?liteServer.transactionId3 reverse_order:mode.6?true want_proof:mode.5?true = liteServer.BlockTransactions
  ⟨218, 113, 0xadfcc7da, [⟨52, none, false, .bare 34⟩, ⟨0, none, false, .nat⟩, ⟨143, none, false, .nat⟩, ⟨219, some (0, 7), false, .bare 110⟩, ⟨220, some (0, 6), false, .bare 17⟩, ⟨221, some (0, 5), false, .bare 17⟩], unpackLE 188 [0x767265536574696c, 0x427473696c2e7265, 0x6e6172546b636f6c, 0x736e6f6974636173, 0x4e6e6f743a646920, 0x636f6c622e65646f, 0x6d2074784564496b, 0x6f6320233a65646f, 0x666120233a746e75, 0x65646f6d3a726574, 0x536574696c3f372e, 0x72742e7265767265, 0x6f69746361736e61, 0x766572203364496e, 0x64726f5f65737265, 0x2e65646f6d3a7265, 0x7720657572743f36, 0x6f6f72705f746e61, 0x352e65646f6d3a66, 0x203d20657572743f, 0x767265536574696c, 0x6b636f6c422e7265, 0x746361736e617254, 0x736e6f69]⟩,
  -- liteServer.listBlockTransactionsExt id:tonNode.blockIdExt mode:# count:# after:mode.7?liteServer.transactionId3 reverse_order:mode.6?true want_proof:mode.5?true = liteServer.BlockTransactionsExt
  ⟨222, 117, 0x0079dd5c, [⟨52, none, false, .bare 34⟩, ⟨0, none, false, .nat⟩, ⟨143, none, false, .nat⟩, ⟨219, some (0, 7), false, .bare 110⟩, ⟨220, some (0, 6), false, .bare 17⟩, ⟨221, some (0, 5), false, .bare 17⟩], unpackLE 194 [0x767265536574696c, 0x427473696c2e7265, 0x6e6172546b636f6c, 0x736e6f6974636173, 0x743a646920747845, 0x622e65646f4e6e6f, 0x784564496b636f6c, 0x233a65646f6d2074, 0x233a746e756f6320, 0x6d3a726574666120, 0x696c3f372e65646f, 0x7265767265536574, 0x6361736e6172742e, 0x203364496e6f6974, 0x5f65737265766572, 0x6f6d3a726564726f, 0x7572743f362e6564, 0x705f746e61772065, 0x646f6d3a666f6f72, 0x657572743f352e65, 0x536574696c203d20, 0x6c422e7265767265, 0x736e6172546b636f, 0x45736e6f69746361, 0x7478]⟩,
  -- liteServer.getBlockProof mode:# known_block:tonNode.blockIdExt target_block:mode.0?tonNode.blockIdExt = liteServer.PartialBlockProof
  ⟨223, 136, 0x8aea9c44, [⟨0, none, false, .nat⟩, ⟨224, none, false, .bare 34⟩, ⟨225, some (0, 0), false, .bare 34⟩], unpackLE 132 [0x767265536574696c, 0x6c427465672e7265, 0x666f6f72506b636f, 0x20233a65646f6d20, 0x6c625f6e776f6e6b, 0x4e6e6f743a6b636f, 0x636f6c622e65646f, 0x742074784564496b, 0x6c625f7465677261, 0x65646f6d3a6b636f, 0x6f4e6e6f743f302e, 0x6b636f6c622e6564, 0x203d207478456449, 0x767265536574696c, 0x69747261502e7265, 0x506b636f6c426c61, 0x666f6f72]⟩,
  -- liteServer.getConfigAll mode:# id:tonNode.blockIdExt = liteServer.ConfigInfo
  ⟨226, 140, 0x911b26b7, [⟨0, none, false, .nat⟩, ⟨52, none, false, .bare 34⟩], unpackLE 76 [0x767265536574696c, 0x6f437465672e7265, 0x206c6c416769666e, 0x6920233a65646f6d, 0x646f4e6e6f743a64, 0x496b636f6c622e65, 0x6c203d2074784564, 0x6576726553657469, 0x6769666e6f432e72, 0x6f666e49]⟩
]

def chunk2 : List Ctor := [
  -- liteServer.getConfigParams mode:# id:tonNode.blockIdExt param_list:vector int = liteServer.ConfigInfo
  ⟨227, 140, 0x2a111c19, [⟨0, none, false, .nat⟩, ⟨52, none, false, .bare 34⟩, ⟨228, none, true, .int⟩], unpackLE 101 [0x767265536574696c, 0x6f437465672e7265, 0x617261506769666e, 0x3a65646f6d20736d, 0x6e6f743a64692023, 0x6f6c622e65646f4e, 0x2074784564496b63, 0x696c5f6d61726170, 0x6f746365763a7473, 0x203d20746e692072, 0x767265536574696c, 0x69666e6f432e7265, 0x6f666e4967]⟩,
  -- liteServer.getValidatorStats#091a58bc mode:# id:tonNode.blockIdExt limit:int start_after:mode.0?int256 modified_after:mode.2?int = liteServer.ValidatorStats
  ⟨229, 142, 0x091a58bc, [⟨0, none, false, .nat⟩, ⟨52, none, false, .bare 34⟩, ⟨230, none, false, .int⟩, ⟨231, some (0, 0), false, .int256⟩, ⟨232, some (0, 2), false, .int⟩], unpackLE 156 [0x767265536574696c, 0x61567465672e7265, 0x53726f746164696c, 0x3139302373746174, 0x6f6d206362383561, 0x3a646920233a6564, 0x2e65646f4e6e6f74, 0x4564496b636f6c62, 0x74696d696c207478, 0x61747320746e693a, 0x72657466615f7472, 0x3f302e65646f6d3a, 0x6d20363532746e69, 0x5f6465696669646f, 0x6f6d3a7265746661, 0x746e693f322e6564, 0x536574696c203d20, 0x61562e7265767265, 0x53726f746164696c, 0x73746174]⟩,
  -- liteServer.getLibraries library_list:vector int256 = liteServer.LibraryResult
  ⟨233, 146, 0xd122b662, [⟨234, none, true, .int256⟩], unpackLE 77 [0x767265536574696c, 0x694c7465672e7265, 0x2073656972617262, 0x5f7972617262696c, 0x6365763a7473696c, 0x32746e6920726f74, 0x74696c203d203635, 0x2e72657672655365, 0x527972617262694c, 0x746c757365]⟩,
  -- liteServer.getLibrariesWithProof id:tonNode.blockIdExt mode:# library_list:vector int256 = liteServer.LibraryResultWithProof
  ⟨235, 148, 0xd97693bd, [⟨52, none, false, .bare 34⟩, ⟨0, none, false, .nat⟩, ⟨234, none, true, .int256⟩], unpackLE 124 [0x767265536574696c, 0x694c7465672e7265, 0x5773656972617262, 0x666f6f7250687469, 0x4e6e6f743a646920, 0x636f6c622e65646f, 0x6d2074784564496b, 0x696c20233a65646f, 0x696c5f7972617262, 0x6f746365763a7473, 0x363532746e692072, 0x536574696c203d20, 0x694c2e7265767265, 0x7365527972617262, 0x5068746957746c75, 0x666f6f72]⟩,
  -- liteServer.getShardBlockProof id:tonNode.blockIdExt = liteServer.ShardBlockProof
  ⟨236, 152, 0x4ca60350, [⟨52, none, false, .bare 34⟩], unpackLE 80 [0x767265536574696c, 0x68537465672e7265, 0x6b636f6c42647261, 0x646920666f6f7250, 0x65646f4e6e6f743a, 0x64496b636f6c622e, 0x696c203d20747845, 0x7265767265536574, 0x6c4264726168532e, 0x666f6f72506b636f]⟩,
  -- liteServer.getOutMsgQueueSizes mode:# wc:mode.0?int shard:mode.0?long = liteServer.OutMsgQueueSizes
  ⟨237, 167, 0x7bc19c36, [⟨0, none, false, .nat⟩, ⟨238, some (0, 0), false, .int⟩, ⟨32, some (0, 0), false, .long⟩], unpackLE 99 [0x767265536574696c, 0x754f7465672e7265, 0x7565755167734d74, 0x6d2073657a695365, 0x637720233a65646f, 0x3f302e65646f6d3a, 0x7261687320746e69, 0x302e65646f6d3a64, 0x203d20676e6f6c3f, 0x767265536574696c, 0x734d74754f2e7265, 0x6953657565755167, 0x73657a]⟩,
  -- liteServer.nonfinal.getValidatorGroups mode:# wc:mode.0?int shard:mode.1?long = liteServer.nonfinal.ValidatorGroups
  ⟨239, 194, 0x8fb12d81, [⟨0, none, false, .nat⟩, ⟨238, some (0, 0), false, .int⟩, ⟨32, some (0, 1), false, .long⟩], unpackLE 115 [0x767265536574696c, 0x69666e6f6e2e7265, 0x567465672e6c616e, 0x726f746164696c61, 0x6d207370756f7247, 0x637720233a65646f, 0x3f302e65646f6d3a, 0x7261687320746e69, 0x312e65646f6d3a64, 0x203d20676e6f6c3f, 0x767265536574696c, 0x69666e6f6e2e7265, 0x696c61562e6c616e, 0x6f7247726f746164, 0x737075]⟩,
  -- liteServer.nonfinal.getCandidate id:liteServer.nonfinal.candidateId = liteServer.nonfinal.Candidate
  ⟨240, 179, 0x300794de, [⟨52, none, false, .bare 173⟩], unpackLE 99 [0x767265536574696c, 0x69666e6f6e2e7265, 0x437465672e6c616e, 0x6574616469646e61, 0x6574696c3a646920, 0x6e2e726576726553, 0x2e6c616e69666e6f, 0x74616469646e6163, 0x696c203d20644965, 0x7265767265536574, 0x616e69666e6f6e2e, 0x6469646e61432e6c, 0x657461]⟩,
  -- liteServer.queryPrefix = Object
  ⟨241, 11, 0x72d3e686, [], unpackLE 31 [0x767265536574696c, 0x79726575712e7265, 0x3d20786966657250, 0x7463656a624f20]⟩,
  -- liteServer.query data:bytes = Object
  ⟨242, 11, 0x798c06df, [⟨16, none, false, .bytes⟩], unpackLE 36 [0x767265536574696c, 0x79726575712e7265, 0x79623a6174616420, 0x624f203d20736574, 0x7463656a]⟩,
  -- liteServer.waitMasterchainSeqno seqno:int timeout_ms:int = Object
  ⟨243, 11, 0xbaeab892, [⟨33, none, false, .int⟩, ⟨244, none, false, .int⟩], unpackLE 65 [0x767265536574696c, 0x4d746961772e7265, 0x6168637265747361, 0x206f6e7165536e69, 0x6e693a6f6e716573, 0x756f656d69742074, 0x746e693a736d5f74, 0x63656a624f203d20, 0x74]⟩,
  -- int ? = Int
  ⟨2, 3, 0xa8509bda, [], unpackLE 11 [0x203d203f20746e69, 0x746e49]⟩,
  -- long ? = Long
  ⟨4, 5, 0x22076cba, [], unpackLE 13 [0x3d203f20676e6f6c, 0x676e6f4c20]⟩,
  -- double ? = Double
  ⟨6, 7, 0x2210c154, [], unpackLE 17 [0x3f20656c62756f64, 0x6c62756f44203d20, 0x65]⟩,
  -- string ? = String
  ⟨8, 9, 0xb5286e24, [], unpackLE 17 [0x3f20676e69727473, 0x6e69727453203d20, 0x67]⟩,
  -- object ? = Object
  ⟨10, 11, 0x29704ca0, [], unpackLE 17 [0x3f207463656a626f, 0x63656a624f203d20, 0x74]⟩,
  -- function ? = Function
  ⟨12, 13, 0x7acbc197, [], unpackLE 21 [0x6e6f6974636e7566, 0x6e7546203d203f20, 0x6e6f697463]⟩,
  -- bytes data:string = Bytes
  ⟨14, 15, 0x184614d1, [⟨16, none, false, .string⟩], unpackLE 25 [0x6164207365747962, 0x6e697274733a6174, 0x65747942203d2067, 0x73]⟩,
  -- true = True
  ⟨17, 18, 0x3fedd339, [], unpackLE 11 [0x54203d2065757274, 0x657572]⟩,
  -- boolTrue = Bool
  ⟨19, 20, 0x997275b5, [], unpackLE 15 [0x657572546c6f6f62, 0x6c6f6f42203d20]⟩,
  -- boolFalse = Bool
  ⟨21, 20, 0xbc799737, [], unpackLE 16 [0x736c61466c6f6f62, 0x6c6f6f42203d2065]⟩,
  -- vector t:Type # [ t ] = Vector t
  ⟨22, 23, 0x1cb5c415, [⟨24, none, false, .unsup⟩], unpackLE 32 [0x7420726f74636576, 0x202320657079543a, 0x203d205d2074205b, 0x7420726f74636556]⟩,
  -- int128 4*[ int ] = Int128
  ⟨25, 26, 0x84ccf7b7, [], unpackLE 25 [0x3420383231746e69, 0x5d20746e69205b2a, 0x3231746e49203d20, 0x38]⟩,
  -- int256 8*[ int ] = Int256
  ⟨27, 28, 0x7bedeb5b, [], unpackLE 25 [0x3820363532746e69, 0x5d20746e69205b2a, 0x3532746e49203d20, 0x36]⟩,
  -- testObject value:int o:object f:function = TestObject
  ⟨245, 246, 0xa557498a, [⟨172, none, false, .int⟩, ⟨247, none, false, .bare 10⟩, ⟨248, none, false, .bare 12⟩], unpackLE 53 [0x656a624f74736574, 0x65756c6176207463, 0x6f3a6f20746e693a, 0x3a66207463656a62, 0x6e6f6974636e7566, 0x4f74736554203d20, 0x7463656a62]⟩,
  -- testString value:string = TestObject
  ⟨249, 246, 0xc84571c9, [⟨172, none, false, .string⟩], unpackLE 36 [0x6972745374736574, 0x65756c617620676e, 0x20676e697274733a, 0x624f74736554203d, 0x7463656a]⟩,
  -- testInt value:int = TestObject
  ⟨250, 246, 0x2b9651d1, [⟨172, none, false, .int⟩], unpackLE 30 [0x20746e4974736574, 0x6e693a65756c6176, 0x74736554203d2074, 0x7463656a624f]⟩,
  -- testVectorBytes value:vector bytes = TestObject
  ⟨251, 246, 0x4b8b1bd3, [⟨172, none, true, .bytes⟩], unpackLE 47 [0x7463655674736574, 0x207365747942726f, 0x65763a65756c6176, 0x74796220726f7463, 0x736554203d207365, 0x7463656a624f74]⟩,
  -- tcp.pong random_id:long = tcp.Pong
  ⟨252, 253, 0xdc69fb03, [⟨254, none, false, .long⟩], unpackLE 34 [0x676e6f702e706374, 0x5f6d6f646e617220, 0x20676e6f6c3a6469, 0x6f502e706374203d, 0x676e]⟩,
  -- tcp.authentificate nonce:bytes = tcp.Message
  ⟨255, 256, 0x445bab12, [⟨257, none, false, .bytes⟩], unpackLE 44 [0x687475612e706374, 0x6163696669746e65, 0x65636e6f6e206574, 0x3d2073657479623a, 0x73654d2e70637420, 0x65676173]⟩,
  -- tcp.authentificationNonce nonce:bytes = tcp.Message
  ⟨258, 256, 0xe35d4ab6, [⟨257, none, false, .bytes⟩], unpackLE 51 [0x687475612e706374, 0x6163696669746e65, 0x636e6f4e6e6f6974, 0x3a65636e6f6e2065, 0x203d207365747962, 0x7373654d2e706374, 0x656761]⟩,
  -- tcp.authentificationComplete key:PublicKey signature:bytes = tcp.Message
  ⟨259, 256, 0xf7ad9ea6, [⟨260, none, false, .boxed 277⟩, ⟨121, none, false, .bytes⟩], unpackLE 72 [0x687475612e706374, 0x6163696669746e65, 0x706d6f436e6f6974, 0x79656b206574656c, 0x4b63696c6275503a, 0x616e676973207965, 0x7479623a65727574, 0x706374203d207365, 0x6567617373654d2e]⟩,
  -- fec.raptorQ data_size:int symbol_size:int symbols_count:int = fec.Type
  ⟨261, 262, 0x8b93a7e0, [⟨263, none, false, .int⟩, ⟨264, none, false, .int⟩, ⟨265, none, false, .int⟩], unpackLE 70 [0x747061722e636566, 0x617461642051726f, 0x6e693a657a69735f, 0x6c6f626d79732074, 0x6e693a657a69735f, 0x6c6f626d79732074, 0x3a746e756f635f73, 0x6566203d20746e69, 0x657079542e63]⟩,
  -- fec.roundRobin data_size:int symbol_size:int symbols_count:int = fec.Type
  ⟨266, 262, 0x32f528e4, [⟨263, none, false, .int⟩, ⟨264, none, false, .int⟩, ⟨265, none, false, .int⟩], unpackLE 73 [0x6e756f722e636566, 0x64206e69626f5264, 0x657a69735f617461, 0x6d797320746e693a, 0x657a69735f6c6f62, 0x6d797320746e693a, 0x756f635f736c6f62, 0x3d20746e693a746e, 0x7079542e63656620, 0x65]⟩,
  -- fec.online data_size:int symbol_size:int symbols_count:int = fec.Type
  ⟨267, 262, 0x0127660c, [⟨263, none, false, .int⟩, ⟨264, none, false, .int⟩, ⟨265, none, false, .int⟩], unpackLE 69 [0x696c6e6f2e636566, 0x5f6174616420656e, 0x746e693a657a6973, 0x5f6c6f626d797320, 0x746e693a657a6973, 0x736c6f626d797320, 0x693a746e756f635f, 0x636566203d20746e, 0x657079542e]⟩,
  -- tcp.ping random_id:long = tcp.Pong
  ⟨268, 253, 0x4d082b9a, [⟨254, none, false, .long⟩], unpackLE 34 [0x676e69702e706374, 0x5f6d6f646e617220, 0x20676e6f6c3a6469, 0x6f502e706374203d, 0x676e]⟩,
  -- getTestObject = TestObject
  ⟨269, 246, 0x0bbfa683, [], unpackLE 26 [0x4f74736554746567, 0x203d207463656a62, 0x656a624f74736554, 0x7463]⟩,
  -- pk.unenc data:bytes = PrivateKey
  ⟨270, 271, 0xb1db9b30, [⟨16, none, false, .bytes⟩], unpackLE 32 [0x636e656e752e6b70, 0x79623a6174616420, 0x7250203d20736574, 0x79654b6574617669]⟩,
  -- pk.ed25519 key:int256 = PrivateKey
  ⟨272, 271, 0x49682317, [⟨260, none, false, .int256⟩], unpackLE 34 [0x35353264652e6b70, 0x693a79656b203931, 0x203d20363532746e, 0x4b65746176697250, 0x7965]⟩,
  -- pk.aes key:int256 = PrivateKey
  ⟨273, 271, 0xa5e85137, [⟨260, none, false, .int256⟩], unpackLE 30 [0x6b207365612e6b70, 0x3532746e693a7965, 0x76697250203d2036, 0x79654b657461]⟩
]

def chunk3 : List Ctor := [
  -- pk.overlay name:bytes = PrivateKey
  ⟨274, 271, 0x37a5f65b, [⟨275, none, false, .bytes⟩], unpackLE 34 [0x6c7265766f2e6b70, 0x3a656d616e207961, 0x203d207365747962, 0x4b65746176697250, 0x7965]⟩,
  -- pub.unenc data:bytes = PublicKey
  ⟨276, 277, 0xb61f450a, [⟨16, none, false, .bytes⟩], unpackLE 32 [0x6e656e752e627570, 0x623a617461642063, 0x50203d2073657479, 0x79654b63696c6275]⟩,
  -- pub.ed25519 key:int256 = PublicKey
  ⟨278, 277, 0x4813b4c6, [⟨260, none, false, .int256⟩], unpackLE 34 [0x353264652e627570, 0x3a79656b20393135, 0x3d20363532746e69, 0x4b63696c62755020, 0x7965]⟩,
  -- pub.aes key:int256 = PublicKey
  ⟨279, 277, 0x2dbcadd4, [⟨260, none, false, .int256⟩], unpackLE 30 [0x207365612e627570, 0x32746e693a79656b, 0x627550203d203635, 0x79654b63696c]⟩,
  -- pub.overlay name:bytes = PublicKey
  ⟨280, 277, 0x34ba45cb, [⟨275, none, false, .bytes⟩], unpackLE 34 [0x7265766f2e627570, 0x656d616e2079616c, 0x3d2073657479623a, 0x4b63696c62755020, 0x7965]⟩,
  -- adnl.id.short id:int256 = adnl.id.Short
  ⟨281, 282, 0x3e3f654f, [⟨52, none, false, .int256⟩], unpackLE 39 [0x2e64692e6c6e6461, 0x64692074726f6873, 0x20363532746e693a, 0x692e6c6e6461203d, 0x74726f68532e64]⟩,
  -- adnl.proxyToFastHash ip:int port:int date:int data_hash:int256 shared_secret:int256 = adnl.ProxyTo
  ⟨283, 284, 0xddbdf85e, [⟨285, none, false, .int⟩, ⟨286, none, false, .int⟩, ⟨287, none, false, .int⟩, ⟨288, none, false, .int256⟩, ⟨289, none, false, .int256⟩], unpackLE 98 [0x6f72702e6c6e6461, 0x747361466f547978, 0x3a70692068736148, 0x74726f7020746e69, 0x74616420746e693a, 0x616420746e693a65, 0x3a687361685f6174, 0x7320363532746e69, 0x65735f6465726168, 0x746e693a74657263, 0x6461203d20363532, 0x79786f72502e6c6e, 0x6f54]⟩,
  -- adnl.proxyToFast ip:int port:int date:int signature:int256 = adnl.ProxyToSign
  ⟨290, 291, 0xb4ee21d6, [⟨285, none, false, .int⟩, ⟨286, none, false, .int⟩, ⟨287, none, false, .int⟩, ⟨121, none, false, .int256⟩], unpackLE 77 [0x6f72702e6c6e6461, 0x747361466f547978, 0x20746e693a706920, 0x746e693a74726f70, 0x6e693a6574616420, 0x74616e6769732074, 0x32746e693a657275, 0x6e6461203d203635, 0x5479786f72502e6c, 0x6e6769536f]⟩,
  -- adnl.proxy.none id:int256 = adnl.Proxy
  ⟨292, 293, 0x3532487b, [⟨52, none, false, .int256⟩], unpackLE 38 [0x6f72702e6c6e6461, 0x20656e6f6e2e7978, 0x3532746e693a6469, 0x6c6e6461203d2036, 0x79786f72502e]⟩,
  -- adnl.proxy.fast id:int256 shared_secret:bytes = adnl.Proxy
  ⟨294, 293, 0x3a8b45b5, [⟨52, none, false, .int256⟩, ⟨289, none, false, .bytes⟩], unpackLE 58 [0x6f72702e6c6e6461, 0x20747361662e7978, 0x3532746e693a6469, 0x6465726168732036, 0x3a7465726365735f, 0x203d207365747962, 0x6f72502e6c6e6461, 0x7978]⟩,
  -- adnl.address.udp ip:int port:int = adnl.Address
  ⟨295, 296, 0x670da6e7, [⟨285, none, false, .int⟩, ⟨286, none, false, .int⟩], unpackLE 47 [0x6464612e6c6e6461, 0x7064752e73736572, 0x20746e693a706920, 0x746e693a74726f70, 0x2e6c6e6461203d20, 0x73736572646441]⟩,
  -- adnl.address.udp6 ip:int128 port:int = adnl.Address
  ⟨297, 296, 0xe31d63fa, [⟨285, none, false, .int128⟩, ⟨286, none, false, .int⟩], unpackLE 51 [0x6464612e6c6e6461, 0x7064752e73736572, 0x746e693a70692036, 0x74726f7020383231, 0x61203d20746e693a, 0x726464412e6c6e64, 0x737365]⟩,
  -- adnl.address.tunnel to:int256 pubkey:PublicKey = adnl.Address
  ⟨298, 296, 0x092b02eb, [⟨131, none, false, .int256⟩, ⟨299, none, false, .boxed 277⟩], unpackLE 61 [0x6464612e6c6e6461, 0x6e75742e73736572, 0x693a6f74206c656e, 0x757020363532746e, 0x6275503a79656b62, 0x3d2079654b63696c, 0x64412e6c6e646120, 0x7373657264]⟩,
  -- adnl.address.reverse = adnl.Address
  ⟨300, 296, 0x27795286, [], unpackLE 35 [0x6464612e6c6e6461, 0x7665722e73736572, 0x61203d2065737265, 0x726464412e6c6e64, 0x737365]⟩,
  -- adnl.addressList addrs:vector adnl.Address version:int reinit_date:int priority:int expire_at:int = adnl.AddressList
  ⟨301, 302, 0x2227e658, [⟨303, none, true, .boxed 296⟩, ⟨63, none, false, .int⟩, ⟨304, none, false, .int⟩, ⟨305, none, false, .int⟩, ⟨306, none, false, .int⟩], unpackLE 116 [0x6464612e6c6e6461, 0x7473694c73736572, 0x763a737264646120, 0x646120726f746365, 0x65726464412e6c6e, 0x6973726576207373, 0x7220746e693a6e6f, 0x61645f74696e6965, 0x7020746e693a6574, 0x3a797469726f6972, 0x6970786520746e69, 0x6e693a74615f6572, 0x6c6e6461203d2074, 0x737365726464412e, 0x7473694c]⟩,
  -- adnl.node id:PublicKey addr_list:adnl.addressList = adnl.Node
  ⟨307, 308, 0x6b561285, [⟨52, none, false, .boxed 277⟩, ⟨309, none, false, .bare 301⟩], unpackLE 61 [0x646f6e2e6c6e6461, 0x6275503a64692065, 0x612079654b63696c, 0x7473696c5f726464, 0x64612e6c6e64613a, 0x73694c7373657264, 0x6c6e6461203d2074, 0x65646f4e2e]⟩,
  -- adnl.nodes nodes:vector adnl.node = adnl.Nodes
  ⟨310, 311, 0xa209db56, [⟨312, none, true, .bare 307⟩], unpackLE 46 [0x646f6e2e6c6e6461, 0x7365646f6e207365, 0x20726f746365763a, 0x646f6e2e6c6e6461, 0x6c6e6461203d2065, 0x7365646f4e2e]⟩,
  -- adnl.packetContents rand1:bytes flags:# from:flags.0?PublicKey from_short:flags.1?adnl.id.short message:flags.2?adnl.Message messages:flags.3?vector adnl.Message address:flags.4?adnl.addressList priority_address:flags.5?adnl.addressList seqno:flags.6?long confirm_seqno:flags.7?long recv_addr_list_version:flags.8?int recv_priority_addr_list_version:flags.9?int reinit_date:flags.10?int dst_reinit_date:flags.10?int signature:flags.11?bytes rand2:bytes = adnl.PacketContents
  ⟨313, 314, 0xd142cd89, [⟨315, none, false, .bytes⟩, ⟨1, none, false, .nat⟩, ⟨130, some (1, 0), false, .boxed 277⟩, ⟨316, some (1, 1), false, .bare 281⟩, ⟨49, some (1, 2), false, .boxed 41⟩, ⟨317, some (1, 3), true, .boxed 41⟩, ⟨318, some (1, 4), false, .bare 301⟩, ⟨319, some (1, 5), false, .bare 301⟩, ⟨33, some (1, 6), false, .long⟩, ⟨320, some (1, 7), false, .long⟩, ⟨321, some (1, 8), false, .int⟩, ⟨322, some (1, 9), false, .int⟩, ⟨304, some (1, 10), false, .int⟩, ⟨323, some (1, 10), false, .int⟩, ⟨121, some (1, 11), false, .bytes⟩, ⟨324, none, false, .bytes⟩], unpackLE 474 [0x6361702e6c6e6461, 0x65746e6f4374656b, 0x646e61722073746e, 0x2073657479623a31, 0x20233a7367616c66, 0x616c663a6d6f7266, 0x6275503f302e7367, 0x662079654b63696c, 0x726f68735f6d6f72, 0x2e7367616c663a74, 0x692e6c6e64613f31, 0x2074726f68732e64, 0x3a6567617373656d, 0x3f322e7367616c66, 0x73654d2e6c6e6461, 0x73656d2065676173, 0x6c663a7365676173, 0x65763f332e736761, 0x6e646120726f7463, 0x67617373654d2e6c, 0x7365726464612065, 0x2e7367616c663a73, 0x612e6c6e64613f34, 0x694c737365726464, 0x726f697270207473, 0x726464615f797469, 0x67616c663a737365, 0x6c6e64613f352e73, 0x737365726464612e, 0x716573207473694c, 0x7367616c663a6f6e, 0x20676e6f6c3f362e, 0x5f6d7269666e6f63, 0x6c663a6f6e716573, 0x6f6c3f372e736761, 0x5f7663657220676e, 0x73696c5f72646461, 0x6f69737265765f74, 0x2e7367616c663a6e, 0x657220746e693f38, 0x726f6972705f7663, 0x726464615f797469, 0x65765f7473696c5f, 0x6c663a6e6f697372, 0x6e693f392e736761, 0x74696e6965722074, 0x6c663a657461645f, 0x693f30312e736761, 0x725f74736420746e, 0x61645f74696e6965, 0x7367616c663a6574, 0x20746e693f30312e, 0x727574616e676973, 0x2e7367616c663a65, 0x73657479623f3131, 0x623a32646e617220, 0x61203d2073657479, 0x6b6361502e6c6e64, 0x6e65746e6f437465, 0x7374]⟩,
  -- adnl.tunnelPacketContents rand1:bytes flags:# from_ip:flags.0?int from_port:flags.0?int message:flags.1?bytes statistics:flags.2?bytes payment:flags.3?bytes rand2:bytes = adnl.TunnelPacketContents
  ⟨325, 326, 0xc59138b4, [⟨315, none, false, .bytes⟩, ⟨1, none, false, .nat⟩, ⟨327, some (1, 0), false, .int⟩, ⟨328, some (1, 0), false, .int⟩, ⟨49, some (1, 1), false, .bytes⟩, ⟨329, some (1, 2), false, .bytes⟩, ⟨330, some (1, 3), false, .bytes⟩, ⟨324, none, false, .bytes⟩], unpackLE 196 [0x6e75742e6c6e6461, 0x656b6361506c656e, 0x746e65746e6f4374, 0x3a31646e61722073, 0x6c66207365747962, 0x726620233a736761, 0x6c663a70695f6d6f, 0x6e693f302e736761, 0x705f6d6f72662074, 0x67616c663a74726f, 0x20746e693f302e73, 0x3a6567617373656d, 0x3f312e7367616c66, 0x7473207365747962, 0x7363697473697461, 0x322e7367616c663a, 0x702073657479623f, 0x663a746e656d7961, 0x623f332e7367616c, 0x6e61722073657479, 0x73657479623a3264, 0x2e6c6e6461203d20, 0x61506c656e6e7554, 0x746e6f4374656b63, 0x73746e65]⟩,
  -- adnl.proxyPacketHeader proxy_id:int256 flags:# ip:flags.0?int port:flags.0?int adnl_start_time:flags.1?int seqno:flags.2?long date:flags.3?int signature:int256 = adnl.ProxyPacketHeader
  ⟨331, 332, 0x08693c78, [⟨333, none, false, .int256⟩, ⟨1, none, false, .nat⟩, ⟨285, some (1, 0), false, .int⟩, ⟨286, some (1, 0), false, .int⟩, ⟨334, some (1, 1), false, .int⟩, ⟨33, some (1, 2), false, .long⟩, ⟨287, some (1, 3), false, .int⟩, ⟨121, none, false, .int256⟩], unpackLE 184 [0x6f72702e6c6e6461, 0x74656b6361507978, 0x7020726564616548, 0x3a64695f79786f72, 0x6620363532746e69, 0x6920233a7367616c, 0x2e7367616c663a70, 0x6f7020746e693f30, 0x7367616c663a7472, 0x6120746e693f302e, 0x726174735f6c6e64, 0x663a656d69745f74, 0x693f312e7367616c, 0x6f6e71657320746e, 0x322e7367616c663a, 0x616420676e6f6c3f, 0x7367616c663a6574, 0x7320746e693f332e, 0x65727574616e6769, 0x20363532746e693a, 0x502e6c6e6461203d, 0x6b63615079786f72, 0x7265646165487465]⟩,
  -- adnl.proxyControlPacketPing id:int256 = adnl.ProxyControlPacket
  ⟨335, 336, 0x3796e44b, [⟨52, none, false, .int256⟩], unpackLE 63 [0x6f72702e6c6e6461, 0x6f72746e6f437978, 0x5074656b6361506c, 0x693a646920676e69, 0x203d20363532746e, 0x6f72502e6c6e6461, 0x6f72746e6f437978, 0x74656b6361506c]⟩,
  -- adnl.proxyControlPacketPong id:int256 = adnl.ProxyControlPacket
  ⟨337, 336, 0x4bd1dbfc, [⟨52, none, false, .int256⟩], unpackLE 63 [0x6f72702e6c6e6461, 0x6f72746e6f437978, 0x5074656b6361506c, 0x693a646920676e6f, 0x203d20363532746e, 0x6f72502e6c6e6461, 0x6f72746e6f437978, 0x74656b6361506c]⟩,
  -- adnl.proxyControlPacketRegister ip:int port:int = adnl.ProxyControlPacket
  ⟨338, 336, 0xc309b23f, [⟨285, none, false, .int⟩, ⟨286, none, false, .int⟩], unpackLE 73 [0x6f72702e6c6e6461, 0x6f72746e6f437978, 0x5274656b6361506c, 0x2072657473696765, 0x7020746e693a7069, 0x20746e693a74726f, 0x502e6c6e6461203d, 0x746e6f4379786f72, 0x656b6361506c6f72, 0x74]⟩,
  -- adnl.message.createChannel key:int256 date:int = adnl.Message
  ⟨339, 41, 0xe673c3bb, [⟨260, none, false, .int256⟩, ⟨287, none, false, .int⟩], unpackLE 61 [0x73656d2e6c6e6461, 0x6572632e65676173, 0x6e6e616843657461, 0x693a79656b206c65, 0x616420363532746e, 0x3d20746e693a6574, 0x654d2e6c6e646120, 0x6567617373]⟩,
  -- adnl.message.confirmChannel key:int256 peer_key:int256 date:int = adnl.Message
  ⟨340, 41, 0x60dd1d69, [⟨260, none, false, .int256⟩, ⟨341, none, false, .int256⟩, ⟨287, none, false, .int⟩], unpackLE 78 [0x73656d2e6c6e6461, 0x6e6f632e65676173, 0x6e6168436d726966, 0x3a79656b206c656e, 0x7020363532746e69, 0x3a79656b5f726565, 0x6420363532746e69, 0x20746e693a657461, 0x4d2e6c6e6461203d, 0x656761737365]⟩,
  -- adnl.message.custom data:bytes = adnl.Message
  ⟨342, 41, 0x204818f5, [⟨16, none, false, .bytes⟩], unpackLE 45 [0x73656d2e6c6e6461, 0x7375632e65676173, 0x61746164206d6f74, 0x3d2073657479623a, 0x654d2e6c6e646120, 0x6567617373]⟩,
  -- adnl.message.nop = adnl.Message
  ⟨343, 41, 0x17f8dfda, [], unpackLE 31 [0x73656d2e6c6e6461, 0x706f6e2e65676173, 0x2e6c6e6461203d20, 0x6567617373654d]⟩,
  -- adnl.message.reinit date:int = adnl.Message
  ⟨344, 41, 0x10c20520, [⟨287, none, false, .int⟩], unpackLE 43 [0x73656d2e6c6e6461, 0x6965722e65676173, 0x657461642074696e, 0x61203d20746e693a, 0x7373654d2e6c6e64, 0x656761]⟩,
  -- adnl.message.query query_id:int256 query:bytes = adnl.Message
  ⟨40, 41, 0xb48bf97a, [⟨42, none, false, .int256⟩, ⟨43, none, false, .bytes⟩], unpackLE 61 [0x73656d2e6c6e6461, 0x6575712e65676173, 0x7972657571207972, 0x32746e693a64695f, 0x7972657571203635, 0x3d2073657479623a, 0x654d2e6c6e646120, 0x6567617373]⟩,
  -- adnl.message.answer query_id:int256 answer:bytes = adnl.Message
  ⟨44, 41, 0x0fac8416, [⟨42, none, false, .int256⟩, ⟨45, none, false, .bytes⟩], unpackLE 63 [0x73656d2e6c6e6461, 0x736e612e65676173, 0x7265757120726577, 0x746e693a64695f79, 0x77736e6120363532, 0x73657479623a7265, 0x2e6c6e6461203d20, 0x6567617373654d]⟩,
  -- adnl.message.part hash:int256 total_size:int offset:int data:bytes = adnl.Message
  ⟨345, 41, 0xfd452d39, [⟨55, none, false, .int256⟩, ⟨346, none, false, .int⟩, ⟨347, none, false, .int⟩, ⟨16, none, false, .bytes⟩], unpackLE 81 [0x73656d2e6c6e6461, 0x7261702e65676173, 0x693a687361682074, 0x6f7420363532746e, 0x657a69735f6c6174, 0x66666f20746e693a, 0x20746e693a746573, 0x7479623a61746164, 0x6e6461203d207365, 0x67617373654d2e6c, 0x65]⟩,
  -- adnl.db.node.key local_id:int256 peer_id:int256 = adnl.db.Key
  ⟨348, 349, 0xc5a3e42e, [⟨350, none, false, .int256⟩, ⟨351, none, false, .int256⟩], unpackLE 61 [0x2e62642e6c6e6461, 0x79656b2e65646f6e, 0x695f6c61636f6c20, 0x363532746e693a64, 0x64695f7265657020, 0x20363532746e693a, 0x642e6c6e6461203d, 0x79654b2e62]⟩,
  -- adnl.db.node.value date:int id:PublicKey addr_list:adnl.addressList priority_addr_list:adnl.addressList = adnl.db.node.Value
  ⟨352, 353, 0x545d2707, [⟨287, none, false, .int⟩, ⟨52, none, false, .boxed 277⟩, ⟨309, none, false, .bare 301⟩, ⟨354, none, false, .bare 301⟩], unpackLE 124 [0x2e62642e6c6e6461, 0x6c61762e65646f6e, 0x3a65746164206575, 0x503a646920746e69, 0x79654b63696c6275, 0x696c5f7264646120, 0x2e6c6e64613a7473, 0x4c73736572646461, 0x6f69727020747369, 0x6464615f79746972, 0x613a7473696c5f72, 0x726464612e6c6e64, 0x207473694c737365, 0x642e6c6e6461203d, 0x562e65646f6e2e62, 0x65756c61]⟩,
  -- rldp2.messagePart transfer_id:int256 fec_type:fec.Type part:int total_size:long seqno:int data:bytes = rldp2.MessagePart
  ⟨355, 356, 0x11480b6e, [⟨357, none, false, .int256⟩, ⟨358, none, false, .boxed 262⟩, ⟨359, none, false, .int⟩, ⟨346, none, false, .long⟩, ⟨33, none, false, .int⟩, ⟨16, none, false, .bytes⟩], unpackLE 120 [0x656d2e3270646c72, 0x7261506567617373, 0x66736e6172742074, 0x6e693a64695f7265, 0x6365662036353274, 0x65663a657079745f, 0x7020657079542e63, 0x20746e693a747261, 0x69735f6c61746f74, 0x20676e6f6c3a657a, 0x6e693a6f6e716573, 0x623a617461642074, 0x72203d2073657479, 0x73654d2e3270646c, 0x7472615065676173]⟩,
  -- rldp2.confirm transfer_id:int256 part:int max_seqno:int received_mask:int received_count:int = rldp2.MessagePart
  ⟨360, 356, 0x23e69945, [⟨357, none, false, .int256⟩, ⟨359, none, false, .int⟩, ⟨361, none, false, .int⟩, ⟨362, none, false, .int⟩, ⟨363, none, false, .int⟩], unpackLE 112 [0x6f632e3270646c72, 0x7274206d7269666e, 0x695f726566736e61, 0x363532746e693a64, 0x6e693a7472617020, 0x65735f78616d2074, 0x20746e693a6f6e71, 0x6465766965636572, 0x6e693a6b73616d5f, 0x7669656365722074, 0x746e756f635f6465, 0x72203d20746e693a, 0x73654d2e3270646c, 0x7472615065676173]⟩,
  -- rldp2.complete transfer_id:int256 part:int = rldp2.MessagePart
  ⟨364, 356, 0x36b9081f, [⟨357, none, false, .int256⟩, ⟨359, none, false, .int⟩], unpackLE 62 [0x6f632e3270646c72, 0x74206574656c706d, 0x5f726566736e6172, 0x3532746e693a6469, 0x693a747261702036, 0x646c72203d20746e, 0x617373654d2e3270, 0x747261506567]⟩,
  -- rldp.messagePart transfer_id:int256 fec_type:fec.Type part:int total_size:long seqno:int data:bytes = rldp.MessagePart
  ⟨365, 366, 0x185c22cc, [⟨357, none, false, .int256⟩, ⟨358, none, false, .boxed 262⟩, ⟨359, none, false, .int⟩, ⟨346, none, false, .long⟩, ⟨33, none, false, .int⟩, ⟨16, none, false, .bytes⟩], unpackLE 118 [0x73656d2e70646c72, 0x7472615065676173, 0x6566736e61727420, 0x746e693a64695f72, 0x5f63656620363532, 0x6365663a65707974, 0x617020657079542e, 0x7420746e693a7472, 0x7a69735f6c61746f, 0x7320676e6f6c3a65, 0x746e693a6f6e7165, 0x79623a6174616420, 0x6c72203d20736574, 0x617373654d2e7064, 0x747261506567]⟩,
  -- rldp.confirm transfer_id:int256 part:int seqno:int = rldp.MessagePart
  ⟨367, 366, 0xf582dc58, [⟨357, none, false, .int256⟩, ⟨359, none, false, .int⟩, ⟨33, none, false, .int⟩], unpackLE 69 [0x6e6f632e70646c72, 0x617274206d726966, 0x64695f726566736e, 0x20363532746e693a, 0x746e693a74726170, 0x693a6f6e71657320, 0x646c72203d20746e, 0x67617373654d2e70, 0x7472615065]⟩,
  -- rldp.complete transfer_id:int256 part:int = rldp.MessagePart
  ⟨368, 366, 0xbc0cb2bf, [⟨357, none, false, .int256⟩, ⟨359, none, false, .int⟩], unpackLE 60 [0x6d6f632e70646c72, 0x7274206574656c70, 0x695f726566736e61, 0x363532746e693a64, 0x6e693a7472617020, 0x70646c72203d2074, 0x6567617373654d2e, 0x74726150]⟩,
  -- rldp.message id:int256 data:bytes = rldp.Message
  ⟨369, 370, 0x7d1bcd1e, [⟨52, none, false, .int256⟩, ⟨16, none, false, .bytes⟩], unpackLE 48 [0x73656d2e70646c72, 0x3a64692065676173, 0x6420363532746e69, 0x657479623a617461, 0x70646c72203d2073, 0x6567617373654d2e]⟩
]

def chunk4 : List Ctor := [
  -- rldp.query query_id:int256 max_answer_size:long timeout:int data:bytes = rldp.Message
  ⟨371, 370, 0x8a794d69, [⟨42, none, false, .int256⟩, ⟨372, none, false, .long⟩, ⟨373, none, false, .int⟩, ⟨16, none, false, .bytes⟩], unpackLE 85 [0x6575712e70646c72, 0x7972657571207972, 0x32746e693a64695f, 0x615f78616d203635, 0x69735f726577736e, 0x20676e6f6c3a657a, 0x3a74756f656d6974, 0x6174616420746e69, 0x3d2073657479623a, 0x654d2e70646c7220, 0x6567617373]⟩,
  -- rldp.answer query_id:int256 data:bytes = rldp.Message
  ⟨374, 370, 0xa3fc5c03, [⟨42, none, false, .int256⟩, ⟨16, none, false, .bytes⟩], unpackLE 53 [0x736e612e70646c72, 0x7265757120726577, 0x746e693a64695f79, 0x6174616420363532, 0x3d2073657479623a, 0x654d2e70646c7220, 0x6567617373]⟩,
  -- dht.node id:PublicKey addr_list:adnl.addressList version:int signature:bytes = dht.Node
  ⟨375, 376, 0x84533248, [⟨52, none, false, .boxed 277⟩, ⟨309, none, false, .bare 301⟩, ⟨63, none, false, .int⟩, ⟨121, none, false, .bytes⟩], unpackLE 87 [0x65646f6e2e746864, 0x6c6275503a646920, 0x64612079654b6369, 0x3a7473696c5f7264, 0x6464612e6c6e6461, 0x7473694c73736572, 0x6e6f697372657620, 0x67697320746e693a, 0x623a65727574616e, 0x64203d2073657479, 0x65646f4e2e7468]⟩,
  -- dht.nodes nodes:vector dht.node = dht.Nodes
  ⟨377, 378, 0x7974a0be, [⟨312, none, true, .bare 375⟩], unpackLE 43 [0x65646f6e2e746864, 0x3a7365646f6e2073, 0x6420726f74636576, 0x2065646f6e2e7468, 0x6f4e2e746864203d, 0x736564]⟩,
  -- dht.key id:int256 name:bytes idx:int = dht.Key
  ⟨379, 380, 0xf667de8f, [⟨52, none, false, .int256⟩, ⟨275, none, false, .bytes⟩, ⟨381, none, false, .int⟩], unpackLE 46 [0x2079656b2e746864, 0x3532746e693a6469, 0x623a656d616e2036, 0x7864692073657479, 0x64203d20746e693a, 0x79654b2e7468]⟩,
  -- dht.updateRule.signature = dht.UpdateRule
  ⟨382, 383, 0xcc9f31f7, [], unpackLE 41 [0x616470752e746864, 0x732e656c75526574, 0x65727574616e6769, 0x552e746864203d20, 0x6c75526574616470, 0x65]⟩,
  -- dht.updateRule.anybody = dht.UpdateRule
  ⟨384, 383, 0x61578e14, [], unpackLE 39 [0x616470752e746864, 0x612e656c75526574, 0x3d2079646f62796e, 0x6470552e74686420, 0x656c7552657461]⟩,
  -- dht.updateRule.overlayNodes = dht.UpdateRule
  ⟨385, 383, 0x26779383, [], unpackLE 44 [0x616470752e746864, 0x6f2e656c75526574, 0x6f4e79616c726576, 0x6864203d20736564, 0x6574616470552e74, 0x656c7552]⟩,
  -- dht.keyDescription key:dht.key id:PublicKey update_rule:dht.UpdateRule signature:bytes = dht.KeyDescription
  ⟨386, 387, 0x281d4e05, [⟨260, none, false, .bare 379⟩, ⟨52, none, false, .boxed 277⟩, ⟨388, none, false, .boxed 383⟩, ⟨121, none, false, .bytes⟩], unpackLE 107 [0x4479656b2e746864, 0x6974706972637365, 0x643a79656b206e6f, 0x692079656b2e7468, 0x63696c6275503a64, 0x616470752079654b, 0x3a656c75725f6574, 0x616470552e746864, 0x7320656c75526574, 0x65727574616e6769, 0x3d2073657479623a, 0x79654b2e74686420, 0x7470697263736544, 0x6e6f69]⟩,
  -- dht.value key:dht.keyDescription value:bytes ttl:int signature:bytes = dht.Value
  ⟨389, 390, 0x90ad27cb, [⟨260, none, false, .bare 386⟩, ⟨172, none, false, .bytes⟩, ⟨391, none, false, .int⟩, ⟨121, none, false, .bytes⟩], unpackLE 80 [0x756c61762e746864, 0x68643a79656b2065, 0x73654479656b2e74, 0x6e6f697470697263, 0x623a65756c617620, 0x6c74742073657479, 0x67697320746e693a, 0x623a65727574616e, 0x64203d2073657479, 0x65756c61562e7468]⟩,
  -- dht.pong random_id:long = dht.Pong
  ⟨392, 393, 0x5a8aef81, [⟨254, none, false, .long⟩], unpackLE 34 [0x676e6f702e746864, 0x5f6d6f646e617220, 0x20676e6f6c3a6469, 0x6f502e746864203d, 0x676e]⟩,
  -- dht.valueNotFound nodes:dht.nodes = dht.ValueResult
  ⟨394, 395, 0xa2620568, [⟨312, none, false, .bare 377⟩], unpackLE 51 [0x756c61762e746864, 0x6e756f46746f4e65, 0x3a7365646f6e2064, 0x65646f6e2e746864, 0x2e746864203d2073, 0x73655265756c6156, 0x746c75]⟩,
  -- dht.valueFound value:dht.Value = dht.ValueResult
  ⟨396, 395, 0xe40cf774, [⟨172, none, false, .boxed 390⟩], unpackLE 48 [0x756c61762e746864, 0x7620646e756f4665, 0x7468643a65756c61, 0x3d2065756c61562e, 0x6c61562e74686420, 0x746c757365526575]⟩,
  -- dht.clientNotFound nodes:dht.nodes = dht.ReversePingResult
  ⟨397, 398, 0x2d1c7e6f, [⟨312, none, false, .bare 377⟩], unpackLE 58 [0x65696c632e746864, 0x756f46746f4e746e, 0x7365646f6e20646e, 0x646f6e2e7468643a, 0x746864203d207365, 0x657372657665522e, 0x75736552676e6950, 0x746c]⟩,
  -- dht.reversePingOk = dht.ReversePingResult
  ⟨399, 398, 0x204030a2, [], unpackLE 41 [0x657665722e746864, 0x4f676e6950657372, 0x2e746864203d206b, 0x5065737265766552, 0x6c75736552676e69, 0x74]⟩,
  -- dht.stored = dht.Stored
  ⟨400, 401, 0x7026fb08, [], unpackLE 23 [0x726f74732e746864, 0x746864203d206465, 0x6465726f74532e]⟩,
  -- dht.message node:dht.node = dht.Message
  ⟨402, 403, 0xbc0cdb8e, [⟨404, none, false, .bare 375⟩], unpackLE 39 [0x7373656d2e746864, 0x65646f6e20656761, 0x646f6e2e7468643a, 0x2e746864203d2065, 0x6567617373654d]⟩,
  -- dht.requestReversePingCont target:adnl.Node signature:bytes client:int256 = dht.RequestReversePingCont
  ⟨405, 406, 0xdbadc105, [⟨407, none, false, .boxed 308⟩, ⟨121, none, false, .bytes⟩, ⟨408, none, false, .int256⟩], unpackLE 102 [0x757165722e746864, 0x7265766552747365, 0x6f43676e69506573, 0x656772617420746e, 0x4e2e6c6e64613a74, 0x6e6769732065646f, 0x79623a6572757461, 0x65696c6320736574, 0x3532746e693a746e, 0x2e746864203d2036, 0x5274736575716552, 0x6950657372657665, 0x746e6f43676e]⟩,
  -- dht.db.bucket nodes:dht.nodes = dht.db.Bucket
  ⟨409, 410, 0xb39cfa6c, [⟨312, none, false, .bare 377⟩], unpackLE 45 [0x622e62642e746864, 0x6f6e2074656b6375, 0x2e7468643a736564, 0x203d207365646f6e, 0x422e62642e746864, 0x74656b6375]⟩,
  -- dht.db.key.bucket id:int = dht.db.Key
  ⟨411, 412, 0xa368ae4c, [⟨52, none, false, .int⟩], unpackLE 37 [0x6b2e62642e746864, 0x656b6375622e7965, 0x746e693a64692074, 0x642e746864203d20, 0x79654b2e62]⟩,
  -- dht.ping random_id:long = dht.Pong
  ⟨413, 393, 0xcbeb3f18, [⟨254, none, false, .long⟩], unpackLE 34 [0x676e69702e746864, 0x5f6d6f646e617220, 0x20676e6f6c3a6469, 0x6f502e746864203d, 0x676e]⟩,
  -- dht.store value:dht.value = dht.Stored
  ⟨414, 401, 0x34934212, [⟨172, none, false, .bare 389⟩], unpackLE 38 [0x726f74732e746864, 0x3a65756c61762065, 0x756c61762e746864, 0x2e746864203d2065, 0x6465726f7453]⟩,
  -- dht.findNode key:int256 k:int = dht.Nodes
  ⟨415, 378, 0x6ce2ce6b, [⟨260, none, false, .int256⟩, ⟨416, none, false, .int⟩], unpackLE 41 [0x646e69662e746864, 0x79656b2065646f4e, 0x20363532746e693a, 0x203d20746e693a6b, 0x65646f4e2e746864, 0x73]⟩,
  -- dht.findValue key:int256 k:int = dht.ValueResult
  ⟨417, 395, 0xae4b6011, [⟨260, none, false, .int256⟩, ⟨416, none, false, .int⟩], unpackLE 48 [0x646e69662e746864, 0x656b2065756c6156, 0x363532746e693a79, 0x3d20746e693a6b20, 0x6c61562e74686420, 0x746c757365526575]⟩,
  -- dht.getSignedAddressList = dht.Node
  ⟨418, 376, 0xa97948ed, [], unpackLE 35 [0x537465672e746864, 0x64644164656e6769, 0x7473694c73736572, 0x4e2e746864203d20, 0x65646f]⟩,
  -- dht.registerReverseConnection node:PublicKey ttl:int signature:bytes = dht.Stored
  ⟨419, 401, 0x222cbc61, [⟨404, none, false, .boxed 277⟩, ⟨391, none, false, .int⟩, ⟨121, none, false, .bytes⟩], unpackLE 81 [0x696765722e746864, 0x6576655272657473, 0x656e6e6f43657372, 0x6f6e206e6f697463, 0x696c6275503a6564, 0x6c74742079654b63, 0x67697320746e693a, 0x623a65727574616e, 0x64203d2073657479, 0x65726f74532e7468, 0x64]⟩,
  -- dht.requestReversePing target:adnl.Node signature:bytes client:int256 k:int = dht.ReversePingResult
  ⟨420, 398, 0x0b94a40a, [⟨407, none, false, .boxed 308⟩, ⟨121, none, false, .bytes⟩, ⟨408, none, false, .int256⟩, ⟨416, none, false, .int⟩], unpackLE 99 [0x757165722e746864, 0x7265766552747365, 0x7420676e69506573, 0x64613a7465677261, 0x2065646f4e2e6c6e, 0x727574616e676973, 0x2073657479623a65, 0x693a746e65696c63, 0x3a6b20363532746e, 0x6864203d20746e69, 0x7372657665522e74, 0x736552676e695065, 0x746c75]⟩,
  -- dht.query node:dht.node = True
  ⟨421, 18, 0x7d530769, [⟨404, none, false, .bare 375⟩], unpackLE 30 [0x726575712e746864, 0x643a65646f6e2079, 0x2065646f6e2e7468, 0x65757254203d]⟩,
  -- overlay.node.toSign id:adnl.id.short overlay:int256 version:int = overlay.node.ToSign
  ⟨422, 423, 0x03d8a8e1, [⟨52, none, false, .bare 281⟩, ⟨424, none, false, .int256⟩, ⟨63, none, false, .int⟩], unpackLE 85 [0x2e79616c7265766f, 0x536f742e65646f6e, 0x613a6469206e6769, 0x732e64692e6c6e64, 0x65766f2074726f68, 0x746e693a79616c72, 0x7372657620363532, 0x20746e693a6e6f69, 0x616c7265766f203d, 0x542e65646f6e2e79, 0x6e6769536f]⟩,
  -- overlay.node id:PublicKey overlay:int256 version:int signature:bytes = overlay.Node
  ⟨425, 426, 0xb86b8a83, [⟨52, none, false, .boxed 277⟩, ⟨424, none, false, .int256⟩, ⟨63, none, false, .int⟩, ⟨121, none, false, .bytes⟩], unpackLE 83 [0x2e79616c7265766f, 0x3a64692065646f6e, 0x654b63696c627550, 0x616c7265766f2079, 0x363532746e693a79, 0x6e6f697372657620, 0x67697320746e693a, 0x623a65727574616e, 0x6f203d2073657479, 0x4e2e79616c726576, 0x65646f]⟩,
  -- overlay.nodes nodes:vector overlay.node = overlay.Nodes
  ⟨427, 428, 0xe487290e, [⟨312, none, true, .bare 425⟩], unpackLE 55 [0x2e79616c7265766f, 0x6f6e207365646f6e, 0x746365763a736564, 0x6c7265766f20726f, 0x2065646f6e2e7961, 0x616c7265766f203d, 0x7365646f4e2e79]⟩,
  -- overlay.message overlay:int256 = overlay.Message
  ⟨429, 430, 0x75252420, [⟨424, none, false, .int256⟩], unpackLE 48 [0x2e79616c7265766f, 0x206567617373656d, 0x3a79616c7265766f, 0x3d20363532746e69, 0x79616c7265766f20, 0x6567617373654d2e]⟩,
  -- overlay.broadcastList hashes:vector int256 = overlay.BroadcastList
  ⟨431, 432, 0x18d1dedf, [⟨433, none, true, .int256⟩], unpackLE 66 [0x2e79616c7265766f, 0x73616364616f7262, 0x6168207473694c74, 0x6365763a73656873, 0x32746e6920726f74, 0x65766f203d203635, 0x6f72422e79616c72, 0x694c747361636461, 0x7473]⟩,
  -- overlay.fec.received hash:int256 = overlay.Broadcast
  ⟨434, 435, 0xd55c14ec, [⟨55, none, false, .int256⟩], unpackLE 52 [0x2e79616c7265766f, 0x656365722e636566, 0x7361682064657669, 0x363532746e693a68, 0x6c7265766f203d20, 0x64616f72422e7961, 0x74736163]⟩,
  -- overlay.fec.completed hash:int256 = overlay.Broadcast
  ⟨436, 435, 0x09d76914, [⟨55, none, false, .int256⟩], unpackLE 53 [0x2e79616c7265766f, 0x706d6f632e636566, 0x616820646574656c, 0x3532746e693a6873, 0x7265766f203d2036, 0x616f72422e79616c, 0x7473616364]⟩,
  -- overlay.broadcast.id src:int256 data_hash:int256 flags:int = overlay.broadcast.Id
  ⟨437, 438, 0x51fd789a, [⟨439, none, false, .int256⟩, ⟨288, none, false, .int256⟩, ⟨1, none, false, .int⟩], unpackLE 81 [0x2e79616c7265766f, 0x73616364616f7262, 0x6372732064692e74, 0x20363532746e693a, 0x7361685f61746164, 0x363532746e693a68, 0x693a7367616c6620, 0x65766f203d20746e, 0x6f72622e79616c72, 0x492e747361636461, 0x64]⟩,
  -- overlay.broadcastFec.id src:int256 type:int256 data_hash:int256 size:int flags:int = overlay.broadcastFec.Id
  ⟨440, 441, 0xfb3155a6, [⟨439, none, false, .int256⟩, ⟨442, none, false, .int256⟩, ⟨288, none, false, .int256⟩, ⟨165, none, false, .int⟩, ⟨1, none, false, .int⟩], unpackLE 108 [0x2e79616c7265766f, 0x73616364616f7262, 0x2064692e63654674, 0x32746e693a637273, 0x3a65707974203635, 0x6420363532746e69, 0x687361685f617461, 0x20363532746e693a, 0x746e693a657a6973, 0x693a7367616c6620, 0x65766f203d20746e, 0x6f72622e79616c72, 0x6546747361636461, 0x64492e63]⟩,
  -- overlay.broadcastFec.partId broadcast_hash:int256 data_hash:int256 seqno:int = overlay.broadcastFec.PartId
  ⟨443, 444, 0xa46962d0, [⟨445, none, false, .int256⟩, ⟨288, none, false, .int256⟩, ⟨33, none, false, .int⟩], unpackLE 106 [0x2e79616c7265766f, 0x73616364616f7262, 0x7261702e63654674, 0x616f726220644974, 0x61685f7473616364, 0x3532746e693a6873, 0x685f617461642036, 0x32746e693a687361, 0x6f6e716573203635, 0x6f203d20746e693a, 0x622e79616c726576, 0x7473616364616f72, 0x747261502e636546, 0x6449]⟩,
  -- overlay.broadcast.toSign hash:int256 date:int = overlay.broadcast.ToSign
  ⟨446, 447, 0xfa374e7c, [⟨55, none, false, .int256⟩, ⟨287, none, false, .int⟩], unpackLE 72 [0x2e79616c7265766f, 0x73616364616f7262, 0x6e6769536f742e74, 0x6e693a6873616820, 0x7461642036353274, 0x203d20746e693a65, 0x2e79616c7265766f, 0x73616364616f7262, 0x6e6769536f542e74]⟩,
  -- overlay.certificate issued_by:PublicKey expire_at:int max_size:int signature:bytes = overlay.Certificate
  ⟨448, 449, 0xe09ed731, [⟨450, none, false, .boxed 277⟩, ⟨306, none, false, .int⟩, ⟨451, none, false, .int⟩, ⟨121, none, false, .bytes⟩], unpackLE 104 [0x2e79616c7265766f, 0x6369666974726563, 0x7573736920657461, 0x75503a79625f6465, 0x2079654b63696c62, 0x615f657269707865, 0x616d20746e693a74, 0x693a657a69735f78, 0x616e67697320746e, 0x7479623a65727574, 0x65766f203d207365, 0x7265432e79616c72, 0x6574616369666974]⟩
]

def chunk5 : List Ctor := [
  -- overlay.certificateV2 issued_by:PublicKey expire_at:int max_size:int flags:int signature:bytes = overlay.Certificate
  ⟨452, 449, 0xb43f9c83, [⟨450, none, false, .boxed 277⟩, ⟨306, none, false, .int⟩, ⟨451, none, false, .int⟩, ⟨1, none, false, .int⟩, ⟨121, none, false, .bytes⟩], unpackLE 116 [0x2e79616c7265766f, 0x6369666974726563, 0x7369203256657461, 0x3a79625f64657573, 0x654b63696c627550, 0x6572697078652079, 0x20746e693a74615f, 0x657a69735f78616d, 0x616c6620746e693a, 0x7320746e693a7367, 0x65727574616e6769, 0x3d2073657479623a, 0x79616c7265766f20, 0x696669747265432e, 0x65746163]⟩,
  -- overlay.emptyCertificate = overlay.Certificate
  ⟨453, 449, 0x32dabccf, [], unpackLE 46 [0x2e79616c7265766f, 0x7265437974706d65, 0x6574616369666974, 0x6c7265766f203d20, 0x69747265432e7961, 0x657461636966]⟩,
  -- overlay.certificateId overlay_id:int256 node:int256 expire_at:int max_size:int = overlay.CertificateId
  ⟨454, 455, 0x8fae60b9, [⟨456, none, false, .int256⟩, ⟨404, none, false, .int256⟩, ⟨306, none, false, .int⟩, ⟨451, none, false, .int⟩], unpackLE 102 [0x2e79616c7265766f, 0x6369666974726563, 0x766f206449657461, 0x64695f79616c7265, 0x20363532746e693a, 0x746e693a65646f6e, 0x6970786520363532, 0x6e693a74615f6572, 0x69735f78616d2074, 0x3d20746e693a657a, 0x79616c7265766f20, 0x696669747265432e, 0x644965746163]⟩,
  -- overlay.certificateIdV2 overlay_id:int256 node:int256 expire_at:int max_size:int flags:int = overlay.CertificateId
  ⟨457, 455, 0xfc6cd2a7, [⟨456, none, false, .int256⟩, ⟨404, none, false, .int256⟩, ⟨306, none, false, .int⟩, ⟨451, none, false, .int⟩, ⟨1, none, false, .int⟩], unpackLE 114 [0x2e79616c7265766f, 0x6369666974726563, 0x2032566449657461, 0x5f79616c7265766f, 0x3532746e693a6469, 0x693a65646f6e2036, 0x786520363532746e, 0x3a74615f65726970, 0x5f78616d20746e69, 0x746e693a657a6973, 0x693a7367616c6620, 0x65766f203d20746e, 0x7265432e79616c72, 0x6574616369666974, 0x6449]⟩,
  -- overlay.unicast data:bytes = overlay.Broadcast
  ⟨458, 435, 0x33534e24, [⟨16, none, false, .bytes⟩], unpackLE 46 [0x2e79616c7265766f, 0x2074736163696e75, 0x7479623a61746164, 0x65766f203d207365, 0x6f72422e79616c72, 0x747361636461]⟩,
  -- overlay.broadcast src:PublicKey certificate:overlay.Certificate flags:int data:bytes date:int signature:bytes = overlay.Broadcast
  ⟨459, 435, 0xb15a2b6b, [⟨439, none, false, .boxed 277⟩, ⟨460, none, false, .boxed 449⟩, ⟨1, none, false, .int⟩, ⟨16, none, false, .bytes⟩, ⟨287, none, false, .int⟩, ⟨121, none, false, .bytes⟩], unpackLE 129 [0x2e79616c7265766f, 0x73616364616f7262, 0x75503a6372732074, 0x2079654b63696c62, 0x6369666974726563, 0x7265766f3a657461, 0x747265432e79616c, 0x2065746163696669, 0x6e693a7367616c66, 0x623a617461642074, 0x7461642073657479, 0x697320746e693a65, 0x3a65727574616e67, 0x203d207365747962, 0x2e79616c7265766f, 0x73616364616f7242, 0x74]⟩,
  -- overlay.broadcastFec src:PublicKey certificate:overlay.Certificate data_hash:int256 data_size:int flags:int data:bytes seqno:int fec:fec.Type date:int signature:bytes = overlay.Broadcast
  ⟨461, 435, 0xbad7c36a, [⟨439, none, false, .boxed 277⟩, ⟨460, none, false, .boxed 449⟩, ⟨288, none, false, .int256⟩, ⟨263, none, false, .int⟩, ⟨1, none, false, .int⟩, ⟨16, none, false, .bytes⟩, ⟨33, none, false, .int⟩, ⟨462, none, false, .boxed 262⟩, ⟨287, none, false, .int⟩, ⟨121, none, false, .bytes⟩], unpackLE 186 [0x2e79616c7265766f, 0x73616364616f7262, 0x6372732063654674, 0x4b63696c6275503a, 0x6974726563207965, 0x6f3a657461636966, 0x432e79616c726576, 0x6163696669747265, 0x5f61746164206574, 0x746e693a68736168, 0x6174616420363532, 0x6e693a657a69735f, 0x3a7367616c662074, 0x6174616420746e69, 0x732073657479623a, 0x746e693a6f6e7165, 0x6365663a63656620, 0x616420657079542e, 0x7320746e693a6574, 0x65727574616e6769, 0x3d2073657479623a, 0x79616c7265766f20, 0x616364616f72422e, 0x7473]⟩,
  -- overlay.broadcastFecShort src:PublicKey certificate:overlay.Certificate broadcast_hash:int256 part_data_hash:int256 seqno:int signature:bytes = overlay.Broadcast
  ⟨463, 435, 0xf1881342, [⟨439, none, false, .boxed 277⟩, ⟨460, none, false, .boxed 449⟩, ⟨445, none, false, .int256⟩, ⟨464, none, false, .int256⟩, ⟨33, none, false, .int⟩, ⟨121, none, false, .bytes⟩], unpackLE 161 [0x2e79616c7265766f, 0x73616364616f7262, 0x726f685363654674, 0x75503a6372732074, 0x2079654b63696c62, 0x6369666974726563, 0x7265766f3a657461, 0x747265432e79616c, 0x2065746163696669, 0x73616364616f7262, 0x693a687361685f74, 0x617020363532746e, 0x5f617461645f7472, 0x746e693a68736168, 0x6e71657320363532, 0x697320746e693a6f, 0x3a65727574616e67, 0x203d207365747962, 0x2e79616c7265766f, 0x73616364616f7242, 0x74]⟩,
  -- overlay.broadcastNotFound = overlay.Broadcast
  ⟨465, 435, 0x95863624, [], unpackLE 45 [0x2e79616c7265766f, 0x73616364616f7262, 0x6e756f46746f4e74, 0x7265766f203d2064, 0x616f72422e79616c, 0x7473616364]⟩,
  -- overlay.getRandomPeers peers:overlay.nodes = overlay.Nodes
  ⟨466, 428, 0x48ee64ab, [⟨467, none, false, .bare 427⟩], unpackLE 58 [0x2e79616c7265766f, 0x6f646e6152746567, 0x702073726565506d, 0x65766f3a73726565, 0x646f6e2e79616c72, 0x65766f203d207365, 0x646f4e2e79616c72, 0x7365]⟩,
  -- overlay.query overlay:int256 = True
  ⟨468, 18, 0xccfd8443, [⟨424, none, false, .int256⟩], unpackLE 35 [0x2e79616c7265766f, 0x766f207972657571, 0x6e693a79616c7265, 0x54203d2036353274, 0x657572]⟩,
  -- overlay.getBroadcast hash:int256 = overlay.Broadcast
  ⟨469, 435, 0x2d35f2a0, [⟨55, none, false, .int256⟩], unpackLE 52 [0x2e79616c7265766f, 0x64616f7242746567, 0x7361682074736163, 0x363532746e693a68, 0x6c7265766f203d20, 0x64616f72422e7961, 0x74736163]⟩,
  -- overlay.getBroadcastList list:overlay.broadcastList = overlay.BroadcastList
  ⟨470, 432, 0x421c283a, [⟨471, none, false, .bare 431⟩], unpackLE 75 [0x2e79616c7265766f, 0x64616f7242746567, 0x7473694c74736163, 0x766f3a7473696c20, 0x72622e79616c7265, 0x4c7473616364616f, 0x766f203d20747369, 0x72422e79616c7265, 0x4c7473616364616f, 0x747369]⟩,
  -- overlay.db.nodes nodes:overlay.nodes = overlay.db.Nodes
  ⟨472, 473, 0xd588ce1a, [⟨312, none, false, .bare 427⟩], unpackLE 55 [0x2e79616c7265766f, 0x7365646f6e2e6264, 0x6f3a7365646f6e20, 0x6e2e79616c726576, 0x6f203d207365646f, 0x642e79616c726576, 0x7365646f4e2e62]⟩,
  -- overlay.db.key.nodes local_id:int256 overlay:int256 = overlay.db.Key
  ⟨474, 475, 0xc4d07316, [⟨350, none, false, .int256⟩, ⟨424, none, false, .int256⟩], unpackLE 68 [0x2e79616c7265766f, 0x6e2e79656b2e6264, 0x636f6c207365646f, 0x6e693a64695f6c61, 0x65766f2036353274, 0x746e693a79616c72, 0x766f203d20363532, 0x62642e79616c7265, 0x79654b2e]⟩,
  -- catchain.block.id incarnation:int256 src:int256 height:int data_hash:int256 = catchain.block.Id
  ⟨476, 477, 0x24fe98ba, [⟨478, none, false, .int256⟩, ⟨439, none, false, .int256⟩, ⟨479, none, false, .int⟩, ⟨288, none, false, .int256⟩], unpackLE 95 [0x6e69616863746163, 0x692e6b636f6c622e, 0x6e7261636e692064, 0x6e693a6e6f697461, 0x6372732036353274, 0x20363532746e693a, 0x693a746867696568, 0x5f6174616420746e, 0x746e693a68736168, 0x6163203d20363532, 0x622e6e6961686374, 0x64492e6b636f6c]⟩,
  -- catchain.block.dep src:int height:int data_hash:int256 signature:bytes = catchain.block.Dep
  ⟨480, 481, 0x5a1ad14f, [⟨439, none, false, .int⟩, ⟨479, none, false, .int⟩, ⟨288, none, false, .int256⟩, ⟨121, none, false, .bytes⟩], unpackLE 91 [0x6e69616863746163, 0x642e6b636f6c622e, 0x693a637273207065, 0x686769656820746e, 0x616420746e693a74, 0x3a687361685f6174, 0x7320363532746e69, 0x65727574616e6769, 0x3d2073657479623a, 0x6961686374616320, 0x2e6b636f6c622e6e, 0x706544]⟩,
  -- catchain.block.data prev:catchain.block.dep deps:vector catchain.block.dep = catchain.block.Data
  ⟨482, 483, 0xf8aca620, [⟨191, none, false, .bare 480⟩, ⟨484, none, true, .bare 480⟩], unpackLE 96 [0x6e69616863746163, 0x642e6b636f6c622e, 0x7665727020617461, 0x696168637461633a, 0x2e6b636f6c622e6e, 0x7370656420706564, 0x20726f746365763a, 0x6e69616863746163, 0x642e6b636f6c622e, 0x746163203d207065, 0x6c622e6e69616863, 0x617461442e6b636f]⟩,
  -- catchain.block incarnation:int256 src:int height:int data:catchain.block.data signature:bytes = catchain.Block
  ⟨485, 486, 0xd6554174, [⟨478, none, false, .int256⟩, ⟨439, none, false, .int⟩, ⟨479, none, false, .int⟩, ⟨16, none, false, .bare 482⟩, ⟨121, none, false, .bytes⟩], unpackLE 110 [0x6e69616863746163, 0x69206b636f6c622e, 0x6974616e7261636e, 0x3532746e693a6e6f, 0x6e693a6372732036, 0x7468676965682074, 0x74616420746e693a, 0x6168637461633a61, 0x6b636f6c622e6e69, 0x697320617461642e, 0x3a65727574616e67, 0x203d207365747962, 0x6e69616863746163, 0x6b636f6c422e]⟩,
  -- catchain.blocks blocks:vector catchain.block = catchain.Blocks
  ⟨487, 488, 0x50ecd1c1, [⟨489, none, true, .bare 485⟩], unpackLE 62 [0x6e69616863746163, 0x20736b636f6c622e, 0x763a736b636f6c62, 0x616320726f746365, 0x622e6e6961686374, 0x63203d206b636f6c, 0x2e6e696168637461, 0x736b636f6c42]⟩,
  -- catchain.blockUpdate block:catchain.block = catchain.Update
  ⟨490, 491, 0x236758c4, [⟨492, none, false, .bare 485⟩], unpackLE 59 [0x6e69616863746163, 0x70556b636f6c622e, 0x6f6c622065746164, 0x68637461633a6b63, 0x636f6c622e6e6961, 0x63746163203d206b, 0x6470552e6e696168, 0x657461]⟩,
  -- catchain.block.data.badBlock block:catchain.block = catchain.block.inner.Data
  ⟨493, 494, 0xb6025a56, [⟨492, none, false, .bare 485⟩], unpackLE 77 [0x6e69616863746163, 0x642e6b636f6c622e, 0x426461622e617461, 0x6f6c62206b636f6c, 0x68637461633a6b63, 0x636f6c622e6e6961, 0x63746163203d206b, 0x6f6c622e6e696168, 0x72656e6e692e6b63, 0x617461442e]⟩,
  -- catchain.block.data.fork left:catchain.block.Dep right:catchain.block.Dep = catchain.block.inner.Data
  ⟨495, 494, 0x647a3a52, [⟨496, none, false, .boxed 481⟩, ⟨497, none, false, .boxed 481⟩], unpackLE 101 [0x6e69616863746163, 0x642e6b636f6c622e, 0x6b726f662e617461, 0x61633a7466656c20, 0x622e6e6961686374, 0x7065442e6b636f6c, 0x633a746867697220, 0x2e6e696168637461, 0x65442e6b636f6c62, 0x63746163203d2070, 0x6f6c622e6e696168, 0x72656e6e692e6b63, 0x617461442e]⟩,
  -- catchain.block.data.nop = catchain.block.inner.Data
  ⟨498, 494, 0x5482b4d0, [], unpackLE 51 [0x6e69616863746163, 0x642e6b636f6c622e, 0x20706f6e2e617461, 0x616863746163203d, 0x6b636f6c622e6e69, 0x442e72656e6e692e, 0x617461]⟩,
  -- catchain.firstblock unique_hash:int256 nodes:vector int256 = catchain.FirstBlock
  ⟨499, 500, 0x10c904fb, [⟨501, none, false, .int256⟩, ⟨312, none, true, .int256⟩], unpackLE 80 [0x6e69616863746163, 0x6c6274737269662e, 0x71696e75206b636f, 0x3a687361685f6575, 0x6e20363532746e69, 0x6365763a7365646f, 0x32746e6920726f74, 0x746163203d203635, 0x69462e6e69616863, 0x6b636f6c42747372]⟩,
  -- catchain.difference sent_upto:vector int = catchain.Difference
  ⟨502, 503, 0x1415d1ca, [⟨504, none, true, .int⟩], unpackLE 62 [0x6e69616863746163, 0x657265666669642e, 0x746e65732065636e, 0x65763a6f7470755f, 0x746e6920726f7463, 0x6863746163203d20, 0x666669442e6e6961, 0x65636e657265]⟩,
  -- catchain.differenceFork left:catchain.block.dep right:catchain.block.dep = catchain.Difference
  ⟨505, 503, 0x4927c06f, [⟨496, none, false, .bare 480⟩, ⟨497, none, false, .bare 480⟩], unpackLE 94 [0x6e69616863746163, 0x657265666669642e, 0x206b726f4665636e, 0x7461633a7466656c, 0x6c622e6e69616863, 0x207065642e6b636f, 0x61633a7468676972, 0x622e6e6961686374, 0x7065642e6b636f6c, 0x6863746163203d20, 0x666669442e6e6961, 0x65636e657265]⟩,
  -- catchain.blockNotFound = catchain.BlockResult
  ⟨506, 507, 0xb6110884, [], unpackLE 45 [0x6e69616863746163, 0x6f4e6b636f6c622e, 0x3d20646e756f4674, 0x6961686374616320, 0x526b636f6c422e6e, 0x746c757365]⟩,
  -- catchain.blockResult block:catchain.block = catchain.BlockResult
  ⟨508, 507, 0x9d2a3047, [⟨492, none, false, .bare 485⟩], unpackLE 64 [0x6e69616863746163, 0x65526b636f6c622e, 0x6f6c6220746c7573, 0x68637461633a6b63, 0x636f6c622e6e6961, 0x63746163203d206b, 0x6f6c422e6e696168, 0x746c757365526b63]⟩,
  -- catchain.getBlock block:int256 = catchain.BlockResult
  ⟨509, 507, 0x093ddd78, [⟨492, none, false, .int256⟩], unpackLE 53 [0x6e69616863746163, 0x636f6c427465672e, 0x3a6b636f6c62206b, 0x3d20363532746e69, 0x6961686374616320, 0x526b636f6c422e6e, 0x746c757365]⟩,
  -- catchain.getDifference rt:vector int = catchain.Difference
  ⟨510, 503, 0xd06cced8, [⟨511, none, true, .int⟩], unpackLE 58 [0x6e69616863746163, 0x666669447465672e, 0x722065636e657265, 0x726f746365763a74, 0x63203d20746e6920, 0x2e6e696168637461, 0x6e65726566666944, 0x6563]⟩,
  -- validatorSession.round.id session:int256 height:long prev_block:int256 seqno:int = validatorSession.round.Id
  ⟨512, 513, 0x0025cfa5, [⟨514, none, false, .int256⟩, ⟨479, none, false, .long⟩, ⟨515, none, false, .int256⟩, ⟨33, none, false, .int⟩], unpackLE 108 [0x6f746164696c6176, 0x6e6f697373655372, 0x692e646e756f722e, 0x6f69737365732064, 0x363532746e693a6e, 0x3a74686769656820, 0x65727020676e6f6c, 0x3a6b636f6c625f76, 0x7320363532746e69, 0x746e693a6f6e7165, 0x64696c6176203d20, 0x73736553726f7461, 0x6e756f722e6e6f69, 0x64492e64]⟩,
  -- validatorSession.candidate.id round:int256 block_hash:int256 = validatorSession.tempBlock.Id
  ⟨516, 517, 0xbcd74139, [⟨518, none, false, .int256⟩, ⟨519, none, false, .int256⟩], unpackLE 92 [0x6f746164696c6176, 0x6e6f697373655372, 0x616469646e61632e, 0x6f722064692e6574, 0x32746e693a646e75, 0x6b636f6c62203635, 0x6e693a687361685f, 0x76203d2036353274, 0x726f746164696c61, 0x2e6e6f6973736553, 0x636f6c42706d6574, 0x64492e6b]⟩,
  -- validatorSession.message.startSession = validatorSession.Message
  ⟨520, 521, 0x96a166d1, [], unpackLE 64 [0x6f746164696c6176, 0x6e6f697373655372, 0x6567617373656d2e, 0x655374726174732e, 0x203d206e6f697373, 0x6f746164696c6176, 0x6e6f697373655372, 0x6567617373654d2e]⟩,
  -- validatorSession.message.finishSession = validatorSession.Message
  ⟨522, 521, 0xcb9b22e3, [], unpackLE 65 [0x6f746164696c6176, 0x6e6f697373655372, 0x6567617373656d2e, 0x536873696e69662e, 0x3d206e6f69737365, 0x746164696c617620, 0x6f6973736553726f, 0x67617373654d2e6e, 0x65]⟩,
  -- validatorSession.message.submittedBlock round:int root_hash:int256 file_hash:int256 collated_data_file_hash:int256 = validatorSession.round.Message
  ⟨523, 524, 0x127624b6, [⟨518, none, false, .int⟩, ⟨36, none, false, .int256⟩, ⟨37, none, false, .int256⟩, ⟨525, none, false, .int256⟩], unpackLE 147 [0x6f746164696c6176, 0x6e6f697373655372, 0x6567617373656d2e, 0x7474696d6275732e, 0x206b636f6c426465, 0x6e693a646e756f72, 0x685f746f6f722074, 0x32746e693a687361, 0x5f656c6966203635, 0x746e693a68736168, 0x6c6c6f6320363532, 0x7461645f64657461, 0x685f656c69665f61, 0x32746e693a687361, 0x6c6176203d203635, 0x6553726f74616469, 0x6f722e6e6f697373, 0x7373654d2e646e75, 0x656761]⟩,
  -- validatorSession.message.approvedBlock round:int candidate:int256 signature:bytes = validatorSession.round.Message
  ⟨526, 524, 0x04a5b581, [⟨518, none, false, .int⟩, ⟨527, none, false, .int256⟩, ⟨121, none, false, .bytes⟩], unpackLE 114 [0x6f746164696c6176, 0x6e6f697373655372, 0x6567617373656d2e, 0x65766f727070612e, 0x72206b636f6c4264, 0x746e693a646e756f, 0x616469646e616320, 0x3532746e693a6574, 0x74616e6769732036, 0x657479623a657275, 0x696c6176203d2073, 0x736553726f746164, 0x756f722e6e6f6973, 0x617373654d2e646e, 0x6567]⟩,
  -- validatorSession.message.rejectedBlock round:int candidate:int256 reason:bytes = validatorSession.round.Message
  ⟨528, 524, 0x95884e6b, [⟨518, none, false, .int⟩, ⟨527, none, false, .int256⟩, ⟨529, none, false, .bytes⟩], unpackLE 111 [0x6f746164696c6176, 0x6e6f697373655372, 0x6567617373656d2e, 0x657463656a65722e, 0x72206b636f6c4264, 0x746e693a646e756f, 0x616469646e616320, 0x3532746e693a6574, 0x6e6f736165722036, 0x3d2073657479623a, 0x746164696c617620, 0x6f6973736553726f, 0x2e646e756f722e6e, 0x6567617373654d]⟩,
  -- validatorSession.message.commit round:int candidate:int256 signature:bytes = validatorSession.round.Message
  ⟨530, 524, 0xac129ef5, [⟨518, none, false, .int⟩, ⟨527, none, false, .int256⟩, ⟨121, none, false, .bytes⟩], unpackLE 107 [0x6f746164696c6176, 0x6e6f697373655372, 0x6567617373656d2e, 0x2074696d6d6f632e, 0x6e693a646e756f72, 0x6469646e61632074, 0x32746e693a657461, 0x616e676973203635, 0x7479623a65727574, 0x6c6176203d207365, 0x6553726f74616469, 0x6f722e6e6f697373, 0x7373654d2e646e75, 0x656761]⟩,
  -- validatorSession.message.vote round:int attempt:int candidate:int256 = validatorSession.round.Message
  ⟨531, 524, 0x9a3251c7, [⟨518, none, false, .int⟩, ⟨532, none, false, .int⟩, ⟨527, none, false, .int256⟩], unpackLE 101 [0x6f746164696c6176, 0x6e6f697373655372, 0x6567617373656d2e, 0x6f722065746f762e, 0x20746e693a646e75, 0x3a74706d65747461, 0x646e616320746e69, 0x6e693a6574616469, 0x76203d2036353274, 0x726f746164696c61, 0x2e6e6f6973736553, 0x654d2e646e756f72, 0x6567617373]⟩
]

def chunk6 : List Ctor := [
  -- validatorSession.message.voteFor round:int attempt:int candidate:int256 = validatorSession.round.Message
  ⟨533, 524, 0x61f0fe2f, [⟨518, none, false, .int⟩, ⟨532, none, false, .int⟩, ⟨527, none, false, .int256⟩], unpackLE 104 [0x6f746164696c6176, 0x6e6f697373655372, 0x6567617373656d2e, 0x726f4665746f762e, 0x693a646e756f7220, 0x6d6574746120746e, 0x6320746e693a7470, 0x6574616469646e61, 0x20363532746e693a, 0x6164696c6176203d, 0x6973736553726f74, 0x646e756f722e6e6f, 0x6567617373654d2e]⟩,
  -- validatorSession.message.precommit round:int attempt:int candidate:int256 = validatorSession.round.Message
  ⟨534, 524, 0xa854b552, [⟨518, none, false, .int⟩, ⟨532, none, false, .int⟩, ⟨527, none, false, .int256⟩], unpackLE 106 [0x6f746164696c6176, 0x6e6f697373655372, 0x6567617373656d2e, 0x6d6d6f636572702e, 0x646e756f72207469, 0x74746120746e693a, 0x746e693a74706d65, 0x616469646e616320, 0x3532746e693a6574, 0x696c6176203d2036, 0x736553726f746164, 0x756f722e6e6f6973, 0x617373654d2e646e, 0x6567]⟩,
  -- validatorSession.message.empty round:int attempt:int = validatorSession.round.Message
  ⟨535, 524, 0x4a201fa9, [⟨518, none, false, .int⟩, ⟨532, none, false, .int⟩], unpackLE 85 [0x6f746164696c6176, 0x6e6f697373655372, 0x6567617373656d2e, 0x72207974706d652e, 0x746e693a646e756f, 0x74706d6574746120, 0x76203d20746e693a, 0x726f746164696c61, 0x2e6e6f6973736553, 0x654d2e646e756f72, 0x6567617373]⟩,
  -- validatorSession.pong hash:long = validatorSession.Pong
  ⟨536, 537, 0xdcc6376d, [⟨55, none, false, .long⟩], unpackLE 55 [0x6f746164696c6176, 0x6e6f697373655372, 0x616820676e6f702e, 0x20676e6f6c3a6873, 0x6164696c6176203d, 0x6973736553726f74, 0x676e6f502e6e6f]⟩,
  -- validatorSession.candidateId src:int256 root_hash:int256 file_hash:int256 collated_data_file_hash:int256 = validatorSession.CandidateId
  ⟨538, 539, 0x19fee56c, [⟨439, none, false, .int256⟩, ⟨36, none, false, .int256⟩, ⟨37, none, false, .int256⟩, ⟨525, none, false, .int256⟩], unpackLE 135 [0x6f746164696c6176, 0x6e6f697373655372, 0x616469646e61632e, 0x6372732064496574, 0x20363532746e693a, 0x7361685f746f6f72, 0x363532746e693a68, 0x61685f656c696620, 0x3532746e693a6873, 0x74616c6c6f632036, 0x5f617461645f6465, 0x7361685f656c6966, 0x363532746e693a68, 0x64696c6176203d20, 0x73736553726f7461, 0x646e61432e6e6f69, 0x64496574616469]⟩,
  -- validatorSession.blockUpdate ts:long actions:vector validatorSession.round.Message state:int = validatorSession.BlockUpdate
  ⟨540, 541, 0x9283ce37, [⟨542, none, false, .long⟩, ⟨543, none, true, .boxed 524⟩, ⟨86, none, false, .int⟩], unpackLE 123 [0x6f746164696c6176, 0x6e6f697373655372, 0x70556b636f6c622e, 0x3a73742065746164, 0x74636120676e6f6c, 0x6365763a736e6f69, 0x696c617620726f74, 0x736553726f746164, 0x756f722e6e6f6973, 0x617373654d2e646e, 0x6574617473206567, 0x76203d20746e693a, 0x726f746164696c61, 0x2e6e6f6973736553, 0x6470556b636f6c42, 0x657461]⟩,
  -- validatorSession.candidate src:int256 round:int root_hash:int256 data:bytes collated_data:bytes = validatorSession.Candidate
  ⟨544, 545, 0x7d337845, [⟨439, none, false, .int256⟩, ⟨518, none, false, .int⟩, ⟨36, none, false, .int256⟩, ⟨16, none, false, .bytes⟩, ⟨180, none, false, .bytes⟩], unpackLE 124 [0x6f746164696c6176, 0x6e6f697373655372, 0x616469646e61632e, 0x693a637273206574, 0x6f7220363532746e, 0x20746e693a646e75, 0x7361685f746f6f72, 0x363532746e693a68, 0x79623a6174616420, 0x6c6c6f6320736574, 0x7461645f64657461, 0x2073657479623a61, 0x6164696c6176203d, 0x6973736553726f74, 0x69646e61432e6e6f, 0x65746164]⟩,
  -- validatorSession.compressedCandidate flags:# src:int256 round:int root_hash:int256 decompressed_size:int data:bytes = validatorSession.Candidate
  ⟨546, 545, 0x4212c777, [⟨1, none, false, .nat⟩, ⟨439, none, false, .int256⟩, ⟨518, none, false, .int⟩, ⟨36, none, false, .int256⟩, ⟨547, none, false, .int⟩, ⟨16, none, false, .bytes⟩], unpackLE 144 [0x6f746164696c6176, 0x6e6f697373655372, 0x736572706d6f632e, 0x69646e6143646573, 0x616c662065746164, 0x63727320233a7367, 0x20363532746e693a, 0x6e693a646e756f72, 0x685f746f6f722074, 0x32746e693a687361, 0x6d6f636564203635, 0x5f64657373657270, 0x746e693a657a6973, 0x79623a6174616420, 0x6176203d20736574, 0x53726f746164696c, 0x432e6e6f69737365, 0x6574616469646e61]⟩,
  -- validatorSession.config catchain_idle_timeout:double catchain_max_deps:int round_candidates:int next_candidate_delay:double round_attempt_duration:int max_round_attempts:int max_block_size:int max_collated_data_size:int = validatorSession.Config
  ⟨548, 549, 0xb661fdc3, [⟨550, none, false, .bare 6⟩, ⟨551, none, false, .int⟩, ⟨552, none, false, .int⟩, ⟨553, none, false, .bare 6⟩, ⟨554, none, false, .int⟩, ⟨555, none, false, .int⟩, ⟨556, none, false, .int⟩, ⟨557, none, false, .int⟩], unpackLE 245 [0x6f746164696c6176, 0x6e6f697373655372, 0x206769666e6f632e, 0x6e69616863746163, 0x69745f656c64695f, 0x6f643a74756f656d, 0x74616320656c6275, 0x616d5f6e69616863, 0x693a737065645f78, 0x646e756f7220746e, 0x616469646e61635f, 0x20746e693a736574, 0x6e61635f7478656e, 0x645f657461646964, 0x756f643a79616c65, 0x6e756f7220656c62, 0x706d657474615f64, 0x6974617275645f74, 0x6d20746e693a6e6f, 0x646e756f725f7861, 0x74706d657474615f, 0x616d20746e693a73, 0x5f6b636f6c625f78, 0x746e693a657a6973, 0x6c6f635f78616d20, 0x61645f646574616c, 0x3a657a69735f6174, 0x6176203d20746e69, 0x53726f746164696c, 0x432e6e6f69737365, 0x6769666e6f]⟩,
  -- validatorSession.configNew catchain_idle_timeout:double catchain_max_deps:int round_candidates:int next_candidate_delay:double round_attempt_duration:int max_round_attempts:int max_block_size:int max_collated_data_size:int new_catchain_ids:Bool = validatorSession.Config
  ⟨558, 549, 0xf7afa99c, [⟨550, none, false, .bare 6⟩, ⟨551, none, false, .int⟩, ⟨552, none, false, .int⟩, ⟨553, none, false, .bare 6⟩, ⟨554, none, false, .int⟩, ⟨555, none, false, .int⟩, ⟨556, none, false, .int⟩, ⟨557, none, false, .int⟩, ⟨559, none, false, .bool⟩], unpackLE 270 [0x6f746164696c6176, 0x6e6f697373655372, 0x4e6769666e6f632e, 0x6863746163207765, 0x656c64695f6e6961, 0x74756f656d69745f, 0x20656c62756f643a, 0x6e69616863746163, 0x7065645f78616d5f, 0x6f7220746e693a73, 0x646e61635f646e75, 0x693a736574616469, 0x5f7478656e20746e, 0x74616469646e6163, 0x3a79616c65645f65, 0x7220656c62756f64, 0x7474615f646e756f, 0x7275645f74706d65, 0x6e693a6e6f697461, 0x6f725f78616d2074, 0x657474615f646e75, 0x746e693a7374706d, 0x6f6c625f78616d20, 0x3a657a69735f6b63, 0x5f78616d20746e69, 0x646574616c6c6f63, 0x69735f617461645f, 0x6e20746e693a657a, 0x68637461635f7765, 0x3a7364695f6e6961, 0x76203d206c6f6f42, 0x726f746164696c61, 0x2e6e6f6973736553, 0x6769666e6f43]⟩,
  -- validatorSession.configVersioned catchain_idle_timeout:double catchain_max_deps:int round_candidates:int next_candidate_delay:double round_attempt_duration:int max_round_attempts:int max_block_size:int max_collated_data_size:int version:int = validatorSession.Config
  ⟨560, 549, 0x402a9703, [⟨550, none, false, .bare 6⟩, ⟨551, none, false, .int⟩, ⟨552, none, false, .int⟩, ⟨553, none, false, .bare 6⟩, ⟨554, none, false, .int⟩, ⟨555, none, false, .int⟩, ⟨556, none, false, .int⟩, ⟨557, none, false, .int⟩, ⟨63, none, false, .int⟩], unpackLE 266 [0x6f746164696c6176, 0x6e6f697373655372, 0x566769666e6f632e, 0x64656e6f69737265, 0x6961686374616320, 0x745f656c64695f6e, 0x643a74756f656d69, 0x616320656c62756f, 0x6d5f6e6961686374, 0x3a737065645f7861, 0x6e756f7220746e69, 0x6469646e61635f64, 0x746e693a73657461, 0x61635f7478656e20, 0x5f6574616469646e, 0x6f643a79616c6564, 0x756f7220656c6275, 0x6d657474615f646e, 0x74617275645f7470, 0x20746e693a6e6f69, 0x6e756f725f78616d, 0x706d657474615f64, 0x6d20746e693a7374, 0x6b636f6c625f7861, 0x6e693a657a69735f, 0x6f635f78616d2074, 0x645f646574616c6c, 0x657a69735f617461, 0x72657620746e693a, 0x746e693a6e6f6973, 0x64696c6176203d20, 0x73736553726f7461, 0x666e6f432e6e6f69, 0x6769]⟩,
  -- validatorSession.catchainOptions idle_timeout:double max_deps:int max_block_size:int block_hash_covers_data:Bool max_block_height_ceoff:int debug_disable_db:Bool = validatorSession.CatChainOptions
  ⟨561, 562, 0x70e249e6, [⟨563, none, false, .bare 6⟩, ⟨564, none, false, .int⟩, ⟨556, none, false, .int⟩, ⟨565, none, false, .bool⟩, ⟨566, none, false, .int⟩, ⟨567, none, false, .bool⟩], unpackLE 196 [0x6f746164696c6176, 0x6e6f697373655372, 0x696168637461632e, 0x736e6f6974704f6e, 0x69745f656c646920, 0x6f643a74756f656d, 0x78616d20656c6275, 0x6e693a737065645f, 0x6c625f78616d2074, 0x657a69735f6b636f, 0x6f6c6220746e693a, 0x5f687361685f6b63, 0x645f737265766f63, 0x6c6f6f423a617461, 0x6f6c625f78616d20, 0x68676965685f6b63, 0x3a66666f65635f74, 0x7562656420746e69, 0x6c62617369645f67, 0x6f6f423a62645f65, 0x696c6176203d206c, 0x736553726f746164, 0x7461432e6e6f6973, 0x74704f6e69616843, 0x736e6f69]⟩,
  -- validatorSession.configVersionedV2 catchain_opts:validatorSession.CatChainOptions round_candidates:int next_candidate_delay:double round_attempt_duration:int max_round_attempts:int max_block_size:int max_collated_data_size:int version:int = validatorSession.Config
  ⟨568, 549, 0xa97b11af, [⟨569, none, false, .boxed 562⟩, ⟨552, none, false, .int⟩, ⟨553, none, false, .bare 6⟩, ⟨554, none, false, .int⟩, ⟨555, none, false, .int⟩, ⟨556, none, false, .int⟩, ⟨557, none, false, .int⟩, ⟨63, none, false, .int⟩], unpackLE 264 [0x6f746164696c6176, 0x6e6f697373655372, 0x566769666e6f632e, 0x64656e6f69737265, 0x6863746163203256, 0x7374706f5f6e6961, 0x746164696c61763a, 0x6f6973736553726f, 0x6168437461432e6e, 0x6e6f6974704f6e69, 0x5f646e756f722073, 0x74616469646e6163, 0x6e20746e693a7365, 0x646e61635f747865, 0x65645f6574616469, 0x62756f643a79616c, 0x646e756f7220656c, 0x74706d657474615f, 0x6f6974617275645f, 0x616d20746e693a6e, 0x5f646e756f725f78, 0x7374706d65747461, 0x78616d20746e693a, 0x735f6b636f6c625f, 0x20746e693a657a69, 0x6c6c6f635f78616d, 0x7461645f64657461, 0x693a657a69735f61, 0x697372657620746e, 0x3d20746e693a6e6f, 0x746164696c617620, 0x6f6973736553726f, 0x6769666e6f432e6e]⟩,
  -- validatorSession.ping hash:long = validatorSession.Pong
  ⟨570, 537, 0x680449ad, [⟨55, none, false, .long⟩], unpackLE 55 [0x6f746164696c6176, 0x6e6f697373655372, 0x616820676e69702e, 0x20676e6f6c3a6873, 0x6164696c6176203d, 0x6973736553726f74, 0x676e6f502e6e6f]⟩,
  -- validatorSession.downloadCandidate round:int id:validatorSession.candidateId = validatorSession.Candidate
  ⟨571, 545, 0xe0fd3df5, [⟨518, none, false, .int⟩, ⟨52, none, false, .bare 538⟩], unpackLE 105 [0x6f746164696c6176, 0x6e6f697373655372, 0x616f6c6e776f642e, 0x616469646e614364, 0x646e756f72206574, 0x3a646920746e693a, 0x6f746164696c6176, 0x6e6f697373655372, 0x616469646e61632e, 0x76203d2064496574, 0x726f746164696c61, 0x2e6e6f6973736553, 0x74616469646e6143, 0x65]⟩,
  -- hashable.bool value:Bool = Hashable
  ⟨572, 573, 0xcf61441c, [⟨172, none, false, .bool⟩], unpackLE 35 [0x656c626168736168, 0x6176206c6f6f622e, 0x6c6f6f423a65756c, 0x6168736148203d20, 0x656c62]⟩,
  -- hashable.int32 value:int = Hashable
  ⟨574, 573, 0xd3b59356, [⟨172, none, false, .int⟩], unpackLE 35 [0x656c626168736168, 0x76203233746e692e, 0x746e693a65756c61, 0x6168736148203d20, 0x656c62]⟩,
  -- hashable.int64 value:long = Hashable
  ⟨575, 573, 0xe7da8e42, [⟨172, none, false, .long⟩], unpackLE 36 [0x656c626168736168, 0x76203436746e692e, 0x6e6f6c3a65756c61, 0x68736148203d2067, 0x656c6261]⟩,
  -- hashable.int256 value:int256 = Hashable
  ⟨576, 573, 0x3a2313cf, [⟨172, none, false, .int256⟩], unpackLE 39 [0x656c626168736168, 0x20363532746e692e, 0x6e693a65756c6176, 0x48203d2036353274, 0x656c6261687361]⟩,
  -- hashable.bytes value:bytes = Hashable
  ⟨577, 573, 0x0713de12, [⟨172, none, false, .bytes⟩], unpackLE 37 [0x656c626168736168, 0x762073657479622e, 0x7479623a65756c61, 0x736148203d207365, 0x656c626168]⟩,
  -- hashable.pair left:int right:int = Hashable
  ⟨578, 573, 0xc7e56895, [⟨496, none, false, .int⟩, ⟨497, none, false, .int⟩], unpackLE 43 [0x656c626168736168, 0x656c20726961702e, 0x7220746e693a7466, 0x746e693a74686769, 0x6168736148203d20, 0x656c62]⟩,
  -- hashable.vector value:vector int = Hashable
  ⟨579, 573, 0xdf34c36d, [⟨172, none, true, .int⟩], unpackLE 43 [0x656c626168736168, 0x20726f746365762e, 0x65763a65756c6176, 0x746e6920726f7463, 0x6168736148203d20, 0x656c62]⟩,
  -- hashable.validatorSessionOldRound seqno:int block:int signatures:int approve_signatures:int = Hashable
  ⟨580, 573, 0x478b67a9, [⟨33, none, false, .int⟩, ⟨492, none, false, .int⟩, ⟨126, none, false, .int⟩, ⟨581, none, false, .int⟩], unpackLE 102 [0x656c626168736168, 0x746164696c61762e, 0x6f6973736553726f, 0x6e756f52646c4f6e, 0x3a6f6e7165732064, 0x636f6c6220746e69, 0x697320746e693a6b, 0x7365727574616e67, 0x70706120746e693a, 0x6769735f65766f72, 0x3a7365727574616e, 0x6148203d20746e69, 0x656c62616873]⟩,
  -- hashable.validatorSessionRoundAttempt seqno:int votes:int precommitted:int vote_for_inited:int vote_for:int = Hashable
  ⟨582, 573, 0x4c11ffad, [⟨33, none, false, .int⟩, ⟨583, none, false, .int⟩, ⟨584, none, false, .int⟩, ⟨585, none, false, .int⟩, ⟨586, none, false, .int⟩], unpackLE 118 [0x656c626168736168, 0x746164696c61762e, 0x6f6973736553726f, 0x7441646e756f526e, 0x65732074706d6574, 0x20746e693a6f6e71, 0x6e693a7365746f76, 0x6d6f636572702074, 0x693a64657474696d, 0x5f65746f7620746e, 0x74696e695f726f66, 0x7620746e693a6465, 0x3a726f665f65746f, 0x6148203d20746e69, 0x656c62616873]⟩,
  -- hashable.validatorSessionRound locked_round:int locked_block:int seqno:int precommitted:Bool first_attempt:int approved_blocks:int signatures:int attempts:int = Hashable
  ⟨587, 573, 0x35774fe3, [⟨588, none, false, .int⟩, ⟨589, none, false, .int⟩, ⟨33, none, false, .int⟩, ⟨584, none, false, .bool⟩, ⟨590, none, false, .int⟩, ⟨591, none, false, .int⟩, ⟨126, none, false, .int⟩, ⟨592, none, false, .int⟩], unpackLE 169 [0x656c626168736168, 0x746164696c61762e, 0x6f6973736553726f, 0x6c20646e756f526e, 0x6f725f64656b636f, 0x20746e693a646e75, 0x625f64656b636f6c, 0x746e693a6b636f6c, 0x693a6f6e71657320, 0x6f6365727020746e, 0x3a64657474696d6d, 0x726966206c6f6f42, 0x6d657474615f7473, 0x6120746e693a7470, 0x5f6465766f727070, 0x693a736b636f6c62, 0x616e67697320746e, 0x6e693a7365727574, 0x706d657474612074, 0x3d20746e693a7374, 0x6c62616873614820, 0x65]⟩,
  -- hashable.blockSignature signature:int = Hashable
  ⟨593, 573, 0x37e192a2, [⟨121, none, false, .int⟩], unpackLE 48 [0x656c626168736168, 0x69536b636f6c622e, 0x2065727574616e67, 0x727574616e676973, 0x203d20746e693a65, 0x656c626168736148]⟩,
  -- hashable.sentBlock src:int root_hash:int file_hash:int collated_data_file_hash:int = Hashable
  ⟨594, 573, 0xbdb9952b, [⟨439, none, false, .int⟩, ⟨36, none, false, .int⟩, ⟨37, none, false, .int⟩, ⟨525, none, false, .int⟩], unpackLE 93 [0x656c626168736168, 0x6f6c42746e65732e, 0x693a637273206b63, 0x5f746f6f7220746e, 0x746e693a68736168, 0x61685f656c696620, 0x6320746e693a6873, 0x5f646574616c6c6f, 0x6c69665f61746164, 0x693a687361685f65, 0x736148203d20746e, 0x656c626168]⟩,
  -- hashable.sentBlockEmpty = Hashable
  ⟨595, 573, 0x9ef246af, [], unpackLE 34 [0x656c626168736168, 0x6f6c42746e65732e, 0x207974706d456b63, 0x626168736148203d, 0x656c]⟩,
  -- hashable.vote block:int node:int = Hashable
  ⟨596, 573, 0xaebf2bc5, [⟨492, none, false, .int⟩, ⟨404, none, false, .int⟩], unpackLE 43 [0x656c626168736168, 0x6c622065746f762e, 0x20746e693a6b636f, 0x746e693a65646f6e, 0x6168736148203d20, 0x656c62]⟩,
  -- hashable.blockCandidate block:int approved:int = Hashable
  ⟨597, 573, 0x0ba9b10d, [⟨492, none, false, .int⟩, ⟨598, none, false, .int⟩], unpackLE 57 [0x656c626168736168, 0x61436b636f6c622e, 0x206574616469646e, 0x6e693a6b636f6c62, 0x766f727070612074, 0x3d20746e693a6465, 0x6c62616873614820, 0x65]⟩,
  -- hashable.blockVoteCandidate block:int approved:int = Hashable
  ⟨599, 573, 0xcf0d6fe5, [⟨492, none, false, .int⟩, ⟨598, none, false, .int⟩], unpackLE 61 [0x656c626168736168, 0x6f566b636f6c622e, 0x6469646e61436574, 0x636f6c6220657461, 0x706120746e693a6b, 0x693a6465766f7270, 0x736148203d20746e, 0x656c626168]⟩,
  -- hashable.blockCandidateAttempt block:int votes:int = Hashable
  ⟨600, 573, 0x3f5c7d0b, [⟨492, none, false, .int⟩, ⟨583, none, false, .int⟩], unpackLE 61 [0x656c626168736168, 0x61436b636f6c622e, 0x416574616469646e, 0x622074706d657474, 0x746e693a6b636f6c, 0x693a7365746f7620, 0x736148203d20746e, 0x656c626168]⟩,
  -- hashable.cntVector data:int = Hashable
  ⟨601, 573, 0x0b286f38, [⟨16, none, false, .int⟩], unpackLE 38 [0x656c626168736168, 0x74636556746e632e, 0x3a6174616420726f, 0x6148203d20746e69, 0x656c62616873]⟩,
  -- hashable.cntSortedVector data:int = Hashable
  ⟨602, 573, 0x7b964659, [⟨16, none, false, .int⟩], unpackLE 44 [0x656c626168736168, 0x74726f53746e632e, 0x726f746365566465, 0x6e693a6174616420, 0x68736148203d2074, 0x656c6261]⟩,
  -- hashable.validatorSession ts:int old_rounds:int cur_round:int = Hashable
  ⟨603, 573, 0x681263d5, [⟨542, none, false, .int⟩, ⟨604, none, false, .int⟩, ⟨605, none, false, .int⟩], unpackLE 72 [0x656c626168736168, 0x746164696c61762e, 0x6f6973736553726f, 0x746e693a7374206e, 0x756f725f646c6f20, 0x20746e693a73646e, 0x6e756f725f727563, 0x203d20746e693a64, 0x656c626168736148]⟩,
  -- tonNode.sessionId workchain:int shard:long cc_seqno:int opts_hash:int256 = tonNode.SessionId
  ⟨606, 607, 0x7a9236ba, [⟨31, none, false, .int⟩, ⟨32, none, false, .long⟩, ⟨190, none, false, .int⟩, ⟨608, none, false, .int256⟩], unpackLE 92 [0x2e65646f4e6e6f74, 0x496e6f6973736573, 0x68636b726f772064, 0x20746e693a6e6961, 0x6f6c3a6472616873, 0x65735f636320676e, 0x20746e693a6f6e71, 0x7361685f7374706f, 0x363532746e693a68, 0x6f4e6e6f74203d20, 0x69737365532e6564, 0x64496e6f]⟩,
  -- tonNode.blockSignature who:int256 signature:bytes = tonNode.BlockSignature
  ⟨609, 610, 0x50f03c33, [⟨611, none, false, .int256⟩, ⟨121, none, false, .bytes⟩], unpackLE 74 [0x2e65646f4e6e6f74, 0x6769536b636f6c62, 0x772065727574616e, 0x3532746e693a6f68, 0x74616e6769732036, 0x657479623a657275, 0x4e6e6f74203d2073, 0x636f6c422e65646f, 0x7574616e6769536b, 0x6572]⟩,
  -- tonNode.blockId workchain:int shard:long seqno:int = tonNode.BlockId
  ⟨29, 30, 0xb7cdb167, [⟨31, none, false, .int⟩, ⟨32, none, false, .long⟩, ⟨33, none, false, .int⟩], unpackLE 68 [0x2e65646f4e6e6f74, 0x2064496b636f6c62, 0x696168636b726f77, 0x687320746e693a6e, 0x676e6f6c3a647261, 0x693a6f6e71657320, 0x6e6f74203d20746e, 0x6f6c422e65646f4e, 0x64496b63]⟩,
  -- tonNode.blockIdExt workchain:int shard:long seqno:int root_hash:int256 file_hash:int256 = tonNode.BlockIdExt
  ⟨34, 35, 0x6752eb78, [⟨31, none, false, .int⟩, ⟨32, none, false, .long⟩, ⟨33, none, false, .int⟩, ⟨36, none, false, .int256⟩, ⟨37, none, false, .int256⟩], unpackLE 108 [0x2e65646f4e6e6f74, 0x4564496b636f6c62, 0x636b726f77207478, 0x746e693a6e696168, 0x6c3a647261687320, 0x6e71657320676e6f, 0x6f7220746e693a6f, 0x3a687361685f746f, 0x6620363532746e69, 0x687361685f656c69, 0x20363532746e693a, 0x646f4e6e6f74203d, 0x496b636f6c422e65, 0x74784564]⟩,
  -- tonNode.zeroStateIdExt workchain:int root_hash:int256 file_hash:int256 = tonNode.ZeroStateIdExt
  ⟨38, 39, 0x1d7235ae, [⟨31, none, false, .int⟩, ⟨36, none, false, .int256⟩, ⟨37, none, false, .int256⟩], unpackLE 95 [0x2e65646f4e6e6f74, 0x746174536f72657a, 0x7720747845644965, 0x6e696168636b726f, 0x6f6f7220746e693a, 0x693a687361685f74, 0x696620363532746e, 0x3a687361685f656c, 0x3d20363532746e69, 0x65646f4e6e6f7420, 0x6174536f72655a2e, 0x74784564496574]⟩
]

def chunk7 : List Ctor := [
  -- tonNode.blockDescriptionEmpty = tonNode.BlockDescription
  ⟨612, 613, 0x8384ae95, [], unpackLE 56 [0x2e65646f4e6e6f74, 0x7365446b636f6c62, 0x6e6f697470697263, 0x203d207974706d45, 0x2e65646f4e6e6f74, 0x7365446b636f6c42, 0x6e6f697470697263]⟩,
  -- tonNode.blockDescription id:tonNode.blockIdExt = tonNode.BlockDescription
  ⟨614, 613, 0x46a1d088, [⟨52, none, false, .bare 34⟩], unpackLE 73 [0x2e65646f4e6e6f74, 0x7365446b636f6c62, 0x6e6f697470697263, 0x4e6e6f743a646920, 0x636f6c622e65646f, 0x3d2074784564496b, 0x65646f4e6e6f7420, 0x65446b636f6c422e, 0x6f69747069726373, 0x6e]⟩,
  -- tonNode.blocksDescription ids:vector tonNode.blockIdExt incomplete:Bool = tonNode.BlocksDescription
  ⟨615, 616, 0xd62a612c, [⟨104, none, true, .bare 34⟩, ⟨115, none, false, .bool⟩], unpackLE 99 [0x2e65646f4e6e6f74, 0x6544736b636f6c62, 0x6f69747069726373, 0x65763a736469206e, 0x6e6f7420726f7463, 0x6f6c622e65646f4e, 0x2074784564496b63, 0x656c706d6f636e69, 0x206c6f6f423a6574, 0x646f4e6e6f74203d, 0x736b636f6c422e65, 0x7470697263736544, 0x6e6f69]⟩,
  -- tonNode.preparedProofEmpty = tonNode.PreparedProof
  ⟨617, 618, 0xc769c17a, [], unpackLE 50 [0x2e65646f4e6e6f74, 0x6465726170657270, 0x706d45666f6f7250, 0x6e6f74203d207974, 0x6572502e65646f4e, 0x6f72506465726170, 0x666f]⟩,
  -- tonNode.preparedProof = tonNode.PreparedProof
  ⟨619, 618, 0x899f9a4b, [], unpackLE 45 [0x2e65646f4e6e6f74, 0x6465726170657270, 0x203d20666f6f7250, 0x2e65646f4e6e6f74, 0x6465726170657250, 0x666f6f7250]⟩,
  -- tonNode.preparedProofLink = tonNode.PreparedProof
  ⟨620, 618, 0x3dff328d, [], unpackLE 49 [0x2e65646f4e6e6f74, 0x6465726170657270, 0x6e694c666f6f7250, 0x4e6e6f74203d206b, 0x706572502e65646f, 0x6f6f725064657261, 0x66]⟩,
  -- tonNode.preparedState = tonNode.PreparedState
  ⟨621, 622, 0x375bcb6d, [], unpackLE 45 [0x2e65646f4e6e6f74, 0x6465726170657270, 0x203d206574617453, 0x2e65646f4e6e6f74, 0x6465726170657250, 0x6574617453]⟩,
  -- tonNode.notFoundState = tonNode.PreparedState
  ⟨623, 622, 0x32390a51, [], unpackLE 45 [0x2e65646f4e6e6f74, 0x646e756f46746f6e, 0x203d206574617453, 0x2e65646f4e6e6f74, 0x6465726170657250, 0x6574617453]⟩,
  -- tonNode.prepared = tonNode.Prepared
  ⟨624, 625, 0xeac4bbcd, [], unpackLE 35 [0x2e65646f4e6e6f74, 0x6465726170657270, 0x6f4e6e6f74203d20, 0x61706572502e6564, 0x646572]⟩,
  -- tonNode.notFound = tonNode.Prepared
  ⟨626, 625, 0xe2c33da6, [], unpackLE 35 [0x2e65646f4e6e6f74, 0x646e756f46746f6e, 0x6f4e6e6f74203d20, 0x61706572502e6564, 0x646572]⟩,
  -- tonNode.data data:bytes = tonNode.Data
  ⟨627, 628, 0x560a2484, [⟨16, none, false, .bytes⟩], unpackLE 38 [0x2e65646f4e6e6f74, 0x7461642061746164, 0x2073657479623a61, 0x646f4e6e6f74203d, 0x617461442e65]⟩,
  -- tonNode.ihrMessage data:bytes = tonNode.IhrMessage
  ⟨629, 630, 0x4534c307, [⟨16, none, false, .bytes⟩], unpackLE 50 [0x2e65646f4e6e6f74, 0x617373654d726869, 0x3a61746164206567, 0x203d207365747962, 0x2e65646f4e6e6f74, 0x617373654d726849, 0x6567]⟩,
  -- tonNode.externalMessage data:bytes = tonNode.ExternalMessage
  ⟨631, 632, 0xdc75a209, [⟨16, none, false, .bytes⟩], unpackLE 60 [0x2e65646f4e6e6f74, 0x6c616e7265747865, 0x206567617373654d, 0x7479623a61746164, 0x6e6f74203d207365, 0x7478452e65646f4e, 0x73654d6c616e7265, 0x65676173]⟩,
  -- tonNode.newShardBlock block:tonNode.blockIdExt cc_seqno:int data:bytes = tonNode.NewShardBlock
  ⟨633, 634, 0xa49dc229, [⟨492, none, false, .bare 34⟩, ⟨190, none, false, .int⟩, ⟨16, none, false, .bytes⟩], unpackLE 94 [0x2e65646f4e6e6f74, 0x647261685377656e, 0x6c62206b636f6c42, 0x4e6e6f743a6b636f, 0x636f6c622e65646f, 0x632074784564496b, 0x3a6f6e7165735f63, 0x6174616420746e69, 0x3d2073657479623a, 0x65646f4e6e6f7420, 0x7261685377654e2e, 0x6b636f6c4264]⟩,
  -- tonNode.blockBroadcastCompressed.data signatures:vector tonNode.blockSignature proof_data:bytes = tonNode.blockBroadcaseCompressed.Data
  ⟨635, 636, 0xfe9113b6, [⟨126, none, true, .bare 609⟩, ⟨637, none, false, .bytes⟩], unpackLE 135 [0x2e65646f4e6e6f74, 0x6f72426b636f6c62, 0x6f43747361636461, 0x646573736572706d, 0x697320617461642e, 0x7365727574616e67, 0x20726f746365763a, 0x2e65646f4e6e6f74, 0x6769536b636f6c62, 0x702065727574616e, 0x7461645f666f6f72, 0x2073657479623a61, 0x646f4e6e6f74203d, 0x426b636f6c622e65, 0x6573616364616f72, 0x73736572706d6f43, 0x617461442e6465]⟩,
  -- tonNode.blockBroadcast id:tonNode.blockIdExt catchain_seqno:int validator_set_hash:int signatures:vector tonNode.blockSignature proof:bytes data:bytes = tonNode.Broadcast
  ⟨638, 639, 0xae2e1105, [⟨52, none, false, .bare 34⟩, ⟨125, none, false, .int⟩, ⟨124, none, false, .int⟩, ⟨126, none, true, .bare 609⟩, ⟨85, none, false, .bytes⟩, ⟨16, none, false, .bytes⟩], unpackLE 170 [0x2e65646f4e6e6f74, 0x6f72426b636f6c62, 0x6920747361636461, 0x646f4e6e6f743a64, 0x496b636f6c622e65, 0x7461632074784564, 0x65735f6e69616863, 0x20746e693a6f6e71, 0x6f746164696c6176, 0x61685f7465735f72, 0x7320746e693a6873, 0x65727574616e6769, 0x726f746365763a73, 0x65646f4e6e6f7420, 0x69536b636f6c622e, 0x2065727574616e67, 0x79623a666f6f7270, 0x6174616420736574, 0x3d2073657479623a, 0x65646f4e6e6f7420, 0x616364616f72422e, 0x7473]⟩,
  -- tonNode.blockBroadcastCompressed id:tonNode.blockIdExt catchain_seqno:int validator_set_hash:int flags:# compressed:bytes = tonNode.Broadcast
  ⟨640, 639, 0x09fd1743, [⟨52, none, false, .bare 34⟩, ⟨125, none, false, .int⟩, ⟨124, none, false, .int⟩, ⟨1, none, false, .nat⟩, ⟨641, none, false, .bytes⟩], unpackLE 141 [0x2e65646f4e6e6f74, 0x6f72426b636f6c62, 0x6f43747361636461, 0x646573736572706d, 0x4e6e6f743a646920, 0x636f6c622e65646f, 0x632074784564496b, 0x5f6e696168637461, 0x6e693a6f6e716573, 0x6164696c61762074, 0x5f7465735f726f74, 0x746e693a68736168, 0x233a7367616c6620, 0x736572706d6f6320, 0x657479623a646573, 0x4e6e6f74203d2073, 0x616f72422e65646f, 0x7473616364]⟩,
  -- tonNode.ihrMessageBroadcast message:tonNode.ihrMessage = tonNode.Broadcast
  ⟨642, 639, 0x525da4b3, [⟨49, none, false, .bare 629⟩], unpackLE 74 [0x2e65646f4e6e6f74, 0x617373654d726869, 0x6364616f72426567, 0x7373656d20747361, 0x4e6e6f743a656761, 0x4d7268692e65646f, 0x3d20656761737365, 0x65646f4e6e6f7420, 0x616364616f72422e, 0x7473]⟩,
  -- tonNode.externalMessageBroadcast message:tonNode.externalMessage = tonNode.Broadcast
  ⟨643, 639, 0x3d1b1867, [⟨49, none, false, .bare 631⟩], unpackLE 84 [0x2e65646f4e6e6f74, 0x6c616e7265747865, 0x426567617373654d, 0x7473616364616f72, 0x6567617373656d20, 0x65646f4e6e6f743a, 0x616e72657478652e, 0x6567617373654d6c, 0x6f4e6e6f74203d20, 0x64616f72422e6564, 0x74736163]⟩,
  -- tonNode.newShardBlockBroadcast block:tonNode.newShardBlock = tonNode.Broadcast
  ⟨644, 639, 0x0af2fabc, [⟨492, none, false, .bare 633⟩], unpackLE 78 [0x2e65646f4e6e6f74, 0x647261685377656e, 0x6f72426b636f6c42, 0x6220747361636461, 0x6e6f743a6b636f6c, 0x77656e2e65646f4e, 0x6f6c426472616853, 0x6e6f74203d206b63, 0x6f72422e65646f4e, 0x747361636461]⟩,
  -- tonNode.shardPublicOverlayId workchain:int shard:long zero_state_file_hash:int256 = tonNode.ShardPublicOverlayId
  ⟨645, 646, 0x4d9ed329, [⟨31, none, false, .int⟩, ⟨32, none, false, .long⟩, ⟨647, none, false, .int256⟩], unpackLE 112 [0x2e65646f4e6e6f74, 0x6275506472616873, 0x6c7265764f63696c, 0x726f772064497961, 0x693a6e696168636b, 0x647261687320746e, 0x657a20676e6f6c3a, 0x65746174735f6f72, 0x61685f656c69665f, 0x3532746e693a6873, 0x4e6e6f74203d2036, 0x726168532e65646f, 0x4f63696c62755064, 0x644979616c726576]⟩,
  -- tonNode.privateBlockOverlayId zero_state_file_hash:int256 nodes:vector int256 = tonNode.PrivateBlockOverlayId
  ⟨648, 649, 0xa6f4d862, [⟨647, none, false, .int256⟩, ⟨312, none, true, .int256⟩], unpackLE 109 [0x2e65646f4e6e6f74, 0x4265746176697270, 0x7265764f6b636f6c, 0x657a20644979616c, 0x65746174735f6f72, 0x61685f656c69665f, 0x3532746e693a6873, 0x3a7365646f6e2036, 0x6920726f74636576, 0x203d20363532746e, 0x2e65646f4e6e6f74, 0x4265746176697250, 0x7265764f6b636f6c, 0x644979616c]⟩,
  -- tonNode.customOverlayId zero_state_file_hash:int256 name:string nodes:vector int256 = tonNode.CustomOverlayId
  ⟨650, 651, 0x39b41ea6, [⟨647, none, false, .int256⟩, ⟨275, none, false, .string⟩, ⟨312, none, true, .int256⟩], unpackLE 109 [0x2e65646f4e6e6f74, 0x764f6d6f74737563, 0x20644979616c7265, 0x6174735f6f72657a, 0x5f656c69665f6574, 0x746e693a68736168, 0x656d616e20363532, 0x20676e697274733a, 0x65763a7365646f6e, 0x746e6920726f7463, 0x6f74203d20363532, 0x75432e65646f4e6e, 0x7265764f6d6f7473, 0x644979616c]⟩,
  -- tonNode.keyBlocks blocks:vector tonNode.blockIdExt incomplete:Bool error:Bool = tonNode.KeyBlocks
  ⟨652, 653, 0x07664d59, [⟨489, none, true, .bare 34⟩, ⟨115, none, false, .bool⟩, ⟨654, none, false, .bool⟩], unpackLE 97 [0x2e65646f4e6e6f74, 0x6b636f6c4279656b, 0x736b636f6c622073, 0x20726f746365763a, 0x2e65646f4e6e6f74, 0x4564496b636f6c62, 0x6d6f636e69207478, 0x6f423a6574656c70, 0x726f727265206c6f, 0x203d206c6f6f423a, 0x2e65646f4e6e6f74, 0x6b636f6c4279654b, 0x73]⟩,
  -- ton.blockId root_cell_hash:int256 file_hash:int256 = ton.BlockId
  ⟨655, 656, 0xc50b6e70, [⟨657, none, false, .int256⟩, ⟨37, none, false, .int256⟩], unpackLE 64 [0x636f6c622e6e6f74, 0x746f6f722064496b, 0x61685f6c6c65635f, 0x3532746e693a6873, 0x685f656c69662036, 0x32746e693a687361, 0x6e6f74203d203635, 0x64496b636f6c422e]⟩,
  -- ton.blockIdApprove root_cell_hash:int256 file_hash:int256 = ton.BlockId
  ⟨658, 656, 0x2dd44a49, [⟨657, none, false, .int256⟩, ⟨37, none, false, .int256⟩], unpackLE 71 [0x636f6c622e6e6f74, 0x6f7270704164496b, 0x5f746f6f72206576, 0x7361685f6c6c6563, 0x363532746e693a68, 0x61685f656c696620, 0x3532746e693a6873, 0x2e6e6f74203d2036, 0x64496b636f6c42]⟩,
  -- tonNode.dataFull id:tonNode.blockIdExt proof:bytes block:bytes is_link:Bool = tonNode.DataFull
  ⟨659, 660, 0xbe589f93, [⟨52, none, false, .bare 34⟩, ⟨85, none, false, .bytes⟩, ⟨492, none, false, .bytes⟩, ⟨661, none, false, .bool⟩], unpackLE 94 [0x2e65646f4e6e6f74, 0x6c6c754661746164, 0x4e6e6f743a646920, 0x636f6c622e65646f, 0x702074784564496b, 0x7479623a666f6f72, 0x6b636f6c62207365, 0x692073657479623a, 0x423a6b6e696c5f73, 0x6f74203d206c6f6f, 0x61442e65646f4e6e, 0x6c6c75466174]⟩,
  -- tonNode.dataFullCompressed id:tonNode.blockIdExt flags:# compressed:bytes is_link:Bool = tonNode.DataFull
  ⟨662, 660, 0x463d2ca5, [⟨52, none, false, .bare 34⟩, ⟨1, none, false, .nat⟩, ⟨641, none, false, .bytes⟩, ⟨661, none, false, .bool⟩], unpackLE 105 [0x2e65646f4e6e6f74, 0x6c6c754661746164, 0x73736572706d6f43, 0x6f743a6469206465, 0x6c622e65646f4e6e, 0x74784564496b636f, 0x233a7367616c6620, 0x736572706d6f6320, 0x657479623a646573, 0x6e696c5f73692073, 0x3d206c6f6f423a6b, 0x65646f4e6e6f7420, 0x6c7546617461442e, 0x6c]⟩,
  -- tonNode.dataFullEmpty = tonNode.DataFull
  ⟨663, 660, 0x576e85ca, [], unpackLE 40 [0x2e65646f4e6e6f74, 0x6c6c754661746164, 0x203d207974706d45, 0x2e65646f4e6e6f74, 0x6c6c754661746144]⟩,
  -- tonNode.capabilities version:int capabilities:long = tonNode.Capabilities
  ⟨664, 665, 0xf5bf60c0, [⟨63, none, false, .int⟩, ⟨64, none, false, .long⟩], unpackLE 73 [0x2e65646f4e6e6f74, 0x696c696261706163, 0x7265762073656974, 0x746e693a6e6f6973, 0x6c69626170616320, 0x6f6c3a7365697469, 0x6e6f74203d20676e, 0x7061432e65646f4e, 0x656974696c696261, 0x73]⟩,
  -- tonNode.success = tonNode.Success
  ⟨666, 667, 0xc096244f, [], unpackLE 33 [0x2e65646f4e6e6f74, 0x2073736563637573, 0x646f4e6e6f74203d, 0x7365636375532e65, 0x73]⟩,
  -- tonNode.archiveNotFound = tonNode.ArchiveInfo
  ⟨668, 669, 0x99291683, [], unpackLE 45 [0x2e65646f4e6e6f74, 0x4e65766968637261, 0x20646e756f46746f, 0x646f4e6e6f74203d, 0x7669686372412e65, 0x6f666e4965]⟩,
  -- tonNode.archiveInfo id:long = tonNode.ArchiveInfo
  ⟨670, 669, 0x19efff8c, [⟨52, none, false, .long⟩], unpackLE 49 [0x2e65646f4e6e6f74, 0x4965766968637261, 0x6c3a6469206f666e, 0x6f74203d20676e6f, 0x72412e65646f4e6e, 0x666e496576696863, 0x6f]⟩,
  -- tonNode.getNextBlockDescription prev_block:tonNode.blockIdExt = tonNode.BlockDescription
  ⟨671, 613, 0x1455b0f3, [⟨515, none, false, .bare 34⟩], unpackLE 88 [0x2e65646f4e6e6f74, 0x427478654e746567, 0x637365446b636f6c, 0x206e6f6974706972, 0x6f6c625f76657270, 0x6f4e6e6f743a6b63, 0x6b636f6c622e6564, 0x203d207478456449, 0x2e65646f4e6e6f74, 0x7365446b636f6c42, 0x6e6f697470697263]⟩,
  -- tonNode.getNextBlocksDescription prev_block:tonNode.blockIdExt limit:int = tonNode.BlocksDescription
  ⟨672, 616, 0x3f2812c4, [⟨515, none, false, .bare 34⟩, ⟨230, none, false, .int⟩], unpackLE 100 [0x2e65646f4e6e6f74, 0x427478654e746567, 0x736544736b636f6c, 0x6e6f697470697263, 0x6c625f7665727020, 0x4e6e6f743a6b636f, 0x636f6c622e65646f, 0x6c2074784564496b, 0x746e693a74696d69, 0x6f4e6e6f74203d20, 0x6b636f6c422e6564, 0x7069726373654473, 0x6e6f6974]⟩,
  -- tonNode.getPrevBlocksDescription next_block:tonNode.blockIdExt limit:int cutoff_seqno:int = tonNode.BlocksDescription
  ⟨673, 616, 0x5c6d6cc9, [⟨674, none, false, .bare 34⟩, ⟨230, none, false, .int⟩, ⟨675, none, false, .int⟩], unpackLE 117 [0x2e65646f4e6e6f74, 0x4276657250746567, 0x736544736b636f6c, 0x6e6f697470697263, 0x6c625f7478656e20, 0x4e6e6f743a6b636f, 0x636f6c622e65646f, 0x6c2074784564496b, 0x746e693a74696d69, 0x5f66666f74756320, 0x6e693a6f6e716573, 0x4e6e6f74203d2074, 0x636f6c422e65646f, 0x697263736544736b, 0x6e6f697470]⟩,
  -- tonNode.prepareBlockProof block:tonNode.blockIdExt allow_partial:Bool = tonNode.PreparedProof
  ⟨676, 618, 0x875c3308, [⟨492, none, false, .bare 34⟩, ⟨677, none, false, .bool⟩], unpackLE 93 [0x2e65646f4e6e6f74, 0x4265726170657270, 0x6f6f72506b636f6c, 0x3a6b636f6c622066, 0x2e65646f4e6e6f74, 0x4564496b636f6c62, 0x776f6c6c61207478, 0x6c6169747261705f, 0x203d206c6f6f423a, 0x2e65646f4e6e6f74, 0x6465726170657250, 0x666f6f7250]⟩,
  -- tonNode.prepareKeyBlockProof block:tonNode.blockIdExt allow_partial:Bool = tonNode.PreparedProof
  ⟨678, 618, 0x77364c38, [⟨492, none, false, .bare 34⟩, ⟨677, none, false, .bool⟩], unpackLE 96 [0x2e65646f4e6e6f74, 0x4b65726170657270, 0x506b636f6c427965, 0x6f6c6220666f6f72, 0x6f4e6e6f743a6b63, 0x6b636f6c622e6564, 0x6c61207478456449, 0x747261705f776f6c, 0x6c6f6f423a6c6169, 0x6f4e6e6f74203d20, 0x61706572502e6564, 0x666f6f7250646572]⟩,
  -- tonNode.prepareBlockProofs blocks:vector tonNode.blockIdExt allow_partial:Bool = tonNode.PreparedProof
  ⟨679, 618, 0xed79b2b8, [⟨489, none, true, .bare 34⟩, ⟨677, none, false, .bool⟩], unpackLE 102 [0x2e65646f4e6e6f74, 0x4265726170657270, 0x6f6f72506b636f6c, 0x6b636f6c62207366, 0x726f746365763a73, 0x65646f4e6e6f7420, 0x64496b636f6c622e, 0x6f6c6c6120747845, 0x6169747261705f77, 0x3d206c6f6f423a6c, 0x65646f4e6e6f7420, 0x657261706572502e, 0x666f6f725064]⟩,
  -- tonNode.prepareKeyBlockProofs blocks:vector tonNode.blockIdExt allow_partial:Bool = tonNode.PreparedProof
  ⟨680, 618, 0x8c6cfbe4, [⟨489, none, true, .bare 34⟩, ⟨677, none, false, .bool⟩], unpackLE 105 [0x2e65646f4e6e6f74, 0x4b65726170657270, 0x506b636f6c427965, 0x6c622073666f6f72, 0x6365763a736b636f, 0x4e6e6f7420726f74, 0x636f6c622e65646f, 0x612074784564496b, 0x7261705f776f6c6c, 0x6f6f423a6c616974, 0x4e6e6f74203d206c, 0x706572502e65646f, 0x6f6f725064657261, 0x66]⟩
]

def chunk8 : List Ctor := [
  -- tonNode.prepareBlock block:tonNode.blockIdExt = tonNode.Prepared
  ⟨681, 625, 0x75a37f4e, [⟨492, none, false, .bare 34⟩], unpackLE 64 [0x2e65646f4e6e6f74, 0x4265726170657270, 0x6f6c62206b636f6c, 0x6f4e6e6f743a6b63, 0x6b636f6c622e6564, 0x203d207478456449, 0x2e65646f4e6e6f74, 0x6465726170657250]⟩,
  -- tonNode.prepareBlocks blocks:vector tonNode.blockIdExt = tonNode.Prepared
  ⟨682, 625, 0x6affabfc, [⟨489, none, true, .bare 34⟩], unpackLE 73 [0x2e65646f4e6e6f74, 0x4265726170657270, 0x6c6220736b636f6c, 0x6365763a736b636f, 0x4e6e6f7420726f74, 0x636f6c622e65646f, 0x3d2074784564496b, 0x65646f4e6e6f7420, 0x657261706572502e, 0x64]⟩,
  -- tonNode.preparePersistentState block:tonNode.blockIdExt masterchain_block:tonNode.blockIdExt = tonNode.PreparedState
  ⟨683, 622, 0xfeea269e, [⟨492, none, false, .bare 34⟩, ⟨684, none, false, .bare 34⟩], unpackLE 116 [0x2e65646f4e6e6f74, 0x5065726170657270, 0x6e65747369737265, 0x6220657461745374, 0x6e6f743a6b636f6c, 0x6f6c622e65646f4e, 0x2074784564496b63, 0x686372657473616d, 0x636f6c625f6e6961, 0x646f4e6e6f743a6b, 0x496b636f6c622e65, 0x74203d2074784564, 0x502e65646f4e6e6f, 0x5364657261706572, 0x65746174]⟩,
  -- tonNode.prepareZeroState block:tonNode.blockIdExt = tonNode.PreparedState
  ⟨685, 622, 0x41ce0825, [⟨492, none, false, .bare 34⟩], unpackLE 73 [0x2e65646f4e6e6f74, 0x5a65726170657270, 0x65746174536f7265, 0x743a6b636f6c6220, 0x622e65646f4e6e6f, 0x784564496b636f6c, 0x4e6e6f74203d2074, 0x706572502e65646f, 0x7461745364657261, 0x65]⟩,
  -- tonNode.getNextKeyBlockIds block:tonNode.blockIdExt max_size:int = tonNode.KeyBlocks
  ⟨686, 653, 0xf2e7cfbb, [⟨492, none, false, .bare 34⟩, ⟨451, none, false, .int⟩], unpackLE 84 [0x2e65646f4e6e6f74, 0x4b7478654e746567, 0x496b636f6c427965, 0x6b636f6c62207364, 0x65646f4e6e6f743a, 0x64496b636f6c622e, 0x5f78616d20747845, 0x746e693a657a6973, 0x6f4e6e6f74203d20, 0x6c4279654b2e6564, 0x736b636f]⟩,
  -- tonNode.downloadNextBlockFull prev_block:tonNode.blockIdExt = tonNode.DataFull
  ⟨687, 660, 0x6ea0374a, [⟨515, none, false, .bare 34⟩], unpackLE 78 [0x2e65646f4e6e6f74, 0x64616f6c6e776f64, 0x636f6c427478654e, 0x7270206c6c75466b, 0x6b636f6c625f7665, 0x65646f4e6e6f743a, 0x64496b636f6c622e, 0x6f74203d20747845, 0x61442e65646f4e6e, 0x6c6c75466174]⟩,
  -- tonNode.downloadBlockFull block:tonNode.blockIdExt = tonNode.DataFull
  ⟨688, 660, 0x6a27c49d, [⟨492, none, false, .bare 34⟩], unpackLE 69 [0x2e65646f4e6e6f74, 0x64616f6c6e776f64, 0x6c75466b636f6c42, 0x3a6b636f6c62206c, 0x2e65646f4e6e6f74, 0x4564496b636f6c62, 0x6e6f74203d207478, 0x7461442e65646f4e, 0x6c6c754661]⟩,
  -- tonNode.downloadBlock block:tonNode.blockIdExt = tonNode.Data
  ⟨689, 628, 0xe27279c3, [⟨492, none, false, .bare 34⟩], unpackLE 61 [0x2e65646f4e6e6f74, 0x64616f6c6e776f64, 0x6c62206b636f6c42, 0x4e6e6f743a6b636f, 0x636f6c622e65646f, 0x3d2074784564496b, 0x65646f4e6e6f7420, 0x617461442e]⟩,
  -- tonNode.downloadPersistentState block:tonNode.blockIdExt masterchain_block:tonNode.blockIdExt = tonNode.Data
  ⟨690, 628, 0x7f99e3b8, [⟨492, none, false, .bare 34⟩, ⟨684, none, false, .bare 34⟩], unpackLE 108 [0x2e65646f4e6e6f74, 0x64616f6c6e776f64, 0x6574736973726550, 0x206574617453746e, 0x6f743a6b636f6c62, 0x6c622e65646f4e6e, 0x74784564496b636f, 0x6372657473616d20, 0x6f6c625f6e696168, 0x6f4e6e6f743a6b63, 0x6b636f6c622e6564, 0x203d207478456449, 0x2e65646f4e6e6f74, 0x61746144]⟩,
  -- tonNode.downloadPersistentStateSlice block:tonNode.blockIdExt masterchain_block:tonNode.blockIdExt offset:long max_size:long = tonNode.Data
  ⟨691, 628, 0xf5e9e6e3, [⟨492, none, false, .bare 34⟩, ⟨684, none, false, .bare 34⟩, ⟨347, none, false, .long⟩, ⟨451, none, false, .long⟩], unpackLE 139 [0x2e65646f4e6e6f74, 0x64616f6c6e776f64, 0x6574736973726550, 0x536574617453746e, 0x6f6c62206563696c, 0x6f4e6e6f743a6b63, 0x6b636f6c622e6564, 0x616d207478456449, 0x6961686372657473, 0x3a6b636f6c625f6e, 0x2e65646f4e6e6f74, 0x4564496b636f6c62, 0x657366666f207478, 0x6d20676e6f6c3a74, 0x3a657a69735f7861, 0x74203d20676e6f6c, 0x442e65646f4e6e6f, 0x617461]⟩,
  -- tonNode.downloadZeroState block:tonNode.blockIdExt = tonNode.Data
  ⟨692, 628, 0xadcc1e5a, [⟨492, none, false, .bare 34⟩], unpackLE 65 [0x2e65646f4e6e6f74, 0x64616f6c6e776f64, 0x746174536f72655a, 0x3a6b636f6c622065, 0x2e65646f4e6e6f74, 0x4564496b636f6c62, 0x6e6f74203d207478, 0x7461442e65646f4e, 0x61]⟩,
  -- tonNode.downloadBlockProof block:tonNode.blockIdExt = tonNode.Data
  ⟨693, 628, 0x4bd6478a, [⟨492, none, false, .bare 34⟩], unpackLE 66 [0x2e65646f4e6e6f74, 0x64616f6c6e776f64, 0x6f72506b636f6c42, 0x6b636f6c6220666f, 0x65646f4e6e6f743a, 0x64496b636f6c622e, 0x6f74203d20747845, 0x61442e65646f4e6e, 0x6174]⟩,
  -- tonNode.downloadKeyBlockProof block:tonNode.blockIdExt = tonNode.Data
  ⟨694, 628, 0xec23483a, [⟨492, none, false, .bare 34⟩], unpackLE 69 [0x2e65646f4e6e6f74, 0x64616f6c6e776f64, 0x6b636f6c4279654b, 0x6c6220666f6f7250, 0x4e6e6f743a6b636f, 0x636f6c622e65646f, 0x3d2074784564496b, 0x65646f4e6e6f7420, 0x617461442e]⟩,
  -- tonNode.downloadBlockProofLink block:tonNode.blockIdExt = tonNode.Data
  ⟨695, 628, 0x25b300c6, [⟨492, none, false, .bare 34⟩], unpackLE 70 [0x2e65646f4e6e6f74, 0x64616f6c6e776f64, 0x6f72506b636f6c42, 0x62206b6e694c666f, 0x6e6f743a6b636f6c, 0x6f6c622e65646f4e, 0x2074784564496b63, 0x646f4e6e6f74203d, 0x617461442e65]⟩,
  -- tonNode.downloadKeyBlockProofLink block:tonNode.blockIdExt = tonNode.Data
  ⟨696, 628, 0x12e42ad2, [⟨492, none, false, .bare 34⟩], unpackLE 73 [0x2e65646f4e6e6f74, 0x64616f6c6e776f64, 0x6b636f6c4279654b, 0x6e694c666f6f7250, 0x3a6b636f6c62206b, 0x2e65646f4e6e6f74, 0x4564496b636f6c62, 0x6e6f74203d207478, 0x7461442e65646f4e, 0x61]⟩,
  -- tonNode.getArchiveInfo masterchain_seqno:int = tonNode.ArchiveInfo
  ⟨697, 669, 0x7b2dd941, [⟨698, none, false, .int⟩], unpackLE 66 [0x2e65646f4e6e6f74, 0x6968637241746567, 0x6d206f666e496576, 0x6168637265747361, 0x6f6e7165735f6e69, 0x74203d20746e693a, 0x412e65646f4e6e6f, 0x6e49657669686372, 0x6f66]⟩,
  -- tonNode.getArchiveSlice archive_id:long offset:long max_size:int = tonNode.Data
  ⟨699, 628, 0x203b5168, [⟨700, none, false, .long⟩, ⟨347, none, false, .long⟩, ⟨451, none, false, .int⟩], unpackLE 79 [0x2e65646f4e6e6f74, 0x6968637241746567, 0x206563696c536576, 0x5f65766968637261, 0x20676e6f6c3a6469, 0x6c3a74657366666f, 0x5f78616d20676e6f, 0x746e693a657a6973, 0x6f4e6e6f74203d20, 0x617461442e6564]⟩,
  -- tonNode.getCapabilities = tonNode.Capabilities
  ⟨701, 665, 0xdee618f8, [], unpackLE 46 [0x2e65646f4e6e6f74, 0x6261706143746567, 0x2073656974696c69, 0x646f4e6e6f74203d, 0x6962617061432e65, 0x73656974696c]⟩,
  -- tonNode.slave.sendExtMessage message:tonNode.externalMessage = tonNode.Success
  ⟨702, 667, 0x0376f2a9, [⟨49, none, false, .bare 631⟩], unpackLE 78 [0x2e65646f4e6e6f74, 0x65732e6576616c73, 0x73654d747845646e, 0x73656d2065676173, 0x6e6f743a65676173, 0x7478652e65646f4e, 0x73654d6c616e7265, 0x74203d2065676173, 0x532e65646f4e6e6f, 0x737365636375]⟩,
  -- tonNode.query = Object
  ⟨703, 11, 0x69f324d3, [], unpackLE 22 [0x2e65646f4e6e6f74, 0x203d207972657571, 0x7463656a624f]⟩,
  -- db.root.dbDescription version:int first_masterchain_block_id:tonNode.blockIdExt flags:int = db.root.DbDescription
  ⟨704, 705, 0xb41873f3, [⟨63, none, false, .int⟩, ⟨706, none, false, .bare 34⟩, ⟨1, none, false, .int⟩], unpackLE 113 [0x2e746f6f722e6264, 0x6972637365446264, 0x6576206e6f697470, 0x6e693a6e6f697372, 0x5f74737269662074, 0x686372657473616d, 0x636f6c625f6e6961, 0x6e6f743a64695f6b, 0x6f6c622e65646f4e, 0x2074784564496b63, 0x6e693a7367616c66, 0x722e6264203d2074, 0x654462442e746f6f, 0x6f69747069726373, 0x6e]⟩,
  -- db.root.key.cellDb version:int = db.root.Key
  ⟨707, 708, 0x72f9b33e, [⟨63, none, false, .int⟩], unpackLE 44 [0x2e746f6f722e6264, 0x6c6c65632e79656b, 0x6973726576206244, 0x3d20746e693a6e6f, 0x746f6f722e626420, 0x79654b2e]⟩,
  -- db.root.key.blockDb version:int = db.root.Key
  ⟨709, 708, 0x3012bf40, [⟨63, none, false, .int⟩], unpackLE 45 [0x2e746f6f722e6264, 0x636f6c622e79656b, 0x737265762062446b, 0x20746e693a6e6f69, 0x6f6f722e6264203d, 0x79654b2e74]⟩,
  -- db.root.config celldb_version:int blockdb_version:int = db.root.Config
  ⟨710, 711, 0xd61182a1, [⟨712, none, false, .int⟩, ⟨713, none, false, .int⟩], unpackLE 70 [0x2e746f6f722e6264, 0x63206769666e6f63, 0x65765f62646c6c65, 0x6e693a6e6f697372, 0x646b636f6c622074, 0x6f69737265765f62, 0x203d20746e693a6e, 0x2e746f6f722e6264, 0x6769666e6f43]⟩,
  -- db.root.key.config = db.root.Key
  ⟨714, 708, 0x13c33284, [], unpackLE 32 [0x2e746f6f722e6264, 0x666e6f632e79656b, 0x2e6264203d206769, 0x79654b2e746f6f72]⟩,
  -- db.celldb.value block_id:tonNode.blockIdExt prev:int256 next:int256 root_hash:int256 = db.celldb.Value
  ⟨715, 716, 0xe6101440, [⟨175, none, false, .bare 34⟩, ⟨191, none, false, .int256⟩, ⟨717, none, false, .int256⟩, ⟨36, none, false, .int256⟩], unpackLE 102 [0x646c6c65632e6264, 0x2065756c61762e62, 0x64695f6b636f6c62, 0x65646f4e6e6f743a, 0x64496b636f6c622e, 0x7665727020747845, 0x20363532746e693a, 0x746e693a7478656e, 0x746f6f7220363532, 0x6e693a687361685f, 0x64203d2036353274, 0x62646c6c65632e62, 0x65756c61562e]⟩,
  -- db.celldb.key.value hash:int256 = db.celldb.key.Value
  ⟨718, 719, 0x5bb13923, [⟨55, none, false, .int256⟩], unpackLE 53 [0x646c6c65632e6264, 0x61762e79656b2e62, 0x687361682065756c, 0x20363532746e693a, 0x6c65632e6264203d, 0x2e79656b2e62646c, 0x65756c6156]⟩,
  -- db.block.info#4ac6e727 id:tonNode.blockIdExt flags:# prev_left:flags.1?tonNode.blockIdExt prev_right:flags.2?tonNode.blockIdExt next_left:flags.3?tonNode.blockIdExt next_right:flags.4?tonNode.blockIdExt lt:flags.13?long ts:flags.14?int state:flags.17?int256 masterchain_ref_seqno:flags.23?int = db.block.Info
  ⟨720, 721, 0x4ac6e727, [⟨52, none, false, .bare 34⟩, ⟨1, none, false, .nat⟩, ⟨722, some (1, 1), false, .bare 34⟩, ⟨723, some (1, 2), false, .bare 34⟩, ⟨724, some (1, 3), false, .bare 34⟩, ⟨725, some (1, 4), false, .bare 34⟩, ⟨109, some (1, 13), false, .long⟩, ⟨542, some (1, 14), false, .int⟩, ⟨86, some (1, 17), false, .int256⟩, ⟨726, some (1, 23), false, .int⟩], unpackLE 308 [0x6b636f6c622e6264, 0x6134236f666e692e, 0x6920373237653663, 0x646f4e6e6f743a64, 0x496b636f6c622e65, 0x616c662074784564, 0x65727020233a7367, 0x663a7466656c5f76, 0x743f312e7367616c, 0x622e65646f4e6e6f, 0x784564496b636f6c, 0x725f766572702074, 0x616c663a74686769, 0x6e6f743f322e7367, 0x6f6c622e65646f4e, 0x2074784564496b63, 0x66656c5f7478656e, 0x2e7367616c663a74, 0x646f4e6e6f743f33, 0x496b636f6c622e65, 0x78656e2074784564, 0x3a74686769725f74, 0x3f342e7367616c66, 0x2e65646f4e6e6f74, 0x4564496b636f6c62, 0x6c663a746c207478, 0x6c3f33312e736761, 0x663a737420676e6f, 0x3f34312e7367616c, 0x7461747320746e69, 0x2e7367616c663a65, 0x3532746e693f3731, 0x72657473616d2036, 0x65725f6e69616863, 0x3a6f6e7165735f66, 0x33322e7367616c66, 0x64203d20746e693f, 0x2e6b636f6c622e62, 0x6f666e49]⟩,
  -- db.block.packedInfo id:tonNode.blockIdExt unixtime:int offset:long = db.block.Info
  ⟨727, 721, 0x46bb9192, [⟨52, none, false, .bare 34⟩, ⟨728, none, false, .int⟩, ⟨347, none, false, .long⟩], unpackLE 82 [0x6b636f6c622e6264, 0x4964656b6361702e, 0x743a6469206f666e, 0x622e65646f4e6e6f, 0x784564496b636f6c, 0x697478696e752074, 0x6f20746e693a656d, 0x6f6c3a7465736666, 0x2e6264203d20676e, 0x6e492e6b636f6c62, 0x6f66]⟩,
  -- db.block.archivedInfo id:tonNode.blockIdExt flags:# next:flags.0?tonNode.blockIdExt = db.block.Info
  ⟨729, 721, 0x205f7a51, [⟨52, none, false, .bare 34⟩, ⟨1, none, false, .nat⟩, ⟨717, some (1, 0), false, .bare 34⟩], unpackLE 99 [0x6b636f6c622e6264, 0x657669686372612e, 0x6469206f666e4964, 0x65646f4e6e6f743a, 0x64496b636f6c622e, 0x67616c6620747845, 0x7478656e20233a73, 0x302e7367616c663a, 0x65646f4e6e6f743f, 0x64496b636f6c622e, 0x6264203d20747845, 0x492e6b636f6c622e, 0x6f666e]⟩,
  -- db.blockdb.value next:tonNode.blockIdExt data:bytes = db.blockdb.Value
  ⟨730, 731, 0xb28ec42d, [⟨717, none, false, .bare 34⟩, ⟨16, none, false, .bytes⟩], unpackLE 70 [0x6b636f6c622e6264, 0x65756c61762e6264, 0x6f743a7478656e20, 0x6c622e65646f4e6e, 0x74784564496b636f, 0x79623a6174616420, 0x6264203d20736574, 0x62646b636f6c622e, 0x65756c61562e]⟩,
  -- db.blockdb.lru id:tonNode.blockIdExt prev:int256 next:int256 = db.blockdb.Lru
  ⟨732, 733, 0xc11655b3, [⟨52, none, false, .bare 34⟩, ⟨191, none, false, .int256⟩, ⟨717, none, false, .int256⟩], unpackLE 77 [0x6b636f6c622e6264, 0x692075726c2e6264, 0x646f4e6e6f743a64, 0x496b636f6c622e65, 0x6572702074784564, 0x363532746e693a76, 0x6e693a7478656e20, 0x64203d2036353274, 0x646b636f6c622e62, 0x75724c2e62]⟩,
  -- db.blockdb.key.lru id:tonNode.blockIdExt = db.blockdb.Key
  ⟨734, 735, 0x50bc963a, [⟨52, none, false, .bare 34⟩], unpackLE 57 [0x6b636f6c622e6264, 0x6c2e79656b2e6264, 0x6f743a6469207572, 0x6c622e65646f4e6e, 0x74784564496b636f, 0x6c622e6264203d20, 0x654b2e62646b636f, 0x79]⟩,
  -- db.blockdb.key.value id:tonNode.blockIdExt = db.blockdb.Key
  ⟨736, 735, 0x7f57d173, [⟨52, none, false, .bare 34⟩], unpackLE 59 [0x6b636f6c622e6264, 0x762e79656b2e6264, 0x3a64692065756c61, 0x2e65646f4e6e6f74, 0x4564496b636f6c62, 0x2e6264203d207478, 0x2e62646b636f6c62, 0x79654b]⟩,
  -- db.candidate source:PublicKey id:tonNode.blockIdExt data:bytes collated_data:bytes = db.Candidate
  ⟨737, 738, 0x65d96ada, [⟨739, none, false, .boxed 277⟩, ⟨52, none, false, .bare 34⟩, ⟨16, none, false, .bytes⟩, ⟨180, none, false, .bytes⟩], unpackLE 97 [0x69646e61632e6264, 0x756f732065746164, 0x6c6275503a656372, 0x64692079654b6369, 0x65646f4e6e6f743a, 0x64496b636f6c622e, 0x6174616420747845, 0x632073657479623a, 0x5f646574616c6c6f, 0x7479623a61746164, 0x2e6264203d207365, 0x74616469646e6143, 0x65]⟩,
  -- db.candidate.id source:PublicKey id:tonNode.blockIdExt collated_data_file_hash:int256 = db.candidate.Id
  ⟨740, 741, 0x37c0b287, [⟨739, none, false, .boxed 277⟩, ⟨52, none, false, .bare 34⟩, ⟨525, none, false, .int256⟩], unpackLE 103 [0x69646e61632e6264, 0x2064692e65746164, 0x503a656372756f73, 0x79654b63696c6275, 0x4e6e6f743a646920, 0x636f6c622e65646f, 0x632074784564496b, 0x5f646574616c6c6f, 0x6c69665f61746164, 0x693a687361685f65, 0x203d20363532746e, 0x69646e61632e6264, 0x64492e65746164]⟩,
  -- db.filedb.key.empty = db.filedb.Key
  ⟨742, 743, 0x7bff274b, [], unpackLE 35 [0x64656c69662e6264, 0x6d652e79656b2e62, 0x6264203d20797470, 0x2e6264656c69662e, 0x79654b]⟩,
  -- db.filedb.key.blockFile block_id:tonNode.blockIdExt = db.filedb.Key
  ⟨744, 743, 0xb0eae471, [⟨175, none, false, .bare 34⟩], unpackLE 67 [0x64656c69662e6264, 0x6c622e79656b2e62, 0x20656c69466b636f, 0x64695f6b636f6c62, 0x65646f4e6e6f743a, 0x64496b636f6c622e, 0x6264203d20747845, 0x2e6264656c69662e, 0x79654b]⟩,
  -- db.filedb.key.zeroStateFile block_id:tonNode.blockIdExt = db.filedb.Key
  ⟨745, 743, 0x1252863d, [⟨175, none, false, .bare 34⟩], unpackLE 71 [0x64656c69662e6264, 0x657a2e79656b2e62, 0x4665746174536f72, 0x636f6c6220656c69, 0x6e6f743a64695f6b, 0x6f6c622e65646f4e, 0x2074784564496b63, 0x6c69662e6264203d, 0x79654b2e626465]⟩,
  -- db.filedb.key.persistentStateFile block_id:tonNode.blockIdExt masterchain_block_id:tonNode.blockIdExt = db.filedb.Key
  ⟨746, 743, 0xafb6764c, [⟨175, none, false, .bare 34⟩, ⟨747, none, false, .bare 34⟩], unpackLE 117 [0x64656c69662e6264, 0x65702e79656b2e62, 0x746e657473697372, 0x6c69466574617453, 0x5f6b636f6c622065, 0x6f4e6e6f743a6469, 0x6b636f6c622e6564, 0x616d207478456449, 0x6961686372657473, 0x5f6b636f6c625f6e, 0x6f4e6e6f743a6469, 0x6b636f6c622e6564, 0x203d207478456449, 0x64656c69662e6264, 0x79654b2e62]⟩
]

def chunk9 : List Ctor := [
  -- db.filedb.key.proof block_id:tonNode.blockIdExt = db.filedb.Key
  ⟨748, 743, 0xda954dec, [⟨175, none, false, .bare 34⟩], unpackLE 63 [0x64656c69662e6264, 0x72702e79656b2e62, 0x636f6c6220666f6f, 0x6e6f743a64695f6b, 0x6f6c622e65646f4e, 0x2074784564496b63, 0x6c69662e6264203d, 0x79654b2e626465]⟩,
  -- db.filedb.key.proofLink block_id:tonNode.blockIdExt = db.filedb.Key
  ⟨749, 743, 0x98fbc5ce, [⟨175, none, false, .bare 34⟩], unpackLE 67 [0x64656c69662e6264, 0x72702e79656b2e62, 0x206b6e694c666f6f, 0x64695f6b636f6c62, 0x65646f4e6e6f743a, 0x64496b636f6c622e, 0x6264203d20747845, 0x2e6264656c69662e, 0x79654b]⟩,
  -- db.filedb.key.signatures block_id:tonNode.blockIdExt = db.filedb.Key
  ⟨750, 743, 0xd7290d0b, [⟨175, none, false, .bare 34⟩], unpackLE 68 [0x64656c69662e6264, 0x69732e79656b2e62, 0x7365727574616e67, 0x695f6b636f6c6220, 0x646f4e6e6f743a64, 0x496b636f6c622e65, 0x64203d2074784564, 0x6264656c69662e62, 0x79654b2e]⟩,
  -- db.filedb.key.candidate id:db.candidate.id = db.filedb.Key
  ⟨751, 743, 0xe28a0ab9, [⟨52, none, false, .bare 740⟩], unpackLE 58 [0x64656c69662e6264, 0x61632e79656b2e62, 0x206574616469646e, 0x61632e62643a6469, 0x2e6574616469646e, 0x2e6264203d206469, 0x4b2e6264656c6966, 0x7965]⟩,
  -- db.filedb.key.blockInfo block_id:tonNode.blockIdExt = db.filedb.Key
  ⟨752, 743, 0xc499d4fc, [⟨175, none, false, .bare 34⟩], unpackLE 67 [0x64656c69662e6264, 0x6c622e79656b2e62, 0x206f666e496b636f, 0x64695f6b636f6c62, 0x65646f4e6e6f743a, 0x64496b636f6c622e, 0x6264203d20747845, 0x2e6264656c69662e, 0x79654b]⟩,
  -- db.filedb.value key:db.filedb.Key prev:int256 next:int256 file_hash:int256 = db.filedb.Value
  ⟨753, 754, 0xf2dd1a2d, [⟨260, none, false, .boxed 743⟩, ⟨191, none, false, .int256⟩, ⟨717, none, false, .int256⟩, ⟨37, none, false, .int256⟩], unpackLE 92 [0x64656c69662e6264, 0x2065756c61762e62, 0x662e62643a79656b, 0x654b2e6264656c69, 0x693a766572702079, 0x656e20363532746e, 0x3532746e693a7478, 0x685f656c69662036, 0x32746e693a687361, 0x2e6264203d203635, 0x562e6264656c6966, 0x65756c61]⟩,
  -- db.state.destroyedSessions sessions:vector int256 = db.state.DestroyedSessions
  ⟨755, 756, 0xada8d984, [⟨757, none, true, .int256⟩], unpackLE 78 [0x65746174732e6264, 0x796f72747365642e, 0x6f69737365536465, 0x697373657320736e, 0x746365763a736e6f, 0x3532746e6920726f, 0x732e6264203d2036, 0x7365442e65746174, 0x65536465796f7274, 0x736e6f697373]⟩,
  -- db.state.initBlockId block:tonNode.blockIdExt = db.state.InitBlockId
  ⟨758, 759, 0x732c9cf5, [⟨492, none, false, .bare 34⟩], unpackLE 68 [0x65746174732e6264, 0x6f6c4274696e692e, 0x6f6c622064496b63, 0x6f4e6e6f743a6b63, 0x6b636f6c622e6564, 0x203d207478456449, 0x65746174732e6264, 0x6f6c4274696e492e, 0x64496b63]⟩,
  -- db.state.gcBlockId block:tonNode.blockIdExt = db.state.GcBlockId
  ⟨760, 761, 0xdf30bd4f, [⟨492, none, false, .bare 34⟩], unpackLE 64 [0x65746174732e6264, 0x6b636f6c4263672e, 0x6b636f6c62206449, 0x65646f4e6e6f743a, 0x64496b636f6c622e, 0x6264203d20747845, 0x472e65746174732e, 0x64496b636f6c4263]⟩,
  -- db.state.shardClient block:tonNode.blockIdExt = db.state.ShardClient
  ⟨762, 763, 0x0b16a69d, [⟨492, none, false, .bare 34⟩], unpackLE 68 [0x65746174732e6264, 0x6c4364726168732e, 0x6f6c6220746e6569, 0x6f4e6e6f743a6b63, 0x6b636f6c622e6564, 0x203d207478456449, 0x65746174732e6264, 0x6c4364726168532e, 0x746e6569]⟩,
  -- db.state.asyncSerializer block:tonNode.blockIdExt last:tonNode.blockIdExt last_ts:int = db.state.AsyncSerializer
  ⟨764, 765, 0xd32f29a1, [⟨492, none, false, .bare 34⟩, ⟨58, none, false, .bare 34⟩, ⟨766, none, false, .int⟩], unpackLE 112 [0x65746174732e6264, 0x6553636e7973612e, 0x72657a696c616972, 0x743a6b636f6c6220, 0x622e65646f4e6e6f, 0x784564496b636f6c, 0x743a7473616c2074, 0x622e65646f4e6e6f, 0x784564496b636f6c, 0x745f7473616c2074, 0x203d20746e693a73, 0x65746174732e6264, 0x6553636e7973412e, 0x72657a696c616972]⟩,
  -- db.state.hardforks blocks:vector tonNode.blockIdExt = db.state.Hardforks
  ⟨767, 768, 0x85f30d04, [⟨489, none, true, .bare 34⟩], unpackLE 72 [0x65746174732e6264, 0x726f66647261682e, 0x6b636f6c6220736b, 0x726f746365763a73, 0x65646f4e6e6f7420, 0x64496b636f6c622e, 0x6264203d20747845, 0x482e65746174732e, 0x736b726f66647261]⟩,
  -- db.state.dbVersion version:int = db.state.DbVersion
  ⟨769, 770, 0xd93720f7, [⟨63, none, false, .int⟩], unpackLE 51 [0x65746174732e6264, 0x697372655662642e, 0x6973726576206e6f, 0x3d20746e693a6e6f, 0x746174732e626420, 0x7372655662442e65, 0x6e6f69]⟩,
  -- db.state.key.destroyedSessions = db.state.Key
  ⟨771, 772, 0xe8f7f159, [], unpackLE 45 [0x65746174732e6264, 0x7365642e79656b2e, 0x65536465796f7274, 0x3d20736e6f697373, 0x746174732e626420, 0x79654b2e65]⟩,
  -- db.state.key.initBlockId = db.state.Key
  ⟨773, 772, 0x758278e3, [], unpackLE 39 [0x65746174732e6264, 0x696e692e79656b2e, 0x64496b636f6c4274, 0x74732e6264203d20, 0x79654b2e657461]⟩,
  -- db.state.key.gcBlockId = db.state.Key
  ⟨774, 772, 0xc379f3de, [], unpackLE 37 [0x65746174732e6264, 0x4263672e79656b2e, 0x3d2064496b636f6c, 0x746174732e626420, 0x79654b2e65]⟩,
  -- db.state.key.shardClient = db.state.Key
  ⟨775, 772, 0xc99b3187, [], unpackLE 39 [0x65746174732e6264, 0x6168732e79656b2e, 0x746e65696c436472, 0x74732e6264203d20, 0x79654b2e657461]⟩,
  -- db.state.key.asyncSerializer = db.state.Key
  ⟨776, 772, 0x29ae8a1f, [], unpackLE 43 [0x65746174732e6264, 0x7973612e79656b2e, 0x6c6169726553636e, 0x64203d2072657a69, 0x2e65746174732e62, 0x79654b]⟩,
  -- db.state.key.hardforks = db.state.Key
  ⟨777, 772, 0xe6f427ba, [], unpackLE 37 [0x65746174732e6264, 0x7261682e79656b2e, 0x3d20736b726f6664, 0x746174732e626420, 0x79654b2e65]⟩,
  -- db.state.key.dbVersion = db.state.Key
  ⟨778, 772, 0x724f2154, [], unpackLE 37 [0x65746174732e6264, 0x5662642e79656b2e, 0x3d206e6f69737265, 0x746174732e626420, 0x79654b2e65]⟩,
  -- db.lt.el.key workchain:int shard:long idx:int = db.lt.Key
  ⟨779, 780, 0xa5321ae2, [⟨31, none, false, .int⟩, ⟨32, none, false, .long⟩, ⟨381, none, false, .int⟩], unpackLE 57 [0x6c652e746c2e6264, 0x726f772079656b2e, 0x693a6e696168636b, 0x647261687320746e, 0x646920676e6f6c3a, 0x203d20746e693a78, 0x654b2e746c2e6264, 0x79]⟩,
  -- db.lt.desc.key workchain:int shard:long = db.lt.Key
  ⟨781, 780, 0xf1e3e791, [⟨31, none, false, .int⟩, ⟨32, none, false, .long⟩], unpackLE 51 [0x65642e746c2e6264, 0x772079656b2e6373, 0x6e696168636b726f, 0x61687320746e693a, 0x20676e6f6c3a6472, 0x2e746c2e6264203d, 0x79654b]⟩,
  -- db.lt.shard.key idx:int = db.lt.Key
  ⟨782, 780, 0x50a6f90f, [⟨381, none, false, .int⟩], unpackLE 35 [0x68732e746c2e6264, 0x2079656b2e647261, 0x20746e693a786469, 0x2e746c2e6264203d, 0x79654b]⟩,
  -- db.lt.status.key = db.lt.Key
  ⟨783, 780, 0x776c6057, [], unpackLE 28 [0x74732e746c2e6264, 0x79656b2e73757461, 0x746c2e6264203d20, 0x79654b2e]⟩,
  -- db.lt.el.value id:tonNode.blockIdExt lt:long ts:int = db.lt.el.Value
  ⟨784, 785, 0x95e65f64, [⟨52, none, false, .bare 34⟩, ⟨109, none, false, .long⟩, ⟨542, none, false, .int⟩], unpackLE 68 [0x6c652e746c2e6264, 0x692065756c61762e, 0x646f4e6e6f743a64, 0x496b636f6c622e65, 0x3a746c2074784564, 0x3a737420676e6f6c, 0x6264203d20746e69, 0x562e6c652e746c2e, 0x65756c61]⟩,
  -- db.lt.desc.value first_idx:int last_idx:int last_seqno:int last_lt:long last_ts:int = db.lt.desc.Value
  ⟨786, 787, 0x71af51b4, [⟨788, none, false, .int⟩, ⟨789, none, false, .int⟩, ⟨790, none, false, .int⟩, ⟨791, none, false, .long⟩, ⟨766, none, false, .int⟩], unpackLE 102 [0x65642e746c2e6264, 0x65756c61762e6373, 0x695f747372696620, 0x6c20746e693a7864, 0x3a7864695f747361, 0x7473616c20746e69, 0x693a6f6e7165735f, 0x5f7473616c20746e, 0x20676e6f6c3a746c, 0x3a73745f7473616c, 0x6264203d20746e69, 0x637365642e746c2e, 0x65756c61562e]⟩,
  -- db.lt.shard.value workchain:int shard:long = db.lt.shard.Value
  ⟨792, 793, 0x3c739a7b, [⟨31, none, false, .int⟩, ⟨32, none, false, .long⟩], unpackLE 62 [0x68732e746c2e6264, 0x756c61762e647261, 0x68636b726f772065, 0x20746e693a6e6961, 0x6f6c3a6472616873, 0x2e6264203d20676e, 0x64726168732e746c, 0x65756c61562e]⟩,
  -- db.lt.status.value total_shards:int = db.lt.status.Value
  ⟨794, 795, 0xfabeed39, [⟨796, none, false, .int⟩], unpackLE 56 [0x74732e746c2e6264, 0x6c61762e73757461, 0x6c61746f74206575, 0x3a7364726168735f, 0x6264203d20746e69, 0x746174732e746c2e, 0x65756c61562e7375]⟩,
  -- db.files.index.key = db.files.Key
  ⟨797, 798, 0x7dc40502, [], unpackLE 33 [0x73656c69662e6264, 0x6b2e7865646e692e, 0x2e6264203d207965, 0x654b2e73656c6966, 0x79]⟩,
  -- db.files.package.key package_id:int key:Bool temp:Bool = db.files.Key
  ⟨799, 798, 0xa504033e, [⟨800, none, false, .int⟩, ⟨260, none, false, .bool⟩, ⟨801, none, false, .bool⟩], unpackLE 69 [0x73656c69662e6264, 0x6567616b6361702e, 0x6361702079656b2e, 0x3a64695f6567616b, 0x3a79656b20746e69, 0x6d6574206c6f6f42, 0x3d206c6f6f423a70, 0x656c69662e626420, 0x79654b2e73]⟩,
  -- db.files.index.value packages:vector int key_packages:vector int temp_packages:vector int = db.files.index.Value
  ⟨802, 803, 0xa2b1dafc, [⟨804, none, true, .int⟩, ⟨805, none, true, .int⟩, ⟨806, none, true, .int⟩], unpackLE 112 [0x73656c69662e6264, 0x762e7865646e692e, 0x6361702065756c61, 0x65763a736567616b, 0x746e6920726f7463, 0x6361705f79656b20, 0x65763a736567616b, 0x746e6920726f7463, 0x61705f706d657420, 0x763a736567616b63, 0x6e6920726f746365, 0x662e6264203d2074, 0x646e692e73656c69, 0x65756c61562e7865]⟩,
  -- db.files.package.firstBlock workchain:int shard:long seqno:int unixtime:int lt:long = db.files.package.FirstBlock
  ⟨807, 808, 0x701269e7, [⟨31, none, false, .int⟩, ⟨32, none, false, .long⟩, ⟨33, none, false, .int⟩, ⟨728, none, false, .int⟩, ⟨109, none, false, .long⟩], unpackLE 113 [0x73656c69662e6264, 0x6567616b6361702e, 0x6c4274737269662e, 0x6b726f77206b636f, 0x6e693a6e69616863, 0x3a64726168732074, 0x71657320676e6f6c, 0x7520746e693a6f6e, 0x3a656d697478696e, 0x6c3a746c20746e69, 0x6264203d20676e6f, 0x702e73656c69662e, 0x462e6567616b6361, 0x636f6c4274737269, 0x6b]⟩,
  -- db.files.package.value package_id:int key:Bool temp:Bool firstblocks:vector db.files.package.firstBlock deleted:Bool = db.files.package.Value
  ⟨809, 810, 0xe44cd52b, [⟨800, none, false, .int⟩, ⟨260, none, false, .bool⟩, ⟨801, none, false, .bool⟩, ⟨811, none, true, .bare 807⟩, ⟨812, none, false, .bool⟩], unpackLE 141 [0x73656c69662e6264, 0x6567616b6361702e, 0x702065756c61762e, 0x695f6567616b6361, 0x656b20746e693a64, 0x74206c6f6f423a79, 0x6c6f6f423a706d65, 0x6c62747372696620, 0x6365763a736b636f, 0x662e626420726f74, 0x6361702e73656c69, 0x7269662e6567616b, 0x206b636f6c427473, 0x3a646574656c6564, 0x64203d206c6f6f42, 0x2e73656c69662e62, 0x2e6567616b636170, 0x65756c6156]⟩,
  -- validator.groupMember public_key_hash:int256 adnl:int256 weight:long = engine.validator.GroupMember
  ⟨813, 814, 0x8b9465e4, [⟨815, none, false, .int256⟩, ⟨816, none, false, .int256⟩, ⟨817, none, false, .long⟩], unpackLE 99 [0x6f746164696c6176, 0x4d70756f72672e72, 0x7570207265626d65, 0x79656b5f63696c62, 0x6e693a687361685f, 0x6e64612036353274, 0x363532746e693a6c, 0x3a74686769657720, 0x65203d20676e6f6c, 0x61762e656e69676e, 0x2e726f746164696c, 0x6d654d70756f7247, 0x726562]⟩,
  -- validator.group workchain:int shard:long catchain_seqno:int config_hash:int256 members:vector validator.groupMember = validator.Group
  ⟨818, 819, 0xf8d87ea1, [⟨31, none, false, .int⟩, ⟨32, none, false, .long⟩, ⟨125, none, false, .int⟩, ⟨820, none, false, .int256⟩, ⟨821, none, true, .bare 813⟩], unpackLE 133 [0x6f746164696c6176, 0x2070756f72672e72, 0x696168636b726f77, 0x687320746e693a6e, 0x676e6f6c3a647261, 0x6961686374616320, 0x3a6f6e7165735f6e, 0x666e6f6320746e69, 0x3a687361685f6769, 0x6d20363532746e69, 0x763a737265626d65, 0x617620726f746365, 0x2e726f746164696c, 0x6d654d70756f7267, 0x6176203d20726562, 0x2e726f746164696c, 0x70756f7247]⟩,
  -- validator.groupEx workchain:int shard:long vertical_seqno:int catchain_seqno:int config_hash:int256 members:vector validator.groupMember = validator.Group
  ⟨822, 819, 0x1c924dfe, [⟨31, none, false, .int⟩, ⟨32, none, false, .long⟩, ⟨823, none, false, .int⟩, ⟨125, none, false, .int⟩, ⟨820, none, false, .int256⟩, ⟨821, none, true, .bare 813⟩], unpackLE 154 [0x6f746164696c6176, 0x4570756f72672e72, 0x68636b726f772078, 0x20746e693a6e6961, 0x6f6c3a6472616873, 0x697472657620676e, 0x6e7165735f6c6163, 0x616320746e693a6f, 0x735f6e6961686374, 0x746e693a6f6e7165, 0x5f6769666e6f6320, 0x746e693a68736168, 0x626d656d20363532, 0x746365763a737265, 0x64696c617620726f, 0x6f72672e726f7461, 0x7265626d654d7075, 0x64696c6176203d20, 0x6f72472e726f7461, 0x7075]⟩,
  -- validator.groupNew workchain:int shard:long vertical_seqno:int last_key_block_seqno:int catchain_seqno:int config_hash:int256 members:vector validator.groupMember = validator.Group
  ⟨824, 819, 0x9843a14d, [⟨31, none, false, .int⟩, ⟨32, none, false, .long⟩, ⟨823, none, false, .int⟩, ⟨825, none, false, .int⟩, ⟨125, none, false, .int⟩, ⟨820, none, false, .int256⟩, ⟨821, none, true, .bare 813⟩], unpackLE 180 [0x6f746164696c6176, 0x4e70756f72672e72, 0x636b726f77207765, 0x746e693a6e696168, 0x6c3a647261687320, 0x7472657620676e6f, 0x7165735f6c616369, 0x6c20746e693a6f6e, 0x5f79656b5f747361, 0x65735f6b636f6c62, 0x20746e693a6f6e71, 0x6e69616863746163, 0x693a6f6e7165735f, 0x69666e6f6320746e, 0x693a687361685f67, 0x656d20363532746e, 0x65763a737265626d, 0x6c617620726f7463, 0x672e726f74616469, 0x626d654d70756f72, 0x6c6176203d207265, 0x472e726f74616469, 0x70756f72]⟩,
  -- id.config.local id:PrivateKey = id.config.Local
  ⟨826, 827, 0x92a9c78e, [⟨52, none, false, .boxed 271⟩], unpackLE 47 [0x69666e6f632e6469, 0x206c61636f6c2e67, 0x61766972503a6469, 0x203d2079654b6574, 0x69666e6f632e6469, 0x6c61636f4c2e67]⟩,
  -- dht.config.local id:adnl.id.short = dht.config.Local
  ⟨828, 829, 0x76204a6f, [⟨52, none, false, .bare 281⟩], unpackLE 52 [0x666e6f632e746864, 0x6c61636f6c2e6769, 0x6c6e64613a646920, 0x726f68732e64692e, 0x2e746864203d2074, 0x4c2e6769666e6f63, 0x6c61636f]⟩,
  -- dht.config.random.local cnt:int = dht.config.Local
  ⟨830, 829, 0x9beb2577, [⟨831, none, false, .int⟩], unpackLE 50 [0x666e6f632e746864, 0x6f646e61722e6769, 0x206c61636f6c2e6d, 0x20746e693a746e63, 0x6f632e746864203d, 0x636f4c2e6769666e, 0x6c61]⟩
]

def chunk10 : List Ctor := [
  -- liteserver.config.local id:PrivateKey port:int = liteserver.config.Local
  ⟨832, 833, 0x4673eb8f, [⟨52, none, false, .boxed 271⟩, ⟨286, none, false, .int⟩], unpackLE 72 [0x767265736574696c, 0x69666e6f632e7265, 0x206c61636f6c2e67, 0x61766972503a6469, 0x6f702079654b6574, 0x3d20746e693a7472, 0x7265736574696c20, 0x666e6f632e726576, 0x6c61636f4c2e6769]⟩,
  -- liteserver.config.random.local port:int = liteserver.config.Local
  ⟨834, 833, 0x7cc9453b, [⟨286, none, false, .int⟩], unpackLE 65 [0x767265736574696c, 0x69666e6f632e7265, 0x6d6f646e61722e67, 0x70206c61636f6c2e, 0x20746e693a74726f, 0x65736574696c203d, 0x6e6f632e72657672, 0x61636f4c2e676966, 0x6c]⟩,
  -- validator.config.local id:adnl.id.short = validator.config.Local
  ⟨835, 836, 0x664bff68, [⟨52, none, false, .bare 281⟩], unpackLE 64 [0x6f746164696c6176, 0x6769666e6f632e72, 0x69206c61636f6c2e, 0x692e6c6e64613a64, 0x2074726f68732e64, 0x6164696c6176203d, 0x666e6f632e726f74, 0x6c61636f4c2e6769]⟩,
  -- validator.config.random.local addr_list:adnl.addressList = validator.config.Local
  ⟨837, 836, 0x59839462, [⟨309, none, false, .bare 301⟩], unpackLE 81 [0x6f746164696c6176, 0x6769666e6f632e72, 0x2e6d6f646e61722e, 0x6461206c61636f6c, 0x3a7473696c5f7264, 0x6464612e6c6e6461, 0x7473694c73736572, 0x64696c6176203d20, 0x6e6f632e726f7461, 0x61636f4c2e676966, 0x6c]⟩,
  -- control.config.local priv:PrivateKey pub:int256 port:int = control.config.Local
  ⟨838, 839, 0x751deced, [⟨840, none, false, .boxed 271⟩, ⟨841, none, false, .int256⟩, ⟨286, none, false, .int⟩], unpackLE 79 [0x2e6c6f72746e6f63, 0x6c2e6769666e6f63, 0x697270206c61636f, 0x7461766972503a76, 0x6275702079654b65, 0x20363532746e693a, 0x746e693a74726f70, 0x72746e6f63203d20, 0x69666e6f632e6c6f, 0x6c61636f4c2e67]⟩,
  -- config.local local_ids:vector id.config.local dht:vector dht.config.Local validators:vector validator.config.Local liteservers:vector liteserver.config.Local control:vector control.config.local = config.Local
  ⟨842, 843, 0x789e915c, [⟨844, none, true, .bare 826⟩, ⟨845, none, true, .boxed 829⟩, ⟨846, none, true, .boxed 836⟩, ⟨847, none, true, .boxed 833⟩, ⟨848, none, true, .bare 838⟩], unpackLE 208 [0x6c2e6769666e6f63, 0x636f6c206c61636f, 0x763a7364695f6c61, 0x646920726f746365, 0x2e6769666e6f632e, 0x6864206c61636f6c, 0x726f746365763a74, 0x6e6f632e74686420, 0x61636f4c2e676966, 0x6164696c6176206c, 0x6365763a73726f74, 0x696c617620726f74, 0x6f632e726f746164, 0x636f4c2e6769666e, 0x736574696c206c61, 0x763a737265767265, 0x696c20726f746365, 0x7265767265736574, 0x2e6769666e6f632e, 0x6f63206c61636f4c, 0x65763a6c6f72746e, 0x6e6f6320726f7463, 0x6e6f632e6c6f7274, 0x61636f6c2e676966, 0x666e6f63203d206c, 0x6c61636f4c2e6769]⟩,
  -- dht.config.global static_nodes:dht.nodes k:int a:int = dht.config.Global
  ⟨849, 850, 0x84ceca07, [⟨851, none, false, .bare 377⟩, ⟨416, none, false, .int⟩, ⟨852, none, false, .int⟩], unpackLE 72 [0x666e6f632e746864, 0x61626f6c672e6769, 0x636974617473206c, 0x643a7365646f6e5f, 0x7365646f6e2e7468, 0x6120746e693a6b20, 0x64203d20746e693a, 0x69666e6f632e7468, 0x6c61626f6c472e67]⟩,
  -- dht.config.global_v2 static_nodes:dht.nodes k:int a:int network_id:int = dht.config.Global
  ⟨853, 850, 0x69638427, [⟨851, none, false, .bare 377⟩, ⟨416, none, false, .int⟩, ⟨852, none, false, .int⟩, ⟨854, none, false, .int⟩], unpackLE 90 [0x666e6f632e746864, 0x61626f6c672e6769, 0x6174732032765f6c, 0x65646f6e5f636974, 0x6f6e2e7468643a73, 0x6e693a6b20736564, 0x20746e693a612074, 0x5f6b726f7774656e, 0x3d20746e693a6469, 0x6e6f632e74686420, 0x626f6c472e676966, 0x6c61]⟩,
  -- adnl.config.global static_nodes:adnl.nodes = adnl.config.Global
  ⟨855, 856, 0xbe6f80d0, [⟨851, none, false, .bare 310⟩], unpackLE 63 [0x6e6f632e6c6e6461, 0x626f6c672e676966, 0x6974617473206c61, 0x3a7365646f6e5f63, 0x646f6e2e6c6e6461, 0x6e6461203d207365, 0x6769666e6f632e6c, 0x6c61626f6c472e]⟩,
  -- catchain.config.global tag:int256 nodes:vector PublicKey = catchain.config.Global
  ⟨857, 858, 0x68c7b651, [⟨859, none, false, .int256⟩, ⟨312, none, true, .boxed 277⟩], unpackLE 81 [0x6e69616863746163, 0x2e6769666e6f632e, 0x74206c61626f6c67, 0x3532746e693a6761, 0x3a7365646f6e2036, 0x5020726f74636576, 0x79654b63696c6275, 0x6863746163203d20, 0x666e6f632e6e6961, 0x61626f6c472e6769, 0x6c]⟩,
  -- dummyworkchain0.config.global zero_state_hash:int256 = dummyworkchain0.config.Global
  ⟨860, 861, 0xda616ed3, [⟨862, none, false, .int256⟩], unpackLE 84 [0x726f77796d6d7564, 0x2e306e696168636b, 0x672e6769666e6f63, 0x657a206c61626f6c, 0x65746174735f6f72, 0x6e693a687361685f, 0x64203d2036353274, 0x6b726f77796d6d75, 0x632e306e69616863, 0x6c472e6769666e6f, 0x6c61626f]⟩,
  -- validator.config.global zero_state:tonNode.blockIdExt init_block:tonNode.blockIdExt hardforks:vector tonNode.blockIdExt = validator.config.Global
  ⟨863, 864, 0x867dff6a, [⟨865, none, false, .bare 34⟩, ⟨866, none, false, .bare 34⟩, ⟨867, none, true, .bare 34⟩], unpackLE 145 [0x6f746164696c6176, 0x6769666e6f632e72, 0x206c61626f6c672e, 0x6174735f6f72657a, 0x6f4e6e6f743a6574, 0x6b636f6c622e6564, 0x6e69207478456449, 0x6b636f6c625f7469, 0x65646f4e6e6f743a, 0x64496b636f6c622e, 0x6472616820747845, 0x65763a736b726f66, 0x6e6f7420726f7463, 0x6f6c622e65646f4e, 0x2074784564496b63, 0x6164696c6176203d, 0x666e6f632e726f74, 0x61626f6c472e6769, 0x6c]⟩,
  -- config.global adnl:adnl.config.global dht:dht.config.Global validator:validator.config.global = config.Global
  ⟨868, 869, 0xf066e9b0, [⟨816, none, false, .bare 855⟩, ⟨845, none, false, .boxed 850⟩, ⟨870, none, false, .bare 863⟩], unpackLE 109 [0x672e6769666e6f63, 0x6461206c61626f6c, 0x2e6c6e64613a6c6e, 0x672e6769666e6f63, 0x6864206c61626f6c, 0x6f632e7468643a74, 0x6f6c472e6769666e, 0x696c6176206c6162, 0x61763a726f746164, 0x2e726f746164696c, 0x672e6769666e6f63, 0x203d206c61626f6c, 0x472e6769666e6f63, 0x6c61626f6c]⟩,
  -- liteserver.desc id:PublicKey ip:int port:int = liteserver.Desc
  ⟨871, 872, 0xc449a474, [⟨52, none, false, .boxed 277⟩, ⟨285, none, false, .int⟩, ⟨286, none, false, .int⟩], unpackLE 62 [0x767265736574696c, 0x20637365642e7265, 0x696c6275503a6469, 0x3a70692079654b63, 0x74726f7020746e69, 0x6c203d20746e693a, 0x6576726573657469, 0x637365442e72]⟩,
  -- liteclient.config.global liteservers:vector liteserver.desc validator:validator.config.global = liteclient.config.Global
  ⟨873, 874, 0x088dc0f8, [⟨847, none, true, .bare 871⟩, ⟨870, none, false, .bare 863⟩], unpackLE 120 [0x65696c636574696c, 0x69666e6f632e746e, 0x6c61626f6c672e67, 0x7265736574696c20, 0x6365763a73726576, 0x6574696c20726f74, 0x642e726576726573, 0x696c617620637365, 0x61763a726f746164, 0x2e726f746164696c, 0x672e6769666e6f63, 0x203d206c61626f6c, 0x65696c636574696c, 0x69666e6f632e746e, 0x6c61626f6c472e67]⟩,
  -- engine.adnl id:int256 category:int = engine.Adnl
  ⟨875, 876, 0x62d76550, [⟨52, none, false, .int256⟩, ⟨877, none, false, .int⟩], unpackLE 48 [0x612e656e69676e65, 0x693a6469206c6e64, 0x616320363532746e, 0x693a79726f676574, 0x676e65203d20746e, 0x6c6e64412e656e69]⟩,
  -- engine.addr ip:int port:int categories:vector int priority_categories:vector int = engine.Addr
  ⟨878, 879, 0xef311fec, [⟨285, none, false, .int⟩, ⟨286, none, false, .int⟩, ⟨880, none, true, .int⟩, ⟨881, none, true, .int⟩], unpackLE 94 [0x612e656e69676e65, 0x693a706920726464, 0x3a74726f7020746e, 0x6574616320746e69, 0x763a736569726f67, 0x6e6920726f746365, 0x69726f6972702074, 0x67657461635f7974, 0x65763a736569726f, 0x746e6920726f7463, 0x6e69676e65203d20, 0x726464412e65]⟩,
  -- engine.addrProxy in_ip:int in_port:int out_ip:int out_port:int proxy_type:adnl.Proxy categories:vector int priority_categories:vector int = engine.Addr
  ⟨882, 879, 0x8adf6549, [⟨883, none, false, .int⟩, ⟨884, none, false, .int⟩, ⟨885, none, false, .int⟩, ⟨886, none, false, .int⟩, ⟨887, none, false, .boxed 293⟩, ⟨880, none, true, .int⟩, ⟨881, none, true, .int⟩], unpackLE 151 [0x612e656e69676e65, 0x79786f7250726464, 0x693a70695f6e6920, 0x6f705f6e6920746e, 0x6f20746e693a7472, 0x6e693a70695f7475, 0x6f705f74756f2074, 0x7020746e693a7472, 0x7079745f79786f72, 0x502e6c6e64613a65, 0x7461632079786f72, 0x3a736569726f6765, 0x6920726f74636576, 0x726f69727020746e, 0x657461635f797469, 0x763a736569726f67, 0x6e6920726f746365, 0x69676e65203d2074, 0x726464412e656e]⟩,
  -- engine.dht id:int256 = engine.Dht
  ⟨888, 889, 0x5de9f2fa, [⟨52, none, false, .int256⟩], unpackLE 33 [0x642e656e69676e65, 0x6e693a6469207468, 0x65203d2036353274, 0x68442e656e69676e, 0x74]⟩,
  -- engine.validatorTempKey key:int256 expire_at:int = engine.ValidatorTempKey
  ⟨890, 891, 0x5e4ad6de, [⟨260, none, false, .int256⟩, ⟨306, none, false, .int⟩], unpackLE 74 [0x762e656e69676e65, 0x726f746164696c61, 0x2079654b706d6554, 0x32746e693a79656b, 0x7269707865203635, 0x746e693a74615f65, 0x6e69676e65203d20, 0x6164696c61562e65, 0x4b706d6554726f74, 0x7965]⟩,
  -- engine.validatorAdnlAddress id:int256 expire_at:int = engine.ValidatorAdnlAddress
  ⟨892, 893, 0xd34545be, [⟨52, none, false, .int256⟩, ⟨306, none, false, .int⟩], unpackLE 81 [0x762e656e69676e65, 0x726f746164696c61, 0x726464416c6e6441, 0x693a646920737365, 0x786520363532746e, 0x3a74615f65726970, 0x6e65203d20746e69, 0x6c61562e656e6967, 0x6441726f74616469, 0x7365726464416c6e, 0x73]⟩,
  -- engine.validator id:int256 temp_keys:vector engine.validatorTempKey adnl_addrs:vector engine.validatorAdnlAddress election_date:int expire_at:int = engine.Validator
  ⟨894, 895, 0x885fea29, [⟨52, none, false, .int256⟩, ⟨896, none, true, .bare 890⟩, ⟨897, none, true, .bare 892⟩, ⟨898, none, false, .int⟩, ⟨306, none, false, .int⟩], unpackLE 164 [0x762e656e69676e65, 0x726f746164696c61, 0x32746e693a646920, 0x5f706d6574203635, 0x6365763a7379656b, 0x69676e6520726f74, 0x64696c61762e656e, 0x706d6554726f7461, 0x6c6e64612079654b, 0x763a73726464615f, 0x6e6520726f746365, 0x6c61762e656e6967, 0x6441726f74616469, 0x7365726464416c6e, 0x697463656c652073, 0x3a657461645f6e6f, 0x6970786520746e69, 0x6e693a74615f6572, 0x69676e65203d2074, 0x64696c61562e656e, 0x726f7461]⟩,
  -- engine.liteServer id:int256 port:int = engine.LiteServer
  ⟨899, 900, 0xbb708efe, [⟨52, none, false, .int256⟩, ⟨286, none, false, .int⟩], unpackLE 56 [0x6c2e656e69676e65, 0x6576726553657469, 0x746e693a64692072, 0x74726f7020363532, 0x65203d20746e693a, 0x694c2e656e69676e, 0x7265767265536574]⟩,
  -- engine.controlProcess id:int256 permissions:int = engine.ControlProcess
  ⟨901, 902, 0x6ac04817, [⟨52, none, false, .int256⟩, ⟨903, none, false, .int⟩], unpackLE 71 [0x632e656e69676e65, 0x72506c6f72746e6f, 0x646920737365636f, 0x20363532746e693a, 0x697373696d726570, 0x20746e693a736e6f, 0x656e69676e65203d, 0x6c6f72746e6f432e, 0x737365636f7250]⟩,
  -- engine.controlInterface id:int256 port:int allowed:vector engine.controlProcess = engine.ControlInterface
  ⟨904, 905, 0x31816fab, [⟨52, none, false, .int256⟩, ⟨286, none, false, .int⟩, ⟨906, none, true, .bare 901⟩], unpackLE 105 [0x632e656e69676e65, 0x6e496c6f72746e6f, 0x2065636166726574, 0x3532746e693a6469, 0x693a74726f702036, 0x776f6c6c6120746e, 0x6f746365763a6465, 0x656e69676e652072, 0x6c6f72746e6f632e, 0x20737365636f7250, 0x656e69676e65203d, 0x6c6f72746e6f432e, 0x6361667265746e49, 0x65]⟩,
  -- engine.gc ids:vector int256 = engine.Gc
  ⟨907, 908, 0xbfbd987b, [⟨104, none, true, .int256⟩], unpackLE 39 [0x672e656e69676e65, 0x65763a7364692063, 0x746e6920726f7463, 0x6e65203d20363532, 0x63472e656e6967]⟩,
  -- engine.dht.config dht:vector engine.dht gc:engine.gc = engine.dht.Config
  ⟨909, 910, 0xf43d80c6, [⟨845, none, true, .bare 888⟩, ⟨911, none, false, .bare 907⟩], unpackLE 72 [0x642e656e69676e65, 0x69666e6f632e7468, 0x65763a7468642067, 0x676e6520726f7463, 0x207468642e656e69, 0x6e69676e653a6367, 0x65203d2063672e65, 0x68642e656e69676e, 0x6769666e6f432e74]⟩,
  -- engine.validator.fullNodeMaster port:int adnl:int256 = engine.validator.FullNodeMaster
  ⟨912, 913, 0x8485f668, [⟨286, none, false, .int⟩, ⟨816, none, false, .int256⟩], unpackLE 86 [0x762e656e69676e65, 0x726f746164696c61, 0x646f4e6c6c75662e, 0x2072657473614d65, 0x746e693a74726f70, 0x6e693a6c6e646120, 0x65203d2036353274, 0x61762e656e69676e, 0x2e726f746164696c, 0x65646f4e6c6c7546, 0x72657473614d]⟩,
  -- engine.validator.fullNodeSlave ip:int port:int adnl:PublicKey = engine.validator.FullNodeSlave
  ⟨914, 915, 0x88256b79, [⟨285, none, false, .int⟩, ⟨286, none, false, .int⟩, ⟨816, none, false, .boxed 277⟩], unpackLE 94 [0x762e656e69676e65, 0x726f746164696c61, 0x646f4e6c6c75662e, 0x69206576616c5365, 0x6f7020746e693a70, 0x6120746e693a7472, 0x6c6275503a6c6e64, 0x203d2079654b6369, 0x762e656e69676e65, 0x726f746164696c61, 0x646f4e6c6c75462e, 0x6576616c5365]⟩,
  -- engine.validator.fullNodeConfig ext_messages_broadcast_disabled:Bool = engine.validator.FullNodeConfig
  ⟨916, 917, 0x29feb114, [⟨918, none, false, .bool⟩], unpackLE 102 [0x762e656e69676e65, 0x726f746164696c61, 0x646f4e6c6c75662e, 0x206769666e6f4365, 0x7373656d5f747865, 0x6f72625f73656761, 0x645f747361636461, 0x3a64656c62617369, 0x65203d206c6f6f42, 0x61762e656e69676e, 0x2e726f746164696c, 0x65646f4e6c6c7546, 0x6769666e6f43]⟩,
  -- engine.validator.config out_port:int addrs:vector engine.Addr adnl:vector engine.adnl dht:vector engine.dht validators:vector engine.validator fullnode:int256 fullnodeslaves:vector engine.validator.fullNodeSlave fullnodemasters:vector engine.validator.fullNodeMaster fullnodeconfig:engine.validator.fullNodeConfig liteservers:vector engine.liteServer control:vector engine.controlInterface gc:engine.gc = engine.validator.Config
  ⟨919, 920, 0xe81f1ed0, [⟨886, none, false, .int⟩, ⟨303, none, true, .boxed 879⟩, ⟨816, none, true, .bare 875⟩, ⟨845, none, true, .bare 888⟩, ⟨846, none, true, .bare 894⟩, ⟨921, none, false, .int256⟩, ⟨922, none, true, .bare 914⟩, ⟨923, none, true, .bare 912⟩, ⟨924, none, false, .bare 916⟩, ⟨847, none, true, .bare 899⟩, ⟨848, none, true, .bare 904⟩, ⟨911, none, false, .bare 907⟩], unpackLE 428 [0x762e656e69676e65, 0x726f746164696c61, 0x206769666e6f632e, 0x74726f705f74756f, 0x64646120746e693a, 0x6f746365763a7372, 0x656e69676e652072, 0x646120726464412e, 0x6f746365763a6c6e, 0x656e69676e652072, 0x6864206c6e64612e, 0x726f746365763a74, 0x2e656e69676e6520, 0x696c617620746864, 0x763a73726f746164, 0x6e6520726f746365, 0x6c61762e656e6967, 0x6620726f74616469, 0x3a65646f6e6c6c75, 0x6620363532746e69, 0x7365646f6e6c6c75, 0x65763a736576616c, 0x676e6520726f7463, 0x696c61762e656e69, 0x75662e726f746164, 0x6c5365646f4e6c6c, 0x6c6c756620657661, 0x7473616d65646f6e, 0x746365763a737265, 0x6e69676e6520726f, 0x6164696c61762e65, 0x6c6c75662e726f74, 0x7473614d65646f4e, 0x6e6c6c7566207265, 0x69666e6f6365646f, 0x656e69676e653a67, 0x746164696c61762e, 0x4e6c6c75662e726f, 0x69666e6f4365646f, 0x65736574696c2067, 0x65763a7372657672, 0x676e6520726f7463, 0x6574696c2e656e69, 0x6320726576726553, 0x763a6c6f72746e6f, 0x6e6520726f746365, 0x6e6f632e656e6967, 0x65746e496c6f7274, 0x6367206563616672, 0x2e656e69676e653a, 0x676e65203d206367, 0x696c61762e656e69, 0x6f432e726f746164, 0x6769666e]⟩,
  -- engine.validator.customOverlayNode adnl_id:int256 msg_sender:Bool msg_sender_priority:int = engine.validator.CustomOverlayNode
  ⟨925, 926, 0x54d38ae2, [⟨927, none, false, .int256⟩, ⟨928, none, false, .bool⟩, ⟨929, none, false, .int⟩], unpackLE 126 [0x762e656e69676e65, 0x726f746164696c61, 0x4f6d6f747375632e, 0x6f4e79616c726576, 0x5f6c6e6461206564, 0x3532746e693a6469, 0x65735f67736d2036, 0x6f6f423a7265646e, 0x65735f67736d206c, 0x6972705f7265646e, 0x6e693a797469726f, 0x69676e65203d2074, 0x64696c61762e656e, 0x7375432e726f7461, 0x6c7265764f6d6f74, 0x65646f4e7961]⟩,
  -- engine.validator.customOverlay name:string nodes:vector engine.validator.customOverlayNode = engine.validator.CustomOverlay
  ⟨930, 931, 0xaddf0b25, [⟨275, none, false, .string⟩, ⟨312, none, true, .bare 925⟩], unpackLE 123 [0x762e656e69676e65, 0x726f746164696c61, 0x4f6d6f747375632e, 0x6e2079616c726576, 0x697274733a656d61, 0x7365646f6e20676e, 0x20726f746365763a, 0x762e656e69676e65, 0x726f746164696c61, 0x4f6d6f747375632e, 0x6f4e79616c726576, 0x676e65203d206564, 0x696c61762e656e69, 0x75432e726f746164, 0x7265764f6d6f7473, 0x79616c]⟩,
  -- engine.validator.customOverlaysConfig overlays:vector engine.validator.customOverlay = engine.validator.CustomOverlaysConfig
  ⟨932, 933, 0x407a3b19, [⟨934, none, true, .bare 930⟩], unpackLE 124 [0x762e656e69676e65, 0x726f746164696c61, 0x4f6d6f747375632e, 0x437379616c726576, 0x766f206769666e6f, 0x763a7379616c7265, 0x6e6520726f746365, 0x6c61762e656e6967, 0x632e726f74616469, 0x65764f6d6f747375, 0x65203d2079616c72, 0x61762e656e69676e, 0x2e726f746164696c, 0x764f6d6f74737543, 0x6f437379616c7265, 0x6769666e]⟩,
  -- engine.adnlProxy.port in_port:int out_port:int dst_ip:int dst_port:int proxy_type:adnl.Proxy = engine.adnlProxy.Port
  ⟨935, 936, 0xf901754a, [⟨884, none, false, .int⟩, ⟨886, none, false, .int⟩, ⟨937, none, false, .int⟩, ⟨938, none, false, .int⟩, ⟨887, none, false, .boxed 293⟩], unpackLE 116 [0x612e656e69676e65, 0x79786f72506c6e64, 0x6e692074726f702e, 0x6e693a74726f705f, 0x6f705f74756f2074, 0x6420746e693a7472, 0x6e693a70695f7473, 0x6f705f7473642074, 0x7020746e693a7472, 0x7079745f79786f72, 0x502e6c6e64613a65, 0x65203d2079786f72, 0x64612e656e69676e, 0x2e79786f72506c6e, 0x74726f50]⟩,
  -- engine.adnlProxy.config ports:vector engine.adnlProxy.port = engine.adnlProxy.Config
  ⟨939, 940, 0x6e264101, [⟨941, none, true, .bare 935⟩], unpackLE 84 [0x612e656e69676e65, 0x79786f72506c6e64, 0x206769666e6f632e, 0x65763a7374726f70, 0x676e6520726f7463, 0x6c6e64612e656e69, 0x6f702e79786f7250, 0x676e65203d207472, 0x6c6e64612e656e69, 0x6f432e79786f7250, 0x6769666e]⟩,
  -- adnl.pong value:long = adnl.Pong
  ⟨942, 943, 0x20747c0e, [⟨172, none, false, .long⟩], unpackLE 32 [0x6e6f702e6c6e6461, 0x3a65756c61762067, 0x61203d20676e6f6c, 0x676e6f502e6c6e64]⟩,
  -- adnl.ping value:long = adnl.Pong
  ⟨944, 943, 0x1faaa1bf, [⟨172, none, false, .long⟩], unpackLE 32 [0x6e69702e6c6e6461, 0x3a65756c61762067, 0x61203d20676e6f6c, 0x676e6f502e6c6e64]⟩,
  -- engine.validator.keyHash key_hash:int256 = engine.validator.KeyHash
  ⟨945, 946, 0xc2c6a54e, [⟨947, none, false, .int256⟩], unpackLE 67 [0x762e656e69676e65, 0x726f746164696c61, 0x6873614879656b2e, 0x7361685f79656b20, 0x363532746e693a68, 0x6e69676e65203d20, 0x6164696c61762e65, 0x4879654b2e726f74, 0x687361]⟩,
  -- engine.validator.signature signature:bytes = engine.validator.Signature
  ⟨948, 949, 0xfb6c4328, [⟨121, none, false, .bytes⟩], unpackLE 71 [0x762e656e69676e65, 0x726f746164696c61, 0x7574616e6769732e, 0x616e676973206572, 0x7479623a65727574, 0x676e65203d207365, 0x696c61762e656e69, 0x69532e726f746164, 0x65727574616e67]⟩
]

def chunk11 : List Ctor := [
  -- engine.validator.oneStat key:string value:string = engine.validator.OneStat
  ⟨950, 951, 0xa4983aed, [⟨260, none, false, .string⟩, ⟨172, none, false, .string⟩], unpackLE 75 [0x762e656e69676e65, 0x726f746164696c61, 0x74617453656e6f2e, 0x7274733a79656b20, 0x756c617620676e69, 0x676e697274733a65, 0x6e69676e65203d20, 0x6164696c61762e65, 0x53656e4f2e726f74, 0x746174]⟩,
  -- engine.validator.stats stats:vector engine.validator.oneStat = engine.validator.Stats
  ⟨952, 953, 0x5d49d36f, [⟨954, none, true, .bare 950⟩], unpackLE 85 [0x762e656e69676e65, 0x726f746164696c61, 0x732073746174732e, 0x6365763a73746174, 0x69676e6520726f74, 0x64696c61762e656e, 0x656e6f2e726f7461, 0x65203d2074617453, 0x61762e656e69676e, 0x2e726f746164696c, 0x7374617453]⟩,
  -- engine.validator.controlQueryError code:int message:string = engine.validator.ControlQueryError
  ⟨955, 956, 0x77269a1f, [⟨48, none, false, .int⟩, ⟨49, none, false, .string⟩], unpackLE 95 [0x762e656e69676e65, 0x726f746164696c61, 0x6c6f72746e6f632e, 0x7272457972657551, 0x3a65646f6320726f, 0x7373656d20746e69, 0x697274733a656761, 0x676e65203d20676e, 0x696c61762e656e69, 0x6f432e726f746164, 0x6575516c6f72746e, 0x726f7272457972]⟩,
  -- engine.validator.time time:int = engine.validator.Time
  ⟨957, 958, 0xdf5fa1fe, [⟨959, none, false, .int⟩], unpackLE 54 [0x762e656e69676e65, 0x726f746164696c61, 0x697420656d69742e, 0x3d20746e693a656d, 0x2e656e69676e6520, 0x6f746164696c6176, 0x656d69542e72]⟩,
  -- engine.validator.success = engine.validator.Success
  ⟨960, 961, 0xb3e4a68b, [], unpackLE 51 [0x762e656e69676e65, 0x726f746164696c61, 0x737365636375732e, 0x6e69676e65203d20, 0x6164696c61762e65, 0x636375532e726f74, 0x737365]⟩,
  -- engine.validator.jsonConfig data:string = engine.validator.JsonConfig
  ⟨962, 963, 0x132d920b, [⟨16, none, false, .string⟩], unpackLE 69 [0x762e656e69676e65, 0x726f746164696c61, 0x6e6f436e6f736a2e, 0x6174616420676966, 0x20676e697274733a, 0x656e69676e65203d, 0x746164696c61762e, 0x436e6f734a2e726f, 0x6769666e6f]⟩,
  -- engine.validator.electionBid election_date:int perm_key:int256 adnl_addr:int256 to_send_payload:bytes = engine.validator.ElectionBid
  ⟨964, 965, 0x23b27a3d, [⟨898, none, false, .int⟩, ⟨966, none, false, .int256⟩, ⟨967, none, false, .int256⟩, ⟨968, none, false, .bytes⟩], unpackLE 132 [0x762e656e69676e65, 0x726f746164696c61, 0x6f697463656c652e, 0x656c65206469426e, 0x61645f6e6f697463, 0x7020746e693a6574, 0x3a79656b5f6d7265, 0x6120363532746e69, 0x726464615f6c6e64, 0x20363532746e693a, 0x5f646e65735f6f74, 0x3a64616f6c796170, 0x203d207365747962, 0x762e656e69676e65, 0x726f746164696c61, 0x6f697463656c452e, 0x6469426e]⟩,
  -- engine.validator.proposalVote perm_key:int256 to_send:bytes = engine.validator.ProposalVote
  ⟨969, 970, 0x7f6626ed, [⟨966, none, false, .int256⟩, ⟨971, none, false, .bytes⟩], unpackLE 91 [0x762e656e69676e65, 0x726f746164696c61, 0x61736f706f72702e, 0x65702065746f566c, 0x693a79656b5f6d72, 0x6f7420363532746e, 0x79623a646e65735f, 0x6e65203d20736574, 0x6c61762e656e6967, 0x502e726f74616469, 0x566c61736f706f72, 0x65746f]⟩,
  -- engine.validator.dhtServerStatus id:int256 status:int = engine.validator.DhtServerStatus
  ⟨972, 973, 0xb11de75e, [⟨52, none, false, .int256⟩, ⟨80, none, false, .int⟩], unpackLE 88 [0x762e656e69676e65, 0x726f746164696c61, 0x767265537468642e, 0x7375746174537265, 0x32746e693a646920, 0x7574617473203635, 0x203d20746e693a73, 0x762e656e69676e65, 0x726f746164696c61, 0x767265537468442e, 0x7375746174537265]⟩,
  -- engine.validator.dhtServersStatus servers:vector engine.validator.dhtServerStatus = engine.validator.DhtServersStatus
  ⟨974, 975, 0x2b38fd28, [⟨976, none, true, .bare 972⟩], unpackLE 117 [0x762e656e69676e65, 0x726f746164696c61, 0x767265537468642e, 0x7574617453737265, 0x7265767265732073, 0x726f746365763a73, 0x2e656e69676e6520, 0x6f746164696c6176, 0x7265537468642e72, 0x7574617453726576, 0x69676e65203d2073, 0x64696c61762e656e, 0x7468442e726f7461, 0x5373726576726553, 0x7375746174]⟩,
  -- engine.validator.overlayStatsNode adnl_id:int256 ip_addr:string bdcst_errors:int fec_bdcst_errors:int last_in_query:int last_out_query:int t_out_bytes:int t_in_bytes:int t_out_pckts:int t_in_pckts:int = engine.validator.OverlayStatsNode
  ⟨977, 978, 0xf97220d9, [⟨927, none, false, .int256⟩, ⟨979, none, false, .string⟩, ⟨980, none, false, .int⟩, ⟨981, none, false, .int⟩, ⟨982, none, false, .int⟩, ⟨983, none, false, .int⟩, ⟨984, none, false, .int⟩, ⟨985, none, false, .int⟩, ⟨986, none, false, .int⟩, ⟨987, none, false, .int⟩], unpackLE 236 [0x762e656e69676e65, 0x726f746164696c61, 0x79616c7265766f2e, 0x646f4e7374617453, 0x695f6c6e64612065, 0x363532746e693a64, 0x726464615f706920, 0x20676e697274733a, 0x72655f7473636462, 0x746e693a73726f72, 0x6364625f63656620, 0x726f7272655f7473, 0x616c20746e693a73, 0x75715f6e695f7473, 0x20746e693a797265, 0x74756f5f7473616c, 0x693a79726575715f, 0x74756f5f7420746e, 0x693a73657479625f, 0x5f6e695f7420746e, 0x6e693a7365747962, 0x5f74756f5f742074, 0x6e693a73746b6370, 0x705f6e695f742074, 0x746e693a73746b63, 0x6e69676e65203d20, 0x6164696c61762e65, 0x7265764f2e726f74, 0x737461745379616c, 0x65646f4e]⟩,
  -- engine.validator.overlayStats overlay_id:int256 overlay_id_full:PublicKey adnl_id:int256 scope:string nodes:vector engine.validator.overlayStatsNode stats:vector engine.validator.oneStat = engine.validator.OverlayStats
  ⟨988, 989, 0xdfa0faf9, [⟨456, none, false, .int256⟩, ⟨990, none, false, .boxed 277⟩, ⟨927, none, false, .int256⟩, ⟨991, none, false, .string⟩, ⟨312, none, true, .bare 977⟩, ⟨954, none, true, .bare 950⟩], unpackLE 218 [0x762e656e69676e65, 0x726f746164696c61, 0x79616c7265766f2e, 0x766f207374617453, 0x64695f79616c7265, 0x20363532746e693a, 0x5f79616c7265766f, 0x3a6c6c75665f6469, 0x654b63696c627550, 0x695f6c6e64612079, 0x363532746e693a64, 0x733a65706f637320, 0x6f6e20676e697274, 0x746365763a736564, 0x6e69676e6520726f, 0x6164696c61762e65, 0x7265766f2e726f74, 0x737461745379616c, 0x6174732065646f4e, 0x6f746365763a7374, 0x656e69676e652072, 0x746164696c61762e, 0x7453656e6f2e726f, 0x676e65203d207461, 0x696c61762e656e69, 0x764f2e726f746164, 0x61745379616c7265, 0x7374]⟩,
  -- engine.validator.overlaysStats overlays:vector engine.validator.overlayStats = engine.validator.OverlaysStats
  ⟨992, 993, 0x9c09267f, [⟨934, none, true, .bare 988⟩], unpackLE 109 [0x762e656e69676e65, 0x726f746164696c61, 0x79616c7265766f2e, 0x6f20737461745373, 0x3a7379616c726576, 0x6520726f74636576, 0x61762e656e69676e, 0x2e726f746164696c, 0x5379616c7265766f, 0x65203d2073746174, 0x61762e656e69676e, 0x2e726f746164696c, 0x7379616c7265764f, 0x7374617453]⟩,
  -- engine.validator.onePerfTimerStat time:int min:double avg:double max:double = engine.validator.OnePerfTimerStat
  ⟨994, 995, 0x9123a368, [⟨959, none, false, .int⟩, ⟨996, none, false, .bare 6⟩, ⟨997, none, false, .bare 6⟩, ⟨998, none, false, .bare 6⟩], unpackLE 111 [0x762e656e69676e65, 0x726f746164696c61, 0x66726550656e6f2e, 0x61745372656d6954, 0x693a656d69742074, 0x643a6e696d20746e, 0x766120656c62756f, 0x656c62756f643a67, 0x756f643a78616d20, 0x6e65203d20656c62, 0x6c61762e656e6967, 0x4f2e726f74616469, 0x695466726550656e, 0x7461745372656d]⟩,
  -- engine.validator.perfTimerStatsByName name:string stats:vector engine.validator.OnePerfTimerStat = engine.validator.PerfTimerStatsByName
  ⟨999, 1000, 0x82bacde4, [⟨275, none, false, .string⟩, ⟨954, none, true, .boxed 995⟩], unpackLE 136 [0x762e656e69676e65, 0x726f746164696c61, 0x6d6954667265702e, 0x4273746174537265, 0x616e20656d614e79, 0x6e697274733a656d, 0x3a73746174732067, 0x6520726f74636576, 0x61762e656e69676e, 0x2e726f746164696c, 0x5466726550656e4f, 0x7461745372656d69, 0x6e69676e65203d20, 0x6164696c61762e65, 0x667265502e726f74, 0x61745372656d6954, 0x656d614e79427374]⟩,
  -- engine.validator.perfTimerStats stats:vector engine.validator.PerfTimerStatsByName = engine.validator.PerfTimerStats
  ⟨1001, 1002, 0x5fd0551b, [⟨954, none, true, .boxed 1000⟩], unpackLE 116 [0x762e656e69676e65, 0x726f746164696c61, 0x6d6954667265702e, 0x2073746174537265, 0x65763a7374617473, 0x676e6520726f7463, 0x696c61762e656e69, 0x65502e726f746164, 0x5372656d69546672, 0x614e794273746174, 0x676e65203d20656d, 0x696c61762e656e69, 0x65502e726f746164, 0x5372656d69546672, 0x73746174]⟩,
  -- engine.validator.shardOutQueueSize size:int = engine.validator.ShardOutQueueSize
  ⟨1003, 1004, 0x0fdba45d, [⟨165, none, false, .int⟩], unpackLE 80 [0x762e656e69676e65, 0x726f746164696c61, 0x754f64726168732e, 0x6953657565755174, 0x3a657a697320657a, 0x6e65203d20746e69, 0x6c61762e656e6967, 0x532e726f74616469, 0x5174754f64726168, 0x657a695365756575]⟩,
  -- engine.validator.getTime = engine.validator.Time
  ⟨1005, 958, 0xe140bed1, [], unpackLE 48 [0x762e656e69676e65, 0x726f746164696c61, 0x656d69547465672e, 0x6e69676e65203d20, 0x6164696c61762e65, 0x656d69542e726f74]⟩,
  -- engine.validator.importPrivateKey key:PrivateKey = engine.validator.KeyHash
  ⟨1006, 946, 0x15807ac7, [⟨260, none, false, .boxed 271⟩], unpackLE 75 [0x762e656e69676e65, 0x726f746164696c61, 0x5074726f706d692e, 0x654b657461766972, 0x72503a79656b2079, 0x79654b6574617669, 0x6e69676e65203d20, 0x6164696c61762e65, 0x4879654b2e726f74, 0x687361]⟩,
  -- engine.validator.exportPrivateKey key_hash:int256 = PrivateKey
  ⟨1007, 271, 0xcc728048, [⟨947, none, false, .int256⟩], unpackLE 62 [0x762e656e69676e65, 0x726f746164696c61, 0x5074726f7078652e, 0x654b657461766972, 0x61685f79656b2079, 0x3532746e693a6873, 0x76697250203d2036, 0x79654b657461]⟩,
  -- engine.validator.exportPublicKey key_hash:int256 = PublicKey
  ⟨1008, 277, 0x6234a8b9, [⟨947, none, false, .int256⟩], unpackLE 60 [0x762e656e69676e65, 0x726f746164696c61, 0x5074726f7078652e, 0x79654b63696c6275, 0x7361685f79656b20, 0x363532746e693a68, 0x696c627550203d20, 0x79654b63]⟩,
  -- engine.validator.generateKeyPair = engine.validator.KeyHash
  ⟨1009, 946, 0xeb25607b, [], unpackLE 59 [0x762e656e69676e65, 0x726f746164696c61, 0x746172656e65672e, 0x7269615079654b65, 0x6e69676e65203d20, 0x6164696c61762e65, 0x4879654b2e726f74, 0x687361]⟩,
  -- engine.validator.addAdnlId key_hash:int256 category:int = engine.validator.Success
  ⟨1010, 961, 0xed8554ab, [⟨947, none, false, .int256⟩, ⟨877, none, false, .int⟩], unpackLE 82 [0x762e656e69676e65, 0x726f746164696c61, 0x6c6e64416464612e, 0x685f79656b206449, 0x32746e693a687361, 0x6765746163203635, 0x20746e693a79726f, 0x656e69676e65203d, 0x746164696c61762e, 0x65636375532e726f, 0x7373]⟩,
  -- engine.validator.addDhtId key_hash:int256 = engine.validator.Success
  ⟨1011, 961, 0xf50c1e8c, [⟨947, none, false, .int256⟩], unpackLE 68 [0x762e656e69676e65, 0x726f746164696c61, 0x497468446464612e, 0x61685f79656b2064, 0x3532746e693a6873, 0x69676e65203d2036, 0x64696c61762e656e, 0x6375532e726f7461, 0x73736563]⟩,
  -- engine.validator.addValidatorPermanentKey key_hash:int256 election_date:int ttl:int = engine.validator.Success
  ⟨1012, 961, 0x92150578, [⟨947, none, false, .int256⟩, ⟨898, none, false, .int⟩, ⟨391, none, false, .int⟩], unpackLE 110 [0x762e656e69676e65, 0x726f746164696c61, 0x696c61566464612e, 0x726550726f746164, 0x654b746e656e616d, 0x61685f79656b2079, 0x3532746e693a6873, 0x697463656c652036, 0x3a657461645f6e6f, 0x3a6c747420746e69, 0x6e65203d20746e69, 0x6c61762e656e6967, 0x532e726f74616469, 0x737365636375]⟩,
  -- engine.validator.addValidatorTempKey permanent_key_hash:int256 key_hash:int256 ttl:int = engine.validator.Success
  ⟨1013, 961, 0x8d336f32, [⟨1014, none, false, .int256⟩, ⟨947, none, false, .int256⟩, ⟨391, none, false, .int⟩], unpackLE 113 [0x762e656e69676e65, 0x726f746164696c61, 0x696c61566464612e, 0x6d6554726f746164, 0x7265702079654b70, 0x6b5f746e656e616d, 0x3a687361685f7965, 0x6b20363532746e69, 0x3a687361685f7965, 0x7420363532746e69, 0x3d20746e693a6c74, 0x2e656e69676e6520, 0x6f746164696c6176, 0x7365636375532e72, 0x73]⟩,
  -- engine.validator.addValidatorAdnlAddress permanent_key_hash:int256 key_hash:int256 ttl:int = engine.validator.Success
  ⟨1015, 961, 0xdacba682, [⟨1014, none, false, .int256⟩, ⟨947, none, false, .int256⟩, ⟨391, none, false, .int⟩], unpackLE 117 [0x762e656e69676e65, 0x726f746164696c61, 0x696c61566464612e, 0x6e6441726f746164, 0x737365726464416c, 0x656e616d72657020, 0x685f79656b5f746e, 0x32746e693a687361, 0x685f79656b203635, 0x32746e693a687361, 0x693a6c7474203635, 0x676e65203d20746e, 0x696c61762e656e69, 0x75532e726f746164, 0x7373656363]⟩,
  -- engine.validator.changeFullNodeAdnlAddress adnl_id:int256 = engine.validator.Success
  ⟨1016, 961, 0xbec6c985, [⟨927, none, false, .int256⟩], unpackLE 84 [0x762e656e69676e65, 0x726f746164696c61, 0x4665676e6168632e, 0x4165646f4e6c6c75, 0x65726464416c6e64, 0x5f6c6e6461207373, 0x3532746e693a6469, 0x69676e65203d2036, 0x64696c61762e656e, 0x6375532e726f7461, 0x73736563]⟩,
  -- engine.validator.addLiteserver key_hash:int256 port:int = engine.validator.Success
  ⟨1017, 961, 0xf08a0f47, [⟨947, none, false, .int256⟩, ⟨286, none, false, .int⟩], unpackLE 82 [0x762e656e69676e65, 0x726f746164696c61, 0x6574694c6464612e, 0x6b20726576726573, 0x3a687361685f7965, 0x7020363532746e69, 0x20746e693a74726f, 0x656e69676e65203d, 0x746164696c61762e, 0x65636375532e726f, 0x7373]⟩,
  -- engine.validator.addControlInterface key_hash:int256 port:int = engine.validator.Success
  ⟨1018, 961, 0x348bf3fc, [⟨947, none, false, .int256⟩, ⟨286, none, false, .int⟩], unpackLE 88 [0x762e656e69676e65, 0x726f746164696c61, 0x746e6f436464612e, 0x7265746e496c6f72, 0x79656b2065636166, 0x6e693a687361685f, 0x726f702036353274, 0x203d20746e693a74, 0x762e656e69676e65, 0x726f746164696c61, 0x737365636375532e]⟩,
  -- engine.validator.addControlProcess key_hash:int256 port:int peer_key:int256 permissions:int = engine.validator.Success
  ⟨1019, 961, 0x5ae0f750, [⟨947, none, false, .int256⟩, ⟨286, none, false, .int⟩, ⟨341, none, false, .int256⟩, ⟨903, none, false, .int⟩], unpackLE 118 [0x762e656e69676e65, 0x726f746164696c61, 0x746e6f436464612e, 0x65636f72506c6f72, 0x685f79656b207373, 0x32746e693a687361, 0x3a74726f70203635, 0x7265657020746e69, 0x746e693a79656b5f, 0x6d72657020363532, 0x3a736e6f69737369, 0x6e65203d20746e69, 0x6c61762e656e6967, 0x532e726f74616469, 0x737365636375]⟩,
  -- engine.validator.delAdnlId key_hash:int256 = engine.validator.Success
  ⟨1020, 961, 0x293a74f2, [⟨947, none, false, .int256⟩], unpackLE 69 [0x762e656e69676e65, 0x726f746164696c61, 0x6c6e64416c65642e, 0x685f79656b206449, 0x32746e693a687361, 0x676e65203d203635, 0x696c61762e656e69, 0x75532e726f746164, 0x7373656363]⟩,
  -- engine.validator.delDhtId key_hash:int256 = engine.validator.Success
  ⟨1021, 961, 0x84fd5b3e, [⟨947, none, false, .int256⟩], unpackLE 68 [0x762e656e69676e65, 0x726f746164696c61, 0x497468446c65642e, 0x61685f79656b2064, 0x3532746e693a6873, 0x69676e65203d2036, 0x64696c61762e656e, 0x6375532e726f7461, 0x73736563]⟩,
  -- engine.validator.delValidatorPermanentKey key_hash:int256 = engine.validator.Success
  ⟨1022, 961, 0x174ac8fa, [⟨947, none, false, .int256⟩], unpackLE 84 [0x762e656e69676e65, 0x726f746164696c61, 0x696c61566c65642e, 0x726550726f746164, 0x654b746e656e616d, 0x61685f79656b2079, 0x3532746e693a6873, 0x69676e65203d2036, 0x64696c61762e656e, 0x6375532e726f7461, 0x73736563]⟩,
  -- engine.validator.delValidatorTempKey permanent_key_hash:int256 key_hash:int256 = engine.validator.Success
  ⟨1023, 961, 0xa0e6e0d1, [⟨1014, none, false, .int256⟩, ⟨947, none, false, .int256⟩], unpackLE 105 [0x762e656e69676e65, 0x726f746164696c61, 0x696c61566c65642e, 0x6d6554726f746164, 0x7265702079654b70, 0x6b5f746e656e616d, 0x3a687361685f7965, 0x6b20363532746e69, 0x3a687361685f7965, 0x3d20363532746e69, 0x2e656e69676e6520, 0x6f746164696c6176, 0x7365636375532e72, 0x73]⟩,
  -- engine.validator.delValidatorAdnlAddress permanent_key_hash:int256 key_hash:int256 = engine.validator.Success
  ⟨1024, 961, 0xf708435a, [⟨1014, none, false, .int256⟩, ⟨947, none, false, .int256⟩], unpackLE 109 [0x762e656e69676e65, 0x726f746164696c61, 0x696c61566c65642e, 0x6e6441726f746164, 0x737365726464416c, 0x656e616d72657020, 0x685f79656b5f746e, 0x32746e693a687361, 0x685f79656b203635, 0x32746e693a687361, 0x676e65203d203635, 0x696c61762e656e69, 0x75532e726f746164, 0x7373656363]⟩,
  -- engine.validator.addListeningPort ip:int port:int categories:vector int priority_categories:vector int = engine.validator.Success
  ⟨1025, 961, 0xea6b89b5, [⟨285, none, false, .int⟩, ⟨286, none, false, .int⟩, ⟨880, none, true, .int⟩, ⟨881, none, true, .int⟩], unpackLE 129 [0x762e656e69676e65, 0x726f746164696c61, 0x7473694c6464612e, 0x726f50676e696e65, 0x746e693a70692074, 0x6e693a74726f7020, 0x6f67657461632074, 0x6365763a73656972, 0x20746e6920726f74, 0x797469726f697270, 0x726f67657461635f, 0x746365763a736569, 0x3d20746e6920726f, 0x2e656e69676e6520, 0x6f746164696c6176, 0x7365636375532e72, 0x73]⟩,
  -- engine.validator.addProxy in_ip:int in_port:int out_ip:int out_port:int proxy:adnl.Proxy categories:vector int priority_categories:vector int = engine.validator.Success
  ⟨1026, 961, 0xf6fd33f5, [⟨883, none, false, .int⟩, ⟨884, none, false, .int⟩, ⟨885, none, false, .int⟩, ⟨886, none, false, .int⟩, ⟨1027, none, false, .boxed 293⟩, ⟨880, none, true, .int⟩, ⟨881, none, true, .int⟩], unpackLE 168 [0x762e656e69676e65, 0x726f746164696c61, 0x786f72506464612e, 0x3a70695f6e692079, 0x705f6e6920746e69, 0x20746e693a74726f, 0x693a70695f74756f, 0x705f74756f20746e, 0x20746e693a74726f, 0x64613a79786f7270, 0x79786f72502e6c6e, 0x726f676574616320, 0x746365763a736569, 0x7020746e6920726f, 0x5f797469726f6972, 0x69726f6765746163, 0x6f746365763a7365, 0x203d20746e692072, 0x762e656e69676e65, 0x726f746164696c61, 0x737365636375532e]⟩,
  -- engine.validator.delListeningPort ip:int port:int categories:vector int priority_categories:vector int = engine.validator.Success
  ⟨1028, 961, 0x315bb84f, [⟨285, none, false, .int⟩, ⟨286, none, false, .int⟩, ⟨880, none, true, .int⟩, ⟨881, none, true, .int⟩], unpackLE 129 [0x762e656e69676e65, 0x726f746164696c61, 0x7473694c6c65642e, 0x726f50676e696e65, 0x746e693a70692074, 0x6e693a74726f7020, 0x6f67657461632074, 0x6365763a73656972, 0x20746e6920726f74, 0x797469726f697270, 0x726f67657461635f, 0x746365763a736569, 0x3d20746e6920726f, 0x2e656e69676e6520, 0x6f746164696c6176, 0x7365636375532e72, 0x73]⟩,
  -- engine.validator.delProxy out_ip:int out_port:int categories:vector int priority_categories:vector int = engine.validator.Success
  ⟨1029, 961, 0x7578cc7d, [⟨885, none, false, .int⟩, ⟨886, none, false, .int⟩, ⟨880, none, true, .int⟩, ⟨881, none, true, .int⟩], unpackLE 129 [0x762e656e69676e65, 0x726f746164696c61, 0x786f72506c65642e, 0x70695f74756f2079, 0x74756f20746e693a, 0x6e693a74726f705f, 0x6f67657461632074, 0x6365763a73656972, 0x20746e6920726f74, 0x797469726f697270, 0x726f67657461635f, 0x746365763a736569, 0x3d20746e6920726f, 0x2e656e69676e6520, 0x6f746164696c6176, 0x7365636375532e72, 0x73]⟩
]

def chunk12 : List Ctor := [
  -- engine.validator.sign key_hash:int256 data:bytes = engine.validator.Signature
  ⟨1030, 949, 0x1aea1a28, [⟨947, none, false, .int256⟩, ⟨16, none, false, .bytes⟩], unpackLE 77 [0x762e656e69676e65, 0x726f746164696c61, 0x656b206e6769732e, 0x693a687361685f79, 0x616420363532746e, 0x73657479623a6174, 0x6e69676e65203d20, 0x6164696c61762e65, 0x6e6769532e726f74, 0x6572757461]⟩,
  -- engine.validator.getStats = engine.validator.Stats
  ⟨1031, 953, 0x52d5c311, [], unpackLE 50 [0x762e656e69676e65, 0x726f746164696c61, 0x746174537465672e, 0x69676e65203d2073, 0x64696c61762e656e, 0x6174532e726f7461, 0x7374]⟩,
  -- engine.validator.getConfig = engine.validator.JsonConfig
  ⟨1032, 963, 0x59ad2225, [], unpackLE 56 [0x762e656e69676e65, 0x726f746164696c61, 0x666e6f437465672e, 0x676e65203d206769, 0x696c61762e656e69, 0x734a2e726f746164, 0x6769666e6f436e6f]⟩,
  -- engine.validator.setVerbosity verbosity:int = engine.validator.Success
  ⟨1033, 961, 0xb1825e82, [⟨1034, none, false, .int⟩], unpackLE 70 [0x762e656e69676e65, 0x726f746164696c61, 0x627265567465732e, 0x657620797469736f, 0x3a797469736f6272, 0x6e65203d20746e69, 0x6c61762e656e6967, 0x532e726f74616469, 0x737365636375]⟩,
  -- engine.validator.createElectionBid election_date:int election_addr:string wallet:string = engine.validator.ElectionBid
  ⟨1035, 965, 0xe51db145, [⟨898, none, false, .int⟩, ⟨1036, none, false, .string⟩, ⟨1037, none, false, .string⟩], unpackLE 118 [0x762e656e69676e65, 0x726f746164696c61, 0x456574616572632e, 0x426e6f697463656c, 0x7463656c65206469, 0x657461645f6e6f69, 0x656c6520746e693a, 0x64615f6e6f697463, 0x6e697274733a7264, 0x74656c6c61772067, 0x20676e697274733a, 0x656e69676e65203d, 0x746164696c61762e, 0x7463656c452e726f, 0x6469426e6f69]⟩,
  -- engine.validator.createProposalVote vote:bytes = engine.validator.ProposalVote
  ⟨1038, 970, 0x1db3216d, [⟨1039, none, false, .bytes⟩], unpackLE 78 [0x762e656e69676e65, 0x726f746164696c61, 0x506574616572632e, 0x566c61736f706f72, 0x65746f762065746f, 0x3d2073657479623a, 0x2e656e69676e6520, 0x6f746164696c6176, 0x736f706f72502e72, 0x65746f566c61]⟩,
  -- engine.validator.createComplaintVote election_id:int vote:bytes = engine.validator.ProposalVote
  ⟨1040, 970, 0xb083ff2a, [⟨1041, none, false, .int⟩, ⟨1039, none, false, .bytes⟩], unpackLE 95 [0x762e656e69676e65, 0x726f746164696c61, 0x436574616572632e, 0x746e69616c706d6f, 0x656c652065746f56, 0x64695f6e6f697463, 0x746f7620746e693a, 0x2073657479623a65, 0x656e69676e65203d, 0x746164696c61762e, 0x6f706f72502e726f, 0x65746f566c6173]⟩,
  -- engine.validator.checkDhtServers id:int256 = engine.validator.DhtServersStatus
  ⟨1042, 975, 0xd1e420ca, [⟨52, none, false, .int256⟩], unpackLE 78 [0x762e656e69676e65, 0x726f746164696c61, 0x68446b636568632e, 0x7372657672655374, 0x32746e693a646920, 0x676e65203d203635, 0x696c61762e656e69, 0x68442e726f746164, 0x7372657672655374, 0x737574617453]⟩,
  -- engine.validator.getOverlaysStats = engine.validator.OverlaysStats
  ⟨1043, 993, 0xfcd8acce, [], unpackLE 66 [0x762e656e69676e65, 0x726f746164696c61, 0x7265764f7465672e, 0x746174537379616c, 0x69676e65203d2073, 0x64696c61762e656e, 0x65764f2e726f7461, 0x6174537379616c72, 0x7374]⟩,
  -- engine.validator.controlQuery data:bytes = Object
  ⟨1044, 11, 0xa476bdc0, [⟨16, none, false, .bytes⟩], unpackLE 49 [0x762e656e69676e65, 0x726f746164696c61, 0x6c6f72746e6f632e, 0x6164207972657551, 0x73657479623a6174, 0x63656a624f203d20, 0x74]⟩,
  -- engine.validator.importCertificate overlay_id:int256 local_id:adnl.id.short signed_key:engine.validator.KeyHash cert:overlay.Certificate = engine.validator.Success
  ⟨1045, 961, 0x3c82c0cf, [⟨456, none, false, .int256⟩, ⟨350, none, false, .bare 281⟩, ⟨1046, none, false, .boxed 946⟩, ⟨1047, none, false, .boxed 449⟩], unpackLE 163 [0x762e656e69676e65, 0x726f746164696c61, 0x4374726f706d692e, 0x6163696669747265, 0x6c7265766f206574, 0x6e693a64695f7961, 0x636f6c2036353274, 0x64613a64695f6c61, 0x68732e64692e6c6e, 0x6e6769732074726f, 0x653a79656b5f6465, 0x61762e656e69676e, 0x2e726f746164696c, 0x206873614879654b, 0x65766f3a74726563, 0x7265432e79616c72, 0x6574616369666974, 0x6e69676e65203d20, 0x6164696c61762e65, 0x636375532e726f74, 0x737365]⟩,
  -- engine.validator.signShardOverlayCertificate workchain:int shard:long signed_key:engine.validator.KeyHash expire_at:int max_size:int = overlay.Certificate
  ⟨1048, 449, 0x5c973c56, [⟨31, none, false, .int⟩, ⟨32, none, false, .long⟩, ⟨1046, none, false, .boxed 946⟩, ⟨306, none, false, .int⟩, ⟨451, none, false, .int⟩], unpackLE 154 [0x762e656e69676e65, 0x726f746164696c61, 0x6168536e6769732e, 0x616c7265764f6472, 0x6966697472654379, 0x726f772065746163, 0x693a6e696168636b, 0x647261687320746e, 0x697320676e6f6c3a, 0x79656b5f64656e67, 0x2e656e69676e653a, 0x6f746164696c6176, 0x73614879654b2e72, 0x6572697078652068, 0x20746e693a74615f, 0x657a69735f78616d, 0x6f203d20746e693a, 0x432e79616c726576, 0x6163696669747265, 0x6574]⟩,
  -- engine.validator.importShardOverlayCertificate workchain:int shard:long signed_key:engine.validator.KeyHash cert:overlay.Certificate = engine.validator.Success
  ⟨1049, 961, 0x1ac30a58, [⟨31, none, false, .int⟩, ⟨32, none, false, .long⟩, ⟨1046, none, false, .boxed 946⟩, ⟨1047, none, false, .boxed 449⟩], unpackLE 159 [0x762e656e69676e65, 0x726f746164696c61, 0x5374726f706d692e, 0x7265764f64726168, 0x697472654379616c, 0x7720657461636966, 0x6e696168636b726f, 0x61687320746e693a, 0x20676e6f6c3a6472, 0x6b5f64656e676973, 0x6e69676e653a7965, 0x6164696c61762e65, 0x4879654b2e726f74, 0x7472656320687361, 0x79616c7265766f3a, 0x696669747265432e, 0x65203d2065746163, 0x61762e656e69676e, 0x2e726f746164696c, 0x73736563637553]⟩,
  -- engine.validator.getPerfTimerStats name:string = engine.validator.PerfTimerStats
  ⟨1050, 1002, 0xea42f8ef, [⟨275, none, false, .string⟩], unpackLE 80 [0x762e656e69676e65, 0x726f746164696c61, 0x667265507465672e, 0x61745372656d6954, 0x3a656d616e207374, 0x3d20676e69727473, 0x2e656e69676e6520, 0x6f746164696c6176, 0x6954667265502e72, 0x737461745372656d]⟩,
  -- engine.validator.getShardOutQueueSize flags:# block_id:tonNode.blockId dest_wc:flags.0?int dest_shard:flags.0?long = engine.validator.ShardOutQueueSize
  ⟨1051, 1004, 0x5ba15c50, [⟨1, none, false, .nat⟩, ⟨175, none, false, .bare 29⟩, ⟨1052, some (1, 0), false, .int⟩, ⟨1053, some (1, 0), false, .long⟩], unpackLE 151 [0x762e656e69676e65, 0x726f746164696c61, 0x726168537465672e, 0x7565755174754f64, 0x6c6620657a695365, 0x6c6220233a736761, 0x743a64695f6b636f, 0x622e65646f4e6e6f, 0x642064496b636f6c, 0x663a63775f747365, 0x693f302e7367616c, 0x5f7473656420746e, 0x6c663a6472616873, 0x6f6c3f302e736761, 0x676e65203d20676e, 0x696c61762e656e69, 0x68532e726f746164, 0x755174754f647261, 0x657a6953657565]⟩,
  -- engine.validator.setExtMessagesBroadcastDisabled disabled:Bool = engine.validator.Success
  ⟨1054, 961, 0x8a9109da, [⟨1055, none, false, .bool⟩], unpackLE 89 [0x762e656e69676e65, 0x726f746164696c61, 0x4d7478457465732e, 0x4273656761737365, 0x7473616364616f72, 0x64656c6261736944, 0x656c626173696420, 0x3d206c6f6f423a64, 0x2e656e69676e6520, 0x6f746164696c6176, 0x7365636375532e72, 0x73]⟩,
  -- engine.validator.addCustomOverlay overlay:engine.validator.customOverlay = engine.validator.Success
  ⟨1056, 961, 0x3b3fe208, [⟨424, none, false, .bare 930⟩], unpackLE 99 [0x762e656e69676e65, 0x726f746164696c61, 0x747375436464612e, 0x616c7265764f6d6f, 0x616c7265766f2079, 0x656e69676e653a79, 0x746164696c61762e, 0x6f747375632e726f, 0x79616c7265764f6d, 0x6e69676e65203d20, 0x6164696c61762e65, 0x636375532e726f74, 0x737365]⟩,
  -- engine.validator.delCustomOverlay name:string = engine.validator.Success
  ⟨1057, 961, 0x7949426c, [⟨275, none, false, .string⟩], unpackLE 72 [0x762e656e69676e65, 0x726f746164696c61, 0x747375436c65642e, 0x616c7265764f6d6f, 0x733a656d616e2079, 0x203d20676e697274, 0x762e656e69676e65, 0x726f746164696c61, 0x737365636375532e]⟩,
  -- engine.validator.showCustomOverlays = engine.validator.CustomOverlaysConfig
  ⟨1058, 933, 0xb942153b, [], unpackLE 75 [0x762e656e69676e65, 0x726f746164696c61, 0x737543776f68732e, 0x6c7265764f6d6f74, 0x6e65203d20737961, 0x6c61762e656e6967, 0x432e726f74616469, 0x65764f6d6f747375, 0x6e6f437379616c72, 0x676966]⟩,
  -- storage.pong = storage.Pong
  ⟨1059, 1060, 0x6cf5c6a5, [], unpackLE 27 [0x2e656761726f7473, 0x73203d20676e6f70, 0x502e656761726f74, 0x676e6f]⟩,
  -- storage.ok = Ok
  ⟨1061, 1062, 0xc32b1c05, [], unpackLE 15 [0x2e656761726f7473, 0x6b4f203d206b6f]⟩,
  -- storage.state will_upload:Bool want_download:Bool = storage.State
  ⟨1063, 1064, 0x3313708a, [⟨1065, none, false, .bool⟩, ⟨1066, none, false, .bool⟩], unpackLE 65 [0x2e656761726f7473, 0x6977206574617473, 0x616f6c70755f6c6c, 0x77206c6f6f423a64, 0x6e776f645f746e61, 0x6f6f423a64616f6c, 0x726f7473203d206c, 0x746174532e656761, 0x65]⟩,
  -- storage.piece proof:bytes data:bytes = storage.Piece
  ⟨1067, 1068, 0x80b4fa0d, [⟨85, none, false, .bytes⟩, ⟨16, none, false, .bytes⟩], unpackLE 52 [0x2e656761726f7473, 0x7270206563656970, 0x657479623a666f6f, 0x623a617461642073, 0x73203d2073657479, 0x502e656761726f74, 0x65636569]⟩,
  -- storage.torrentInfo data:bytes = storage.TorrentInfo
  ⟨1069, 1070, 0x14ced0ee, [⟨16, none, false, .bytes⟩], unpackLE 52 [0x2e656761726f7473, 0x49746e6572726f74, 0x61746164206f666e, 0x3d2073657479623a, 0x656761726f747320, 0x746e6572726f542e, 0x6f666e49]⟩,
  -- storage.updateInit have_pieces:bytes have_pieces_offset:int state:storage.State = storage.Update
  ⟨1071, 1072, 0xce33e0b6, [⟨1073, none, false, .bytes⟩, ⟨1074, none, false, .int⟩, ⟨86, none, false, .boxed 1064⟩], unpackLE 96 [0x2e656761726f7473, 0x6e49657461647075, 0x5f65766168207469, 0x623a736563656970, 0x7661682073657479, 0x7365636569705f65, 0x3a74657366666f5f, 0x7461747320746e69, 0x6761726f74733a65, 0x2065746174532e65, 0x6761726f7473203d, 0x6574616470552e65]⟩,
  -- storage.updateHavePieces piece_id:vector int = storage.Update
  ⟨1075, 1072, 0x3bf82049, [⟨1076, none, true, .int⟩], unpackLE 61 [0x2e656761726f7473, 0x6148657461647075, 0x7365636569506576, 0x695f656365697020, 0x726f746365763a64, 0x73203d20746e6920, 0x552e656761726f74, 0x6574616470]⟩,
  -- storage.updateState state:storage.State = storage.Update
  ⟨1077, 1072, 0x05b034b5, [⟨86, none, false, .boxed 1064⟩], unpackLE 56 [0x2e656761726f7473, 0x7453657461647075, 0x7461747320657461, 0x6761726f74733a65, 0x2065746174532e65, 0x6761726f7473203d, 0x6574616470552e65]⟩,
  -- storage.ping session_id:long = storage.Pong
  ⟨1078, 1060, 0x44f3f211, [⟨1079, none, false, .long⟩], unpackLE 43 [0x2e656761726f7473, 0x73657320676e6970, 0x3a64695f6e6f6973, 0x73203d20676e6f6c, 0x502e656761726f74, 0x676e6f]⟩,
  -- storage.addUpdate session_id:long seqno:int update:storage.Update = Ok
  ⟨1080, 1062, 0x4d3135d2, [⟨1079, none, false, .long⟩, ⟨33, none, false, .int⟩, ⟨1081, none, false, .boxed 1072⟩], unpackLE 70 [0x2e656761726f7473, 0x7461647055646461, 0x6f69737365732065, 0x6e6f6c3a64695f6e, 0x3a6f6e7165732067, 0x6164707520746e69, 0x61726f74733a6574, 0x74616470552e6567, 0x6b4f203d2065]⟩,
  -- storage.getTorrentInfo = storage.TorrentInfo
  ⟨1082, 1070, 0x91c4962a, [], unpackLE 44 [0x2e656761726f7473, 0x6572726f54746567, 0x3d206f666e49746e, 0x656761726f747320, 0x746e6572726f542e, 0x6f666e49]⟩,
  -- storage.getPiece piece_id:int = storage.Piece
  ⟨1083, 1068, 0x807ae660, [⟨1076, none, false, .int⟩], unpackLE 45 [0x2e656761726f7473, 0x6563656950746567, 0x695f656365697020, 0x203d20746e693a64, 0x2e656761726f7473, 0x6563656950]⟩,
  -- http.header name:string value:string = http.Header
  ⟨1084, 1085, 0x8e9be511, [⟨275, none, false, .string⟩, ⟨172, none, false, .string⟩], unpackLE 50 [0x6165682e70747468, 0x656d616e20726564, 0x20676e697274733a, 0x74733a65756c6176, 0x68203d20676e6972, 0x646165482e707474, 0x7265]⟩,
  -- http.payloadPart data:bytes trailer:vector http.header last:Bool = http.PayloadPart
  ⟨1086, 1087, 0x295ad764, [⟨16, none, false, .bytes⟩, ⟨1088, none, true, .bare 1084⟩, ⟨58, none, false, .bool⟩], unpackLE 83 [0x7961702e70747468, 0x7472615064616f6c, 0x79623a6174616420, 0x6961727420736574, 0x746365763a72656c, 0x2e7074746820726f, 0x6c20726564616568, 0x6c6f6f423a747361, 0x2e70747468203d20, 0x5064616f6c796150, 0x747261]⟩,
  -- http.response http_version:string status_code:int reason:string headers:vector http.header no_payload:Bool = http.Response
  ⟨1089, 1090, 0xca48a74a, [⟨1091, none, false, .string⟩, ⟨1092, none, false, .int⟩, ⟨529, none, false, .string⟩, ⟨1093, none, true, .bare 1084⟩, ⟨1094, none, false, .bool⟩], unpackLE 122 [0x7365722e70747468, 0x74682065736e6f70, 0x69737265765f7074, 0x6e697274733a6e6f, 0x7375746174732067, 0x6e693a65646f635f, 0x6e6f736165722074, 0x20676e697274733a, 0x3a73726564616568, 0x6820726f74636576, 0x646165682e707474, 0x61705f6f6e207265, 0x6f423a64616f6c79, 0x747468203d206c6f, 0x6e6f707365522e70, 0x6573]⟩,
  -- http.proxy.capabilities capabilities:long = http.proxy.Capabilities
  ⟨1095, 1096, 0x31926c11, [⟨64, none, false, .long⟩], unpackLE 67 [0x6f72702e70747468, 0x62617061632e7978, 0x2073656974696c69, 0x696c696261706163, 0x6e6f6c3a73656974, 0x70747468203d2067, 0x432e79786f72702e, 0x74696c6962617061, 0x736569]⟩,
  -- http.request id:int256 method:string url:string http_version:string headers:vector http.header = http.Response
  ⟨1097, 1090, 0x61b191e1, [⟨52, none, false, .int256⟩, ⟨1098, none, false, .string⟩, ⟨1099, none, false, .string⟩, ⟨1091, none, false, .string⟩, ⟨1093, none, true, .bare 1084⟩], unpackLE 110 [0x7165722e70747468, 0x3a64692074736575, 0x6d20363532746e69, 0x74733a646f687465, 0x6c727520676e6972, 0x20676e697274733a, 0x7265765f70747468, 0x7274733a6e6f6973, 0x6461656820676e69, 0x746365763a737265, 0x2e7074746820726f, 0x3d20726564616568, 0x65522e7074746820, 0x65736e6f7073]⟩,
  -- http.getNextPayloadPart id:int256 seqno:int max_chunk_size:int = http.PayloadPart
  ⟨1100, 1087, 0x90745d0c, [⟨52, none, false, .int256⟩, ⟨33, none, false, .int⟩, ⟨1101, none, false, .int⟩], unpackLE 81 [0x7465672e70747468, 0x6c7961507478654e, 0x207472615064616f, 0x3532746e693a6469, 0x3a6f6e7165732036, 0x5f78616d20746e69, 0x69735f6b6e756863, 0x3d20746e693a657a, 0x61502e7074746820, 0x72615064616f6c79, 0x74]⟩,
  -- http.proxy.getCapabilities capabilities:long = http.proxy.Capabilities
  ⟨1102, 1096, 0xdb721f89, [⟨64, none, false, .long⟩], unpackLE 70 [0x6f72702e70747468, 0x61437465672e7978, 0x6974696c69626170, 0x6261706163207365, 0x3a73656974696c69, 0x68203d20676e6f6c, 0x786f72702e707474, 0x6962617061432e79, 0x73656974696c]⟩,
  -- http.server.dnsEntry domain:string addr:adnl.id.short = http.server.DnsEntry
  ⟨1103, 1104, 0xd8726096, [⟨1105, none, false, .string⟩, ⟨1106, none, false, .bare 281⟩], unpackLE 76 [0x7265732e70747468, 0x45736e642e726576, 0x6d6f64207972746e, 0x697274733a6e6961, 0x3a7264646120676e, 0x2e64692e6c6e6461, 0x203d2074726f6873, 0x7265732e70747468, 0x45736e442e726576, 0x7972746e]⟩,
  -- http.server.host domains:vector string ip:int port:int adnl_id:adnl.id.short = http.server.Host
  ⟨1107, 1108, 0xc57de2a7, [⟨1109, none, true, .string⟩, ⟨285, none, false, .int⟩, ⟨286, none, false, .int⟩, ⟨927, none, false, .bare 281⟩], unpackLE 95 [0x7265732e70747468, 0x74736f682e726576, 0x736e69616d6f6420, 0x20726f746365763a, 0x6920676e69727473, 0x6f7020746e693a70, 0x6120746e693a7472, 0x613a64695f6c6e64, 0x732e64692e6c6e64, 0x68203d2074726f68, 0x767265732e707474, 0x74736f482e7265]⟩
]

def chunk13 : List Ctor := [
  -- http.server.config dhs:vector http.server.dnsEntry local_hosts:vector http.server.host = http.server.Config
  ⟨1110, 1111, 0x3a1477fc, [⟨1112, none, true, .bare 1103⟩, ⟨1113, none, true, .bare 1107⟩], unpackLE 107 [0x7265732e70747468, 0x666e6f632e726576, 0x763a736864206769, 0x746820726f746365, 0x65767265732e7074, 0x746e45736e642e72, 0x6c61636f6c207972, 0x763a7374736f685f, 0x746820726f746365, 0x65767265732e7074, 0x3d2074736f682e72, 0x65732e7074746820, 0x6e6f432e72657672, 0x676966]⟩,
  -- validatorSession.statsProducer id:int256 candidate_id:int256 block_status:int block_timestamp:long comment:string = validatorSession.StatsProducer
  ⟨1114, 1115, 0x2df019c8, [⟨52, none, false, .int256⟩, ⟨1116, none, false, .int256⟩, ⟨1117, none, false, .int⟩, ⟨1118, none, false, .long⟩, ⟨1119, none, false, .string⟩], unpackLE 146 [0x6f746164696c6176, 0x6e6f697373655372, 0x725073746174732e, 0x692072656375646f, 0x363532746e693a64, 0x616469646e616320, 0x6e693a64695f6574, 0x6f6c622036353274, 0x75746174735f6b63, 0x6c6220746e693a73, 0x656d69745f6b636f, 0x6f6c3a706d617473, 0x656d6d6f6320676e, 0x6e697274733a746e, 0x696c6176203d2067, 0x736553726f746164, 0x6174532e6e6f6973, 0x6375646f72507374, 0x7265]⟩,
  -- validatorSession.statsRound timestamp:long producers:vector validatorSession.statsProducer = validatorSession.StatsRound
  ⟨1120, 1121, 0xa32fdf66, [⟨1122, none, false, .long⟩, ⟨1123, none, true, .bare 1114⟩], unpackLE 120 [0x6f746164696c6176, 0x6e6f697373655372, 0x6f5273746174732e, 0x656d697420646e75, 0x6f6c3a706d617473, 0x75646f727020676e, 0x6365763a73726563, 0x696c617620726f74, 0x736553726f746164, 0x6174732e6e6f6973, 0x6375646f72507374, 0x6c6176203d207265, 0x6553726f74616469, 0x74532e6e6f697373, 0x646e756f52737461]⟩,
  -- validatorSession.stats success:Bool id:tonNode.blockIdExt timestamp:long self:int256 session_id:int256 cc_seqno:int creator:int256 total_validators:int total_weight:long signatures:int signatures_weight:long approve_signatures:int approve_signatures_weight:long first_round:int rounds:vector validatorSession.statsRound = validatorSession.Stats
  ⟨1124, 1125, 0x830eb8ef, [⟨1126, none, false, .bool⟩, ⟨52, none, false, .bare 34⟩, ⟨1122, none, false, .long⟩, ⟨1127, none, false, .int256⟩, ⟨1079, none, false, .int256⟩, ⟨190, none, false, .int⟩, ⟨176, none, false, .int256⟩, ⟨1128, none, false, .int⟩, ⟨186, none, false, .long⟩, ⟨126, none, false, .int⟩, ⟨1129, none, false, .long⟩, ⟨581, none, false, .int⟩, ⟨1130, none, false, .long⟩, ⟨1131, none, false, .int⟩, ⟨1132, none, true, .bare 1120⟩], unpackLE 344 [0x6f746164696c6176, 0x6e6f697373655372, 0x732073746174732e, 0x423a737365636375, 0x743a6469206c6f6f, 0x622e65646f4e6e6f, 0x784564496b636f6c, 0x7473656d69742074, 0x676e6f6c3a706d61, 0x6e693a666c657320, 0x7365732036353274, 0x3a64695f6e6f6973, 0x6320363532746e69, 0x3a6f6e7165735f63, 0x6165726320746e69, 0x32746e693a726f74, 0x6c61746f74203635, 0x746164696c61765f, 0x20746e693a73726f, 0x65775f6c61746f74, 0x6e6f6c3a74686769, 0x74616e6769732067, 0x746e693a73657275, 0x7574616e67697320, 0x676965775f736572, 0x20676e6f6c3a7468, 0x5f65766f72707061, 0x727574616e676973, 0x6120746e693a7365, 0x735f65766f727070, 0x65727574616e6769, 0x7468676965775f73, 0x696620676e6f6c3a, 0x6e756f725f747372, 0x6f7220746e693a64, 0x6365763a73646e75, 0x696c617620726f74, 0x736553726f746164, 0x6174732e6e6f6973, 0x20646e756f527374, 0x6164696c6176203d, 0x6973736553726f74, 0x73746174532e6e6f]⟩,
  -- storage.db.key.torrentList = storage.db.key.TorrentList
  ⟨1133, 1134, 0xcbc6e856, [], unpackLE 55 [0x2e656761726f7473, 0x742e79656b2e6264, 0x694c746e6572726f, 0x6f7473203d207473, 0x2e62642e65676172, 0x72726f542e79656b, 0x7473694c746e65]⟩,
  -- storage.db.key.torrent hash:int256 = storage.db.key.TorrentShort
  ⟨1135, 1136, 0xb988122f, [⟨55, none, false, .int256⟩], unpackLE 64 [0x2e656761726f7473, 0x742e79656b2e6264, 0x6820746e6572726f, 0x32746e693a687361, 0x6f7473203d203635, 0x2e62642e65676172, 0x72726f542e79656b, 0x74726f6853746e65]⟩,
  -- storage.db.key.torrentMeta hash:int256 = storage.db.key.TorrentMeta
  ⟨1137, 1138, 0x62239d66, [⟨55, none, false, .int256⟩], unpackLE 67 [0x2e656761726f7473, 0x742e79656b2e6264, 0x654d746e6572726f, 0x3a68736168206174, 0x3d20363532746e69, 0x656761726f747320, 0x2e79656b2e62642e, 0x4d746e6572726f54, 0x617465]⟩,
  -- storage.db.key.priorities hash:int256 = storage.db.key.Priorities
  ⟨1139, 1140, 0xb5f1ca6d, [⟨55, none, false, .int256⟩], unpackLE 65 [0x2e656761726f7473, 0x702e79656b2e6264, 0x65697469726f6972, 0x693a687361682073, 0x203d20363532746e, 0x2e656761726f7473, 0x502e79656b2e6264, 0x65697469726f6972, 0x73]⟩,
  -- storage.db.key.piecesInDb hash:int256 = storage.db.key.PiecesInDb
  ⟨1141, 1142, 0xdbe8c9e3, [⟨55, none, false, .int256⟩], unpackLE 65 [0x2e656761726f7473, 0x702e79656b2e6264, 0x446e497365636569, 0x693a687361682062, 0x203d20363532746e, 0x2e656761726f7473, 0x502e79656b2e6264, 0x446e497365636569, 0x62]⟩,
  -- storage.db.key.pieceInDb hash:int256 idx:long = storage.db.key.PieceInDb
  ⟨1143, 1144, 0xc40aedcd, [⟨55, none, false, .int256⟩, ⟨381, none, false, .long⟩], unpackLE 72 [0x2e656761726f7473, 0x702e79656b2e6264, 0x62446e4965636569, 0x6e693a6873616820, 0x7864692036353274, 0x203d20676e6f6c3a, 0x2e656761726f7473, 0x502e79656b2e6264, 0x62446e4965636569]⟩,
  -- storage.db.key.config = storage.db.key.Config
  ⟨1145, 1146, 0xdd983407, [], unpackLE 45 [0x2e656761726f7473, 0x632e79656b2e6264, 0x203d206769666e6f, 0x2e656761726f7473, 0x432e79656b2e6264, 0x6769666e6f]⟩,
  -- storage.db.config flags:# download_speed_limit:double upload_speed_limit:double = storage.db.Config
  ⟨1147, 1148, 0x5d904d28, [⟨1, none, false, .nat⟩, ⟨1149, none, false, .bare 6⟩, ⟨1150, none, false, .bare 6⟩], unpackLE 99 [0x2e656761726f7473, 0x69666e6f632e6264, 0x3a7367616c662067, 0x6f6c6e776f642023, 0x64656570735f6461, 0x643a74696d696c5f, 0x707520656c62756f, 0x6570735f64616f6c, 0x74696d696c5f6465, 0x20656c62756f643a, 0x6761726f7473203d, 0x6e6f432e62642e65, 0x676966]⟩,
  -- storage.db.torrentList torrents:vector int256 = storage.db.TorrentList
  ⟨1151, 1152, 0x59efe381, [⟨1153, none, true, .int256⟩], unpackLE 70 [0x2e656761726f7473, 0x6572726f742e6264, 0x74207473694c746e, 0x3a73746e6572726f, 0x6920726f74636576, 0x203d20363532746e, 0x2e656761726f7473, 0x6572726f542e6264, 0x7473694c746e]⟩,
  -- storage.db.torrent root_dir:string active_download:Bool active_upload:Bool = storage.db.TorrentShort
  ⟨1154, 1155, 0xad2d379a, [⟨1156, none, false, .string⟩, ⟨1157, none, false, .bool⟩, ⟨1158, none, false, .bool⟩], unpackLE 100 [0x2e656761726f7473, 0x6572726f742e6264, 0x5f746f6f7220746e, 0x697274733a726964, 0x766974636120676e, 0x6f6c6e776f645f65, 0x206c6f6f423a6461, 0x755f657669746361, 0x6f423a64616f6c70, 0x6f7473203d206c6f, 0x2e62642e65676172, 0x53746e6572726f54, 0x74726f68]⟩,
  -- storage.db.torrentV2 flags:# root_dir:string added_at:int active_download:Bool active_upload:Bool = storage.db.TorrentShort
  ⟨1159, 1155, 0x89ecf89b, [⟨1, none, false, .nat⟩, ⟨1156, none, false, .string⟩, ⟨1160, none, false, .int⟩, ⟨1157, none, false, .bool⟩, ⟨1158, none, false, .bool⟩], unpackLE 123 [0x2e656761726f7473, 0x6572726f742e6264, 0x616c66203256746e, 0x6f6f7220233a7367, 0x74733a7269645f74, 0x64646120676e6972, 0x6e693a74615f6465, 0x6576697463612074, 0x616f6c6e776f645f, 0x61206c6f6f423a64, 0x70755f6576697463, 0x6f6f423a64616f6c, 0x726f7473203d206c, 0x542e62642e656761, 0x6853746e6572726f, 0x74726f]⟩,
  -- storage.db.priorities actions:vector storage.PriorityAction = storage.db.Priorities
  ⟨1161, 1162, 0x3929eb4e, [⟨543, none, true, .boxed 1167⟩], unpackLE 83 [0x2e656761726f7473, 0x726f6972702e6264, 0x6361207365697469, 0x65763a736e6f6974, 0x6f747320726f7463, 0x6972502e65676172, 0x746341797469726f, 0x7473203d206e6f69, 0x62642e656761726f, 0x7469726f6972502e, 0x736569]⟩,
  -- storage.db.piecesInDb pieces:vector long = storage.db.PiecesInDb
  ⟨1163, 1164, 0x0619b43c, [⟨1165, none, true, .long⟩], unpackLE 64 [0x2e656761726f7473, 0x65636569702e6264, 0x69702062446e4973, 0x6365763a73656365, 0x676e6f6c20726f74, 0x61726f7473203d20, 0x69502e62642e6567, 0x62446e4973656365]⟩,
  -- storage.priorityAction.all priority:int = storage.PriorityAction
  ⟨1166, 1167, 0xfe238940, [⟨305, none, false, .int⟩], unpackLE 64 [0x2e656761726f7473, 0x797469726f697270, 0x612e6e6f69746341, 0x726f697270206c6c, 0x20746e693a797469, 0x6761726f7473203d, 0x69726f6972502e65, 0x6e6f697463417974]⟩,
  -- storage.priorityAction.idx idx:long priority:int = storage.PriorityAction
  ⟨1168, 1167, 0x950fb728, [⟨381, none, false, .long⟩, ⟨305, none, false, .int⟩], unpackLE 73 [0x2e656761726f7473, 0x797469726f697270, 0x692e6e6f69746341, 0x6c3a786469207864, 0x6f69727020676e6f, 0x746e693a79746972, 0x61726f7473203d20, 0x726f6972502e6567, 0x6f69746341797469, 0x6e]⟩,
  -- storage.priorityAction.name name:string priority:int = storage.PriorityAction
  ⟨1169, 1167, 0x0124d1c0, [⟨275, none, false, .string⟩, ⟨305, none, false, .int⟩], unpackLE 77 [0x2e656761726f7473, 0x797469726f697270, 0x6e2e6e6f69746341, 0x656d616e20656d61, 0x20676e697274733a, 0x797469726f697270, 0x73203d20746e693a, 0x502e656761726f74, 0x41797469726f6972, 0x6e6f697463]⟩,
  -- storage.daemon.config server_key:PublicKey cli_key_hash:int256 provider_address:string adnl_id:PublicKey dht_id:PublicKey = storage.daemon.provider.Config
  ⟨1170, 1171, 0xf0c694b7, [⟨1172, none, false, .boxed 277⟩, ⟨1173, none, false, .int256⟩, ⟨1174, none, false, .string⟩, ⟨927, none, false, .boxed 277⟩, ⟨1175, none, false, .boxed 277⟩], unpackLE 154 [0x2e656761726f7473, 0x632e6e6f6d656164, 0x6573206769666e6f, 0x79656b5f72657672, 0x4b63696c6275503a, 0x6b5f696c63207965, 0x3a687361685f7965, 0x7020363532746e69, 0x5f72656469766f72, 0x3a73736572646461, 0x6120676e69727473, 0x503a64695f6c6e64, 0x79654b63696c6275, 0x3a64695f74686420, 0x654b63696c627550, 0x726f7473203d2079, 0x6d6561642e656761, 0x69766f72702e6e6f, 0x666e6f432e726564, 0x6769]⟩,
  -- storage.daemon.provider.params accept_new_contracts:Bool rate_per_mb_day:string max_span:int minimal_file_size:long maximal_file_size:long = storage.daemon.provider.Params
  ⟨1176, 1177, 0xac736e07, [⟨1178, none, false, .bool⟩, ⟨1179, none, false, .string⟩, ⟨1180, none, false, .int⟩, ⟨1181, none, false, .long⟩, ⟨1182, none, false, .long⟩], unpackLE 171 [0x2e656761726f7473, 0x702e6e6f6d656164, 0x2e72656469766f72, 0x6120736d61726170, 0x656e5f7470656363, 0x6172746e6f635f77, 0x6c6f6f423a737463, 0x65705f6574617220, 0x7961645f626d5f72, 0x20676e697274733a, 0x6e6170735f78616d, 0x6e696d20746e693a, 0x6c69665f6c616d69, 0x6c3a657a69735f65, 0x6978616d20676e6f, 0x656c69665f6c616d, 0x6f6c3a657a69735f, 0x6f7473203d20676e, 0x6561642e65676172, 0x766f72702e6e6f6d, 0x7261502e72656469, 0x736d61]⟩,
  -- storage.provider.db.key.state = storage.provider.db.key.State
  ⟨1183, 1184, 0xf420cfa2, [], unpackLE 61 [0x2e656761726f7473, 0x72656469766f7270, 0x2e79656b2e62642e, 0x203d206574617473, 0x2e656761726f7473, 0x72656469766f7270, 0x2e79656b2e62642e, 0x6574617453]⟩,
  -- storage.provider.db.key.contractList = storage.provider.db.key.ContractList
  ⟨1185, 1186, 0x5592cc46, [], unpackLE 75 [0x2e656761726f7473, 0x72656469766f7270, 0x2e79656b2e62642e, 0x74636172746e6f63, 0x73203d207473694c, 0x702e656761726f74, 0x2e72656469766f72, 0x432e79656b2e6264, 0x4c74636172746e6f, 0x747369]⟩,
  -- storage.provider.db.key.storageContract wc:int addr:int256 = storage.provider.db.key.StorageContract
  ⟨1187, 1188, 0xcc5ecb1e, [⟨238, none, false, .int⟩, ⟨1106, none, false, .int256⟩], unpackLE 100 [0x2e656761726f7473, 0x72656469766f7270, 0x2e79656b2e62642e, 0x43656761726f7473, 0x2074636172746e6f, 0x6120746e693a6377, 0x32746e693a726464, 0x6f7473203d203635, 0x6f72702e65676172, 0x62642e7265646976, 0x6f74532e79656b2e, 0x746e6f4365676172, 0x74636172]⟩,
  -- storage.provider.db.key.microchunkTree wc:int addr:int256 = storage.provider.db.key.MicrochunkTree
  ⟨1189, 1190, 0x2998ea79, [⟨238, none, false, .int⟩, ⟨1106, none, false, .int256⟩], unpackLE 98 [0x2e656761726f7473, 0x72656469766f7270, 0x2e79656b2e62642e, 0x7568636f7263696d, 0x7720656572546b6e, 0x646120746e693a63, 0x3532746e693a7264, 0x726f7473203d2036, 0x766f72702e656761, 0x2e62642e72656469, 0x7263694d2e79656b, 0x72546b6e7568636f, 0x6565]⟩,
  -- storage.provider.db.key.providerConfig = storage.provider.db.key.ProviderConfig
  ⟨1191, 1192, 0xe7e80932, [], unpackLE 79 [0x2e656761726f7473, 0x72656469766f7270, 0x2e79656b2e62642e, 0x72656469766f7270, 0x3d206769666e6f43, 0x656761726f747320, 0x656469766f72702e, 0x79656b2e62642e72, 0x656469766f72502e, 0x6769666e6f4372]⟩,
  -- storage.provider.db.state last_processed_lt:long = storage.provider.db.State
  ⟨1193, 1194, 0x01a955f3, [⟨1195, none, false, .long⟩], unpackLE 76 [0x2e656761726f7473, 0x72656469766f7270, 0x746174732e62642e, 0x705f7473616c2065, 0x6465737365636f72, 0x676e6f6c3a746c5f, 0x61726f7473203d20, 0x69766f72702e6567, 0x532e62642e726564, 0x65746174]⟩,
  -- storage.provider.db.contractAddress wc:int addr:int256 = storage.db.ContractAddress
  ⟨1196, 1197, 0xe258ecfd, [⟨238, none, false, .int⟩, ⟨1106, none, false, .int256⟩], unpackLE 83 [0x2e656761726f7473, 0x72656469766f7270, 0x746e6f632e62642e, 0x7264644174636172, 0x693a637720737365, 0x3a7264646120746e, 0x3d20363532746e69, 0x656761726f747320, 0x746e6f432e62642e, 0x7264644174636172, 0x737365]⟩,
  -- storage.provider.db.contractList contracts:vector storage.provider.db.contractAddress = storage.db.ContractList
  ⟨1198, 1199, 0xda38e717, [⟨1200, none, true, .bare 1196⟩], unpackLE 111 [0x2e656761726f7473, 0x72656469766f7270, 0x746e6f632e62642e, 0x7473694c74636172, 0x636172746e6f6320, 0x6f746365763a7374, 0x6761726f74732072, 0x6469766f72702e65, 0x6f632e62642e7265, 0x644174636172746e, 0x203d207373657264, 0x2e656761726f7473, 0x72746e6f432e6264, 0x7473694c746361]⟩,
  -- storage.provider.db.storageContract torrent_hash:int256 microchunk_hash:int256 created_time:int state:int file_size:long rate:string max_span:int = storage.provider.db.StorageContract
  ⟨1201, 1202, 0xeeb3a732, [⟨1203, none, false, .int256⟩, ⟨1204, none, false, .int256⟩, ⟨1205, none, false, .int⟩, ⟨86, none, false, .int⟩, ⟨1206, none, false, .long⟩, ⟨1207, none, false, .string⟩, ⟨1180, none, false, .int⟩], unpackLE 183 [0x2e656761726f7473, 0x72656469766f7270, 0x726f74732e62642e, 0x72746e6f43656761, 0x72726f7420746361, 0x687361685f746e65, 0x20363532746e693a, 0x7568636f7263696d, 0x3a687361685f6b6e, 0x6320363532746e69, 0x745f646574616572, 0x20746e693a656d69, 0x6e693a6574617473, 0x735f656c69662074, 0x676e6f6c3a657a69, 0x74733a6574617220, 0x78616d20676e6972, 0x6e693a6e6170735f, 0x726f7473203d2074, 0x766f72702e656761, 0x2e62642e72656469, 0x43656761726f7453, 0x74636172746e6f]⟩,
  -- storage.provider.db.microchunkTree data:bytes = storage.provider.db.MicrochunkTree
  ⟨1208, 1209, 0xc2ca0f42, [⟨16, none, false, .bytes⟩], unpackLE 82 [0x2e656761726f7473, 0x72656469766f7270, 0x7263696d2e62642e, 0x72546b6e7568636f, 0x3a61746164206565, 0x203d207365747962, 0x2e656761726f7473, 0x72656469766f7270, 0x7263694d2e62642e, 0x72546b6e7568636f, 0x6565]⟩,
  -- storage.daemon.queryError message:string = storage.daemon.QueryError
  ⟨1210, 1211, 0x04bdbac4, [⟨49, none, false, .string⟩], unpackLE 68 [0x2e656761726f7473, 0x712e6e6f6d656164, 0x6f72724579726575, 0x67617373656d2072, 0x676e697274733a65, 0x61726f7473203d20, 0x6f6d6561642e6567, 0x4579726575512e6e, 0x726f7272]⟩,
  -- storage.daemon.success = storage.daemon.Success
  ⟨1212, 1213, 0xb3aeef1c, [], unpackLE 47 [0x2e656761726f7473, 0x732e6e6f6d656164, 0x3d20737365636375, 0x656761726f747320, 0x2e6e6f6d6561642e, 0x73736563637553]⟩,
  -- storage.daemon.torrent hash:int256 flags:# total_size:flags.0?long description:flags.0?string files_count:flags.1?long included_size:flags.1?long dir_name:flags.1?string downloaded_size:long added_at:int root_dir:string active_download:Bool active_upload:Bool completed:Bool download_speed:double upload_speed:double fatal_error:flags.2?string = storage.daemon.Torrent
  ⟨1214, 1215, 0x15b30b67, [⟨55, none, false, .int256⟩, ⟨1, none, false, .nat⟩, ⟨346, some (1, 0), false, .long⟩, ⟨1216, some (1, 0), false, .string⟩, ⟨1217, some (1, 1), false, .long⟩, ⟨1218, some (1, 1), false, .long⟩, ⟨1219, some (1, 1), false, .string⟩, ⟨1220, none, false, .long⟩, ⟨1160, none, false, .int⟩, ⟨1156, none, false, .string⟩, ⟨1157, none, false, .bool⟩, ⟨1158, none, false, .bool⟩, ⟨1221, none, false, .bool⟩, ⟨1222, none, false, .bare 6⟩, ⟨1223, none, false, .bare 6⟩, ⟨1224, some (1, 2), false, .string⟩], unpackLE 368 [0x2e656761726f7473, 0x742e6e6f6d656164, 0x6820746e6572726f, 0x32746e693a687361, 0x7367616c66203635, 0x6c61746f7420233a, 0x6c663a657a69735f, 0x6f6c3f302e736761, 0x726373656420676e, 0x663a6e6f69747069, 0x733f302e7367616c, 0x696620676e697274, 0x6e756f635f73656c, 0x2e7367616c663a74, 0x6920676e6f6c3f31, 0x5f646564756c636e, 0x616c663a657a6973, 0x6e6f6c3f312e7367, 0x616e5f7269642067, 0x7367616c663a656d, 0x6e697274733f312e, 0x6f6c6e776f642067, 0x7a69735f64656461, 0x6120676e6f6c3a65, 0x3a74615f64656464, 0x746f6f7220746e69, 0x7274733a7269645f, 0x6974636120676e69, 0x6c6e776f645f6576, 0x6c6f6f423a64616f, 0x5f65766974636120, 0x423a64616f6c7075, 0x706d6f63206c6f6f, 0x6f423a646574656c, 0x6c6e776f64206c6f, 0x656570735f64616f, 0x656c62756f643a64, 0x5f64616f6c707520, 0x6f643a6465657073, 0x74616620656c6275, 0x726f7272655f6c61, 0x322e7367616c663a, 0x20676e697274733f, 0x6761726f7473203d, 0x6e6f6d6561642e65, 0x746e6572726f542e]⟩,
  -- storage.daemon.fileInfo name:string size:long flags:# priority:int downloaded_size:long = storage.daemon.FileInfo
  ⟨1225, 1226, 0x7177dbfe, [⟨275, none, false, .string⟩, ⟨165, none, false, .long⟩, ⟨1, none, false, .nat⟩, ⟨305, none, false, .int⟩, ⟨1220, none, false, .long⟩], unpackLE 113 [0x2e656761726f7473, 0x662e6e6f6d656164, 0x206f666e49656c69, 0x7274733a656d616e, 0x657a697320676e69, 0x6c6620676e6f6c3a, 0x727020233a736761, 0x693a797469726f69, 0x6c6e776f6420746e, 0x69735f646564616f, 0x20676e6f6c3a657a, 0x6761726f7473203d, 0x6e6f6d6561642e65, 0x666e49656c69462e, 0x6f]⟩,
  -- storage.daemon.torrentFull torrent:storage.daemon.torrent files:vector storage.daemon.fileInfo = storage.daemon.TorrentFull
  ⟨1227, 1228, 0x5fa88c27, [⟨1229, none, false, .bare 1214⟩, ⟨1230, none, true, .bare 1225⟩], unpackLE 123 [0x2e656761726f7473, 0x742e6e6f6d656164, 0x7546746e6572726f, 0x6572726f74206c6c, 0x61726f74733a746e, 0x6f6d6561642e6567, 0x6e6572726f742e6e, 0x3a73656c69662074, 0x7320726f74636576, 0x642e656761726f74, 0x69662e6e6f6d6561, 0x3d206f666e49656c, 0x656761726f747320, 0x2e6e6f6d6561642e, 0x46746e6572726f54, 0x6c6c75]⟩,
  -- storage.daemon.torrentList torrents:vector storage.daemon.torrent = storage.daemon.TorrentList
  ⟨1231, 1232, 0x4f1c1842, [⟨1153, none, true, .bare 1214⟩], unpackLE 94 [0x2e656761726f7473, 0x742e6e6f6d656164, 0x694c746e6572726f, 0x6572726f74207473, 0x746365763a73746e, 0x61726f747320726f, 0x6f6d6561642e6567, 0x6e6572726f742e6e, 0x726f7473203d2074, 0x6d6561642e656761, 0x6572726f542e6e6f, 0x7473694c746e]⟩,
  -- storage.daemon.torrentMeta meta:bytes = storage.daemon.TorrentMeta
  ⟨1233, 1234, 0xd4be1ee8, [⟨1235, none, false, .bytes⟩], unpackLE 66 [0x2e656761726f7473, 0x742e6e6f6d656164, 0x654d746e6572726f, 0x3a6174656d206174, 0x203d207365747962, 0x2e656761726f7473, 0x542e6e6f6d656164, 0x654d746e6572726f, 0x6174]⟩,
  -- storage.daemon.filePiecesInfo name:string range_l:long range_r:long = storage.daemon.FilePiecesInfo
  ⟨1236, 1237, 0x03553543, [⟨275, none, false, .string⟩, ⟨1238, none, false, .long⟩, ⟨1239, none, false, .long⟩], unpackLE 99 [0x2e656761726f7473, 0x662e6e6f6d656164, 0x6563656950656c69, 0x616e206f666e4973, 0x6e697274733a656d, 0x5f65676e61722067, 0x7220676e6f6c3a6c, 0x6c3a725f65676e61, 0x7473203d20676e6f, 0x61642e656761726f, 0x6c69462e6e6f6d65, 0x4973656365695065, 0x6f666e]⟩
]

def chunk14 : List Ctor := [
  -- storage.daemon.torrentPiecesInfo flags:# total_pieces:long piece_size:int range_l:long range_r:long piece_ready_bitset:bytes files:flags.0?vector storage.daemon.filePiecesInfo = storage.daemon.TorrentPiecesInfo
  ⟨1240, 1241, 0x091cab91, [⟨1, none, false, .nat⟩, ⟨1242, none, false, .long⟩, ⟨1243, none, false, .int⟩, ⟨1238, none, false, .long⟩, ⟨1239, none, false, .long⟩, ⟨1244, none, false, .bytes⟩, ⟨1230, some (1, 0), true, .bare 1236⟩], unpackLE 210 [0x2e656761726f7473, 0x742e6e6f6d656164, 0x6950746e6572726f, 0x6f666e4973656365, 0x233a7367616c6620, 0x705f6c61746f7420, 0x6f6c3a7365636569, 0x656365697020676e, 0x6e693a657a69735f, 0x5f65676e61722074, 0x7220676e6f6c3a6c, 0x6c3a725f65676e61, 0x6365697020676e6f, 0x5f79646165725f65, 0x623a746573746962, 0x6c69662073657479, 0x7367616c663a7365, 0x6f746365763f302e, 0x6761726f74732072, 0x6e6f6d6561642e65, 0x656950656c69662e, 0x206f666e49736563, 0x6761726f7473203d, 0x6e6f6d6561642e65, 0x746e6572726f542e, 0x6e49736563656950, 0x6f66]⟩,
  -- storage.daemon.newContractParams rate:string max_span:int = storage.daemon.NewContractParams
  ⟨1245, 1246, 0x555b0884, [⟨1207, none, false, .string⟩, ⟨1180, none, false, .int⟩], unpackLE 92 [0x2e656761726f7473, 0x6e2e6e6f6d656164, 0x6172746e6f437765, 0x736d617261507463, 0x74733a6574617220, 0x78616d20676e6972, 0x6e693a6e6170735f, 0x726f7473203d2074, 0x6d6561642e656761, 0x6f4377654e2e6e6f, 0x615074636172746e, 0x736d6172]⟩,
  -- storage.daemon.newContractParamsAuto provider_address:string = storage.daemon.NewContractParams
  ⟨1247, 1246, 0xaf7767ad, [⟨1174, none, false, .string⟩], unpackLE 95 [0x2e656761726f7473, 0x6e2e6e6f6d656164, 0x6172746e6f437765, 0x736d617261507463, 0x6f7270206f747541, 0x64615f7265646976, 0x74733a7373657264, 0x73203d20676e6972, 0x642e656761726f74, 0x654e2e6e6f6d6561, 0x636172746e6f4377, 0x736d6172615074]⟩,
  -- storage.daemon.newContractMessage body:bytes rate:string max_span:int = storage.daemon.NewContractMessage
  ⟨1248, 1249, 0xf589adf6, [⟨204, none, false, .bytes⟩, ⟨1207, none, false, .string⟩, ⟨1180, none, false, .int⟩], unpackLE 105 [0x2e656761726f7473, 0x6e2e6e6f6d656164, 0x6172746e6f437765, 0x67617373654d7463, 0x623a79646f622065, 0x7461722073657479, 0x676e697274733a65, 0x6170735f78616d20, 0x203d20746e693a6e, 0x2e656761726f7473, 0x4e2e6e6f6d656164, 0x6172746e6f437765, 0x67617373654d7463, 0x65]⟩,
  -- storage.daemon.peer adnl_id:int256 ip_str:string download_speed:double upload_speed:double ready_parts:long = storage.daemon.Peer
  ⟨1250, 1251, 0xbd345034, [⟨927, none, false, .int256⟩, ⟨1252, none, false, .string⟩, ⟨1222, none, false, .bare 6⟩, ⟨1223, none, false, .bare 6⟩, ⟨1253, none, false, .long⟩], unpackLE 129 [0x2e656761726f7473, 0x702e6e6f6d656164, 0x6c6e646120726565, 0x32746e693a64695f, 0x74735f7069203635, 0x676e697274733a72, 0x616f6c6e776f6420, 0x3a64656570735f64, 0x7520656c62756f64, 0x70735f64616f6c70, 0x62756f643a646565, 0x796461657220656c, 0x6c3a73747261705f, 0x7473203d20676e6f, 0x61642e656761726f, 0x6565502e6e6f6d65, 0x72]⟩,
  -- storage.daemon.peerList peers:vector storage.daemon.peer download_speed:double upload_speed:double total_parts:long = storage.daemon.PeerList
  ⟨1254, 1255, 0xa5de3815, [⟨467, none, true, .bare 1250⟩, ⟨1222, none, false, .bare 6⟩, ⟨1223, none, false, .bare 6⟩, ⟨1256, none, false, .long⟩], unpackLE 141 [0x2e656761726f7473, 0x702e6e6f6d656164, 0x207473694c726565, 0x65763a7372656570, 0x6f747320726f7463, 0x6561642e65676172, 0x726565702e6e6f6d, 0x616f6c6e776f6420, 0x3a64656570735f64, 0x7520656c62756f64, 0x70735f64616f6c70, 0x62756f643a646565, 0x6c61746f7420656c, 0x6c3a73747261705f, 0x7473203d20676e6f, 0x61642e656761726f, 0x6565502e6e6f6d65, 0x7473694c72]⟩,
  -- storage.daemon.prioritySet = storage.daemon.SetPriorityStatus
  ⟨1257, 1258, 0xb6e89fd7, [], unpackLE 61 [0x2e656761726f7473, 0x702e6e6f6d656164, 0x53797469726f6972, 0x6f7473203d207465, 0x6561642e65676172, 0x507465532e6e6f6d, 0x53797469726f6972, 0x7375746174]⟩,
  -- storage.daemon.priorityPending = storage.daemon.SetPriorityStatus
  ⟨1259, 1258, 0x840961a6, [], unpackLE 65 [0x2e656761726f7473, 0x702e6e6f6d656164, 0x50797469726f6972, 0x3d20676e69646e65, 0x656761726f747320, 0x2e6e6f6d6561642e, 0x726f697250746553, 0x7574617453797469, 0x73]⟩,
  -- storage.daemon.keyHash key_hash:int256 = storage.daemon.KeyHash
  ⟨1260, 1261, 0x85b562dc, [⟨947, none, false, .int256⟩], unpackLE 63 [0x2e656761726f7473, 0x6b2e6e6f6d656164, 0x6b20687361487965, 0x3a687361685f7965, 0x3d20363532746e69, 0x656761726f747320, 0x2e6e6f6d6561642e, 0x6873614879654b]⟩,
  -- storage.daemon.speedLimits download:double upload:double = storage.daemon.SpeedLimits
  ⟨1262, 1263, 0xfeb0e919, [⟨1264, none, false, .bare 6⟩, ⟨1265, none, false, .bare 6⟩], unpackLE 85 [0x2e656761726f7473, 0x732e6e6f6d656164, 0x696d694c64656570, 0x6c6e776f64207374, 0x62756f643a64616f, 0x616f6c707520656c, 0x656c62756f643a64, 0x61726f7473203d20, 0x6f6d6561642e6567, 0x4c64656570532e6e, 0x7374696d69]⟩,
  -- storage.daemon.providerConfig max_contracts:int max_total_size:long = storage.daemon.ProviderConfig
  ⟨1266, 1267, 0x7dad0a94, [⟨1268, none, false, .int⟩, ⟨1269, none, false, .long⟩], unpackLE 99 [0x2e656761726f7473, 0x702e6e6f6d656164, 0x4372656469766f72, 0x616d206769666e6f, 0x6172746e6f635f78, 0x20746e693a737463, 0x61746f745f78616d, 0x6c3a657a69735f6c, 0x7473203d20676e6f, 0x61642e656761726f, 0x6f72502e6e6f6d65, 0x6e6f437265646976, 0x676966]⟩,
  -- storage.daemon.contractInfo address:string state:int torrent:int256 created_time:int file_size:long downloaded_size:long rate:string max_span:int client_balance:string contract_balance:string = storage.daemon.ContractInfo
  ⟨1270, 1271, 0xd7744f09, [⟨318, none, false, .string⟩, ⟨86, none, false, .int⟩, ⟨1229, none, false, .int256⟩, ⟨1205, none, false, .int⟩, ⟨1206, none, false, .long⟩, ⟨1220, none, false, .long⟩, ⟨1207, none, false, .string⟩, ⟨1180, none, false, .int⟩, ⟨1272, none, false, .string⟩, ⟨1273, none, false, .string⟩], unpackLE 221 [0x2e656761726f7473, 0x632e6e6f6d656164, 0x4974636172746e6f, 0x72646461206f666e, 0x697274733a737365, 0x657461747320676e, 0x726f7420746e693a, 0x746e693a746e6572, 0x6165726320363532, 0x656d69745f646574, 0x6c696620746e693a, 0x6c3a657a69735f65, 0x6e776f6420676e6f, 0x735f646564616f6c, 0x676e6f6c3a657a69, 0x74733a6574617220, 0x78616d20676e6972, 0x6e693a6e6170735f, 0x746e65696c632074, 0x65636e616c61625f, 0x20676e697274733a, 0x74636172746e6f63, 0x65636e616c61625f, 0x20676e697274733a, 0x6761726f7473203d, 0x6e6f6d6561642e65, 0x636172746e6f432e, 0x6f666e4974]⟩,
  -- storage.daemon.providerInfo address:string balance:string config:storage.daemon.providerConfig contracts_count:int contracts_total_size:long contracts:vector storage.daemon.contractInfo = storage.daemon.ProviderInfo
  ⟨1274, 1275, 0xe76b012d, [⟨318, none, false, .string⟩, ⟨1276, none, false, .string⟩, ⟨1277, none, false, .bare 1266⟩, ⟨1278, none, false, .int⟩, ⟨1279, none, false, .long⟩, ⟨1200, none, true, .bare 1270⟩], unpackLE 215 [0x2e656761726f7473, 0x702e6e6f6d656164, 0x4972656469766f72, 0x72646461206f666e, 0x697274733a737365, 0x6e616c616220676e, 0x6e697274733a6563, 0x6769666e6f632067, 0x656761726f74733a, 0x2e6e6f6d6561642e, 0x72656469766f7270, 0x63206769666e6f43, 0x7374636172746e6f, 0x693a746e756f635f, 0x72746e6f6320746e, 0x746f745f73746361, 0x3a657a69735f6c61, 0x6e6f6320676e6f6c, 0x763a737463617274, 0x747320726f746365, 0x61642e656761726f, 0x6e6f632e6e6f6d65, 0x666e497463617274, 0x726f7473203d206f, 0x6d6561642e656761, 0x69766f72502e6e6f, 0x6f666e49726564]⟩,
  -- storage.daemon.providerAddress address:string = storage.daemon.ProviderAddress
  ⟨1280, 1281, 0x885eb912, [⟨318, none, false, .string⟩], unpackLE 78 [0x2e656761726f7473, 0x702e6e6f6d656164, 0x4172656469766f72, 0x6120737365726464, 0x733a737365726464, 0x203d20676e697274, 0x2e656761726f7473, 0x502e6e6f6d656164, 0x4172656469766f72, 0x737365726464]⟩,
  -- storage.daemon.setVerbosity verbosity:int = storage.daemon.Success
  ⟨1282, 1213, 0x26bcbb98, [⟨1034, none, false, .int⟩], unpackLE 66 [0x2e656761726f7473, 0x732e6e6f6d656164, 0x736f627265567465, 0x6272657620797469, 0x6e693a797469736f, 0x726f7473203d2074, 0x6d6561642e656761, 0x65636375532e6e6f, 0x7373]⟩,
  -- storage.daemon.createTorrent path:string description:string allow_upload:Bool copy_inside:Bool flags:# = storage.daemon.TorrentFull
  ⟨1283, 1228, 0x9d99bc2b, [⟨1284, none, false, .string⟩, ⟨1216, none, false, .string⟩, ⟨1285, none, false, .bool⟩, ⟨1286, none, false, .bool⟩, ⟨1, none, false, .nat⟩], unpackLE 131 [0x2e656761726f7473, 0x632e6e6f6d656164, 0x726f546574616572, 0x74617020746e6572, 0x676e697274733a68, 0x7069726373656420, 0x7274733a6e6f6974, 0x6f6c6c6120676e69, 0x64616f6c70755f77, 0x6f63206c6f6f423a, 0x6469736e695f7970, 0x66206c6f6f423a65, 0x3d20233a7367616c, 0x656761726f747320, 0x2e6e6f6d6561642e, 0x46746e6572726f54, 0x6c6c75]⟩,
  -- storage.daemon.addByHash hash:int256 root_dir:string start_download:Bool allow_upload:Bool priorities:vector storage.PriorityAction flags:# = storage.daemon.TorrentFull
  ⟨1287, 1228, 0xb535689e, [⟨55, none, false, .int256⟩, ⟨1156, none, false, .string⟩, ⟨1288, none, false, .bool⟩, ⟨1285, none, false, .bool⟩, ⟨1289, none, true, .boxed 1167⟩, ⟨1, none, false, .nat⟩], unpackLE 168 [0x2e656761726f7473, 0x612e6e6f6d656164, 0x6873614879426464, 0x6e693a6873616820, 0x6f6f722036353274, 0x74733a7269645f74, 0x61747320676e6972, 0x6c6e776f645f7472, 0x6c6f6f423a64616f, 0x755f776f6c6c6120, 0x6f423a64616f6c70, 0x726f697270206c6f, 0x65763a7365697469, 0x6f747320726f7463, 0x6972502e65676172, 0x746341797469726f, 0x67616c66206e6f69, 0x7473203d20233a73, 0x61642e656761726f, 0x726f542e6e6f6d65, 0x6c6c7546746e6572]⟩,
  -- storage.daemon.addByMeta meta:bytes root_dir:string start_download:Bool allow_upload:Bool priorities:vector storage.PriorityAction flags:# = storage.daemon.TorrentFull
  ⟨1290, 1228, 0xb659165e, [⟨1235, none, false, .bytes⟩, ⟨1156, none, false, .string⟩, ⟨1288, none, false, .bool⟩, ⟨1285, none, false, .bool⟩, ⟨1289, none, true, .boxed 1167⟩, ⟨1, none, false, .nat⟩], unpackLE 167 [0x2e656761726f7473, 0x612e6e6f6d656164, 0x6174654d79426464, 0x79623a6174656d20, 0x746f6f7220736574, 0x7274733a7269645f, 0x7261747320676e69, 0x6f6c6e776f645f74, 0x206c6f6f423a6461, 0x70755f776f6c6c61, 0x6f6f423a64616f6c, 0x69726f697270206c, 0x6365763a73656974, 0x726f747320726f74, 0x6f6972502e656761, 0x6974634179746972, 0x7367616c66206e6f, 0x6f7473203d20233a, 0x6561642e65676172, 0x72726f542e6e6f6d, 0x6c6c7546746e65]⟩,
  -- storage.daemon.setActiveDownload hash:int256 active:Bool = storage.daemon.Success
  ⟨1291, 1213, 0x747a5d9d, [⟨55, none, false, .int256⟩, ⟨1292, none, false, .bool⟩], unpackLE 81 [0x2e656761726f7473, 0x732e6e6f6d656164, 0x6576697463417465, 0x64616f6c6e776f44, 0x6e693a6873616820, 0x7463612036353274, 0x6c6f6f423a657669, 0x61726f7473203d20, 0x6f6d6561642e6567, 0x7365636375532e6e, 0x73]⟩,
  -- storage.daemon.setActiveUpload hash:int256 active:Bool = storage.daemon.Success
  ⟨1293, 1213, 0x3baeb69b, [⟨55, none, false, .int256⟩, ⟨1292, none, false, .bool⟩], unpackLE 79 [0x2e656761726f7473, 0x732e6e6f6d656164, 0x6576697463417465, 0x682064616f6c7055, 0x32746e693a687361, 0x7669746361203635, 0x3d206c6f6f423a65, 0x656761726f747320, 0x2e6e6f6d6561642e, 0x73736563637553]⟩,
  -- storage.daemon.getTorrents flags:# = storage.daemon.TorrentList
  ⟨1294, 1232, 0x2335fb5a, [⟨1, none, false, .nat⟩], unpackLE 63 [0x2e656761726f7473, 0x672e6e6f6d656164, 0x6e6572726f547465, 0x7367616c66207374, 0x6f7473203d20233a, 0x6561642e65676172, 0x72726f542e6e6f6d, 0x7473694c746e65]⟩,
  -- storage.daemon.getTorrentFull hash:int256 flags:# = storage.daemon.TorrentFull
  ⟨1295, 1228, 0x5c9a4066, [⟨55, none, false, .int256⟩, ⟨1, none, false, .nat⟩], unpackLE 78 [0x2e656761726f7473, 0x672e6e6f6d656164, 0x6e6572726f547465, 0x6168206c6c754674, 0x3532746e693a6873, 0x3a7367616c662036, 0x726f7473203d2023, 0x6d6561642e656761, 0x6572726f542e6e6f, 0x6c6c7546746e]⟩,
  -- storage.daemon.getTorrentMeta hash:int256 flags:# = storage.daemon.TorrentMeta
  ⟨1296, 1234, 0x735d2df1, [⟨55, none, false, .int256⟩, ⟨1, none, false, .nat⟩], unpackLE 78 [0x2e656761726f7473, 0x672e6e6f6d656164, 0x6e6572726f547465, 0x6168206174654d74, 0x3532746e693a6873, 0x3a7367616c662036, 0x726f7473203d2023, 0x6d6561642e656761, 0x6572726f542e6e6f, 0x6174654d746e]⟩,
  -- storage.daemon.getNewContractMessage hash:int256 query_id:long params:storage.daemon.NewContractParams = storage.daemon.NewContractMessage
  ⟨1297, 1249, 0xe9abff94, [⟨55, none, false, .int256⟩, ⟨42, none, false, .long⟩, ⟨209, none, false, .boxed 1246⟩], unpackLE 138 [0x2e656761726f7473, 0x672e6e6f6d656164, 0x6e6f4377654e7465, 0x73654d7463617274, 0x7361682065676173, 0x363532746e693a68, 0x695f797265757120, 0x7020676e6f6c3a64, 0x74733a736d617261, 0x61642e656761726f, 0x77654e2e6e6f6d65, 0x74636172746e6f43, 0x3d20736d61726150, 0x656761726f747320, 0x2e6e6f6d6561642e, 0x72746e6f4377654e, 0x617373654d746361, 0x6567]⟩,
  -- storage.daemon.getTorrentPeers hash:int256 flags:# = storage.daemon.PeerList
  ⟨1298, 1255, 0x11b7d099, [⟨55, none, false, .int256⟩, ⟨1, none, false, .nat⟩], unpackLE 76 [0x2e656761726f7473, 0x672e6e6f6d656164, 0x6e6572726f547465, 0x6820737265655074, 0x32746e693a687361, 0x7367616c66203635, 0x6f7473203d20233a, 0x6561642e65676172, 0x726565502e6e6f6d, 0x7473694c]⟩,
  -- storage.daemon.getTorrentPiecesInfo hash:int256 flags:# offset:long max_pieces:long = storage.daemon.TorrentPiecesInfo
  ⟨1299, 1241, 0xf3acb726, [⟨55, none, false, .int256⟩, ⟨1, none, false, .nat⟩, ⟨347, none, false, .long⟩, ⟨1300, none, false, .long⟩], unpackLE 118 [0x2e656761726f7473, 0x672e6e6f6d656164, 0x6e6572726f547465, 0x4973656365695074, 0x68736168206f666e, 0x20363532746e693a, 0x20233a7367616c66, 0x6c3a74657366666f, 0x5f78616d20676e6f, 0x6c3a736563656970, 0x7473203d20676e6f, 0x61642e656761726f, 0x726f542e6e6f6d65, 0x63656950746e6572, 0x6f666e497365]⟩,
  -- storage.daemon.setFilePriorityAll hash:int256 priority:int = storage.daemon.SetPriorityStatus
  ⟨1301, 1258, 0x8d7aa279, [⟨55, none, false, .int256⟩, ⟨305, none, false, .int⟩], unpackLE 93 [0x2e656761726f7473, 0x732e6e6f6d656164, 0x7250656c69467465, 0x6c41797469726f69, 0x693a68736168206c, 0x727020363532746e, 0x693a797469726f69, 0x6f7473203d20746e, 0x6561642e65676172, 0x507465532e6e6f6d, 0x53797469726f6972, 0x7375746174]⟩,
  -- storage.daemon.setFilePriorityByIdx hash:int256 idx:long priority:int = storage.daemon.SetPriorityStatus
  ⟨1302, 1258, 0x4397d69b, [⟨55, none, false, .int256⟩, ⟨381, none, false, .long⟩, ⟨305, none, false, .int⟩], unpackLE 104 [0x2e656761726f7473, 0x732e6e6f6d656164, 0x7250656c69467465, 0x7942797469726f69, 0x6873616820786449, 0x20363532746e693a, 0x676e6f6c3a786469, 0x7469726f69727020, 0x203d20746e693a79, 0x2e656761726f7473, 0x532e6e6f6d656164, 0x69726f6972507465, 0x7375746174537974]⟩,
  -- storage.daemon.setFilePriorityByName hash:int256 name:string priority:int = storage.daemon.SetPriorityStatus
  ⟨1303, 1258, 0xde2d22c9, [⟨55, none, false, .int256⟩, ⟨275, none, false, .string⟩, ⟨305, none, false, .int⟩], unpackLE 108 [0x2e656761726f7473, 0x732e6e6f6d656164, 0x7250656c69467465, 0x7942797469726f69, 0x73616820656d614e, 0x363532746e693a68, 0x74733a656d616e20, 0x69727020676e6972, 0x6e693a797469726f, 0x726f7473203d2074, 0x6d6561642e656761, 0x72507465532e6e6f, 0x7453797469726f69, 0x73757461]⟩,
  -- storage.daemon.removeTorrent hash:int256 remove_files:Bool = storage.daemon.Success
  ⟨1304, 1213, 0x0a7a545b, [⟨55, none, false, .int256⟩, ⟨1305, none, false, .bool⟩], unpackLE 83 [0x2e656761726f7473, 0x722e6e6f6d656164, 0x726f5465766f6d65, 0x73616820746e6572, 0x363532746e693a68, 0x5f65766f6d657220, 0x6f423a73656c6966, 0x6f7473203d206c6f, 0x6561642e65676172, 0x636375532e6e6f6d, 0x737365]⟩,
  -- storage.daemon.loadFrom hash:int256 meta:bytes path:string flags:# = storage.daemon.Torrent
  ⟨1306, 1215, 0xc81fde27, [⟨55, none, false, .int256⟩, ⟨1235, none, false, .bytes⟩, ⟨1284, none, false, .string⟩, ⟨1, none, false, .nat⟩], unpackLE 91 [0x2e656761726f7473, 0x6c2e6e6f6d656164, 0x206d6f724664616f, 0x746e693a68736168, 0x6174656d20363532, 0x702073657479623a, 0x697274733a687461, 0x7367616c6620676e, 0x6f7473203d20233a, 0x6561642e65676172, 0x72726f542e6e6f6d, 0x746e65]⟩,
  -- storage.daemon.getSpeedLimits flags:# = storage.daemon.SpeedLimits
  ⟨1307, 1263, 0x9aae907f, [⟨1, none, false, .nat⟩], unpackLE 66 [0x2e656761726f7473, 0x672e6e6f6d656164, 0x4c64656570537465, 0x6c66207374696d69, 0x203d20233a736761, 0x2e656761726f7473, 0x532e6e6f6d656164, 0x696d694c64656570, 0x7374]⟩,
  -- storage.daemon.setSpeedLimits flags:# download:flags.0?double upload:flags.1?double = storage.daemon.Success
  ⟨1308, 1213, 0x2ba1e7ea, [⟨1, none, false, .nat⟩, ⟨1264, some (1, 0), false, .bare 6⟩, ⟨1265, some (1, 1), false, .bare 6⟩], unpackLE 108 [0x2e656761726f7473, 0x732e6e6f6d656164, 0x4c64656570537465, 0x6c66207374696d69, 0x6f6420233a736761, 0x663a64616f6c6e77, 0x643f302e7367616c, 0x707520656c62756f, 0x616c663a64616f6c, 0x756f643f312e7367, 0x7473203d20656c62, 0x61642e656761726f, 0x6375532e6e6f6d65, 0x73736563]⟩,
  -- storage.daemon.importPrivateKey key:PrivateKey = storage.daemon.KeyHash
  ⟨1309, 1261, 0x7fff7bfa, [⟨260, none, false, .boxed 271⟩], unpackLE 71 [0x2e656761726f7473, 0x692e6e6f6d656164, 0x69725074726f706d, 0x2079654b65746176, 0x766972503a79656b, 0x3d2079654b657461, 0x656761726f747320, 0x2e6e6f6d6561642e, 0x6873614879654b]⟩,
  -- storage.daemon.initProvider account_address:string = storage.daemon.Success
  ⟨1310, 1213, 0x281f5acc, [⟨1311, none, false, .string⟩], unpackLE 75 [0x2e656761726f7473, 0x692e6e6f6d656164, 0x69766f725074696e, 0x6f63636120726564, 0x726464615f746e75, 0x697274733a737365, 0x6f7473203d20676e, 0x6561642e65676172, 0x636375532e6e6f6d, 0x737365]⟩,
  -- storage.daemon.deployProvider = storage.daemon.ProviderAddress
  ⟨1312, 1281, 0x7db1e7e5, [], unpackLE 62 [0x2e656761726f7473, 0x642e6e6f6d656164, 0x6f7250796f6c7065, 0x203d207265646976, 0x2e656761726f7473, 0x502e6e6f6d656164, 0x4172656469766f72, 0x737365726464]⟩,
  -- storage.daemon.getProviderParams address:string = storage.daemon.provider.Params
  ⟨1313, 1177, 0x92cd9671, [⟨318, none, false, .string⟩], unpackLE 80 [0x2e656761726f7473, 0x672e6e6f6d656164, 0x6469766f72507465, 0x736d617261507265, 0x7373657264646120, 0x20676e697274733a, 0x6761726f7473203d, 0x6e6f6d6561642e65, 0x656469766f72702e, 0x736d617261502e72]⟩,
  -- storage.daemon.setProviderParams params:storage.daemon.provider.params = storage.daemon.Success
  ⟨1314, 1213, 0x604f2d1c, [⟨209, none, false, .bare 1176⟩], unpackLE 95 [0x2e656761726f7473, 0x732e6e6f6d656164, 0x6469766f72507465, 0x736d617261507265, 0x3a736d6172617020, 0x2e656761726f7473, 0x702e6e6f6d656164, 0x2e72656469766f72, 0x3d20736d61726170, 0x656761726f747320, 0x2e6e6f6d6561642e, 0x73736563637553]⟩,
  -- storage.daemon.getProviderInfo with_balances:Bool with_contracts:Bool = storage.daemon.ProviderInfo
  ⟨1315, 1275, 0x333d79db, [⟨1316, none, false, .bool⟩, ⟨1317, none, false, .bool⟩], unpackLE 99 [0x2e656761726f7473, 0x672e6e6f6d656164, 0x6469766f72507465, 0x77206f666e497265, 0x616c61625f687469, 0x6f6f423a7365636e, 0x635f68746977206c, 0x7374636172746e6f, 0x203d206c6f6f423a, 0x2e656761726f7473, 0x502e6e6f6d656164, 0x4972656469766f72, 0x6f666e]⟩,
  -- storage.daemon.setProviderConfig config:storage.daemon.providerConfig = storage.daemon.Success
  ⟨1318, 1213, 0x8dacb78c, [⟨1277, none, false, .bare 1266⟩], unpackLE 94 [0x2e656761726f7473, 0x732e6e6f6d656164, 0x6469766f72507465, 0x6769666e6f437265, 0x3a6769666e6f6320, 0x2e656761726f7473, 0x702e6e6f6d656164, 0x4372656469766f72, 0x203d206769666e6f, 0x2e656761726f7473, 0x532e6e6f6d656164, 0x737365636375]⟩
]

def chunk15 : List Ctor := [
  -- storage.daemon.withdraw contract:string = storage.daemon.Success
  ⟨1319, 1213, 0xfdbcbff1, [⟨1320, none, false, .string⟩], unpackLE 64 [0x2e656761726f7473, 0x772e6e6f6d656164, 0x2077617264687469, 0x74636172746e6f63, 0x20676e697274733a, 0x6761726f7473203d, 0x6e6f6d6561642e65, 0x737365636375532e]⟩,
  -- storage.daemon.sendCoins address:string amount:string message:string = storage.daemon.Success
  ⟨1321, 1213, 0x01457726, [⟨318, none, false, .string⟩, ⟨1322, none, false, .string⟩, ⟨49, none, false, .string⟩], unpackLE 93 [0x2e656761726f7473, 0x732e6e6f6d656164, 0x736e696f43646e65, 0x7373657264646120, 0x20676e697274733a, 0x733a746e756f6d61, 0x656d20676e697274, 0x74733a6567617373, 0x73203d20676e6972, 0x642e656761726f74, 0x75532e6e6f6d6561, 0x7373656363]⟩,
  -- storage.daemon.closeStorageContract address:string = storage.daemon.Success
  ⟨1323, 1213, 0xf677ab10, [⟨318, none, false, .string⟩], unpackLE 75 [0x2e656761726f7473, 0x632e6e6f6d656164, 0x726f745365736f6c, 0x72746e6f43656761, 0x7264646120746361, 0x697274733a737365, 0x6f7473203d20676e, 0x6561642e65676172, 0x636375532e6e6f6d, 0x737365]⟩,
  -- storage.daemon.removeStorageProvider = storage.daemon.Success
  ⟨1324, 1213, 0x42db9f96, [], unpackLE 61 [0x2e656761726f7473, 0x722e6e6f6d656164, 0x6f745365766f6d65, 0x766f725065676172, 0x73203d2072656469, 0x642e656761726f74, 0x75532e6e6f6d6561, 0x7373656363]⟩,
  -- double ? = Double
  ⟨6, 7, 0x2210c154, [], unpackLE 17 [0x3f20656c62756f64, 0x6c62756f44203d20, 0x65]⟩,
  -- string ? = String
  ⟨8, 9, 0xb5286e24, [], unpackLE 17 [0x3f20676e69727473, 0x6e69727453203d20, 0x67]⟩,
  -- int32 = Int32
  ⟨1325, 1326, 0x5cb934fa, [], unpackLE 13 [0x203d203233746e69, 0x3233746e49]⟩,
  -- int53 = Int53
  ⟨1327, 1328, 0x6781c7ee, [], unpackLE 13 [0x203d203335746e69, 0x3335746e49]⟩,
  -- int64 = Int64
  ⟨1329, 1330, 0x5d9ed744, [], unpackLE 13 [0x203d203436746e69, 0x3436746e49]⟩,
  -- int256 8*[ int32 ] = Int256
  ⟨27, 28, 0x9da18c3c, [], unpackLE 27 [0x3820363532746e69, 0x3233746e69205b2a, 0x746e49203d205d20, 0x363532]⟩,
  -- bytes = Bytes
  ⟨14, 15, 0xe937bb82, [], unpackLE 13 [0x203d207365747962, 0x7365747942]⟩,
  -- secureString = SecureString
  ⟨1331, 1332, 0x8ea8c283, [], unpackLE 27 [0x7453657275636573, 0x53203d20676e6972, 0x7274536572756365, 0x676e69]⟩,
  -- secureBytes = SecureBytes
  ⟨1333, 1334, 0xbad71dc7, [], unpackLE 25 [0x7942657275636573, 0x6553203d20736574, 0x6574794265727563, 0x73]⟩,
  -- object ? = Object
  ⟨10, 11, 0x29704ca0, [], unpackLE 17 [0x3f207463656a626f, 0x63656a624f203d20, 0x74]⟩,
  -- function ? = Function
  ⟨12, 13, 0x7acbc197, [], unpackLE 21 [0x6e6f6974636e7566, 0x6e7546203d203f20, 0x6e6f697463]⟩,
  -- boolFalse = Bool
  ⟨21, 20, 0xbc799737, [], unpackLE 16 [0x736c61466c6f6f62, 0x6c6f6f42203d2065]⟩,
  -- boolTrue = Bool
  ⟨19, 20, 0x997275b5, [], unpackLE 15 [0x657572546c6f6f62, 0x6c6f6f42203d20]⟩,
  -- vector t:Type # [ t ] = Vector t
  ⟨22, 23, 0x1cb5c415, [⟨24, none, false, .unsup⟩], unpackLE 32 [0x7420726f74636576, 0x202320657079543a, 0x203d205d2074205b, 0x7420726f74636556]⟩,
  -- error code:int32 message:string = Error
  ⟨654, 1335, 0x9bdd8f1a, [⟨48, none, false, .bare 1325⟩, ⟨49, none, false, .string⟩], unpackLE 39 [0x6f6320726f727265, 0x3233746e693a6564, 0x6567617373656d20, 0x20676e697274733a, 0x726f727245203d]⟩,
  -- ok = Ok
  ⟨1336, 1062, 0xd4edbe69, [], unpackLE 7 [0x6b4f203d206b6f]⟩,
  -- keyStoreTypeDirectory directory:string = KeyStoreType
  ⟨1337, 1338, 0xe969122a, [⟨1339, none, false, .string⟩], unpackLE 53 [0x65726f745379656b, 0x6572694465707954, 0x69642079726f7463, 0x3a79726f74636572, 0x3d20676e69727473, 0x726f745379654b20, 0x6570795465]⟩,
  -- keyStoreTypeInMemory = KeyStoreType
  ⟨1340, 1338, 0x826c09c7, [], unpackLE 35 [0x65726f745379656b, 0x654d6e4965707954, 0x4b203d2079726f6d, 0x5465726f74537965, 0x657079]⟩,
  -- config config:string blockchain_name:string use_callbacks_for_network:Bool ignore_cache:Bool = Config
  ⟨1277, 1341, 0xa44e0238, [⟨1277, none, false, .string⟩, ⟨1342, none, false, .string⟩, ⟨1343, none, false, .bool⟩, ⟨1344, none, false, .bool⟩], unpackLE 101 [0x63206769666e6f63, 0x74733a6769666e6f, 0x6f6c6220676e6972, 0x5f6e696168636b63, 0x7274733a656d616e, 0x5f65737520676e69, 0x6b6361626c6c6163, 0x656e5f726f665f73, 0x6f423a6b726f7774, 0x726f6e6769206c6f, 0x3a65686361635f65, 0x43203d206c6f6f42, 0x6769666e6f]⟩,
  -- options config:config keystore_type:KeyStoreType = Options
  ⟨1345, 1346, 0x8d4c29f9, [⟨1277, none, false, .bare 1277⟩, ⟨1347, none, false, .boxed 1338⟩], unpackLE 58 [0x20736e6f6974706f, 0x633a6769666e6f63, 0x656b206769666e6f, 0x745f65726f747379, 0x5379654b3a657079, 0x6570795465726f74, 0x6f6974704f203d20, 0x736e]⟩,
  -- options.configInfo default_wallet_id:int64 default_rwallet_init_public_key:string = options.ConfigInfo
  ⟨1348, 1349, 0x07b75f16, [⟨1350, none, false, .bare 1329⟩, ⟨1351, none, false, .string⟩], unpackLE 102 [0x2e736e6f6974706f, 0x6e496769666e6f63, 0x7561666564206f66, 0x656c6c61775f746c, 0x746e693a64695f74, 0x7561666564203436, 0x6c6c6177725f746c, 0x5f74696e695f7465, 0x6b5f63696c627570, 0x6e697274733a7965, 0x6974706f203d2067, 0x666e6f432e736e6f, 0x6f666e496769]⟩,
  -- options.info config_info:options.configInfo = options.Info
  ⟨1352, 1353, 0xfc251c80, [⟨1354, none, false, .bare 1348⟩], unpackLE 58 [0x2e736e6f6974706f, 0x6e6f63206f666e69, 0x6f666e695f676966, 0x736e6f6974706f3a, 0x496769666e6f632e, 0x706f203d206f666e, 0x6e492e736e6f6974, 0x6f66]⟩,
  -- key public_key:string secret:secureBytes = Key
  ⟨260, 1355, 0x8a1493d5, [⟨1356, none, false, .string⟩, ⟨1357, none, false, .bare 1333⟩], unpackLE 46 [0x6c6275702079656b, 0x733a79656b5f6369, 0x657320676e697274, 0x6365733a74657263, 0x7365747942657275, 0x79654b203d20]⟩,
  -- inputKeyRegular key:key local_password:secureBytes = InputKey
  ⟨1358, 1359, 0xdee5469e, [⟨260, none, false, .bare 260⟩, ⟨1360, none, false, .bare 1333⟩], unpackLE 61 [0x79654b7475706e69, 0x2072616c75676552, 0x2079656b3a79656b, 0x61705f6c61636f6c, 0x733a64726f777373, 0x7479426572756365, 0x706e49203d207365, 0x79654b7475]⟩,
  -- inputKeyFake = InputKey
  ⟨1361, 1359, 0xbffb39be, [], unpackLE 23 [0x79654b7475706e69, 0x49203d20656b6146, 0x79654b7475706e]⟩,
  -- exportedKey word_list:vector<secureString> = ExportedKey
  ⟨1362, 1363, 0x16408f78, [⟨1364, none, false, .unsup⟩], unpackLE 56 [0x646574726f707865, 0x64726f772079654b, 0x65763a7473696c5f, 0x6365733c726f7463, 0x6e69727453657275, 0x707845203d203e67, 0x79654b646574726f]⟩,
  -- exportedPemKey pem:secureString = ExportedPemKey
  ⟨1365, 1366, 0x54f700bd, [⟨1367, none, false, .bare 1331⟩], unpackLE 48 [0x646574726f707865, 0x702079654b6d6550, 0x72756365733a6d65, 0x20676e6972745365, 0x74726f707845203d, 0x79654b6d65506465]⟩,
  -- exportedEncryptedKey data:secureBytes = ExportedEncryptedKey
  ⟨1368, 1369, 0x78a9fe54, [⟨16, none, false, .bare 1333⟩], unpackLE 60 [0x646574726f707865, 0x6574707972636e45, 0x7461642079654b64, 0x6572756365733a61, 0x203d207365747942, 0x646574726f707845, 0x6574707972636e45, 0x79654b64]⟩,
  -- exportedUnencryptedKey data:secureBytes = ExportedUnencryptedKey
  ⟨1370, 1371, 0x2b839ae8, [⟨16, none, false, .bare 1333⟩], unpackLE 64 [0x646574726f707865, 0x707972636e656e55, 0x642079654b646574, 0x756365733a617461, 0x2073657479426572, 0x74726f707845203d, 0x72636e656e556465, 0x79654b6465747079]⟩,
  -- bip39Hints words:vector<string> = Bip39Hints
  ⟨1372, 1373, 0xe8942f50, [⟨1374, none, false, .unsup⟩], unpackLE 44 [0x6e69483933706962, 0x7364726f77207374, 0x3c726f746365763a, 0x203e676e69727473, 0x483933706942203d, 0x73746e69]⟩,
  -- adnlAddress adnl_address:string = AdnlAddress
  ⟨1375, 1376, 0x0431950c, [⟨1377, none, false, .string⟩], unpackLE 45 [0x726464416c6e6461, 0x6c6e646120737365, 0x737365726464615f, 0x20676e697274733a, 0x64416c6e6441203d, 0x7373657264]⟩,
  -- accountAddress account_address:string = AccountAddress
  ⟨1378, 1379, 0x2d09bdab, [⟨1311, none, false, .string⟩], unpackLE 54 [0x41746e756f636361, 0x6120737365726464, 0x615f746e756f6363, 0x733a737365726464, 0x203d20676e697274, 0x41746e756f636341, 0x737365726464]⟩,
  -- unpackedAccountAddress workchain_id:int32 bounceable:Bool testnet:Bool addr:bytes = UnpackedAccountAddress
  ⟨1380, 1381, 0x70d41436, [⟨1382, none, false, .bare 1325⟩, ⟨1383, none, false, .bool⟩, ⟨1384, none, false, .bool⟩, ⟨1106, none, false, .bytes⟩], unpackLE 106 [0x64656b6361706e75, 0x41746e756f636341, 0x7720737365726464, 0x6e696168636b726f, 0x33746e693a64695f, 0x65636e756f622032, 0x6f6f423a656c6261, 0x656e74736574206c, 0x61206c6f6f423a74, 0x657479623a726464, 0x61706e55203d2073, 0x6f63634164656b63, 0x6572646441746e75, 0x7373]⟩,
  -- internal.transactionId lt:int64 hash:bytes = internal.TransactionId
  ⟨1385, 1386, 0xc5050322, [⟨109, none, false, .bare 1329⟩, ⟨55, none, false, .bytes⟩], unpackLE 67 [0x6c616e7265746e69, 0x6361736e6172742e, 0x6c2064496e6f6974, 0x203436746e693a74, 0x7479623a68736168, 0x746e69203d207365, 0x72542e6c616e7265, 0x6f69746361736e61, 0x64496e]⟩,
  -- ton.blockId workchain:int32 shard:int64 seqno:int32 = internal.BlockId
  ⟨655, 1387, 0xb9587fa2, [⟨31, none, false, .bare 1325⟩, ⟨32, none, false, .bare 1329⟩, ⟨33, none, false, .bare 1325⟩], unpackLE 70 [0x636f6c622e6e6f74, 0x6b726f772064496b, 0x6e693a6e69616863, 0x7261687320323374, 0x203436746e693a64, 0x6e693a6f6e716573, 0x6e69203d20323374, 0x422e6c616e726574, 0x64496b636f6c]⟩,
  -- ton.blockIdExt workchain:int32 shard:int64 seqno:int32 root_hash:bytes file_hash:bytes = ton.BlockIdExt
  ⟨1388, 1389, 0x7910fc9a, [⟨31, none, false, .bare 1325⟩, ⟨32, none, false, .bare 1329⟩, ⟨33, none, false, .bare 1325⟩, ⟨36, none, false, .bytes⟩, ⟨37, none, false, .bytes⟩], unpackLE 103 [0x636f6c622e6e6f74, 0x772074784564496b, 0x6e696168636b726f, 0x73203233746e693a, 0x746e693a64726168, 0x6f6e716573203436, 0x72203233746e693a, 0x687361685f746f6f, 0x662073657479623a, 0x687361685f656c69, 0x3d2073657479623a, 0x6f6c422e6e6f7420, 0x74784564496b63]⟩
]

def chunk16 : List Ctor := [
  -- raw.fullAccountState balance:int64 code:bytes data:bytes last_transaction_id:internal.transactionId block_id:ton.blockIdExt frozen_hash:bytes sync_utime:int53 = raw.FullAccountState
  ⟨1390, 1391, 0xa8a7cb8f, [⟨1276, none, false, .bare 1329⟩, ⟨48, none, false, .bytes⟩, ⟨16, none, false, .bytes⟩, ⟨1392, none, false, .bare 1385⟩, ⟨175, none, false, .bare 1388⟩, ⟨1393, none, false, .bytes⟩, ⟨1394, none, false, .bare 1327⟩], unpackLE 181 [0x6c6c75662e776172, 0x53746e756f636341, 0x6c61622065746174, 0x746e693a65636e61, 0x3a65646f63203436, 0x6164207365747962, 0x73657479623a6174, 0x72745f7473616c20, 0x6f69746361736e61, 0x746e693a64695f6e, 0x72742e6c616e7265, 0x6f69746361736e61, 0x636f6c622064496e, 0x6e6f743a64695f6b, 0x64496b636f6c622e, 0x7a6f726620747845, 0x3a687361685f6e65, 0x7973207365747962, 0x656d6974755f636e, 0x3d203335746e693a, 0x6c75462e77617220, 0x746e756f6363416c, 0x6574617453]⟩,
  -- raw.message source:accountAddress destination:accountAddress value:int64 fwd_fee:int64 ihr_fee:int64 created_lt:int64 body_hash:bytes msg_data:msg.Data = raw.Message
  ⟨1395, 1396, 0x518b724f, [⟨739, none, false, .bare 1378⟩, ⟨1397, none, false, .bare 1378⟩, ⟨172, none, false, .bare 1329⟩, ⟨1398, none, false, .bare 1329⟩, ⟨1399, none, false, .bare 1329⟩, ⟨1400, none, false, .bare 1329⟩, ⟨1401, none, false, .bytes⟩, ⟨1402, none, false, .boxed 1479⟩], unpackLE 165 [0x7373656d2e776172, 0x72756f7320656761, 0x756f6363613a6563, 0x736572646441746e, 0x6e69747365642073, 0x63613a6e6f697461, 0x646441746e756f63, 0x6c61762073736572, 0x3436746e693a6575, 0x6565665f64776620, 0x69203436746e693a, 0x693a6565665f7268, 0x657263203436746e, 0x3a746c5f64657461, 0x6f62203436746e69, 0x3a687361685f7964, 0x736d207365747962, 0x6d3a617461645f67, 0x20617461442e6773, 0x654d2e776172203d, 0x6567617373]⟩,
  -- raw.transaction address:accountAddress utime:int53 data:bytes transaction_id:internal.transactionId fee:int64 storage_fee:int64 other_fee:int64 in_msg:raw.message out_msgs:vector<raw.message> = raw.Transaction
  ⟨1403, 1404, 0x80d19507, [⟨318, none, false, .bare 1378⟩, ⟨216, none, false, .bare 1327⟩, ⟨16, none, false, .bytes⟩, ⟨1405, none, false, .bare 1385⟩, ⟨1406, none, false, .bare 1329⟩, ⟨1407, none, false, .bare 1329⟩, ⟨1408, none, false, .bare 1329⟩, ⟨1409, none, false, .bare 1395⟩, ⟨1410, none, false, .unsup⟩], unpackLE 209 [0x6e6172742e776172, 0x206e6f6974636173, 0x3a73736572646461, 0x41746e756f636361, 0x7520737365726464, 0x746e693a656d6974, 0x3a61746164203335, 0x7274207365747962, 0x6f69746361736e61, 0x746e693a64695f6e, 0x72742e6c616e7265, 0x6f69746361736e61, 0x3a6565662064496e, 0x7473203436746e69, 0x65665f656761726f, 0x203436746e693a65, 0x65665f726568746f, 0x203436746e693a65, 0x723a67736d5f6e69, 0x617373656d2e7761, 0x6d5f74756f206567, 0x746365763a736773, 0x6d2e7761723c726f, 0x203e656761737365, 0x72542e776172203d, 0x6f69746361736e61, 0x6e]⟩,
  -- raw.transactions transactions:vector<raw.transaction> previous_transaction_id:internal.transactionId = raw.Transactions
  ⟨1411, 1412, 0xb3484c21, [⟨105, none, false, .unsup⟩, ⟨1413, none, false, .bare 1385⟩], unpackLE 119 [0x6e6172742e776172, 0x736e6f6974636173, 0x6361736e61727420, 0x65763a736e6f6974, 0x7761723c726f7463, 0x6361736e6172742e, 0x7270203e6e6f6974, 0x745f73756f697665, 0x69746361736e6172, 0x6e693a64695f6e6f, 0x742e6c616e726574, 0x69746361736e6172, 0x72203d2064496e6f, 0x736e6172542e7761, 0x736e6f69746361]⟩,
  -- raw.extMessageInfo hash:bytes = raw.ExtMessageInfo
  ⟨1414, 1415, 0x34197fae, [⟨55, none, false, .bytes⟩], unpackLE 50 [0x4d7478652e776172, 0x6e49656761737365, 0x3a68736168206f66, 0x203d207365747962, 0x4d7478452e776172, 0x6e49656761737365, 0x6f66]⟩,
  -- pchan.config alice_public_key:string alice_address:accountAddress bob_public_key:string bob_address:accountAddress init_timeout:int32 close_timeout:int32 channel_id:int64 = pchan.Config
  ⟨1416, 1417, 0x8486f436, [⟨1418, none, false, .string⟩, ⟨1419, none, false, .bare 1378⟩, ⟨1420, none, false, .string⟩, ⟨1421, none, false, .bare 1378⟩, ⟨1422, none, false, .bare 1325⟩, ⟨1423, none, false, .bare 1325⟩, ⟨1424, none, false, .bare 1329⟩], unpackLE 185 [0x6f632e6e61686370, 0x696c61206769666e, 0x696c6275705f6563, 0x74733a79656b5f63, 0x696c6120676e6972, 0x65726464615f6563, 0x756f6363613a7373, 0x736572646441746e, 0x75705f626f622073, 0x79656b5f63696c62, 0x20676e697274733a, 0x726464615f626f62, 0x6f6363613a737365, 0x6572646441746e75, 0x5f74696e69207373, 0x3a74756f656d6974, 0x6c63203233746e69, 0x656d69745f65736f, 0x33746e693a74756f, 0x656e6e6168632032, 0x746e693a64695f6c, 0x686370203d203436, 0x69666e6f432e6e61, 0x67]⟩,
  -- raw.initialAccountState code:bytes data:bytes = InitialAccountState
  ⟨1425, 1426, 0xebdb5c47, [⟨48, none, false, .bytes⟩, ⟨16, none, false, .bytes⟩], unpackLE 67 [0x74696e692e776172, 0x756f6363416c6169, 0x206574617453746e, 0x7479623a65646f63, 0x3a61746164207365, 0x203d207365747962, 0x416c616974696e49, 0x7453746e756f6363, 0x657461]⟩,
  -- wallet.v3.initialAccountState public_key:string wallet_id:int64 = InitialAccountState
  ⟨1427, 1426, 0xf8f65540, [⟨1356, none, false, .string⟩, ⟨1428, none, false, .bare 1329⟩], unpackLE 85 [0x762e74656c6c6177, 0x616974696e692e33, 0x746e756f6363416c, 0x7570206574617453, 0x79656b5f63696c62, 0x20676e697274733a, 0x695f74656c6c6177, 0x203436746e693a64, 0x616974696e49203d, 0x746e756f6363416c, 0x6574617453]⟩,
  -- wallet.highload.v1.initialAccountState public_key:string wallet_id:int64 = InitialAccountState
  ⟨1429, 1426, 0xec749e46, [⟨1356, none, false, .string⟩, ⟨1428, none, false, .bare 1329⟩], unpackLE 94 [0x682e74656c6c6177, 0x2e64616f6c686769, 0x6974696e692e3176, 0x6e756f6363416c61, 0x7020657461745374, 0x656b5f63696c6275, 0x676e697274733a79, 0x5f74656c6c617720, 0x3436746e693a6469, 0x6974696e49203d20, 0x6e756f6363416c61, 0x657461745374]⟩,
  -- wallet.highload.v2.initialAccountState public_key:string wallet_id:int64 = InitialAccountState
  ⟨1430, 1426, 0x75347929, [⟨1356, none, false, .string⟩, ⟨1428, none, false, .bare 1329⟩], unpackLE 94 [0x682e74656c6c6177, 0x2e64616f6c686769, 0x6974696e692e3276, 0x6e756f6363416c61, 0x7020657461745374, 0x656b5f63696c6275, 0x676e697274733a79, 0x5f74656c6c617720, 0x3436746e693a6469, 0x6974696e49203d20, 0x6e756f6363416c61, 0x657461745374]⟩,
  -- rwallet.limit seconds:int32 value:int64 = rwallet.Limit
  ⟨1431, 1432, 0x48def67e, [⟨1433, none, false, .bare 1325⟩, ⟨172, none, false, .bare 1329⟩], unpackLE 55 [0x2e74656c6c617772, 0x65732074696d696c, 0x6e693a73646e6f63, 0x756c617620323374, 0x203436746e693a65, 0x656c6c617772203d, 0x74696d694c2e74]⟩,
  -- rwallet.config start_at:int53 limits:vector<rwallet.limit> = rwallet.Config
  ⟨1434, 1435, 0x1f829c53, [⟨1436, none, false, .bare 1327⟩, ⟨1437, none, false, .unsup⟩], unpackLE 75 [0x2e74656c6c617772, 0x73206769666e6f63, 0x3a74615f74726174, 0x696c203335746e69, 0x6365763a7374696d, 0x6c6177723c726f74, 0x696d696c2e74656c, 0x617772203d203e74, 0x6e6f432e74656c6c, 0x676966]⟩,
  -- rwallet.initialAccountState init_public_key:string public_key:string wallet_id:int64 = InitialAccountState
  ⟨1438, 1426, 0x45b90c14, [⟨1439, none, false, .string⟩, ⟨1356, none, false, .string⟩, ⟨1428, none, false, .bare 1329⟩], unpackLE 106 [0x2e74656c6c617772, 0x416c616974696e69, 0x7453746e756f6363, 0x74696e6920657461, 0x5f63696c6275705f, 0x697274733a79656b, 0x696c62757020676e, 0x74733a79656b5f63, 0x6c617720676e6972, 0x693a64695f74656c, 0x49203d203436746e, 0x63416c616974696e, 0x617453746e756f63, 0x6574]⟩,
  -- dns.initialAccountState public_key:string wallet_id:int64 = InitialAccountState
  ⟨1440, 1426, 0x6dcba4bf, [⟨1356, none, false, .string⟩, ⟨1428, none, false, .bare 1329⟩], unpackLE 79 [0x74696e692e736e64, 0x756f6363416c6169, 0x206574617453746e, 0x6b5f63696c627570, 0x6e697274733a7965, 0x74656c6c61772067, 0x36746e693a64695f, 0x74696e49203d2034, 0x756f6363416c6169, 0x6574617453746e]⟩,
  -- pchan.initialAccountState config:pchan.config = InitialAccountState
  ⟨1441, 1426, 0xb23e1d44, [⟨1277, none, false, .bare 1416⟩], unpackLE 67 [0x6e692e6e61686370, 0x6363416c61697469, 0x74617453746e756f, 0x6769666e6f632065, 0x632e6e616863703a, 0x203d206769666e6f, 0x416c616974696e49, 0x7453746e756f6363, 0x657461]⟩,
  -- raw.accountState code:bytes data:bytes frozen_hash:bytes = AccountState
  ⟨1442, 1443, 0xe04b963a, [⟨48, none, false, .bytes⟩, ⟨16, none, false, .bytes⟩, ⟨1393, none, false, .bytes⟩], unpackLE 71 [0x6f6363612e776172, 0x6574617453746e75, 0x79623a65646f6320, 0x6174616420736574, 0x662073657479623a, 0x61685f6e657a6f72, 0x73657479623a6873, 0x756f636341203d20, 0x6574617453746e]⟩,
  -- wallet.v3.accountState wallet_id:int64 seqno:int32 = AccountState
  ⟨1444, 1443, 0x9f7aa84a, [⟨1428, none, false, .bare 1329⟩, ⟨33, none, false, .bare 1325⟩], unpackLE 65 [0x762e74656c6c6177, 0x6e756f6363612e33, 0x7720657461745374, 0x64695f74656c6c61, 0x73203436746e693a, 0x746e693a6f6e7165, 0x636341203d203233, 0x74617453746e756f, 0x65]⟩,
  -- wallet.highload.v1.accountState wallet_id:int64 seqno:int32 = AccountState
  ⟨1445, 1443, 0x6057e4dc, [⟨1428, none, false, .bare 1329⟩, ⟨33, none, false, .bare 1325⟩], unpackLE 74 [0x682e74656c6c6177, 0x2e64616f6c686769, 0x756f6363612e3176, 0x206574617453746e, 0x695f74656c6c6177, 0x203436746e693a64, 0x6e693a6f6e716573, 0x6341203d20323374, 0x617453746e756f63, 0x6574]⟩,
  -- wallet.highload.v2.accountState wallet_id:int64 = AccountState
  ⟨1446, 1443, 0x947d5d4f, [⟨1428, none, false, .bare 1329⟩], unpackLE 62 [0x682e74656c6c6177, 0x2e64616f6c686769, 0x756f6363612e3276, 0x206574617453746e, 0x695f74656c6c6177, 0x203436746e693a64, 0x6e756f636341203d, 0x657461745374]⟩,
  -- dns.accountState wallet_id:int64 = AccountState
  ⟨1447, 1443, 0x66fad86a, [⟨1428, none, false, .bare 1329⟩], unpackLE 47 [0x6f6363612e736e64, 0x6574617453746e75, 0x5f74656c6c617720, 0x3436746e693a6469, 0x756f636341203d20, 0x6574617453746e]⟩,
  -- rwallet.accountState wallet_id:int64 seqno:int32 unlocked_balance:int64 config:rwallet.config = AccountState
  ⟨1448, 1443, 0xd3eb83d8, [⟨1428, none, false, .bare 1329⟩, ⟨33, none, false, .bare 1325⟩, ⟨1449, none, false, .bare 1329⟩, ⟨1277, none, false, .bare 1434⟩], unpackLE 108 [0x2e74656c6c617772, 0x53746e756f636361, 0x6c61772065746174, 0x693a64695f74656c, 0x716573203436746e, 0x3233746e693a6f6e, 0x656b636f6c6e7520, 0x636e616c61625f64, 0x203436746e693a65, 0x723a6769666e6f63, 0x632e74656c6c6177, 0x203d206769666e6f, 0x53746e756f636341, 0x65746174]⟩,
  -- pchan.stateInit signed_A:Bool signed_B:Bool min_A:int64 min_B:int64 expire_at:int53 A:int64 B:int64 = pchan.State
  ⟨1450, 1451, 0xb92a0cf8, [⟨1452, none, false, .bool⟩, ⟨1453, none, false, .bool⟩, ⟨1454, none, false, .bare 1329⟩, ⟨1455, none, false, .bare 1329⟩, ⟨306, none, false, .bare 1327⟩, ⟨1456, none, false, .bare 1329⟩, ⟨1457, none, false, .bare 1329⟩], unpackLE 113 [0x74732e6e61686370, 0x2074696e49657461, 0x415f64656e676973, 0x6973206c6f6f423a, 0x423a425f64656e67, 0x5f6e696d206c6f6f, 0x203436746e693a41, 0x6e693a425f6e696d, 0x6970786520343674, 0x6e693a74615f6572, 0x6e693a4120333574, 0x6e693a4220343674, 0x6370203d20343674, 0x746174532e6e6168, 0x65]⟩,
  -- pchan.stateClose signed_A:Bool signed_B:Bool min_A:int64 min_B:int64 expire_at:int53 A:int64 B:int64 = pchan.State
  ⟨1458, 1451, 0x34e201f3, [⟨1452, none, false, .bool⟩, ⟨1453, none, false, .bool⟩, ⟨1454, none, false, .bare 1329⟩, ⟨1455, none, false, .bare 1329⟩, ⟨306, none, false, .bare 1327⟩, ⟨1456, none, false, .bare 1329⟩, ⟨1457, none, false, .bare 1329⟩], unpackLE 114 [0x74732e6e61686370, 0x65736f6c43657461, 0x5f64656e67697320, 0x73206c6f6f423a41, 0x3a425f64656e6769, 0x6e696d206c6f6f42, 0x3436746e693a415f, 0x693a425f6e696d20, 0x707865203436746e, 0x693a74615f657269, 0x693a41203335746e, 0x693a42203436746e, 0x70203d203436746e, 0x6174532e6e616863, 0x6574]⟩,
  -- pchan.statePayout A:int64 B:int64 = pchan.State
  ⟨1459, 1451, 0x279e1447, [⟨1456, none, false, .bare 1329⟩, ⟨1457, none, false, .bare 1329⟩], unpackLE 47 [0x74732e6e61686370, 0x756f796150657461, 0x36746e693a412074, 0x36746e693a422034, 0x61686370203d2034, 0x65746174532e6e]⟩,
  -- pchan.accountState config:pchan.config state:pchan.State description:string = AccountState
  ⟨1460, 1443, 0x60226f78, [⟨1277, none, false, .bare 1416⟩, ⟨86, none, false, .boxed 1451⟩, ⟨1216, none, false, .string⟩], unpackLE 90 [0x63612e6e61686370, 0x617453746e756f63, 0x69666e6f63206574, 0x2e6e616863703a67, 0x73206769666e6f63, 0x6863703a65746174, 0x65746174532e6e61, 0x7069726373656420, 0x7274733a6e6f6974, 0x6341203d20676e69, 0x617453746e756f63, 0x6574]⟩,
  -- uninited.accountState frozen_hash:bytes = AccountState
  ⟨1461, 1443, 0x5abd9708, [⟨1393, none, false, .bytes⟩], unpackLE 54 [0x646574696e696e75, 0x746e756f6363612e, 0x7266206574617453, 0x7361685f6e657a6f, 0x2073657479623a68, 0x6e756f636341203d, 0x657461745374]⟩,
  -- fullAccountState address:accountAddress balance:int64 last_transaction_id:internal.transactionId block_id:ton.blockIdExt sync_utime:int53 account_state:AccountState revision:int32 = FullAccountState
  ⟨1462, 1463, 0x56d23a49, [⟨318, none, false, .bare 1378⟩, ⟨1276, none, false, .bare 1329⟩, ⟨1392, none, false, .bare 1385⟩, ⟨175, none, false, .bare 1388⟩, ⟨1394, none, false, .bare 1327⟩, ⟨1464, none, false, .boxed 1443⟩, ⟨1465, none, false, .bare 1325⟩], unpackLE 198 [0x6f6363416c6c7566, 0x6574617453746e75, 0x7373657264646120, 0x746e756f6363613a, 0x2073736572646441, 0x3a65636e616c6162, 0x616c203436746e69, 0x736e6172745f7473, 0x695f6e6f69746361, 0x6e7265746e693a64, 0x736e6172742e6c61, 0x64496e6f69746361, 0x695f6b636f6c6220, 0x6c622e6e6f743a64, 0x74784564496b636f, 0x74755f636e797320, 0x35746e693a656d69, 0x6e756f6363612033, 0x3a65746174735f74, 0x53746e756f636341, 0x7665722065746174, 0x6e693a6e6f697369, 0x7546203d20323374, 0x6e756f6363416c6c, 0x657461745374]⟩,
  -- accountRevisionList revisions:vector<fullAccountState> = AccountRevisionList
  ⟨1466, 1467, 0xd98b471f, [⟨1468, none, false, .unsup⟩], unpackLE 76 [0x52746e756f636361, 0x4c6e6f6973697665, 0x6976657220747369, 0x65763a736e6f6973, 0x6c75663c726f7463, 0x746e756f6363416c, 0x3d203e6574617453, 0x746e756f63634120, 0x6e6f697369766552, 0x7473694c]⟩,
  -- accountList accounts:vector<fullAccountState> = AccountList
  ⟨1469, 1470, 0x6337b13a, [⟨1471, none, false, .unsup⟩], unpackLE 59 [0x4c746e756f636361, 0x6f63636120747369, 0x6365763a73746e75, 0x6c6c75663c726f74, 0x53746e756f636341, 0x203d203e65746174, 0x4c746e756f636341, 0x747369]⟩,
  -- syncStateDone = SyncState
  ⟨1472, 1473, 0x53f33909, [], unpackLE 25 [0x74617453636e7973, 0x203d20656e6f4465, 0x74617453636e7953, 0x65]⟩,
  -- syncStateInProgress from_seqno:int32 to_seqno:int32 current_seqno:int32 = SyncState
  ⟨1474, 1473, 0x066bc4c7, [⟨1475, none, false, .bare 1325⟩, ⟨1476, none, false, .bare 1325⟩, ⟨1477, none, false, .bare 1325⟩], unpackLE 83 [0x74617453636e7973, 0x72676f72506e4965, 0x6d6f726620737365, 0x693a6f6e7165735f, 0x5f6f74203233746e, 0x6e693a6f6e716573, 0x7272756320323374, 0x6e7165735f746e65, 0x203233746e693a6f, 0x7453636e7953203d, 0x657461]⟩,
  -- msg.dataRaw body:bytes init_state:bytes = msg.Data
  ⟨1478, 1479, 0x8d065d76, [⟨204, none, false, .bytes⟩, ⟨1480, none, false, .bytes⟩], unpackLE 50 [0x617461642e67736d, 0x79646f6220776152, 0x692073657479623a, 0x746174735f74696e, 0x2073657479623a65, 0x61442e67736d203d, 0x6174]⟩,
  -- msg.dataText text:bytes = msg.Data
  ⟨1481, 1479, 0xeba43290, [⟨1482, none, false, .bytes⟩], unpackLE 34 [0x617461642e67736d, 0x7865742074786554, 0x2073657479623a74, 0x61442e67736d203d, 0x6174]⟩,
  -- msg.dataDecryptedText text:bytes = msg.Data
  ⟨1483, 1479, 0xb32960b9, [⟨1482, none, false, .bytes⟩], unpackLE 43 [0x617461642e67736d, 0x6574707972636544, 0x6574207478655464, 0x73657479623a7478, 0x442e67736d203d20, 0x617461]⟩,
  -- msg.dataEncryptedText text:bytes = msg.Data
  ⟨1484, 1479, 0xee520bda, [⟨1482, none, false, .bytes⟩], unpackLE 43 [0x617461642e67736d, 0x6574707972636e45, 0x6574207478655464, 0x73657479623a7478, 0x442e67736d203d20, 0x617461]⟩,
  -- msg.dataEncrypted source:accountAddress data:msg.Data = msg.DataEncrypted
  ⟨1485, 1486, 0x21a13d51, [⟨739, none, false, .bare 1378⟩, ⟨16, none, false, .boxed 1479⟩], unpackLE 73 [0x617461642e67736d, 0x6574707972636e45, 0x656372756f732064, 0x746e756f6363613a, 0x2073736572646441, 0x67736d3a61746164, 0x203d20617461442e, 0x617461442e67736d, 0x6574707972636e45, 0x64]⟩,
  -- msg.dataDecrypted proof:bytes data:msg.Data = msg.DataDecrypted
  ⟨1487, 1488, 0x0ba960e9, [⟨85, none, false, .bytes⟩, ⟨16, none, false, .boxed 1479⟩], unpackLE 63 [0x617461642e67736d, 0x6574707972636544, 0x3a666f6f72702064, 0x6164207365747962, 0x442e67736d3a6174, 0x736d203d20617461, 0x6544617461442e67, 0x64657470797263]⟩,
  -- msg.dataEncryptedArray elements:vector<msg.dataEncrypted> = msg.DataEncryptedArray
  ⟨1489, 1490, 0xcd6f19b2, [⟨1491, none, false, .unsup⟩], unpackLE 82 [0x617461642e67736d, 0x6574707972636e45, 0x6520796172724164, 0x3a73746e656d656c, 0x6d3c726f74636576, 0x45617461642e6773, 0x646574707972636e, 0x2e67736d203d203e, 0x72636e4561746144, 0x7272416465747079, 0x7961]⟩,
  -- msg.dataDecryptedArray elements:vector<msg.dataDecrypted> = msg.DataDecryptedArray
  ⟨1492, 1493, 0x1d1ed678, [⟨1491, none, false, .unsup⟩], unpackLE 82 [0x617461642e67736d, 0x6574707972636544, 0x6520796172724164, 0x3a73746e656d656c, 0x6d3c726f74636576, 0x44617461642e6773, 0x6465747079726365, 0x2e67736d203d203e, 0x7263654461746144, 0x7272416465747079, 0x7961]⟩,
  -- msg.message destination:accountAddress public_key:string amount:int64 data:msg.Data send_mode:int32 = msg.Message
  ⟨1494, 1495, 0x3027b074, [⟨1397, none, false, .bare 1378⟩, ⟨1356, none, false, .string⟩, ⟨1322, none, false, .bare 1329⟩, ⟨16, none, false, .boxed 1479⟩, ⟨1496, none, false, .bare 1325⟩], unpackLE 113 [0x7373656d2e67736d, 0x7473656420656761, 0x3a6e6f6974616e69, 0x41746e756f636361, 0x7020737365726464, 0x656b5f63696c6275, 0x676e697274733a79, 0x3a746e756f6d6120, 0x6164203436746e69, 0x442e67736d3a6174, 0x646e657320617461, 0x6e693a65646f6d5f, 0x736d203d20323374, 0x67617373654d2e67, 0x65]⟩
]

def chunk17 : List Ctor := [
  -- dns.entryDataUnknown bytes:bytes = dns.EntryData
  ⟨1497, 1498, 0xb35ad380, [⟨14, none, false, .bytes⟩], unpackLE 48 [0x72746e652e736e64, 0x6b6e556174614479, 0x747962206e776f6e, 0x73657479623a7365, 0x452e736e64203d20, 0x617461447972746e]⟩,
  -- dns.entryDataText text:string = dns.EntryData
  ⟨1499, 1498, 0xd0c3a112, [⟨1482, none, false, .string⟩], unpackLE 45 [0x72746e652e736e64, 0x7865546174614479, 0x733a747865742074, 0x203d20676e697274, 0x72746e452e736e64, 0x6174614479]⟩,
  -- dns.entryDataNextResolver resolver:AccountAddress = dns.EntryData
  ⟨1500, 1498, 0x13b13dc8, [⟨1501, none, false, .boxed 1379⟩], unpackLE 65 [0x72746e652e736e64, 0x78654e6174614479, 0x65766c6f73655274, 0x766c6f7365722072, 0x756f6363413a7265, 0x736572646441746e, 0x2e736e64203d2073, 0x7461447972746e45, 0x61]⟩,
  -- dns.entryDataSmcAddress smc_address:AccountAddress = dns.EntryData
  ⟨1502, 1498, 0x97197a42, [⟨1503, none, false, .boxed 1379⟩], unpackLE 66 [0x72746e652e736e64, 0x636d536174614479, 0x2073736572646441, 0x726464615f636d73, 0x6f6363413a737365, 0x6572646441746e75, 0x736e64203d207373, 0x61447972746e452e, 0x6174]⟩,
  -- dns.entryDataAdnlAddress adnl_address:AdnlAddress = dns.EntryData
  ⟨1504, 1498, 0xbd98ba10, [⟨1377, none, false, .boxed 1376⟩], unpackLE 65 [0x72746e652e736e64, 0x6e64416174614479, 0x737365726464416c, 0x64615f6c6e646120, 0x64413a7373657264, 0x7365726464416c6e, 0x2e736e64203d2073, 0x7461447972746e45, 0x61]⟩,
  -- dns.entryDataStorageAddress bag_id:int256 = dns.EntryData
  ⟨1505, 1498, 0x97a0541c, [⟨1506, none, false, .int256⟩], unpackLE 57 [0x72746e652e736e64, 0x6f74536174614479, 0x7264644165676172, 0x5f67616220737365, 0x3532746e693a6469, 0x2e736e64203d2036, 0x7461447972746e45, 0x61]⟩,
  -- dns.entry name:string category:int256 entry:dns.EntryData = dns.Entry
  ⟨1507, 1508, 0x1e1b47a6, [⟨275, none, false, .string⟩, ⟨877, none, false, .int256⟩, ⟨1509, none, false, .boxed 1498⟩], unpackLE 69 [0x72746e652e736e64, 0x733a656d616e2079, 0x616320676e697274, 0x693a79726f676574, 0x6e6520363532746e, 0x2e736e643a797274, 0x7461447972746e45, 0x2e736e64203d2061, 0x7972746e45]⟩,
  -- dns.actionDeleteAll = dns.Action
  ⟨1510, 1511, 0x3f9e909e, [], unpackLE 32 [0x697463612e736e64, 0x6574656c65446e6f, 0x6e64203d206c6c41, 0x6e6f697463412e73]⟩,
  -- dns.actionDelete name:string category:int256 = dns.Action
  ⟨1512, 1511, 0x44077f51, [⟨275, none, false, .string⟩, ⟨877, none, false, .int256⟩], unpackLE 57 [0x697463612e736e64, 0x6574656c65446e6f, 0x74733a656d616e20, 0x74616320676e6972, 0x6e693a79726f6765, 0x64203d2036353274, 0x6f697463412e736e, 0x6e]⟩,
  -- dns.actionSet entry:dns.entry = dns.Action
  ⟨1513, 1511, 0xae0bb1c3, [⟨1509, none, false, .bare 1507⟩], unpackLE 42 [0x697463612e736e64, 0x6e65207465536e6f, 0x2e736e643a797274, 0x203d207972746e65, 0x697463412e736e64, 0x6e6f]⟩,
  -- dns.resolved entries:vector<dns.entry> = dns.Resolved
  ⟨1514, 1515, 0xd3d21579, [⟨1516, none, false, .unsup⟩], unpackLE 53 [0x6f7365722e736e64, 0x746e65206465766c, 0x6365763a73656972, 0x2e736e643c726f74, 0x3d203e7972746e65, 0x7365522e736e6420, 0x6465766c6f]⟩,
  -- pchan.promise signature:bytes promise_A:int64 promise_B:int64 channel_id:int64 = pchan.Promise
  ⟨1517, 1518, 0xa20e945d, [⟨121, none, false, .bytes⟩, ⟨1519, none, false, .bare 1329⟩, ⟨1520, none, false, .bare 1329⟩, ⟨1424, none, false, .bare 1329⟩], unpackLE 94 [0x72702e6e61686370, 0x6973206573696d6f, 0x3a65727574616e67, 0x7270207365747962, 0x3a415f6573696d6f, 0x7270203436746e69, 0x3a425f6573696d6f, 0x6863203436746e69, 0x64695f6c656e6e61, 0x3d203436746e693a, 0x502e6e6168637020, 0x6573696d6f72]⟩,
  -- pchan.actionInit inc_A:int64 inc_B:int64 min_A:int64 min_B:int64 = pchan.Action
  ⟨1521, 1522, 0x1a2bf68a, [⟨1523, none, false, .bare 1329⟩, ⟨1524, none, false, .bare 1329⟩, ⟨1454, none, false, .bare 1329⟩, ⟨1455, none, false, .bare 1329⟩], unpackLE 79 [0x63612e6e61686370, 0x74696e496e6f6974, 0x693a415f636e6920, 0x636e69203436746e, 0x3436746e693a425f, 0x693a415f6e696d20, 0x6e696d203436746e, 0x3436746e693a425f, 0x6e61686370203d20, 0x6e6f697463412e]⟩,
  -- pchan.actionClose extra_A:int64 extra_B:int64 promise:pchan.promise = pchan.Action
  ⟨1525, 1522, 0x639c4b16, [⟨1526, none, false, .bare 1329⟩, ⟨1527, none, false, .bare 1329⟩, ⟨1528, none, false, .bare 1517⟩], unpackLE 82 [0x63612e6e61686370, 0x736f6c436e6f6974, 0x5f61727478652065, 0x203436746e693a41, 0x3a425f6172747865, 0x7270203436746e69, 0x63703a6573696d6f, 0x6d6f72702e6e6168, 0x6370203d20657369, 0x697463412e6e6168, 0x6e6f]⟩,
  -- pchan.actionTimeout = pchan.Action
  ⟨1529, 1522, 0x771e80f3, [], unpackLE 34 [0x63612e6e61686370, 0x656d69546e6f6974, 0x6370203d2074756f, 0x697463412e6e6168, 0x6e6f]⟩,
  -- rwallet.actionInit config:rwallet.config = rwallet.Action
  ⟨1530, 1531, 0x2533bd6b, [⟨1277, none, false, .bare 1434⟩], unpackLE 57 [0x2e74656c6c617772, 0x6e496e6f69746361, 0x69666e6f63207469, 0x656c6c6177723a67, 0x6769666e6f632e74, 0x6c6c617772203d20, 0x6f697463412e7465, 0x6e]⟩,
  -- actionNoop = Action
  ⟨1532, 1533, 0x43b3ac9b, [], unpackLE 19 [0x6f4e6e6f69746361, 0x746341203d20706f, 0x6e6f69]⟩,
  -- actionMsg messages:vector<msg.message> allow_send_to_uninited:Bool = Action
  ⟨1534, 1533, 0xe4ecfe85, [⟨317, none, false, .unsup⟩, ⟨1535, none, false, .bool⟩], unpackLE 75 [0x734d6e6f69746361, 0x67617373656d2067, 0x6f746365763a7365, 0x656d2e67736d3c72, 0x61203e6567617373, 0x6e65735f776f6c6c, 0x696e755f6f745f64, 0x6f423a646574696e, 0x746341203d206c6f, 0x6e6f69]⟩,
  -- actionDns actions:vector<dns.Action> = Action
  ⟨1536, 1533, 0xc11fd155, [⟨543, none, false, .unsup⟩], unpackLE 45 [0x6e446e6f69746361, 0x6e6f697463612073, 0x726f746365763a73, 0x7463412e736e643c, 0x41203d203e6e6f69, 0x6e6f697463]⟩,
  -- actionPchan action:pchan.Action = Action
  ⟨1537, 1533, 0xa72dc5e1, [⟨1538, none, false, .boxed 1522⟩], unpackLE 40 [0x63506e6f69746361, 0x69746361206e6168, 0x6e616863703a6e6f, 0x206e6f697463412e, 0x6e6f69746341203d]⟩,
  -- actionRwallet action:rwallet.actionInit = Action
  ⟨1539, 1533, 0xf90237c5, [⟨1538, none, false, .bare 1530⟩], unpackLE 48 [0x77526e6f69746361, 0x63612074656c6c61, 0x6177723a6e6f6974, 0x7463612e74656c6c, 0x2074696e496e6f69, 0x6e6f69746341203d]⟩,
  -- fees in_fwd_fee:int53 storage_fee:int53 gas_fee:int53 fwd_fee:int53 = Fees
  ⟨1540, 1541, 0x63e9e6bc, [⟨1542, none, false, .bare 1327⟩, ⟨1407, none, false, .bare 1327⟩, ⟨1543, none, false, .bare 1327⟩, ⟨1398, none, false, .bare 1327⟩], unpackLE 74 [0x5f6e692073656566, 0x3a6565665f647766, 0x7473203335746e69, 0x65665f656761726f, 0x203335746e693a65, 0x3a6565665f736167, 0x7766203335746e69, 0x6e693a6565665f64, 0x6546203d20333574, 0x7365]⟩,
  -- query.fees source_fees:fees destination_fees:vector<fees> = query.Fees
  ⟨1544, 1545, 0x763d3943, [⟨1546, none, false, .bare 1540⟩, ⟨1547, none, false, .unsup⟩], unpackLE 70 [0x65662e7972657571, 0x6372756f73207365, 0x663a736565665f65, 0x7473656420736565, 0x5f6e6f6974616e69, 0x6365763a73656566, 0x736565663c726f74, 0x72657571203d203e, 0x736565462e79]⟩,
  -- query.info id:int53 valid_until:int53 body_hash:bytes body:bytes init_state:bytes = query.Info
  ⟨1548, 1549, 0x5689dc70, [⟨52, none, false, .bare 1327⟩, ⟨1550, none, false, .bare 1327⟩, ⟨1401, none, false, .bytes⟩, ⟨204, none, false, .bytes⟩, ⟨1480, none, false, .bytes⟩], unpackLE 94 [0x6e692e7972657571, 0x6e693a6469206f66, 0x696c617620333574, 0x3a6c69746e755f64, 0x6f62203335746e69, 0x3a687361685f7964, 0x6f62207365747962, 0x73657479623a7964, 0x74735f74696e6920, 0x657479623a657461, 0x72657571203d2073, 0x6f666e492e79]⟩,
  -- tvm.slice bytes:bytes = tvm.Slice
  ⟨1551, 1552, 0x20068ae7, [⟨14, none, false, .bytes⟩], unpackLE 33 [0x63696c732e6d7674, 0x3a73657479622065, 0x203d207365747962, 0x63696c532e6d7674, 0x65]⟩,
  -- tvm.cell bytes:bytes = tvm.Cell
  ⟨1553, 1554, 0xe75ba3a1, [⟨14, none, false, .bytes⟩], unpackLE 31 [0x6c6c65632e6d7674, 0x623a736574796220, 0x74203d2073657479, 0x6c6c65432e6d76]⟩,
  -- tvm.numberDecimal number:string = tvm.Number
  ⟨1555, 1556, 0x45e296b3, [⟨1557, none, false, .string⟩], unpackLE 44 [0x626d756e2e6d7674, 0x616d696365447265, 0x7265626d756e206c, 0x20676e697274733a, 0x754e2e6d7674203d, 0x7265626d]⟩,
  -- tvm.tuple elements:vector<tvm.StackEntry> = tvm.Tuple
  ⟨1558, 1559, 0xfddf8eab, [⟨1491, none, false, .unsup⟩], unpackLE 53 [0x6c7075742e6d7674, 0x6e656d656c652065, 0x6f746365763a7374, 0x74532e6d76743c72, 0x7972746e456b6361, 0x2e6d7674203d203e, 0x656c707554]⟩,
  -- tvm.list elements:vector<tvm.StackEntry> = tvm.List
  ⟨1560, 1561, 0x8f36a24a, [⟨1491, none, false, .unsup⟩], unpackLE 51 [0x7473696c2e6d7674, 0x746e656d656c6520, 0x726f746365763a73, 0x6174532e6d76743c, 0x3e7972746e456b63, 0x4c2e6d7674203d20, 0x747369]⟩,
  -- tvm.stackEntrySlice slice:tvm.slice = tvm.StackEntry
  ⟨1562, 1563, 0x532d6b25, [⟨1564, none, false, .bare 1551⟩], unpackLE 52 [0x636174732e6d7674, 0x6c537972746e456b, 0x63696c7320656369, 0x6c732e6d76743a65, 0x7674203d20656369, 0x456b636174532e6d, 0x7972746e]⟩,
  -- tvm.stackEntryCell cell:tvm.cell = tvm.StackEntry
  ⟨1565, 1563, 0x4db16f20, [⟨1566, none, false, .bare 1553⟩], unpackLE 49 [0x636174732e6d7674, 0x65437972746e456b, 0x3a6c6c6563206c6c, 0x6c6c65632e6d7674, 0x532e6d7674203d20, 0x72746e456b636174, 0x79]⟩,
  -- tvm.stackEntryNumber number:tvm.Number = tvm.StackEntry
  ⟨1567, 1563, 0x50fb3dbe, [⟨1557, none, false, .boxed 1556⟩], unpackLE 55 [0x636174732e6d7674, 0x754e7972746e456b, 0x6d756e207265626d, 0x2e6d76743a726562, 0x3d207265626d754e, 0x6174532e6d767420, 0x7972746e456b63]⟩,
  -- tvm.stackEntryTuple tuple:tvm.Tuple = tvm.StackEntry
  ⟨1568, 1563, 0xf69e63dc, [⟨1569, none, false, .boxed 1559⟩], unpackLE 52 [0x636174732e6d7674, 0x75547972746e456b, 0x6c70757420656c70, 0x75542e6d76743a65, 0x7674203d20656c70, 0x456b636174532e6d, 0x7972746e]⟩,
  -- tvm.stackEntryList list:tvm.List = tvm.StackEntry
  ⟨1570, 1563, 0xb9442d8b, [⟨471, none, false, .boxed 1561⟩], unpackLE 49 [0x636174732e6d7674, 0x694c7972746e456b, 0x3a7473696c207473, 0x7473694c2e6d7674, 0x532e6d7674203d20, 0x72746e456b636174, 0x79]⟩,
  -- tvm.stackEntryUnsupported = tvm.StackEntry
  ⟨1571, 1563, 0x169541f2, [], unpackLE 42 [0x636174732e6d7674, 0x6e557972746e456b, 0x6574726f70707573, 0x2e6d7674203d2064, 0x746e456b63617453, 0x7972]⟩,
  -- smc.info id:int53 = smc.Info
  ⟨1572, 1573, 0x439b963c, [⟨52, none, false, .bare 1327⟩], unpackLE 28 [0x6f666e692e636d73, 0x35746e693a646920, 0x2e636d73203d2033, 0x6f666e49]⟩,
  -- smc.methodIdNumber number:int32 = smc.MethodId
  ⟨1574, 1575, 0xa423b9fc, [⟨1557, none, false, .bare 1325⟩], unpackLE 46 [0x6874656d2e636d73, 0x626d754e6449646f, 0x65626d756e207265, 0x203233746e693a72, 0x654d2e636d73203d, 0x6449646f6874]⟩,
  -- smc.methodIdName name:string = smc.MethodId
  ⟨1576, 1575, 0xf127ff94, [⟨275, none, false, .string⟩], unpackLE 43 [0x6874656d2e636d73, 0x656d614e6449646f, 0x74733a656d616e20, 0x73203d20676e6972, 0x6f6874654d2e636d, 0x644964]⟩,
  -- smc.runResult gas_used:int53 stack:vector<tvm.StackEntry> exit_code:int32 = smc.RunResult
  ⟨1577, 1578, 0xf4d155dd, [⟨1579, none, false, .bare 1327⟩, ⟨1580, none, false, .unsup⟩, ⟨92, none, false, .bare 1325⟩], unpackLE 89 [0x526e75722e636d73, 0x616720746c757365, 0x693a646573755f73, 0x617473203335746e, 0x6f746365763a6b63, 0x74532e6d76743c72, 0x7972746e456b6361, 0x635f74697865203e, 0x33746e693a65646f, 0x2e636d73203d2032, 0x6c757365526e7552, 0x74]⟩,
  -- smc.libraryEntry hash:int256 data:bytes = smc.LibraryEntry
  ⟨1581, 1582, 0xa3d5d20c, [⟨55, none, false, .int256⟩, ⟨16, none, false, .bytes⟩], unpackLE 58 [0x7262696c2e636d73, 0x7972746e45797261, 0x6e693a6873616820, 0x7461642036353274, 0x2073657479623a61, 0x694c2e636d73203d, 0x746e457972617262, 0x7972]⟩
]

def chunk18 : List Ctor := [
  -- smc.libraryResult result:vector smc.libraryEntry = smc.LibraryResult
  ⟨1583, 1584, 0x0c27bbfe, [⟨93, none, true, .bare 1581⟩], unpackLE 68 [0x7262696c2e636d73, 0x6c75736552797261, 0x746c757365722074, 0x20726f746365763a, 0x7262696c2e636d73, 0x7972746e45797261, 0x4c2e636d73203d20, 0x6552797261726269, 0x746c7573]⟩,
  -- updateSendLiteServerQuery id:int64 data:bytes = Update
  ⟨1585, 1586, 0xa34e95dc, [⟨52, none, false, .bare 1329⟩, ⟨16, none, false, .bytes⟩], unpackLE 54 [0x6553657461647075, 0x65536574694c646e, 0x7265755172657672, 0x746e693a64692079, 0x3a61746164203436, 0x203d207365747962, 0x657461647055]⟩,
  -- updateSyncState sync_state:SyncState = Update
  ⟨1587, 1586, 0x47c823de, [⟨1588, none, false, .boxed 1473⟩], unpackLE 45 [0x7953657461647075, 0x206574617453636e, 0x6174735f636e7973, 0x53636e79533a6574, 0x55203d2065746174, 0x6574616470]⟩,
  -- logStreamDefault = LogStream
  ⟨1589, 1590, 0x52e296bc, [], unpackLE 28 [0x6165727453676f6c, 0x746c75616665446d, 0x7453676f4c203d20, 0x6d616572]⟩,
  -- logStreamFile path:string max_file_size:int53 = LogStream
  ⟨1591, 1590, 0x8ff02a56, [⟨1284, none, false, .string⟩, ⟨1592, none, false, .bare 1327⟩], unpackLE 57 [0x6165727453676f6c, 0x617020656c69466d, 0x6e697274733a6874, 0x69665f78616d2067, 0x3a657a69735f656c, 0x203d203335746e69, 0x6165727453676f4c, 0x6d]⟩,
  -- logStreamEmpty = LogStream
  ⟨1593, 1590, 0xe233f1cc, [], unpackLE 26 [0x6165727453676f6c, 0x3d207974706d456d, 0x65727453676f4c20, 0x6d61]⟩,
  -- logVerbosityLevel verbosity_level:int32 = LogVerbosityLevel
  ⟨1594, 1595, 0x676443ea, [⟨1596, none, false, .bare 1325⟩], unpackLE 59 [0x6f62726556676f6c, 0x6576654c79746973, 0x736f62726576206c, 0x6576656c5f797469, 0x203233746e693a6c, 0x726556676f4c203d, 0x654c797469736f62, 0x6c6576]⟩,
  -- logTags tags:vector<string> = LogTags
  ⟨1597, 1598, 0xdc09ced4, [⟨1599, none, false, .unsup⟩], unpackLE 37 [0x2073676154676f6c, 0x6365763a73676174, 0x697274733c726f74, 0x6f4c203d203e676e, 0x7367615467]⟩,
  -- data bytes:secureBytes = Data
  ⟨16, 1600, 0xe747a971, [⟨14, none, false, .bare 1333⟩], unpackLE 29 [0x7479622061746164, 0x72756365733a7365, 0x3d20736574794265, 0x6174614420]⟩,
  -- liteServer.info now:int53 version:int32 capabilities:int64 = liteServer.Info
  ⟨1601, 1602, 0xb57bfe73, [⟨66, none, false, .bare 1327⟩, ⟨63, none, false, .bare 1325⟩, ⟨64, none, false, .bare 1329⟩], unpackLE 76 [0x767265536574696c, 0x206f666e692e7265, 0x35746e693a776f6e, 0x6f69737265762033, 0x203233746e693a6e, 0x696c696261706163, 0x746e693a73656974, 0x74696c203d203436, 0x2e72657672655365, 0x6f666e49]⟩,
  -- blocks.masterchainInfo last:ton.BlockIdExt state_root_hash:bytes init:ton.BlockIdExt = blocks.MasterchainInfo
  ⟨1603, 1604, 0x31ca434b, [⟨58, none, false, .boxed 1389⟩, ⟨59, none, false, .bytes⟩, ⟨60, none, false, .boxed 1389⟩], unpackLE 109 [0x6d2e736b636f6c62, 0x6168637265747361, 0x6c206f666e496e69, 0x2e6e6f743a747361, 0x4564496b636f6c42, 0x6574617473207478, 0x61685f746f6f725f, 0x73657479623a6873, 0x6f743a74696e6920, 0x496b636f6c422e6e, 0x62203d2074784564, 0x614d2e736b636f6c, 0x6961686372657473, 0x6f666e496e]⟩,
  -- blocks.shards shards:vector<ton.BlockIdExt> = blocks.Shards
  ⟨1605, 1606, 0x5f003054, [⟨168, none, false, .unsup⟩], unpackLE 59 [0x732e736b636f6c62, 0x6873207364726168, 0x6365763a73647261, 0x2e6e6f743c726f74, 0x4564496b636f6c42, 0x6c62203d203e7478, 0x6168532e736b636f, 0x736472]⟩,
  -- blocks.accountTransactionId account:bytes lt:int64 = blocks.AccountTransactionId
  ⟨1607, 1608, 0xcbf72284, [⟨108, none, false, .bytes⟩, ⟨109, none, false, .bare 1329⟩], unpackLE 80 [0x612e736b636f6c62, 0x7254746e756f6363, 0x6f69746361736e61, 0x6f6363612064496e, 0x657479623a746e75, 0x746e693a746c2073, 0x6f6c62203d203436, 0x6f6363412e736b63, 0x736e617254746e75, 0x64496e6f69746361]⟩,
  -- blocks.shortTxId mode:# account:mode.0?bytes lt:mode.1?int64 hash:mode.2?bytes = liteServer.TransactionId
  ⟨1609, 107, 0x1d15ef45, [⟨0, none, false, .nat⟩, ⟨108, some (0, 0), false, .bytes⟩, ⟨109, some (0, 1), false, .bare 1329⟩, ⟨55, some (0, 2), false, .bytes⟩], unpackLE 105 [0x732e736b636f6c62, 0x6449785474726f68, 0x20233a65646f6d20, 0x3a746e756f636361, 0x623f302e65646f6d, 0x3a746c2073657479, 0x693f312e65646f6d, 0x736168203436746e, 0x322e65646f6d3a68, 0x3d2073657479623f, 0x7265536574696c20, 0x6e6172542e726576, 0x496e6f6974636173, 0x64]⟩,
  -- blocks.transactions id:ton.blockIdExt req_count:int32 incomplete:Bool transactions:vector<blocks.shortTxId> = blocks.Transactions
  ⟨1610, 1611, 0x8271a76b, [⟨52, none, false, .bare 1388⟩, ⟨114, none, false, .bare 1325⟩, ⟨115, none, false, .bool⟩, ⟨105, none, false, .unsup⟩], unpackLE 129 [0x742e736b636f6c62, 0x69746361736e6172, 0x743a646920736e6f, 0x6b636f6c622e6e6f, 0x6572207478456449, 0x3a746e756f635f71, 0x6e69203233746e69, 0x6574656c706d6f63, 0x7274206c6f6f423a, 0x6f69746361736e61, 0x6f746365763a736e, 0x736b636f6c623c72, 0x785474726f68732e, 0x6c62203d203e6449, 0x6172542e736b636f, 0x6e6f69746361736e, 0x73]⟩,
  -- blocks.transactionsExt id:ton.blockIdExt req_count:int32 incomplete:Bool transactions:vector<raw.transaction> = blocks.TransactionsExt
  ⟨1612, 1613, 0xcf3931c6, [⟨52, none, false, .bare 1388⟩, ⟨114, none, false, .bare 1325⟩, ⟨115, none, false, .bool⟩, ⟨105, none, false, .unsup⟩], unpackLE 134 [0x742e736b636f6c62, 0x69746361736e6172, 0x6920747845736e6f, 0x6c622e6e6f743a64, 0x74784564496b636f, 0x756f635f71657220, 0x3233746e693a746e, 0x6c706d6f636e6920, 0x6c6f6f423a657465, 0x6361736e61727420, 0x65763a736e6f6974, 0x7761723c726f7463, 0x6361736e6172742e, 0x203d203e6e6f6974, 0x542e736b636f6c62, 0x69746361736e6172, 0x747845736e6f]⟩,
  -- blocks.header id:ton.blockIdExt global_id:int32 version:int32 flags:# after_merge:Bool after_split:Bool before_split:Bool want_merge:Bool want_split:Bool validator_list_hash_short:int32 catchain_seqno:int32 min_ref_mc_seqno:int32 is_key_block:Bool prev_key_block_seqno:int32 start_lt:int64 end_lt:int64 gen_utime:int53 vert_seqno:# prev_blocks:vector<ton.blockIdExt> = blocks.Header
  ⟨1614, 1615, 0x394c88a2, [⟨52, none, false, .bare 1388⟩, ⟨1616, none, false, .bare 1325⟩, ⟨63, none, false, .bare 1325⟩, ⟨1, none, false, .nat⟩, ⟨1617, none, false, .bool⟩, ⟨1618, none, false, .bool⟩, ⟨1619, none, false, .bool⟩, ⟨1620, none, false, .bool⟩, ⟨1621, none, false, .bool⟩, ⟨1622, none, false, .bare 1325⟩, ⟨125, none, false, .bare 1325⟩, ⟨1623, none, false, .bare 1325⟩, ⟨1624, none, false, .bool⟩, ⟨1625, none, false, .bare 1325⟩, ⟨1626, none, false, .bare 1329⟩, ⟨1627, none, false, .bare 1329⟩, ⟨1628, none, false, .bare 1327⟩, ⟨1629, none, false, .nat⟩, ⟨1630, none, false, .unsup⟩], unpackLE 382 [0x682e736b636f6c62, 0x6469207265646165, 0x6f6c622e6e6f743a, 0x2074784564496b63, 0x695f6c61626f6c67, 0x203233746e693a64, 0x3a6e6f6973726576, 0x6c66203233746e69, 0x666120233a736761, 0x6772656d5f726574, 0x61206c6f6f423a65, 0x6c70735f72657466, 0x206c6f6f423a7469, 0x735f65726f666562, 0x6f6f423a74696c70, 0x6d5f746e6177206c, 0x6f6f423a65677265, 0x735f746e6177206c, 0x6f6f423a74696c70, 0x6164696c6176206c, 0x7473696c5f726f74, 0x68735f687361685f, 0x33746e693a74726f, 0x6168637461632032, 0x6f6e7165735f6e69, 0x6d203233746e693a, 0x6d5f6665725f6e69, 0x3a6f6e7165735f63, 0x7369203233746e69, 0x6f6c625f79656b5f, 0x206c6f6f423a6b63, 0x79656b5f76657270, 0x735f6b636f6c625f, 0x746e693a6f6e7165, 0x7472617473203233, 0x36746e693a746c5f, 0x746c5f646e652034, 0x67203436746e693a, 0x656d6974755f6e65, 0x76203335746e693a, 0x6e7165735f747265, 0x7665727020233a6f, 0x3a736b636f6c625f, 0x743c726f74636576, 0x6b636f6c622e6e6f, 0x3d203e7478456449, 0x2e736b636f6c6220, 0x726564616548]⟩,
  -- blocks.signature node_id_short:int256 signature:bytes = blocks.Signature
  ⟨1631, 1632, 0xb71288c1, [⟨120, none, false, .int256⟩, ⟨121, none, false, .bytes⟩], unpackLE 72 [0x732e736b636f6c62, 0x65727574616e6769, 0x64695f65646f6e20, 0x693a74726f68735f, 0x697320363532746e, 0x3a65727574616e67, 0x203d207365747962, 0x532e736b636f6c62, 0x65727574616e6769]⟩,
  -- blocks.blockSignatures id:ton.blockIdExt signatures:vector blocks.signature = blocks.BlockSignatures
  ⟨1633, 1634, 0xe801db9b, [⟨52, none, false, .bare 1388⟩, ⟨126, none, true, .bare 1631⟩], unpackLE 100 [0x622e736b636f6c62, 0x6e6769536b636f6c, 0x6920736572757461, 0x6c622e6e6f743a64, 0x74784564496b636f, 0x7574616e67697320, 0x746365763a736572, 0x6b636f6c6220726f, 0x74616e6769732e73, 0x6c62203d20657275, 0x6f6c422e736b636f, 0x74616e6769536b63, 0x73657275]⟩,
  -- blocks.shardBlockLink id:ton.blockIdExt proof:bytes = blocks.ShardBlockLink
  ⟨1635, 1636, 0xa6e01569, [⟨52, none, false, .bare 1388⟩, ⟨85, none, false, .bytes⟩], unpackLE 75 [0x732e736b636f6c62, 0x636f6c4264726168, 0x6469206b6e694c6b, 0x6f6c622e6e6f743a, 0x2074784564496b63, 0x79623a666f6f7270, 0x6c62203d20736574, 0x6168532e736b636f, 0x4c6b636f6c426472, 0x6b6e69]⟩,
  -- blocks.blockLinkBack to_key_block:Bool from:ton.blockIdExt to:ton.blockIdExt dest_proof:bytes proof:bytes state_proof:bytes = blocks.BlockLinkBack
  ⟨1637, 1638, 0x418c8035, [⟨129, none, false, .bool⟩, ⟨130, none, false, .bare 1388⟩, ⟨131, none, false, .bare 1388⟩, ⟨132, none, false, .bytes⟩, ⟨85, none, false, .bytes⟩, ⟨89, none, false, .bytes⟩], unpackLE 146 [0x622e736b636f6c62, 0x6b6e694c6b636f6c, 0x5f6f74206b636142, 0x636f6c625f79656b, 0x66206c6f6f423a6b, 0x2e6e6f743a6d6f72, 0x4564496b636f6c62, 0x6f743a6f74207478, 0x496b636f6c622e6e, 0x7365642074784564, 0x3a666f6f72705f74, 0x7270207365747962, 0x657479623a666f6f, 0x5f65746174732073, 0x79623a666f6f7270, 0x6c62203d20736574, 0x6f6c422e736b636f, 0x61426b6e694c6b63, 0x6b63]⟩,
  -- blocks.shardBlockProof from:ton.blockIdExt mc_id:ton.blockIdExt links:vector blocks.shardBlockLink mc_proof:vector blocks.blockLinkBack = blocks.ShardBlockProof
  ⟨1639, 1640, 0xfbd65f53, [⟨130, none, false, .bare 1388⟩, ⟨1641, none, false, .bare 1388⟩, ⟨154, none, true, .bare 1635⟩, ⟨1642, none, true, .bare 1637⟩], unpackLE 160 [0x732e736b636f6c62, 0x636f6c4264726168, 0x6620666f6f72506b, 0x2e6e6f743a6d6f72, 0x4564496b636f6c62, 0x64695f636d207478, 0x6f6c622e6e6f743a, 0x2074784564496b63, 0x65763a736b6e696c, 0x6f6c6220726f7463, 0x726168732e736b63, 0x694c6b636f6c4264, 0x72705f636d206b6e, 0x746365763a666f6f, 0x6b636f6c6220726f, 0x4c6b636f6c622e73, 0x206b6361426b6e69, 0x736b636f6c62203d, 0x6c4264726168532e, 0x666f6f72506b636f]⟩,
  -- configInfo config:tvm.cell = ConfigInfo
  ⟨1643, 1644, 0x290055ff, [⟨1277, none, false, .bare 1553⟩], unpackLE 39 [0x6e496769666e6f63, 0x69666e6f63206f66, 0x65632e6d76743a67, 0x6e6f43203d206c6c, 0x6f666e49676966]⟩,
  -- init options:options = options.Info
  ⟨60, 1353, 0xc45c22b6, [⟨1345, none, false, .bare 1345⟩], unpackLE 35 [0x74706f2074696e69, 0x74706f3a736e6f69, 0x6f203d20736e6f69, 0x492e736e6f697470, 0x6f666e]⟩,
  -- close = Ok
  ⟨1645, 1062, 0xb933e17f, [], unpackLE 10 [0x203d2065736f6c63, 0x6b4f]⟩,
  -- options.setConfig config:config = options.ConfigInfo
  ⟨1646, 1349, 0x6f76ebc3, [⟨1277, none, false, .bare 1277⟩], unpackLE 52 [0x2e736e6f6974706f, 0x69666e6f43746573, 0x6769666e6f632067, 0x206769666e6f633a, 0x6e6f6974706f203d, 0x6769666e6f432e73, 0x6f666e49]⟩,
  -- options.validateConfig config:config = options.ConfigInfo
  ⟨1647, 1349, 0xeb51ba39, [⟨1277, none, false, .bare 1277⟩], unpackLE 57 [0x2e736e6f6974706f, 0x65746164696c6176, 0x63206769666e6f43, 0x6f633a6769666e6f, 0x6f203d206769666e, 0x432e736e6f697470, 0x666e496769666e6f, 0x6f]⟩,
  -- createNewKey local_password:secureBytes mnemonic_password:secureBytes random_extra_seed:secureBytes = Key
  ⟨1648, 1355, 0x910d8210, [⟨1360, none, false, .bare 1333⟩, ⟨1649, none, false, .bare 1333⟩, ⟨1650, none, false, .bare 1333⟩], unpackLE 105 [0x654e657461657263, 0x636f6c2079654b77, 0x77737361705f6c61, 0x756365733a64726f, 0x2073657479426572, 0x63696e6f6d656e6d, 0x726f77737361705f, 0x6572756365733a64, 0x6172207365747942, 0x7478655f6d6f646e, 0x3a646565735f6172, 0x7942657275636573, 0x654b203d20736574, 0x79]⟩,
  -- deleteKey key:key = Ok
  ⟨1651, 1062, 0xa1d948cd, [⟨260, none, false, .bare 260⟩], unpackLE 22 [0x654b6574656c6564, 0x656b3a79656b2079, 0x6b4f203d2079]⟩,
  -- deleteAllKeys = Ok
  ⟨1652, 1062, 0x5fe3fb23, [], unpackLE 18 [0x6c416574656c6564, 0x203d207379654b6c, 0x6b4f]⟩,
  -- exportKey input_key:InputKey = ExportedKey
  ⟨1653, 1363, 0x9f4cd973, [⟨1654, none, false, .boxed 1359⟩], unpackLE 42 [0x654b74726f707865, 0x5f7475706e692079, 0x75706e493a79656b, 0x45203d2079654b74, 0x4b646574726f7078, 0x7965]⟩,
  -- exportPemKey input_key:InputKey key_password:secureBytes = ExportedPemKey
  ⟨1655, 1366, 0xd9a8a3ba, [⟨1654, none, false, .boxed 1359⟩, ⟨1656, none, false, .bare 1333⟩], unpackLE 73 [0x655074726f707865, 0x706e692079654b6d, 0x493a79656b5f7475, 0x2079654b7475706e, 0x737361705f79656b, 0x6365733a64726f77, 0x7365747942657275, 0x726f707845203d20, 0x654b6d6550646574, 0x79]⟩,
  -- exportEncryptedKey input_key:InputKey key_password:secureBytes = ExportedEncryptedKey
  ⟨1657, 1369, 0x0d02097f, [⟨1654, none, false, .boxed 1359⟩, ⟨1656, none, false, .bare 1333⟩], unpackLE 85 [0x6e4574726f707865, 0x4b64657470797263, 0x7475706e69207965, 0x706e493a79656b5f, 0x656b2079654b7475, 0x6f77737361705f79, 0x72756365733a6472, 0x3d20736574794265, 0x6574726f70784520, 0x74707972636e4564, 0x79654b6465]⟩,
  -- exportUnencryptedKey input_key:InputKey = ExportedUnencryptedKey
  ⟨1658, 1371, 0xda2bc740, [⟨1654, none, false, .boxed 1359⟩], unpackLE 64 [0x6e5574726f707865, 0x6574707972636e65, 0x706e692079654b64, 0x493a79656b5f7475, 0x2079654b7475706e, 0x74726f707845203d, 0x72636e656e556465, 0x79654b6465747079]⟩,
  -- importKey local_password:secureBytes mnemonic_password:secureBytes exported_key:exportedKey = Key
  ⟨1659, 1355, 0xa0296119, [⟨1360, none, false, .bare 1333⟩, ⟨1649, none, false, .bare 1333⟩, ⟨1660, none, false, .bare 1362⟩], unpackLE 97 [0x654b74726f706d69, 0x5f6c61636f6c2079, 0x64726f7773736170, 0x426572756365733a, 0x656e6d2073657479, 0x61705f63696e6f6d, 0x733a64726f777373, 0x7479426572756365, 0x726f707865207365, 0x3a79656b5f646574, 0x646574726f707865, 0x654b203d2079654b, 0x79]⟩,
  -- importPemKey local_password:secureBytes key_password:secureBytes exported_key:exportedPemKey = Key
  ⟨1661, 1355, 0x048d8d51, [⟨1360, none, false, .bare 1333⟩, ⟨1656, none, false, .bare 1333⟩, ⟨1660, none, false, .bare 1365⟩], unpackLE 98 [0x655074726f706d69, 0x636f6c2079654b6d, 0x77737361705f6c61, 0x756365733a64726f, 0x2073657479426572, 0x737361705f79656b, 0x6365733a64726f77, 0x7365747942657275, 0x6574726f70786520, 0x78653a79656b5f64, 0x6550646574726f70, 0x4b203d2079654b6d, 0x7965]⟩,
  -- importEncryptedKey local_password:secureBytes key_password:secureBytes exported_encrypted_key:exportedEncryptedKey = Key
  ⟨1662, 1355, 0x2724d3de, [⟨1360, none, false, .bare 1333⟩, ⟨1656, none, false, .bare 1333⟩, ⟨1663, none, false, .bare 1368⟩], unpackLE 120 [0x6e4574726f706d69, 0x4b64657470797263, 0x6c61636f6c207965, 0x726f77737361705f, 0x6572756365733a64, 0x656b207365747942, 0x6f77737361705f79, 0x72756365733a6472, 0x6520736574794265, 0x5f646574726f7078, 0x6574707972636e65, 0x78653a79656b5f64, 0x6e45646574726f70, 0x4b64657470797263, 0x79654b203d207965]⟩,
  -- importUnencryptedKey local_password:secureBytes exported_unencrypted_key:exportedUnencryptedKey = Key
  ⟨1664, 1355, 0xb9635915, [⟨1360, none, false, .bare 1333⟩, ⟨1665, none, false, .bare 1370⟩], unpackLE 101 [0x6e5574726f706d69, 0x6574707972636e65, 0x636f6c2079654b64, 0x77737361705f6c61, 0x756365733a64726f, 0x2073657479426572, 0x646574726f707865, 0x7972636e656e755f, 0x79656b5f64657470, 0x6574726f7078653a, 0x7972636e656e5564, 0x2079654b64657470, 0x79654b203d]⟩,
  -- changeLocalPassword input_key:InputKey new_local_password:secureBytes = Key
  ⟨1666, 1355, 0xe81037bf, [⟨1654, none, false, .boxed 1359⟩, ⟨1667, none, false, .bare 1333⟩], unpackLE 75 [0x6f4c65676e616863, 0x77737361506c6163, 0x75706e692064726f, 0x6e493a79656b5f74, 0x6e2079654b747570, 0x6c61636f6c5f7765, 0x726f77737361705f, 0x6572756365733a64, 0x203d207365747942, 0x79654b]⟩,
  -- encrypt decrypted_data:secureBytes secret:secureBytes = Data
  ⟨1668, 1600, 0x936f4b1c, [⟨1669, none, false, .bare 1333⟩, ⟨1357, none, false, .bare 1333⟩], unpackLE 60 [0x2074707972636e65, 0x6574707972636564, 0x733a617461645f64, 0x7479426572756365, 0x6572636573207365, 0x6572756365733a74, 0x203d207365747942, 0x61746144]⟩
]

def chunk19 : List Ctor := [
  -- decrypt encrypted_data:secureBytes secret:secureBytes = Data
  ⟨1670, 1600, 0x155685ae, [⟨1671, none, false, .bare 1333⟩, ⟨1357, none, false, .bare 1333⟩], unpackLE 60 [0x2074707972636564, 0x6574707972636e65, 0x733a617461645f64, 0x7479426572756365, 0x6572636573207365, 0x6572756365733a74, 0x203d207365747942, 0x61746144]⟩,
  -- kdf password:secureBytes salt:secureBytes iterations:int32 = Data
  ⟨1672, 1600, 0x9c96737d, [⟨1673, none, false, .bare 1333⟩, ⟨1674, none, false, .bare 1333⟩, ⟨1675, none, false, .bare 1325⟩], unpackLE 65 [0x737361702066646b, 0x6365733a64726f77, 0x7365747942657275, 0x65733a746c617320, 0x6574794265727563, 0x7461726574692073, 0x746e693a736e6f69, 0x746144203d203233, 0x61]⟩,
  -- unpackAccountAddress account_address:string = UnpackedAccountAddress
  ⟨1676, 1381, 0xd7528049, [⟨1311, none, false, .string⟩], unpackLE 68 [0x63416b6361706e75, 0x646441746e756f63, 0x6363612073736572, 0x6464615f746e756f, 0x7274733a73736572, 0x6e55203d20676e69, 0x634164656b636170, 0x646441746e756f63, 0x73736572]⟩,
  -- packAccountAddress account_address:unpackedAccountAddress = AccountAddress
  ⟨1677, 1379, 0xad3c39ec, [⟨1311, none, false, .bare 1380⟩], unpackLE 74 [0x6f6363416b636170, 0x6572646441746e75, 0x756f636361207373, 0x65726464615f746e, 0x6361706e753a7373, 0x756f63634164656b, 0x736572646441746e, 0x6f636341203d2073, 0x6572646441746e75, 0x7373]⟩,
  -- getBip39Hints prefix:string = Bip39Hints
  ⟨1678, 1373, 0x8f5e5dea, [⟨1679, none, false, .string⟩], unpackLE 40 [0x3933706942746567, 0x72702073746e6948, 0x7274733a78696665, 0x6942203d20676e69, 0x73746e6948393370]⟩,
  -- raw.getAccountState account_address:accountAddress = raw.FullAccountState
  ⟨1680, 1391, 0xb0daa932, [⟨1311, none, false, .bare 1378⟩], unpackLE 73 [0x417465672e776172, 0x7453746e756f6363, 0x6f63636120657461, 0x726464615f746e75, 0x6f6363613a737365, 0x6572646441746e75, 0x776172203d207373, 0x6363416c6c75462e, 0x74617453746e756f, 0x65]⟩,
  -- raw.getAccountStateByTransaction account_address:accountAddress transaction_id:internal.transactionId = raw.FullAccountState
  ⟨1681, 1391, 0x2a91d0a3, [⟨1311, none, false, .bare 1378⟩, ⟨1405, none, false, .bare 1385⟩], unpackLE 124 [0x417465672e776172, 0x7453746e756f6363, 0x6172547942657461, 0x6e6f69746361736e, 0x746e756f63636120, 0x737365726464615f, 0x746e756f6363613a, 0x2073736572646441, 0x746361736e617274, 0x693a64695f6e6f69, 0x2e6c616e7265746e, 0x746361736e617274, 0x203d2064496e6f69, 0x6c6c75462e776172, 0x53746e756f636341, 0x65746174]⟩,
  -- raw.getTransactions private_key:InputKey account_address:accountAddress from_transaction_id:internal.transactionId = raw.Transactions
  ⟨1682, 1412, 0x3d5ea31d, [⟨1683, none, false, .boxed 1359⟩, ⟨1311, none, false, .bare 1378⟩, ⟨1684, none, false, .bare 1385⟩], unpackLE 133 [0x547465672e776172, 0x69746361736e6172, 0x7669727020736e6f, 0x3a79656b5f657461, 0x79654b7475706e49, 0x746e756f63636120, 0x737365726464615f, 0x746e756f6363613a, 0x2073736572646441, 0x6172745f6d6f7266, 0x6e6f69746361736e, 0x65746e693a64695f, 0x6172742e6c616e72, 0x6e6f69746361736e, 0x776172203d206449, 0x6361736e6172542e, 0x736e6f6974]⟩,
  -- raw.getTransactionsV2 private_key:InputKey account_address:accountAddress from_transaction_id:internal.transactionId count:# try_decode_messages:Bool = raw.Transactions
  ⟨1685, 1412, 0xde3f7ca6, [⟨1683, none, false, .boxed 1359⟩, ⟨1311, none, false, .bare 1378⟩, ⟨1684, none, false, .bare 1385⟩, ⟨143, none, false, .nat⟩, ⟨1686, none, false, .bool⟩], unpackLE 168 [0x547465672e776172, 0x69746361736e6172, 0x7270203256736e6f, 0x656b5f6574617669, 0x4b7475706e493a79, 0x756f636361207965, 0x65726464615f746e, 0x756f6363613a7373, 0x736572646441746e, 0x745f6d6f72662073, 0x69746361736e6172, 0x6e693a64695f6e6f, 0x742e6c616e726574, 0x69746361736e6172, 0x756f632064496e6f, 0x79727420233a746e, 0x5f65646f6365645f, 0x736567617373656d, 0x203d206c6f6f423a, 0x6e6172542e776172, 0x736e6f6974636173]⟩,
  -- raw.sendMessage body:bytes = Ok
  ⟨1687, 1062, 0x955780e0, [⟨204, none, false, .bytes⟩], unpackLE 31 [0x646e65732e776172, 0x206567617373654d, 0x7479623a79646f62, 0x6b4f203d207365]⟩,
  -- raw.sendMessageReturnHash body:bytes = raw.ExtMessageInfo
  ⟨1688, 1415, 0xb6c76719, [⟨204, none, false, .bytes⟩], unpackLE 57 [0x646e65732e776172, 0x526567617373654d, 0x7361486e72757465, 0x623a79646f622068, 0x72203d2073657479, 0x654d7478452e7761, 0x666e496567617373, 0x6f]⟩,
  -- raw.createAndSendMessage destination:accountAddress initial_account_state:bytes data:bytes = Ok
  ⟨1689, 1062, 0xd1f8c9a5, [⟨1397, none, false, .bare 1378⟩, ⟨1690, none, false, .bytes⟩, ⟨16, none, false, .bytes⟩], unpackLE 95 [0x616572632e776172, 0x6e6553646e416574, 0x6567617373654d64, 0x616e697473656420, 0x6363613a6e6f6974, 0x72646441746e756f, 0x74696e6920737365, 0x6f6363615f6c6169, 0x746174735f746e75, 0x2073657479623a65, 0x7479623a61746164, 0x6b4f203d207365]⟩,
  -- raw.createQuery destination:accountAddress init_code:bytes init_data:bytes body:bytes = query.Info
  ⟨1691, 1549, 0x8d0c8aab, [⟨1397, none, false, .bare 1378⟩, ⟨1692, none, false, .bytes⟩, ⟨1693, none, false, .bytes⟩, ⟨204, none, false, .bytes⟩], unpackLE 98 [0x616572632e776172, 0x2079726575516574, 0x74616e6974736564, 0x6f6363613a6e6f69, 0x6572646441746e75, 0x5f74696e69207373, 0x7479623a65646f63, 0x5f74696e69207365, 0x7479623a61746164, 0x3a79646f62207365, 0x203d207365747962, 0x6e492e7972657571, 0x6f66]⟩,
  -- sync = ton.BlockIdExt
  ⟨1694, 1389, 0x902edc92, [], unpackLE 21 [0x74203d20636e7973, 0x6b636f6c422e6e6f, 0x7478456449]⟩,
  -- getAccountAddress initial_account_state:InitialAccountState revision:int32 workchain_id:int32 = AccountAddress
  ⟨1695, 1379, 0x1e8ba5c8, [⟨1690, none, false, .boxed 1426⟩, ⟨1465, none, false, .bare 1325⟩, ⟨1382, none, false, .bare 1325⟩], unpackLE 110 [0x756f636341746567, 0x736572646441746e, 0x616974696e692073, 0x6e756f6363615f6c, 0x3a65746174735f74, 0x416c616974696e49, 0x7453746e756f6363, 0x6976657220657461, 0x746e693a6e6f6973, 0x636b726f77203233, 0x3a64695f6e696168, 0x203d203233746e69, 0x41746e756f636341, 0x737365726464]⟩,
  -- guessAccountRevision initial_account_state:InitialAccountState workchain_id:int32 = AccountRevisionList
  ⟨1696, 1467, 0x6eb892a2, [⟨1690, none, false, .boxed 1426⟩, ⟨1382, none, false, .bare 1325⟩], unpackLE 103 [0x6363417373657567, 0x69766552746e756f, 0x696e69206e6f6973, 0x6363615f6c616974, 0x6174735f746e756f, 0x6974696e493a6574, 0x6e756f6363416c61, 0x7720657461745374, 0x6e696168636b726f, 0x33746e693a64695f, 0x6f636341203d2032, 0x7369766552746e75, 0x7473694c6e6f69]⟩,
  -- guessAccount public_key:string rwallet_init_public_key:string = AccountRevisionList
  ⟨1697, 1467, 0x986d6c60, [⟨1356, none, false, .string⟩, ⟨1698, none, false, .string⟩], unpackLE 83 [0x6363417373657567, 0x62757020746e756f, 0x3a79656b5f63696c, 0x7220676e69727473, 0x695f74656c6c6177, 0x6c6275705f74696e, 0x733a79656b5f6369, 0x203d20676e697274, 0x52746e756f636341, 0x4c6e6f6973697665, 0x747369]⟩,
  -- getAccountState account_address:accountAddress = FullAccountState
  ⟨1699, 1463, 0x81daf446, [⟨1311, none, false, .bare 1378⟩], unpackLE 65 [0x756f636341746567, 0x206574617453746e, 0x5f746e756f636361, 0x3a73736572646461, 0x41746e756f636361, 0x3d20737365726464, 0x6363416c6c754620, 0x74617453746e756f, 0x65]⟩,
  -- getAccountStateByTransaction account_address:accountAddress transaction_id:internal.transactionId = FullAccountState
  ⟨1700, 1463, 0x2d1c0fce, [⟨1311, none, false, .bare 1378⟩, ⟨1405, none, false, .bare 1385⟩], unpackLE 116 [0x756f636341746567, 0x426574617453746e, 0x6361736e61725479, 0x636361206e6f6974, 0x6464615f746e756f, 0x6363613a73736572, 0x72646441746e756f, 0x6e61727420737365, 0x5f6e6f6974636173, 0x7265746e693a6469, 0x6e6172742e6c616e, 0x496e6f6974636173, 0x6c6c7546203d2064, 0x53746e756f636341, 0x65746174]⟩,
  -- getShardAccountCell account_address:accountAddress = tvm.Cell
  ⟨1701, 1554, 0x989e941b, [⟨1311, none, false, .bare 1378⟩], unpackLE 61 [0x6472616853746567, 0x43746e756f636341, 0x6f636361206c6c65, 0x726464615f746e75, 0x6f6363613a737365, 0x6572646441746e75, 0x6d7674203d207373, 0x6c6c65432e]⟩,
  -- getShardAccountCellByTransaction account_address:accountAddress transaction_id:internal.transactionId = tvm.Cell
  ⟨1702, 1554, 0x1841e3c1, [⟨1311, none, false, .bare 1378⟩, ⟨1405, none, false, .bare 1385⟩], unpackLE 112 [0x6472616853746567, 0x43746e756f636341, 0x61725479426c6c65, 0x6e6f69746361736e, 0x746e756f63636120, 0x737365726464615f, 0x746e756f6363613a, 0x2073736572646441, 0x746361736e617274, 0x693a64695f6e6f69, 0x2e6c616e7265746e, 0x746361736e617274, 0x203d2064496e6f69, 0x6c6c65432e6d7674]⟩,
  -- createQuery private_key:InputKey address:accountAddress timeout:int32 action:Action initial_account_state:InitialAccountState = query.Info
  ⟨1703, 1549, 0xf18b20c5, [⟨1683, none, false, .boxed 1359⟩, ⟨318, none, false, .bare 1378⟩, ⟨373, none, false, .bare 1325⟩, ⟨1538, none, false, .boxed 1533⟩, ⟨1690, none, false, .boxed 1426⟩], unpackLE 138 [0x7551657461657263, 0x7669727020797265, 0x3a79656b5f657461, 0x79654b7475706e49, 0x7373657264646120, 0x746e756f6363613a, 0x2073736572646441, 0x3a74756f656d6974, 0x6361203233746e69, 0x7463413a6e6f6974, 0x74696e69206e6f69, 0x6f6363615f6c6169, 0x746174735f746e75, 0x616974696e493a65, 0x746e756f6363416c, 0x203d206574617453, 0x6e492e7972657571, 0x6f66]⟩,
  -- getConfigParam mode:# param:# = ConfigInfo
  ⟨1704, 1644, 0xf20702f3, [⟨0, none, false, .nat⟩, ⟨1705, none, false, .nat⟩], unpackLE 42 [0x69666e6f43746567, 0x6d206d6172615067, 0x617020233a65646f, 0x203d20233a6d6172, 0x6e496769666e6f43, 0x6f66]⟩,
  -- getConfigAll mode:# = ConfigInfo
  ⟨1706, 1644, 0x1ce13850, [⟨0, none, false, .nat⟩], unpackLE 32 [0x69666e6f43746567, 0x646f6d206c6c4167, 0x6f43203d20233a65, 0x6f666e496769666e]⟩,
  -- msg.decrypt input_key:InputKey data:msg.dataEncryptedArray = msg.DataDecryptedArray
  ⟨1707, 1493, 0x0d53cf09, [⟨1654, none, false, .boxed 1359⟩, ⟨16, none, false, .bare 1489⟩], unpackLE 83 [0x726365642e67736d, 0x75706e6920747079, 0x6e493a79656b5f74, 0x642079654b747570, 0x2e67736d3a617461, 0x72636e4561746164, 0x7272416465747079, 0x67736d203d207961, 0x636544617461442e, 0x7241646574707972, 0x796172]⟩,
  -- msg.decryptWithProof proof:bytes data:msg.dataEncrypted = msg.Data
  ⟨1708, 1479, 0x8222c881, [⟨85, none, false, .bytes⟩, ⟨16, none, false, .bare 1485⟩], unpackLE 66 [0x726365642e67736d, 0x5068746957747079, 0x6f727020666f6f72, 0x73657479623a666f, 0x736d3a6174616420, 0x6e45617461642e67, 0x2064657470797263, 0x61442e67736d203d, 0x6174]⟩,
  -- query.send id:int53 = Ok
  ⟨1709, 1062, 0x37261573, [⟨52, none, false, .bare 1327⟩], unpackLE 24 [0x65732e7972657571, 0x6e693a646920646e, 0x6b4f203d20333574]⟩,
  -- query.forget id:int53 = Ok
  ⟨1710, 1062, 0xb7c2925f, [⟨52, none, false, .bare 1327⟩], unpackLE 26 [0x6f662e7972657571, 0x3a64692074656772, 0x203d203335746e69, 0x6b4f]⟩,
  -- query.estimateFees id:int53 ignore_chksig:Bool = query.Fees
  ⟨1711, 1545, 0xc6f54e41, [⟨52, none, false, .bare 1327⟩, ⟨1712, none, false, .bool⟩], unpackLE 59 [0x73652e7972657571, 0x65466574616d6974, 0x6e693a6469207365, 0x6f6e676920333574, 0x69736b68635f6572, 0x3d206c6f6f423a67, 0x462e797265757120, 0x736565]⟩,
  -- query.getInfo id:int53 = query.Info
  ⟨1713, 1549, 0xd05b22db, [⟨52, none, false, .bare 1327⟩], unpackLE 35 [0x65672e7972657571, 0x6469206f666e4974, 0x3d203335746e693a, 0x492e797265757120, 0x6f666e]⟩,
  -- smc.load account_address:accountAddress = smc.Info
  ⟨1714, 1573, 0xca25d03f, [⟨1311, none, false, .bare 1378⟩], unpackLE 50 [0x64616f6c2e636d73, 0x746e756f63636120, 0x737365726464615f, 0x746e756f6363613a, 0x2073736572646441, 0x6e492e636d73203d, 0x6f66]⟩,
  -- smc.loadByTransaction account_address:accountAddress transaction_id:internal.transactionId = smc.Info
  ⟨1715, 1573, 0x87a54b31, [⟨1311, none, false, .bare 1378⟩, ⟨1405, none, false, .bare 1385⟩], unpackLE 101 [0x64616f6c2e636d73, 0x61736e6172547942, 0x6361206e6f697463, 0x64615f746e756f63, 0x63613a7373657264, 0x646441746e756f63, 0x6172742073736572, 0x6e6f69746361736e, 0x65746e693a64695f, 0x6172742e6c616e72, 0x6e6f69746361736e, 0x636d73203d206449, 0x6f666e492e]⟩,
  -- smc.forget id:int53 = Ok
  ⟨1716, 1062, 0x364d31e6, [⟨52, none, false, .bare 1327⟩], unpackLE 24 [0x67726f662e636d73, 0x6e693a6469207465, 0x6b4f203d20333574]⟩,
  -- smc.getCode id:int53 = tvm.Cell
  ⟨1717, 1554, 0x81e61b98, [⟨52, none, false, .bare 1327⟩], unpackLE 31 [0x437465672e636d73, 0x693a64692065646f, 0x74203d203335746e, 0x6c6c65432e6d76]⟩,
  -- smc.getData id:int53 = tvm.Cell
  ⟨1718, 1554, 0xe6835349, [⟨52, none, false, .bare 1327⟩], unpackLE 31 [0x447465672e636d73, 0x693a646920617461, 0x74203d203335746e, 0x6c6c65432e6d76]⟩,
  -- smc.getState id:int53 = tvm.Cell
  ⟨1719, 1554, 0xf338a9eb, [⟨52, none, false, .bare 1327⟩], unpackLE 32 [0x537465672e636d73, 0x3a64692065746174, 0x203d203335746e69, 0x6c6c65432e6d7674]⟩,
  -- smc.runGetMethod id:int53 method:smc.MethodId stack:vector<tvm.StackEntry> = smc.RunResult
  ⟨1720, 1578, 0xdae3c813, [⟨52, none, false, .bare 1327⟩, ⟨1098, none, false, .boxed 1575⟩, ⟨1580, none, false, .unsup⟩], unpackLE 90 [0x476e75722e636d73, 0x646f6874654d7465, 0x35746e693a646920, 0x646f6874656d2033, 0x74654d2e636d733a, 0x7473206449646f68, 0x746365763a6b6361, 0x532e6d76743c726f, 0x72746e456b636174, 0x636d73203d203e79, 0x757365526e75522e, 0x746c]⟩,
  -- smc.getLibraries library_list:vector int256 = smc.LibraryResult
  ⟨1721, 1584, 0x3089ee15, [⟨234, none, true, .int256⟩], unpackLE 63 [0x4c7465672e636d73, 0x7365697261726269, 0x7972617262696c20, 0x65763a7473696c5f, 0x746e6920726f7463, 0x6d73203d20363532, 0x72617262694c2e63, 0x746c7573655279]⟩,
  -- dns.resolve account_address:accountAddress name:string category:int256 ttl:int32 = dns.Resolved
  ⟨1722, 1515, 0x6ac69536, [⟨1311, none, false, .bare 1378⟩, ⟨275, none, false, .string⟩, ⟨877, none, false, .int256⟩, ⟨391, none, false, .bare 1325⟩], unpackLE 95 [0x6f7365722e736e64, 0x6f6363612065766c, 0x726464615f746e75, 0x6f6363613a737365, 0x6572646441746e75, 0x3a656d616e207373, 0x6320676e69727473, 0x3a79726f67657461, 0x7420363532746e69, 0x3233746e693a6c74, 0x522e736e64203d20, 0x6465766c6f7365]⟩,
  -- pchan.signPromise input_key:InputKey promise:pchan.promise = pchan.Promise
  ⟨1723, 1518, 0x6c245f1e, [⟨1654, none, false, .boxed 1359⟩, ⟨1528, none, false, .bare 1517⟩], unpackLE 74 [0x69732e6e61686370, 0x73696d6f72506e67, 0x5f7475706e692065, 0x75706e493a79656b, 0x6f72702079654b74, 0x6863703a6573696d, 0x696d6f72702e6e61, 0x686370203d206573, 0x696d6f72502e6e61, 0x6573]⟩
]

def chunk20 : List Ctor := [
  -- pchan.validatePromise public_key:bytes promise:pchan.promise = Ok
  ⟨1724, 1062, 0x0f64c4e2, [⟨1356, none, false, .bytes⟩, ⟨1528, none, false, .bare 1517⟩], unpackLE 65 [0x61762e6e61686370, 0x725065746164696c, 0x7570206573696d6f, 0x79656b5f63696c62, 0x702073657479623a, 0x703a6573696d6f72, 0x6f72702e6e616863, 0x4f203d206573696d, 0x6b]⟩,
  -- pchan.packPromise promise:pchan.promise = Data
  ⟨1725, 1600, 0xcd3c0ac1, [⟨1528, none, false, .bare 1517⟩], unpackLE 46 [0x61702e6e61686370, 0x73696d6f72506b63, 0x73696d6f72702065, 0x2e6e616863703a65, 0x206573696d6f7270, 0x61746144203d]⟩,
  -- pchan.unpackPromise data:secureBytes = pchan.Promise
  ⟨1726, 1518, 0xb57ce4d3, [⟨16, none, false, .bare 1333⟩], unpackLE 52 [0x6e752e6e61686370, 0x6d6f72506b636170, 0x6174616420657369, 0x426572756365733a, 0x70203d2073657479, 0x6f72502e6e616863, 0x6573696d]⟩,
  -- blocks.getMasterchainInfo = blocks.MasterchainInfo
  ⟨1727, 1604, 0xfd49d291, [], unpackLE 50 [0x672e736b636f6c62, 0x72657473614d7465, 0x666e496e69616863, 0x636f6c62203d206f, 0x657473614d2e736b, 0x6e496e6961686372, 0x6f66]⟩,
  -- blocks.getShards id:ton.blockIdExt = blocks.Shards
  ⟨1728, 1606, 0x7b8c042d, [⟨52, none, false, .bare 1388⟩], unpackLE 50 [0x672e736b636f6c62, 0x7364726168537465, 0x2e6e6f743a646920, 0x4564496b636f6c62, 0x6f6c62203d207478, 0x726168532e736b63, 0x7364]⟩,
  -- blocks.lookupBlock mode:int32 id:ton.blockId lt:int64 utime:int32 = ton.BlockIdExt
  ⟨1729, 1389, 0x548c5bb3, [⟨0, none, false, .bare 1325⟩, ⟨52, none, false, .bare 655⟩, ⟨109, none, false, .bare 1329⟩, ⟨216, none, false, .bare 1325⟩], unpackLE 82 [0x6c2e736b636f6c62, 0x6f6c4270756b6f6f, 0x3a65646f6d206b63, 0x6469203233746e69, 0x6f6c622e6e6f743a, 0x3a746c2064496b63, 0x7475203436746e69, 0x33746e693a656d69, 0x2e6e6f74203d2032, 0x4564496b636f6c42, 0x7478]⟩,
  -- blocks.getTransactions id:ton.blockIdExt mode:# count:# after:blocks.accountTransactionId = blocks.Transactions
  ⟨1730, 1611, 0xca95cd31, [⟨52, none, false, .bare 1388⟩, ⟨0, none, false, .nat⟩, ⟨143, none, false, .nat⟩, ⟨219, none, false, .bare 1607⟩], unpackLE 111 [0x672e736b636f6c62, 0x61736e6172547465, 0x6920736e6f697463, 0x6c622e6e6f743a64, 0x74784564496b636f, 0x20233a65646f6d20, 0x20233a746e756f63, 0x6c623a7265746661, 0x6363612e736b636f, 0x6e617254746e756f, 0x496e6f6974636173, 0x636f6c62203d2064, 0x736e6172542e736b, 0x736e6f69746361]⟩,
  -- blocks.getTransactionsExt id:ton.blockIdExt mode:# count:# after:blocks.accountTransactionId = blocks.TransactionsExt
  ⟨1731, 1613, 0xa4f004ce, [⟨52, none, false, .bare 1388⟩, ⟨0, none, false, .nat⟩, ⟨143, none, false, .nat⟩, ⟨219, none, false, .bare 1607⟩], unpackLE 117 [0x672e736b636f6c62, 0x61736e6172547465, 0x7845736e6f697463, 0x6e6f743a64692074, 0x64496b636f6c622e, 0x65646f6d20747845, 0x746e756f6320233a, 0x726574666120233a, 0x2e736b636f6c623a, 0x54746e756f636361, 0x69746361736e6172, 0x62203d2064496e6f, 0x72542e736b636f6c, 0x6f69746361736e61, 0x747845736e]⟩,
  -- blocks.getBlockHeader id:ton.blockIdExt = blocks.Header
  ⟨1732, 1615, 0x72262342, [⟨52, none, false, .bare 1388⟩], unpackLE 55 [0x672e736b636f6c62, 0x486b636f6c427465, 0x6469207265646165, 0x6f6c622e6e6f743a, 0x2074784564496b63, 0x736b636f6c62203d, 0x7265646165482e]⟩,
  -- blocks.getMasterchainBlockSignatures seqno:int32 = blocks.BlockSignatures
  ⟨1733, 1634, 0x606025d4, [⟨33, none, false, .bare 1325⟩], unpackLE 73 [0x672e736b636f6c62, 0x72657473614d7465, 0x6f6c426e69616863, 0x74616e6769536b63, 0x7165732073657275, 0x3233746e693a6f6e, 0x6b636f6c62203d20, 0x536b636f6c422e73, 0x65727574616e6769, 0x73]⟩,
  -- blocks.getShardBlockProof id:ton.blockIdExt mode:# from:mode.0?ton.blockIdExt = blocks.ShardBlockProof
  ⟨1734, 1640, 0x19ed9ee7, [⟨52, none, false, .bare 1388⟩, ⟨0, none, false, .nat⟩, ⟨130, some (0, 0), false, .bare 1388⟩], unpackLE 102 [0x672e736b636f6c62, 0x4264726168537465, 0x6f6f72506b636f6c, 0x6e6f743a64692066, 0x64496b636f6c622e, 0x65646f6d20747845, 0x3a6d6f726620233a, 0x743f302e65646f6d, 0x6b636f6c622e6e6f, 0x203d207478456449, 0x532e736b636f6c62, 0x636f6c4264726168, 0x666f6f72506b]⟩,
  -- onLiteServerQueryResult id:int64 bytes:bytes = Ok
  ⟨1735, 1062, 0x7a92da5e, [⟨52, none, false, .bare 1329⟩, ⟨14, none, false, .bytes⟩], unpackLE 49 [0x65536574694c6e6f, 0x7265755172657672, 0x20746c7573655279, 0x3436746e693a6469, 0x623a736574796220, 0x4f203d2073657479, 0x6b]⟩,
  -- onLiteServerQueryError id:int64 error:error = Ok
  ⟨1736, 1062, 0xd79f46b3, [⟨52, none, false, .bare 1329⟩, ⟨654, none, false, .bare 654⟩], unpackLE 48 [0x65536574694c6e6f, 0x7265755172657672, 0x6920726f72724579, 0x203436746e693a64, 0x72653a726f727265, 0x6b4f203d20726f72]⟩,
  -- withBlock id:ton.blockIdExt function:Function = Object
  ⟨1737, 11, 0xd0f762a5, [⟨52, none, false, .bare 1388⟩, ⟨12, none, false, .boxed 13⟩], unpackLE 54 [0x636f6c4268746977, 0x6e6f743a6469206b, 0x64496b636f6c622e, 0x636e756620747845, 0x6e75463a6e6f6974, 0x203d206e6f697463, 0x7463656a624f]⟩,
  -- runTests dir:string = Ok
  ⟨1738, 1062, 0x8669354d, [⟨1739, none, false, .string⟩], unpackLE 24 [0x73747365546e7572, 0x7274733a72696420, 0x6b4f203d20676e69]⟩,
  -- liteServer.getInfo = liteServer.Info
  ⟨1740, 1602, 0x558d5bee, [], unpackLE 36 [0x767265536574696c, 0x6e497465672e7265, 0x74696c203d206f66, 0x2e72657672655365, 0x6f666e49]⟩,
  -- setLogStream log_stream:LogStream = Ok
  ⟨1741, 1062, 0xaeaff791, [⟨1742, none, false, .boxed 1590⟩], unpackLE 38 [0x7453676f4c746573, 0x676f6c206d616572, 0x3a6d61657274735f, 0x6165727453676f4c, 0x6b4f203d206d]⟩,
  -- getLogStream = LogStream
  ⟨1743, 1590, 0x45984b5b, [], unpackLE 24 [0x7453676f4c746567, 0x4c203d206d616572, 0x6d6165727453676f]⟩,
  -- setLogVerbosityLevel new_verbosity_level:int32 = Ok
  ⟨1744, 1062, 0xedea07d2, [⟨1745, none, false, .bare 1325⟩], unpackLE 51 [0x6556676f4c746573, 0x4c797469736f6272, 0x77656e206c657665, 0x69736f627265765f, 0x6c6576656c5f7974, 0x3d203233746e693a, 0x6b4f20]⟩,
  -- getLogVerbosityLevel = LogVerbosityLevel
  ⟨1746, 1595, 0x23689ae4, [], unpackLE 40 [0x6556676f4c746567, 0x4c797469736f6272, 0x4c203d206c657665, 0x736f62726556676f, 0x6c6576654c797469]⟩,
  -- getLogTags = LogTags
  ⟨1747, 1598, 0xf0d569da, [], unpackLE 20 [0x6154676f4c746567, 0x676f4c203d207367, 0x73676154]⟩,
  -- setLogTagVerbosityLevel tag:string new_verbosity_level:int32 = Ok
  ⟨1748, 1062, 0x8317d696, [⟨859, none, false, .string⟩, ⟨1745, none, false, .bare 1325⟩], unpackLE 65 [0x6154676f4c746573, 0x69736f6272655667, 0x206c6576654c7974, 0x697274733a676174, 0x765f77656e20676e, 0x797469736f627265, 0x693a6c6576656c5f, 0x4f203d203233746e, 0x6b]⟩,
  -- getLogTagVerbosityLevel tag:string = LogVerbosityLevel
  ⟨1749, 1595, 0x38af2d83, [⟨859, none, false, .string⟩], unpackLE 54 [0x6154676f4c746567, 0x69736f6272655667, 0x206c6576654c7974, 0x697274733a676174, 0x676f4c203d20676e, 0x7469736f62726556, 0x6c6576654c79]⟩,
  -- addLogMessage verbosity_level:int32 text:string = Ok
  ⟨1750, 1062, 0x5f36cfec, [⟨1596, none, false, .bare 1325⟩, ⟨1482, none, false, .string⟩], unpackLE 52 [0x654d676f4c646461, 0x6576206567617373, 0x5f797469736f6272, 0x6e693a6c6576656c, 0x7478657420323374, 0x20676e697274733a, 0x6b4f203d]⟩
]

def chunks : List (List Ctor) := [chunk0, chunk1, chunk2, chunk3, chunk4, chunk5, chunk6, chunk7, chunk8, chunk9, chunk10, chunk11, chunk12, chunk13, chunk14, chunk15, chunk16, chunk17, chunk18, chunk19, chunk20]

def ctors : List Ctor := chunks.flatten

def table : Table := { ctors := ctors, modeKey := 0, flagsKey := 1, untouch := [(345, 16), (461, 16)] }

def numChunks : Nat := 21
def numCtors : Nat := 824

/-- interned names: constructor names, field names, classes (prefixed with `=`) -/
def strings : Array String := #[
  "mode", "flags", "int", "=Int", "long", "=Long", "double", "=Double",
  "string", "=String", "object", "=Object", "function", "=Function", "bytes", "=Bytes",
  "data", "true", "=True", "boolTrue", "=Bool", "boolFalse", "vector", "=t",
  "{t", "int128", "=Int128", "int256", "=Int256", "tonNode.blockId", "=tonNode.BlockId", "workchain",
  "shard", "seqno", "tonNode.blockIdExt", "=tonNode.BlockIdExt", "root_hash", "file_hash", "tonNode.zeroStateIdExt", "=tonNode.ZeroStateIdExt",
  "adnl.message.query", "=adnl.Message", "query_id", "query", "adnl.message.answer", "answer", "liteServer.error", "=liteServer.Error",
  "code", "message", "liteServer.accountId", "=liteServer.AccountId", "id", "liteServer.libraryEntry", "=liteServer.LibraryEntry", "hash",
  "liteServer.masterchainInfo", "=liteServer.MasterchainInfo", "last", "state_root_hash", "init", "liteServer.masterchainInfoExt", "=liteServer.MasterchainInfoExt", "version",
  "capabilities", "last_utime", "now", "liteServer.currentTime", "=liteServer.CurrentTime", "liteServer.version", "=liteServer.Version", "liteServer.blockData",
  "=liteServer.BlockData", "liteServer.blockState", "=liteServer.BlockState", "liteServer.blockHeader", "=liteServer.BlockHeader", "header_proof", "liteServer.sendMsgStatus", "=liteServer.SendMsgStatus",
  "status", "liteServer.accountState", "=liteServer.AccountState", "shardblk", "shard_proof", "proof", "state", "liteServer.runMethodResult",
  "=liteServer.RunMethodResult", "state_proof", "init_c7", "lib_extras", "exit_code", "result", "liteServer.shardInfo", "=liteServer.ShardInfo",
  "shard_descr", "liteServer.allShardsInfo", "=liteServer.AllShardsInfo", "liteServer.transactionInfo", "=liteServer.TransactionInfo", "transaction", "liteServer.transactionList", "=liteServer.TransactionList",
  "ids", "transactions", "liteServer.transactionId", "=liteServer.TransactionId", "account", "lt", "liteServer.transactionId3", "=liteServer.TransactionId3",
  "liteServer.blockTransactions", "=liteServer.BlockTransactions", "req_count", "incomplete", "liteServer.blockTransactionsExt", "=liteServer.BlockTransactionsExt", "liteServer.signature", "=liteServer.Signature",
  "node_id_short", "signature", "liteServer.signatureSet", "=liteServer.SignatureSet", "validator_set_hash", "catchain_seqno", "signatures", "liteServer.blockLinkBack",
  "=liteServer.BlockLink", "to_key_block", "from", "to", "dest_proof", "liteServer.blockLinkForward", "config_proof", "liteServer.partialBlockProof",
  "=liteServer.PartialBlockProof", "complete", "steps", "liteServer.configInfo", "=liteServer.ConfigInfo", "liteServer.validatorStats", "=liteServer.ValidatorStats", "count",
  "data_proof", "liteServer.libraryResult", "=liteServer.LibraryResult", "liteServer.libraryResultWithProof", "=liteServer.LibraryResultWithProof", "liteServer.shardBlockLink", "=liteServer.ShardBlockLink", "liteServer.shardBlockProof",
  "=liteServer.ShardBlockProof", "masterchain_id", "links", "liteServer.lookupBlockResult", "=liteServer.LookupBlockResult", "mc_block_id", "client_mc_state_proof", "mc_block_proof",
  "shard_links", "header", "prev_header", "liteServer.outMsgQueueSize", "=liteServer.OutMsgQueueSize", "size", "liteServer.outMsgQueueSizes", "=liteServer.OutMsgQueueSizes",
  "shards", "ext_msg_queue_size_limit", "liteServer.debug.verbosity", "=liteServer.debug.Verbosity", "value", "liteServer.nonfinal.candidateId", "=liteServer.nonfinal.CandidateId", "block_id",
  "creator", "collated_data_hash", "liteServer.nonfinal.candidate", "=liteServer.nonfinal.Candidate", "collated_data", "liteServer.nonfinal.candidateInfo", "=liteServer.nonfinal.CandidateInfo", "available",
  "approved_weight", "signed_weight", "total_weight", "liteServer.nonfinal.validatorGroupInfo", "=liteServer.nonfinal.ValidatorGroupInfo", "next_block_id", "cc_seqno", "prev",
  "candidates", "liteServer.nonfinal.validatorGroups", "=liteServer.nonfinal.ValidatorGroups", "groups", "liteServer.getMasterchainInfo", "liteServer.getMasterchainInfoExt", "liteServer.getTime", "liteServer.getVersion",
  "liteServer.getBlock", "liteServer.getState", "liteServer.getBlockHeader", "liteServer.sendMessage", "body", "liteServer.getAccountState", "liteServer.getAccountStatePrunned", "liteServer.runSmcMethod",
  "method_id", "params", "liteServer.getShardInfo", "exact", "liteServer.getAllShardsInfo", "liteServer.getOneTransaction", "liteServer.getTransactions", "liteServer.lookupBlock",
  "utime", "liteServer.lookupBlockWithProof", "liteServer.listBlockTransactions", "after", "reverse_order", "want_proof", "liteServer.listBlockTransactionsExt", "liteServer.getBlockProof",
  "known_block", "target_block", "liteServer.getConfigAll", "liteServer.getConfigParams", "param_list", "liteServer.getValidatorStats", "limit", "start_after",
  "modified_after", "liteServer.getLibraries", "library_list", "liteServer.getLibrariesWithProof", "liteServer.getShardBlockProof", "liteServer.getOutMsgQueueSizes", "wc", "liteServer.nonfinal.getValidatorGroups",
  "liteServer.nonfinal.getCandidate", "liteServer.queryPrefix", "liteServer.query", "liteServer.waitMasterchainSeqno", "timeout_ms", "testObject", "=TestObject", "o",
  "f", "testString", "testInt", "testVectorBytes", "tcp.pong", "=tcp.Pong", "random_id", "tcp.authentificate",
  "=tcp.Message", "nonce", "tcp.authentificationNonce", "tcp.authentificationComplete", "key", "fec.raptorQ", "=fec.Type", "data_size",
  "symbol_size", "symbols_count", "fec.roundRobin", "fec.online", "tcp.ping", "getTestObject", "pk.unenc", "=PrivateKey",
  "pk.ed25519", "pk.aes", "pk.overlay", "name", "pub.unenc", "=PublicKey", "pub.ed25519", "pub.aes",
  "pub.overlay", "adnl.id.short", "=adnl.id.Short", "adnl.proxyToFastHash", "=adnl.ProxyTo", "ip", "port", "date",
  "data_hash", "shared_secret", "adnl.proxyToFast", "=adnl.ProxyToSign", "adnl.proxy.none", "=adnl.Proxy", "adnl.proxy.fast", "adnl.address.udp",
  "=adnl.Address", "adnl.address.udp6", "adnl.address.tunnel", "pubkey", "adnl.address.reverse", "adnl.addressList", "=adnl.AddressList", "addrs",
  "reinit_date", "priority", "expire_at", "adnl.node", "=adnl.Node", "addr_list", "adnl.nodes", "=adnl.Nodes",
  "nodes", "adnl.packetContents", "=adnl.PacketContents", "rand1", "from_short", "messages", "address", "priority_address",
  "confirm_seqno", "recv_addr_list_version", "recv_priority_addr_list_version", "dst_reinit_date", "rand2", "adnl.tunnelPacketContents", "=adnl.TunnelPacketContents", "from_ip",
  "from_port", "statistics", "payment", "adnl.proxyPacketHeader", "=adnl.ProxyPacketHeader", "proxy_id", "adnl_start_time", "adnl.proxyControlPacketPing",
  "=adnl.ProxyControlPacket", "adnl.proxyControlPacketPong", "adnl.proxyControlPacketRegister", "adnl.message.createChannel", "adnl.message.confirmChannel", "peer_key", "adnl.message.custom", "adnl.message.nop",
  "adnl.message.reinit", "adnl.message.part", "total_size", "offset", "adnl.db.node.key", "=adnl.db.Key", "local_id", "peer_id",
  "adnl.db.node.value", "=adnl.db.node.Value", "priority_addr_list", "rldp2.messagePart", "=rldp2.MessagePart", "transfer_id", "fec_type", "part",
  "rldp2.confirm", "max_seqno", "received_mask", "received_count", "rldp2.complete", "rldp.messagePart", "=rldp.MessagePart", "rldp.confirm",
  "rldp.complete", "rldp.message", "=rldp.Message", "rldp.query", "max_answer_size", "timeout", "rldp.answer", "dht.node",
  "=dht.Node", "dht.nodes", "=dht.Nodes", "dht.key", "=dht.Key", "idx", "dht.updateRule.signature", "=dht.UpdateRule",
  "dht.updateRule.anybody", "dht.updateRule.overlayNodes", "dht.keyDescription", "=dht.KeyDescription", "update_rule", "dht.value", "=dht.Value", "ttl",
  "dht.pong", "=dht.Pong", "dht.valueNotFound", "=dht.ValueResult", "dht.valueFound", "dht.clientNotFound", "=dht.ReversePingResult", "dht.reversePingOk",
  "dht.stored", "=dht.Stored", "dht.message", "=dht.Message", "node", "dht.requestReversePingCont", "=dht.RequestReversePingCont", "target",
  "client", "dht.db.bucket", "=dht.db.Bucket", "dht.db.key.bucket", "=dht.db.Key", "dht.ping", "dht.store", "dht.findNode",
  "k", "dht.findValue", "dht.getSignedAddressList", "dht.registerReverseConnection", "dht.requestReversePing", "dht.query", "overlay.node.toSign", "=overlay.node.ToSign",
  "overlay", "overlay.node", "=overlay.Node", "overlay.nodes", "=overlay.Nodes", "overlay.message", "=overlay.Message", "overlay.broadcastList",
  "=overlay.BroadcastList", "hashes", "overlay.fec.received", "=overlay.Broadcast", "overlay.fec.completed", "overlay.broadcast.id", "=overlay.broadcast.Id", "src",
  "overlay.broadcastFec.id", "=overlay.broadcastFec.Id", "type", "overlay.broadcastFec.partId", "=overlay.broadcastFec.PartId", "broadcast_hash", "overlay.broadcast.toSign", "=overlay.broadcast.ToSign",
  "overlay.certificate", "=overlay.Certificate", "issued_by", "max_size", "overlay.certificateV2", "overlay.emptyCertificate", "overlay.certificateId", "=overlay.CertificateId",
  "overlay_id", "overlay.certificateIdV2", "overlay.unicast", "overlay.broadcast", "certificate", "overlay.broadcastFec", "fec", "overlay.broadcastFecShort",
  "part_data_hash", "overlay.broadcastNotFound", "overlay.getRandomPeers", "peers", "overlay.query", "overlay.getBroadcast", "overlay.getBroadcastList", "list",
  "overlay.db.nodes", "=overlay.db.Nodes", "overlay.db.key.nodes", "=overlay.db.Key", "catchain.block.id", "=catchain.block.Id", "incarnation", "height",
  "catchain.block.dep", "=catchain.block.Dep", "catchain.block.data", "=catchain.block.Data", "deps", "catchain.block", "=catchain.Block", "catchain.blocks",
  "=catchain.Blocks", "blocks", "catchain.blockUpdate", "=catchain.Update", "block", "catchain.block.data.badBlock", "=catchain.block.inner.Data", "catchain.block.data.fork",
  "left", "right", "catchain.block.data.nop", "catchain.firstblock", "=catchain.FirstBlock", "unique_hash", "catchain.difference", "=catchain.Difference",
  "sent_upto", "catchain.differenceFork", "catchain.blockNotFound", "=catchain.BlockResult", "catchain.blockResult", "catchain.getBlock", "catchain.getDifference", "rt",
  "validatorSession.round.id", "=validatorSession.round.Id", "session", "prev_block", "validatorSession.candidate.id", "=validatorSession.tempBlock.Id", "round", "block_hash",
  "validatorSession.message.startSession", "=validatorSession.Message", "validatorSession.message.finishSession", "validatorSession.message.submittedBlock", "=validatorSession.round.Message", "collated_data_file_hash", "validatorSession.message.approvedBlock", "candidate",
  "validatorSession.message.rejectedBlock", "reason", "validatorSession.message.commit", "validatorSession.message.vote", "attempt", "validatorSession.message.voteFor", "validatorSession.message.precommit", "validatorSession.message.empty",
  "validatorSession.pong", "=validatorSession.Pong", "validatorSession.candidateId", "=validatorSession.CandidateId", "validatorSession.blockUpdate", "=validatorSession.BlockUpdate", "ts", "actions",
  "validatorSession.candidate", "=validatorSession.Candidate", "validatorSession.compressedCandidate", "decompressed_size", "validatorSession.config", "=validatorSession.Config", "catchain_idle_timeout", "catchain_max_deps",
  "round_candidates", "next_candidate_delay", "round_attempt_duration", "max_round_attempts", "max_block_size", "max_collated_data_size", "validatorSession.configNew", "new_catchain_ids",
  "validatorSession.configVersioned", "validatorSession.catchainOptions", "=validatorSession.CatChainOptions", "idle_timeout", "max_deps", "block_hash_covers_data", "max_block_height_ceoff", "debug_disable_db",
  "validatorSession.configVersionedV2", "catchain_opts", "validatorSession.ping", "validatorSession.downloadCandidate", "hashable.bool", "=Hashable", "hashable.int32", "hashable.int64",
  "hashable.int256", "hashable.bytes", "hashable.pair", "hashable.vector", "hashable.validatorSessionOldRound", "approve_signatures", "hashable.validatorSessionRoundAttempt", "votes",
  "precommitted", "vote_for_inited", "vote_for", "hashable.validatorSessionRound", "locked_round", "locked_block", "first_attempt", "approved_blocks",
  "attempts", "hashable.blockSignature", "hashable.sentBlock", "hashable.sentBlockEmpty", "hashable.vote", "hashable.blockCandidate", "approved", "hashable.blockVoteCandidate",
  "hashable.blockCandidateAttempt", "hashable.cntVector", "hashable.cntSortedVector", "hashable.validatorSession", "old_rounds", "cur_round", "tonNode.sessionId", "=tonNode.SessionId",
  "opts_hash", "tonNode.blockSignature", "=tonNode.BlockSignature", "who", "tonNode.blockDescriptionEmpty", "=tonNode.BlockDescription", "tonNode.blockDescription", "tonNode.blocksDescription",
  "=tonNode.BlocksDescription", "tonNode.preparedProofEmpty", "=tonNode.PreparedProof", "tonNode.preparedProof", "tonNode.preparedProofLink", "tonNode.preparedState", "=tonNode.PreparedState", "tonNode.notFoundState",
  "tonNode.prepared", "=tonNode.Prepared", "tonNode.notFound", "tonNode.data", "=tonNode.Data", "tonNode.ihrMessage", "=tonNode.IhrMessage", "tonNode.externalMessage",
  "=tonNode.ExternalMessage", "tonNode.newShardBlock", "=tonNode.NewShardBlock", "tonNode.blockBroadcastCompressed.data", "=tonNode.blockBroadcaseCompressed.Data", "proof_data", "tonNode.blockBroadcast", "=tonNode.Broadcast",
  "tonNode.blockBroadcastCompressed", "compressed", "tonNode.ihrMessageBroadcast", "tonNode.externalMessageBroadcast", "tonNode.newShardBlockBroadcast", "tonNode.shardPublicOverlayId", "=tonNode.ShardPublicOverlayId", "zero_state_file_hash",
  "tonNode.privateBlockOverlayId", "=tonNode.PrivateBlockOverlayId", "tonNode.customOverlayId", "=tonNode.CustomOverlayId", "tonNode.keyBlocks", "=tonNode.KeyBlocks", "error", "ton.blockId",
  "=ton.BlockId", "root_cell_hash", "ton.blockIdApprove", "tonNode.dataFull", "=tonNode.DataFull", "is_link", "tonNode.dataFullCompressed", "tonNode.dataFullEmpty",
  "tonNode.capabilities", "=tonNode.Capabilities", "tonNode.success", "=tonNode.Success", "tonNode.archiveNotFound", "=tonNode.ArchiveInfo", "tonNode.archiveInfo", "tonNode.getNextBlockDescription",
  "tonNode.getNextBlocksDescription", "tonNode.getPrevBlocksDescription", "next_block", "cutoff_seqno", "tonNode.prepareBlockProof", "allow_partial", "tonNode.prepareKeyBlockProof", "tonNode.prepareBlockProofs",
  "tonNode.prepareKeyBlockProofs", "tonNode.prepareBlock", "tonNode.prepareBlocks", "tonNode.preparePersistentState", "masterchain_block", "tonNode.prepareZeroState", "tonNode.getNextKeyBlockIds", "tonNode.downloadNextBlockFull",
  "tonNode.downloadBlockFull", "tonNode.downloadBlock", "tonNode.downloadPersistentState", "tonNode.downloadPersistentStateSlice", "tonNode.downloadZeroState", "tonNode.downloadBlockProof", "tonNode.downloadKeyBlockProof", "tonNode.downloadBlockProofLink",
  "tonNode.downloadKeyBlockProofLink", "tonNode.getArchiveInfo", "masterchain_seqno", "tonNode.getArchiveSlice", "archive_id", "tonNode.getCapabilities", "tonNode.slave.sendExtMessage", "tonNode.query",
  "db.root.dbDescription", "=db.root.DbDescription", "first_masterchain_block_id", "db.root.key.cellDb", "=db.root.Key", "db.root.key.blockDb", "db.root.config", "=db.root.Config",
  "celldb_version", "blockdb_version", "db.root.key.config", "db.celldb.value", "=db.celldb.Value", "next", "db.celldb.key.value", "=db.celldb.key.Value",
  "db.block.info", "=db.block.Info", "prev_left", "prev_right", "next_left", "next_right", "masterchain_ref_seqno", "db.block.packedInfo",
  "unixtime", "db.block.archivedInfo", "db.blockdb.value", "=db.blockdb.Value", "db.blockdb.lru", "=db.blockdb.Lru", "db.blockdb.key.lru", "=db.blockdb.Key",
  "db.blockdb.key.value", "db.candidate", "=db.Candidate", "source", "db.candidate.id", "=db.candidate.Id", "db.filedb.key.empty", "=db.filedb.Key",
  "db.filedb.key.blockFile", "db.filedb.key.zeroStateFile", "db.filedb.key.persistentStateFile", "masterchain_block_id", "db.filedb.key.proof", "db.filedb.key.proofLink", "db.filedb.key.signatures", "db.filedb.key.candidate",
  "db.filedb.key.blockInfo", "db.filedb.value", "=db.filedb.Value", "db.state.destroyedSessions", "=db.state.DestroyedSessions", "sessions", "db.state.initBlockId", "=db.state.InitBlockId",
  "db.state.gcBlockId", "=db.state.GcBlockId", "db.state.shardClient", "=db.state.ShardClient", "db.state.asyncSerializer", "=db.state.AsyncSerializer", "last_ts", "db.state.hardforks",
  "=db.state.Hardforks", "db.state.dbVersion", "=db.state.DbVersion", "db.state.key.destroyedSessions", "=db.state.Key", "db.state.key.initBlockId", "db.state.key.gcBlockId", "db.state.key.shardClient",
  "db.state.key.asyncSerializer", "db.state.key.hardforks", "db.state.key.dbVersion", "db.lt.el.key", "=db.lt.Key", "db.lt.desc.key", "db.lt.shard.key", "db.lt.status.key",
  "db.lt.el.value", "=db.lt.el.Value", "db.lt.desc.value", "=db.lt.desc.Value", "first_idx", "last_idx", "last_seqno", "last_lt",
  "db.lt.shard.value", "=db.lt.shard.Value", "db.lt.status.value", "=db.lt.status.Value", "total_shards", "db.files.index.key", "=db.files.Key", "db.files.package.key",
  "package_id", "temp", "db.files.index.value", "=db.files.index.Value", "packages", "key_packages", "temp_packages", "db.files.package.firstBlock",
  "=db.files.package.FirstBlock", "db.files.package.value", "=db.files.package.Value", "firstblocks", "deleted", "validator.groupMember", "=engine.validator.GroupMember", "public_key_hash",
  "adnl", "weight", "validator.group", "=validator.Group", "config_hash", "members", "validator.groupEx", "vertical_seqno",
  "validator.groupNew", "last_key_block_seqno", "id.config.local", "=id.config.Local", "dht.config.local", "=dht.config.Local", "dht.config.random.local", "cnt",
  "liteserver.config.local", "=liteserver.config.Local", "liteserver.config.random.local", "validator.config.local", "=validator.config.Local", "validator.config.random.local", "control.config.local", "=control.config.Local",
  "priv", "pub", "config.local", "=config.Local", "local_ids", "dht", "validators", "liteservers",
  "control", "dht.config.global", "=dht.config.Global", "static_nodes", "a", "dht.config.global_v2", "network_id", "adnl.config.global",
  "=adnl.config.Global", "catchain.config.global", "=catchain.config.Global", "tag", "dummyworkchain0.config.global", "=dummyworkchain0.config.Global", "zero_state_hash", "validator.config.global",
  "=validator.config.Global", "zero_state", "init_block", "hardforks", "config.global", "=config.Global", "validator", "liteserver.desc",
  "=liteserver.Desc", "liteclient.config.global", "=liteclient.config.Global", "engine.adnl", "=engine.Adnl", "category", "engine.addr", "=engine.Addr",
  "categories", "priority_categories", "engine.addrProxy", "in_ip", "in_port", "out_ip", "out_port", "proxy_type",
  "engine.dht", "=engine.Dht", "engine.validatorTempKey", "=engine.ValidatorTempKey", "engine.validatorAdnlAddress", "=engine.ValidatorAdnlAddress", "engine.validator", "=engine.Validator",
  "temp_keys", "adnl_addrs", "election_date", "engine.liteServer", "=engine.LiteServer", "engine.controlProcess", "=engine.ControlProcess", "permissions",
  "engine.controlInterface", "=engine.ControlInterface", "allowed", "engine.gc", "=engine.Gc", "engine.dht.config", "=engine.dht.Config", "gc",
  "engine.validator.fullNodeMaster", "=engine.validator.FullNodeMaster", "engine.validator.fullNodeSlave", "=engine.validator.FullNodeSlave", "engine.validator.fullNodeConfig", "=engine.validator.FullNodeConfig", "ext_messages_broadcast_disabled", "engine.validator.config",
  "=engine.validator.Config", "fullnode", "fullnodeslaves", "fullnodemasters", "fullnodeconfig", "engine.validator.customOverlayNode", "=engine.validator.CustomOverlayNode", "adnl_id",
  "msg_sender", "msg_sender_priority", "engine.validator.customOverlay", "=engine.validator.CustomOverlay", "engine.validator.customOverlaysConfig", "=engine.validator.CustomOverlaysConfig", "overlays", "engine.adnlProxy.port",
  "=engine.adnlProxy.Port", "dst_ip", "dst_port", "engine.adnlProxy.config", "=engine.adnlProxy.Config", "ports", "adnl.pong", "=adnl.Pong",
  "adnl.ping", "engine.validator.keyHash", "=engine.validator.KeyHash", "key_hash", "engine.validator.signature", "=engine.validator.Signature", "engine.validator.oneStat", "=engine.validator.OneStat",
  "engine.validator.stats", "=engine.validator.Stats", "stats", "engine.validator.controlQueryError", "=engine.validator.ControlQueryError", "engine.validator.time", "=engine.validator.Time", "time",
  "engine.validator.success", "=engine.validator.Success", "engine.validator.jsonConfig", "=engine.validator.JsonConfig", "engine.validator.electionBid", "=engine.validator.ElectionBid", "perm_key", "adnl_addr",
  "to_send_payload", "engine.validator.proposalVote", "=engine.validator.ProposalVote", "to_send", "engine.validator.dhtServerStatus", "=engine.validator.DhtServerStatus", "engine.validator.dhtServersStatus", "=engine.validator.DhtServersStatus",
  "servers", "engine.validator.overlayStatsNode", "=engine.validator.OverlayStatsNode", "ip_addr", "bdcst_errors", "fec_bdcst_errors", "last_in_query", "last_out_query",
  "t_out_bytes", "t_in_bytes", "t_out_pckts", "t_in_pckts", "engine.validator.overlayStats", "=engine.validator.OverlayStats", "overlay_id_full", "scope",
  "engine.validator.overlaysStats", "=engine.validator.OverlaysStats", "engine.validator.onePerfTimerStat", "=engine.validator.OnePerfTimerStat", "min", "avg", "max", "engine.validator.perfTimerStatsByName",
  "=engine.validator.PerfTimerStatsByName", "engine.validator.perfTimerStats", "=engine.validator.PerfTimerStats", "engine.validator.shardOutQueueSize", "=engine.validator.ShardOutQueueSize", "engine.validator.getTime", "engine.validator.importPrivateKey", "engine.validator.exportPrivateKey",
  "engine.validator.exportPublicKey", "engine.validator.generateKeyPair", "engine.validator.addAdnlId", "engine.validator.addDhtId", "engine.validator.addValidatorPermanentKey", "engine.validator.addValidatorTempKey", "permanent_key_hash", "engine.validator.addValidatorAdnlAddress",
  "engine.validator.changeFullNodeAdnlAddress", "engine.validator.addLiteserver", "engine.validator.addControlInterface", "engine.validator.addControlProcess", "engine.validator.delAdnlId", "engine.validator.delDhtId", "engine.validator.delValidatorPermanentKey", "engine.validator.delValidatorTempKey",
  "engine.validator.delValidatorAdnlAddress", "engine.validator.addListeningPort", "engine.validator.addProxy", "proxy", "engine.validator.delListeningPort", "engine.validator.delProxy", "engine.validator.sign", "engine.validator.getStats",
  "engine.validator.getConfig", "engine.validator.setVerbosity", "verbosity", "engine.validator.createElectionBid", "election_addr", "wallet", "engine.validator.createProposalVote", "vote",
  "engine.validator.createComplaintVote", "election_id", "engine.validator.checkDhtServers", "engine.validator.getOverlaysStats", "engine.validator.controlQuery", "engine.validator.importCertificate", "signed_key", "cert",
  "engine.validator.signShardOverlayCertificate", "engine.validator.importShardOverlayCertificate", "engine.validator.getPerfTimerStats", "engine.validator.getShardOutQueueSize", "dest_wc", "dest_shard", "engine.validator.setExtMessagesBroadcastDisabled", "disabled",
  "engine.validator.addCustomOverlay", "engine.validator.delCustomOverlay", "engine.validator.showCustomOverlays", "storage.pong", "=storage.Pong", "storage.ok", "=Ok", "storage.state",
  "=storage.State", "will_upload", "want_download", "storage.piece", "=storage.Piece", "storage.torrentInfo", "=storage.TorrentInfo", "storage.updateInit",
  "=storage.Update", "have_pieces", "have_pieces_offset", "storage.updateHavePieces", "piece_id", "storage.updateState", "storage.ping", "session_id",
  "storage.addUpdate", "update", "storage.getTorrentInfo", "storage.getPiece", "http.header", "=http.Header", "http.payloadPart", "=http.PayloadPart",
  "trailer", "http.response", "=http.Response", "http_version", "status_code", "headers", "no_payload", "http.proxy.capabilities",
  "=http.proxy.Capabilities", "http.request", "method", "url", "http.getNextPayloadPart", "max_chunk_size", "http.proxy.getCapabilities", "http.server.dnsEntry",
  "=http.server.DnsEntry", "domain", "addr", "http.server.host", "=http.server.Host", "domains", "http.server.config", "=http.server.Config",
  "dhs", "local_hosts", "validatorSession.statsProducer", "=validatorSession.StatsProducer", "candidate_id", "block_status", "block_timestamp", "comment",
  "validatorSession.statsRound", "=validatorSession.StatsRound", "timestamp", "producers", "validatorSession.stats", "=validatorSession.Stats", "success", "self",
  "total_validators", "signatures_weight", "approve_signatures_weight", "first_round", "rounds", "storage.db.key.torrentList", "=storage.db.key.TorrentList", "storage.db.key.torrent",
  "=storage.db.key.TorrentShort", "storage.db.key.torrentMeta", "=storage.db.key.TorrentMeta", "storage.db.key.priorities", "=storage.db.key.Priorities", "storage.db.key.piecesInDb", "=storage.db.key.PiecesInDb", "storage.db.key.pieceInDb",
  "=storage.db.key.PieceInDb", "storage.db.key.config", "=storage.db.key.Config", "storage.db.config", "=storage.db.Config", "download_speed_limit", "upload_speed_limit", "storage.db.torrentList",
  "=storage.db.TorrentList", "torrents", "storage.db.torrent", "=storage.db.TorrentShort", "root_dir", "active_download", "active_upload", "storage.db.torrentV2",
  "added_at", "storage.db.priorities", "=storage.db.Priorities", "storage.db.piecesInDb", "=storage.db.PiecesInDb", "pieces", "storage.priorityAction.all", "=storage.PriorityAction",
  "storage.priorityAction.idx", "storage.priorityAction.name", "storage.daemon.config", "=storage.daemon.provider.Config", "server_key", "cli_key_hash", "provider_address", "dht_id",
  "storage.daemon.provider.params", "=storage.daemon.provider.Params", "accept_new_contracts", "rate_per_mb_day", "max_span", "minimal_file_size", "maximal_file_size", "storage.provider.db.key.state",
  "=storage.provider.db.key.State", "storage.provider.db.key.contractList", "=storage.provider.db.key.ContractList", "storage.provider.db.key.storageContract", "=storage.provider.db.key.StorageContract", "storage.provider.db.key.microchunkTree", "=storage.provider.db.key.MicrochunkTree", "storage.provider.db.key.providerConfig",
  "=storage.provider.db.key.ProviderConfig", "storage.provider.db.state", "=storage.provider.db.State", "last_processed_lt", "storage.provider.db.contractAddress", "=storage.db.ContractAddress", "storage.provider.db.contractList", "=storage.db.ContractList",
  "contracts", "storage.provider.db.storageContract", "=storage.provider.db.StorageContract", "torrent_hash", "microchunk_hash", "created_time", "file_size", "rate",
  "storage.provider.db.microchunkTree", "=storage.provider.db.MicrochunkTree", "storage.daemon.queryError", "=storage.daemon.QueryError", "storage.daemon.success", "=storage.daemon.Success", "storage.daemon.torrent", "=storage.daemon.Torrent",
  "description", "files_count", "included_size", "dir_name", "downloaded_size", "completed", "download_speed", "upload_speed",
  "fatal_error", "storage.daemon.fileInfo", "=storage.daemon.FileInfo", "storage.daemon.torrentFull", "=storage.daemon.TorrentFull", "torrent", "files", "storage.daemon.torrentList",
  "=storage.daemon.TorrentList", "storage.daemon.torrentMeta", "=storage.daemon.TorrentMeta", "meta", "storage.daemon.filePiecesInfo", "=storage.daemon.FilePiecesInfo", "range_l", "range_r",
  "storage.daemon.torrentPiecesInfo", "=storage.daemon.TorrentPiecesInfo", "total_pieces", "piece_size", "piece_ready_bitset", "storage.daemon.newContractParams", "=storage.daemon.NewContractParams", "storage.daemon.newContractParamsAuto",
  "storage.daemon.newContractMessage", "=storage.daemon.NewContractMessage", "storage.daemon.peer", "=storage.daemon.Peer", "ip_str", "ready_parts", "storage.daemon.peerList", "=storage.daemon.PeerList",
  "total_parts", "storage.daemon.prioritySet", "=storage.daemon.SetPriorityStatus", "storage.daemon.priorityPending", "storage.daemon.keyHash", "=storage.daemon.KeyHash", "storage.daemon.speedLimits", "=storage.daemon.SpeedLimits",
  "download", "upload", "storage.daemon.providerConfig", "=storage.daemon.ProviderConfig", "max_contracts", "max_total_size", "storage.daemon.contractInfo", "=storage.daemon.ContractInfo",
  "client_balance", "contract_balance", "storage.daemon.providerInfo", "=storage.daemon.ProviderInfo", "balance", "config", "contracts_count", "contracts_total_size",
  "storage.daemon.providerAddress", "=storage.daemon.ProviderAddress", "storage.daemon.setVerbosity", "storage.daemon.createTorrent", "path", "allow_upload", "copy_inside", "storage.daemon.addByHash",
  "start_download", "priorities", "storage.daemon.addByMeta", "storage.daemon.setActiveDownload", "active", "storage.daemon.setActiveUpload", "storage.daemon.getTorrents", "storage.daemon.getTorrentFull",
  "storage.daemon.getTorrentMeta", "storage.daemon.getNewContractMessage", "storage.daemon.getTorrentPeers", "storage.daemon.getTorrentPiecesInfo", "max_pieces", "storage.daemon.setFilePriorityAll", "storage.daemon.setFilePriorityByIdx", "storage.daemon.setFilePriorityByName",
  "storage.daemon.removeTorrent", "remove_files", "storage.daemon.loadFrom", "storage.daemon.getSpeedLimits", "storage.daemon.setSpeedLimits", "storage.daemon.importPrivateKey", "storage.daemon.initProvider", "account_address",
  "storage.daemon.deployProvider", "storage.daemon.getProviderParams", "storage.daemon.setProviderParams", "storage.daemon.getProviderInfo", "with_balances", "with_contracts", "storage.daemon.setProviderConfig", "storage.daemon.withdraw",
  "contract", "storage.daemon.sendCoins", "amount", "storage.daemon.closeStorageContract", "storage.daemon.removeStorageProvider", "int32", "=Int32", "int53",
  "=Int53", "int64", "=Int64", "secureString", "=SecureString", "secureBytes", "=SecureBytes", "=Error",
  "ok", "keyStoreTypeDirectory", "=KeyStoreType", "directory", "keyStoreTypeInMemory", "=Config", "blockchain_name", "use_callbacks_for_network",
  "ignore_cache", "options", "=Options", "keystore_type", "options.configInfo", "=options.ConfigInfo", "default_wallet_id", "default_rwallet_init_public_key",
  "options.info", "=options.Info", "config_info", "=Key", "public_key", "secret", "inputKeyRegular", "=InputKey",
  "local_password", "inputKeyFake", "exportedKey", "=ExportedKey", "word_list", "exportedPemKey", "=ExportedPemKey", "pem",
  "exportedEncryptedKey", "=ExportedEncryptedKey", "exportedUnencryptedKey", "=ExportedUnencryptedKey", "bip39Hints", "=Bip39Hints", "words", "adnlAddress",
  "=AdnlAddress", "adnl_address", "accountAddress", "=AccountAddress", "unpackedAccountAddress", "=UnpackedAccountAddress", "workchain_id", "bounceable",
  "testnet", "internal.transactionId", "=internal.TransactionId", "=internal.BlockId", "ton.blockIdExt", "=ton.BlockIdExt", "raw.fullAccountState", "=raw.FullAccountState",
  "last_transaction_id", "frozen_hash", "sync_utime", "raw.message", "=raw.Message", "destination", "fwd_fee", "ihr_fee",
  "created_lt", "body_hash", "msg_data", "raw.transaction", "=raw.Transaction", "transaction_id", "fee", "storage_fee",
  "other_fee", "in_msg", "out_msgs", "raw.transactions", "=raw.Transactions", "previous_transaction_id", "raw.extMessageInfo", "=raw.ExtMessageInfo",
  "pchan.config", "=pchan.Config", "alice_public_key", "alice_address", "bob_public_key", "bob_address", "init_timeout", "close_timeout",
  "channel_id", "raw.initialAccountState", "=InitialAccountState", "wallet.v3.initialAccountState", "wallet_id", "wallet.highload.v1.initialAccountState", "wallet.highload.v2.initialAccountState", "rwallet.limit",
  "=rwallet.Limit", "seconds", "rwallet.config", "=rwallet.Config", "start_at", "limits", "rwallet.initialAccountState", "init_public_key",
  "dns.initialAccountState", "pchan.initialAccountState", "raw.accountState", "=AccountState", "wallet.v3.accountState", "wallet.highload.v1.accountState", "wallet.highload.v2.accountState", "dns.accountState",
  "rwallet.accountState", "unlocked_balance", "pchan.stateInit", "=pchan.State", "signed_A", "signed_B", "min_A", "min_B",
  "A", "B", "pchan.stateClose", "pchan.statePayout", "pchan.accountState", "uninited.accountState", "fullAccountState", "=FullAccountState",
  "account_state", "revision", "accountRevisionList", "=AccountRevisionList", "revisions", "accountList", "=AccountList", "accounts",
  "syncStateDone", "=SyncState", "syncStateInProgress", "from_seqno", "to_seqno", "current_seqno", "msg.dataRaw", "=msg.Data",
  "init_state", "msg.dataText", "text", "msg.dataDecryptedText", "msg.dataEncryptedText", "msg.dataEncrypted", "=msg.DataEncrypted", "msg.dataDecrypted",
  "=msg.DataDecrypted", "msg.dataEncryptedArray", "=msg.DataEncryptedArray", "elements", "msg.dataDecryptedArray", "=msg.DataDecryptedArray", "msg.message", "=msg.Message",
  "send_mode", "dns.entryDataUnknown", "=dns.EntryData", "dns.entryDataText", "dns.entryDataNextResolver", "resolver", "dns.entryDataSmcAddress", "smc_address",
  "dns.entryDataAdnlAddress", "dns.entryDataStorageAddress", "bag_id", "dns.entry", "=dns.Entry", "entry", "dns.actionDeleteAll", "=dns.Action",
  "dns.actionDelete", "dns.actionSet", "dns.resolved", "=dns.Resolved", "entries", "pchan.promise", "=pchan.Promise", "promise_A",
  "promise_B", "pchan.actionInit", "=pchan.Action", "inc_A", "inc_B", "pchan.actionClose", "extra_A", "extra_B",
  "promise", "pchan.actionTimeout", "rwallet.actionInit", "=rwallet.Action", "actionNoop", "=Action", "actionMsg", "allow_send_to_uninited",
  "actionDns", "actionPchan", "action", "actionRwallet", "fees", "=Fees", "in_fwd_fee", "gas_fee",
  "query.fees", "=query.Fees", "source_fees", "destination_fees", "query.info", "=query.Info", "valid_until", "tvm.slice",
  "=tvm.Slice", "tvm.cell", "=tvm.Cell", "tvm.numberDecimal", "=tvm.Number", "number", "tvm.tuple", "=tvm.Tuple",
  "tvm.list", "=tvm.List", "tvm.stackEntrySlice", "=tvm.StackEntry", "slice", "tvm.stackEntryCell", "cell", "tvm.stackEntryNumber",
  "tvm.stackEntryTuple", "tuple", "tvm.stackEntryList", "tvm.stackEntryUnsupported", "smc.info", "=smc.Info", "smc.methodIdNumber", "=smc.MethodId",
  "smc.methodIdName", "smc.runResult", "=smc.RunResult", "gas_used", "stack", "smc.libraryEntry", "=smc.LibraryEntry", "smc.libraryResult",
  "=smc.LibraryResult", "updateSendLiteServerQuery", "=Update", "updateSyncState", "sync_state", "logStreamDefault", "=LogStream", "logStreamFile",
  "max_file_size", "logStreamEmpty", "logVerbosityLevel", "=LogVerbosityLevel", "verbosity_level", "logTags", "=LogTags", "tags",
  "=Data", "liteServer.info", "=liteServer.Info", "blocks.masterchainInfo", "=blocks.MasterchainInfo", "blocks.shards", "=blocks.Shards", "blocks.accountTransactionId",
  "=blocks.AccountTransactionId", "blocks.shortTxId", "blocks.transactions", "=blocks.Transactions", "blocks.transactionsExt", "=blocks.TransactionsExt", "blocks.header", "=blocks.Header",
  "global_id", "after_merge", "after_split", "before_split", "want_merge", "want_split", "validator_list_hash_short", "min_ref_mc_seqno",
  "is_key_block", "prev_key_block_seqno", "start_lt", "end_lt", "gen_utime", "vert_seqno", "prev_blocks", "blocks.signature",
  "=blocks.Signature", "blocks.blockSignatures", "=blocks.BlockSignatures", "blocks.shardBlockLink", "=blocks.ShardBlockLink", "blocks.blockLinkBack", "=blocks.BlockLinkBack", "blocks.shardBlockProof",
  "=blocks.ShardBlockProof", "mc_id", "mc_proof", "configInfo", "=ConfigInfo", "close", "options.setConfig", "options.validateConfig",
  "createNewKey", "mnemonic_password", "random_extra_seed", "deleteKey", "deleteAllKeys", "exportKey", "input_key", "exportPemKey",
  "key_password", "exportEncryptedKey", "exportUnencryptedKey", "importKey", "exported_key", "importPemKey", "importEncryptedKey", "exported_encrypted_key",
  "importUnencryptedKey", "exported_unencrypted_key", "changeLocalPassword", "new_local_password", "encrypt", "decrypted_data", "decrypt", "encrypted_data",
  "kdf", "password", "salt", "iterations", "unpackAccountAddress", "packAccountAddress", "getBip39Hints", "prefix",
  "raw.getAccountState", "raw.getAccountStateByTransaction", "raw.getTransactions", "private_key", "from_transaction_id", "raw.getTransactionsV2", "try_decode_messages", "raw.sendMessage",
  "raw.sendMessageReturnHash", "raw.createAndSendMessage", "initial_account_state", "raw.createQuery", "init_code", "init_data", "sync", "getAccountAddress",
  "guessAccountRevision", "guessAccount", "rwallet_init_public_key", "getAccountState", "getAccountStateByTransaction", "getShardAccountCell", "getShardAccountCellByTransaction", "createQuery",
  "getConfigParam", "param", "getConfigAll", "msg.decrypt", "msg.decryptWithProof", "query.send", "query.forget", "query.estimateFees",
  "ignore_chksig", "query.getInfo", "smc.load", "smc.loadByTransaction", "smc.forget", "smc.getCode", "smc.getData", "smc.getState",
  "smc.runGetMethod", "smc.getLibraries", "dns.resolve", "pchan.signPromise", "pchan.validatePromise", "pchan.packPromise", "pchan.unpackPromise", "blocks.getMasterchainInfo",
  "blocks.getShards", "blocks.lookupBlock", "blocks.getTransactions", "blocks.getTransactionsExt", "blocks.getBlockHeader", "blocks.getMasterchainBlockSignatures", "blocks.getShardBlockProof", "onLiteServerQueryResult",
  "onLiteServerQueryError", "withBlock", "runTests", "dir", "liteServer.getInfo", "setLogStream", "log_stream", "getLogStream",
  "setLogVerbosityLevel", "new_verbosity_level", "getLogVerbosityLevel", "getLogTags", "setLogTagVerbosityLevel", "getLogTagVerbosityLevel", "addLogMessage"
]

end TonVerif.Generated.Tl
