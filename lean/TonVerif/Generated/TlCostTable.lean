/- GENERATED from pytoniq_core/tl/schemas/*.tl through pytoniq_core/tl/generator.py by harness/translate/tl_cost.py (= harness.props.C19.TlEnv(full=True).table); do not edit. -/
import TonVerif.Model.Cost
namespace TonVerif.Generated.TlCost
open TonVerif.Model.Cost.Tl

def chunk0 : List Schema := [
  ⟨[255, 255, 255, 255, 255], []⟩,  -- 0 int
  ⟨[255, 255, 255, 255, 255], []⟩,  -- 1 long
  ⟨[255, 255, 255, 255, 255], []⟩,  -- 2 double
  ⟨[255, 255, 255, 255, 255], []⟩,  -- 3 string
  ⟨[255, 255, 255, 255, 255], []⟩,  -- 4 object
  ⟨[255, 255, 255, 255, 255], []⟩,  -- 5 function
  ⟨[255, 255, 255, 255, 255], [⟨none, .bytes true⟩]⟩,  -- 6 bytes
  ⟨[255, 255, 255, 255, 255], []⟩,  -- 7 true
  ⟨[255, 255, 255, 255, 255], []⟩,  -- 8 boolTrue
  ⟨[255, 255, 255, 255, 255], []⟩,  -- 9 boolFalse
  ⟨[255, 255, 255, 255, 255], [⟨none, .sub none⟩]⟩,  -- 10 vector
  ⟨[255, 255, 255, 255, 255], []⟩,  -- 11 int128
  ⟨[255, 255, 255, 255, 255], []⟩,  -- 12 int256
  ⟨[255, 255, 255, 255, 255], [⟨none, .fixed 4 0⟩, ⟨none, .fixed 8 0⟩, ⟨none, .fixed 4 0⟩]⟩,  -- 13 tonNode.blockId
  ⟨[255, 255, 255, 255, 255], [⟨none, .fixed 4 0⟩, ⟨none, .fixed 8 0⟩, ⟨none, .fixed 4 0⟩, ⟨none, .fixed 32 0⟩, ⟨none, .fixed 32 0⟩]⟩,  -- 14 tonNode.blockIdExt
  ⟨[255, 255, 255, 255, 255], [⟨none, .fixed 4 0⟩, ⟨none, .fixed 32 0⟩, ⟨none, .fixed 32 0⟩]⟩,  -- 15 tonNode.zeroStateIdExt
  ⟨[255, 255, 255, 255, 255], [⟨none, .fixed 32 0⟩, ⟨none, .bytes true⟩]⟩,  -- 16 adnl.message.query
  ⟨[255, 255, 255, 255, 255], [⟨none, .fixed 32 0⟩, ⟨none, .bytes true⟩]⟩,  -- 17 adnl.message.answer
  ⟨[72, 225, 169, 187], [⟨none, .fixed 4 0⟩, ⟨none, .bytes true⟩]⟩,  -- 18 liteServer.error
  ⟨[197, 226, 160, 117], [⟨none, .fixed 4 0⟩, ⟨none, .fixed 32 0⟩]⟩,  -- 19 liteServer.accountId
  ⟨[70, 36, 255, 138], [⟨none, .fixed 32 0⟩, ⟨none, .bytes true⟩]⟩,  -- 20 liteServer.libraryEntry
  ⟨[129, 40, 131, 133], [⟨none, .sub (some 278)⟩, ⟨none, .fixed 32 0⟩, ⟨none, .sub (some 279)⟩]⟩,  -- 21 liteServer.masterchainInfo
  ⟨[245, 224, 204, 168], [⟨none, .fixed 4 2⟩, ⟨none, .fixed 4 0⟩, ⟨none, .fixed 8 0⟩, ⟨none, .sub (some 278)⟩, ⟨none, .fixed 4 0⟩, ⟨none, .fixed 4 0⟩, ⟨none, .fixed 32 0⟩, ⟨none, .sub (some 279)⟩]⟩,  -- 22 liteServer.masterchainInfoExt
  ⟨[13, 0, 83, 233], [⟨none, .fixed 4 0⟩]⟩,  -- 23 liteServer.currentTime
  ⟨[229, 145, 4, 90], [⟨none, .fixed 4 2⟩, ⟨none, .fixed 4 0⟩, ⟨none, .fixed 8 0⟩, ⟨none, .fixed 4 0⟩]⟩,  -- 24 liteServer.version
  ⟨[108, 237, 116, 165], [⟨none, .sub (some 278)⟩, ⟨none, .bytes true⟩]⟩,  -- 25 liteServer.blockData
  ⟨[12, 220, 173, 171], [⟨none, .sub (some 278)⟩, ⟨none, .fixed 32 0⟩, ⟨none, .fixed 32 0⟩, ⟨none, .bytes true⟩]⟩,  -- 26 liteServer.blockState
  ⟨[25, 130, 45, 117], [⟨none, .sub (some 278)⟩, ⟨none, .fixed 4 2⟩, ⟨none, .bytes true⟩]⟩,  -- 27 liteServer.blockHeader
  ⟨[151, 229, 80, 57], [⟨none, .fixed 4 0⟩]⟩,  -- 28 liteServer.sendMsgStatus
  ⟨[81, 199, 121, 112], [⟨none, .sub (some 278)⟩, ⟨none, .sub (some 278)⟩, ⟨none, .bytes true⟩, ⟨none, .bytes true⟩, ⟨none, .bytes true⟩]⟩,  -- 29 liteServer.accountState
  ⟨[107, 97, 154, 163], [⟨none, .fixed 4 2⟩, ⟨none, .sub (some 278)⟩, ⟨none, .sub (some 278)⟩, ⟨some 0, .bytes true⟩, ⟨some 0, .bytes true⟩, ⟨some 1, .bytes true⟩, ⟨some 3, .bytes true⟩, ⟨some 4, .bytes true⟩, ⟨none, .fixed 4 0⟩, ⟨some 2, .bytes true⟩]⟩,  -- 30 liteServer.runMethodResult
  ⟨[132, 205, 230, 159], [⟨none, .sub (some 278)⟩, ⟨none, .sub (some 278)⟩, ⟨none, .bytes true⟩, ⟨none, .bytes true⟩]⟩,  -- 31 liteServer.shardInfo
  ⟨[45, 231, 143, 9], [⟨none, .sub (some 278)⟩, ⟨none, .bytes true⟩, ⟨none, .bytes true⟩]⟩,  -- 32 liteServer.allShardsInfo
  ⟨[71, 237, 222, 14], [⟨none, .sub (some 278)⟩, ⟨none, .bytes true⟩, ⟨none, .bytes true⟩]⟩,  -- 33 liteServer.transactionInfo
  ⟨[11, 198, 38, 111], [⟨none, .vec (some 278)⟩, ⟨none, .bytes true⟩]⟩,  -- 34 liteServer.transactionList
  ⟨[175, 101, 47, 177], [⟨none, .fixed 4 2⟩, ⟨some 0, .fixed 32 0⟩, ⟨some 1, .fixed 8 0⟩, ⟨some 2, .fixed 32 0⟩]⟩,  -- 35 liteServer.transactionId
  ⟨[119, 218, 129, 44], [⟨none, .fixed 32 0⟩, ⟨none, .fixed 8 0⟩]⟩,  -- 36 liteServer.transactionId3
  ⟨[43, 173, 140, 189], [⟨none, .sub (some 278)⟩, ⟨none, .fixed 4 0⟩, ⟨none, .fixed 4 0⟩, ⟨none, .vec (some 35)⟩, ⟨none, .bytes true⟩]⟩,  -- 37 liteServer.blockTransactions
  ⟨[228, 252, 143, 251], [⟨none, .sub (some 278)⟩, ⟨none, .fixed 4 0⟩, ⟨none, .fixed 4 0⟩, ⟨none, .bytes true⟩, ⟨none, .bytes true⟩]⟩,  -- 38 liteServer.blockTransactionsExt
  ⟨[85, 248, 222, 163], [⟨none, .fixed 32 0⟩, ⟨none, .bytes true⟩]⟩,  -- 39 liteServer.signature
  ⟨[230, 166, 68, 246], [⟨none, .fixed 4 0⟩, ⟨none, .fixed 4 0⟩, ⟨none, .vec (some 39)⟩]⟩,  -- 40 liteServer.signatureSet
  ⟨[239, 27, 126, 239], [⟨none, .fixed 4 0⟩, ⟨none, .sub (some 278)⟩, ⟨none, .sub (some 278)⟩, ⟨none, .bytes true⟩, ⟨none, .bytes true⟩, ⟨none, .bytes true⟩]⟩,  -- 41 liteServer.blockLinkBack
  ⟨[28, 206, 15, 82], [⟨none, .fixed 4 0⟩, ⟨none, .sub (some 278)⟩, ⟨none, .sub (some 278)⟩, ⟨none, .bytes true⟩, ⟨none, .bytes true⟩, ⟨none, .sub none⟩]⟩,  -- 42 liteServer.blockLinkForward
  ⟨[193, 210, 208, 142], [⟨none, .fixed 4 0⟩, ⟨none, .sub (some 278)⟩, ⟨none, .sub (some 278)⟩, ⟨none, .vec none⟩]⟩,  -- 43 liteServer.partialBlockProof
  ⟨[47, 39, 123, 174], [⟨none, .fixed 4 2⟩, ⟨none, .sub (some 278)⟩, ⟨none, .bytes true⟩, ⟨none, .bytes true⟩]⟩,  -- 44 liteServer.configInfo
  ⟨[216, 150, 247, 185], [⟨none, .fixed 4 2⟩, ⟨none, .sub (some 278)⟩, ⟨none, .fixed 4 0⟩, ⟨none, .fixed 4 0⟩, ⟨none, .bytes true⟩, ⟨none, .bytes true⟩]⟩,  -- 45 liteServer.validatorStats
  ⟨[107, 185, 122, 17], [⟨none, .vec (some 20)⟩]⟩,  -- 46 liteServer.libraryResult
  ⟨[191, 39, 169, 16], [⟨none, .sub (some 278)⟩, ⟨none, .fixed 4 2⟩, ⟨none, .vec (some 20)⟩, ⟨none, .bytes true⟩, ⟨none, .bytes true⟩]⟩,  -- 47 liteServer.libraryResultWithProof
  ⟨[114, 207, 13, 211], [⟨none, .sub (some 278)⟩, ⟨none, .bytes true⟩]⟩,  -- 48 liteServer.shardBlockLink
  ⟨[122, 160, 98, 29], [⟨none, .sub (some 278)⟩, ⟨none, .vec (some 48)⟩]⟩,  -- 49 liteServer.shardBlockProof
  ⟨[231, 107, 120, 153], [⟨none, .sub (some 278)⟩, ⟨none, .fixed 4 2⟩, ⟨none, .sub (some 278)⟩, ⟨none, .bytes true⟩, ⟨none, .bytes true⟩, ⟨none, .vec (some 48)⟩, ⟨none, .bytes true⟩, ⟨none, .bytes true⟩]⟩,  -- 50 liteServer.lookupBlockResult
  ⟨[133, 76, 198, 167], [⟨none, .sub (some 278)⟩, ⟨none, .fixed 4 0⟩]⟩,  -- 51 liteServer.outMsgQueueSize
  ⟨[3, 74, 80, 248], [⟨none, .vec (some 51)⟩, ⟨none, .fixed 4 0⟩]⟩,  -- 52 liteServer.outMsgQueueSizes
  ⟨[51, 71, 64, 93], [⟨none, .fixed 4 0⟩]⟩,  -- 53 liteServer.debug.verbosity
  ⟨[238, 127, 4, 85], [⟨none, .sub (some 278)⟩, ⟨none, .fixed 32 0⟩, ⟨none, .fixed 32 0⟩]⟩,  -- 54 liteServer.nonfinal.candidateId
  ⟨[140, 70, 195, 128], [⟨none, .sub (some 54)⟩, ⟨none, .bytes true⟩, ⟨none, .bytes true⟩]⟩,  -- 55 liteServer.nonfinal.candidate
  ⟨[213, 1, 236, 77], [⟨none, .sub (some 54)⟩, ⟨none, .fixed 4 0⟩, ⟨none, .fixed 8 0⟩, ⟨none, .fixed 8 0⟩, ⟨none, .fixed 8 0⟩]⟩,  -- 56 liteServer.nonfinal.candidateInfo
  ⟨[167, 138, 214, 249], [⟨none, .sub (some 277)⟩, ⟨none, .fixed 4 0⟩, ⟨none, .vec (some 278)⟩, ⟨none, .vec (some 56)⟩]⟩,  -- 57 liteServer.nonfinal.validatorGroupInfo
  ⟨[254, 157, 11, 141], [⟨none, .vec (some 57)⟩]⟩,  -- 58 liteServer.nonfinal.validatorGroups
  ⟨[46, 230, 181, 137], []⟩  -- 59 liteServer.getMasterchainInfo
]

def chunk1 : List Schema := [
  ⟨[223, 113, 166, 112], [⟨none, .fixed 4 2⟩]⟩,  -- 60 liteServer.getMasterchainInfoExt
  ⟨[52, 90, 173, 22], []⟩,  -- 61 liteServer.getTime
  ⟨[11, 148, 43, 35], []⟩,  -- 62 liteServer.getVersion
  ⟨[13, 207, 119, 99], [⟨none, .sub (some 278)⟩]⟩,  -- 63 liteServer.getBlock
  ⟨[182, 46, 110, 186], [⟨none, .sub (some 278)⟩]⟩,  -- 64 liteServer.getState
  ⟨[158, 6, 236, 33], [⟨none, .sub (some 278)⟩, ⟨none, .fixed 4 2⟩]⟩,  -- 65 liteServer.getBlockHeader
  ⟨[130, 212, 10, 105], [⟨none, .bytes true⟩]⟩,  -- 66 liteServer.sendMessage
  ⟨[37, 14, 137, 107], [⟨none, .sub (some 278)⟩, ⟨none, .sub (some 19)⟩]⟩,  -- 67 liteServer.getAccountState
  ⟨[7, 133, 105, 90], [⟨none, .sub (some 278)⟩, ⟨none, .sub (some 19)⟩]⟩,  -- 68 liteServer.getAccountStatePrunned
  ⟨[210, 93, 198, 92], [⟨none, .fixed 4 2⟩, ⟨none, .sub (some 278)⟩, ⟨none, .sub (some 19)⟩, ⟨none, .fixed 8 0⟩, ⟨none, .bytes true⟩]⟩,  -- 69 liteServer.runSmcMethod
  ⟨[37, 244, 162, 70], [⟨none, .sub (some 278)⟩, ⟨none, .fixed 4 0⟩, ⟨none, .fixed 8 0⟩, ⟨none, .fixed 4 0⟩]⟩,  -- 70 liteServer.getShardInfo
  ⟨[107, 253, 211, 116], [⟨none, .sub (some 278)⟩]⟩,  -- 71 liteServer.getAllShardsInfo
  ⟨[234, 36, 15, 212], [⟨none, .sub (some 278)⟩, ⟨none, .sub (some 19)⟩, ⟨none, .fixed 8 0⟩]⟩,  -- 72 liteServer.getOneTransaction
  ⟨[161, 231, 64, 28], [⟨none, .fixed 4 0⟩, ⟨none, .sub (some 19)⟩, ⟨none, .fixed 8 0⟩, ⟨none, .fixed 32 0⟩]⟩,  -- 73 liteServer.getTransactions
  ⟨[30, 247, 200, 250], [⟨none, .fixed 4 2⟩, ⟨none, .sub (some 277)⟩, ⟨some 1, .fixed 8 0⟩, ⟨some 2, .fixed 4 0⟩]⟩,  -- 74 liteServer.lookupBlock
  ⟨[248, 95, 4, 156], [⟨none, .fixed 4 2⟩, ⟨none, .sub (some 277)⟩, ⟨none, .sub (some 278)⟩, ⟨some 1, .fixed 8 0⟩, ⟨some 2, .fixed 4 0⟩]⟩,  -- 75 liteServer.lookupBlockWithProof
  ⟨[218, 199, 252, 173], [⟨none, .sub (some 278)⟩, ⟨none, .fixed 4 2⟩, ⟨none, .fixed 4 0⟩, ⟨some 7, .sub (some 36)⟩, ⟨some 6, .sub (some 98)⟩, ⟨some 5, .sub (some 98)⟩]⟩,  -- 76 liteServer.listBlockTransactions
  ⟨[92, 221, 121, 0], [⟨none, .sub (some 278)⟩, ⟨none, .fixed 4 2⟩, ⟨none, .fixed 4 0⟩, ⟨some 7, .sub (some 36)⟩, ⟨some 6, .sub (some 98)⟩, ⟨some 5, .sub (some 98)⟩]⟩,  -- 77 liteServer.listBlockTransactionsExt
  ⟨[68, 156, 234, 138], [⟨none, .fixed 4 2⟩, ⟨none, .sub (some 278)⟩, ⟨some 0, .sub (some 278)⟩]⟩,  -- 78 liteServer.getBlockProof
  ⟨[183, 38, 27, 145], [⟨none, .fixed 4 2⟩, ⟨none, .sub (some 278)⟩]⟩,  -- 79 liteServer.getConfigAll
  ⟨[25, 28, 17, 42], [⟨none, .fixed 4 2⟩, ⟨none, .sub (some 278)⟩, ⟨none, .vec (some 824)⟩]⟩,  -- 80 liteServer.getConfigParams
  ⟨[188, 88, 26, 9], [⟨none, .fixed 4 2⟩, ⟨none, .sub (some 278)⟩, ⟨none, .fixed 4 0⟩, ⟨some 0, .fixed 32 0⟩, ⟨some 2, .fixed 4 0⟩]⟩,  -- 81 liteServer.getValidatorStats
  ⟨[98, 182, 34, 209], [⟨none, .vec (some 825)⟩]⟩,  -- 82 liteServer.getLibraries
  ⟨[189, 147, 118, 217], [⟨none, .sub (some 278)⟩, ⟨none, .fixed 4 2⟩, ⟨none, .vec (some 825)⟩]⟩,  -- 83 liteServer.getLibrariesWithProof
  ⟨[80, 3, 166, 76], [⟨none, .sub (some 278)⟩]⟩,  -- 84 liteServer.getShardBlockProof
  ⟨[54, 156, 193, 123], [⟨none, .fixed 4 2⟩, ⟨some 0, .fixed 4 0⟩, ⟨some 0, .fixed 8 0⟩]⟩,  -- 85 liteServer.getOutMsgQueueSizes
  ⟨[129, 45, 177, 143], [⟨none, .fixed 4 2⟩, ⟨some 0, .fixed 4 0⟩, ⟨some 1, .fixed 8 0⟩]⟩,  -- 86 liteServer.nonfinal.getValidatorGroups
  ⟨[222, 148, 7, 48], [⟨none, .sub (some 54)⟩]⟩,  -- 87 liteServer.nonfinal.getCandidate
  ⟨[134, 230, 211, 114], []⟩,  -- 88 liteServer.queryPrefix
  ⟨[223, 6, 140, 121], [⟨none, .bytes true⟩]⟩,  -- 89 liteServer.query
  ⟨[146, 184, 234, 186], [⟨none, .fixed 4 0⟩, ⟨none, .fixed 4 0⟩]⟩,  -- 90 liteServer.waitMasterchainSeqno
  ⟨[218, 155, 80, 168], []⟩,  -- 91 int
  ⟨[186, 108, 7, 34], []⟩,  -- 92 long
  ⟨[255, 255, 255, 255, 255], []⟩,  -- 93 double
  ⟨[255, 255, 255, 255, 255], []⟩,  -- 94 string
  ⟨[255, 255, 255, 255, 255], []⟩,  -- 95 object
  ⟨[255, 255, 255, 255, 255], []⟩,  -- 96 function
  ⟨[209, 20, 70, 24], [⟨none, .bytes true⟩]⟩,  -- 97 bytes
  ⟨[57, 211, 237, 63], []⟩,  -- 98 true
  ⟨[255, 255, 255, 255, 255], []⟩,  -- 99 boolTrue
  ⟨[255, 255, 255, 255, 255], []⟩,  -- 100 boolFalse
  ⟨[255, 255, 255, 255, 255], [⟨none, .sub none⟩]⟩,  -- 101 vector
  ⟨[183, 247, 204, 132], []⟩,  -- 102 int128
  ⟨[91, 235, 237, 123], []⟩,  -- 103 int256
  ⟨[138, 73, 87, 165], [⟨none, .fixed 4 0⟩, ⟨none, .sub (some 613)⟩, ⟨none, .sub (some 614)⟩]⟩,  -- 104 testObject
  ⟨[201, 113, 69, 200], [⟨none, .bytes true⟩]⟩,  -- 105 testString
  ⟨[209, 81, 150, 43], [⟨none, .fixed 4 0⟩]⟩,  -- 106 testInt
  ⟨[211, 27, 139, 75], [⟨none, .vec (some 826)⟩]⟩,  -- 107 testVectorBytes
  ⟨[3, 251, 105, 220], [⟨none, .fixed 8 0⟩]⟩,  -- 108 tcp.pong
  ⟨[18, 171, 91, 68], [⟨none, .bytes true⟩]⟩,  -- 109 tcp.authentificate
  ⟨[182, 74, 93, 227], [⟨none, .bytes true⟩]⟩,  -- 110 tcp.authentificationNonce
  ⟨[166, 158, 173, 247], [⟨none, .sub none⟩, ⟨none, .bytes true⟩]⟩,  -- 111 tcp.authentificationComplete
  ⟨[224, 167, 147, 139], [⟨none, .fixed 4 0⟩, ⟨none, .fixed 4 0⟩, ⟨none, .fixed 4 0⟩]⟩,  -- 112 fec.raptorQ
  ⟨[228, 40, 245, 50], [⟨none, .fixed 4 0⟩, ⟨none, .fixed 4 0⟩, ⟨none, .fixed 4 0⟩]⟩,  -- 113 fec.roundRobin
  ⟨[12, 102, 39, 1], [⟨none, .fixed 4 0⟩, ⟨none, .fixed 4 0⟩, ⟨none, .fixed 4 0⟩]⟩,  -- 114 fec.online
  ⟨[154, 43, 8, 77], [⟨none, .fixed 8 0⟩]⟩,  -- 115 tcp.ping
  ⟨[131, 166, 191, 11], []⟩,  -- 116 getTestObject
  ⟨[48, 155, 219, 177], [⟨none, .bytes true⟩]⟩,  -- 117 pk.unenc
  ⟨[23, 35, 104, 73], [⟨none, .fixed 32 0⟩]⟩,  -- 118 pk.ed25519
  ⟨[55, 81, 232, 165], [⟨none, .fixed 32 0⟩]⟩  -- 119 pk.aes
]

def chunk2 : List Schema := [
  ⟨[91, 246, 165, 55], [⟨none, .bytes true⟩]⟩,  -- 120 pk.overlay
  ⟨[10, 69, 31, 182], [⟨none, .bytes true⟩]⟩,  -- 121 pub.unenc
  ⟨[198, 180, 19, 72], [⟨none, .fixed 32 0⟩]⟩,  -- 122 pub.ed25519
  ⟨[212, 173, 188, 45], [⟨none, .fixed 32 0⟩]⟩,  -- 123 pub.aes
  ⟨[203, 69, 186, 52], [⟨none, .bytes true⟩]⟩,  -- 124 pub.overlay
  ⟨[79, 101, 63, 62], [⟨none, .fixed 32 0⟩]⟩,  -- 125 adnl.id.short
  ⟨[94, 248, 189, 221], [⟨none, .fixed 4 0⟩, ⟨none, .fixed 4 0⟩, ⟨none, .fixed 4 0⟩, ⟨none, .fixed 32 0⟩, ⟨none, .fixed 32 0⟩]⟩,  -- 126 adnl.proxyToFastHash
  ⟨[214, 33, 238, 180], [⟨none, .fixed 4 0⟩, ⟨none, .fixed 4 0⟩, ⟨none, .fixed 4 0⟩, ⟨none, .fixed 32 0⟩]⟩,  -- 127 adnl.proxyToFast
  ⟨[123, 72, 50, 53], [⟨none, .fixed 32 0⟩]⟩,  -- 128 adnl.proxy.none
  ⟨[181, 69, 139, 58], [⟨none, .fixed 32 0⟩, ⟨none, .bytes true⟩]⟩,  -- 129 adnl.proxy.fast
  ⟨[231, 166, 13, 103], [⟨none, .fixed 4 0⟩, ⟨none, .fixed 4 0⟩]⟩,  -- 130 adnl.address.udp
  ⟨[250, 99, 29, 227], [⟨none, .fixed 16 0⟩, ⟨none, .fixed 4 0⟩]⟩,  -- 131 adnl.address.udp6
  ⟨[235, 2, 43, 9], [⟨none, .fixed 32 0⟩, ⟨none, .sub none⟩]⟩,  -- 132 adnl.address.tunnel
  ⟨[134, 82, 121, 39], []⟩,  -- 133 adnl.address.reverse
  ⟨[88, 230, 39, 34], [⟨none, .vec none⟩, ⟨none, .fixed 4 0⟩, ⟨none, .fixed 4 0⟩, ⟨none, .fixed 4 0⟩, ⟨none, .fixed 4 0⟩]⟩,  -- 134 adnl.addressList
  ⟨[133, 18, 86, 107], [⟨none, .sub none⟩, ⟨none, .sub (some 134)⟩]⟩,  -- 135 adnl.node
  ⟨[86, 219, 9, 162], [⟨none, .vec (some 135)⟩]⟩,  -- 136 adnl.nodes
  ⟨[137, 205, 66, 209], [⟨none, .bytes true⟩, ⟨none, .fixed 4 2⟩, ⟨some 0, .sub none⟩, ⟨some 1, .sub (some 125)⟩, ⟨some 2, .sub none⟩, ⟨some 3, .vec none⟩, ⟨some 4, .sub (some 134)⟩, ⟨some 5, .sub (some 134)⟩, ⟨some 6, .fixed 8 0⟩, ⟨some 7, .fixed 8 0⟩, ⟨some 8, .fixed 4 0⟩, ⟨some 9, .fixed 4 0⟩, ⟨some 10, .fixed 4 0⟩, ⟨some 10, .fixed 4 0⟩, ⟨some 11, .bytes true⟩, ⟨none, .bytes true⟩]⟩,  -- 137 adnl.packetContents
  ⟨[180, 56, 145, 197], [⟨none, .bytes true⟩, ⟨none, .fixed 4 2⟩, ⟨some 0, .fixed 4 0⟩, ⟨some 0, .fixed 4 0⟩, ⟨some 1, .bytes true⟩, ⟨some 2, .bytes true⟩, ⟨some 3, .bytes true⟩, ⟨none, .bytes true⟩]⟩,  -- 138 adnl.tunnelPacketContents
  ⟨[120, 60, 105, 8], [⟨none, .fixed 32 0⟩, ⟨none, .fixed 4 2⟩, ⟨some 0, .fixed 4 0⟩, ⟨some 0, .fixed 4 0⟩, ⟨some 1, .fixed 4 0⟩, ⟨some 2, .fixed 8 0⟩, ⟨some 3, .fixed 4 0⟩, ⟨none, .fixed 32 0⟩]⟩,  -- 139 adnl.proxyPacketHeader
  ⟨[75, 228, 150, 55], [⟨none, .fixed 32 0⟩]⟩,  -- 140 adnl.proxyControlPacketPing
  ⟨[252, 219, 209, 75], [⟨none, .fixed 32 0⟩]⟩,  -- 141 adnl.proxyControlPacketPong
  ⟨[63, 178, 9, 195], [⟨none, .fixed 4 0⟩, ⟨none, .fixed 4 0⟩]⟩,  -- 142 adnl.proxyControlPacketRegister
  ⟨[187, 195, 115, 230], [⟨none, .fixed 32 0⟩, ⟨none, .fixed 4 0⟩]⟩,  -- 143 adnl.message.createChannel
  ⟨[105, 29, 221, 96], [⟨none, .fixed 32 0⟩, ⟨none, .fixed 32 0⟩, ⟨none, .fixed 4 0⟩]⟩,  -- 144 adnl.message.confirmChannel
  ⟨[245, 24, 72, 32], [⟨none, .bytes true⟩]⟩,  -- 145 adnl.message.custom
  ⟨[218, 223, 248, 23], []⟩,  -- 146 adnl.message.nop
  ⟨[32, 5, 194, 16], [⟨none, .fixed 4 0⟩]⟩,  -- 147 adnl.message.reinit
  ⟨[122, 249, 139, 180], [⟨none, .fixed 32 0⟩, ⟨none, .bytes true⟩]⟩,  -- 148 adnl.message.query
  ⟨[22, 132, 172, 15], [⟨none, .fixed 32 0⟩, ⟨none, .bytes true⟩]⟩,  -- 149 adnl.message.answer
  ⟨[57, 45, 69, 253], [⟨none, .fixed 32 0⟩, ⟨none, .fixed 4 0⟩, ⟨none, .fixed 4 0⟩, ⟨none, .bytes false⟩]⟩,  -- 150 adnl.message.part
  ⟨[46, 228, 163, 197], [⟨none, .fixed 32 0⟩, ⟨none, .fixed 32 0⟩]⟩,  -- 151 adnl.db.node.key
  ⟨[7, 39, 93, 84], [⟨none, .fixed 4 0⟩, ⟨none, .sub none⟩, ⟨none, .sub (some 134)⟩, ⟨none, .sub (some 134)⟩]⟩,  -- 152 adnl.db.node.value
  ⟨[110, 11, 72, 17], [⟨none, .fixed 32 0⟩, ⟨none, .sub none⟩, ⟨none, .fixed 4 0⟩, ⟨none, .fixed 8 0⟩, ⟨none, .fixed 4 0⟩, ⟨none, .bytes true⟩]⟩,  -- 153 rldp2.messagePart
  ⟨[69, 153, 230, 35], [⟨none, .fixed 32 0⟩, ⟨none, .fixed 4 0⟩, ⟨none, .fixed 4 0⟩, ⟨none, .fixed 4 0⟩, ⟨none, .fixed 4 0⟩]⟩,  -- 154 rldp2.confirm
  ⟨[31, 8, 185, 54], [⟨none, .fixed 32 0⟩, ⟨none, .fixed 4 0⟩]⟩,  -- 155 rldp2.complete
  ⟨[204, 34, 92, 24], [⟨none, .fixed 32 0⟩, ⟨none, .sub none⟩, ⟨none, .fixed 4 0⟩, ⟨none, .fixed 8 0⟩, ⟨none, .fixed 4 0⟩, ⟨none, .bytes true⟩]⟩,  -- 156 rldp.messagePart
  ⟨[88, 220, 130, 245], [⟨none, .fixed 32 0⟩, ⟨none, .fixed 4 0⟩, ⟨none, .fixed 4 0⟩]⟩,  -- 157 rldp.confirm
  ⟨[191, 178, 12, 188], [⟨none, .fixed 32 0⟩, ⟨none, .fixed 4 0⟩]⟩,  -- 158 rldp.complete
  ⟨[30, 205, 27, 125], [⟨none, .fixed 32 0⟩, ⟨none, .bytes true⟩]⟩,  -- 159 rldp.message
  ⟨[105, 77, 121, 138], [⟨none, .fixed 32 0⟩, ⟨none, .fixed 8 0⟩, ⟨none, .fixed 4 0⟩, ⟨none, .bytes true⟩]⟩,  -- 160 rldp.query
  ⟨[3, 92, 252, 163], [⟨none, .fixed 32 0⟩, ⟨none, .bytes true⟩]⟩,  -- 161 rldp.answer
  ⟨[72, 50, 83, 132], [⟨none, .sub none⟩, ⟨none, .sub (some 134)⟩, ⟨none, .fixed 4 0⟩, ⟨none, .bytes true⟩]⟩,  -- 162 dht.node
  ⟨[190, 160, 116, 121], [⟨none, .vec (some 162)⟩]⟩,  -- 163 dht.nodes
  ⟨[143, 222, 103, 246], [⟨none, .fixed 32 0⟩, ⟨none, .bytes true⟩, ⟨none, .fixed 4 0⟩]⟩,  -- 164 dht.key
  ⟨[247, 49, 159, 204], []⟩,  -- 165 dht.updateRule.signature
  ⟨[20, 142, 87, 97], []⟩,  -- 166 dht.updateRule.anybody
  ⟨[131, 147, 119, 38], []⟩,  -- 167 dht.updateRule.overlayNodes
  ⟨[5, 78, 29, 40], [⟨none, .sub (some 164)⟩, ⟨none, .sub none⟩, ⟨none, .sub none⟩, ⟨none, .bytes true⟩]⟩,  -- 168 dht.keyDescription
  ⟨[203, 39, 173, 144], [⟨none, .sub (some 168)⟩, ⟨none, .bytes true⟩, ⟨none, .fixed 4 0⟩, ⟨none, .bytes true⟩]⟩,  -- 169 dht.value
  ⟨[129, 239, 138, 90], [⟨none, .fixed 8 0⟩]⟩,  -- 170 dht.pong
  ⟨[104, 5, 98, 162], [⟨none, .sub (some 163)⟩]⟩,  -- 171 dht.valueNotFound
  ⟨[116, 247, 12, 228], [⟨none, .sub none⟩]⟩,  -- 172 dht.valueFound
  ⟨[111, 126, 28, 45], [⟨none, .sub (some 163)⟩]⟩,  -- 173 dht.clientNotFound
  ⟨[162, 48, 64, 32], []⟩,  -- 174 dht.reversePingOk
  ⟨[8, 251, 38, 112], []⟩,  -- 175 dht.stored
  ⟨[142, 219, 12, 188], [⟨none, .sub (some 162)⟩]⟩,  -- 176 dht.message
  ⟨[5, 193, 173, 219], [⟨none, .sub none⟩, ⟨none, .bytes true⟩, ⟨none, .fixed 32 0⟩]⟩,  -- 177 dht.requestReversePingCont
  ⟨[108, 250, 156, 179], [⟨none, .sub (some 163)⟩]⟩,  -- 178 dht.db.bucket
  ⟨[76, 174, 104, 163], [⟨none, .fixed 4 0⟩]⟩  -- 179 dht.db.key.bucket
]

def chunk3 : List Schema := [
  ⟨[24, 63, 235, 203], [⟨none, .fixed 8 0⟩]⟩,  -- 180 dht.ping
  ⟨[18, 66, 147, 52], [⟨none, .sub (some 169)⟩]⟩,  -- 181 dht.store
  ⟨[107, 206, 226, 108], [⟨none, .fixed 32 0⟩, ⟨none, .fixed 4 0⟩]⟩,  -- 182 dht.findNode
  ⟨[17, 96, 75, 174], [⟨none, .fixed 32 0⟩, ⟨none, .fixed 4 0⟩]⟩,  -- 183 dht.findValue
  ⟨[237, 72, 121, 169], []⟩,  -- 184 dht.getSignedAddressList
  ⟨[97, 188, 44, 34], [⟨none, .sub none⟩, ⟨none, .fixed 4 0⟩, ⟨none, .bytes true⟩]⟩,  -- 185 dht.registerReverseConnection
  ⟨[10, 164, 148, 11], [⟨none, .sub none⟩, ⟨none, .bytes true⟩, ⟨none, .fixed 32 0⟩, ⟨none, .fixed 4 0⟩]⟩,  -- 186 dht.requestReversePing
  ⟨[105, 7, 83, 125], [⟨none, .sub (some 162)⟩]⟩,  -- 187 dht.query
  ⟨[225, 168, 216, 3], [⟨none, .sub (some 125)⟩, ⟨none, .fixed 32 0⟩, ⟨none, .fixed 4 0⟩]⟩,  -- 188 overlay.node.toSign
  ⟨[131, 138, 107, 184], [⟨none, .sub none⟩, ⟨none, .fixed 32 0⟩, ⟨none, .fixed 4 0⟩, ⟨none, .bytes true⟩]⟩,  -- 189 overlay.node
  ⟨[14, 41, 135, 228], [⟨none, .vec (some 189)⟩]⟩,  -- 190 overlay.nodes
  ⟨[32, 36, 37, 117], [⟨none, .fixed 32 0⟩]⟩,  -- 191 overlay.message
  ⟨[223, 222, 209, 24], [⟨none, .vec (some 825)⟩]⟩,  -- 192 overlay.broadcastList
  ⟨[236, 20, 92, 213], [⟨none, .fixed 32 0⟩]⟩,  -- 193 overlay.fec.received
  ⟨[20, 105, 215, 9], [⟨none, .fixed 32 0⟩]⟩,  -- 194 overlay.fec.completed
  ⟨[154, 120, 253, 81], [⟨none, .fixed 32 0⟩, ⟨none, .fixed 32 0⟩, ⟨none, .fixed 4 1⟩]⟩,  -- 195 overlay.broadcast.id
  ⟨[166, 85, 49, 251], [⟨none, .fixed 32 0⟩, ⟨none, .fixed 32 0⟩, ⟨none, .fixed 32 0⟩, ⟨none, .fixed 4 0⟩, ⟨none, .fixed 4 1⟩]⟩,  -- 196 overlay.broadcastFec.id
  ⟨[208, 98, 105, 164], [⟨none, .fixed 32 0⟩, ⟨none, .fixed 32 0⟩, ⟨none, .fixed 4 0⟩]⟩,  -- 197 overlay.broadcastFec.partId
  ⟨[124, 78, 55, 250], [⟨none, .fixed 32 0⟩, ⟨none, .fixed 4 0⟩]⟩,  -- 198 overlay.broadcast.toSign
  ⟨[49, 215, 158, 224], [⟨none, .sub none⟩, ⟨none, .fixed 4 0⟩, ⟨none, .fixed 4 0⟩, ⟨none, .bytes true⟩]⟩,  -- 199 overlay.certificate
  ⟨[131, 156, 63, 180], [⟨none, .sub none⟩, ⟨none, .fixed 4 0⟩, ⟨none, .fixed 4 0⟩, ⟨none, .fixed 4 1⟩, ⟨none, .bytes true⟩]⟩,  -- 200 overlay.certificateV2
  ⟨[207, 188, 218, 50], []⟩,  -- 201 overlay.emptyCertificate
  ⟨[185, 96, 174, 143], [⟨none, .fixed 32 0⟩, ⟨none, .fixed 32 0⟩, ⟨none, .fixed 4 0⟩, ⟨none, .fixed 4 0⟩]⟩,  -- 202 overlay.certificateId
  ⟨[167, 210, 108, 252], [⟨none, .fixed 32 0⟩, ⟨none, .fixed 32 0⟩, ⟨none, .fixed 4 0⟩, ⟨none, .fixed 4 0⟩, ⟨none, .fixed 4 1⟩]⟩,  -- 203 overlay.certificateIdV2
  ⟨[36, 78, 83, 51], [⟨none, .bytes true⟩]⟩,  -- 204 overlay.unicast
  ⟨[107, 43, 90, 177], [⟨none, .sub none⟩, ⟨none, .sub none⟩, ⟨none, .fixed 4 1⟩, ⟨none, .bytes true⟩, ⟨none, .fixed 4 0⟩, ⟨none, .bytes true⟩]⟩,  -- 205 overlay.broadcast
  ⟨[106, 195, 215, 186], [⟨none, .sub none⟩, ⟨none, .sub none⟩, ⟨none, .fixed 32 0⟩, ⟨none, .fixed 4 0⟩, ⟨none, .fixed 4 1⟩, ⟨none, .bytes false⟩, ⟨none, .fixed 4 0⟩, ⟨none, .sub none⟩, ⟨none, .fixed 4 0⟩, ⟨none, .bytes true⟩]⟩,  -- 206 overlay.broadcastFec
  ⟨[66, 19, 136, 241], [⟨none, .sub none⟩, ⟨none, .sub none⟩, ⟨none, .fixed 32 0⟩, ⟨none, .fixed 32 0⟩, ⟨none, .fixed 4 0⟩, ⟨none, .bytes true⟩]⟩,  -- 207 overlay.broadcastFecShort
  ⟨[36, 54, 134, 149], []⟩,  -- 208 overlay.broadcastNotFound
  ⟨[171, 100, 238, 72], [⟨none, .sub (some 190)⟩]⟩,  -- 209 overlay.getRandomPeers
  ⟨[67, 132, 253, 204], [⟨none, .fixed 32 0⟩]⟩,  -- 210 overlay.query
  ⟨[160, 242, 53, 45], [⟨none, .fixed 32 0⟩]⟩,  -- 211 overlay.getBroadcast
  ⟨[58, 40, 28, 66], [⟨none, .sub (some 192)⟩]⟩,  -- 212 overlay.getBroadcastList
  ⟨[26, 206, 136, 213], [⟨none, .sub (some 190)⟩]⟩,  -- 213 overlay.db.nodes
  ⟨[22, 115, 208, 196], [⟨none, .fixed 32 0⟩, ⟨none, .fixed 32 0⟩]⟩,  -- 214 overlay.db.key.nodes
  ⟨[186, 152, 254, 36], [⟨none, .fixed 32 0⟩, ⟨none, .fixed 32 0⟩, ⟨none, .fixed 4 0⟩, ⟨none, .fixed 32 0⟩]⟩,  -- 215 catchain.block.id
  ⟨[79, 209, 26, 90], [⟨none, .fixed 4 0⟩, ⟨none, .fixed 4 0⟩, ⟨none, .fixed 32 0⟩, ⟨none, .bytes true⟩]⟩,  -- 216 catchain.block.dep
  ⟨[32, 166, 172, 248], [⟨none, .sub (some 216)⟩, ⟨none, .vec (some 216)⟩]⟩,  -- 217 catchain.block.data
  ⟨[116, 65, 85, 214], [⟨none, .fixed 32 0⟩, ⟨none, .fixed 4 0⟩, ⟨none, .fixed 4 0⟩, ⟨none, .sub (some 217)⟩, ⟨none, .bytes true⟩]⟩,  -- 218 catchain.block
  ⟨[193, 209, 236, 80], [⟨none, .vec (some 218)⟩]⟩,  -- 219 catchain.blocks
  ⟨[196, 88, 103, 35], [⟨none, .sub (some 218)⟩]⟩,  -- 220 catchain.blockUpdate
  ⟨[86, 90, 2, 182], [⟨none, .sub (some 218)⟩]⟩,  -- 221 catchain.block.data.badBlock
  ⟨[82, 58, 122, 100], [⟨none, .sub none⟩, ⟨none, .sub none⟩]⟩,  -- 222 catchain.block.data.fork
  ⟨[208, 180, 130, 84], []⟩,  -- 223 catchain.block.data.nop
  ⟨[251, 4, 201, 16], [⟨none, .fixed 32 0⟩, ⟨none, .vec (some 825)⟩]⟩,  -- 224 catchain.firstblock
  ⟨[202, 209, 21, 20], [⟨none, .vec (some 824)⟩]⟩,  -- 225 catchain.difference
  ⟨[111, 192, 39, 73], [⟨none, .sub (some 216)⟩, ⟨none, .sub (some 216)⟩]⟩,  -- 226 catchain.differenceFork
  ⟨[132, 8, 17, 182], []⟩,  -- 227 catchain.blockNotFound
  ⟨[71, 48, 42, 157], [⟨none, .sub (some 218)⟩]⟩,  -- 228 catchain.blockResult
  ⟨[120, 221, 61, 9], [⟨none, .fixed 32 0⟩]⟩,  -- 229 catchain.getBlock
  ⟨[216, 206, 108, 208], [⟨none, .vec (some 824)⟩]⟩,  -- 230 catchain.getDifference
  ⟨[165, 207, 37, 0], [⟨none, .fixed 32 0⟩, ⟨none, .fixed 8 0⟩, ⟨none, .fixed 32 0⟩, ⟨none, .fixed 4 0⟩]⟩,  -- 231 validatorSession.round.id
  ⟨[57, 65, 215, 188], [⟨none, .fixed 32 0⟩, ⟨none, .fixed 32 0⟩]⟩,  -- 232 validatorSession.candidate.id
  ⟨[209, 102, 161, 150], []⟩,  -- 233 validatorSession.message.startSession
  ⟨[227, 34, 155, 203], []⟩,  -- 234 validatorSession.message.finishSession
  ⟨[182, 36, 118, 18], [⟨none, .fixed 4 0⟩, ⟨none, .fixed 32 0⟩, ⟨none, .fixed 32 0⟩, ⟨none, .fixed 32 0⟩]⟩,  -- 235 validatorSession.message.submittedBlock
  ⟨[129, 181, 165, 4], [⟨none, .fixed 4 0⟩, ⟨none, .fixed 32 0⟩, ⟨none, .bytes true⟩]⟩,  -- 236 validatorSession.message.approvedBlock
  ⟨[107, 78, 136, 149], [⟨none, .fixed 4 0⟩, ⟨none, .fixed 32 0⟩, ⟨none, .bytes true⟩]⟩,  -- 237 validatorSession.message.rejectedBlock
  ⟨[245, 158, 18, 172], [⟨none, .fixed 4 0⟩, ⟨none, .fixed 32 0⟩, ⟨none, .bytes true⟩]⟩,  -- 238 validatorSession.message.commit
  ⟨[199, 81, 50, 154], [⟨none, .fixed 4 0⟩, ⟨none, .fixed 4 0⟩, ⟨none, .fixed 32 0⟩]⟩  -- 239 validatorSession.message.vote
]

def chunk4 : List Schema := [
  ⟨[47, 254, 240, 97], [⟨none, .fixed 4 0⟩, ⟨none, .fixed 4 0⟩, ⟨none, .fixed 32 0⟩]⟩,  -- 240 validatorSession.message.voteFor
  ⟨[82, 181, 84, 168], [⟨none, .fixed 4 0⟩, ⟨none, .fixed 4 0⟩, ⟨none, .fixed 32 0⟩]⟩,  -- 241 validatorSession.message.precommit
  ⟨[169, 31, 32, 74], [⟨none, .fixed 4 0⟩, ⟨none, .fixed 4 0⟩]⟩,  -- 242 validatorSession.message.empty
  ⟨[109, 55, 198, 220], [⟨none, .fixed 8 0⟩]⟩,  -- 243 validatorSession.pong
  ⟨[108, 229, 254, 25], [⟨none, .fixed 32 0⟩, ⟨none, .fixed 32 0⟩, ⟨none, .fixed 32 0⟩, ⟨none, .fixed 32 0⟩]⟩,  -- 244 validatorSession.candidateId
  ⟨[55, 206, 131, 146], [⟨none, .fixed 8 0⟩, ⟨none, .vec none⟩, ⟨none, .fixed 4 0⟩]⟩,  -- 245 validatorSession.blockUpdate
  ⟨[69, 120, 51, 125], [⟨none, .fixed 32 0⟩, ⟨none, .fixed 4 0⟩, ⟨none, .fixed 32 0⟩, ⟨none, .bytes true⟩, ⟨none, .bytes true⟩]⟩,  -- 246 validatorSession.candidate
  ⟨[119, 199, 18, 66], [⟨none, .fixed 4 2⟩, ⟨none, .fixed 32 0⟩, ⟨none, .fixed 4 0⟩, ⟨none, .fixed 32 0⟩, ⟨none, .fixed 4 0⟩, ⟨none, .bytes true⟩]⟩,  -- 247 validatorSession.compressedCandidate
  ⟨[195, 253, 97, 182], [⟨none, .sub (some 604)⟩, ⟨none, .fixed 4 0⟩, ⟨none, .fixed 4 0⟩, ⟨none, .sub (some 604)⟩, ⟨none, .fixed 4 0⟩, ⟨none, .fixed 4 0⟩, ⟨none, .fixed 4 0⟩, ⟨none, .fixed 4 0⟩]⟩,  -- 248 validatorSession.config
  ⟨[156, 169, 175, 247], [⟨none, .sub (some 604)⟩, ⟨none, .fixed 4 0⟩, ⟨none, .fixed 4 0⟩, ⟨none, .sub (some 604)⟩, ⟨none, .fixed 4 0⟩, ⟨none, .fixed 4 0⟩, ⟨none, .fixed 4 0⟩, ⟨none, .fixed 4 0⟩, ⟨none, .fixed 4 0⟩]⟩,  -- 249 validatorSession.configNew
  ⟨[3, 151, 42, 64], [⟨none, .sub (some 604)⟩, ⟨none, .fixed 4 0⟩, ⟨none, .fixed 4 0⟩, ⟨none, .sub (some 604)⟩, ⟨none, .fixed 4 0⟩, ⟨none, .fixed 4 0⟩, ⟨none, .fixed 4 0⟩, ⟨none, .fixed 4 0⟩, ⟨none, .fixed 4 0⟩]⟩,  -- 250 validatorSession.configVersioned
  ⟨[230, 73, 226, 112], [⟨none, .sub (some 604)⟩, ⟨none, .fixed 4 0⟩, ⟨none, .fixed 4 0⟩, ⟨none, .fixed 4 0⟩, ⟨none, .fixed 4 0⟩, ⟨none, .fixed 4 0⟩]⟩,  -- 251 validatorSession.catchainOptions
  ⟨[175, 17, 123, 169], [⟨none, .sub none⟩, ⟨none, .fixed 4 0⟩, ⟨none, .sub (some 604)⟩, ⟨none, .fixed 4 0⟩, ⟨none, .fixed 4 0⟩, ⟨none, .fixed 4 0⟩, ⟨none, .fixed 4 0⟩, ⟨none, .fixed 4 0⟩]⟩,  -- 252 validatorSession.configVersionedV2
  ⟨[173, 73, 4, 104], [⟨none, .fixed 8 0⟩]⟩,  -- 253 validatorSession.ping
  ⟨[245, 61, 253, 224], [⟨none, .fixed 4 0⟩, ⟨none, .sub (some 244)⟩]⟩,  -- 254 validatorSession.downloadCandidate
  ⟨[28, 68, 97, 207], [⟨none, .fixed 4 0⟩]⟩,  -- 255 hashable.bool
  ⟨[86, 147, 181, 211], [⟨none, .fixed 4 0⟩]⟩,  -- 256 hashable.int32
  ⟨[66, 142, 218, 231], [⟨none, .fixed 8 0⟩]⟩,  -- 257 hashable.int64
  ⟨[207, 19, 35, 58], [⟨none, .fixed 32 0⟩]⟩,  -- 258 hashable.int256
  ⟨[18, 222, 19, 7], [⟨none, .bytes true⟩]⟩,  -- 259 hashable.bytes
  ⟨[149, 104, 229, 199], [⟨none, .fixed 4 0⟩, ⟨none, .fixed 4 0⟩]⟩,  -- 260 hashable.pair
  ⟨[109, 195, 52, 223], [⟨none, .vec (some 824)⟩]⟩,  -- 261 hashable.vector
  ⟨[169, 103, 139, 71], [⟨none, .fixed 4 0⟩, ⟨none, .fixed 4 0⟩, ⟨none, .fixed 4 0⟩, ⟨none, .fixed 4 0⟩]⟩,  -- 262 hashable.validatorSessionOldRound
  ⟨[173, 255, 17, 76], [⟨none, .fixed 4 0⟩, ⟨none, .fixed 4 0⟩, ⟨none, .fixed 4 0⟩, ⟨none, .fixed 4 0⟩, ⟨none, .fixed 4 0⟩]⟩,  -- 263 hashable.validatorSessionRoundAttempt
  ⟨[227, 79, 119, 53], [⟨none, .fixed 4 0⟩, ⟨none, .fixed 4 0⟩, ⟨none, .fixed 4 0⟩, ⟨none, .fixed 4 0⟩, ⟨none, .fixed 4 0⟩, ⟨none, .fixed 4 0⟩, ⟨none, .fixed 4 0⟩, ⟨none, .fixed 4 0⟩]⟩,  -- 264 hashable.validatorSessionRound
  ⟨[162, 146, 225, 55], [⟨none, .fixed 4 0⟩]⟩,  -- 265 hashable.blockSignature
  ⟨[43, 149, 185, 189], [⟨none, .fixed 4 0⟩, ⟨none, .fixed 4 0⟩, ⟨none, .fixed 4 0⟩, ⟨none, .fixed 4 0⟩]⟩,  -- 266 hashable.sentBlock
  ⟨[175, 70, 242, 158], []⟩,  -- 267 hashable.sentBlockEmpty
  ⟨[197, 43, 191, 174], [⟨none, .fixed 4 0⟩, ⟨none, .fixed 4 0⟩]⟩,  -- 268 hashable.vote
  ⟨[13, 177, 169, 11], [⟨none, .fixed 4 0⟩, ⟨none, .fixed 4 0⟩]⟩,  -- 269 hashable.blockCandidate
  ⟨[229, 111, 13, 207], [⟨none, .fixed 4 0⟩, ⟨none, .fixed 4 0⟩]⟩,  -- 270 hashable.blockVoteCandidate
  ⟨[11, 125, 92, 63], [⟨none, .fixed 4 0⟩, ⟨none, .fixed 4 0⟩]⟩,  -- 271 hashable.blockCandidateAttempt
  ⟨[56, 111, 40, 11], [⟨none, .fixed 4 0⟩]⟩,  -- 272 hashable.cntVector
  ⟨[89, 70, 150, 123], [⟨none, .fixed 4 0⟩]⟩,  -- 273 hashable.cntSortedVector
  ⟨[213, 99, 18, 104], [⟨none, .fixed 4 0⟩, ⟨none, .fixed 4 0⟩, ⟨none, .fixed 4 0⟩]⟩,  -- 274 hashable.validatorSession
  ⟨[186, 54, 146, 122], [⟨none, .fixed 4 0⟩, ⟨none, .fixed 8 0⟩, ⟨none, .fixed 4 0⟩, ⟨none, .fixed 32 0⟩]⟩,  -- 275 tonNode.sessionId
  ⟨[51, 60, 240, 80], [⟨none, .fixed 32 0⟩, ⟨none, .bytes true⟩]⟩,  -- 276 tonNode.blockSignature
  ⟨[103, 177, 205, 183], [⟨none, .fixed 4 0⟩, ⟨none, .fixed 8 0⟩, ⟨none, .fixed 4 0⟩]⟩,  -- 277 tonNode.blockId
  ⟨[120, 235, 82, 103], [⟨none, .fixed 4 0⟩, ⟨none, .fixed 8 0⟩, ⟨none, .fixed 4 0⟩, ⟨none, .fixed 32 0⟩, ⟨none, .fixed 32 0⟩]⟩,  -- 278 tonNode.blockIdExt
  ⟨[174, 53, 114, 29], [⟨none, .fixed 4 0⟩, ⟨none, .fixed 32 0⟩, ⟨none, .fixed 32 0⟩]⟩,  -- 279 tonNode.zeroStateIdExt
  ⟨[149, 174, 132, 131], []⟩,  -- 280 tonNode.blockDescriptionEmpty
  ⟨[136, 208, 161, 70], [⟨none, .sub (some 278)⟩]⟩,  -- 281 tonNode.blockDescription
  ⟨[44, 97, 42, 214], [⟨none, .vec (some 278)⟩, ⟨none, .fixed 4 0⟩]⟩,  -- 282 tonNode.blocksDescription
  ⟨[122, 193, 105, 199], []⟩,  -- 283 tonNode.preparedProofEmpty
  ⟨[75, 154, 159, 137], []⟩,  -- 284 tonNode.preparedProof
  ⟨[141, 50, 255, 61], []⟩,  -- 285 tonNode.preparedProofLink
  ⟨[109, 203, 91, 55], []⟩,  -- 286 tonNode.preparedState
  ⟨[81, 10, 57, 50], []⟩,  -- 287 tonNode.notFoundState
  ⟨[205, 187, 196, 234], []⟩,  -- 288 tonNode.prepared
  ⟨[166, 61, 195, 226], []⟩,  -- 289 tonNode.notFound
  ⟨[132, 36, 10, 86], [⟨none, .bytes true⟩]⟩,  -- 290 tonNode.data
  ⟨[7, 195, 52, 69], [⟨none, .bytes true⟩]⟩,  -- 291 tonNode.ihrMessage
  ⟨[9, 162, 117, 220], [⟨none, .bytes true⟩]⟩,  -- 292 tonNode.externalMessage
  ⟨[41, 194, 157, 164], [⟨none, .sub (some 278)⟩, ⟨none, .fixed 4 0⟩, ⟨none, .bytes true⟩]⟩,  -- 293 tonNode.newShardBlock
  ⟨[182, 19, 145, 254], [⟨none, .vec (some 276)⟩, ⟨none, .bytes true⟩]⟩,  -- 294 tonNode.blockBroadcastCompressed.data
  ⟨[5, 17, 46, 174], [⟨none, .sub (some 278)⟩, ⟨none, .fixed 4 0⟩, ⟨none, .fixed 4 0⟩, ⟨none, .vec (some 276)⟩, ⟨none, .bytes true⟩, ⟨none, .bytes true⟩]⟩,  -- 295 tonNode.blockBroadcast
  ⟨[67, 23, 253, 9], [⟨none, .sub (some 278)⟩, ⟨none, .fixed 4 0⟩, ⟨none, .fixed 4 0⟩, ⟨none, .fixed 4 2⟩, ⟨none, .bytes true⟩]⟩,  -- 296 tonNode.blockBroadcastCompressed
  ⟨[179, 164, 93, 82], [⟨none, .sub (some 291)⟩]⟩,  -- 297 tonNode.ihrMessageBroadcast
  ⟨[103, 24, 27, 61], [⟨none, .sub (some 292)⟩]⟩,  -- 298 tonNode.externalMessageBroadcast
  ⟨[188, 250, 242, 10], [⟨none, .sub (some 293)⟩]⟩  -- 299 tonNode.newShardBlockBroadcast
]

def chunk5 : List Schema := [
  ⟨[41, 211, 158, 77], [⟨none, .fixed 4 0⟩, ⟨none, .fixed 8 0⟩, ⟨none, .fixed 32 0⟩]⟩,  -- 300 tonNode.shardPublicOverlayId
  ⟨[98, 216, 244, 166], [⟨none, .fixed 32 0⟩, ⟨none, .vec (some 825)⟩]⟩,  -- 301 tonNode.privateBlockOverlayId
  ⟨[166, 30, 180, 57], [⟨none, .fixed 32 0⟩, ⟨none, .bytes true⟩, ⟨none, .vec (some 825)⟩]⟩,  -- 302 tonNode.customOverlayId
  ⟨[89, 77, 102, 7], [⟨none, .vec (some 278)⟩, ⟨none, .fixed 4 0⟩, ⟨none, .fixed 4 0⟩]⟩,  -- 303 tonNode.keyBlocks
  ⟨[112, 110, 11, 197], [⟨none, .fixed 32 0⟩, ⟨none, .fixed 32 0⟩]⟩,  -- 304 ton.blockId
  ⟨[73, 74, 212, 45], [⟨none, .fixed 32 0⟩, ⟨none, .fixed 32 0⟩]⟩,  -- 305 ton.blockIdApprove
  ⟨[147, 159, 88, 190], [⟨none, .sub (some 278)⟩, ⟨none, .bytes true⟩, ⟨none, .bytes true⟩, ⟨none, .fixed 4 0⟩]⟩,  -- 306 tonNode.dataFull
  ⟨[165, 44, 61, 70], [⟨none, .sub (some 278)⟩, ⟨none, .fixed 4 2⟩, ⟨none, .bytes true⟩, ⟨none, .fixed 4 0⟩]⟩,  -- 307 tonNode.dataFullCompressed
  ⟨[202, 133, 110, 87], []⟩,  -- 308 tonNode.dataFullEmpty
  ⟨[192, 96, 191, 245], [⟨none, .fixed 4 0⟩, ⟨none, .fixed 8 0⟩]⟩,  -- 309 tonNode.capabilities
  ⟨[79, 36, 150, 192], []⟩,  -- 310 tonNode.success
  ⟨[131, 22, 41, 153], []⟩,  -- 311 tonNode.archiveNotFound
  ⟨[140, 255, 239, 25], [⟨none, .fixed 8 0⟩]⟩,  -- 312 tonNode.archiveInfo
  ⟨[243, 176, 85, 20], [⟨none, .sub (some 278)⟩]⟩,  -- 313 tonNode.getNextBlockDescription
  ⟨[196, 18, 40, 63], [⟨none, .sub (some 278)⟩, ⟨none, .fixed 4 0⟩]⟩,  -- 314 tonNode.getNextBlocksDescription
  ⟨[201, 108, 109, 92], [⟨none, .sub (some 278)⟩, ⟨none, .fixed 4 0⟩, ⟨none, .fixed 4 0⟩]⟩,  -- 315 tonNode.getPrevBlocksDescription
  ⟨[8, 51, 92, 135], [⟨none, .sub (some 278)⟩, ⟨none, .fixed 4 0⟩]⟩,  -- 316 tonNode.prepareBlockProof
  ⟨[56, 76, 54, 119], [⟨none, .sub (some 278)⟩, ⟨none, .fixed 4 0⟩]⟩,  -- 317 tonNode.prepareKeyBlockProof
  ⟨[184, 178, 121, 237], [⟨none, .vec (some 278)⟩, ⟨none, .fixed 4 0⟩]⟩,  -- 318 tonNode.prepareBlockProofs
  ⟨[228, 251, 108, 140], [⟨none, .vec (some 278)⟩, ⟨none, .fixed 4 0⟩]⟩,  -- 319 tonNode.prepareKeyBlockProofs
  ⟨[78, 127, 163, 117], [⟨none, .sub (some 278)⟩]⟩,  -- 320 tonNode.prepareBlock
  ⟨[252, 171, 255, 106], [⟨none, .vec (some 278)⟩]⟩,  -- 321 tonNode.prepareBlocks
  ⟨[158, 38, 234, 254], [⟨none, .sub (some 278)⟩, ⟨none, .sub (some 278)⟩]⟩,  -- 322 tonNode.preparePersistentState
  ⟨[37, 8, 206, 65], [⟨none, .sub (some 278)⟩]⟩,  -- 323 tonNode.prepareZeroState
  ⟨[187, 207, 231, 242], [⟨none, .sub (some 278)⟩, ⟨none, .fixed 4 0⟩]⟩,  -- 324 tonNode.getNextKeyBlockIds
  ⟨[74, 55, 160, 110], [⟨none, .sub (some 278)⟩]⟩,  -- 325 tonNode.downloadNextBlockFull
  ⟨[157, 196, 39, 106], [⟨none, .sub (some 278)⟩]⟩,  -- 326 tonNode.downloadBlockFull
  ⟨[195, 121, 114, 226], [⟨none, .sub (some 278)⟩]⟩,  -- 327 tonNode.downloadBlock
  ⟨[184, 227, 153, 127], [⟨none, .sub (some 278)⟩, ⟨none, .sub (some 278)⟩]⟩,  -- 328 tonNode.downloadPersistentState
  ⟨[227, 230, 233, 245], [⟨none, .sub (some 278)⟩, ⟨none, .sub (some 278)⟩, ⟨none, .fixed 8 0⟩, ⟨none, .fixed 8 0⟩]⟩,  -- 329 tonNode.downloadPersistentStateSlice
  ⟨[90, 30, 204, 173], [⟨none, .sub (some 278)⟩]⟩,  -- 330 tonNode.downloadZeroState
  ⟨[138, 71, 214, 75], [⟨none, .sub (some 278)⟩]⟩,  -- 331 tonNode.downloadBlockProof
  ⟨[58, 72, 35, 236], [⟨none, .sub (some 278)⟩]⟩,  -- 332 tonNode.downloadKeyBlockProof
  ⟨[198, 0, 179, 37], [⟨none, .sub (some 278)⟩]⟩,  -- 333 tonNode.downloadBlockProofLink
  ⟨[210, 42, 228, 18], [⟨none, .sub (some 278)⟩]⟩,  -- 334 tonNode.downloadKeyBlockProofLink
  ⟨[65, 217, 45, 123], [⟨none, .fixed 4 0⟩]⟩,  -- 335 tonNode.getArchiveInfo
  ⟨[104, 81, 59, 32], [⟨none, .fixed 8 0⟩, ⟨none, .fixed 8 0⟩, ⟨none, .fixed 4 0⟩]⟩,  -- 336 tonNode.getArchiveSlice
  ⟨[248, 24, 230, 222], []⟩,  -- 337 tonNode.getCapabilities
  ⟨[169, 242, 118, 3], [⟨none, .sub (some 292)⟩]⟩,  -- 338 tonNode.slave.sendExtMessage
  ⟨[211, 36, 243, 105], []⟩,  -- 339 tonNode.query
  ⟨[243, 115, 24, 180], [⟨none, .fixed 4 0⟩, ⟨none, .sub (some 278)⟩, ⟨none, .fixed 4 1⟩]⟩,  -- 340 db.root.dbDescription
  ⟨[62, 179, 249, 114], [⟨none, .fixed 4 0⟩]⟩,  -- 341 db.root.key.cellDb
  ⟨[64, 191, 18, 48], [⟨none, .fixed 4 0⟩]⟩,  -- 342 db.root.key.blockDb
  ⟨[161, 130, 17, 214], [⟨none, .fixed 4 0⟩, ⟨none, .fixed 4 0⟩]⟩,  -- 343 db.root.config
  ⟨[132, 50, 195, 19], []⟩,  -- 344 db.root.key.config
  ⟨[64, 20, 16, 230], [⟨none, .sub (some 278)⟩, ⟨none, .fixed 32 0⟩, ⟨none, .fixed 32 0⟩, ⟨none, .fixed 32 0⟩]⟩,  -- 345 db.celldb.value
  ⟨[35, 57, 177, 91], [⟨none, .fixed 32 0⟩]⟩,  -- 346 db.celldb.key.value
  ⟨[39, 231, 198, 74], [⟨none, .sub (some 278)⟩, ⟨none, .fixed 4 2⟩, ⟨some 1, .sub (some 278)⟩, ⟨some 2, .sub (some 278)⟩, ⟨some 3, .sub (some 278)⟩, ⟨some 4, .sub (some 278)⟩, ⟨some 13, .fixed 8 0⟩, ⟨some 14, .fixed 4 0⟩, ⟨some 17, .fixed 32 0⟩, ⟨some 23, .fixed 4 0⟩]⟩,  -- 347 db.block.info
  ⟨[146, 145, 187, 70], [⟨none, .sub (some 278)⟩, ⟨none, .fixed 4 0⟩, ⟨none, .fixed 8 0⟩]⟩,  -- 348 db.block.packedInfo
  ⟨[81, 122, 95, 32], [⟨none, .sub (some 278)⟩, ⟨none, .fixed 4 2⟩, ⟨some 0, .sub (some 278)⟩]⟩,  -- 349 db.block.archivedInfo
  ⟨[45, 196, 142, 178], [⟨none, .sub (some 278)⟩, ⟨none, .bytes true⟩]⟩,  -- 350 db.blockdb.value
  ⟨[179, 85, 22, 193], [⟨none, .sub (some 278)⟩, ⟨none, .fixed 32 0⟩, ⟨none, .fixed 32 0⟩]⟩,  -- 351 db.blockdb.lru
  ⟨[58, 150, 188, 80], [⟨none, .sub (some 278)⟩]⟩,  -- 352 db.blockdb.key.lru
  ⟨[115, 209, 87, 127], [⟨none, .sub (some 278)⟩]⟩,  -- 353 db.blockdb.key.value
  ⟨[218, 106, 217, 101], [⟨none, .sub none⟩, ⟨none, .sub (some 278)⟩, ⟨none, .bytes true⟩, ⟨none, .bytes true⟩]⟩,  -- 354 db.candidate
  ⟨[135, 178, 192, 55], [⟨none, .sub none⟩, ⟨none, .sub (some 278)⟩, ⟨none, .fixed 32 0⟩]⟩,  -- 355 db.candidate.id
  ⟨[75, 39, 255, 123], []⟩,  -- 356 db.filedb.key.empty
  ⟨[113, 228, 234, 176], [⟨none, .sub (some 278)⟩]⟩,  -- 357 db.filedb.key.blockFile
  ⟨[61, 134, 82, 18], [⟨none, .sub (some 278)⟩]⟩,  -- 358 db.filedb.key.zeroStateFile
  ⟨[76, 118, 182, 175], [⟨none, .sub (some 278)⟩, ⟨none, .sub (some 278)⟩]⟩  -- 359 db.filedb.key.persistentStateFile
]

def chunk6 : List Schema := [
  ⟨[236, 77, 149, 218], [⟨none, .sub (some 278)⟩]⟩,  -- 360 db.filedb.key.proof
  ⟨[206, 197, 251, 152], [⟨none, .sub (some 278)⟩]⟩,  -- 361 db.filedb.key.proofLink
  ⟨[11, 13, 41, 215], [⟨none, .sub (some 278)⟩]⟩,  -- 362 db.filedb.key.signatures
  ⟨[185, 10, 138, 226], [⟨none, .sub (some 355)⟩]⟩,  -- 363 db.filedb.key.candidate
  ⟨[252, 212, 153, 196], [⟨none, .sub (some 278)⟩]⟩,  -- 364 db.filedb.key.blockInfo
  ⟨[45, 26, 221, 242], [⟨none, .sub none⟩, ⟨none, .fixed 32 0⟩, ⟨none, .fixed 32 0⟩, ⟨none, .fixed 32 0⟩]⟩,  -- 365 db.filedb.value
  ⟨[132, 217, 168, 173], [⟨none, .vec (some 825)⟩]⟩,  -- 366 db.state.destroyedSessions
  ⟨[245, 156, 44, 115], [⟨none, .sub (some 278)⟩]⟩,  -- 367 db.state.initBlockId
  ⟨[79, 189, 48, 223], [⟨none, .sub (some 278)⟩]⟩,  -- 368 db.state.gcBlockId
  ⟨[157, 166, 22, 11], [⟨none, .sub (some 278)⟩]⟩,  -- 369 db.state.shardClient
  ⟨[161, 41, 47, 211], [⟨none, .sub (some 278)⟩, ⟨none, .sub (some 278)⟩, ⟨none, .fixed 4 0⟩]⟩,  -- 370 db.state.asyncSerializer
  ⟨[4, 13, 243, 133], [⟨none, .vec (some 278)⟩]⟩,  -- 371 db.state.hardforks
  ⟨[247, 32, 55, 217], [⟨none, .fixed 4 0⟩]⟩,  -- 372 db.state.dbVersion
  ⟨[89, 241, 247, 232], []⟩,  -- 373 db.state.key.destroyedSessions
  ⟨[227, 120, 130, 117], []⟩,  -- 374 db.state.key.initBlockId
  ⟨[222, 243, 121, 195], []⟩,  -- 375 db.state.key.gcBlockId
  ⟨[135, 49, 155, 201], []⟩,  -- 376 db.state.key.shardClient
  ⟨[31, 138, 174, 41], []⟩,  -- 377 db.state.key.asyncSerializer
  ⟨[186, 39, 244, 230], []⟩,  -- 378 db.state.key.hardforks
  ⟨[84, 33, 79, 114], []⟩,  -- 379 db.state.key.dbVersion
  ⟨[226, 26, 50, 165], [⟨none, .fixed 4 0⟩, ⟨none, .fixed 8 0⟩, ⟨none, .fixed 4 0⟩]⟩,  -- 380 db.lt.el.key
  ⟨[145, 231, 227, 241], [⟨none, .fixed 4 0⟩, ⟨none, .fixed 8 0⟩]⟩,  -- 381 db.lt.desc.key
  ⟨[15, 249, 166, 80], [⟨none, .fixed 4 0⟩]⟩,  -- 382 db.lt.shard.key
  ⟨[87, 96, 108, 119], []⟩,  -- 383 db.lt.status.key
  ⟨[100, 95, 230, 149], [⟨none, .sub (some 278)⟩, ⟨none, .fixed 8 0⟩, ⟨none, .fixed 4 0⟩]⟩,  -- 384 db.lt.el.value
  ⟨[180, 81, 175, 113], [⟨none, .fixed 4 0⟩, ⟨none, .fixed 4 0⟩, ⟨none, .fixed 4 0⟩, ⟨none, .fixed 8 0⟩, ⟨none, .fixed 4 0⟩]⟩,  -- 385 db.lt.desc.value
  ⟨[123, 154, 115, 60], [⟨none, .fixed 4 0⟩, ⟨none, .fixed 8 0⟩]⟩,  -- 386 db.lt.shard.value
  ⟨[57, 237, 190, 250], [⟨none, .fixed 4 0⟩]⟩,  -- 387 db.lt.status.value
  ⟨[2, 5, 196, 125], []⟩,  -- 388 db.files.index.key
  ⟨[62, 3, 4, 165], [⟨none, .fixed 4 0⟩, ⟨none, .fixed 4 0⟩, ⟨none, .fixed 4 0⟩]⟩,  -- 389 db.files.package.key
  ⟨[252, 218, 177, 162], [⟨none, .vec (some 824)⟩, ⟨none, .vec (some 824)⟩, ⟨none, .vec (some 824)⟩]⟩,  -- 390 db.files.index.value
  ⟨[231, 105, 18, 112], [⟨none, .fixed 4 0⟩, ⟨none, .fixed 8 0⟩, ⟨none, .fixed 4 0⟩, ⟨none, .fixed 4 0⟩, ⟨none, .fixed 8 0⟩]⟩,  -- 391 db.files.package.firstBlock
  ⟨[43, 213, 76, 228], [⟨none, .fixed 4 0⟩, ⟨none, .fixed 4 0⟩, ⟨none, .fixed 4 0⟩, ⟨none, .vec (some 391)⟩, ⟨none, .fixed 4 0⟩]⟩,  -- 392 db.files.package.value
  ⟨[228, 101, 148, 139], [⟨none, .fixed 32 0⟩, ⟨none, .fixed 32 0⟩, ⟨none, .fixed 8 0⟩]⟩,  -- 393 validator.groupMember
  ⟨[161, 126, 216, 248], [⟨none, .fixed 4 0⟩, ⟨none, .fixed 8 0⟩, ⟨none, .fixed 4 0⟩, ⟨none, .fixed 32 0⟩, ⟨none, .vec (some 393)⟩]⟩,  -- 394 validator.group
  ⟨[254, 77, 146, 28], [⟨none, .fixed 4 0⟩, ⟨none, .fixed 8 0⟩, ⟨none, .fixed 4 0⟩, ⟨none, .fixed 4 0⟩, ⟨none, .fixed 32 0⟩, ⟨none, .vec (some 393)⟩]⟩,  -- 395 validator.groupEx
  ⟨[77, 161, 67, 152], [⟨none, .fixed 4 0⟩, ⟨none, .fixed 8 0⟩, ⟨none, .fixed 4 0⟩, ⟨none, .fixed 4 0⟩, ⟨none, .fixed 4 0⟩, ⟨none, .fixed 32 0⟩, ⟨none, .vec (some 393)⟩]⟩,  -- 396 validator.groupNew
  ⟨[142, 199, 169, 146], [⟨none, .sub none⟩]⟩,  -- 397 id.config.local
  ⟨[111, 74, 32, 118], [⟨none, .sub (some 125)⟩]⟩,  -- 398 dht.config.local
  ⟨[119, 37, 235, 155], [⟨none, .fixed 4 0⟩]⟩,  -- 399 dht.config.random.local
  ⟨[143, 235, 115, 70], [⟨none, .sub none⟩, ⟨none, .fixed 4 0⟩]⟩,  -- 400 liteserver.config.local
  ⟨[59, 69, 201, 124], [⟨none, .fixed 4 0⟩]⟩,  -- 401 liteserver.config.random.local
  ⟨[104, 255, 75, 102], [⟨none, .sub (some 125)⟩]⟩,  -- 402 validator.config.local
  ⟨[98, 148, 131, 89], [⟨none, .sub (some 134)⟩]⟩,  -- 403 validator.config.random.local
  ⟨[237, 236, 29, 117], [⟨none, .sub none⟩, ⟨none, .fixed 32 0⟩, ⟨none, .fixed 4 0⟩]⟩,  -- 404 control.config.local
  ⟨[92, 145, 158, 120], [⟨none, .vec (some 397)⟩, ⟨none, .vec none⟩, ⟨none, .vec none⟩, ⟨none, .vec none⟩, ⟨none, .vec (some 404)⟩]⟩,  -- 405 config.local
  ⟨[7, 202, 206, 132], [⟨none, .sub (some 163)⟩, ⟨none, .fixed 4 0⟩, ⟨none, .fixed 4 0⟩]⟩,  -- 406 dht.config.global
  ⟨[39, 132, 99, 105], [⟨none, .sub (some 163)⟩, ⟨none, .fixed 4 0⟩, ⟨none, .fixed 4 0⟩, ⟨none, .fixed 4 0⟩]⟩,  -- 407 dht.config.global_v2
  ⟨[208, 128, 111, 190], [⟨none, .sub (some 136)⟩]⟩,  -- 408 adnl.config.global
  ⟨[81, 182, 199, 104], [⟨none, .fixed 32 0⟩, ⟨none, .vec none⟩]⟩,  -- 409 catchain.config.global
  ⟨[211, 110, 97, 218], [⟨none, .fixed 32 0⟩]⟩,  -- 410 dummyworkchain0.config.global
  ⟨[106, 255, 125, 134], [⟨none, .sub (some 278)⟩, ⟨none, .sub (some 278)⟩, ⟨none, .vec (some 278)⟩]⟩,  -- 411 validator.config.global
  ⟨[176, 233, 102, 240], [⟨none, .sub (some 408)⟩, ⟨none, .sub none⟩, ⟨none, .sub (some 411)⟩]⟩,  -- 412 config.global
  ⟨[116, 164, 73, 196], [⟨none, .sub none⟩, ⟨none, .fixed 4 0⟩, ⟨none, .fixed 4 0⟩]⟩,  -- 413 liteserver.desc
  ⟨[248, 192, 141, 8], [⟨none, .vec (some 413)⟩, ⟨none, .sub (some 411)⟩]⟩,  -- 414 liteclient.config.global
  ⟨[80, 101, 215, 98], [⟨none, .fixed 32 0⟩, ⟨none, .fixed 4 0⟩]⟩,  -- 415 engine.adnl
  ⟨[236, 31, 49, 239], [⟨none, .fixed 4 0⟩, ⟨none, .fixed 4 0⟩, ⟨none, .vec (some 824)⟩, ⟨none, .vec (some 824)⟩]⟩,  -- 416 engine.addr
  ⟨[73, 101, 223, 138], [⟨none, .fixed 4 0⟩, ⟨none, .fixed 4 0⟩, ⟨none, .fixed 4 0⟩, ⟨none, .fixed 4 0⟩, ⟨none, .sub none⟩, ⟨none, .vec (some 824)⟩, ⟨none, .vec (some 824)⟩]⟩,  -- 417 engine.addrProxy
  ⟨[250, 242, 233, 93], [⟨none, .fixed 32 0⟩]⟩,  -- 418 engine.dht
  ⟨[222, 214, 74, 94], [⟨none, .fixed 32 0⟩, ⟨none, .fixed 4 0⟩]⟩  -- 419 engine.validatorTempKey
]

def chunk7 : List Schema := [
  ⟨[190, 69, 69, 211], [⟨none, .fixed 32 0⟩, ⟨none, .fixed 4 0⟩]⟩,  -- 420 engine.validatorAdnlAddress
  ⟨[41, 234, 95, 136], [⟨none, .fixed 32 0⟩, ⟨none, .vec (some 419)⟩, ⟨none, .vec (some 420)⟩, ⟨none, .fixed 4 0⟩, ⟨none, .fixed 4 0⟩]⟩,  -- 421 engine.validator
  ⟨[254, 142, 112, 187], [⟨none, .fixed 32 0⟩, ⟨none, .fixed 4 0⟩]⟩,  -- 422 engine.liteServer
  ⟨[23, 72, 192, 106], [⟨none, .fixed 32 0⟩, ⟨none, .fixed 4 0⟩]⟩,  -- 423 engine.controlProcess
  ⟨[171, 111, 129, 49], [⟨none, .fixed 32 0⟩, ⟨none, .fixed 4 0⟩, ⟨none, .vec (some 423)⟩]⟩,  -- 424 engine.controlInterface
  ⟨[123, 152, 189, 191], [⟨none, .vec (some 825)⟩]⟩,  -- 425 engine.gc
  ⟨[198, 128, 61, 244], [⟨none, .vec (some 418)⟩, ⟨none, .sub (some 425)⟩]⟩,  -- 426 engine.dht.config
  ⟨[104, 246, 133, 132], [⟨none, .fixed 4 0⟩, ⟨none, .fixed 32 0⟩]⟩,  -- 427 engine.validator.fullNodeMaster
  ⟨[121, 107, 37, 136], [⟨none, .fixed 4 0⟩, ⟨none, .fixed 4 0⟩, ⟨none, .sub none⟩]⟩,  -- 428 engine.validator.fullNodeSlave
  ⟨[20, 177, 254, 41], [⟨none, .fixed 4 0⟩]⟩,  -- 429 engine.validator.fullNodeConfig
  ⟨[208, 30, 31, 232], [⟨none, .fixed 4 0⟩, ⟨none, .vec none⟩, ⟨none, .vec (some 415)⟩, ⟨none, .vec (some 418)⟩, ⟨none, .vec (some 421)⟩, ⟨none, .fixed 32 0⟩, ⟨none, .vec (some 428)⟩, ⟨none, .vec (some 427)⟩, ⟨none, .sub (some 429)⟩, ⟨none, .vec (some 422)⟩, ⟨none, .vec (some 424)⟩, ⟨none, .sub (some 425)⟩]⟩,  -- 430 engine.validator.config
  ⟨[226, 138, 211, 84], [⟨none, .fixed 32 0⟩, ⟨none, .fixed 4 0⟩, ⟨none, .fixed 4 0⟩]⟩,  -- 431 engine.validator.customOverlayNode
  ⟨[37, 11, 223, 173], [⟨none, .bytes true⟩, ⟨none, .vec (some 431)⟩]⟩,  -- 432 engine.validator.customOverlay
  ⟨[25, 59, 122, 64], [⟨none, .vec (some 432)⟩]⟩,  -- 433 engine.validator.customOverlaysConfig
  ⟨[74, 117, 1, 249], [⟨none, .fixed 4 0⟩, ⟨none, .fixed 4 0⟩, ⟨none, .fixed 4 0⟩, ⟨none, .fixed 4 0⟩, ⟨none, .sub none⟩]⟩,  -- 434 engine.adnlProxy.port
  ⟨[1, 65, 38, 110], [⟨none, .vec (some 434)⟩]⟩,  -- 435 engine.adnlProxy.config
  ⟨[14, 124, 116, 32], [⟨none, .fixed 8 0⟩]⟩,  -- 436 adnl.pong
  ⟨[191, 161, 170, 31], [⟨none, .fixed 8 0⟩]⟩,  -- 437 adnl.ping
  ⟨[78, 165, 198, 194], [⟨none, .fixed 32 0⟩]⟩,  -- 438 engine.validator.keyHash
  ⟨[40, 67, 108, 251], [⟨none, .bytes true⟩]⟩,  -- 439 engine.validator.signature
  ⟨[237, 58, 152, 164], [⟨none, .bytes true⟩, ⟨none, .bytes true⟩]⟩,  -- 440 engine.validator.oneStat
  ⟨[111, 211, 73, 93], [⟨none, .vec (some 440)⟩]⟩,  -- 441 engine.validator.stats
  ⟨[31, 154, 38, 119], [⟨none, .fixed 4 0⟩, ⟨none, .bytes true⟩]⟩,  -- 442 engine.validator.controlQueryError
  ⟨[254, 161, 95, 223], [⟨none, .fixed 4 0⟩]⟩,  -- 443 engine.validator.time
  ⟨[139, 166, 228, 179], []⟩,  -- 444 engine.validator.success
  ⟨[11, 146, 45, 19], [⟨none, .bytes true⟩]⟩,  -- 445 engine.validator.jsonConfig
  ⟨[61, 122, 178, 35], [⟨none, .fixed 4 0⟩, ⟨none, .fixed 32 0⟩, ⟨none, .fixed 32 0⟩, ⟨none, .bytes true⟩]⟩,  -- 446 engine.validator.electionBid
  ⟨[237, 38, 102, 127], [⟨none, .fixed 32 0⟩, ⟨none, .bytes true⟩]⟩,  -- 447 engine.validator.proposalVote
  ⟨[94, 231, 29, 177], [⟨none, .fixed 32 0⟩, ⟨none, .fixed 4 0⟩]⟩,  -- 448 engine.validator.dhtServerStatus
  ⟨[40, 253, 56, 43], [⟨none, .vec (some 448)⟩]⟩,  -- 449 engine.validator.dhtServersStatus
  ⟨[217, 32, 114, 249], [⟨none, .fixed 32 0⟩, ⟨none, .bytes true⟩, ⟨none, .fixed 4 0⟩, ⟨none, .fixed 4 0⟩, ⟨none, .fixed 4 0⟩, ⟨none, .fixed 4 0⟩, ⟨none, .fixed 4 0⟩, ⟨none, .fixed 4 0⟩, ⟨none, .fixed 4 0⟩, ⟨none, .fixed 4 0⟩]⟩,  -- 450 engine.validator.overlayStatsNode
  ⟨[249, 250, 160, 223], [⟨none, .fixed 32 0⟩, ⟨none, .sub none⟩, ⟨none, .fixed 32 0⟩, ⟨none, .bytes true⟩, ⟨none, .vec (some 450)⟩, ⟨none, .vec (some 440)⟩]⟩,  -- 451 engine.validator.overlayStats
  ⟨[127, 38, 9, 156], [⟨none, .vec (some 451)⟩]⟩,  -- 452 engine.validator.overlaysStats
  ⟨[104, 163, 35, 145], [⟨none, .fixed 4 0⟩, ⟨none, .sub (some 604)⟩, ⟨none, .sub (some 604)⟩, ⟨none, .sub (some 604)⟩]⟩,  -- 453 engine.validator.onePerfTimerStat
  ⟨[228, 205, 186, 130], [⟨none, .bytes true⟩, ⟨none, .vec none⟩]⟩,  -- 454 engine.validator.perfTimerStatsByName
  ⟨[27, 85, 208, 95], [⟨none, .vec none⟩]⟩,  -- 455 engine.validator.perfTimerStats
  ⟨[93, 164, 219, 15], [⟨none, .fixed 4 0⟩]⟩,  -- 456 engine.validator.shardOutQueueSize
  ⟨[209, 190, 64, 225], []⟩,  -- 457 engine.validator.getTime
  ⟨[199, 122, 128, 21], [⟨none, .sub none⟩]⟩,  -- 458 engine.validator.importPrivateKey
  ⟨[72, 128, 114, 204], [⟨none, .fixed 32 0⟩]⟩,  -- 459 engine.validator.exportPrivateKey
  ⟨[185, 168, 52, 98], [⟨none, .fixed 32 0⟩]⟩,  -- 460 engine.validator.exportPublicKey
  ⟨[123, 96, 37, 235], []⟩,  -- 461 engine.validator.generateKeyPair
  ⟨[171, 84, 133, 237], [⟨none, .fixed 32 0⟩, ⟨none, .fixed 4 0⟩]⟩,  -- 462 engine.validator.addAdnlId
  ⟨[140, 30, 12, 245], [⟨none, .fixed 32 0⟩]⟩,  -- 463 engine.validator.addDhtId
  ⟨[120, 5, 21, 146], [⟨none, .fixed 32 0⟩, ⟨none, .fixed 4 0⟩, ⟨none, .fixed 4 0⟩]⟩,  -- 464 engine.validator.addValidatorPermanentKey
  ⟨[50, 111, 51, 141], [⟨none, .fixed 32 0⟩, ⟨none, .fixed 32 0⟩, ⟨none, .fixed 4 0⟩]⟩,  -- 465 engine.validator.addValidatorTempKey
  ⟨[130, 166, 203, 218], [⟨none, .fixed 32 0⟩, ⟨none, .fixed 32 0⟩, ⟨none, .fixed 4 0⟩]⟩,  -- 466 engine.validator.addValidatorAdnlAddress
  ⟨[133, 201, 198, 190], [⟨none, .fixed 32 0⟩]⟩,  -- 467 engine.validator.changeFullNodeAdnlAddress
  ⟨[71, 15, 138, 240], [⟨none, .fixed 32 0⟩, ⟨none, .fixed 4 0⟩]⟩,  -- 468 engine.validator.addLiteserver
  ⟨[252, 243, 139, 52], [⟨none, .fixed 32 0⟩, ⟨none, .fixed 4 0⟩]⟩,  -- 469 engine.validator.addControlInterface
  ⟨[80, 247, 224, 90], [⟨none, .fixed 32 0⟩, ⟨none, .fixed 4 0⟩, ⟨none, .fixed 32 0⟩, ⟨none, .fixed 4 0⟩]⟩,  -- 470 engine.validator.addControlProcess
  ⟨[242, 116, 58, 41], [⟨none, .fixed 32 0⟩]⟩,  -- 471 engine.validator.delAdnlId
  ⟨[62, 91, 253, 132], [⟨none, .fixed 32 0⟩]⟩,  -- 472 engine.validator.delDhtId
  ⟨[250, 200, 74, 23], [⟨none, .fixed 32 0⟩]⟩,  -- 473 engine.validator.delValidatorPermanentKey
  ⟨[209, 224, 230, 160], [⟨none, .fixed 32 0⟩, ⟨none, .fixed 32 0⟩]⟩,  -- 474 engine.validator.delValidatorTempKey
  ⟨[90, 67, 8, 247], [⟨none, .fixed 32 0⟩, ⟨none, .fixed 32 0⟩]⟩,  -- 475 engine.validator.delValidatorAdnlAddress
  ⟨[181, 137, 107, 234], [⟨none, .fixed 4 0⟩, ⟨none, .fixed 4 0⟩, ⟨none, .vec (some 824)⟩, ⟨none, .vec (some 824)⟩]⟩,  -- 476 engine.validator.addListeningPort
  ⟨[245, 51, 253, 246], [⟨none, .fixed 4 0⟩, ⟨none, .fixed 4 0⟩, ⟨none, .fixed 4 0⟩, ⟨none, .fixed 4 0⟩, ⟨none, .sub none⟩, ⟨none, .vec (some 824)⟩, ⟨none, .vec (some 824)⟩]⟩,  -- 477 engine.validator.addProxy
  ⟨[79, 184, 91, 49], [⟨none, .fixed 4 0⟩, ⟨none, .fixed 4 0⟩, ⟨none, .vec (some 824)⟩, ⟨none, .vec (some 824)⟩]⟩,  -- 478 engine.validator.delListeningPort
  ⟨[125, 204, 120, 117], [⟨none, .fixed 4 0⟩, ⟨none, .fixed 4 0⟩, ⟨none, .vec (some 824)⟩, ⟨none, .vec (some 824)⟩]⟩  -- 479 engine.validator.delProxy
]

def chunk8 : List Schema := [
  ⟨[40, 26, 234, 26], [⟨none, .fixed 32 0⟩, ⟨none, .bytes true⟩]⟩,  -- 480 engine.validator.sign
  ⟨[17, 195, 213, 82], []⟩,  -- 481 engine.validator.getStats
  ⟨[37, 34, 173, 89], []⟩,  -- 482 engine.validator.getConfig
  ⟨[130, 94, 130, 177], [⟨none, .fixed 4 0⟩]⟩,  -- 483 engine.validator.setVerbosity
  ⟨[69, 177, 29, 229], [⟨none, .fixed 4 0⟩, ⟨none, .bytes true⟩, ⟨none, .bytes true⟩]⟩,  -- 484 engine.validator.createElectionBid
  ⟨[109, 33, 179, 29], [⟨none, .bytes true⟩]⟩,  -- 485 engine.validator.createProposalVote
  ⟨[42, 255, 131, 176], [⟨none, .fixed 4 0⟩, ⟨none, .bytes true⟩]⟩,  -- 486 engine.validator.createComplaintVote
  ⟨[202, 32, 228, 209], [⟨none, .fixed 32 0⟩]⟩,  -- 487 engine.validator.checkDhtServers
  ⟨[206, 172, 216, 252], []⟩,  -- 488 engine.validator.getOverlaysStats
  ⟨[192, 189, 118, 164], [⟨none, .bytes true⟩]⟩,  -- 489 engine.validator.controlQuery
  ⟨[207, 192, 130, 60], [⟨none, .fixed 32 0⟩, ⟨none, .sub (some 125)⟩, ⟨none, .sub none⟩, ⟨none, .sub none⟩]⟩,  -- 490 engine.validator.importCertificate
  ⟨[86, 60, 151, 92], [⟨none, .fixed 4 0⟩, ⟨none, .fixed 8 0⟩, ⟨none, .sub none⟩, ⟨none, .fixed 4 0⟩, ⟨none, .fixed 4 0⟩]⟩,  -- 491 engine.validator.signShardOverlayCertificate
  ⟨[88, 10, 195, 26], [⟨none, .fixed 4 0⟩, ⟨none, .fixed 8 0⟩, ⟨none, .sub none⟩, ⟨none, .sub none⟩]⟩,  -- 492 engine.validator.importShardOverlayCertificate
  ⟨[239, 248, 66, 234], [⟨none, .bytes true⟩]⟩,  -- 493 engine.validator.getPerfTimerStats
  ⟨[80, 92, 161, 91], [⟨none, .fixed 4 2⟩, ⟨none, .sub (some 277)⟩, ⟨some 0, .fixed 4 0⟩, ⟨some 0, .fixed 8 0⟩]⟩,  -- 494 engine.validator.getShardOutQueueSize
  ⟨[218, 9, 145, 138], [⟨none, .fixed 4 0⟩]⟩,  -- 495 engine.validator.setExtMessagesBroadcastDisabled
  ⟨[8, 226, 63, 59], [⟨none, .sub (some 432)⟩]⟩,  -- 496 engine.validator.addCustomOverlay
  ⟨[108, 66, 73, 121], [⟨none, .bytes true⟩]⟩,  -- 497 engine.validator.delCustomOverlay
  ⟨[59, 21, 66, 185], []⟩,  -- 498 engine.validator.showCustomOverlays
  ⟨[165, 198, 245, 108], []⟩,  -- 499 storage.pong
  ⟨[5, 28, 43, 195], []⟩,  -- 500 storage.ok
  ⟨[138, 112, 19, 51], [⟨none, .fixed 4 0⟩, ⟨none, .fixed 4 0⟩]⟩,  -- 501 storage.state
  ⟨[13, 250, 180, 128], [⟨none, .bytes true⟩, ⟨none, .bytes true⟩]⟩,  -- 502 storage.piece
  ⟨[238, 208, 206, 20], [⟨none, .bytes true⟩]⟩,  -- 503 storage.torrentInfo
  ⟨[182, 224, 51, 206], [⟨none, .bytes true⟩, ⟨none, .fixed 4 0⟩, ⟨none, .sub none⟩]⟩,  -- 504 storage.updateInit
  ⟨[73, 32, 248, 59], [⟨none, .vec (some 824)⟩]⟩,  -- 505 storage.updateHavePieces
  ⟨[181, 52, 176, 5], [⟨none, .sub none⟩]⟩,  -- 506 storage.updateState
  ⟨[17, 242, 243, 68], [⟨none, .fixed 8 0⟩]⟩,  -- 507 storage.ping
  ⟨[210, 53, 49, 77], [⟨none, .fixed 8 0⟩, ⟨none, .fixed 4 0⟩, ⟨none, .sub none⟩]⟩,  -- 508 storage.addUpdate
  ⟨[42, 150, 196, 145], []⟩,  -- 509 storage.getTorrentInfo
  ⟨[96, 230, 122, 128], [⟨none, .fixed 4 0⟩]⟩,  -- 510 storage.getPiece
  ⟨[17, 229, 155, 142], [⟨none, .bytes true⟩, ⟨none, .bytes true⟩]⟩,  -- 511 http.header
  ⟨[100, 215, 90, 41], [⟨none, .bytes true⟩, ⟨none, .vec (some 511)⟩, ⟨none, .fixed 4 0⟩]⟩,  -- 512 http.payloadPart
  ⟨[74, 167, 72, 202], [⟨none, .bytes true⟩, ⟨none, .fixed 4 0⟩, ⟨none, .bytes true⟩, ⟨none, .vec (some 511)⟩, ⟨none, .fixed 4 0⟩]⟩,  -- 513 http.response
  ⟨[17, 108, 146, 49], [⟨none, .fixed 8 0⟩]⟩,  -- 514 http.proxy.capabilities
  ⟨[225, 145, 177, 97], [⟨none, .fixed 32 0⟩, ⟨none, .bytes true⟩, ⟨none, .bytes true⟩, ⟨none, .bytes true⟩, ⟨none, .vec (some 511)⟩]⟩,  -- 515 http.request
  ⟨[12, 93, 116, 144], [⟨none, .fixed 32 0⟩, ⟨none, .fixed 4 0⟩, ⟨none, .fixed 4 0⟩]⟩,  -- 516 http.getNextPayloadPart
  ⟨[137, 31, 114, 219], [⟨none, .fixed 8 0⟩]⟩,  -- 517 http.proxy.getCapabilities
  ⟨[150, 96, 114, 216], [⟨none, .bytes true⟩, ⟨none, .sub (some 125)⟩]⟩,  -- 518 http.server.dnsEntry
  ⟨[167, 226, 125, 197], [⟨none, .vec (some 827)⟩, ⟨none, .fixed 4 0⟩, ⟨none, .fixed 4 0⟩, ⟨none, .sub (some 125)⟩]⟩,  -- 519 http.server.host
  ⟨[252, 119, 20, 58], [⟨none, .vec (some 518)⟩, ⟨none, .vec (some 519)⟩]⟩,  -- 520 http.server.config
  ⟨[200, 25, 240, 45], [⟨none, .fixed 32 0⟩, ⟨none, .fixed 32 0⟩, ⟨none, .fixed 4 0⟩, ⟨none, .fixed 8 0⟩, ⟨none, .bytes true⟩]⟩,  -- 521 validatorSession.statsProducer
  ⟨[102, 223, 47, 163], [⟨none, .fixed 8 0⟩, ⟨none, .vec (some 521)⟩]⟩,  -- 522 validatorSession.statsRound
  ⟨[239, 184, 14, 131], [⟨none, .fixed 4 0⟩, ⟨none, .sub (some 278)⟩, ⟨none, .fixed 8 0⟩, ⟨none, .fixed 32 0⟩, ⟨none, .fixed 32 0⟩, ⟨none, .fixed 4 0⟩, ⟨none, .fixed 32 0⟩, ⟨none, .fixed 4 0⟩, ⟨none, .fixed 8 0⟩, ⟨none, .fixed 4 0⟩, ⟨none, .fixed 8 0⟩, ⟨none, .fixed 4 0⟩, ⟨none, .fixed 8 0⟩, ⟨none, .fixed 4 0⟩, ⟨none, .vec (some 522)⟩]⟩,  -- 523 validatorSession.stats
  ⟨[86, 232, 198, 203], []⟩,  -- 524 storage.db.key.torrentList
  ⟨[47, 18, 136, 185], [⟨none, .fixed 32 0⟩]⟩,  -- 525 storage.db.key.torrent
  ⟨[102, 157, 35, 98], [⟨none, .fixed 32 0⟩]⟩,  -- 526 storage.db.key.torrentMeta
  ⟨[109, 202, 241, 181], [⟨none, .fixed 32 0⟩]⟩,  -- 527 storage.db.key.priorities
  ⟨[227, 201, 232, 219], [⟨none, .fixed 32 0⟩]⟩,  -- 528 storage.db.key.piecesInDb
  ⟨[205, 237, 10, 196], [⟨none, .fixed 32 0⟩, ⟨none, .fixed 8 0⟩]⟩,  -- 529 storage.db.key.pieceInDb
  ⟨[7, 52, 152, 221], []⟩,  -- 530 storage.db.key.config
  ⟨[40, 77, 144, 93], [⟨none, .fixed 4 2⟩, ⟨none, .sub (some 604)⟩, ⟨none, .sub (some 604)⟩]⟩,  -- 531 storage.db.config
  ⟨[129, 227, 239, 89], [⟨none, .vec (some 825)⟩]⟩,  -- 532 storage.db.torrentList
  ⟨[154, 55, 45, 173], [⟨none, .bytes true⟩, ⟨none, .fixed 4 0⟩, ⟨none, .fixed 4 0⟩]⟩,  -- 533 storage.db.torrent
  ⟨[155, 248, 236, 137], [⟨none, .fixed 4 2⟩, ⟨none, .bytes true⟩, ⟨none, .fixed 4 0⟩, ⟨none, .fixed 4 0⟩, ⟨none, .fixed 4 0⟩]⟩,  -- 534 storage.db.torrentV2
  ⟨[78, 235, 41, 57], [⟨none, .vec none⟩]⟩,  -- 535 storage.db.priorities
  ⟨[60, 180, 25, 6], [⟨none, .vec (some 828)⟩]⟩,  -- 536 storage.db.piecesInDb
  ⟨[64, 137, 35, 254], [⟨none, .fixed 4 0⟩]⟩,  -- 537 storage.priorityAction.all
  ⟨[40, 183, 15, 149], [⟨none, .fixed 8 0⟩, ⟨none, .fixed 4 0⟩]⟩,  -- 538 storage.priorityAction.idx
  ⟨[192, 209, 36, 1], [⟨none, .bytes true⟩, ⟨none, .fixed 4 0⟩]⟩  -- 539 storage.priorityAction.name
]

def chunk9 : List Schema := [
  ⟨[183, 148, 198, 240], [⟨none, .sub none⟩, ⟨none, .fixed 32 0⟩, ⟨none, .bytes true⟩, ⟨none, .sub none⟩, ⟨none, .sub none⟩]⟩,  -- 540 storage.daemon.config
  ⟨[7, 110, 115, 172], [⟨none, .fixed 4 0⟩, ⟨none, .bytes true⟩, ⟨none, .fixed 4 0⟩, ⟨none, .fixed 8 0⟩, ⟨none, .fixed 8 0⟩]⟩,  -- 541 storage.daemon.provider.params
  ⟨[162, 207, 32, 244], []⟩,  -- 542 storage.provider.db.key.state
  ⟨[70, 204, 146, 85], []⟩,  -- 543 storage.provider.db.key.contractList
  ⟨[30, 203, 94, 204], [⟨none, .fixed 4 0⟩, ⟨none, .fixed 32 0⟩]⟩,  -- 544 storage.provider.db.key.storageContract
  ⟨[121, 234, 152, 41], [⟨none, .fixed 4 0⟩, ⟨none, .fixed 32 0⟩]⟩,  -- 545 storage.provider.db.key.microchunkTree
  ⟨[50, 9, 232, 231], []⟩,  -- 546 storage.provider.db.key.providerConfig
  ⟨[243, 85, 169, 1], [⟨none, .fixed 8 0⟩]⟩,  -- 547 storage.provider.db.state
  ⟨[253, 236, 88, 226], [⟨none, .fixed 4 0⟩, ⟨none, .fixed 32 0⟩]⟩,  -- 548 storage.provider.db.contractAddress
  ⟨[23, 231, 56, 218], [⟨none, .vec (some 548)⟩]⟩,  -- 549 storage.provider.db.contractList
  ⟨[50, 167, 179, 238], [⟨none, .fixed 32 0⟩, ⟨none, .fixed 32 0⟩, ⟨none, .fixed 4 0⟩, ⟨none, .fixed 4 0⟩, ⟨none, .fixed 8 0⟩, ⟨none, .bytes true⟩, ⟨none, .fixed 4 0⟩]⟩,  -- 550 storage.provider.db.storageContract
  ⟨[66, 15, 202, 194], [⟨none, .bytes true⟩]⟩,  -- 551 storage.provider.db.microchunkTree
  ⟨[196, 186, 189, 4], [⟨none, .bytes true⟩]⟩,  -- 552 storage.daemon.queryError
  ⟨[28, 239, 174, 179], []⟩,  -- 553 storage.daemon.success
  ⟨[103, 11, 179, 21], [⟨none, .fixed 32 0⟩, ⟨none, .fixed 4 2⟩, ⟨some 0, .fixed 8 0⟩, ⟨some 0, .bytes true⟩, ⟨some 1, .fixed 8 0⟩, ⟨some 1, .fixed 8 0⟩, ⟨some 1, .bytes true⟩, ⟨none, .fixed 8 0⟩, ⟨none, .fixed 4 0⟩, ⟨none, .bytes true⟩, ⟨none, .fixed 4 0⟩, ⟨none, .fixed 4 0⟩, ⟨none, .fixed 4 0⟩, ⟨none, .sub (some 604)⟩, ⟨none, .sub (some 604)⟩, ⟨some 2, .bytes true⟩]⟩,  -- 554 storage.daemon.torrent
  ⟨[254, 219, 119, 113], [⟨none, .bytes true⟩, ⟨none, .fixed 8 0⟩, ⟨none, .fixed 4 2⟩, ⟨none, .fixed 4 0⟩, ⟨none, .fixed 8 0⟩]⟩,  -- 555 storage.daemon.fileInfo
  ⟨[39, 140, 168, 95], [⟨none, .sub (some 554)⟩, ⟨none, .vec (some 555)⟩]⟩,  -- 556 storage.daemon.torrentFull
  ⟨[66, 24, 28, 79], [⟨none, .vec (some 554)⟩]⟩,  -- 557 storage.daemon.torrentList
  ⟨[232, 30, 190, 212], [⟨none, .bytes true⟩]⟩,  -- 558 storage.daemon.torrentMeta
  ⟨[67, 53, 85, 3], [⟨none, .bytes true⟩, ⟨none, .fixed 8 0⟩, ⟨none, .fixed 8 0⟩]⟩,  -- 559 storage.daemon.filePiecesInfo
  ⟨[145, 171, 28, 9], [⟨none, .fixed 4 2⟩, ⟨none, .fixed 8 0⟩, ⟨none, .fixed 4 0⟩, ⟨none, .fixed 8 0⟩, ⟨none, .fixed 8 0⟩, ⟨none, .bytes true⟩, ⟨some 0, .vec (some 559)⟩]⟩,  -- 560 storage.daemon.torrentPiecesInfo
  ⟨[132, 8, 91, 85], [⟨none, .bytes true⟩, ⟨none, .fixed 4 0⟩]⟩,  -- 561 storage.daemon.newContractParams
  ⟨[173, 103, 119, 175], [⟨none, .bytes true⟩]⟩,  -- 562 storage.daemon.newContractParamsAuto
  ⟨[246, 173, 137, 245], [⟨none, .bytes true⟩, ⟨none, .bytes true⟩, ⟨none, .fixed 4 0⟩]⟩,  -- 563 storage.daemon.newContractMessage
  ⟨[52, 80, 52, 189], [⟨none, .fixed 32 0⟩, ⟨none, .bytes true⟩, ⟨none, .sub (some 604)⟩, ⟨none, .sub (some 604)⟩, ⟨none, .fixed 8 0⟩]⟩,  -- 564 storage.daemon.peer
  ⟨[21, 56, 222, 165], [⟨none, .vec (some 564)⟩, ⟨none, .sub (some 604)⟩, ⟨none, .sub (some 604)⟩, ⟨none, .fixed 8 0⟩]⟩,  -- 565 storage.daemon.peerList
  ⟨[215, 159, 232, 182], []⟩,  -- 566 storage.daemon.prioritySet
  ⟨[166, 97, 9, 132], []⟩,  -- 567 storage.daemon.priorityPending
  ⟨[220, 98, 181, 133], [⟨none, .fixed 32 0⟩]⟩,  -- 568 storage.daemon.keyHash
  ⟨[25, 233, 176, 254], [⟨none, .sub (some 604)⟩, ⟨none, .sub (some 604)⟩]⟩,  -- 569 storage.daemon.speedLimits
  ⟨[148, 10, 173, 125], [⟨none, .fixed 4 0⟩, ⟨none, .fixed 8 0⟩]⟩,  -- 570 storage.daemon.providerConfig
  ⟨[9, 79, 116, 215], [⟨none, .bytes true⟩, ⟨none, .fixed 4 0⟩, ⟨none, .fixed 32 0⟩, ⟨none, .fixed 4 0⟩, ⟨none, .fixed 8 0⟩, ⟨none, .fixed 8 0⟩, ⟨none, .bytes true⟩, ⟨none, .fixed 4 0⟩, ⟨none, .bytes true⟩, ⟨none, .bytes true⟩]⟩,  -- 571 storage.daemon.contractInfo
  ⟨[45, 1, 107, 231], [⟨none, .bytes true⟩, ⟨none, .bytes true⟩, ⟨none, .sub (some 570)⟩, ⟨none, .fixed 4 0⟩, ⟨none, .fixed 8 0⟩, ⟨none, .vec (some 571)⟩]⟩,  -- 572 storage.daemon.providerInfo
  ⟨[18, 185, 94, 136], [⟨none, .bytes true⟩]⟩,  -- 573 storage.daemon.providerAddress
  ⟨[152, 187, 188, 38], [⟨none, .fixed 4 0⟩]⟩,  -- 574 storage.daemon.setVerbosity
  ⟨[43, 188, 153, 157], [⟨none, .bytes true⟩, ⟨none, .bytes true⟩, ⟨none, .fixed 4 0⟩, ⟨none, .fixed 4 0⟩, ⟨none, .fixed 4 2⟩]⟩,  -- 575 storage.daemon.createTorrent
  ⟨[158, 104, 53, 181], [⟨none, .fixed 32 0⟩, ⟨none, .bytes true⟩, ⟨none, .fixed 4 0⟩, ⟨none, .fixed 4 0⟩, ⟨none, .vec none⟩, ⟨none, .fixed 4 2⟩]⟩,  -- 576 storage.daemon.addByHash
  ⟨[94, 22, 89, 182], [⟨none, .bytes true⟩, ⟨none, .bytes true⟩, ⟨none, .fixed 4 0⟩, ⟨none, .fixed 4 0⟩, ⟨none, .vec none⟩, ⟨none, .fixed 4 2⟩]⟩,  -- 577 storage.daemon.addByMeta
  ⟨[157, 93, 122, 116], [⟨none, .fixed 32 0⟩, ⟨none, .fixed 4 0⟩]⟩,  -- 578 storage.daemon.setActiveDownload
  ⟨[155, 182, 174, 59], [⟨none, .fixed 32 0⟩, ⟨none, .fixed 4 0⟩]⟩,  -- 579 storage.daemon.setActiveUpload
  ⟨[90, 251, 53, 35], [⟨none, .fixed 4 2⟩]⟩,  -- 580 storage.daemon.getTorrents
  ⟨[102, 64, 154, 92], [⟨none, .fixed 32 0⟩, ⟨none, .fixed 4 2⟩]⟩,  -- 581 storage.daemon.getTorrentFull
  ⟨[241, 45, 93, 115], [⟨none, .fixed 32 0⟩, ⟨none, .fixed 4 2⟩]⟩,  -- 582 storage.daemon.getTorrentMeta
  ⟨[148, 255, 171, 233], [⟨none, .fixed 32 0⟩, ⟨none, .fixed 8 0⟩, ⟨none, .sub none⟩]⟩,  -- 583 storage.daemon.getNewContractMessage
  ⟨[153, 208, 183, 17], [⟨none, .fixed 32 0⟩, ⟨none, .fixed 4 2⟩]⟩,  -- 584 storage.daemon.getTorrentPeers
  ⟨[38, 183, 172, 243], [⟨none, .fixed 32 0⟩, ⟨none, .fixed 4 2⟩, ⟨none, .fixed 8 0⟩, ⟨none, .fixed 8 0⟩]⟩,  -- 585 storage.daemon.getTorrentPiecesInfo
  ⟨[121, 162, 122, 141], [⟨none, .fixed 32 0⟩, ⟨none, .fixed 4 0⟩]⟩,  -- 586 storage.daemon.setFilePriorityAll
  ⟨[155, 214, 151, 67], [⟨none, .fixed 32 0⟩, ⟨none, .fixed 8 0⟩, ⟨none, .fixed 4 0⟩]⟩,  -- 587 storage.daemon.setFilePriorityByIdx
  ⟨[201, 34, 45, 222], [⟨none, .fixed 32 0⟩, ⟨none, .bytes true⟩, ⟨none, .fixed 4 0⟩]⟩,  -- 588 storage.daemon.setFilePriorityByName
  ⟨[91, 84, 122, 10], [⟨none, .fixed 32 0⟩, ⟨none, .fixed 4 0⟩]⟩,  -- 589 storage.daemon.removeTorrent
  ⟨[39, 222, 31, 200], [⟨none, .fixed 32 0⟩, ⟨none, .bytes true⟩, ⟨none, .bytes true⟩, ⟨none, .fixed 4 2⟩]⟩,  -- 590 storage.daemon.loadFrom
  ⟨[127, 144, 174, 154], [⟨none, .fixed 4 2⟩]⟩,  -- 591 storage.daemon.getSpeedLimits
  ⟨[234, 231, 161, 43], [⟨none, .fixed 4 2⟩, ⟨some 0, .sub (some 604)⟩, ⟨some 1, .sub (some 604)⟩]⟩,  -- 592 storage.daemon.setSpeedLimits
  ⟨[250, 123, 255, 127], [⟨none, .sub none⟩]⟩,  -- 593 storage.daemon.importPrivateKey
  ⟨[204, 90, 31, 40], [⟨none, .bytes true⟩]⟩,  -- 594 storage.daemon.initProvider
  ⟨[229, 231, 177, 125], []⟩,  -- 595 storage.daemon.deployProvider
  ⟨[113, 150, 205, 146], [⟨none, .bytes true⟩]⟩,  -- 596 storage.daemon.getProviderParams
  ⟨[28, 45, 79, 96], [⟨none, .sub (some 541)⟩]⟩,  -- 597 storage.daemon.setProviderParams
  ⟨[219, 121, 61, 51], [⟨none, .fixed 4 0⟩, ⟨none, .fixed 4 0⟩]⟩,  -- 598 storage.daemon.getProviderInfo
  ⟨[140, 183, 172, 141], [⟨none, .sub (some 570)⟩]⟩  -- 599 storage.daemon.setProviderConfig
]

def chunk10 : List Schema := [
  ⟨[241, 191, 188, 253], [⟨none, .bytes true⟩]⟩,  -- 600 storage.daemon.withdraw
  ⟨[38, 119, 69, 1], [⟨none, .bytes true⟩, ⟨none, .bytes true⟩, ⟨none, .bytes true⟩]⟩,  -- 601 storage.daemon.sendCoins
  ⟨[16, 171, 119, 246], [⟨none, .bytes true⟩]⟩,  -- 602 storage.daemon.closeStorageContract
  ⟨[150, 159, 219, 66], []⟩,  -- 603 storage.daemon.removeStorageProvider
  ⟨[84, 193, 16, 34], []⟩,  -- 604 double
  ⟨[36, 110, 40, 181], []⟩,  -- 605 string
  ⟨[250, 52, 185, 92], []⟩,  -- 606 int32
  ⟨[238, 199, 129, 103], []⟩,  -- 607 int53
  ⟨[68, 215, 158, 93], []⟩,  -- 608 int64
  ⟨[60, 140, 161, 157], []⟩,  -- 609 int256
  ⟨[130, 187, 55, 233], []⟩,  -- 610 bytes
  ⟨[131, 194, 168, 142], []⟩,  -- 611 secureString
  ⟨[199, 29, 215, 186], []⟩,  -- 612 secureBytes
  ⟨[160, 76, 112, 41], []⟩,  -- 613 object
  ⟨[151, 193, 203, 122], []⟩,  -- 614 function
  ⟨[55, 151, 121, 188], []⟩,  -- 615 boolFalse
  ⟨[181, 117, 114, 153], []⟩,  -- 616 boolTrue
  ⟨[21, 196, 181, 28], [⟨none, .sub none⟩]⟩,  -- 617 vector
  ⟨[26, 143, 221, 155], [⟨none, .sub (some 606)⟩, ⟨none, .bytes true⟩]⟩,  -- 618 error
  ⟨[105, 190, 237, 212], []⟩,  -- 619 ok
  ⟨[42, 18, 105, 233], [⟨none, .bytes true⟩]⟩,  -- 620 keyStoreTypeDirectory
  ⟨[199, 9, 108, 130], []⟩,  -- 621 keyStoreTypeInMemory
  ⟨[56, 2, 78, 164], [⟨none, .bytes true⟩, ⟨none, .bytes true⟩, ⟨none, .fixed 4 0⟩, ⟨none, .fixed 4 0⟩]⟩,  -- 622 config
  ⟨[249, 41, 76, 141], [⟨none, .sub (some 622)⟩, ⟨none, .sub none⟩]⟩,  -- 623 options
  ⟨[22, 95, 183, 7], [⟨none, .sub (some 608)⟩, ⟨none, .bytes true⟩]⟩,  -- 624 options.configInfo
  ⟨[128, 28, 37, 252], [⟨none, .sub (some 624)⟩]⟩,  -- 625 options.info
  ⟨[213, 147, 20, 138], [⟨none, .bytes true⟩, ⟨none, .sub (some 612)⟩]⟩,  -- 626 key
  ⟨[158, 70, 229, 222], [⟨none, .sub (some 626)⟩, ⟨none, .sub (some 612)⟩]⟩,  -- 627 inputKeyRegular
  ⟨[190, 57, 251, 191], []⟩,  -- 628 inputKeyFake
  ⟨[120, 143, 64, 22], [⟨none, .sub none⟩]⟩,  -- 629 exportedKey
  ⟨[189, 0, 247, 84], [⟨none, .sub (some 611)⟩]⟩,  -- 630 exportedPemKey
  ⟨[84, 254, 169, 120], [⟨none, .sub (some 612)⟩]⟩,  -- 631 exportedEncryptedKey
  ⟨[232, 154, 131, 43], [⟨none, .sub (some 612)⟩]⟩,  -- 632 exportedUnencryptedKey
  ⟨[80, 47, 148, 232], [⟨none, .sub none⟩]⟩,  -- 633 bip39Hints
  ⟨[12, 149, 49, 4], [⟨none, .bytes true⟩]⟩,  -- 634 adnlAddress
  ⟨[171, 189, 9, 45], [⟨none, .bytes true⟩]⟩,  -- 635 accountAddress
  ⟨[54, 20, 212, 112], [⟨none, .sub (some 606)⟩, ⟨none, .fixed 4 0⟩, ⟨none, .fixed 4 0⟩, ⟨none, .bytes true⟩]⟩,  -- 636 unpackedAccountAddress
  ⟨[34, 3, 5, 197], [⟨none, .sub (some 608)⟩, ⟨none, .bytes true⟩]⟩,  -- 637 internal.transactionId
  ⟨[162, 127, 88, 185], [⟨none, .sub (some 606)⟩, ⟨none, .sub (some 608)⟩, ⟨none, .sub (some 606)⟩]⟩,  -- 638 ton.blockId
  ⟨[154, 252, 16, 121], [⟨none, .sub (some 606)⟩, ⟨none, .sub (some 608)⟩, ⟨none, .sub (some 606)⟩, ⟨none, .bytes true⟩, ⟨none, .bytes true⟩]⟩,  -- 639 ton.blockIdExt
  ⟨[143, 203, 167, 168], [⟨none, .sub (some 608)⟩, ⟨none, .bytes true⟩, ⟨none, .bytes true⟩, ⟨none, .sub (some 637)⟩, ⟨none, .sub (some 639)⟩, ⟨none, .bytes true⟩, ⟨none, .sub (some 607)⟩]⟩,  -- 640 raw.fullAccountState
  ⟨[79, 114, 139, 81], [⟨none, .sub (some 635)⟩, ⟨none, .sub (some 635)⟩, ⟨none, .sub (some 608)⟩, ⟨none, .sub (some 608)⟩, ⟨none, .sub (some 608)⟩, ⟨none, .sub (some 608)⟩, ⟨none, .bytes true⟩, ⟨none, .sub none⟩]⟩,  -- 641 raw.message
  ⟨[7, 149, 209, 128], [⟨none, .sub (some 635)⟩, ⟨none, .sub (some 607)⟩, ⟨none, .bytes true⟩, ⟨none, .sub (some 637)⟩, ⟨none, .sub (some 608)⟩, ⟨none, .sub (some 608)⟩, ⟨none, .sub (some 608)⟩, ⟨none, .sub (some 641)⟩, ⟨none, .sub none⟩]⟩,  -- 642 raw.transaction
  ⟨[33, 76, 72, 179], [⟨none, .sub none⟩, ⟨none, .sub (some 637)⟩]⟩,  -- 643 raw.transactions
  ⟨[174, 127, 25, 52], [⟨none, .bytes true⟩]⟩,  -- 644 raw.extMessageInfo
  ⟨[54, 244, 134, 132], [⟨none, .bytes true⟩, ⟨none, .sub (some 635)⟩, ⟨none, .bytes true⟩, ⟨none, .sub (some 635)⟩, ⟨none, .sub (some 606)⟩, ⟨none, .sub (some 606)⟩, ⟨none, .sub (some 608)⟩]⟩,  -- 645 pchan.config
  ⟨[71, 92, 219, 235], [⟨none, .bytes true⟩, ⟨none, .bytes true⟩]⟩,  -- 646 raw.initialAccountState
  ⟨[64, 85, 246, 248], [⟨none, .bytes true⟩, ⟨none, .sub (some 608)⟩]⟩,  -- 647 wallet.v3.initialAccountState
  ⟨[70, 158, 116, 236], [⟨none, .bytes true⟩, ⟨none, .sub (some 608)⟩]⟩,  -- 648 wallet.highload.v1.initialAccountState
  ⟨[41, 121, 52, 117], [⟨none, .bytes true⟩, ⟨none, .sub (some 608)⟩]⟩,  -- 649 wallet.highload.v2.initialAccountState
  ⟨[126, 246, 222, 72], [⟨none, .sub (some 606)⟩, ⟨none, .sub (some 608)⟩]⟩,  -- 650 rwallet.limit
  ⟨[83, 156, 130, 31], [⟨none, .sub (some 607)⟩, ⟨none, .sub none⟩]⟩,  -- 651 rwallet.config
  ⟨[20, 12, 185, 69], [⟨none, .bytes true⟩, ⟨none, .bytes true⟩, ⟨none, .sub (some 608)⟩]⟩,  -- 652 rwallet.initialAccountState
  ⟨[191, 164, 203, 109], [⟨none, .bytes true⟩, ⟨none, .sub (some 608)⟩]⟩,  -- 653 dns.initialAccountState
  ⟨[68, 29, 62, 178], [⟨none, .sub (some 645)⟩]⟩,  -- 654 pchan.initialAccountState
  ⟨[58, 150, 75, 224], [⟨none, .bytes true⟩, ⟨none, .bytes true⟩, ⟨none, .bytes true⟩]⟩,  -- 655 raw.accountState
  ⟨[74, 168, 122, 159], [⟨none, .sub (some 608)⟩, ⟨none, .sub (some 606)⟩]⟩,  -- 656 wallet.v3.accountState
  ⟨[220, 228, 87, 96], [⟨none, .sub (some 608)⟩, ⟨none, .sub (some 606)⟩]⟩,  -- 657 wallet.highload.v1.accountState
  ⟨[79, 93, 125, 148], [⟨none, .sub (some 608)⟩]⟩,  -- 658 wallet.highload.v2.accountState
  ⟨[106, 216, 250, 102], [⟨none, .sub (some 608)⟩]⟩  -- 659 dns.accountState
]

def chunk11 : List Schema := [
  ⟨[216, 131, 235, 211], [⟨none, .sub (some 608)⟩, ⟨none, .sub (some 606)⟩, ⟨none, .sub (some 608)⟩, ⟨none, .sub (some 651)⟩]⟩,  -- 660 rwallet.accountState
  ⟨[248, 12, 42, 185], [⟨none, .fixed 4 0⟩, ⟨none, .fixed 4 0⟩, ⟨none, .sub (some 608)⟩, ⟨none, .sub (some 608)⟩, ⟨none, .sub (some 607)⟩, ⟨none, .sub (some 608)⟩, ⟨none, .sub (some 608)⟩]⟩,  -- 661 pchan.stateInit
  ⟨[243, 1, 226, 52], [⟨none, .fixed 4 0⟩, ⟨none, .fixed 4 0⟩, ⟨none, .sub (some 608)⟩, ⟨none, .sub (some 608)⟩, ⟨none, .sub (some 607)⟩, ⟨none, .sub (some 608)⟩, ⟨none, .sub (some 608)⟩]⟩,  -- 662 pchan.stateClose
  ⟨[71, 20, 158, 39], [⟨none, .sub (some 608)⟩, ⟨none, .sub (some 608)⟩]⟩,  -- 663 pchan.statePayout
  ⟨[120, 111, 34, 96], [⟨none, .sub (some 645)⟩, ⟨none, .sub none⟩, ⟨none, .bytes true⟩]⟩,  -- 664 pchan.accountState
  ⟨[8, 151, 189, 90], [⟨none, .bytes true⟩]⟩,  -- 665 uninited.accountState
  ⟨[73, 58, 210, 86], [⟨none, .sub (some 635)⟩, ⟨none, .sub (some 608)⟩, ⟨none, .sub (some 637)⟩, ⟨none, .sub (some 639)⟩, ⟨none, .sub (some 607)⟩, ⟨none, .sub none⟩, ⟨none, .sub (some 606)⟩]⟩,  -- 666 fullAccountState
  ⟨[31, 71, 139, 217], [⟨none, .sub none⟩]⟩,  -- 667 accountRevisionList
  ⟨[58, 177, 55, 99], [⟨none, .sub none⟩]⟩,  -- 668 accountList
  ⟨[9, 57, 243, 83], []⟩,  -- 669 syncStateDone
  ⟨[199, 196, 107, 6], [⟨none, .sub (some 606)⟩, ⟨none, .sub (some 606)⟩, ⟨none, .sub (some 606)⟩]⟩,  -- 670 syncStateInProgress
  ⟨[118, 93, 6, 141], [⟨none, .bytes true⟩, ⟨none, .bytes true⟩]⟩,  -- 671 msg.dataRaw
  ⟨[144, 50, 164, 235], [⟨none, .bytes true⟩]⟩,  -- 672 msg.dataText
  ⟨[185, 96, 41, 179], [⟨none, .bytes true⟩]⟩,  -- 673 msg.dataDecryptedText
  ⟨[218, 11, 82, 238], [⟨none, .bytes true⟩]⟩,  -- 674 msg.dataEncryptedText
  ⟨[81, 61, 161, 33], [⟨none, .sub (some 635)⟩, ⟨none, .sub none⟩]⟩,  -- 675 msg.dataEncrypted
  ⟨[233, 96, 169, 11], [⟨none, .bytes true⟩, ⟨none, .sub none⟩]⟩,  -- 676 msg.dataDecrypted
  ⟨[178, 25, 111, 205], [⟨none, .sub none⟩]⟩,  -- 677 msg.dataEncryptedArray
  ⟨[120, 214, 30, 29], [⟨none, .sub none⟩]⟩,  -- 678 msg.dataDecryptedArray
  ⟨[116, 176, 39, 48], [⟨none, .sub (some 635)⟩, ⟨none, .bytes true⟩, ⟨none, .sub (some 608)⟩, ⟨none, .sub none⟩, ⟨none, .sub (some 606)⟩]⟩,  -- 679 msg.message
  ⟨[128, 211, 90, 179], [⟨none, .bytes true⟩]⟩,  -- 680 dns.entryDataUnknown
  ⟨[18, 161, 195, 208], [⟨none, .bytes true⟩]⟩,  -- 681 dns.entryDataText
  ⟨[200, 61, 177, 19], [⟨none, .sub none⟩]⟩,  -- 682 dns.entryDataNextResolver
  ⟨[66, 122, 25, 151], [⟨none, .sub none⟩]⟩,  -- 683 dns.entryDataSmcAddress
  ⟨[16, 186, 152, 189], [⟨none, .sub none⟩]⟩,  -- 684 dns.entryDataAdnlAddress
  ⟨[28, 84, 160, 151], [⟨none, .fixed 32 0⟩]⟩,  -- 685 dns.entryDataStorageAddress
  ⟨[166, 71, 27, 30], [⟨none, .bytes true⟩, ⟨none, .fixed 32 0⟩, ⟨none, .sub none⟩]⟩,  -- 686 dns.entry
  ⟨[158, 144, 158, 63], []⟩,  -- 687 dns.actionDeleteAll
  ⟨[81, 127, 7, 68], [⟨none, .bytes true⟩, ⟨none, .fixed 32 0⟩]⟩,  -- 688 dns.actionDelete
  ⟨[195, 177, 11, 174], [⟨none, .sub (some 686)⟩]⟩,  -- 689 dns.actionSet
  ⟨[121, 21, 210, 211], [⟨none, .sub none⟩]⟩,  -- 690 dns.resolved
  ⟨[93, 148, 14, 162], [⟨none, .bytes true⟩, ⟨none, .sub (some 608)⟩, ⟨none, .sub (some 608)⟩, ⟨none, .sub (some 608)⟩]⟩,  -- 691 pchan.promise
  ⟨[138, 246, 43, 26], [⟨none, .sub (some 608)⟩, ⟨none, .sub (some 608)⟩, ⟨none, .sub (some 608)⟩, ⟨none, .sub (some 608)⟩]⟩,  -- 692 pchan.actionInit
  ⟨[22, 75, 156, 99], [⟨none, .sub (some 608)⟩, ⟨none, .sub (some 608)⟩, ⟨none, .sub (some 691)⟩]⟩,  -- 693 pchan.actionClose
  ⟨[243, 128, 30, 119], []⟩,  -- 694 pchan.actionTimeout
  ⟨[107, 189, 51, 37], [⟨none, .sub (some 651)⟩]⟩,  -- 695 rwallet.actionInit
  ⟨[155, 172, 179, 67], []⟩,  -- 696 actionNoop
  ⟨[133, 254, 236, 228], [⟨none, .sub none⟩, ⟨none, .fixed 4 0⟩]⟩,  -- 697 actionMsg
  ⟨[85, 209, 31, 193], [⟨none, .sub none⟩]⟩,  -- 698 actionDns
  ⟨[225, 197, 45, 167], [⟨none, .sub none⟩]⟩,  -- 699 actionPchan
  ⟨[197, 55, 2, 249], [⟨none, .sub (some 695)⟩]⟩,  -- 700 actionRwallet
  ⟨[188, 230, 233, 99], [⟨none, .sub (some 607)⟩, ⟨none, .sub (some 607)⟩, ⟨none, .sub (some 607)⟩, ⟨none, .sub (some 607)⟩]⟩,  -- 701 fees
  ⟨[67, 57, 61, 118], [⟨none, .sub (some 701)⟩, ⟨none, .sub none⟩]⟩,  -- 702 query.fees
  ⟨[112, 220, 137, 86], [⟨none, .sub (some 607)⟩, ⟨none, .sub (some 607)⟩, ⟨none, .bytes true⟩, ⟨none, .bytes true⟩, ⟨none, .bytes true⟩]⟩,  -- 703 query.info
  ⟨[231, 138, 6, 32], [⟨none, .bytes true⟩]⟩,  -- 704 tvm.slice
  ⟨[161, 163, 91, 231], [⟨none, .bytes true⟩]⟩,  -- 705 tvm.cell
  ⟨[179, 150, 226, 69], [⟨none, .bytes true⟩]⟩,  -- 706 tvm.numberDecimal
  ⟨[171, 142, 223, 253], [⟨none, .sub none⟩]⟩,  -- 707 tvm.tuple
  ⟨[74, 162, 54, 143], [⟨none, .sub none⟩]⟩,  -- 708 tvm.list
  ⟨[37, 107, 45, 83], [⟨none, .sub (some 704)⟩]⟩,  -- 709 tvm.stackEntrySlice
  ⟨[32, 111, 177, 77], [⟨none, .sub (some 705)⟩]⟩,  -- 710 tvm.stackEntryCell
  ⟨[190, 61, 251, 80], [⟨none, .sub none⟩]⟩,  -- 711 tvm.stackEntryNumber
  ⟨[220, 99, 158, 246], [⟨none, .sub none⟩]⟩,  -- 712 tvm.stackEntryTuple
  ⟨[139, 45, 68, 185], [⟨none, .sub none⟩]⟩,  -- 713 tvm.stackEntryList
  ⟨[242, 65, 149, 22], []⟩,  -- 714 tvm.stackEntryUnsupported
  ⟨[60, 150, 155, 67], [⟨none, .sub (some 607)⟩]⟩,  -- 715 smc.info
  ⟨[252, 185, 35, 164], [⟨none, .sub (some 606)⟩]⟩,  -- 716 smc.methodIdNumber
  ⟨[148, 255, 39, 241], [⟨none, .bytes true⟩]⟩,  -- 717 smc.methodIdName
  ⟨[221, 85, 209, 244], [⟨none, .sub (some 607)⟩, ⟨none, .sub none⟩, ⟨none, .sub (some 606)⟩]⟩,  -- 718 smc.runResult
  ⟨[12, 210, 213, 163], [⟨none, .fixed 32 0⟩, ⟨none, .bytes true⟩]⟩  -- 719 smc.libraryEntry
]

def chunk12 : List Schema := [
  ⟨[254, 187, 39, 12], [⟨none, .vec (some 719)⟩]⟩,  -- 720 smc.libraryResult
  ⟨[220, 149, 78, 163], [⟨none, .sub (some 608)⟩, ⟨none, .bytes true⟩]⟩,  -- 721 updateSendLiteServerQuery
  ⟨[222, 35, 200, 71], [⟨none, .sub none⟩]⟩,  -- 722 updateSyncState
  ⟨[188, 150, 226, 82], []⟩,  -- 723 logStreamDefault
  ⟨[86, 42, 240, 143], [⟨none, .bytes true⟩, ⟨none, .sub (some 607)⟩]⟩,  -- 724 logStreamFile
  ⟨[204, 241, 51, 226], []⟩,  -- 725 logStreamEmpty
  ⟨[234, 67, 100, 103], [⟨none, .sub (some 606)⟩]⟩,  -- 726 logVerbosityLevel
  ⟨[212, 206, 9, 220], [⟨none, .sub none⟩]⟩,  -- 727 logTags
  ⟨[113, 169, 71, 231], [⟨none, .sub (some 612)⟩]⟩,  -- 728 data
  ⟨[115, 254, 123, 181], [⟨none, .sub (some 607)⟩, ⟨none, .sub (some 606)⟩, ⟨none, .sub (some 608)⟩]⟩,  -- 729 liteServer.info
  ⟨[75, 67, 202, 49], [⟨none, .sub none⟩, ⟨none, .bytes true⟩, ⟨none, .sub none⟩]⟩,  -- 730 blocks.masterchainInfo
  ⟨[84, 48, 0, 95], [⟨none, .sub none⟩]⟩,  -- 731 blocks.shards
  ⟨[132, 34, 247, 203], [⟨none, .bytes true⟩, ⟨none, .sub (some 608)⟩]⟩,  -- 732 blocks.accountTransactionId
  ⟨[69, 239, 21, 29], [⟨none, .fixed 4 2⟩, ⟨some 0, .bytes true⟩, ⟨some 1, .sub (some 608)⟩, ⟨some 2, .bytes true⟩]⟩,  -- 733 blocks.shortTxId
  ⟨[107, 167, 113, 130], [⟨none, .sub (some 639)⟩, ⟨none, .sub (some 606)⟩, ⟨none, .fixed 4 0⟩, ⟨none, .sub none⟩]⟩,  -- 734 blocks.transactions
  ⟨[198, 49, 57, 207], [⟨none, .sub (some 639)⟩, ⟨none, .sub (some 606)⟩, ⟨none, .fixed 4 0⟩, ⟨none, .sub none⟩]⟩,  -- 735 blocks.transactionsExt
  ⟨[162, 136, 76, 57], [⟨none, .sub (some 639)⟩, ⟨none, .sub (some 606)⟩, ⟨none, .sub (some 606)⟩, ⟨none, .fixed 4 2⟩, ⟨none, .fixed 4 0⟩, ⟨none, .fixed 4 0⟩, ⟨none, .fixed 4 0⟩, ⟨none, .fixed 4 0⟩, ⟨none, .fixed 4 0⟩, ⟨none, .sub (some 606)⟩, ⟨none, .sub (some 606)⟩, ⟨none, .sub (some 606)⟩, ⟨none, .fixed 4 0⟩, ⟨none, .sub (some 606)⟩, ⟨none, .sub (some 608)⟩, ⟨none, .sub (some 608)⟩, ⟨none, .sub (some 607)⟩, ⟨none, .fixed 4 0⟩, ⟨none, .sub none⟩]⟩,  -- 736 blocks.header
  ⟨[193, 136, 18, 183], [⟨none, .fixed 32 0⟩, ⟨none, .bytes true⟩]⟩,  -- 737 blocks.signature
  ⟨[155, 219, 1, 232], [⟨none, .sub (some 639)⟩, ⟨none, .vec (some 737)⟩]⟩,  -- 738 blocks.blockSignatures
  ⟨[105, 21, 224, 166], [⟨none, .sub (some 639)⟩, ⟨none, .bytes true⟩]⟩,  -- 739 blocks.shardBlockLink
  ⟨[53, 128, 140, 65], [⟨none, .fixed 4 0⟩, ⟨none, .sub (some 639)⟩, ⟨none, .sub (some 639)⟩, ⟨none, .bytes true⟩, ⟨none, .bytes true⟩, ⟨none, .bytes true⟩]⟩,  -- 740 blocks.blockLinkBack
  ⟨[83, 95, 214, 251], [⟨none, .sub (some 639)⟩, ⟨none, .sub (some 639)⟩, ⟨none, .vec (some 739)⟩, ⟨none, .vec (some 740)⟩]⟩,  -- 741 blocks.shardBlockProof
  ⟨[255, 85, 0, 41], [⟨none, .sub (some 705)⟩]⟩,  -- 742 configInfo
  ⟨[182, 34, 92, 196], [⟨none, .sub (some 623)⟩]⟩,  -- 743 init
  ⟨[127, 225, 51, 185], []⟩,  -- 744 close
  ⟨[195, 235, 118, 111], [⟨none, .sub (some 622)⟩]⟩,  -- 745 options.setConfig
  ⟨[57, 186, 81, 235], [⟨none, .sub (some 622)⟩]⟩,  -- 746 options.validateConfig
  ⟨[16, 130, 13, 145], [⟨none, .sub (some 612)⟩, ⟨none, .sub (some 612)⟩, ⟨none, .sub (some 612)⟩]⟩,  -- 747 createNewKey
  ⟨[205, 72, 217, 161], [⟨none, .sub (some 626)⟩]⟩,  -- 748 deleteKey
  ⟨[35, 251, 227, 95], []⟩,  -- 749 deleteAllKeys
  ⟨[115, 217, 76, 159], [⟨none, .sub none⟩]⟩,  -- 750 exportKey
  ⟨[186, 163, 168, 217], [⟨none, .sub none⟩, ⟨none, .sub (some 612)⟩]⟩,  -- 751 exportPemKey
  ⟨[127, 9, 2, 13], [⟨none, .sub none⟩, ⟨none, .sub (some 612)⟩]⟩,  -- 752 exportEncryptedKey
  ⟨[64, 199, 43, 218], [⟨none, .sub none⟩]⟩,  -- 753 exportUnencryptedKey
  ⟨[25, 97, 41, 160], [⟨none, .sub (some 612)⟩, ⟨none, .sub (some 612)⟩, ⟨none, .sub (some 629)⟩]⟩,  -- 754 importKey
  ⟨[81, 141, 141, 4], [⟨none, .sub (some 612)⟩, ⟨none, .sub (some 612)⟩, ⟨none, .sub (some 630)⟩]⟩,  -- 755 importPemKey
  ⟨[222, 211, 36, 39], [⟨none, .sub (some 612)⟩, ⟨none, .sub (some 612)⟩, ⟨none, .sub (some 631)⟩]⟩,  -- 756 importEncryptedKey
  ⟨[21, 89, 99, 185], [⟨none, .sub (some 612)⟩, ⟨none, .sub (some 632)⟩]⟩,  -- 757 importUnencryptedKey
  ⟨[191, 55, 16, 232], [⟨none, .sub none⟩, ⟨none, .sub (some 612)⟩]⟩,  -- 758 changeLocalPassword
  ⟨[28, 75, 111, 147], [⟨none, .sub (some 612)⟩, ⟨none, .sub (some 612)⟩]⟩,  -- 759 encrypt
  ⟨[174, 133, 86, 21], [⟨none, .sub (some 612)⟩, ⟨none, .sub (some 612)⟩]⟩,  -- 760 decrypt
  ⟨[125, 115, 150, 156], [⟨none, .sub (some 612)⟩, ⟨none, .sub (some 612)⟩, ⟨none, .sub (some 606)⟩]⟩,  -- 761 kdf
  ⟨[73, 128, 82, 215], [⟨none, .bytes true⟩]⟩,  -- 762 unpackAccountAddress
  ⟨[236, 57, 60, 173], [⟨none, .sub (some 636)⟩]⟩,  -- 763 packAccountAddress
  ⟨[234, 93, 94, 143], [⟨none, .bytes true⟩]⟩,  -- 764 getBip39Hints
  ⟨[50, 169, 218, 176], [⟨none, .sub (some 635)⟩]⟩,  -- 765 raw.getAccountState
  ⟨[163, 208, 145, 42], [⟨none, .sub (some 635)⟩, ⟨none, .sub (some 637)⟩]⟩,  -- 766 raw.getAccountStateByTransaction
  ⟨[29, 163, 94, 61], [⟨none, .sub none⟩, ⟨none, .sub (some 635)⟩, ⟨none, .sub (some 637)⟩]⟩,  -- 767 raw.getTransactions
  ⟨[166, 124, 63, 222], [⟨none, .sub none⟩, ⟨none, .sub (some 635)⟩, ⟨none, .sub (some 637)⟩, ⟨none, .fixed 4 0⟩, ⟨none, .fixed 4 0⟩]⟩,  -- 768 raw.getTransactionsV2
  ⟨[224, 128, 87, 149], [⟨none, .bytes true⟩]⟩,  -- 769 raw.sendMessage
  ⟨[25, 103, 199, 182], [⟨none, .bytes true⟩]⟩,  -- 770 raw.sendMessageReturnHash
  ⟨[165, 201, 248, 209], [⟨none, .sub (some 635)⟩, ⟨none, .bytes true⟩, ⟨none, .bytes true⟩]⟩,  -- 771 raw.createAndSendMessage
  ⟨[171, 138, 12, 141], [⟨none, .sub (some 635)⟩, ⟨none, .bytes true⟩, ⟨none, .bytes true⟩, ⟨none, .bytes true⟩]⟩,  -- 772 raw.createQuery
  ⟨[146, 220, 46, 144], []⟩,  -- 773 sync
  ⟨[200, 165, 139, 30], [⟨none, .sub none⟩, ⟨none, .sub (some 606)⟩, ⟨none, .sub (some 606)⟩]⟩,  -- 774 getAccountAddress
  ⟨[162, 146, 184, 110], [⟨none, .sub none⟩, ⟨none, .sub (some 606)⟩]⟩,  -- 775 guessAccountRevision
  ⟨[96, 108, 109, 152], [⟨none, .bytes true⟩, ⟨none, .bytes true⟩]⟩,  -- 776 guessAccount
  ⟨[70, 244, 218, 129], [⟨none, .sub (some 635)⟩]⟩,  -- 777 getAccountState
  ⟨[206, 15, 28, 45], [⟨none, .sub (some 635)⟩, ⟨none, .sub (some 637)⟩]⟩,  -- 778 getAccountStateByTransaction
  ⟨[27, 148, 158, 152], [⟨none, .sub (some 635)⟩]⟩  -- 779 getShardAccountCell
]

def chunk13 : List Schema := [
  ⟨[193, 227, 65, 24], [⟨none, .sub (some 635)⟩, ⟨none, .sub (some 637)⟩]⟩,  -- 780 getShardAccountCellByTransaction
  ⟨[197, 32, 139, 241], [⟨none, .sub none⟩, ⟨none, .sub (some 635)⟩, ⟨none, .sub (some 606)⟩, ⟨none, .sub none⟩, ⟨none, .sub none⟩]⟩,  -- 781 createQuery
  ⟨[243, 2, 7, 242], [⟨none, .fixed 4 2⟩, ⟨none, .fixed 4 0⟩]⟩,  -- 782 getConfigParam
  ⟨[80, 56, 225, 28], [⟨none, .fixed 4 2⟩]⟩,  -- 783 getConfigAll
  ⟨[9, 207, 83, 13], [⟨none, .sub none⟩, ⟨none, .sub (some 677)⟩]⟩,  -- 784 msg.decrypt
  ⟨[129, 200, 34, 130], [⟨none, .bytes true⟩, ⟨none, .sub (some 675)⟩]⟩,  -- 785 msg.decryptWithProof
  ⟨[115, 21, 38, 55], [⟨none, .sub (some 607)⟩]⟩,  -- 786 query.send
  ⟨[95, 146, 194, 183], [⟨none, .sub (some 607)⟩]⟩,  -- 787 query.forget
  ⟨[65, 78, 245, 198], [⟨none, .sub (some 607)⟩, ⟨none, .fixed 4 0⟩]⟩,  -- 788 query.estimateFees
  ⟨[219, 34, 91, 208], [⟨none, .sub (some 607)⟩]⟩,  -- 789 query.getInfo
  ⟨[63, 208, 37, 202], [⟨none, .sub (some 635)⟩]⟩,  -- 790 smc.load
  ⟨[49, 75, 165, 135], [⟨none, .sub (some 635)⟩, ⟨none, .sub (some 637)⟩]⟩,  -- 791 smc.loadByTransaction
  ⟨[230, 49, 77, 54], [⟨none, .sub (some 607)⟩]⟩,  -- 792 smc.forget
  ⟨[152, 27, 230, 129], [⟨none, .sub (some 607)⟩]⟩,  -- 793 smc.getCode
  ⟨[73, 83, 131, 230], [⟨none, .sub (some 607)⟩]⟩,  -- 794 smc.getData
  ⟨[235, 169, 56, 243], [⟨none, .sub (some 607)⟩]⟩,  -- 795 smc.getState
  ⟨[19, 200, 227, 218], [⟨none, .sub (some 607)⟩, ⟨none, .sub none⟩, ⟨none, .sub none⟩]⟩,  -- 796 smc.runGetMethod
  ⟨[21, 238, 137, 48], [⟨none, .vec (some 825)⟩]⟩,  -- 797 smc.getLibraries
  ⟨[54, 149, 198, 106], [⟨none, .sub (some 635)⟩, ⟨none, .bytes true⟩, ⟨none, .fixed 32 0⟩, ⟨none, .sub (some 606)⟩]⟩,  -- 798 dns.resolve
  ⟨[30, 95, 36, 108], [⟨none, .sub none⟩, ⟨none, .sub (some 691)⟩]⟩,  -- 799 pchan.signPromise
  ⟨[226, 196, 100, 15], [⟨none, .bytes true⟩, ⟨none, .sub (some 691)⟩]⟩,  -- 800 pchan.validatePromise
  ⟨[193, 10, 60, 205], [⟨none, .sub (some 691)⟩]⟩,  -- 801 pchan.packPromise
  ⟨[211, 228, 124, 181], [⟨none, .sub (some 612)⟩]⟩,  -- 802 pchan.unpackPromise
  ⟨[145, 210, 73, 253], []⟩,  -- 803 blocks.getMasterchainInfo
  ⟨[45, 4, 140, 123], [⟨none, .sub (some 639)⟩]⟩,  -- 804 blocks.getShards
  ⟨[179, 91, 140, 84], [⟨none, .sub (some 606)⟩, ⟨none, .sub (some 638)⟩, ⟨none, .sub (some 608)⟩, ⟨none, .sub (some 606)⟩]⟩,  -- 805 blocks.lookupBlock
  ⟨[49, 205, 149, 202], [⟨none, .sub (some 639)⟩, ⟨none, .fixed 4 2⟩, ⟨none, .fixed 4 0⟩, ⟨none, .sub (some 732)⟩]⟩,  -- 806 blocks.getTransactions
  ⟨[206, 4, 240, 164], [⟨none, .sub (some 639)⟩, ⟨none, .fixed 4 2⟩, ⟨none, .fixed 4 0⟩, ⟨none, .sub (some 732)⟩]⟩,  -- 807 blocks.getTransactionsExt
  ⟨[66, 35, 38, 114], [⟨none, .sub (some 639)⟩]⟩,  -- 808 blocks.getBlockHeader
  ⟨[212, 37, 96, 96], [⟨none, .sub (some 606)⟩]⟩,  -- 809 blocks.getMasterchainBlockSignatures
  ⟨[231, 158, 237, 25], [⟨none, .sub (some 639)⟩, ⟨none, .fixed 4 2⟩, ⟨some 0, .sub (some 639)⟩]⟩,  -- 810 blocks.getShardBlockProof
  ⟨[94, 218, 146, 122], [⟨none, .sub (some 608)⟩, ⟨none, .bytes true⟩]⟩,  -- 811 onLiteServerQueryResult
  ⟨[179, 70, 159, 215], [⟨none, .sub (some 608)⟩, ⟨none, .sub (some 618)⟩]⟩,  -- 812 onLiteServerQueryError
  ⟨[165, 98, 247, 208], [⟨none, .sub (some 639)⟩, ⟨none, .sub none⟩]⟩,  -- 813 withBlock
  ⟨[77, 53, 105, 134], [⟨none, .bytes true⟩]⟩,  -- 814 runTests
  ⟨[238, 91, 141, 85], []⟩,  -- 815 liteServer.getInfo
  ⟨[145, 247, 175, 174], [⟨none, .sub none⟩]⟩,  -- 816 setLogStream
  ⟨[91, 75, 152, 69], []⟩,  -- 817 getLogStream
  ⟨[210, 7, 234, 237], [⟨none, .sub (some 606)⟩]⟩,  -- 818 setLogVerbosityLevel
  ⟨[228, 154, 104, 35], []⟩,  -- 819 getLogVerbosityLevel
  ⟨[218, 105, 213, 240], []⟩,  -- 820 getLogTags
  ⟨[150, 214, 23, 131], [⟨none, .bytes true⟩, ⟨none, .sub (some 606)⟩]⟩,  -- 821 setLogTagVerbosityLevel
  ⟨[131, 45, 175, 56], [⟨none, .bytes true⟩]⟩,  -- 822 getLogTagVerbosityLevel
  ⟨[236, 207, 54, 95], [⟨none, .sub (some 606)⟩, ⟨none, .bytes true⟩]⟩,  -- 823 addLogMessage
  ⟨[255, 255, 255, 255, 255], [⟨none, .fixed 4 0⟩]⟩,  -- 824 (pseudo schema of a vector of int)
  ⟨[255, 255, 255, 255, 255], [⟨none, .fixed 32 0⟩]⟩,  -- 825 (pseudo schema of a vector of int256)
  ⟨[255, 255, 255, 255, 255], [⟨none, .bytes true⟩]⟩,  -- 826 (pseudo schema of a vector of bytes)
  ⟨[255, 255, 255, 255, 255], [⟨none, .bytes true⟩]⟩,  -- 827 (pseudo schema of a vector of string)
  ⟨[255, 255, 255, 255, 255], [⟨none, .fixed 8 0⟩]⟩  -- 828 (pseudo schema of a vector of long)
]

/-- the bundled schema table as the cost model sees it -/
def table : Table := [chunk0, chunk1, chunk2, chunk3, chunk4, chunk5, chunk6, chunk7, chunk8, chunk9, chunk10, chunk11, chunk12, chunk13].flatten

def numSchemas : Nat := 829

end TonVerif.Generated.TlCost
