/- GENERATED from pytoniq_core/boc/hashmap/utils.py by harness/translate/labelfns.py; do not edit. -/
import TonVerif.Spec.Hashmap
namespace TonVerif.Generated.LabelFns
open TonVerif.Model TonVerif.Spec.Hashmap
set_option linter.unusedVariables false

def label_short_length (src : List Bool) : Nat :=
    (((1 + (src).length) + 1) + (src).length)

def label_long_length (src : List Bool) (key_length : Nat) : Nat :=
    (((1 + 1) + (bitLength key_length)) + (src).length)

def label_same_length (key_size : Nat) : Nat :=
    (((1 + 1) + 1) + (bitLength key_size))

def is_same (src : List Bool) : Bool :=
    (if (((src).length == 0) || ((src).length == 1)) then true
    else (if (((src).drop 1)).any (fun e => (e != ((src).getD 0 false))) then false
    else true))

def detect_label_type (src : List Bool) (key_size : Nat) : LabelKind :=
    (let kind := LabelKind.short;
    (let kind_length := (label_short_length src);
    (let long_length := (label_long_length src key_size);
    (let (kind_length, kind) := (if decide (long_length < kind_length) then (let kind_length := long_length; (let kind := LabelKind.long; (kind_length, kind))) else (kind_length, kind));
    (let (kind_length, kind) := (if (is_same src) then (let same_length := (label_same_length key_size); (let (kind_length, kind) := (if decide (same_length < kind_length) then (let kind_length := same_length; (let kind := LabelKind.same; (kind_length, kind))) else (kind_length, kind)); (kind_length, kind))) else (kind_length, kind));
    kind)))))

end TonVerif.Generated.LabelFns
