/- GENERATED from pytoniq_core/tlb/*.py (the `deserialize` classmethods) by harness/translate/tlbparsers.py; do not edit.
   One reader per class; `none` = the parser raises.  Meaning of the primitives: TonVerif/Model/TlbRd.lean. -/
import TonVerif.Model.TlbRd
set_option linter.unusedVariables false
namespace TonVerif.Tlb.Src
open TonVerif TonVerif.Tlb

-- BEGIN HashUpdate
def HashUpdate (sp : Bool) (cell_slice : Frag) : Rd.R := do
  let (t1, cell_slice) ← Rd.loadBytes 1 cell_slice
  let t2 ← Rd.bytesPrefix 1 t1
  if (!Rd.veq t2 (Rd.bytesLit [114])) then none else
  let (t3, cell_slice) ← Rd.loadBytes 32 cell_slice
  let (t4, cell_slice) ← Rd.loadBytes 32 cell_slice
  pure ((Rd.obj "HashUpdate" [("old_hash", t3), ("new_hash", t4)]), cell_slice)
-- END HashUpdate

-- BEGIN TickTock
def TickTock (sp : Bool) (cell_slice : Frag) : Rd.R := do
  let (t1, cell_slice) ← Rd.loadBool cell_slice
  let (t2, cell_slice) ← Rd.loadBool cell_slice
  pure ((Rd.obj "TickTock" [("tick", t1), ("tock", t2)]), cell_slice)
-- END TickTock

-- BEGIN StorageUsed
def StorageUsed (sp : Bool) (cell_slice : Frag) : Rd.R := do
  let (t1, cell_slice) ← Rd.loadVarUint 3 cell_slice
  let (t2, cell_slice) ← Rd.loadVarUint 3 cell_slice
  let (t3, cell_slice) ← Rd.loadVarUint 3 cell_slice
  pure ((Rd.obj "StorageUsed" [("cells", t1), ("bits", t2), ("public_cells", t3)]), cell_slice)
-- END StorageUsed

-- BEGIN StorageUsedShort
def StorageUsedShort (sp : Bool) (cell_slice : Frag) : Rd.R := do
  let (t1, cell_slice) ← Rd.loadVarUint 3 cell_slice
  let (t2, cell_slice) ← Rd.loadVarUint 3 cell_slice
  pure ((Rd.obj "StorageUsedShort" [("cells", t1), ("bits", t2)]), cell_slice)
-- END StorageUsedShort

-- BEGIN StorageInfo
def StorageInfo (sp : Bool) (cell_slice : Frag) : Rd.R := do
  let (t1, cell_slice) ← StorageUsed sp cell_slice
  let (t2, cell_slice) ← Rd.loadUint 32 cell_slice
  let (t3, cell_slice) ← Rd.loadBit cell_slice
  let (t4, cell_slice) ← (if (Rd.truthy t3) then do
        let (t5, cell_slice) ← Rd.loadCoins cell_slice
        pure (t5, cell_slice)
      else pure (Val.unit, cell_slice))
  pure ((Rd.obj "StorageInfo" [("used", t1), ("last_paid", t2), ("due_payment", t4)]), cell_slice)
-- END StorageInfo

-- BEGIN AccountStatus
def AccountStatus (sp : Bool) (cell_slice : Frag) : Rd.R := do
  let (t1, cell_slice) ← Rd.loadBit cell_slice
  if (Rd.truthy t1) then do
    let (t2, cell_slice) ← Rd.loadBit cell_slice
    if (Rd.truthy t2) then do
      pure ((Rd.obj "AccountStatus" [("type_", (Rd.str "nonexist"))]), cell_slice)
    else do
      pure ((Rd.obj "AccountStatus" [("type_", (Rd.str "active"))]), cell_slice)
  else do
    let (t3, cell_slice) ← Rd.loadBit cell_slice
    if (Rd.truthy t3) then do
      pure ((Rd.obj "AccountStatus" [("type_", (Rd.str "frozen"))]), cell_slice)
    else do
      pure ((Rd.obj "AccountStatus" [("type_", (Rd.str "uninitialized"))]), cell_slice)
-- END AccountStatus

-- BEGIN StateInit
def StateInit (sp : Bool) (cell_slice : Frag) : Rd.R := do
  let (t1, cell_slice) ← Rd.loadBit cell_slice
  let (t2, cell_slice) ← (if (Rd.truthy t1) then do
        let (t3, cell_slice) ← Rd.loadUint 5 cell_slice
        pure (t3, cell_slice)
      else pure (Val.unit, cell_slice))
  let (t4, cell_slice) ← Rd.loadBit cell_slice
  let (t5, cell_slice) ← (if (Rd.truthy t4) then do
        let (t6, cell_slice) ← TickTock sp cell_slice
        pure (t6, cell_slice)
      else pure (Val.unit, cell_slice))
  let (t7, cell_slice) ← Rd.loadBit cell_slice
  let (t8, cell_slice) ← (if (Rd.truthy t7) then do
        let (t9, cell_slice) ← Rd.loadRefV cell_slice
        pure (t9, cell_slice)
      else pure (Val.unit, cell_slice))
  let (t10, cell_slice) ← Rd.loadBit cell_slice
  let (t11, cell_slice) ← (if (Rd.truthy t10) then do
        let (t12, cell_slice) ← Rd.loadRefV cell_slice
        pure (t12, cell_slice)
      else pure (Val.unit, cell_slice))
  let (t13, cell_slice) ← Rd.loadBit cell_slice
  let (t14, cell_slice) ← (if (Rd.truthy t13) then do
        let (t15, cell_slice) ← Rd.loadRefV cell_slice
        pure (t15, cell_slice)
      else pure (Val.unit, cell_slice))
  pure ((Rd.obj "StateInit" [("split_depth", t2), ("special", t5), ("code", t8), ("data", t11), ("library", t14)]), cell_slice)
-- END StateInit

-- BEGIN AccountState
def AccountState (sp : Bool) (cell_slice : Frag) : Rd.R := do
  let (t1, cell_slice) ← Rd.loadBit cell_slice
  if (Rd.truthy t1) then do
    let t2 := (Rd.str "account_active")
    let (t3, cell_slice) ← StateInit sp cell_slice
    pure ((Rd.obj "AccountState" [("type_", t2), ("state_init", t3)]), cell_slice)
  else do
    let (t4, cell_slice) ← Rd.loadBit cell_slice
    if (Rd.truthy t4) then do
      let t5 := (Rd.str "account_frozen")
      let (t6, cell_slice) ← Rd.loadBytes 32 cell_slice
      pure ((Rd.obj "AccountState" [("type_", t5), ("state_hash", (Rd.hex t6))]), cell_slice)
    else do
      let t7 := (Rd.str "account_uninit")
      pure ((Rd.obj "AccountState" [("type_", t7)]), cell_slice)
-- END AccountState

-- BEGIN ExtBlkRef
def ExtBlkRef (sp : Bool) (cell_slice : Frag) : Rd.R := do
  let (t1, cell_slice) ← Rd.loadUint 64 cell_slice
  let (t2, cell_slice) ← Rd.loadUint 32 cell_slice
  let (t3, cell_slice) ← Rd.loadBytes 32 cell_slice
  let (t4, cell_slice) ← Rd.loadBytes 32 cell_slice
  pure ((Rd.obj "ExtBlkRef" [("end_lt", t1), ("seqno", t2), ("root_hash", t3), ("file_hash", t4)]), cell_slice)
-- END ExtBlkRef

-- BEGIN BlkMasterInfo
def BlkMasterInfo (sp : Bool) (cell_slice : Frag) : Rd.R := do
  let (t1, cell_slice) ← ExtBlkRef sp cell_slice
  pure ((Rd.obj "BlkMasterInfo" [("master", t1)]), cell_slice)
-- END BlkMasterInfo

-- BEGIN BlkPrevInfo
def BlkPrevInfo (sp : Bool) (cell_slice : Frag) (after_merge : Val) : Rd.R := do
  if (!(Rd.truthy after_merge)) then do
    let t1 := (Rd.str "prev_blk_info")
    let (t2, cell_slice) ← ExtBlkRef sp cell_slice
    pure ((Rd.obj "BlkPrevInfo" [("type_", t1), ("prev", t2)]), cell_slice)
  else do
    let t3 := (Rd.str "prev_blks_info")
    let (c4, cell_slice) ← Rd.loadRef cell_slice
    let r5 := Rd.beginParse c4
    let (t6, _) ← ExtBlkRef (Rd.special c4) r5
    let (c7, cell_slice) ← Rd.loadRef cell_slice
    let r8 := Rd.beginParse c7
    let (t9, _) ← ExtBlkRef (Rd.special c7) r8
    pure ((Rd.obj "BlkPrevInfo" [("type_", t3), ("prev1", t6), ("prev2", t9)]), cell_slice)
-- END BlkPrevInfo

-- BEGIN ShardIdent
def ShardIdent (sp : Bool) (cell_slice : Frag) : Rd.R := do
  let (t1, cell_slice) ← Rd.loadBits 2 cell_slice
  if (!Rd.veq t1 (Rd.bits01 [false, false])) then none else
  let (t2, cell_slice) ← Rd.loadUint 6 cell_slice
  let (t3, cell_slice) ← Rd.loadInt 32 cell_slice
  let (t4, cell_slice) ← Rd.loadUint 64 cell_slice
  pure ((Rd.obj "ShardIdent" [("shard_pfx_bits", t2), ("workchain_id", t3), ("shard_prefix", t4)]), cell_slice)
-- END ShardIdent

-- BEGIN GlobalVersion
def GlobalVersion (sp : Bool) (cell_slice : Frag) : Rd.R := do
  let (t1, cell_slice) ← Rd.loadBytes 1 cell_slice
  let t2 ← Rd.bytesPrefix 1 t1
  if (!Rd.veq t2 (Rd.bytesLit [196])) then none else
  let (t3, cell_slice) ← Rd.loadUint 32 cell_slice
  let (t4, cell_slice) ← Rd.loadUint 64 cell_slice
  pure ((Rd.obj "GlobalVersion" [("version", t3), ("capabilities", t4)]), cell_slice)
-- END GlobalVersion

-- BEGIN BlockInfo
def BlockInfo (sp : Bool) (cell_slice : Frag) : Rd.R := do
  if sp then do
    pure (Val.unit, cell_slice)
  else do
    let (t1, cell_slice) ← Rd.loadBytes 4 cell_slice
    if (!Rd.veq t1 (Rd.bytesLit [155, 199, 169, 135])) then none else
    let (t2, cell_slice) ← Rd.loadUint 32 cell_slice
    let (t3, cell_slice) ← Rd.loadBit cell_slice
    let (t4, cell_slice) ← Rd.loadBit cell_slice
    let (t5, cell_slice) ← Rd.loadBit cell_slice
    let (t6, cell_slice) ← Rd.loadBit cell_slice
    let (t7, cell_slice) ← Rd.loadBool cell_slice
    let (t8, cell_slice) ← Rd.loadBool cell_slice
    let (t9, cell_slice) ← Rd.loadBool cell_slice
    let (t10, cell_slice) ← Rd.loadBit cell_slice
    let (t11, cell_slice) ← Rd.loadUint 8 cell_slice
    let b12 ← Rd.vle t11 (Val.int 1)
    if (!b12) then none else
    let (t13, cell_slice) ← Rd.loadUint 32 cell_slice
    let (t14, cell_slice) ← Rd.loadUint 32 cell_slice
    let b15 ← Rd.vle t10 t14
    if (!b15) then none else
    let (t16, cell_slice) ← ShardIdent sp cell_slice
    let (t17, cell_slice) ← Rd.loadUint 32 cell_slice
    let (t18, cell_slice) ← Rd.loadUint 64 cell_slice
    let (t19, cell_slice) ← Rd.loadUint 64 cell_slice
    let (t20, cell_slice) ← Rd.loadUint 32 cell_slice
    let (t21, cell_slice) ← Rd.loadUint 32 cell_slice
    let (t22, cell_slice) ← Rd.loadUint 32 cell_slice
    let (t23, cell_slice) ← Rd.loadUint 32 cell_slice
    let b24 ← Rd.lowBit t11
    let (t26, cell_slice) ← (if b24 then do
          let (t25, cell_slice) ← GlobalVersion sp cell_slice
          pure (t25, cell_slice)
        else pure (Val.unit, cell_slice))
    let (t30, cell_slice) ← (if (Rd.truthy t3) then do
          let (c27, cell_slice) ← Rd.loadRef cell_slice
          let r28 := Rd.beginParse c27
          let (t29, _) ← BlkMasterInfo (Rd.special c27) r28
          pure (t29, cell_slice)
        else pure (Val.unit, cell_slice))
    let (c31, cell_slice) ← Rd.loadRef cell_slice
    let r32 := Rd.beginParse c31
    let (t33, _) ← BlkPrevInfo (Rd.special c31) r32 t4
    let (t37, cell_slice) ← (if (Rd.truthy t10) then do
          let (c34, cell_slice) ← Rd.loadRef cell_slice
          let r35 := Rd.beginParse c34
          let (t36, _) ← BlkPrevInfo (Rd.special c34) r35 (Val.int 0)
          pure (t36, cell_slice)
        else pure (Val.unit, cell_slice))
    pure ((Rd.obj "BlockInfo" [("version", t2), ("not_master", t3), ("after_merge", t4), ("before_split", t5), ("after_split", t6), ("want_split", t7), ("want_merge", t8), ("key_block", t9), ("vert_seqno_incr", t10), ("flags", t11), ("seqno", t13), ("vert_seqno", t14), ("shard", t16), ("gen_utime", t17), ("start_lt", t18), ("end_lt", t19), ("gen_validator_list_hash_short", t20), ("gen_catchain_seqno", t21), ("min_ref_mc_seqno", t22), ("prev_key_block_seqno", t23), ("gen_software", t26), ("master_ref", t30), ("prev_ref", t33), ("prev_vert_ref", t37)]), cell_slice)
-- END BlockInfo

-- BEGIN KeyExtBlkRef
def KeyExtBlkRef (sp : Bool) (cell_slice : Frag) : Rd.R := do
  let (t1, cell_slice) ← Rd.loadBool cell_slice
  let (t2, cell_slice) ← ExtBlkRef sp cell_slice
  pure ((Rd.obj "KeyExtBlkRef" [("key", t1), ("blk_ref", t2)]), cell_slice)
-- END KeyExtBlkRef

-- BEGIN KeyMaxLt
def KeyMaxLt (sp : Bool) (cell_slice : Frag) : Rd.R := do
  let (t1, cell_slice) ← Rd.loadBool cell_slice
  let (t2, cell_slice) ← Rd.loadUint 64 cell_slice
  pure ((Rd.obj "KeyMaxLt" [("key", t1), ("max_end_lt", t2)]), cell_slice)
-- END KeyMaxLt

-- BEGIN Counters
def Counters (sp : Bool) (cell_slice : Frag) : Rd.R := do
  let (t1, cell_slice) ← Rd.loadUint 32 cell_slice
  let (t2, cell_slice) ← Rd.loadUint 64 cell_slice
  let (t3, cell_slice) ← Rd.loadUint 64 cell_slice
  let (t4, cell_slice) ← Rd.loadUint 64 cell_slice
  pure ((Rd.obj "Counters" [("last_updated", t1), ("total", t2), ("cnt2048", t3), ("cnt65536", t4)]), cell_slice)
-- END Counters

-- BEGIN CreatorStats
def CreatorStats (sp : Bool) (cell_slice : Frag) : Rd.R := do
  let (t1, cell_slice) ← Rd.loadUint 4 cell_slice
  if (!Rd.veq t1 (Val.int 4)) then none else
  let (t2, cell_slice) ← Counters sp cell_slice
  let (t3, cell_slice) ← Counters sp cell_slice
  pure ((Rd.obj "CreatorStats" [("mc_blocks", t2), ("shard_blocks", t3)]), cell_slice)
-- END CreatorStats

-- BEGIN ValidatorInfo
def ValidatorInfo (sp : Bool) (cell_slice : Frag) : Rd.R := do
  let (t1, cell_slice) ← Rd.loadUint 32 cell_slice
  let (t2, cell_slice) ← Rd.loadUint 32 cell_slice
  let (t3, cell_slice) ← Rd.loadBool cell_slice
  pure ((Rd.obj "ValidatorInfo" [("validator_list_hash_short", t1), ("catchain_seqno", t2), ("nx_cc_updated", t3)]), cell_slice)
-- END ValidatorInfo

-- BEGIN FutureSplitMerge
def FutureSplitMerge (sp : Bool) (cell_slice : Frag) : Rd.R := do
  let (t1, cell_slice) ← Rd.loadBit cell_slice
  if (!(Rd.truthy t1)) then do
    pure (Val.unit, cell_slice)
  else do
    let (t2, cell_slice) ← Rd.loadBit cell_slice
    if (!(Rd.truthy t2)) then do
      let (t3, cell_slice) ← Rd.loadUint 32 cell_slice
      let (t4, cell_slice) ← Rd.loadUint 32 cell_slice
      pure ((Rd.obj "FutureSplitMerge" [("type_", (Rd.str "fsm_split")), ("split_utime", t3), ("interval", t4)]), cell_slice)
    else do
      let (t5, cell_slice) ← Rd.loadUint 32 cell_slice
      let (t6, cell_slice) ← Rd.loadUint 32 cell_slice
      pure ((Rd.obj "FutureSplitMerge" [("type_", (Rd.str "fsm_merge")), ("merge_utime", t5), ("interval", t6)]), cell_slice)
-- END FutureSplitMerge

-- BEGIN AccStatusChange
def AccStatusChange (sp : Bool) (cell_slice : Frag) : Rd.R := do
  let (t1, cell_slice) ← Rd.loadBit cell_slice
  if (!(Rd.truthy t1)) then do
    pure ((Rd.obj "AccStatusChange" [("type_", (Rd.str "unchanged"))]), cell_slice)
  else do
    let (t2, cell_slice) ← Rd.loadBit cell_slice
    if (!(Rd.truthy t2)) then do
      pure ((Rd.obj "AccStatusChange" [("type_", (Rd.str "frozen"))]), cell_slice)
    else do
      pure ((Rd.obj "AccStatusChange" [("type_", (Rd.str "deleted"))]), cell_slice)
-- END AccStatusChange

-- BEGIN ComputeSkipReason
def ComputeSkipReason (sp : Bool) (cell_slice : Frag) : Rd.R := do
  let (t1, cell_slice) ← Rd.loadBit cell_slice
  if (!(Rd.truthy t1)) then do
    let (t2, cell_slice) ← Rd.loadBit cell_slice
    if (!(Rd.truthy t2)) then do
      pure ((Rd.obj "ComputeSkipReason" [("type_", (Rd.str "no_state"))]), cell_slice)
    else do
      pure ((Rd.obj "ComputeSkipReason" [("type_", (Rd.str "bad_state"))]), cell_slice)
  else do
    let (t3, cell_slice) ← Rd.loadBit cell_slice
    if (!(Rd.truthy t3)) then do
      pure ((Rd.obj "ComputeSkipReason" [("type_", (Rd.str "no_gas"))]), cell_slice)
    else do
      let (t4, cell_slice) ← Rd.loadBit cell_slice
      if (!(Rd.truthy t4)) then do
        pure ((Rd.obj "ComputeSkipReason" [("type_", (Rd.str "suspended"))]), cell_slice)
      else do
        none
-- END ComputeSkipReason

-- BEGIN TrStoragePhase
def TrStoragePhase (sp : Bool) (cell_slice : Frag) : Rd.R := do
  let (t1, cell_slice) ← Rd.loadCoins cell_slice
  let (t2, cell_slice) ← Rd.loadBit cell_slice
  let (t3, cell_slice) ← (if (Rd.truthy t2) then do
        let (t4, cell_slice) ← Rd.loadCoins cell_slice
        pure (t4, cell_slice)
      else pure (Val.unit, cell_slice))
  let (t5, cell_slice) ← AccStatusChange sp cell_slice
  pure ((Rd.obj "TrStoragePhase" [("storage_fees_collected", t1), ("storage_fees_due", t3), ("status_change", t5)]), cell_slice)
-- END TrStoragePhase

-- BEGIN TrComputePhase
def TrComputePhase (sp : Bool) (cell_slice : Frag) : Rd.R := do
  let (t1, cell_slice) ← Rd.loadBit cell_slice
  if (!(Rd.truthy t1)) then do
    let (t2, cell_slice) ← ComputeSkipReason sp cell_slice
    pure ((Rd.obj "TrComputePhase" [("type_", (Rd.str "skipped")), ("reason", t2)]), cell_slice)
  else do
    let (t3, cell_slice) ← Rd.loadBool cell_slice
    let (t4, cell_slice) ← Rd.loadBool cell_slice
    let (t5, cell_slice) ← Rd.loadBool cell_slice
    let (t6, cell_slice) ← Rd.loadCoins cell_slice
    let (c7, cell_slice) ← Rd.loadRef cell_slice
    let r8 := Rd.beginParse c7
    let sl_ref := r8
    let (t9, sl_ref) ← Rd.loadVarUint 3 sl_ref
    let (t10, sl_ref) ← Rd.loadVarUint 3 sl_ref
    let (t11, sl_ref) ← Rd.loadBit sl_ref
    let (t12, cell_slice, sl_ref) ← (if (Rd.truthy t11) then do
          let (t13, sl_ref) ← Rd.loadVarUint 2 sl_ref
          pure (t13, cell_slice, sl_ref)
        else pure (Val.unit, cell_slice, sl_ref))
    let (t14, sl_ref) ← Rd.loadInt 8 sl_ref
    let (t15, sl_ref) ← Rd.loadInt 32 sl_ref
    let (t16, sl_ref) ← Rd.loadBit sl_ref
    let (t17, cell_slice, sl_ref) ← (if (Rd.truthy t16) then do
          let (t18, sl_ref) ← Rd.loadInt 32 sl_ref
          pure (t18, cell_slice, sl_ref)
        else pure (Val.unit, cell_slice, sl_ref))
    let (t19, sl_ref) ← Rd.loadUint 32 sl_ref
    let (t20, sl_ref) ← Rd.loadBytes 32 sl_ref
    let (t21, sl_ref) ← Rd.loadBytes 32 sl_ref
    pure ((Rd.obj "TrComputePhase" [("type_", (Rd.str "vm")), ("reason", Val.unit), ("success", t3), ("msg_state_used", t4), ("account_activated", t5), ("gas_fees", t6), ("gas_used", t9), ("gas_limit", t10), ("gas_credit", t12), ("mode", t14), ("exit_code", t15), ("exit_arg", t17), ("vm_steps", t19), ("vm_init_state_hash", t20), ("vm_final_state_hash", t21)]), cell_slice)
-- END TrComputePhase

-- BEGIN TrBouncePhase
def TrBouncePhase (sp : Bool) (cell_slice : Frag) : Rd.R := do
  let (t1, cell_slice) ← Rd.loadBit cell_slice
  if (Rd.truthy t1) then do
    let (t2, cell_slice) ← StorageUsedShort sp cell_slice
    let (t3, cell_slice) ← Rd.loadCoins cell_slice
    let (t4, cell_slice) ← Rd.loadCoins cell_slice
    pure ((Rd.obj "TrBouncePhase" [("type_", (Rd.str "ok")), ("msg_size", t2), ("msg_fees", t3), ("fwd_fees", t4)]), cell_slice)
  else do
    let (t5, cell_slice) ← Rd.loadBit cell_slice
    if (Rd.truthy t5) then do
      let (t6, cell_slice) ← StorageUsedShort sp cell_slice
      let (t7, cell_slice) ← Rd.loadCoins cell_slice
      pure ((Rd.obj "TrBouncePhase" [("type_", (Rd.str "nofunds")), ("msg_size", t6), ("req_fwd_fees", t7)]), cell_slice)
    else do
      pure ((Rd.obj "TrBouncePhase" [("type_", (Rd.str "negfunds"))]), cell_slice)
-- END TrBouncePhase

-- BEGIN SplitMergeInfo
def SplitMergeInfo (sp : Bool) (cell_slice : Frag) : Rd.R := do
  let (t1, cell_slice) ← Rd.loadUint 6 cell_slice
  let (t2, cell_slice) ← Rd.loadUint 6 cell_slice
  let (t3, cell_slice) ← Rd.loadBytes 32 cell_slice
  let (t4, cell_slice) ← Rd.loadBytes 32 cell_slice
  pure ((Rd.obj "SplitMergeInfo" [("cur_shard_pfx_len", t1), ("acc_split_depth", t2), ("this_addr", t3), ("sibling_addr", t4)]), cell_slice)
-- END SplitMergeInfo

-- BEGIN IntermediateAddress
def IntermediateAddress (sp : Bool) (cell_slice : Frag) : Rd.R := do
  let (t1, cell_slice) ← Rd.loadBit cell_slice
  if (!(Rd.truthy t1)) then do
    let (t2, cell_slice) ← Rd.loadUint 7 cell_slice
    pure ((Rd.obj "IntermediateAddress" [("type_", (Rd.str "interm_addr_regular")), ("use_dest_bits", t2)]), cell_slice)
  else do
    let (t3, cell_slice) ← Rd.loadBit cell_slice
    if (!(Rd.truthy t3)) then do
      let (t4, cell_slice) ← Rd.loadInt 8 cell_slice
      let (t5, cell_slice) ← Rd.loadUint 64 cell_slice
      pure ((Rd.obj "IntermediateAddress" [("type_", (Rd.str "interm_addr_simple")), ("workchain_id", t4), ("addr_pfx", t5)]), cell_slice)
    else do
      let (t6, cell_slice) ← Rd.loadInt 32 cell_slice
      let (t7, cell_slice) ← Rd.loadUint 64 cell_slice
      pure ((Rd.obj "IntermediateAddress" [("type_", (Rd.str "interm_addr_ext")), ("workchain_id", t6), ("addr_pfx", t7)]), cell_slice)
-- END IntermediateAddress

-- BEGIN SigPubKey
def SigPubKey (sp : Bool) (cell_slice : Frag) : Rd.R := do
  let (t1, cell_slice) ← Rd.loadBytes 4 cell_slice
  if (!Rd.veq t1 (Rd.bytesLit [142, 129, 39, 138])) then none else
  let (t2, cell_slice) ← Rd.loadBytes 32 cell_slice
  pure ((Rd.obj "SigPubKey" [("pubkey", t2)]), cell_slice)
-- END SigPubKey

-- BEGIN ValidatorDescr
def ValidatorDescr (sp : Bool) (cell_slice : Frag) : Rd.R := do
  let (t1, cell_slice) ← Rd.loadBytes 1 cell_slice
  let t2 ← Rd.bytesPrefix 1 t1
  if (!(Rd.veq t2 (Rd.bytesLit [83]) || Rd.veq t2 (Rd.bytesLit [115]))) then none else
  let (t3, cell_slice) ← SigPubKey sp cell_slice
  let (t4, cell_slice) ← Rd.loadUint 64 cell_slice
  let t5 := Val.unit
  let t6 := (Rd.str "validator")
  let (t9, t10, cell_slice) ← (if (Rd.veq t2 (Rd.bytesLit [115])) then do
        let t7 := (Rd.str "validator_addr")
        let (t8, cell_slice) ← Rd.loadBytes 32 cell_slice
        pure (t8, t7, cell_slice)
      else pure (t5, t6, cell_slice))
  pure ((Rd.obj "ValidatorDescr" [("type_", t10), ("public_key", t3), ("weight", t4), ("adnl_addr", t9)]), cell_slice)
-- END ValidatorDescr

-- BEGIN CatchainConfig
def CatchainConfig (sp : Bool) (cell_slice : Frag) : Rd.R := do
  let (t1, cell_slice) ← Rd.loadBytes 1 cell_slice
  let t2 ← Rd.bytesPrefix 1 t1
  if (Rd.veq t2 (Rd.bytesLit [193])) then do
    let (t3, cell_slice) ← Rd.loadUint 32 cell_slice
    let (t4, cell_slice) ← Rd.loadUint 32 cell_slice
    let (t5, cell_slice) ← Rd.loadUint 32 cell_slice
    let (t6, cell_slice) ← Rd.loadUint 32 cell_slice
    pure ((Rd.obj "CatchainConfig" [("type_", (Rd.str "catchain_config")), ("mc_catchain_lifetime", t3), ("shard_catchain_lifetime", t4), ("shard_validators_lifetime", t5), ("shard_validators_num", t6)]), cell_slice)
  else do
    if (Rd.veq t2 (Rd.bytesLit [194])) then do
      let (t7, cell_slice) ← Rd.loadUint 7 cell_slice
      if !(Rd.veq t7 (Val.int 0)) then none else
      let (t8, cell_slice) ← Rd.loadBool cell_slice
      let (t9, cell_slice) ← Rd.loadUint 32 cell_slice
      let (t10, cell_slice) ← Rd.loadUint 32 cell_slice
      let (t11, cell_slice) ← Rd.loadUint 32 cell_slice
      let (t12, cell_slice) ← Rd.loadUint 32 cell_slice
      pure ((Rd.obj "CatchainConfig" [("type_", (Rd.str "catchain_config_new")), ("shuffle_mc_validators", t8), ("mc_catchain_lifetime", t9), ("shard_catchain_lifetime", t10), ("shard_validators_lifetime", t11), ("shard_validators_num", t12)]), cell_slice)
    else do
      none
-- END CatchainConfig

-- BEGIN ConsensusConfig
def ConsensusConfig (sp : Bool) (cell_slice : Frag) : Rd.R := do
  let (t1, cell_slice) ← Rd.loadBytes 1 cell_slice
  let t2 ← Rd.bytesPrefix 1 t1
  if (!(Rd.veq t2 (Rd.bytesLit [214]) || Rd.veq t2 (Rd.bytesLit [215]) || Rd.veq t2 (Rd.bytesLit [216]) || Rd.veq t2 (Rd.bytesLit [217]))) then none else
  let t3 := (if Rd.veq t2 (Rd.bytesLit [214]) then (Rd.str "consensus_config") else (if Rd.veq t2 (Rd.bytesLit [215]) then (Rd.str "consensus_config_new") else (if Rd.veq t2 (Rd.bytesLit [216]) then (Rd.str "consensus_config_v3") else (if Rd.veq t2 (Rd.bytesLit [217]) then (Rd.str "consensus_config_v4") else Val.unit))))
  let t4 := Val.unit
  let t5 := Val.unit
  if (!Rd.veq t3 (Rd.str "consensus_config")) then do
    let (t6, cell_slice) ← Rd.loadUint 7 cell_slice
    if !(Rd.veq t6 (Val.int 0)) then none else
    let (t7, cell_slice) ← Rd.loadBool cell_slice
    let (t8, cell_slice) ← Rd.loadUint 8 cell_slice
    let b9 ← Rd.vle (Val.int 1) t8
    if !b9 then none else
    let (t10, cell_slice) ← Rd.loadUint 32 cell_slice
    let (t11, cell_slice) ← Rd.loadUint 32 cell_slice
    let (t12, cell_slice) ← Rd.loadUint 32 cell_slice
    let (t13, cell_slice) ← Rd.loadUint 32 cell_slice
    let (t14, cell_slice) ← Rd.loadUint 32 cell_slice
    let (t15, cell_slice) ← Rd.loadUint 32 cell_slice
    let (t16, cell_slice) ← Rd.loadUint 32 cell_slice
    let t17 := Val.unit
    let t18 := Val.unit
    let (t20, cell_slice) ← (if (Rd.veq t3 (Rd.str "consensus_config_v3") || Rd.veq t3 (Rd.str "consensus_config_v4")) then do
          let (t19, cell_slice) ← Rd.loadUint 16 cell_slice
          pure (t19, cell_slice)
        else pure (t17, cell_slice))
    let (t22, cell_slice) ← (if (Rd.veq t3 (Rd.str "consensus_config_v4")) then do
          let (t21, cell_slice) ← Rd.loadUint 32 cell_slice
          pure (t21, cell_slice)
        else pure (t18, cell_slice))
    pure ((Rd.obj "ConsensusConfig" [("type_", t3), ("flags", t6), ("new_catchain_ids", t7), ("round_candidates", t8), ("next_candidate_delay_ms", t10), ("consensus_timeout_ms", t11), ("fast_attempts", t12), ("attempt_duration", t13), ("catchain_max_deps", t14), ("max_block_bytes", t15), ("max_collated_bytes", t16), ("proto_version", t20), ("catchain_max_blocks_coeff", t22)]), cell_slice)
  else do
    let (t23, cell_slice) ← Rd.loadUint 32 cell_slice
    let b24 ← Rd.vle (Val.int 1) t23
    if !b24 then none else
    let (t25, cell_slice) ← Rd.loadUint 32 cell_slice
    let (t26, cell_slice) ← Rd.loadUint 32 cell_slice
    let (t27, cell_slice) ← Rd.loadUint 32 cell_slice
    let (t28, cell_slice) ← Rd.loadUint 32 cell_slice
    let (t29, cell_slice) ← Rd.loadUint 32 cell_slice
    let (t30, cell_slice) ← Rd.loadUint 32 cell_slice
    let (t31, cell_slice) ← Rd.loadUint 32 cell_slice
    let t32 := Val.unit
    let t33 := Val.unit
    let (t35, cell_slice) ← (if (Rd.veq t3 (Rd.str "consensus_config_v3") || Rd.veq t3 (Rd.str "consensus_config_v4")) then do
          let (t34, cell_slice) ← Rd.loadUint 16 cell_slice
          pure (t34, cell_slice)
        else pure (t32, cell_slice))
    let (t37, cell_slice) ← (if (Rd.veq t3 (Rd.str "consensus_config_v4")) then do
          let (t36, cell_slice) ← Rd.loadUint 32 cell_slice
          pure (t36, cell_slice)
        else pure (t33, cell_slice))
    pure ((Rd.obj "ConsensusConfig" [("type_", t3), ("flags", t4), ("new_catchain_ids", t5), ("round_candidates", t23), ("next_candidate_delay_ms", t25), ("consensus_timeout_ms", t26), ("fast_attempts", t27), ("attempt_duration", t28), ("catchain_max_deps", t29), ("max_block_bytes", t30), ("max_collated_bytes", t31), ("proto_version", t35), ("catchain_max_blocks_coeff", t37)]), cell_slice)
-- END ConsensusConfig

/-- the readers with the plain signature, by class name (driver op `tlbsrc`) -/
def readers : List (String × (Bool → Frag → Rd.R)) := [
  ("HashUpdate", HashUpdate),
  ("TickTock", TickTock),
  ("StorageUsed", StorageUsed),
  ("StorageUsedShort", StorageUsedShort),
  ("StorageInfo", StorageInfo),
  ("AccountStatus", AccountStatus),
  ("StateInit", StateInit),
  ("AccountState", AccountState),
  ("ExtBlkRef", ExtBlkRef),
  ("BlkMasterInfo", BlkMasterInfo),
  ("ShardIdent", ShardIdent),
  ("GlobalVersion", GlobalVersion),
  ("BlockInfo", BlockInfo),
  ("KeyExtBlkRef", KeyExtBlkRef),
  ("KeyMaxLt", KeyMaxLt),
  ("Counters", Counters),
  ("CreatorStats", CreatorStats),
  ("ValidatorInfo", ValidatorInfo),
  ("FutureSplitMerge", FutureSplitMerge),
  ("AccStatusChange", AccStatusChange),
  ("ComputeSkipReason", ComputeSkipReason),
  ("TrStoragePhase", TrStoragePhase),
  ("TrComputePhase", TrComputePhase),
  ("TrBouncePhase", TrBouncePhase),
  ("SplitMergeInfo", SplitMergeInfo),
  ("IntermediateAddress", IntermediateAddress),
  ("SigPubKey", SigPubKey),
  ("ValidatorDescr", ValidatorDescr),
  ("CatchainConfig", CatchainConfig),
  ("ConsensusConfig", ConsensusConfig)]

end TonVerif.Tlb.Src
