/- GENERATED from pytoniq_core/tlb/account.py, tlb/block.py, tlb/config.py (the `deserialize` classmethods) by
   harness/translate/tlbparsers_blk.py; do not edit.  One reader per class; `none` = the parser raises.
   Meaning of the primitives: TonVerif/Model/TlbRd.lean, TlbRdTx.lean, TlbRdBlk.lean. -/
import TonVerif.Model.TlbRdBlk
import TonVerif.Generated.TlbParsersTx
set_option linter.unusedVariables false
namespace TonVerif.Tlb.SrcBlk
open TonVerif TonVerif.Tlb

-- BEGIN DepthBalanceInfo
def DepthBalanceInfo (sp : Bool) (cell_slice : Frag) : Rd.R := do
  let (t1, cell_slice) ← Rd.loadUint 5 cell_slice
  let (t2, cell_slice) ← SrcTx.CurrencyCollection sp cell_slice
  pure ((Rd.obj "DepthBalanceInfo" [("split_depth", t1), ("balance", t2)]), cell_slice)
-- END DepthBalanceInfo

-- BEGIN ValueFlow
def ValueFlow (sp : Bool) (cell_slice : Frag) : Rd.R := do
  if sp then do
    pure (Val.unit, cell_slice)
  else do
    let (t1, cell_slice) ← Rd.loadBytes 4 cell_slice
    if (Rd.veq t1 (Rd.bytesLit [184, 228, 141, 251])) then do
      let t2 := (Rd.str "value_flow")
      let (c3, cell_slice) ← Rd.loadRef cell_slice
      let r4 := Rd.beginParse c3
      let sl_ref1 := r4
      let (t5, sl_ref1) ← SrcTx.CurrencyCollection (Rd.special c3) sl_ref1
      let (t6, sl_ref1) ← SrcTx.CurrencyCollection (Rd.special c3) sl_ref1
      let (t7, sl_ref1) ← SrcTx.CurrencyCollection (Rd.special c3) sl_ref1
      let (t8, sl_ref1) ← SrcTx.CurrencyCollection (Rd.special c3) sl_ref1
      let (t9, cell_slice) ← SrcTx.CurrencyCollection sp cell_slice
      let (c10, cell_slice) ← Rd.loadRef cell_slice
      let r11 := Rd.beginParse c10
      let sl_ref2 := r11
      let (t12, sl_ref2) ← SrcTx.CurrencyCollection (Rd.special c10) sl_ref2
      let (t13, sl_ref2) ← SrcTx.CurrencyCollection (Rd.special c10) sl_ref2
      let (t14, sl_ref2) ← SrcTx.CurrencyCollection (Rd.special c10) sl_ref2
      let (t15, sl_ref2) ← SrcTx.CurrencyCollection (Rd.special c10) sl_ref2
      pure ((Rd.obj "ValueFlow" [("type_", t2), ("from_prev_blk", t5), ("to_next_blk", t6), ("imported", t7), ("exported", t8), ("fees_collected", t9), ("fees_imported", t12), ("recovered", t13), ("created", t14), ("minted", t15)]), cell_slice)
    else do
      if (Rd.veq t1 (Rd.bytesLit [62, 191, 152, 183])) then do
        let t16 := (Rd.str "value_flow_v2")
        let (c17, cell_slice) ← Rd.loadRef cell_slice
        let r18 := Rd.beginParse c17
        let sl_ref1 := r18
        let (t19, sl_ref1) ← SrcTx.CurrencyCollection (Rd.special c17) sl_ref1
        let (t20, sl_ref1) ← SrcTx.CurrencyCollection (Rd.special c17) sl_ref1
        let (t21, sl_ref1) ← SrcTx.CurrencyCollection (Rd.special c17) sl_ref1
        let (t22, sl_ref1) ← SrcTx.CurrencyCollection (Rd.special c17) sl_ref1
        let (t23, cell_slice) ← SrcTx.CurrencyCollection sp cell_slice
        let (t24, cell_slice) ← SrcTx.CurrencyCollection sp cell_slice
        let (c25, cell_slice) ← Rd.loadRef cell_slice
        let r26 := Rd.beginParse c25
        let sl_ref2 := r26
        let (t27, sl_ref2) ← SrcTx.CurrencyCollection (Rd.special c25) sl_ref2
        let (t28, sl_ref2) ← SrcTx.CurrencyCollection (Rd.special c25) sl_ref2
        let (t29, sl_ref2) ← SrcTx.CurrencyCollection (Rd.special c25) sl_ref2
        let (t30, sl_ref2) ← SrcTx.CurrencyCollection (Rd.special c25) sl_ref2
        pure ((Rd.obj "ValueFlow" [("type_", t16), ("from_prev_blk", t19), ("to_next_blk", t20), ("imported", t21), ("exported", t22), ("fees_collected", t23), ("burned", t24), ("fees_imported", t27), ("recovered", t28), ("created", t29), ("minted", t30)]), cell_slice)
      else do
        none
-- END ValueFlow

-- BEGIN ShardDescr
def ShardDescr (sp : Bool) (cell_slice : Frag) : Rd.R := do
  let (t1, cell_slice) ← Rd.loadBits 4 cell_slice
  if (!(Rd.veq t1 (Rd.bits01 [true, false, true, true]) || Rd.veq t1 (Rd.bits01 [true, false, true, false]))) then none else
  let (t2, cell_slice) ← Rd.loadUint 32 cell_slice
  let (t3, cell_slice) ← Rd.loadUint 32 cell_slice
  let (t4, cell_slice) ← Rd.loadUint 64 cell_slice
  let (t5, cell_slice) ← Rd.loadUint 64 cell_slice
  let (t6, cell_slice) ← Rd.loadBytes 32 cell_slice
  let (t7, cell_slice) ← Rd.loadBytes 32 cell_slice
  let (t8, cell_slice) ← Rd.loadBool cell_slice
  let (t9, cell_slice) ← Rd.loadBool cell_slice
  let (t10, cell_slice) ← Rd.loadBool cell_slice
  let (t11, cell_slice) ← Rd.loadBool cell_slice
  let (t12, cell_slice) ← Rd.loadBool cell_slice
  let (t13, cell_slice) ← Rd.loadUint 3 cell_slice
  if (!Rd.veq t13 (Val.int 0)) then none else
  let (t14, cell_slice) ← Rd.loadUint 32 cell_slice
  let (t15, cell_slice) ← Rd.loadUint 64 cell_slice
  let (t16, cell_slice) ← Rd.loadUint 32 cell_slice
  let (t17, cell_slice) ← Rd.loadUint 32 cell_slice
  let (t18, cell_slice) ← Src.FutureSplitMerge sp cell_slice
  if (Rd.veq t1 (Rd.bits01 [true, false, true, true])) then do
    let (t19, cell_slice) ← SrcTx.CurrencyCollection sp cell_slice
    let (t20, cell_slice) ← SrcTx.CurrencyCollection sp cell_slice
    pure ((Rd.obj "ShardDescr" [("seq_no", t2), ("reg_mc_seqno", t3), ("start_lt", t4), ("end_lt", t5), ("root_hash", t6), ("file_hash", t7), ("before_split", t8), ("before_merge", t9), ("want_split", t10), ("want_merge", t11), ("nx_cc_updated", t12), ("flags", t13), ("next_catchain_seqno", t14), ("next_validator_shard", t15), ("min_ref_mc_seqno", t16), ("gen_utime", t17), ("split_merge_at", t18), ("fees_collected", t19), ("funds_created", t20)]), cell_slice)
  else do
    let (c21, cell_slice) ← Rd.loadRef cell_slice
    let r22 := Rd.beginParse c21
    let sl_ref := r22
    let (t23, sl_ref) ← SrcTx.CurrencyCollection (Rd.special c21) sl_ref
    let (t24, sl_ref) ← SrcTx.CurrencyCollection (Rd.special c21) sl_ref
    pure ((Rd.obj "ShardDescr" [("seq_no", t2), ("reg_mc_seqno", t3), ("start_lt", t4), ("end_lt", t5), ("root_hash", t6), ("file_hash", t7), ("before_split", t8), ("before_merge", t9), ("want_split", t10), ("want_merge", t11), ("nx_cc_updated", t12), ("flags", t13), ("next_catchain_seqno", t14), ("next_validator_shard", t15), ("min_ref_mc_seqno", t16), ("gen_utime", t17), ("split_merge_at", t18), ("fees_collected", t23), ("funds_created", t24)]), cell_slice)
-- END ShardDescr

-- BEGIN AccountStorage
def AccountStorage (sp : Bool) (cell_slice : Frag) : Rd.R := do
  let (t1, cell_slice) ← Rd.loadUint 64 cell_slice
  let (t2, cell_slice) ← SrcTx.CurrencyCollection sp cell_slice
  let (t3, cell_slice) ← Src.AccountState sp cell_slice
  pure ((Rd.obj "AccountStorage" [("last_trans_lt", t1), ("balance", t2), ("state", t3)]), cell_slice)
-- END AccountStorage

-- BEGIN Account
def Account (sp : Bool) (cell_slice : Frag) : Rd.R := do
  let (t1, cell_slice) ← Rd.loadBit cell_slice
  if (Rd.truthy t1) then do
    let (t2, cell_slice) ← Rd.loadAddress cell_slice
    let (t3, cell_slice) ← Src.StorageInfo sp cell_slice
    let (t4, cell_slice) ← AccountStorage sp cell_slice
    pure ((Rd.obj "Account" [("addr", t2), ("storage_stat", t3), ("storage", t4)]), cell_slice)
  else do
    pure (Val.unit, cell_slice)
-- END Account

-- BEGIN ShardAccount
def ShardAccount (sp : Bool) (cell_slice : Frag) : Rd.R := do
  let sl_cell_copy := cell_slice
  let (t1, cell_slice) ← Rd.viaRef Account cell_slice
  let (t2, cell_slice) ← Rd.loadBytes 32 cell_slice
  let (t3, cell_slice) ← Rd.loadUint 64 cell_slice
  pure ((Rd.obj "ShardAccount" [("account", t1), ("last_trans_hash", t2), ("last_trans_lt", t3)]), cell_slice)
-- END ShardAccount

-- BEGIN ValidatorSet
def ValidatorSet (sp : Bool) (cell_slice : Frag) : Rd.R := do
  let (t1, cell_slice) ← Rd.loadBytes 1 cell_slice
  let t2 ← Rd.bytesPrefix 1 t1
  if (!(Rd.veq t2 (Rd.bytesLit [17]) || Rd.veq t2 (Rd.bytesLit [18]))) then none else
  let (t3, cell_slice) ← Rd.loadUint 32 cell_slice
  let (t4, cell_slice) ← Rd.loadUint 32 cell_slice
  let (t5, cell_slice) ← Rd.loadUint 16 cell_slice
  let (t6, cell_slice) ← Rd.loadUint 16 cell_slice
  let b7 ← Rd.vle t6 t5
  if (!b7) then none else
  let b8 ← Rd.vle (Val.int 1) t6
  if (!b8) then none else
  let t9 := Val.unit
  let t10 := (Rd.str "validators")
  let (t15, t16, t17, cell_slice) ← (if (Rd.veq t2 (Rd.bytesLit [18])) then do
        let t11 := (Rd.str "validators_ext")
        let (t12, cell_slice) ← Rd.loadUint 64 cell_slice
        let (t13, cell_slice) ← Rd.loadDict 16 (Src.ValidatorDescr false) cell_slice
        pure (t12, t11, t13, cell_slice)
      else do
        let (t14, cell_slice) ← Rd.loadHashmap 16 (Src.ValidatorDescr false) sp cell_slice
        pure (t9, t10, t14, cell_slice))
  pure ((Rd.obj "ValidatorSet" [("type_", t16), ("utime_since", t3), ("utime_until", t4), ("total", t5), ("main", t6), ("total_weight", t15), ("list", t17)]), cell_slice)
-- END ValidatorSet

-- BEGIN ShardAccounts
def ShardAccounts (sp : Bool) (cell_slice : Frag) : Rd.R := do
  let (t1, cell_slice) ← Rd.loadHashmapAugE 256 (ShardAccount false) (DepthBalanceInfo false) sp cell_slice
  pure (t1, cell_slice)
-- END ShardAccounts

-- BEGIN OldMcBlocksInfo
def OldMcBlocksInfo (sp : Bool) (cell_slice : Frag) : Rd.R := do
  let (t1, cell_slice) ← Rd.loadHashmapAugE 32 (Src.KeyExtBlkRef false) (Src.KeyMaxLt false) sp cell_slice
  pure (t1, cell_slice)
-- END OldMcBlocksInfo

-- BEGIN BlockCreateStats
def BlockCreateStats (sp : Bool) (cell_slice : Frag) : Rd.R := do
  let (t1, cell_slice) ← Rd.loadBytes 1 cell_slice
  let t2 ← Rd.bytesPrefix 1 t1
  if (Rd.veq t2 (Rd.bytesLit [23])) then do
    let t3 := (Rd.str "block_create_stats")
    let (t4, cell_slice) ← Rd.loadDict 256 (Src.CreatorStats false) cell_slice
    pure ((Rd.obj "BlockCreateStats" [("type_", t3), ("counters", t4)]), cell_slice)
  else do
    let t5 ← Rd.bytesPrefix 1 t1
    if (Rd.veq t5 (Rd.bytesLit [52])) then do
      let t6 := (Rd.str "block_create_stats_ext")
      let (t7, cell_slice) ← Rd.loadHashmapAugE 256 (Src.CreatorStats false) (Rd.loadUint 32) sp cell_slice
      pure ((Rd.obj "BlockCreateStats" [("type_", t6), ("counters", t7)]), cell_slice)
    else do
      none
-- END BlockCreateStats

-- BEGIN ConfigParams
def ConfigParams (sp : Bool) (cell_slice : Frag) : Rd.R := do
  let (t1, cell_slice) ← Rd.loadBytes 32 cell_slice
  let (c2, cell_slice) ← Rd.loadRef cell_slice
  let r3 := Rd.beginParse c2
  let (t4, _) ← Rd.loadHashmapS 32 Rd.refSlice (Rd.special c2) r3
  pure ((Rd.obj "ConfigParams" [("config_addr", (Rd.hex t1)), ("config", t4)]), cell_slice)
-- END ConfigParams

-- BEGIN McStateExtra
def McStateExtra (sp : Bool) (cell_slice : Frag) : Rd.R := do
  if sp then do
    pure (Val.unit, cell_slice)
  else do
    let (t1, cell_slice) ← Rd.loadBytes 2 cell_slice
    if (!Rd.veq t1 (Rd.bytesLit [204, 38])) then none else
    let (t2, cell_slice) ← Rd.loadShardHashes ShardDescr cell_slice
    let (t3, cell_slice) ← ConfigParams sp cell_slice
    let (c4, cell_slice) ← Rd.loadRef cell_slice
    let r5 := Rd.beginParse c4
    let sl_ref := r5
    let (t6, sl_ref) ← Rd.loadUint 16 sl_ref
    let b7 ← Rd.vle t6 (Val.int 1)
    if (!b7) then none else
    let (t8, sl_ref) ← Src.ValidatorInfo (Rd.special c4) sl_ref
    let (t9, sl_ref) ← OldMcBlocksInfo (Rd.special c4) sl_ref
    let (t10, sl_ref) ← Rd.loadBool sl_ref
    let (t11, sl_ref) ← Rd.optional sl_ref (Src.ExtBlkRef (Rd.special c4))
    let t12 := Val.unit
    let b13 ← Rd.lowBit t6
    let (t15, sl_ref) ← (if b13 then do
          let (t14, sl_ref) ← BlockCreateStats (Rd.special c4) sl_ref
          pure (t14, sl_ref)
        else pure (t12, sl_ref))
    let (t16, cell_slice) ← SrcTx.CurrencyCollection sp cell_slice
    pure ((Rd.obj "McStateExtra" [("shard_hashes", t2), ("config", t3), ("flags", t6), ("validator_info", t8), ("prev_blocks", t9), ("after_key_block", t10), ("last_key_block", t11), ("block_create_stats", t15), ("global_balance", t16)]), cell_slice)
-- END McStateExtra

-- BEGIN ShardStateUnsplit
def ShardStateUnsplit (sp : Bool) (cell_slice : Frag) : Rd.R := do
  if sp then do
    pure (Val.unit, cell_slice)
  else do
    let (t1, cell_slice) ← Rd.loadBytes 4 cell_slice
    if (!(Rd.veq t1 (Rd.bytesLit [144, 35, 175, 226]))) then none else
    let (t2, cell_slice) ← Rd.loadInt 32 cell_slice
    let (t3, cell_slice) ← Src.ShardIdent sp cell_slice
    let (t4, cell_slice) ← Rd.loadUint 32 cell_slice
    let (t5, cell_slice) ← Rd.loadUint 32 cell_slice
    let (t6, cell_slice) ← Rd.loadUint 32 cell_slice
    let (t7, cell_slice) ← Rd.loadUint 64 cell_slice
    let (t8, cell_slice) ← Rd.loadUint 32 cell_slice
    let (t9, cell_slice) ← Rd.loadRefV cell_slice
    let (t10, cell_slice) ← Rd.loadBit cell_slice
    let (t11, cell_slice) ← Rd.viaRef ShardAccounts cell_slice
    let (c12, cell_slice) ← Rd.loadRef cell_slice
    let r13 := Rd.beginParse c12
    let sl_ref := r13
    let t14 := Val.unit
    let t15 := Val.unit
    let t16 := Val.unit
    let t17 := Val.unit
    let t18 := Val.unit
    let t19 := Val.unit
    let (t26, t27, t28, t29, t30, t31, sl_ref) ← (if (!(Rd.special c12)) then do
          let (t20, sl_ref) ← Rd.loadUint 64 sl_ref
          let (t21, sl_ref) ← Rd.loadUint 64 sl_ref
          let (t22, sl_ref) ← SrcTx.CurrencyCollection (Rd.special c12) sl_ref
          let (t23, sl_ref) ← SrcTx.CurrencyCollection (Rd.special c12) sl_ref
          let (t24, sl_ref) ← Rd.loadDictRaw 256 sl_ref
          let (t25, sl_ref) ← Rd.optional sl_ref (Src.BlkMasterInfo (Rd.special c12))
          pure (t20, t21, t22, t23, t24, t25, sl_ref)
        else pure (t14, t15, t16, t17, t18, t19, sl_ref))
    let (t32, cell_slice) ← Rd.optional cell_slice (Rd.viaRef McStateExtra)
    pure ((Rd.obj "ShardStateUnsplit" [("global_id", t2), ("shard_id", t3), ("seq_no", t4), ("vert_seq_no", t5), ("gen_utime", t6), ("gen_lt", t7), ("min_ref_mc_seqno", t8), ("out_msg_queue_info", t9), ("before_split", t10), ("accounts", t11), ("overload_history", t26), ("underload_history", t27), ("total_balance", t28), ("total_validator_fees", t29), ("libraries", t30), ("master_ref", t31), ("custom", t32)]), cell_slice)
-- END ShardStateUnsplit

-- BEGIN McBlockExtra
def McBlockExtra (sp : Bool) (cell_slice : Frag) : Rd.R := do
  if sp then do
    pure (Val.unit, cell_slice)
  else do
    let (t1, cell_slice) ← Rd.loadBytes 2 cell_slice
    if (!Rd.veq t1 (Rd.bytesLit [204, 165])) then none else
    let (t2, cell_slice) ← Rd.loadBit cell_slice
    let (t3, cell_slice) ← Rd.loadShardHashes ShardDescr cell_slice
    let (t4, cell_slice) ← Rd.loadMaybeRef cell_slice
    let (t5, cell_slice) ← SrcTx.CurrencyCollection sp cell_slice
    let (t6, cell_slice) ← SrcTx.CurrencyCollection sp cell_slice
    let (c7, cell_slice) ← Rd.loadRef cell_slice
    let r8 := Rd.beginParse c7
    let sl_ref := r8
    let (t9, sl_ref) ← Rd.loadDictRaw 16 sl_ref
    let (t10, sl_ref) ← Rd.loadMaybeRef sl_ref
    let (t11, sl_ref) ← Rd.loadMaybeRef sl_ref
    let t12 := Val.unit
    let (t14, cell_slice) ← (if (Rd.truthy t2) then do
          let (t13, cell_slice) ← ConfigParams sp cell_slice
          pure (t13, cell_slice)
        else pure (t12, cell_slice))
    pure ((Rd.obj "McBlockExtra" [("key_block", t2), ("shard_hashes", t3), ("shard_fees", (Rd.presence t4)), ("prev_blk_signatures", t9), ("recover_create_msg", t10), ("mint_msg", t11), ("config", t14)]), cell_slice)
-- END McBlockExtra

-- BEGIN ShardState
def ShardState (sp : Bool) (cell_slice : Frag) : Rd.R := do
  let t1 ← Rd.preloadBytes 4 cell_slice
  if (Rd.veq t1 (Rd.bytesLit [95, 50, 125, 165])) then do
    let (t2, cell_slice) ← Rd.loadBytes 4 cell_slice
    let (t3, cell_slice) ← Rd.viaRef ShardStateUnsplit cell_slice
    let (t4, cell_slice) ← Rd.viaRef ShardStateUnsplit cell_slice
    pure ((Rd.obj "ShardState" [("type_", (Rd.str "split_state")), ("left", t3), ("right", t4)]), cell_slice)
  else do
    let (t5, cell_slice) ← ShardStateUnsplit sp cell_slice
    pure ((Rd.obj "ShardState" [("type_", (Rd.str "_")), ("shard_state_unsplit", t5)]), cell_slice)
-- END ShardState

-- BEGIN AccountBlock
def AccountBlock (sp : Bool) (cell_slice : Frag) : Rd.R := do
  let (t1, cell_slice) ← Rd.loadUint 4 cell_slice
  if (!Rd.veq t1 (Val.int 5)) then none else
  let (t2, cell_slice) ← Rd.loadBytes 32 cell_slice
  let (t3, cell_slice) ← Rd.loadHashmapAug 64 (Rd.viaRef (SrcTx.Transaction 3)) (SrcTx.CurrencyCollection false) sp cell_slice
  let (t4, cell_slice) ← Rd.viaRef Src.HashUpdate cell_slice
  pure ((Rd.obj "AccountBlock" [("account_addr", (Rd.hex t2)), ("transactions", t3), ("state_update", t4)]), cell_slice)
-- END AccountBlock

-- BEGIN BlockExtra
def BlockExtra (sp : Bool) (cell_slice : Frag) : Rd.R := do
  if sp then do
    pure (Val.unit, cell_slice)
  else do
    let (t1, cell_slice) ← Rd.loadBytes 4 cell_slice
    if (!Rd.veq t1 (Rd.bytesLit [74, 51, 246, 253])) then none else
    let (c2, cell_slice) ← Rd.loadRef cell_slice
    let r3 := Rd.beginParse c2
    let (t4, _) ← Rd.loadHashmapAugE 256 ((SrcTx.InMsg 3) false) (SrcTx.ImportFees false) (Rd.special c2) r3
    let (c5, cell_slice) ← Rd.loadRef cell_slice
    let r6 := Rd.beginParse c5
    let (t7, _) ← Rd.loadHashmapAugE 256 ((SrcTx.OutMsg 3) false) (SrcTx.CurrencyCollection false) (Rd.special c5) r6
    let (c8, cell_slice) ← Rd.loadRef cell_slice
    let r9 := Rd.beginParse c8
    let (t10, _) ← Rd.loadHashmapAugE 256 (AccountBlock false) (SrcTx.CurrencyCollection false) (Rd.special c8) r9
    let (t11, cell_slice) ← Rd.loadBytes 32 cell_slice
    let (t12, cell_slice) ← Rd.loadBytes 32 cell_slice
    let (t13, cell_slice) ← Rd.optional cell_slice (Rd.viaRef McBlockExtra)
    pure ((Rd.obj "BlockExtra" [("in_msg_descr", t4), ("out_msg_descr", t7), ("account_blocks", t10), ("rand_seed", t11), ("created_by", t12), ("custom", t13)]), cell_slice)
-- END BlockExtra

-- BEGIN Block
def Block (sp : Bool) (cell_slice : Frag) : Rd.R := do
  let (t1, cell_slice) ← Rd.loadBytes 4 cell_slice
  if (!Rd.veq t1 (Rd.bytesLit [17, 239, 85, 170])) then none else
  let (t2, cell_slice) ← Rd.loadInt 32 cell_slice
  let (t3, cell_slice) ← Rd.viaRef Src.BlockInfo cell_slice
  let (t4, cell_slice) ← Rd.viaRef ValueFlow cell_slice
  let (c5, cell_slice) ← Rd.loadRef cell_slice
  let t6 ← Rd.merkleUpdateOrd c5
  let (t7, cell_slice) ← Rd.viaRef BlockExtra cell_slice
  pure ((Rd.obj "Block" [("global_id", t2), ("info", t3), ("value_flow", t4), ("state_update", t6), ("extra", t7)]), cell_slice)
-- END Block

/-- the readers by class name (driver op `tlbsrcblk`) -/
def readers : List (String × (Bool → Frag → Rd.R)) := [
  ("DepthBalanceInfo", DepthBalanceInfo),
  ("ValueFlow", ValueFlow),
  ("ShardDescr", ShardDescr),
  ("AccountStorage", AccountStorage),
  ("Account", Account),
  ("ShardAccount", ShardAccount),
  ("ValidatorSet", ValidatorSet),
  ("ShardAccounts", ShardAccounts),
  ("OldMcBlocksInfo", OldMcBlocksInfo),
  ("BlockCreateStats", BlockCreateStats),
  ("ConfigParams", ConfigParams),
  ("McStateExtra", McStateExtra),
  ("ShardStateUnsplit", ShardStateUnsplit),
  ("McBlockExtra", McBlockExtra),
  ("ShardState", ShardState),
  ("AccountBlock", AccountBlock),
  ("BlockExtra", BlockExtra),
  ("Block", Block)]

end TonVerif.Tlb.SrcBlk
