/- GENERATED from pytoniq_core/tlb/transaction.py, tlb/block.py (the `deserialize` classmethods) by
   harness/translate/tlbparsers_tx.py; do not edit.  One reader per class; `none` = the parser raises.
   Meaning of the primitives: TonVerif/Model/TlbRd.lean, TonVerif/Model/TlbRdTx.lean. -/
import TonVerif.Model.TlbRdTx
import TonVerif.Generated.TlbParsers
set_option linter.unusedVariables false
namespace TonVerif.Tlb.SrcTx
open TonVerif TonVerif.Tlb

-- BEGIN ExtraCurrencyCollection
def ExtraCurrencyCollection (sp : Bool) (cell_slice : Frag) : Rd.R := do
  let (t1, cell_slice) ← Rd.loadDict 32 (Rd.loadVarUint 5) cell_slice
  pure ((Rd.obj "ExtraCurrencyCollection" [("dict_", t1)]), cell_slice)
-- END ExtraCurrencyCollection

-- BEGIN CurrencyCollection
def CurrencyCollection (sp : Bool) (cell_slice : Frag) : Rd.R := do
  let (t1, cell_slice) ← Rd.loadCoins cell_slice
  let (t2, cell_slice) ← ExtraCurrencyCollection sp cell_slice
  pure ((Rd.obj "CurrencyCollection" [("grams", t1), ("other", t2)]), cell_slice)
-- END CurrencyCollection

-- BEGIN TrActionPhase
def TrActionPhase (sp : Bool) (cell_slice : Frag) : Rd.R := do
  let (t1, cell_slice) ← Rd.loadBool cell_slice
  let (t2, cell_slice) ← Rd.loadBool cell_slice
  let (t3, cell_slice) ← Rd.loadBool cell_slice
  let (t4, cell_slice) ← Src.AccStatusChange sp cell_slice
  let (t5, cell_slice) ← Rd.optional cell_slice Rd.loadCoins
  let (t6, cell_slice) ← Rd.optional cell_slice Rd.loadCoins
  let (t7, cell_slice) ← Rd.loadInt 32 cell_slice
  let (t8, cell_slice) ← Rd.optional cell_slice (Rd.loadInt 32)
  let (t9, cell_slice) ← Rd.loadUint 16 cell_slice
  let (t10, cell_slice) ← Rd.loadUint 16 cell_slice
  let (t11, cell_slice) ← Rd.loadUint 16 cell_slice
  let (t12, cell_slice) ← Rd.loadUint 16 cell_slice
  let (t13, cell_slice) ← Rd.loadBytes 32 cell_slice
  let (t14, cell_slice) ← Src.StorageUsedShort sp cell_slice
  pure ((Rd.obj "TrActionPhase" [("success", t1), ("valid", t2), ("no_funds", t3), ("status_change", t4), ("total_fwd_fees", t5), ("total_action_fees", t6), ("result_code", t7), ("result_arg", t8), ("tot_actions", t9), ("spec_actions", t10), ("skipped_actions", t11), ("msgs_created", t12), ("action_list_hash", t13), ("tot_msg_size", t14)]), cell_slice)
-- END TrActionPhase

-- BEGIN TrCreditPhase
def TrCreditPhase (sp : Bool) (cell_slice : Frag) : Rd.R := do
  let (t1, cell_slice) ← Rd.optional cell_slice Rd.loadCoins
  let (t2, cell_slice) ← CurrencyCollection sp cell_slice
  pure ((Rd.obj "TrCreditPhase" [("due_fees_collected", t1), ("credit", t2)]), cell_slice)
-- END TrCreditPhase

-- BEGIN ImportFees
def ImportFees (sp : Bool) (cell_slice : Frag) : Rd.R := do
  let (t1, cell_slice) ← Rd.loadCoins cell_slice
  let (t2, cell_slice) ← CurrencyCollection sp cell_slice
  pure ((Rd.obj "ImportFees" [("fees_collected", t1), ("value_imported", t2)]), cell_slice)
-- END ImportFees

-- BEGIN InternalMsgInfo
def InternalMsgInfo (sp : Bool) (cell_slice : Frag) : Rd.R := do
  let (t1, cell_slice) ← Rd.loadBit cell_slice
  if (Rd.truthy t1) then none else
  let (t2, cell_slice) ← Rd.loadBool cell_slice
  let (t3, cell_slice) ← Rd.loadBool cell_slice
  let (t4, cell_slice) ← Rd.loadBool cell_slice
  let (t5, cell_slice) ← Rd.loadAddress cell_slice
  let (t6, cell_slice) ← Rd.loadAddress cell_slice
  let (t7, cell_slice) ← CurrencyCollection sp cell_slice
  let (t8, cell_slice) ← Rd.loadCoins cell_slice
  let (t9, cell_slice) ← Rd.loadCoins cell_slice
  let (t10, cell_slice) ← Rd.loadUint 64 cell_slice
  let (t11, cell_slice) ← Rd.loadUint 32 cell_slice
  pure ((Rd.obj "InternalMsgInfo" [("ihr_disabled", t2), ("bounce", t3), ("bounced", t4), ("src", t5), ("dest", t6), ("value", t7), ("ihr_fee", t8), ("fwd_fee", t9), ("created_lt", t10), ("created_at", t11)]), cell_slice)
-- END InternalMsgInfo

-- BEGIN ExternalMsgInfo
def ExternalMsgInfo (sp : Bool) (cell_slice : Frag) : Rd.R := do
  let (t1, cell_slice) ← Rd.loadBits 2 cell_slice
  if (!Rd.veq t1 (Rd.bits01 [true, false])) then none else
  let (t2, cell_slice) ← Rd.loadAddress cell_slice
  let (t3, cell_slice) ← Rd.loadAddress cell_slice
  let (t4, cell_slice) ← Rd.loadCoins cell_slice
  pure ((Rd.obj "ExternalMsgInfo" [("src", t2), ("dest", t3), ("import_fee", t4)]), cell_slice)
-- END ExternalMsgInfo

-- BEGIN ExternalOutMsgInfo
def ExternalOutMsgInfo (sp : Bool) (cell_slice : Frag) : Rd.R := do
  let (t1, cell_slice) ← Rd.loadBits 2 cell_slice
  if (!Rd.veq t1 (Rd.bits01 [true, true])) then none else
  let (t2, cell_slice) ← Rd.loadAddress cell_slice
  let (t3, cell_slice) ← Rd.loadAddress cell_slice
  let (t4, cell_slice) ← Rd.loadUint 64 cell_slice
  let (t5, cell_slice) ← Rd.loadUint 32 cell_slice
  pure ((Rd.obj "ExternalOutMsgInfo" [("src", t2), ("dest", t3), ("created_lt", t4), ("created_at", t5)]), cell_slice)
-- END ExternalOutMsgInfo

-- BEGIN CommonMsgInfo
def CommonMsgInfo (sp : Bool) (cell_slice : Frag) : Rd.R := do
  let t1 ← Rd.preloadBit cell_slice
  if (!(Rd.truthy t1)) then do
    let (t2, cell_slice) ← InternalMsgInfo sp cell_slice
    pure (t2, cell_slice)
  else do
    let t3 ← Rd.preloadBits 2 cell_slice
    if (Rd.veq t3 (Rd.bits01 [true, false])) then do
      let (t4, cell_slice) ← ExternalMsgInfo sp cell_slice
      pure (t4, cell_slice)
    else do
      let (t5, cell_slice) ← ExternalOutMsgInfo sp cell_slice
      pure (t5, cell_slice)
-- END CommonMsgInfo

-- BEGIN MessageAny
def MessageAny (sp : Bool) (cell_slice : Frag) : Rd.R := do
  let (t1, cell_slice) ← CommonMsgInfo sp cell_slice
  let t2 := Val.unit
  let (t3, cell_slice) ← Rd.loadBit cell_slice
  if (Rd.truthy t3) then do
    let (t4, cell_slice) ← Rd.loadBit cell_slice
    let (t7, cell_slice) ← (if (Rd.truthy t4) then do
          let (t5, cell_slice) ← Rd.viaRef Src.StateInit cell_slice
          pure (t5, cell_slice)
        else do
          let (t6, cell_slice) ← Src.StateInit sp cell_slice
          pure (t6, cell_slice))
    let (t8, cell_slice) ← Rd.loadBit cell_slice
    let (t11, cell_slice) ← (if (Rd.truthy t8) then do
          let (t9, cell_slice) ← Rd.loadRefV cell_slice
          pure (t9, cell_slice)
        else do
          let t10 := (Rd.toCell sp cell_slice)
          pure (t10, cell_slice))
    pure ((Rd.obj "MessageAny" [("info", t1), ("init", t7), ("body", t11)]), cell_slice)
  else do
    let (t12, cell_slice) ← Rd.loadBit cell_slice
    let (t15, cell_slice) ← (if (Rd.truthy t12) then do
          let (t13, cell_slice) ← Rd.loadRefV cell_slice
          pure (t13, cell_slice)
        else do
          let t14 := (Rd.toCell sp cell_slice)
          pure (t14, cell_slice))
    pure ((Rd.obj "MessageAny" [("info", t1), ("init", t2), ("body", t15)]), cell_slice)
-- END MessageAny

-- BEGIN MsgMetadata
def MsgMetadata (sp : Bool) (cell_slice : Frag) : Rd.R := do
  let (t1, cell_slice) ← Rd.loadUint 4 cell_slice
  if (!Rd.veq t1 (Val.int 0)) then none else
  let (t2, cell_slice) ← Rd.loadUint 32 cell_slice
  let (t3, cell_slice) ← Rd.loadAddress cell_slice
  let (t4, cell_slice) ← Rd.loadUint 64 cell_slice
  pure ((Rd.obj "MsgMetadata" [("depth", t2), ("initiator_addr", t3), ("initiator_lt", t4)]), cell_slice)
-- END MsgMetadata

-- BEGIN MsgEnvelope
def MsgEnvelope (sp : Bool) (cell_slice : Frag) : Rd.R := do
  let (t1, cell_slice) ← Rd.loadUint 4 cell_slice
  if (!(Rd.veq t1 (Val.int 4) || Rd.veq t1 (Val.int 5))) then none else
  let (t2, cell_slice) ← Src.IntermediateAddress sp cell_slice
  let (t3, cell_slice) ← Src.IntermediateAddress sp cell_slice
  let (t4, cell_slice) ← Rd.loadCoins cell_slice
  let (t5, cell_slice) ← Rd.viaRef MessageAny cell_slice
  let t6 := Val.unit
  let t7 := Val.unit
  let t8 := (Rd.str "msg_envelope")
  let (t12, t13, t14, cell_slice) ← (if (Rd.veq t1 (Val.int 5)) then do
        let t9 := (Rd.str "msg_envelope_v2")
        let (t10, cell_slice) ← Rd.optional cell_slice (Rd.loadUint 64)
        let (t11, cell_slice) ← Rd.optional cell_slice (MsgMetadata sp)
        pure (t10, t11, t9, cell_slice)
      else pure (t6, t7, t8, cell_slice))
  pure ((Rd.obj "MsgEnvelope" [("type_", t14), ("cur_addr", t2), ("next_addr", t3), ("fwd_fee_remaining", t4), ("msg", t5), ("emitted_lt", t12), ("metadata", t13)]), cell_slice)
-- END MsgEnvelope

-- BEGIN TransactionOrdinary
def TransactionOrdinary (sp : Bool) (cell_slice : Frag) : Rd.R := do
  let (t1, cell_slice) ← Rd.loadBool cell_slice
  let (t2, cell_slice) ← Rd.optional cell_slice (Src.TrStoragePhase sp)
  let (t3, cell_slice) ← Rd.optional cell_slice (TrCreditPhase sp)
  let (t4, cell_slice) ← Src.TrComputePhase sp cell_slice
  let (t5, cell_slice) ← Rd.optional cell_slice (Rd.viaRef TrActionPhase)
  let (t6, cell_slice) ← Rd.loadBool cell_slice
  let (t7, cell_slice) ← Rd.optional cell_slice (Src.TrBouncePhase sp)
  let (t8, cell_slice) ← Rd.loadBool cell_slice
  pure ((Rd.obj "TransactionOrdinary" [("credit_first", t1), ("storage_ph", t2), ("credit_ph", t3), ("compute_ph", t4), ("action", t5), ("aborted", t6), ("bounce", t7), ("destroyed", t8)]), cell_slice)
-- END TransactionOrdinary

-- BEGIN TransactionStorage
def TransactionStorage (sp : Bool) (cell_slice : Frag) : Rd.R := do
  let (t1, cell_slice) ← Src.TrStoragePhase sp cell_slice
  pure ((Rd.obj "TransactionStorage" [("storage_ph", t1)]), cell_slice)
-- END TransactionStorage

-- BEGIN TransactionTickTock
def TransactionTickTock (sp : Bool) (cell_slice : Frag) : Rd.R := do
  let (t1, cell_slice) ← Rd.loadBool cell_slice
  let (t2, cell_slice) ← Src.TrStoragePhase sp cell_slice
  let (t3, cell_slice) ← Src.TrComputePhase sp cell_slice
  let (t4, cell_slice) ← Rd.optional cell_slice (Rd.viaRef TrActionPhase)
  let (t5, cell_slice) ← Rd.loadBool cell_slice
  let (t6, cell_slice) ← Rd.loadBool cell_slice
  pure ((Rd.obj "TransactionTickTock" [("is_tock", t1), ("storage_ph", t2), ("compute_ph", t3), ("action", t4), ("aborted", t5), ("destroyed", t6)]), cell_slice)
-- END TransactionTickTock

-- BEGIN TransactionSplitPrepare
def TransactionSplitPrepare (sp : Bool) (cell_slice : Frag) : Rd.R := do
  let (t1, cell_slice) ← Src.SplitMergeInfo sp cell_slice
  let (t2, cell_slice) ← Rd.optional cell_slice (Src.TrStoragePhase sp)
  let (t3, cell_slice) ← Src.TrComputePhase sp cell_slice
  let (t4, cell_slice) ← Rd.optional cell_slice (Rd.viaRef TrActionPhase)
  let (t5, cell_slice) ← Rd.loadBool cell_slice
  let (t6, cell_slice) ← Rd.loadBool cell_slice
  pure ((Rd.obj "TransactionSplitPrepare" [("split_info", t1), ("storage_ph", t2), ("compute_ph", t3), ("action", t4), ("aborted", t5), ("destroyed", t6)]), cell_slice)
-- END TransactionSplitPrepare

-- BEGIN TransactionMergePrepare
def TransactionMergePrepare (sp : Bool) (cell_slice : Frag) : Rd.R := do
  let (t1, cell_slice) ← Src.SplitMergeInfo sp cell_slice
  let (t2, cell_slice) ← Src.TrStoragePhase sp cell_slice
  let (t3, cell_slice) ← Rd.loadBool cell_slice
  pure ((Rd.obj "TransactionMergePrepare" [("split_info", t1), ("storage_ph", t2), ("aborted", t3)]), cell_slice)
-- END TransactionMergePrepare

-- BEGIN TransactionSplitInstall
def TransactionSplitInstall (rec_Transaction : Bool → Frag → Rd.R) (sp : Bool) (cell_slice : Frag) : Rd.R := do
  let (t1, cell_slice) ← Src.SplitMergeInfo sp cell_slice
  let (t2, cell_slice) ← Rd.viaRef rec_Transaction cell_slice
  let (t3, cell_slice) ← Rd.loadBool cell_slice
  pure ((Rd.obj "TransactionSplitInstall" [("split_info", t1), ("prepare_transaction", t2), ("installed", t3)]), cell_slice)
-- END TransactionSplitInstall

-- BEGIN TransactionMergeInstall
def TransactionMergeInstall (rec_Transaction : Bool → Frag → Rd.R) (sp : Bool) (cell_slice : Frag) : Rd.R := do
  let (t1, cell_slice) ← Src.SplitMergeInfo sp cell_slice
  let (t2, cell_slice) ← Rd.viaRef rec_Transaction cell_slice
  let (t3, cell_slice) ← Rd.optional cell_slice (Src.TrStoragePhase sp)
  let (t4, cell_slice) ← Rd.optional cell_slice (TrCreditPhase sp)
  let (t5, cell_slice) ← Src.TrComputePhase sp cell_slice
  let (t6, cell_slice) ← Rd.optional cell_slice (Rd.viaRef TrActionPhase)
  let (t7, cell_slice) ← Rd.loadBool cell_slice
  let (t8, cell_slice) ← Rd.loadBool cell_slice
  pure ((Rd.obj "TransactionMergeInstall" [("split_info", t1), ("prepare_transaction", t2), ("storage_ph", t3), ("credit_ph", t4), ("compute_ph", t5), ("action", t6), ("aborted", t7), ("destroyed", t8)]), cell_slice)
-- END TransactionMergeInstall

-- BEGIN TransactionDescr
def TransactionDescr (rec_Transaction : Bool → Frag → Rd.R) (sp : Bool) (cell_slice : Frag) : Rd.R := do
  let (t1, cell_slice) ← Rd.loadBits 3 cell_slice
  if (Rd.veq t1 (Rd.bits01 [false, false, true])) then do
    let (t2, cell_slice) ← TransactionTickTock sp cell_slice
    pure (t2, cell_slice)
  else do
    let (t3, cell_slice) ← Rd.loadBit cell_slice
    let t4 ← Rd.strOfBit t3
    let t5 ← Rd.bitsCat t1 t4
    if (Rd.veq t5 (Rd.bits01 [false, false, false, false])) then do
      let (t6, cell_slice) ← TransactionOrdinary sp cell_slice
      pure (t6, cell_slice)
    else do
      if (Rd.veq t5 (Rd.bits01 [false, false, false, true])) then do
        let (t7, cell_slice) ← TransactionStorage sp cell_slice
        pure (t7, cell_slice)
      else do
        if (Rd.veq t5 (Rd.bits01 [false, true, false, false])) then do
          let (t8, cell_slice) ← TransactionSplitPrepare sp cell_slice
          pure (t8, cell_slice)
        else do
          if (Rd.veq t5 (Rd.bits01 [false, true, false, true])) then do
            let (t9, cell_slice) ← TransactionSplitInstall rec_Transaction sp cell_slice
            pure (t9, cell_slice)
          else do
            if (Rd.veq t5 (Rd.bits01 [false, true, true, false])) then do
              let (t10, cell_slice) ← TransactionMergePrepare sp cell_slice
              pure (t10, cell_slice)
            else do
              if (Rd.veq t5 (Rd.bits01 [false, true, true, true])) then do
                let (t11, cell_slice) ← TransactionMergeInstall rec_Transaction sp cell_slice
                pure (t11, cell_slice)
              else do
                none
-- END TransactionDescr

-- BEGIN Transaction
def Transaction : Nat → Bool → Frag → Rd.R
  | 0, _, _ => none
  | fuel+1, sp, cell_slice => do
    let t1 := (Rd.toCell sp cell_slice)
    if sp then do
      pure ((Rd.toCell sp cell_slice), cell_slice)
    else do
      let (t2, cell_slice) ← Rd.loadBits 4 cell_slice
      if (!Rd.veq t2 (Rd.bits01 [false, true, true, true])) then none else
      let (t3, cell_slice) ← Rd.loadBytes 32 cell_slice
      let (t4, cell_slice) ← Rd.loadUint 64 cell_slice
      let (t5, cell_slice) ← Rd.loadBytes 32 cell_slice
      let (t6, cell_slice) ← Rd.loadUint 64 cell_slice
      let (t7, cell_slice) ← Rd.loadUint 32 cell_slice
      let (t8, cell_slice) ← Rd.loadUint 15 cell_slice
      let (t9, cell_slice) ← Src.AccountStatus sp cell_slice
      let (t10, cell_slice) ← Src.AccountStatus sp cell_slice
      let (c11, cell_slice) ← Rd.loadRef cell_slice
      let r12 := Rd.beginParse c11
      let sl_ref := r12
      let t13 := Val.unit
      let (t14, sl_ref) ← Rd.loadBit sl_ref
      let (t16, sl_ref) ← (if (Rd.truthy t14) then do
            let (t15, sl_ref) ← Rd.viaRef MessageAny sl_ref
            pure (t15, sl_ref)
          else pure (t13, sl_ref))
      let (t17, sl_ref) ← Rd.loadDict 15 (Rd.viaRef MessageAny) sl_ref
      let (t20) ← (if (!Rd.veq t17 Val.unit) then do
            let t18 ← Rd.dictValuesSorted t17
            pure (t18)
          else do
            let t19 := (Rd.list [])
            pure (t19))
      let (t21, cell_slice) ← CurrencyCollection sp cell_slice
      let (t22, cell_slice) ← Rd.viaRef Src.HashUpdate cell_slice
      let (t23, cell_slice) ← Rd.viaRef (TransactionDescr (Transaction fuel)) cell_slice
      pure ((Rd.obj "Transaction" [("account_addr", t3), ("lt", t4), ("prev_trans_hash", t5), ("prev_trans_lt", t6), ("now", t7), ("outmsg_cnt", t8), ("orig_status", t9), ("end_status", t10), ("in_msg", t16), ("out_msgs", t20), ("total_fees", t21), ("state_update", t22), ("description", t23)]), cell_slice)
-- END Transaction

-- BEGIN InMsg
def InMsg (fuel : Nat) (sp : Bool) (cell_slice : Frag) : Rd.R := do
  let (t1, cell_slice) ← Rd.loadBits 3 cell_slice
  if (Rd.veq t1 (Rd.bits01 [false, false, false])) then do
    let (t2, cell_slice) ← Rd.viaRef MessageAny cell_slice
    let (t3, cell_slice) ← Rd.viaRef (Transaction fuel) cell_slice
    pure ((Rd.obj "InMsg" [("type_", (Rd.str "msg_import_ext")), ("msg", t2), ("transaction", t3)]), cell_slice)
  else do
    if (Rd.veq t1 (Rd.bits01 [false, true, false])) then do
      let (t4, cell_slice) ← Rd.viaRef MessageAny cell_slice
      let (t5, cell_slice) ← Rd.viaRef (Transaction fuel) cell_slice
      let (t6, cell_slice) ← Rd.loadCoins cell_slice
      let (t7, cell_slice) ← Rd.loadRefV cell_slice
      pure ((Rd.obj "InMsg" [("type_", (Rd.str "msg_import_ihr")), ("msg", t4), ("transaction", t5), ("ihr_fee", t6), ("proof_created", t7)]), cell_slice)
    else do
      if (Rd.veq t1 (Rd.bits01 [false, true, true])) then do
        let (t8, cell_slice) ← Rd.viaRef MsgEnvelope cell_slice
        let (t9, cell_slice) ← Rd.viaRef (Transaction fuel) cell_slice
        let (t10, cell_slice) ← Rd.loadCoins cell_slice
        pure ((Rd.obj "InMsg" [("type_", (Rd.str "msg_import_imm")), ("in_msg", t8), ("transaction", t9), ("fwd_fee", t10)]), cell_slice)
      else do
        if (Rd.veq t1 (Rd.bits01 [true, false, false])) then do
          let (t11, cell_slice) ← Rd.viaRef MsgEnvelope cell_slice
          let (t12, cell_slice) ← Rd.viaRef (Transaction fuel) cell_slice
          let (t13, cell_slice) ← Rd.loadCoins cell_slice
          pure ((Rd.obj "InMsg" [("type_", (Rd.str "msg_import_fin")), ("in_msg", t11), ("transaction", t12), ("fwd_fee", t13)]), cell_slice)
        else do
          if (Rd.veq t1 (Rd.bits01 [true, false, true])) then do
            let (t14, cell_slice) ← Rd.viaRef MsgEnvelope cell_slice
            let (t15, cell_slice) ← Rd.viaRef MsgEnvelope cell_slice
            let (t16, cell_slice) ← Rd.loadCoins cell_slice
            pure ((Rd.obj "InMsg" [("type_", (Rd.str "msg_import_tr")), ("in_msg", t14), ("out_msg", t15), ("transit_fee", t16)]), cell_slice)
          else do
            if (Rd.veq t1 (Rd.bits01 [true, true, false])) then do
              let (t17, cell_slice) ← Rd.viaRef MsgEnvelope cell_slice
              let (t18, cell_slice) ← Rd.loadUint 64 cell_slice
              let (t19, cell_slice) ← Rd.loadCoins cell_slice
              pure ((Rd.obj "InMsg" [("type_", (Rd.str "msg_discard_fin")), ("in_msg", t17), ("transaction_id", t18), ("fwd_fee", t19)]), cell_slice)
            else do
              if (Rd.veq t1 (Rd.bits01 [true, true, true])) then do
                let (t20, cell_slice) ← Rd.viaRef MsgEnvelope cell_slice
                let (t21, cell_slice) ← Rd.loadUint 64 cell_slice
                let (t22, cell_slice) ← Rd.loadCoins cell_slice
                let (t23, cell_slice) ← Rd.loadRefV cell_slice
                pure ((Rd.obj "InMsg" [("type_", (Rd.str "msg_discard_tr")), ("in_msg", t20), ("transaction_id", t21), ("fwd_fee", t22), ("proof_delivered", t23)]), cell_slice)
              else do
                if (Rd.veq t1 (Rd.bits01 [false, false, true])) then do
                  let (t24, cell_slice) ← Rd.loadBits 2 cell_slice
                  let t25 ← Rd.bitsCat t1 t24
                  if (Rd.veq t25 (Rd.bits01 [false, false, true, false, false])) then do
                    let (t26, cell_slice) ← Rd.viaRef MsgEnvelope cell_slice
                    let (t27, cell_slice) ← Rd.viaRef (Transaction fuel) cell_slice
                    let (t28, cell_slice) ← Rd.loadCoins cell_slice
                    pure ((Rd.obj "InMsg" [("type_", (Rd.str "msg_import_deferred_fin")), ("in_msg", t26), ("transaction", t27), ("fwd_fee", t28)]), cell_slice)
                  else do
                    if (Rd.veq t25 (Rd.bits01 [false, false, true, false, true])) then do
                      let (t29, cell_slice) ← Rd.viaRef MsgEnvelope cell_slice
                      let (t30, cell_slice) ← Rd.viaRef MsgEnvelope cell_slice
                      pure ((Rd.obj "InMsg" [("type_", (Rd.str "msg_import_deferred_tr")), ("in_msg", t29), ("out_msg", t30)]), cell_slice)
                    else do
                      none
                else do
                  none
-- END InMsg

-- BEGIN OutMsg
def OutMsg (fuel : Nat) (sp : Bool) (cell_slice : Frag) : Rd.R := do
  let (t1, cell_slice) ← Rd.loadBits 3 cell_slice
  if (Rd.veq t1 (Rd.bits01 [false, false, false])) then do
    let (t2, cell_slice) ← Rd.viaRef MessageAny cell_slice
    let (t3, cell_slice) ← Rd.viaRef (Transaction fuel) cell_slice
    pure ((Rd.obj "OutMsg" [("type_", (Rd.str "msg_export_ext")), ("msg", t2), ("transaction", t3)]), cell_slice)
  else do
    if (Rd.veq t1 (Rd.bits01 [false, true, false])) then do
      let (t4, cell_slice) ← Rd.viaRef MsgEnvelope cell_slice
      let (t5, cell_slice) ← Rd.viaRef (Transaction fuel) cell_slice
      let (t6, cell_slice) ← Rd.viaRef (InMsg fuel) cell_slice
      pure ((Rd.obj "OutMsg" [("type_", (Rd.str "msg_export_imm")), ("out_msg", t4), ("transaction", t5), ("reimport", t6)]), cell_slice)
    else do
      if (Rd.veq t1 (Rd.bits01 [false, false, true])) then do
        let (t7, cell_slice) ← Rd.viaRef MsgEnvelope cell_slice
        let (t8, cell_slice) ← Rd.viaRef (Transaction fuel) cell_slice
        pure ((Rd.obj "OutMsg" [("type_", (Rd.str "msg_export_new")), ("out_msg", t7), ("transaction", t8)]), cell_slice)
      else do
        if (Rd.veq t1 (Rd.bits01 [false, true, true])) then do
          let (t9, cell_slice) ← Rd.viaRef MsgEnvelope cell_slice
          let (t10, cell_slice) ← Rd.viaRef (InMsg fuel) cell_slice
          pure ((Rd.obj "OutMsg" [("type_", (Rd.str "msg_export_tr")), ("out_msg", t9), ("imported", t10)]), cell_slice)
        else do
          if (Rd.veq t1 (Rd.bits01 [true, false, false])) then do
            let (t11, cell_slice) ← Rd.viaRef MsgEnvelope cell_slice
            let (t12, cell_slice) ← Rd.viaRef (InMsg fuel) cell_slice
            pure ((Rd.obj "OutMsg" [("type_", (Rd.str "msg_export_deq_imm")), ("out_msg", t11), ("reimport", t12)]), cell_slice)
          else do
            if (Rd.veq t1 (Rd.bits01 [true, true, true])) then do
              let (t13, cell_slice) ← Rd.viaRef MsgEnvelope cell_slice
              let (t14, cell_slice) ← Rd.viaRef (InMsg fuel) cell_slice
              pure ((Rd.obj "OutMsg" [("type_", (Rd.str "msg_export_tr_req")), ("out_msg", t13), ("imported", t14)]), cell_slice)
            else do
              let (t15, cell_slice) ← Rd.loadBit cell_slice
              let t16 ← Rd.strOfBit t15
              let t17 ← Rd.bitsCat t1 t16
              if (Rd.veq t17 (Rd.bits01 [true, true, false, false])) then do
                let (t18, cell_slice) ← Rd.viaRef MsgEnvelope cell_slice
                let (t19, cell_slice) ← Rd.loadUint 63 cell_slice
                pure ((Rd.obj "OutMsg" [("type_", (Rd.str "msg_export_deq")), ("out_msg", t18), ("import_block_lt", t19)]), cell_slice)
              else do
                if (Rd.veq t17 (Rd.bits01 [true, true, false, true])) then do
                  let (t20, cell_slice) ← Rd.loadBytes 32 cell_slice
                  let (t21, cell_slice) ← Rd.loadInt 32 cell_slice
                  let (t22, cell_slice) ← Rd.loadUint 64 cell_slice
                  let (t23, cell_slice) ← Rd.loadUint 64 cell_slice
                  pure ((Rd.obj "OutMsg" [("type_", (Rd.str "msg_export_deq_short")), ("msg_env_hash", t20), ("next_workchain", t21), ("next_addr_pfx", t22), ("import_block_lt", t23)]), cell_slice)
                else do
                  if (Rd.veq t17 (Rd.bits01 [true, false, true, false])) then do
                    let (t24, cell_slice) ← Rd.loadBits 1 cell_slice
                    let t25 ← Rd.bitsCat t17 t24
                    if (Rd.veq t25 (Rd.bits01 [true, false, true, false, false])) then do
                      let (t26, cell_slice) ← Rd.viaRef MsgEnvelope cell_slice
                      let (t27, cell_slice) ← Rd.viaRef (Transaction fuel) cell_slice
                      pure ((Rd.obj "OutMsg" [("type_", (Rd.str "msg_export_new_defer")), ("out_msg", t26), ("transaction", t27)]), cell_slice)
                    else do
                      if (Rd.veq t25 (Rd.bits01 [true, false, true, false, true])) then do
                        let (t28, cell_slice) ← Rd.viaRef MsgEnvelope cell_slice
                        let (t29, cell_slice) ← Rd.viaRef (InMsg fuel) cell_slice
                        pure ((Rd.obj "OutMsg" [("type_", (Rd.str "msg_export_deferred_tr")), ("out_msg", t28), ("imported", t29)]), cell_slice)
                      else do
                        none
                  else do
                    none
-- END OutMsg

/-- the readers by class name (driver op `tlbsrctx`); the budget of the Transaction nesting is the first argument -/
def readers : List (String × (Nat → Bool → Frag → Rd.R)) := [
  ("ExtraCurrencyCollection", fun _ => ExtraCurrencyCollection),
  ("CurrencyCollection", fun _ => CurrencyCollection),
  ("TrActionPhase", fun _ => TrActionPhase),
  ("TrCreditPhase", fun _ => TrCreditPhase),
  ("ImportFees", fun _ => ImportFees),
  ("InternalMsgInfo", fun _ => InternalMsgInfo),
  ("ExternalMsgInfo", fun _ => ExternalMsgInfo),
  ("ExternalOutMsgInfo", fun _ => ExternalOutMsgInfo),
  ("CommonMsgInfo", fun _ => CommonMsgInfo),
  ("MessageAny", fun _ => MessageAny),
  ("MsgMetadata", fun _ => MsgMetadata),
  ("MsgEnvelope", fun _ => MsgEnvelope),
  ("TransactionOrdinary", fun _ => TransactionOrdinary),
  ("TransactionStorage", fun _ => TransactionStorage),
  ("TransactionTickTock", fun _ => TransactionTickTock),
  ("TransactionSplitPrepare", fun _ => TransactionSplitPrepare),
  ("TransactionMergePrepare", fun _ => TransactionMergePrepare),
  ("TransactionSplitInstall", fun fuel => TransactionSplitInstall (Transaction fuel)),
  ("TransactionMergeInstall", fun fuel => TransactionMergeInstall (Transaction fuel)),
  ("TransactionDescr", fun fuel => TransactionDescr (Transaction fuel)),
  ("Transaction", fun fuel => Transaction fuel),
  ("InMsg", fun fuel => InMsg fuel),
  ("OutMsg", fun fuel => OutMsg fuel)]

end TonVerif.Tlb.SrcTx
