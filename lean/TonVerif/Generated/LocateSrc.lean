/- GENERATED from pytoniq_core/tlb/account.py, tlb/block.py (`ShardAccount`, `ShardAccounts`, `ShardStateUnsplit`: the parsers on the path
   of the TL-B walk of `check_account_proof`) by harness/translate/locsrc.py; do not edit.  Same translator as Generated/TlbParsersBlk.lean,
   with the constructor argument `cell=` of `ShardAccount(…)` KEPT (`.cell[0]` is the located account cell). -/
import TonVerif.Generated.TlbParsersBlk
set_option linter.unusedVariables false
namespace TonVerif.Tlb.SrcLoc
open TonVerif TonVerif.Tlb

-- BEGIN ShardAccount
def ShardAccount (sp : Bool) (cell_slice : Frag) : Rd.R := do
  let sl_cell_copy := cell_slice
  let (t1, cell_slice) ← Rd.viaRef SrcBlk.Account cell_slice
  let (t2, cell_slice) ← Rd.loadBytes 32 cell_slice
  let (t3, cell_slice) ← Rd.loadUint 64 cell_slice
  pure ((Rd.obj "ShardAccount" [("account", t1), ("last_trans_hash", t2), ("last_trans_lt", t3), ("cell", (Rd.toCell sp sl_cell_copy))]), cell_slice)
-- END ShardAccount

-- BEGIN ShardAccounts
def ShardAccounts (sp : Bool) (cell_slice : Frag) : Rd.R := do
  let (t1, cell_slice) ← Rd.loadHashmapAugE 256 (ShardAccount false) (SrcBlk.DepthBalanceInfo false) sp cell_slice
  pure (t1, cell_slice)
-- END ShardAccounts

-- BEGIN ShardStateUnsplit
def ShardStateUnsplit_group (c12 : Cell) (sl_ref : Frag) (t14 t15 t16 t17 t18 t19 : Val) : Option (Val × Val × Val × Val × Val × Val × Frag) :=
  (if (!(Rd.special c12)) then do
          let (t20, sl_ref) ← Rd.loadUint 64 sl_ref
          let (t21, sl_ref) ← Rd.loadUint 64 sl_ref
          let (t22, sl_ref) ← SrcTx.CurrencyCollection (Rd.special c12) sl_ref
          let (t23, sl_ref) ← SrcTx.CurrencyCollection (Rd.special c12) sl_ref
          let (t24, sl_ref) ← Rd.loadDictRaw 256 sl_ref
          let (t25, sl_ref) ← Rd.optional sl_ref (Src.BlkMasterInfo (Rd.special c12))
          pure (t20, t21, t22, t23, t24, t25, sl_ref)
        else pure (t14, t15, t16, t17, t18, t19, sl_ref))

def ShardStateUnsplit (sp : Bool) (cell_slice : Frag) : Rd.R := do
  if sp then do
    pure (Val.unit, cell_slice)
  else do
    let (t1, cell_slice) ← Rd.loadBytes 4 cell_slice
    if (!(Rd.veq t1 (Rd.bytesLit [144, 35, 175, 226]))) then none else
    let (t2, cell_slice) ← Rd.loadInt 32 cell_slice
    let (t3, cell_slice) ← Src.ShardIdent sp cell_slice
    let (t4, cell_slice) ← Rd.loadUint 32 cell_slice
    let (t5, cell_slice) ← Rd.loadUint 32 cell_slice
    let (t6, cell_slice) ← Rd.loadUint 32 cell_slice
    let (t7, cell_slice) ← Rd.loadUint 64 cell_slice
    let (t8, cell_slice) ← Rd.loadUint 32 cell_slice
    let (t9, cell_slice) ← Rd.loadRefV cell_slice
    let (t10, cell_slice) ← Rd.loadBit cell_slice
    let (t11, cell_slice) ← Rd.viaRef ShardAccounts cell_slice
    let (c12, cell_slice) ← Rd.loadRef cell_slice
    let r13 := Rd.beginParse c12
    let sl_ref := r13
    let t14 := Val.unit
    let t15 := Val.unit
    let t16 := Val.unit
    let t17 := Val.unit
    let t18 := Val.unit
    let t19 := Val.unit
    let (t26, t27, t28, t29, t30, t31, sl_ref) ← ShardStateUnsplit_group c12 sl_ref t14 t15 t16 t17 t18 t19
    let (t32, cell_slice) ← Rd.optional cell_slice (Rd.viaRef SrcBlk.McStateExtra)
    pure ((Rd.obj "ShardStateUnsplit" [("global_id", t2), ("shard_id", t3), ("seq_no", t4), ("vert_seq_no", t5), ("gen_utime", t6), ("gen_lt", t7), ("min_ref_mc_seqno", t8), ("out_msg_queue_info", t9), ("before_split", t10), ("accounts", t11), ("overload_history", t26), ("underload_history", t27), ("total_balance", t28), ("total_validator_fees", t29), ("libraries", t30), ("master_ref", t31), ("custom", t32)]), cell_slice)
-- END ShardStateUnsplit

end TonVerif.Tlb.SrcLoc
