/-
Meaning of the Python operations that the TL-B codec translator (harness/translate/pytlb.py) emits calls to, in addition to
the `Builder` / `Slice` operations of `Model/Builder.lean` (`BOp.*` = `builder.store_*`, `SOp.*` = `cell_slice.load_*`; these are
the DECLARED meaning of the library's Builder / Slice classes, tied to boc/builder.py, boc/slice.py by C06 / C07) and the three
helpers of `Model/VmStack.lean` (`run op b` = "the store call returned normally", `finish mk b` = `b.end_cell()` as a `Built`
= content + cell object, `De.sub view p c` = `p(c.begin_parse())`).  Hand-written, core Lean only.  This is the translator's
trusted reading; it is validated against CPython on every change (harness/translate/vmsrc.py, msgsrc.py `validate`).

**Python lists are represented last-element-first** (as in the hand models): the Lean list `v :: rest` is the Python list
`rest' + [v]`.  `RL.*` is the meaning of the list operations on that representation.
-/
import TonVerif.Model.Builder
import TonVerif.Model.VmStack

namespace TonVerif.Py.RL
variable {α : Type}

/-- `xs.pop()`: (popped element, list afterwards); `none` = IndexError (pop from empty list) -/
def pop? : List α → Option (α × List α)
  | [] => none
  | x :: xs => some (x, xs)

/-- `xs[-1]`; `none` = IndexError -/
def last? : List α → Option α
  | [] => none
  | x :: _ => some x

/-- `xs[:-1]` (a new list; `[][:-1] == []`) -/
def init : List α → List α
  | [] => []
  | _ :: xs => xs

/-- `xs[0]`; `none` = IndexError -/
def first? (xs : List α) : Option α := xs.getLast?

/-- `xs + [x]` / `xs.append(x)` -/
def push (xs : List α) (x : α) : List α := x :: xs

/-- the list after its element `xs[-1]` (an object) changed state to `v` -/
def setLast : List α → α → List α
  | [], _ => []
  | _ :: xs, v => v :: xs

/-- the list after its element `xs[0]` changed state to `v` -/
def setFirst : List α → α → List α
  | [], _ => []
  | [_], v => [v]
  | x :: y :: xs, v => x :: setFirst (y :: xs) v

end TonVerif.Py.RL

namespace TonVerif.Py.Tlb
open TonVerif TonVerif.Model TonVerif.Model.Vm

variable {R : Type}

/-- `c.to_builder()` of a cell object: refused for exotic cells, else a builder holding the cell's data -/
def toBuilder? (view : R → Bits × List R) (ord : R → Bool) (c : R) : Option (Bits × List R) :=
  if ord c then some (view c) else none

/-- `cell_slice.to_cell()`: the remaining data of the slice (nothing is consumed) -/
def toCell : SOp R (Bits × List R) := fun s => (s, some (s.bits, s.refs))

/-- `builder.available_bits` -/
def availableBits (b : Builder R) : Int := 1023 - (b.bits.length : Int)

/-- `builder.available_refs` -/
def availableRefs (b : Builder R) : Int := 4 - (b.refs.length : Int)

/-- `builder.store_ref(c)` for a cell object given by its content: the cell object is `mk bits refs` -/
def storeRefOf (mk : Bits → List R → Option R) (c : Bits × List R) (b : Builder R) : Option (Builder R) :=
  (mk c.1 c.2).bind fun r => run (BOp.storeRef r) b

/-- a value that must not be `None` where the model has no `None` (e.g. a sub-continuation): `None` = outside the domain -/
def unNone {α : Type} : Option α → SOp R α := SOp.ofOption

/-- the stack value for what `VmCont.deserialize` returned: a continuation, or `None` (no constructor tag matched) -/
def valOfOptCont : Option (Spec.Vm.Cont R) → Spec.Vm.Val R
  | some k => Spec.Vm.Val.cont k
  | none => Spec.Vm.Val.null

end TonVerif.Py.Tlb
