/- driver ops: tlser, tldeser, tlnorm, tlcrc, tlblk (TL model over the generated schema table)

value syntax (no blanks): i<int> | T | F | b<hex> | s<hex of utf8> | h<hex> | l(v,v,..) | o<tag>(k=v,k=v,..)
with <tag> = `-` or the interned constructor-name number and k = interned field-name numbers. -/
import TonVerif.Drv.Common
import TonVerif.Model.Tl
import TonVerif.Model.TlNorm
import TonVerif.Generated.TlTable

namespace TonVerif.Drv
open TonVerif TonVerif.Spec.Tl TonVerif.Model.Tl

namespace Tl

def table : Table := Generated.Tl.table
def fuel : Nat := 200

partial def showVal : Val → String
  | .int i => "i" ++ toString i
  | .bool true => "T"
  | .bool false => "F"
  | .bytes b => "b" ++ hexOfBytes b
  | .str b => "s" ++ hexOfBytes b
  | .hex b => "h" ++ hexOfBytes b
  | .list vs => "l(" ++ ",".intercalate (vs.map showVal) ++ ")"
  | .obj ty fs =>
    "o" ++ (match ty with | some n => toString n | none => "-") ++ "(" ++
      ",".intercalate (fs.map (fun (k, v) => toString k ++ "=" ++ showVal v)) ++ ")"

def takeWhileC (p : Char → Bool) : List Char → List Char × List Char
  | [] => ([], [])
  | c :: cs => if p c then let (a, b) := takeWhileC p cs; (c :: a, b) else ([], c :: cs)

def isHexC (c : Char) : Bool := c.isDigit || ('a' ≤ c && c ≤ 'f')

mutual
partial def parseVal : List Char → Option (Val × List Char)
  | 'i' :: cs =>
    let (neg, cs) := match cs with | '-' :: r => (true, r) | _ => (false, cs)
    let (ds, rest) := takeWhileC Char.isDigit cs
    (String.ofList ds).toNat?.map (fun n => (.int (if neg then -(n : Int) else n), rest))
  | 'T' :: cs => some (.bool true, cs)
  | 'F' :: cs => some (.bool false, cs)
  | 'b' :: cs => let (h, rest) := takeWhileC isHexC cs; (bytesOfHexChars h).map (fun b => (.bytes b, rest))
  | 's' :: cs => let (h, rest) := takeWhileC isHexC cs; (bytesOfHexChars h).map (fun b => (.str b, rest))
  | 'h' :: cs => let (h, rest) := takeWhileC isHexC cs; (bytesOfHexChars h).map (fun b => (.hex b, rest))
  | 'l' :: '(' :: ')' :: cs => some (.list [], cs)
  | 'l' :: '(' :: cs => (parseVals cs).map (fun (vs, rest) => (.list vs, rest))
  | 'o' :: cs =>
    let (tag, cs) : Option Nat × List Char := match cs with
      | '-' :: r => (none, r)
      | _ => let (ds, r) := takeWhileC Char.isDigit cs; ((String.ofList ds).toNat?, r)
    match cs with
    | '(' :: ')' :: rest => some (.obj tag [], rest)
    | '(' :: rest => (parseFields rest).map (fun (fs, r) => (.obj tag fs, r))
    | _ => none
  | _ => none
partial def parseVals (cs : List Char) : Option (List Val × List Char) :=
  match parseVal cs with
  | some (v, ',' :: rest) => (parseVals rest).map (fun (vs, r) => (v :: vs, r))
  | some (v, ')' :: rest) => some ([v], rest)
  | _ => none
partial def parseFields (cs : List Char) : Option (Fields × List Char) :=
  let (ds, rest) := takeWhileC Char.isDigit cs
  match (String.ofList ds).toNat?, rest with
  | some k, '=' :: rest =>
    match parseVal rest with
    | some (v, ',' :: r) => (parseFields r).map (fun (fs, r') => ((k, v) :: fs, r'))
    | some (v, ')' :: r) => some ([(k, v)], r)
    | _ => none
  | _, _ => none
end

def valArg (s : String) : Option Val :=
  match parseVal s.toList with
  | some (v, []) => some v
  | _ => none

def showBlk (b : BlockIdExt) : String :=
  s!"{b.workchain} {b.shard} {b.seqno} {dashHex b.rootHash} {dashHex b.fileHash}"

/-- a table outside the bundled ones, for the correspondence on a `Bool` flags word (`bin(True)` = '0b1'):
`t.x mode:Bool a:mode.0?int b:mode.1?int = T.X` (id = CRC-32 of the declaration); names: t.x = 1, T.X = 2, mode = 0, a = 3, b = 4. -/
def boolFlagTable : Table :=
  ⟨[⟨1, 2, 0x25dfca6a, [⟨0, none, false, .bool⟩, ⟨3, some (0, 0), false, .int⟩, ⟨4, some (0, 1), false, .int⟩], []⟩], 0, 5, []⟩

def handle? (op : String) (args : List String) : Option String :=
  match op, args with
  | "tldeserx", [d, auto] => some (match hexArg d with
      | some bs =>
        match deserialize boolFlagTable (auto == "1") fuel bs with
        | some (v, n) => s!"ok {showVal v} {n}"
        | none => "err"
      | none => "bad-op")
  | "tlser", [ci, v] => some (match ci.toNat?, valArg v with
      | some i, some val =>
        match table.ctors[i]? with
        | some c => optHex (serialize table fuel c val)
        | none => "bad-op"
      | _, _ => "bad-op")
  | "tldeser", [d, auto] => some (match hexArg d with
      | some bs =>
        match deserialize table (auto == "1") fuel bs with
        | some (v, n) => s!"ok {showVal v} {n}"
        | none => "err"
      | none => "bad-op")
  | "tlnorm", [ci, v] => some (match ci.toNat?, valArg v with
      | some i, some val =>
        match table.ctors[i]? with
        | some c =>
          match normalize table fuel c val with
          | some w => s!"ok {showVal w}"
          | none => "err"
        | none => "bad-op"
      | _, _ => "bad-op")
  | "tlcrc", [d] => some (match hexArg d with
      | some bs => s!"ok {crc32 bs}"
      | none => "bad-op")
  | "tlframe", [d] => some (match hexArg d with
      | some bs => "ok " ++ hexOfBytes (encodeBytes bs)
      | none => "bad-op")
  | "tlblk", ["tobytes", wc, sh, sq, r, f] => some (match wc.toInt?, sh.toInt?, sq.toInt?, hexArg r, hexArg f with
      | some w, some s, some q, some rb, some fb => optHex (BlockIdExt.toBytes ⟨w, s, q, rb, fb⟩)
      | _, _, _, _, _ => "bad-op")
  | "tlblk", ["frombytes", d] => some (match hexArg d with
      | some bs => "ok " ++ showBlk (BlockIdExt.fromBytes bs)
      | none => "bad-op")
  | _, _ => none
end Tl

end TonVerif.Drv
