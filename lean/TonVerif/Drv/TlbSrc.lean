/- driver ops for the regenerated TL-B parsers (C16 source tie): tlbsrc, tlbsrcchk, tlbsrctypes -/
import TonVerif.Drv.Tlb
import TonVerif.Generated.TlbParsers
import TonVerif.Spec.Tlb.PyView

namespace TonVerif.Drv
open TonVerif TonVerif.Tlb

/-- class name ↦ (spec codec of its block.tlb type, declared view); the classes with a `c16_src_*` theorem -/
def srcViews : List (String × Codec × (Val → Val)) := [
  ("HashUpdate", hashUpdate, view_HashUpdate), ("TickTock", tickTock, view_TickTock),
  ("StorageUsed", storageUsed, view_StorageUsed), ("StorageUsedShort", storageUsedShort, view_StorageUsedShort),
  ("StorageInfo", storageInfo, view_StorageInfo), ("AccountStatus", accountStatus, view_AccountStatus),
  ("StateInit", stateInit, view_StateInit), ("AccountState", accountState, view_AccountState),
  ("ExtBlkRef", extBlkRef, view_ExtBlkRef), ("BlkMasterInfo", blkMasterInfo, view_BlkMasterInfo),
  ("KeyExtBlkRef", keyExtBlkRef, view_KeyExtBlkRef), ("KeyMaxLt", keyMaxLt, view_KeyMaxLt),
  ("Counters", counters, view_Counters), ("CreatorStats", creatorStats, view_CreatorStats),
  ("ValidatorInfo", validatorInfo, view_ValidatorInfo), ("ShardIdent", shardIdent, view_ShardIdent),
  ("GlobalVersion", globalVersion, view_GlobalVersion), ("SplitMergeInfo", splitMergeInfo, view_SplitMergeInfo),
  ("SigPubKey", sigPubKey, view_SigPubKey),
  ("AccStatusChange", accStatusChange, view_AccStatusChange), ("ComputeSkipReason", computeSkipReason, view_ComputeSkipReason),
  ("TrStoragePhase", trStoragePhase, view_TrStoragePhase), ("TrComputePhase", trComputePhase, view_TrComputePhase),
  ("TrBouncePhase", trBouncePhase, view_TrBouncePhase), ("FutureSplitMerge", futureSplitMerge, view_FutureSplitMerge),
  ("IntermediateAddress", intermediateAddress, view_IntermediateAddress), ("ValidatorDescr", validatorDescr, view_ValidatorDescr),
  ("CatchainConfig", catchainConfig, view_CatchainConfig)]

/-- `tlbsrc <Class> <dag> <node>` → `ok <value json> <remaining bits> <remaining refs>` | `none` :
    the regenerated reader of the class run on that (ordinary) cell -/
def handleSrc (cls dag node : String) : String :=
  match Src.readers.lookup cls, (dag.splitOn "|").mapM parseNode, node.toNat? with
  | some r, some nodes, some ni =>
    match ((cellsOfDag nodes)[ni]?).join with
    | none => "err"
    | some cell =>
      match r cell.exotic ⟨cell.bits, cell.refs⟩ with
      | some (v, k) => s!"ok {showVal v} {showBits k.bits} {k.refs.length}"
      | none => "none"
  | _, _, _ => "bad-op"

/-- `tlbsrcchk <Class> <seed>` → `<0|1> <tlbgen answer>` : a generated value of the class's block.tlb type, spec-encoded with a
    trailer (same value as `tlbgen <Type> <seed>`); 1 = the regenerated reader returns the declared view of the value and
    leaves exactly the trailer (what `c16_src_<Class>` proves for every value), 0 = it does not -/
def handleSrcChk (cls seedS : String) : String :=
  match srcViews.lookup cls, Src.readers.lookup cls, seedS.toNat? with
  | some (c, w), some r, some seed =>
    let (v, g1) := c.gen.run (mkStdGen seed)
    match c.enc v with
    | none => "unenc"
    | some f =>
      if f.bits.length > 1023 ∨ f.refs.length > 4 then "unenc" else
      let ((tb, tr), _) := (do
        let nb ← gNat 0 (min 19 (1023 - f.bits.length))
        let tb ← gBits nb
        let nr ← gNat 0 (min 2 (4 - f.refs.length))
        let tr := (List.range nr).map (fun i => Tlb.Cell.mk false (natToBits 9 (300 + i)) [])
        pure (tb, tr) : Gen (Bits × List Tlb.Cell)).run g1
      let top := Tlb.Cell.mk false (f.bits ++ tb) (f.refs ++ tr)
      let (nodes, _) := flattenCell top #[]
      let good := match r false ⟨f.bits ++ tb, f.refs ++ tr⟩ with
        | some (pv, k) => showVal pv == showVal (w v) && k.bits == tb && k.refs.length == tr.length
        | none => false
      s!"{if good then 1 else 0} ok {showVal v} {"|".intercalate nodes.toList} {showBits tb} {tr.length} 1"
  | _, _, _ => "bad-op"

namespace TlbSrc
def handle? (op : String) (args : List String) : Option String :=
  match op, args with
  | "tlbsrc", [cls, dag, node] => some (handleSrc cls dag node)
  | "tlbsrcchk", [cls, seed] => some (handleSrcChk cls seed)
  | "tlbsrctypes", [] => some ("ok " ++ " ".intercalate (Src.readers.map (·.1)))
  | _, _ => none
end TlbSrc

end TonVerif.Drv
