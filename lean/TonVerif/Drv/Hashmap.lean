/- driver ops for the dictionary model: hmser, hmparse, hmenc, hmlabel -/
import TonVerif.Drv.Cell
import TonVerif.Drv.Builder
import TonVerif.Model.Hashmap

namespace TonVerif.Drv
open TonVerif TonVerif.Model TonVerif.Model.Hashmap
open TonVerif.Spec.Hashmap (LabelKind Val AugDec STree)

mutual
  def RCell.toCell : RCell → Model.Cell
    | .mk i b rs => .mk i.kind b (RCell.toCells rs)
  def RCell.toCells : List RCell → List Model.Cell
    | [] => []
    | c :: cs => c.toCell :: RCell.toCells cs
end

namespace Hashmap

def cellHash (c : Model.Cell) : String :=
  match Cell.info sha c with
  | some i => hexOfBytes i.hash
  | none => "err"

def showVal (v : Val) : String :=
  showBits v.1 ++ "/" ++ (if v.2.isEmpty then "-" else ".".intercalate (v.2.map cellHash))

def showDict (d : Dict Val) : String :=
  if d.isEmpty then "-" else ";".intercalate (d.map (fun kv => s!"{kv.1}={showVal kv.2}"))

def showBitDict (d : List (Bits × Val)) : String :=
  if d.isEmpty then "-" else ";".intercalate (d.map (fun kv => s!"{showBits kv.1}={showVal kv.2}"))

def showP (r : PResult (Dict Val)) : String :=
  match r with
  | .err => "err"
  | .none => "ok none"
  | .dict d => "ok " ++ showDict d

def parseDag (dag : String) : Option (Array (Option RCell)) :=
  if dag == "-" then some #[] else ((dag.splitOn "|").mapM parseNode).map evalRDag

def nodeCell (ctx : Array (Option RCell)) (s : String) : Option Model.Cell :=
  s.toNat?.bind (fun i => ((ctx[i]?).join).map RCell.toCell)

/-- key token: `i:<int>` | `y:<hex>` | `s:<bits>` | `h:<hex of the utf-8 text>` | `a:<wc>:<hash>[:<depth>:<pfx>]` -/
def parseKey (tok : String) : Option Key :=
  match tok.splitOn ":" with
  | ["i", v] => v.toInt?.map Key.int
  | ["y", h] => (hexArg h).map Key.bytes
  | ["s", b] => (parseBits b).map Key.bitstr
  | ["h", h] => (hexArg h).map Key.hashed
  | "a" :: rest => (parseAddr ("s" :: rest)).map Key.addr
  | _ => none

/-- value serialisers: `u<w>` store_uint, `i<w>` store_int, `c` store_coins, `raw` = bits/refs token -/
def valSer (ctx : Array (Option RCell)) (vkind : String) (tok : String) : Option Val :=
  let viaB (f : BOp Model.Cell) : Option Val := let r := f Builder.empty; if r.2 then some (r.1.bits, r.1.refs) else none
  if vkind == "raw" then
    match tok.splitOn "/" with
    | [b, r] => do
      let bits ← parseBits b
      let idx ← parseNatList r
      let refs ← idx.mapM (fun i => ((ctx[i]?).join).map RCell.toCell)
      pure (bits, refs)
    | _ => none
  else if vkind == "c" then tok.toInt?.bind (fun v => viaB (BOp.storeCoins v))
  else if vkind.startsWith "u" then do
    let w ← (vkind.drop 1).toString.toNat?
    let v ← tok.toInt?
    viaB (BOp.storeUint v w)
  else if vkind.startsWith "i" then do
    let w ← (vkind.drop 1).toString.toNat?
    let v ← tok.toInt?
    viaB (BOp.storeInt v w)
  else none

/-- `hmser <dag|-> <n> <vkind> <key=val;…|->` → `ok <set flags> <root hash|none|err> <HashMap.parse of it>` -/
def handleSer (dag nS vkind ins : String) : String :=
  match parseDag dag, nS.toNat? with
  | some ctx, some n =>
    let entries := if ins == "-" then [] else ins.splitOn ";"
    -- `!` = an interim `serialize()` call on the object (its result is reported in a trailing field)
    let parsed : Option (List (Option (Key × String))) := entries.mapM (fun e =>
      if e == "!" then some none else
      match e.splitOn "=" with
      | [k, v] => (parseKey k).map (fun key => some (key, v))
      | _ => none)
    match parsed with
    | none => "bad-op"
    | some es =>
      let serHash (d : Dict String) : String :=
        match serialize n (valSer ctx vkind) d with
        | none => "err"
        | some none => "none"
        | some (some c) => match Cell.info sha c with | none => "err" | some i => hexOfBytes i.hash
      let (d, flags, interim) := es.foldl (fun (acc : Dict String × String × List String) e =>
        match e with
        | none => (acc.1, acc.2.1, acc.2.2 ++ [serHash acc.1])
        | some e =>
          match Hashmap.set sha n e.1 e.2 acc.1 with
          | some d' => (d', acc.2.1 ++ "1", acc.2.2)
          | none => (acc.1, acc.2.1 ++ "0", acc.2.2)) (([] : Dict String), "", [])
      let fl := if flags.isEmpty then "-" else flags
      let tail := if interim.isEmpty then "" else " " ++ ".".intercalate interim
      match serialize n (valSer ctx vkind) d with
      | none => s!"ok {fl} err -{tail}"
      | some none => s!"ok {fl} none -{tail}"
      | some (some c) =>
        match Cell.info sha c with
        | none => s!"ok {fl} err -{tail}"
        | some i => s!"ok {fl} {hexOfBytes i.hash} {showP (hashMapParse c n)}{tail}"
  | _, _ => "bad-op"

def uintDec (y : Nat) : AugDec Val Nat where
  decY := fun s => (Hashmap.loadUint y s.1).map (fun p => (p.1, (p.2, s.2)))
  decX := fun s => some s

/-- `Y = uint y ++ Maybe ^Cell`: an augmentation value that owns a reference (as CurrencyCollection's `other` dictionary
does); rendered `v` or `v^<hash>` -/
def uintRefDec (y : Nat) : AugDec Val String where
  decY := fun s =>
    match Hashmap.loadUint y s.1 with
    | none => none
    | some (v, bits1) =>
      match bits1 with
      | [] => none
      | false :: bits2 => some (toString v, (bits2, s.2))
      | true :: bits2 =>
        match s.2 with
        | [] => none
        | c :: rs => some (s!"{v}^{cellHash c}", (bits2, rs))
  decX := fun s => some s

def showAugS (kv : Dict Val) (ex : List String) : String :=
  showDict kv ++ " " ++ (if ex.isEmpty then "-" else ".".intercalate ex)

def showAug (kv : Dict Val) (ex : List Nat) : String :=
  showDict kv ++ " " ++ (if ex.isEmpty then "-" else ".".intercalate (ex.map toString))

/-- `hmparse <dag> <node> <n> <mode>`; modes: p (parse_hashmap), h (HashMap.parse), f (from_cell),
    ld (load_dict / preload_dict on a cell holding the maybe-ref), aug:<ybits>, auge:<ybits>,
    augr:<ybits> / auger:<ybits> (extra = uint ybits ++ Maybe ^Cell: the augmentation owns a reference) -/
def handleParse (dag node nS mode : String) : String :=
  match parseDag dag, nS.toNat? with
  | some ctx, some n =>
    match nodeCell ctx node with
    | none => "err-node"
    | some c =>
      match mode.splitOn ":" with
      | ["p"] => match parseHashmap c n with | some kv => "ok " ++ showBitDict kv | none => "err"
      | ["h"] => showP (hashMapParse c n)
      | ["f"] => match fromCell c n with | some d => "ok " ++ showDict d | none => "err"
      | ["ld"] => match c with | .mk _ bits refs => showP (loadDict bits refs n)
      | ["aug", y] => match y.toNat? with
        | none => "bad-op"
        | some yb => match parseHashmapAug (uintDec yb) c n with
          | .err => "err"
          | .none => "ok none"
          | .dict (kv, ex) => "ok " ++ showAug kv ex
      | ["augr", y] => match y.toNat? with
        | none => "bad-op"
        | some yb => match parseHashmapAug (uintRefDec yb) c n with
          | .err => "err"
          | .none => "ok none"
          | .dict (kv, ex) => "ok " ++ showAugS kv ex
      | ["auger", y] => match y.toNat?, c with
        | none, _ => "bad-op"
        | some yb, .mk kind bits refs => match loadHashmapAugE (uintRefDec yb) kind bits refs n with
          | .err => "err"
          | .none => "ok none"
          | .cell => "ok cell"
          | .empty y => "ok " ++ showAugS [] [y]
          | .dict kv ex => "ok " ++ showAugS kv ex
      | ["auge", y] => match y.toNat?, c with
        | none, _ => "bad-op"
        | some yb, .mk kind bits refs => match loadHashmapAugE (uintDec yb) kind bits refs n with
          | .err => "err"
          | .none => "ok none"
          | .cell => "ok cell"
          | .empty y => "ok " ++ showAug [] [y]
          | .dict kv ex => "ok " ++ showAug kv ex
      | _ => "bad-op"
  | _, _ => "bad-op"

/-- tree description with subtrees to prune -/
inductive PTree where
  | leaf (label : Bits) (k : LabelKind) (v : Bool) (extra value : Bits) (refs : List Model.Cell)
  | fork (label : Bits) (k : LabelKind) (v : Bool) (extra : Bits) (l r : PTree)
  | prune (t : PTree)

def parseKind (s : String) : Option LabelKind :=
  if s == "s" then some .short else if s == "l" then some .long else if s == "m" then some .same else none

/-- prefix token list: `L:label:kind:v:extra:value:refs` | `F:label:kind:v:extra` l r | `P` t -/
def parseTree (ctx : Array (Option RCell)) : Nat → List String → Option (PTree × List String)
  | 0, _ => none
  | fuel + 1, toks =>
    match toks with
    | [] => none
    | t :: rest =>
      match t.splitOn ":" with
      | ["L", lb, k, v, ex, val, rf] => do
        let refs ← (← parseNatList rf).mapM (fun i => ((ctx[i]?).join).map RCell.toCell)
        pure (.leaf (← parseBits lb) (← parseKind k) (v == "1") (← parseBits ex) (← parseBits val) refs, rest)
      | ["F", lb, k, v, ex] => do
        let (l, r1) ← parseTree ctx fuel rest
        let (r, r2) ← parseTree ctx fuel r1
        pure (.fork (← parseBits lb) (← parseKind k) (v == "1") (← parseBits ex) l r, r2)
      | ["P"] => do
        let (s, r1) ← parseTree ctx fuel rest
        pure (.prune s, r1)
      | _ => none

/-- level-1 pruned branch of an (unpruned) cell -/
def prunedOf (c : Model.Cell) : Option Model.Cell := do
  let i ← Cell.info sha c
  let h ← i.getHash 0
  let d ← i.getDepth 0
  pure (.mk 1 (byteToBits 1 ++ byteToBits 1 ++ bytesToBits h ++ natToBits 16 d) [])

def resolve (n : Nat) : PTree → Option STree
  | .leaf s k v ex val refs => some (.leaf s k v ex val refs)
  | .fork s k v ex l r => do
    let m := n - s.length - 1
    pure (.fork s k v ex (← resolve m l) (← resolve m r))
  | .prune t => do
    let st ← resolve n t
    let c ← prunedOf (st.encode n)
    pure (.pruned c)

/-- `hmenc <dag|-> <n> <tokens,…>` → `ok <root hash>` : the Spec encoder with explicit label constructors -/
def handleEnc (dag nS toks : String) : String :=
  match parseDag dag, nS.toNat? with
  | some ctx, some n =>
    let ts := toks.splitOn ","
    match parseTree ctx (ts.length + 1) ts with
    | some (pt, []) =>
      match resolve n pt with
      | none => "err"
      | some st =>
        let c := st.encode n
        match Cell.info sha c with
        | none => "err"
        | some i => s!"ok {hexOfBytes i.hash} {showBitDict st.leaves}"
    | _ => "bad-op"
  | _, _ => "bad-op"

def showKind : LabelKind → String
  | .short => "short" | .long => "long" | .same => "same"

/-- `hmlabel <bits> <keySize>` → `ok <generated kind> <reference kind> <label bits|err>` -/
def handleLabel (b k : String) : String :=
  match parseBits b, k.toNat? with
  | some s, some ks =>
    let g := Generated.LabelFns.detect_label_type s ks
    let r := Spec.Hashmap.refLabelKind s.length ks (Spec.Hashmap.allSame s)
    let lb := match labelBits s ks with | some x => showBits x | none => "err"
    s!"ok {showKind g} {showKind r} {lb}"
  | _, _ => "bad-op"

def handle? (op : String) (args : List String) : Option String :=
  match op, args with
  | "hmser", [dag, n, vk, ins] => some (handleSer dag n vk ins)
  | "hmparse", [dag, node, n, mode] => some (handleParse dag node n mode)
  | "hmenc", [dag, n, toks] => some (handleEnc dag n toks)
  | "hmlabel", [b, k] => some (handleLabel b k)
  | _, _ => none
end Hashmap

end TonVerif.Drv
