/- driver ops for the VmStack model: vmser, vmdeser, vmspec (see harness/gen/vmvals.py for the token syntax)

value  := n | i:<int> | c:<node> | s:<node>:<bits consumed>:<refs consumed> | b:<node> | t:<len> value*len | cont
cont   := kstd ctl s:… | kenv ctl cont | kquit:<code> | kqexc | krep:<count> cont cont | kuntil cont cont
        | kagain cont | kwc cont cont cont | kwb cont cont cont | kpush:<v> cont
ctl    := d:<nargs|->:<depth|->:<save node|->:<cp|-> value*depth
Lists are written first-to-last (Python order, stack bottom first); the model stores them last-first.
Output of vmdeser uses the same grammar with cells shown by hash:
  c:<hash>  s:<bits>:<refhashes>  b:<bits>:<refhashes>  d:<nargs>:<depth>:<save hash>:<cp>
-/
import TonVerif.Drv.Cell
import TonVerif.Model.VmStack

namespace TonVerif.Drv
open TonVerif TonVerif.Model TonVerif.Model.Vm TonVerif.Spec.Vm

namespace VmStack

abbrev V := Val RCell
abbrev K := Cont RCell
abbrev C := Ctl RCell

def optInt (s : String) : Option (Option Int) := if s == "-" then some none else s.toInt?.map some

mutual
partial def pVal (ctx : Array (Option RCell)) (toks : List String) : Option (V × List String) :=
  let node (s : String) : Option RCell := s.toNat?.bind (fun i => (ctx[i]?).join)
  match toks with
  | [] => none
  | t :: rest =>
    match t.splitOn ":" with
    | ["n"] => some (Val.null, rest)
    | ["i", v] => do pure (Val.int (← v.toInt?), rest)
    | ["c", n] => do pure (Val.cell (← node n), rest)
    | ["s", n, sb, sr] => do
      let c ← node n
      pure (Val.slice (c.bits.drop (← sb.toNat?)) (c.refs.drop (← sr.toNat?)), rest)
    | ["b", n] => do let c ← node n; pure (Val.builder c.bits c.refs, rest)
    | ["t", len] => do
      let (vs, rest') ← pVals ctx (← len.toNat?) rest []
      pure (Val.tuple vs, rest')
    | _ => do
      let (k, rest') ← pCont ctx toks
      pure (Val.cont k, rest')
/-- parses `n` values; result last-first -/
partial def pVals (ctx : Array (Option RCell)) (n : Nat) (toks : List String) (acc : List V) : Option (List V × List String) :=
  if n = 0 then some (acc, toks) else do
    let (v, rest) ← pVal ctx toks
    pVals ctx (n - 1) rest (v :: acc)
partial def pCont (ctx : Array (Option RCell)) (toks : List String) : Option (K × List String) :=
  match toks with
  | [] => none
  | t :: rest =>
    match t.splitOn ":" with
    | ["kstd"] => do
      let (cd, r1) ← pCtl ctx rest
      match ← pVal ctx r1 with
      | (Val.slice b r, r2) => pure (Cont.std cd b r, r2)
      | _ => none
    | ["kenv"] => do
      let (cd, r1) ← pCtl ctx rest
      let (n, r2) ← pCont ctx r1
      pure (Cont.envelope cd n, r2)
    | ["kquit", c] => do pure (Cont.quit (← c.toInt?), rest)
    | ["kqexc"] => some (Cont.quitExc, rest)
    | ["krep", c] => do
      let (b, r1) ← pCont ctx rest
      let (a, r2) ← pCont ctx r1
      pure (Cont.repeat_ (← c.toInt?) b a, r2)
    | ["kuntil"] => do
      let (b, r1) ← pCont ctx rest
      let (a, r2) ← pCont ctx r1
      pure (Cont.until_ b a, r2)
    | ["kagain"] => do
      let (b, r1) ← pCont ctx rest
      pure (Cont.again b, r1)
    | ["kwc"] => do
      let (c, r1) ← pCont ctx rest
      let (b, r2) ← pCont ctx r1
      let (a, r3) ← pCont ctx r2
      pure (Cont.whileCond c b a, r3)
    | ["kwb"] => do
      let (c, r1) ← pCont ctx rest
      let (b, r2) ← pCont ctx r1
      let (a, r3) ← pCont ctx r2
      pure (Cont.whileBody c b a, r3)
    | ["kpush", v] => do
      let (n, r1) ← pCont ctx rest
      pure (Cont.pushint (← v.toInt?) n, r1)
    | _ => none
partial def pCtl (ctx : Array (Option RCell)) (toks : List String) : Option (C × List String) :=
  let node (s : String) : Option RCell := s.toNat?.bind (fun i => (ctx[i]?).join)
  match toks with
  | [] => none
  | t :: rest =>
    match t.splitOn ":" with
    | ["d", nargs, depth, save, cp] => do
      let na ← optInt nargs
      let c ← optInt cp
      let sv ← (if save == "-" then some none else (node save).map some)
      if depth == "-" then pure (Ctl.mk na none sv c, rest)
      else do
        let (vs, rest') ← pVals ctx (← depth.toNat?) rest []
        pure (Ctl.mk na (some vs) sv c, rest')
    | _ => none
end

def showOptInt : Option Int → String
  | some i => toString i
  | none => "-"

mutual
partial def sVal : V → List String
  | .null => ["n"]
  | .int v => [s!"i:{v}"]
  | .cell c => [s!"c:{c.hashHex}"]
  | .slice b r => [s!"s:{showBits b}:{showRefs r}"]
  | .builder b r => [s!"b:{showBits b}:{showRefs r}"]
  | .cont k => sCont k
  | .tuple vs => s!"t:{vs.length}" :: (vs.reverse.flatMap sVal)
partial def sCont : K → List String
  | .std cd b r => "kstd" :: sCtl cd ++ [s!"s:{showBits b}:{showRefs r}"]
  | .envelope cd n => "kenv" :: sCtl cd ++ sCont n
  | .quit c => [s!"kquit:{c}"]
  | .quitExc => ["kqexc"]
  | .repeat_ c b a => s!"krep:{c}" :: sCont b ++ sCont a
  | .until_ b a => "kuntil" :: sCont b ++ sCont a
  | .again b => "kagain" :: sCont b
  | .whileCond c b a => "kwc" :: sCont c ++ sCont b ++ sCont a
  | .whileBody c b a => "kwb" :: sCont c ++ sCont b ++ sCont a
  | .pushint v n => s!"kpush:{v}" :: sCont n
partial def sCtl : C → List String
  | .mk na st sv cp =>
    let depth := match st with | some vs => toString vs.length | none => "-"
    let save := match sv with | some c => c.hashHex | none => "-"
    s!"d:{showOptInt na}:{depth}:{save}:{showOptInt cp}" :: (match st with | some vs => vs.reverse.flatMap sVal | none => [])
end

def showStack (vs : List V) : String :=
  if vs.isEmpty then "-" else ",".intercalate (vs.reverse.flatMap sVal)

def parseStack (ctx : Array (Option RCell)) (s : String) : Option (List V) :=
  if s == "-" then some [] else
  let toks := s.splitOn ","
  let rec go (fuel : Nat) (toks : List String) (acc : List V) : Option (List V) :=
    match fuel, toks with
    | _, [] => some acc
    | 0, _ => none
    | f + 1, _ => match pVal ctx toks with
      | none => none
      | some (v, rest) => go f rest (v :: acc)
  go toks.length toks []

def rview (c : RCell) : Bits × List RCell := (c.bits, c.refs)
def rord (c : RCell) : Bool := c.info.kind == kOrdinary

def parseDag (dag : String) : Option (Array (Option RCell)) :=
  if dag == "-" then some #[] else ((dag.splitOn "|").mapM parseNode).map evalRDag

/-- `vmser <dag|-> <stack>` → `ok <cell hash> <caller's stack afterwards>` | `err` : model of `VmStack.serialize(stack)` -/
def handleSer (dag st : String) : String :=
  match parseDag dag with
  | none => "bad-op"
  | some ctx =>
    match parseStack ctx st with
    | none => "bad-op"
    | some vs =>
      match serializeSt false mkCell vs with
      | (some c, post) => s!"ok {c.hashHex} {showStack post}"
      | (none, _) => "err"

/-- `vmdeser <dag> <node>` → `ok <stack>` | `err` : model of `VmStack.deserialize(cell.begin_parse())` -/
def handleDeser (dag node : String) : String :=
  match parseDag dag, node.toNat? with
  | some ctx, some ni =>
    match (ctx[ni]?).join with
    | none => "err"
    | some c =>
      match deserialize rview rord 100000000 c with
      | some vs => "ok " ++ showStack vs
      | none => "err"
  | _, _ => "bad-op"

/-- `vmrt <dag|-> <stack>` → `ok <stack>` : model deserialize (serialize stack) -/
def handleRt (dag st : String) : String :=
  match parseDag dag with
  | none => "bad-op"
  | some ctx =>
    match parseStack ctx st with
    | none => "bad-op"
    | some vs =>
      match serialize mkCell vs with
      | none => "err"
      | some c =>
        match deserialize rview rord 100000000 c with
        | some ws => "ok " ++ showStack ws
        | none => "err"

def handle? (op : String) (args : List String) : Option String :=
  match op, args with
  | "vmser", [d, s] => some (handleSer d s)
  | "vmdeser", [d, n] => some (handleDeser d n)
  | "vmrt", [d, s] => some (handleRt d s)
  | _, _ => none
end VmStack

end TonVerif.Drv
