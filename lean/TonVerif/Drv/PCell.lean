/- driver helper shared by Drv/Proof.lean and Drv/Boc.lean: evaluate a DAG line into constructed-cell objects -/
import TonVerif.Drv.Cell
import TonVerif.Model.PCell

namespace TonVerif.Drv
open TonVerif TonVerif.Model

/-- evaluate a DAG into constructed-cell objects (shared), each node once -/
def evalPDag (nodes : List (Int × Bits × List Nat)) : Array (Option PCell) :=
  nodes.foldl (fun acc (kind, bits, refs) =>
    let kids : Option (List PCell) := refs.mapM (fun i => (acc[i]?).join)
    acc.push (kids.bind (fun ks => (construct sha kind bits (ks.map PCell.info)).map (fun i => PCell.mk i ks)))) #[]

end TonVerif.Drv
