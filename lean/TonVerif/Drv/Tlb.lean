/- driver ops for the TL-B spec codecs (C16): tlbgen, tlbdec, tlbtypes -/
import TonVerif.Drv.Cell
import TonVerif.Spec.Tlb.Block

namespace TonVerif.Drv
open TonVerif TonVerif.Tlb

def tlbTypes : List (String × Codec) := [
  ("MsgAddressExt", msgAddressExt), ("MsgAddressInt", msgAddressInt),
  ("CurrencyCollection", currencyCollection), ("ExtraCurrencyCollection", extraCurrencyCollection),
  ("CommonMsgInfo", commonMsgInfo), ("TickTock", tickTock), ("StateInit", stateInit), ("Message", message),
  ("AccountStatus", accountStatus), ("HashUpdate", hashUpdate), ("StorageUsed", storageUsed),
  ("StorageUsedShort", storageUsedShort), ("StorageInfo", storageInfo), ("AccountState", accountState),
  ("AccountStorage", accountStorage), ("Account", account), ("ShardAccount", shardAccount),
  ("DepthBalanceInfo", depthBalanceInfo), ("ShardAccounts", shardAccounts),
  ("AccStatusChange", accStatusChange), ("ComputeSkipReason", computeSkipReason),
  ("TrStoragePhase", trStoragePhase), ("TrCreditPhase", trCreditPhase), ("TrComputePhase", trComputePhase),
  ("TrActionPhase", trActionPhase), ("TrBouncePhase", trBouncePhase), ("SplitMergeInfo", splitMergeInfo),
  ("TransactionDescr", transactionDescr), ("Transaction", transaction), ("AccountBlock", accountBlock),
  ("ShardAccountBlocks", shardAccountBlocks),
  ("IntermediateAddress", intermediateAddress), ("MsgMetadata", msgMetadata), ("MsgEnvelope", msgEnvelope),
  ("InMsg", inMsg), ("ImportFees", importFees), ("OutMsg", outMsg), ("InMsgDescr", inMsgDescr),
  ("OutMsgDescr", outMsgDescr),
  ("ShardIdent", shardIdent), ("GlobalVersion", globalVersion), ("ExtBlkRef", extBlkRef),
  ("BlkMasterInfo", blkMasterInfo), ("BlkPrevInfo0", blkPrevInfo 0), ("BlkPrevInfo1", blkPrevInfo 1),
  ("BlockInfo", blockInfo), ("ValueFlow", valueFlow), ("FutureSplitMerge", futureSplitMerge),
  ("ShardDescr", shardDescr), ("ShardHashes", shardHashes),
  ("SigPubKey", sigPubKey), ("ValidatorDescr", validatorDescr), ("ValidatorSet", validatorSet),
  ("CatchainConfig", catchainConfig), ("ConsensusConfig", consensusConfig),
  ("ValidatorInfo", validatorInfo), ("KeyExtBlkRef", keyExtBlkRef), ("KeyMaxLt", keyMaxLt),
  ("OldMcBlocksInfo", oldMcBlocksInfo), ("Counters", counters), ("CreatorStats", creatorStats),
  ("BlockCreateStats", blockCreateStats), ("ConfigParams", configParams), ("McStateExtra", mcStateExtra),
  ("McBlockExtra", mcBlockExtra), ("ShardFees", shardFees), ("ShardStateUnsplit", shardStateUnsplit), ("ShardState", shardState), ("BlockExtra", blockExtra), ("Block", block),
  -- `^(Message Any)` as the parsers meet it (Message closes its cell, so it is exercised through a reference)
  ("MessageRef", ref message)]

def jsonStr (s : String) : String := "\"" ++ s ++ "\""

mutual
partial def showCellJ : Tlb.Cell → String
  | .mk e b r => "{\"$cell\":[" ++ (if e then "1" else "0") ++ "," ++ jsonStr (stringOfBits b) ++ ",["
      ++ ",".intercalate (r.map showCellJ) ++ "]]}"
partial def showVal : Val → String
  | .unit => "null"
  | .int i => toString i
  | .bool b => if b then "true" else "false"
  | .bits b => jsonStr (stringOfBits b)
  | .cell c => showCellJ c
  | .con n v => "{\"$\":" ++ jsonStr n ++ ",\"v\":" ++ showVal v ++ "}"
  | .record fs => "{" ++ ",".intercalate (fs.map (fun (n, v) => jsonStr n ++ ":" ++ showVal v)) ++ "}"
end

/-- post-order node list of a cell tree (DAG line syntax of Drv/Cell.lean); returns the index of the root -/
partial def flattenCell (c : Tlb.Cell) (acc : Array String) : Array String × Nat :=
  match c with
  | .mk e b r =>
    let (acc, idxs) := r.foldl (fun (st : Array String × List Nat) k =>
      let (a, i) := flattenCell k st.1
      (a, st.2 ++ [i])) (acc, [])
    let kind := if e then "1" else "-1"
    let refs := if idxs.isEmpty then "-" else ".".intercalate (idxs.map toString)
    (acc.push s!"{kind},{showBits b},{refs}", acc.size)

def cellsOfDag (nodes : List (Int × Bits × List Nat)) : Array (Option Tlb.Cell) :=
  nodes.foldl (fun acc (kind, bits, refs) =>
    let kids : Option (List Tlb.Cell) := refs.mapM (fun i => (acc[i]?).join)
    acc.push (kids.map (fun ks => Tlb.Cell.mk (kind != -1) bits ks))) #[]

/-- a read trace as one token: `u64` `i8` `b256` `c1` `v4.12` (kind, width; VarUInteger: prefix width . total width),
    `(` `)` = enter / leave a reference, `r` = raw reference, `<name` `>` = field / constructor markers -/
def showEv : Ev → String
  | .rd k w => if k.startsWith "v" then s!"{k}.{w}" else s!"{k}{w}"
  | .enter => "("
  | .leave => ")"
  | .rawref => "r"
  | .push n => "<" ++ n
  | .pop => ">"

def showTrace (t : List Ev) : String := if t.isEmpty then "-" else ",".intercalate (t.map showEv)

/-- `v` encoded + random trailer, printed in the `tlbgen` answer format, followed by the read trace and the result of
    replaying the trace on the encoding (1 = consumes exactly the encoding; `c16_trace_accounts_for_encoding`) -/
def emitValue (c : Codec) (v : Val) (g1 : StdGen) : String × StdGen :=
    match c.enc v with
    | none => ("unenc " ++ showVal v, g1)
    | some f =>
      if f.bits.length > 1023 ∨ f.refs.length > 4 then ("unenc " ++ showVal v, g1) else
      -- field boundaries of the top-level cell: (bits, refs) consumed after each read of the value's own trace at depth 0
      let bounds : List (Nat × Nat) := ((c.trace v).foldl (fun (st : Nat × Nat × Nat × List (Nat × Nat)) ev =>
        let (depth, kb, kr, acc) := st
        match ev with
        | .rd _ w => if depth == 0 then (depth, kb + w, kr, (kb + w, kr) :: acc) else st
        | .enter => if depth == 0 then (1, kb, kr + 1, acc) else (depth + 1, kb, kr, acc)
        | .leave => (depth - 1, kb, kr, acc)
        | .rawref => if depth == 0 then (depth, kb, kr + 1, (kb, kr + 1) :: acc) else st
        | _ => st) (0, 0, 0, [])).2.2.2
      let ((tb, tr), g2) := (do
        let nb ← gNat 0 (min 19 (1023 - f.bits.length))
        let tb ← gBits nb
        let nr ← gNat 0 (min 2 (4 - f.refs.length))
        -- a trailing reference is either a small unrelated cell or (every other time) a cell holding a SUFFIX of the encoding cut at a
        -- field boundary - trailing data that is itself a well-formed piece of the type (an inline dictionary, a nested record), which a
        -- parser that probes the next reference speculatively would mistake for part of the value
        let tr ← (List.range nr).mapM (fun i => do
          let pick ← gNat 0 (2 * bounds.length + 1)
          match bounds[pick]? with
          | some (kb, kr) => pure (Tlb.Cell.mk false (f.bits.drop kb) (f.refs.drop kr))
          | none => pure (Tlb.Cell.mk false (natToBits 9 (300 + i)) []))
        pure (tb, tr) : Gen (Bits × List Tlb.Cell)).run g1
      let top := Tlb.Cell.mk false (f.bits ++ tb) (f.refs ++ tr)
      let (nodes, _) := flattenCell top #[]
      let rt := match c.dec ⟨f.bits ++ tb, f.refs ++ tr⟩ with
        | some (v', k) => showVal v' == showVal v && k.bits == tb && k.refs.length == tr.length
        | none => false
      let t := c.trace v
      let rp := match replay t [⟨f.bits ++ tb, f.refs ++ tr⟩] with
        | some [k] => k.bits == tb && k.refs.length == tr.length
        | _ => false
      (s!"ok {showVal v} {"|".intercalate nodes.toList} {showBits tb} {tr.length} {if rt then 1 else 0} {showTrace t} {if rp then 1 else 0}", g2)

/-- `tlbgent <Type> <seed>` : `tlbgen` (same value for the same seed) + read trace -/
def handleGenT (ty seedS : String) : String :=
  match tlbTypes.lookup ty, seedS.toNat? with
  | some c, some seed =>
    let (v, g1) := c.gen.run (mkStdGen seed)
    (emitValue c v g1).1
  | _, _ => "bad-op"

/-- `tlbpaths <Type> <seed> <cap> <mode>` → `ok <n> <more> ;<value 1>;<value 2>…` : one generated value per PATH of the
    schema term (mode `full`: all nested types enumerated; mode `loc`: nested named types sampled), at most `cap`;
    `more` = 1 when there are more than `cap` paths. Each value in the `tlbgent` answer format. -/
def handlePaths (ty seedS capS mode : String) : String :=
  match tlbTypes.lookup ty, seedS.toNat?, capS.toNat? with
  | some c, some seed, some cap =>
    let m : PMode := { cap := cap + 1, loc := mode == "loc", nested := false }
    let (vs, g1) := (c.paths m).run (mkStdGen seed)
    let more := vs.length > cap
    let vs := vs.take cap
    let (outs, _) := vs.foldl (fun (st : List String × StdGen) v =>
      let (s, g) := emitValue c v st.2
      (s :: st.1, g)) ([], g1)
    s!"ok {vs.length} {if more then 1 else 0} ;" ++ ";".intercalate outs.reverse
  | _, _, _ => "bad-op"

/-- `tlbtrace <Type> <dag> <node>` → `ok <value json> <remaining bits> <remaining refs> <trace>` : the spec decoder's value of
    a cell and the read trace of that value -/
def handleTrace (ty dag node : String) : String :=
  match tlbTypes.lookup ty, (dag.splitOn "|").mapM parseNode, node.toNat? with
  | some c, some nodes, some ni =>
    match ((cellsOfDag nodes)[ni]?).join with
    | none => "err"
    | some cell =>
      match c.dec ⟨cell.bits, cell.refs⟩ with
      | some (v, k) => s!"ok {showVal v} {showBits k.bits} {k.refs.length} {showTrace (c.trace v)}"
      | none => "err"
  | _, _, _ => "bad-op"

/-- `tlbgen <Type> <seed>` → `ok <value json> <dag> <trailer bits> <trailer refs>` : a generated value, the cell
    holding its spec encoding followed by a known trailer (root = last node), or `unenc <value json>` -/
def handleGen (ty seedS : String) : String :=
  match tlbTypes.lookup ty, seedS.toNat? with
  | some c, some seed =>
    let g0 := mkStdGen seed
    let (v, g1) := c.gen.run g0
    match c.enc v with
    | none => "unenc " ++ showVal v
    | some f =>
      if f.bits.length > 1023 ∨ f.refs.length > 4 then "unenc " ++ showVal v else
      let ((tb, tr), _) := (do
        let nb ← gNat 0 (min 19 (1023 - f.bits.length))
        let tb ← gBits nb
        let nr ← gNat 0 (min 2 (4 - f.refs.length))
        let tr := (List.range nr).map (fun i => Tlb.Cell.mk false (natToBits 9 (300 + i)) [])
        pure (tb, tr) : Gen (Bits × List Tlb.Cell)).run g1
      let top := Tlb.Cell.mk false (f.bits ++ tb) (f.refs ++ tr)
      let (nodes, _) := flattenCell top #[]
      -- spec decoder on its own encoding (sanity of the executable spec; the theorem says this always holds)
      let rt := match c.dec ⟨f.bits ++ tb, f.refs ++ tr⟩ with
        | some (v', k) => showVal v' == showVal v && k.bits == tb && k.refs.length == tr.length
        | none => false
      s!"ok {showVal v} {"|".intercalate nodes.toList} {showBits tb} {tr.length} {if rt then 1 else 0}"
  | _, _ => "bad-op"

/-- `tlbdec <Type> <dag> <node>` → `ok <value json> <remaining bits> <remaining refs>` | `err` -/
def handleDec (ty dag node : String) : String :=
  match tlbTypes.lookup ty, (dag.splitOn "|").mapM parseNode, node.toNat? with
  | some c, some nodes, some ni =>
    match ((cellsOfDag nodes)[ni]?).join with
    | none => "err"
    | some cell =>
      match c.dec ⟨cell.bits, cell.refs⟩ with
      | some (v, k) => s!"ok {showVal v} {showBits k.bits} {k.refs.length}"
      | none => "err"
  | _, _, _ => "bad-op"

namespace Tlb
def handle? (op : String) (args : List String) : Option String :=
  match op, args with
  | "tlbgen", [ty, seed] => some (handleGen ty seed)
  | "tlbgent", [ty, seed] => some (handleGenT ty seed)
  | "tlbpaths", [ty, seed, cap, mode] => some (handlePaths ty seed cap mode)
  | "tlbtrace", [ty, dag, node] => some (handleTrace ty dag node)
  | "tlbdec", [ty, dag, node] => some (handleDec ty dag node)
  | "tlbtypes", [] => some ("ok " ++ " ".intercalate (tlbTypes.map (·.1)))
  | _, _ => none
end Tlb

end TonVerif.Drv
