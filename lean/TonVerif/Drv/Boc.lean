/- driver ops for the BoC emitter model and the strict reader spec:
   bocemit <dag> <root> <opts>     -> ok <hex>            (opts = 3 chars idx,crc,cache e.g. 110; optional 4th arg flags)
   bocemitall <dag> <root>         -> ok <hex> x6         (the six valid option sets 000 010 100 110 101 111)
   bocemitord <dag> <i.j.k...>     -> ok <hex> x6         (cells in the given order of node indices, root first)
   bocorder <dag> <root>           -> ok <hash.hash...>   (the model of Cell.order)
   bocstrict <hex>                 -> ok <roots> <rec|rec|...>   rec = d1,bits,refs,hash     | err
   bocflat <hex>                   -> same without the semantic layer (hash = -)
   bocinput <hex of the ASCII text> -> ok <hex>           (Boc.__init__ on a str: fromhex, else base64)
   DAG syntax as in celldag (child-before-parent). -/
import TonVerif.Drv.Cell
import TonVerif.Model.BocEmit
import TonVerif.Spec.Boc
import TonVerif.Model.BocForms
import TonVerif.Drv.PCell

namespace TonVerif.Drv
open TonVerif TonVerif.Model

def parseOpts (s : String) (flags : Nat) : Option Opts :=
  match s.toList with
  | [a, b, c] =>
    if (a == '0' || a == '1') && (b == '0' || b == '1') && (c == '0' || c == '1') then
      some { hasIdx := a == '1', hasCrc := b == '1', hasCache := c == '1', flags := flags }
    else none
  | _ => none

def withRoot (dag root : String) (f : Nat → PCell → String) : String :=
  match (dag.splitOn "|").mapM parseNode, root.toNat? with
  | some nodes, some ri =>
    match (evalPDag nodes)[ri]? with
    | some (some p) => f nodes.length p
    | _ => "err"
  | _, _ => "bad-op"

def handleEmit (dag root opts : String) (flags : Nat) : String :=
  match parseOpts opts flags with
  | none => "bad-op"
  | some o => withRoot dag root (fun n p => optHex (p.toBoc (6 * n + 2) o))

def allOpts : List Opts := [⟨false, false, false, 0⟩, ⟨false, true, false, 0⟩, ⟨true, false, false, 0⟩,
  ⟨true, true, false, 0⟩, ⟨true, false, true, 0⟩, ⟨true, true, true, 0⟩]

/-- the six valid option sets in the order of harness/gen/bocdags.py OPTS; the cells are ordered once -/
def handleEmitAll (dag root : String) : String :=
  withRoot dag root (fun n p =>
    match p.order (6 * n + 2) with
    | none => "err"
    | some cells =>
      match flattenCells (indexMap cells) cells with
      | none => "err"
      | some recs => "ok " ++ " ".intercalate (allOpts.map (fun o => match emit recs o with | some b => hexOfBytes b | none => "x")))

/-- emit with a GIVEN order of the cells (node indices of the DAG line, root first): the six valid option sets.
Used by the correspondence when the library's traversal order differs from the model's: any valid order conforms
(`c04_conforms_any_order`), so only the byte layout for that order is compared. -/
def handleEmitOrd (dag order : String) : String :=
  match (dag.splitOn "|").mapM parseNode, parseNatList order with
  | some nodes, some idxs =>
    let arr := evalPDag nodes
    match idxs.mapM (fun i => (arr[i]?).join) with
    | none => "err"
    | some cells =>
      match flattenCells (indexMap cells) cells with
      | none => "err"
      | some recs => "ok " ++ " ".intercalate (allOpts.map (fun o => match emit recs o with | some b => hexOfBytes b | none => "x"))
  | _, _ => "bad-op"

def handleOrder (dag root : String) : String :=
  withRoot dag root (fun n p =>
    match p.order (6 * n + 2) with
    | some cs => "ok " ++ ".".intercalate (cs.map (fun c => hexOfBytes c.info.hash))
    | none => "err")

def showNats (xs : List Nat) : String := if xs.isEmpty then "-" else ".".intercalate (xs.map toString)

def handleStrict (hex : String) : String :=
  match hexArg hex with
  | none => "bad-op"
  | some bs =>
    match Spec.Boc.strictRun sha bs with
    | none => "err"
    | some p =>
      let n := p.flat.recs.length
      let recs := p.flat.recs.zipIdx.map (fun (ri : Spec.Boc.SRec × Nat) =>
        let h := match p.vals[n - 1 - ri.2]? with | some v => hexOfBytes v.1.hash | none => "x"
        s!"{ri.1.d1},{showBits ri.1.bits},{showNats ri.1.refs},{h}")
      s!"ok {showNats p.flat.roots} " ++ "|".intercalate recs

def handleFlat (hex : String) : String :=
  match hexArg hex with
  | none => "bad-op"
  | some bs =>
    match Spec.Boc.strictFlat bs with
    | none => "err"
    | some f =>
      let recs := f.recs.map (fun r => s!"{r.d1},{showBits r.bits},{showNats r.refs},-")
      s!"ok {showNats f.roots} " ++ "|".intercalate recs

/-- `Boc(data).data` for a `str` argument given as the hex of its ASCII bytes -/
def handleInput (hex : String) : String :=
  match hexArg hex with
  | none => "bad-op"
  | some codes => optHex (Model.BocForms.inputBytes (.inr (codes.map Char.ofNat)))

namespace Boc
def handle? (op : String) (args : List String) : Option String :=
  match op, args with
  | "bocemit", [d, r, o] => some (handleEmit d r o 0)
  | "bocemit", [d, r, o, f] => some (match f.toNat? with | some fl => handleEmit d r o fl | none => "bad-op")
  | "bocemitall", [d, r] => some (handleEmitAll d r)
  | "bocemitord", [d, o] => some (handleEmitOrd d o)
  | "bocorder", [d, r] => some (handleOrder d r)
  | "bocstrict", [h] => some (handleStrict h)
  | "bocflat", [h] => some (handleFlat h)
  | "bocinput", [h] => some (handleInput h)
  | _, _ => none
end Boc

end TonVerif.Drv
