/- driver ops for the BoC parser model and the spec encoder: bocparse, bocparsestr, bocencode -/
import Std.Data.HashMap
import TonVerif.Drv.Common
import TonVerif.Drv.Cell
import TonVerif.Model.BocParse
import TonVerif.Spec.BocEncode

namespace TonVerif.Drv
open TonVerif TonVerif.Model

namespace BocParse

/-- `Cell(bits, refs, type)` on evaluated cells (node-array evaluation: children are shared values). -/
def mkR (bits : Bits) (refs : List RCell) (ty : Int) : Option RCell :=
  (construct sha ty bits (refs.map RCell.info)).map (fun i => RCell.mk i bits refs)

structure CanonSt where
  idx : Std.HashMap (List Nat) Nat := {}
  out : Array String := #[]

/-- canonical listing of what is reachable from the roots: depth first, children left to right, every distinct
cell (by hash) once, numbered in post-order; line = `type,bits,children`. -/
partial def canonVisit (c : RCell) (st : CanonSt) : CanonSt × Nat :=
  match st.idx[c.info.hash]? with
  | some k => (st, k)
  | none =>
    let (st, ks) := c.refs.foldl (fun (acc : CanonSt × Array Nat) r =>
      let (s, k) := canonVisit r acc.1
      (s, acc.2.push k)) (st, #[])
    let k := st.out.size
    let kids := if ks.isEmpty then "-" else ".".intercalate (ks.toList.map toString)
    let line := s!"{c.info.kind},{showBits c.bits},{kids}"
    ({ idx := st.idx.insert c.info.hash k, out := st.out.push line }, k)

def dashJoin (sep : String) (xs : List String) : String := if xs.isEmpty then "-" else sep.intercalate xs

def canon (roots : List RCell) : String :=
  let (st, ks) := roots.foldl (fun (acc : CanonSt × Array Nat) r =>
    let (s, k) := canonVisit r acc.1
    (s, acc.2.push k)) (({} : CanonSt), #[])
  dashJoin "." (roots.map RCell.hashHex) ++ ";" ++ dashJoin "." (ks.toList.map toString) ++ ";" ++ dashJoin "|" st.out.toList

def showParse : Option (List RCell) → String
  | some roots => "ok " ++ canon roots
  | none => "err"

def parseBool (s : String) : Option Bool := if s == "1" then some true else if s == "0" then some false else none

def parseBools (s : String) : Option (List Bool) := if s == "-" then some [] else bitsOfString? s

open Spec.BocEncode in
/-- `magic,size,off,idx,crc,cache,storeHashes,cacheFlags` e.g. `g,2,3,1,1,0,0101,-` -/
def parseFreedoms (s : String) : Option Freedoms :=
  match s.splitOn "," with
  | [m, size, off, idx, crc, cache, store, cflags] => do
    let magic ← (if m == "g" then some Magic.generic else if m == "i" then some Magic.idx
                 else if m == "c" then some Magic.idxCrc else none)
    pure { magic := magic, size := ← size.toNat?, offBytes := ← off.toNat?, hasIdx := ← parseBool idx,
           hasCrc := ← parseBool crc, hasCacheBits := ← parseBool cache,
           storeHashes := ← parseBools store, cacheFlags := ← parseBools cflags }
  | _ => none

/-- significant levels of a mask: 0 and every l with bit l-1 set. -/
def sigLevels (mask : Nat) : List Nat := (List.range 4).filter (fun l => isSignificant mask l)

open Spec.BocEncode in
/-- the listing handed to the spec encoder: node `order[p]` sits at position `p`. -/
def listing (nodes : List (Int × Bits × List Nat)) (cells : Array (Option RCell)) (order : List Nat) : Option (List SCell) :=
  order.mapM fun id => do
    let (kind, bits, refs) ← nodes[id]?
    let rc ← (cells[id]?).join
    let rpos ← refs.mapM (fun r => let p := order.idxOf r; if p < order.length then some p else none)
    let info := rc.info
    let lv := sigLevels info.mask
    pure { kind := kind, bits := bits, refs := rpos, mask := info.mask,
           hashes := lv.map (fun l => (info.getHash l).getD []), depths := lv.map (fun l => (info.getDepth l).getD 0) }

open Spec.BocEncode in
def handleEncode (dag order roots fr : String) : String :=
  match (dag.splitOn "|").mapM parseNode, parseNatList order, parseNatList roots, parseFreedoms fr with
  | some nodes, some order, some roots, some fr =>
    let cells := evalRDag nodes
    match listing nodes cells order, roots.mapM (fun r => let p := order.idxOf r; if p < order.length then some p else none) with
    | some cs, some rs => "ok " ++ dashHex (encodeWith fr cs rs)
    | _, _ => "err"
  | _, _, _, _ => "bad-op"

def handle? (op : String) (args : List String) : Option String :=
  match op, args with
  | "bocparse", [d] => some (match hexArg d with
      | some bs => showParse (Model.BocParse.deserialize mkR bs)
      | none => "bad-op")
  | "bocparsestr", [s] => some (showParse ((Model.BocParse.bocInit (.str s)).bind (Model.BocParse.deserialize mkR)))
  | "bocencode", [dag, order, roots, fr] => some (handleEncode dag order roots fr)
  | _, _ => none

end BocParse

end TonVerif.Drv
