/- driver ops: crc16, crc32c, sha256 -/
import TonVerif.Drv.Common
import TonVerif.Model.Crc

namespace TonVerif.Drv
open TonVerif

namespace Crc
def handle? (op : String) (args : List String) : Option String :=
  match op, args with
  | "crc16", [d] => some (match hexArg d with
      | some bs => optHex (Model.crc16 bs)
      | none => "bad-op")
  | "crc32c", [d, big] => some (match hexArg d with
      | some bs => optHex (Model.crc32c bs (big == "1"))
      | none => "bad-op")
  | "sha256", [d] => some (match hexArg d with
      | some bs => "ok " ++ hexOfBytes (sha bs)
      | none => "bad-op")
  | _, _ => none
end Crc

end TonVerif.Drv
