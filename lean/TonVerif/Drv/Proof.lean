/- driver ops for the Merkle-proof checks (Model/Proof.lean, Model/Locate.lean): chkproof, chkhdr, chkacct, locacct.
DAG syntax as for `celldag` (Drv/Cell.lean); cells are evaluated once each into `PCell`s.
`chkacct <dag> <roots> <blk hash> <addr> <state idx> [<badAcc> <badMc>]`: the last two arguments are `.`-separated representation
hashes of the cells on which the library's `Account.deserialize` / `McStateExtra.deserialize` raise (the two sub-parsers the model
keeps abstract, `Opaque`); omitted = both always return.  `locacct <dag> <state idx> <addr> <badAcc> <badMc>` answers
`<hash of locateAccount's result | x> <hash of lookupShardAccount's result | x>`. -/
import TonVerif.Drv.Common
import TonVerif.Drv.Cell
import TonVerif.Model.Proof
import TonVerif.Drv.PCell

namespace TonVerif.Drv
open TonVerif TonVerif.Model

def parsePDag (arg : String) : Option (Array (Option PCell)) :=
  ((arg.splitOn "|").mapM parseNode).map evalPDag

def accRej (b : Bool) : String := if b then "acc" else "rej"

/-- `.`-separated list of hex strings, `-` = empty -/
def parseHexList (s : String) : Option (List Bytes) :=
  if s == "-" then some [] else (s.splitOn ".").mapM bytesOfHex?

/-- the verdicts of the two unmodelled sub-parsers, as observed on the library by the harness: the representation
hashes of the cells on which `Account.deserialize` / `McStateExtra.deserialize` raise -/
def opaqueOf (badAcc badMc : List Bytes) : Opaque where
  account c := !badAcc.contains c.info.hash
  mcExtra c := !badMc.contains c.info.hash

def chkAcct (d roots bh key st badAcc badMc : String) : String :=
  match parsePDag d, parseNatList roots, hexArg bh, hexArg key, st.toNat?, parseHexList badAcc, parseHexList badMc with
  | some cells, some rs, some bhb, some kb, some si, some ba, some bm =>
    match rs.mapM (fun i => (cells[i]?).join), (cells[si]?).join with
    | some rcs, some sc => accRej (checkAccountProof (opaqueOf ba bm) rcs bhb kb sc)
    | _, _ => "rej"
  | _, _, _, _, _, _, _ => "bad-op"

namespace Proof
def handle? (op : String) (args : List String) : Option String :=
  match op, args with
  | "chkproof", [d, idx, h] => some <|
    match parsePDag d, idx.toNat?, hexArg h with
    | some cells, some i, some hb =>
      match (cells[i]?).join with
      | some c => accRej (checkProof c hb)
      | none => "rej"
    | _, _, _ => "bad-op"
  | "chkhdr", [d, idx, h] => some <|
    match parsePDag d, idx.toNat?, hexArg h with
    | some cells, some i, some hb =>
      match (cells[i]?).join with
      | some c =>
        if checkBlockHeaderProof c hb then
          match checkBlockHeaderProofState c hb with
          | some s => "acc " ++ dashHex s
          | none => "acc x"
        else "rej"
      | none => "rej"
    | _, _, _ => "bad-op"
  | "chkacct", [d, roots, bh, key, st] => some (chkAcct d roots bh key st "-" "-")
  | "chkacct", [d, roots, bh, key, st, badAcc, badMc] => some (chkAcct d roots bh key st badAcc badMc)
  | "locacct", [d, idx, key, badAcc, badMc] => some <|
    -- `locateAccount` alone and the lookup-only walk `lookupShardAccount` on the same state cell: "<hash|x> <hash|x>"
    match parsePDag d, idx.toNat?, hexArg key, parseHexList badAcc, parseHexList badMc with
    | some cells, some i, some kb, some ba, some bm =>
      match (cells[i]?).join with
      | some c =>
        let sh (o : Option PCell) := match o with | some a => hexOfBytes a.info.hash | none => "x"
        sh (locateAccount (opaqueOf ba bm) c kb) ++ " " ++ sh (lookupShardAccount pcellView c (bytesToBits kb))
      | none => "x x"
    | _, _, _, _, _ => "bad-op"
  | _, _ => none
end Proof

end TonVerif.Drv
