/- driver ops for the Merkle-proof checks (Model/Proof.lean): chkproof, chkhdr, chkacct.
DAG syntax as for `celldag` (Drv/Cell.lean); cells are evaluated once each into `PCell`s. -/
import TonVerif.Drv.Common
import TonVerif.Drv.Cell
import TonVerif.Model.Proof
import TonVerif.Drv.PCell

namespace TonVerif.Drv
open TonVerif TonVerif.Model

def parsePDag (arg : String) : Option (Array (Option PCell)) :=
  ((arg.splitOn "|").mapM parseNode).map evalPDag

def accRej (b : Bool) : String := if b then "acc" else "rej"

namespace Proof
def handle? (op : String) (args : List String) : Option String :=
  match op, args with
  | "chkproof", [d, idx, h] => some <|
    match parsePDag d, idx.toNat?, hexArg h with
    | some cells, some i, some hb =>
      match (cells[i]?).join with
      | some c => accRej (checkProof c hb)
      | none => "rej"
    | _, _, _ => "bad-op"
  | "chkhdr", [d, idx, h] => some <|
    match parsePDag d, idx.toNat?, hexArg h with
    | some cells, some i, some hb =>
      match (cells[i]?).join with
      | some c =>
        if checkBlockHeaderProof c hb then
          match checkBlockHeaderProofState c hb with
          | some s => "acc " ++ dashHex s
          | none => "acc x"
        else "rej"
      | none => "rej"
    | _, _, _ => "bad-op"
  | "chkacct", [d, roots, bh, key, st] => some <|
    match parsePDag d, parseNatList roots, hexArg bh, hexArg key, st.toNat? with
    | some cells, some rs, some bhb, some kb, some si =>
      match rs.mapM (fun i => (cells[i]?).join), (cells[si]?).join with
      | some rcs, some sc => accRej (checkAccountProof locateAccount rcs bhb kb sc)
      | _, _ => "rej"
    | _, _, _, _, _ => "bad-op"
  | _, _ => none
end Proof

end TonVerif.Drv
