/- driver ops for the regenerated parsers of tlb/transaction.py (C16 source tie, second part): tlbsrctx, tlbsrctxchk -/
import TonVerif.Drv.Tlb
import TonVerif.Generated.TlbParsersTx
import TonVerif.Spec.Tlb.PyViewTx

namespace TonVerif.Drv
open TonVerif TonVerif.Tlb

/-- class name ↦ (spec codec, declared view, nesting budget handed to the reader, the type closes its cell);
    the classes with a `c16_src_*` theorem of the second part -/
def srcTxViews : List (String × Codec × (Val → Val) × Nat × Bool) := [
  ("ExtraCurrencyCollection", extraCurrencyCollection, Tx.view_ExtraCurrencyCollection, 0, false),
  ("CurrencyCollection", currencyCollection, Tx.view_CurrencyCollection, 0, false),
  ("TrActionPhase", trActionPhase, view_TrActionPhase, 0, false),
  ("TrCreditPhase", trCreditPhase, Tx.view_TrCreditPhase, 0, false),
  ("ImportFees", importFees, Tx.view_ImportFees, 0, false),
  ("InternalMsgInfo", ctag (tag 1 0) Tx.intMsgInfo, Tx.view_InternalMsgInfo, 0, false),
  ("ExternalMsgInfo", ctag (tag 2 2) Tx.extInMsgInfo, Tx.view_ExternalMsgInfo, 0, false),
  ("ExternalOutMsgInfo", ctag (tag 2 3) Tx.extOutMsgInfo, Tx.view_ExternalOutMsgInfo, 0, false),
  ("CommonMsgInfo", commonMsgInfo, Tx.view_CommonMsgInfo, 0, false),
  ("MessageAny", message, Tx.view_Message, 0, true),
  ("MsgMetadata", msgMetadata, Tx.view_MsgMetadata, 0, false),
  ("MsgEnvelope", msgEnvelope, Tx.view_MsgEnvelope, 0, false),
  ("TransactionOrdinary", Tx.transOrd, Tx.view_TransactionOrdinary, 0, false),
  ("TransactionStorage", Tx.transStorage, Tx.view_TransactionStorage, 0, false),
  ("TransactionTickTock", Tx.transTickTock, Tx.view_TransactionTickTock, 0, false),
  ("TransactionSplitPrepare", Tx.transSplitPrepare, Tx.view_TransactionSplitPrepare, 0, false),
  ("TransactionMergePrepare", Tx.transMergePrepare, Tx.view_TransactionMergePrepare, 0, false),
  ("TransactionSplitInstall", Tx.transSplitInstall (transactionF 2), Tx.view_TransactionSplitInstall (Tx.view_Transaction 2), 2, false),
  ("TransactionMergeInstall", Tx.transMergeInstall (transactionF 2), Tx.view_TransactionMergeInstall (Tx.view_Transaction 2), 2, false),
  ("TransactionDescr", transactionDescr, Tx.view_TransactionDescr (Tx.view_Transaction 2), 2, false),
  ("Transaction", transaction, Tx.view_Transaction 3, 3, false),
  ("InMsg", inMsg, Tx.view_InMsg (Tx.view_Transaction 3), 3, false),
  ("OutMsg", outMsg, Tx.view_OutMsg (Tx.view_Transaction 3), 3, false)]

/-- `tlbsrctx <Class> <dag> <node>` → `ok <value json> <remaining bits> <remaining refs>` | `none` :
    the regenerated reader of the class (nesting budget 8) run on that cell -/
def handleSrcTx (cls dag node : String) : String :=
  match SrcTx.readers.lookup cls, (dag.splitOn "|").mapM parseNode, node.toNat? with
  | some r, some nodes, some ni =>
    match ((cellsOfDag nodes)[ni]?).join with
    | none => "err"
    | some cell =>
      match r 8 cell.exotic ⟨cell.bits, cell.refs⟩ with
      | some (v, k) => s!"ok {showVal v} {showBits k.bits} {k.refs.length}"
      | none => "none"
  | _, _, _ => "bad-op"

/-- `tlbsrctxchk <Class> <seed>` → `<0|1> <tlbgen answer>` : a generated value of the class's type, spec-encoded with a
    trailer (none for a type that closes its cell); 1 = the regenerated reader (with the budget of the theorem) returns the
    declared view of the value and leaves exactly the trailer (what `c16_src_<Class>` proves for every value), 0 = it does not -/
def handleSrcTxChk (cls seedS : String) : String :=
  match srcTxViews.lookup cls, SrcTx.readers.lookup cls, seedS.toNat? with
  | some (c, w, budget, closes), some r, some seed =>
    let (v, g1) := c.gen.run (mkStdGen seed)
    match c.enc v with
    | none => "unenc"
    | some f =>
      if f.bits.length > 1023 ∨ f.refs.length > 4 then "unenc" else
      let ((tb, tr), _) := (do
        if closes then return ([], [])
        let nb ← gNat 0 (min 19 (1023 - f.bits.length))
        let tb ← gBits nb
        let nr ← gNat 0 (min 2 (4 - f.refs.length))
        let tr := (List.range nr).map (fun i => Tlb.Cell.mk false (natToBits 9 (300 + i)) [])
        pure (tb, tr) : Gen (Bits × List Tlb.Cell)).run g1
      let top := Tlb.Cell.mk false (f.bits ++ tb) (f.refs ++ tr)
      let (nodes, _) := flattenCell top #[]
      let good := match r budget false ⟨f.bits ++ tb, f.refs ++ tr⟩ with
        | some (pv, k) => showVal pv == showVal (w v) && (closes || (k.bits == tb && k.refs.length == tr.length))
        | none => false
      s!"{if good then 1 else 0} ok {showVal v} {"|".intercalate nodes.toList} {showBits tb} {tr.length} 1"
  | _, _, _ => "bad-op"

namespace TlbSrcTx
def handle? (op : String) (args : List String) : Option String :=
  match op, args with
  | "tlbsrctx", [cls, dag, node] => some (handleSrcTx cls dag node)
  | "tlbsrctxchk", [cls, seed] => some (handleSrcTxChk cls seed)
  | _, _ => none
end TlbSrcTx

end TonVerif.Drv
