/- driver op for the heap model (C08): `heap <op;op;...>` replays a history and prints after every step
   the result, the object table entries that are new or changed (which containers each object's
   `.bits` / `.refs` point to = the alias graph) and every container whose content is new or changed. -/
import TonVerif.Drv.Common
import TonVerif.Model.Heap

namespace TonVerif.Drv
open TonVerif TonVerif.Model TonVerif.Model.Heap

namespace Heap

def parseIds (s : String) : Option (List Nat) := parseNatList s

def parseOp (tok : String) : Option Op :=
  match tok.splitOn ":" with
  | ["nb", bs] => do pure (.newBits (← parseBits bs))
  | ["nr", cs] => do pure (.newRefs (← parseIds cs))
  | ["ct", ub, ur, k] => do pure (.cellCtor (← ub.toNat?) (← ur.toNat?) (← k.toInt?))
  | ["cf", bs, cs, k] => do pure (.cellFresh (← parseBits bs) (← parseIds cs) (← k.toInt?))
  | ["sf", bs, cs, k] => do pure (.sliceFresh (← parseBits bs) (← parseIds cs) (← k.toInt?))
  | ["bn"] => some .builderNew
  | ["dv", src, d] => do
      let dst ← (if d == "c" then some Kind.cell else if d == "s" then some Kind.slice else if d == "b" then some Kind.builder else none)
      pure (.derive (← src.toNat?) dst)
  | ["db", s, n, r] => do pure (.dropBits (← s.toNat?) (← n.toNat?) (r == "1"))
  | ["pb", s, n] => do pure (.peekBits (← s.toNat?) (← n.toNat?))
  | ["lr", s] => do pure (.loadRef (← s.toNat?))
  | ["sb", b, bs] => do pure (.storeBits (← b.toNat?) (← parseBits bs))
  | ["st", b, src] => do pure (.storeFrom (← b.toNat?) (← src.toNat?))
  | ["sr", b, c] => do pure (.storeRef (← b.toNat?) (← c.toNat?))
  | ["ob", c] => do pure (.observe (← c.toNat?))
  | _ => none

def showOut : Out → String
  | .err => "x"
  | .unit => "u"
  | .obj i => s!"o{i}"
  | .bits bs => s!"b{showBits bs}"
  | .hash h => s!"h{hexOfBytes h}"

def tagChar : Tag → String
  | .cell => "c" | .slice => "s" | .builder => "b" | .ubits => "ub" | .urefs => "ur"

def showObj (i : Nat) (o : ObjRec) : String :=
  let b := if o.tag.hasBits then toString o.bitsId else "-"
  let r := if o.tag.hasRefs then toString o.refsId else "-"
  let h := if o.tag = .cell then hexOfBytes o.info.hash else "-"
  s!"{i}:{tagChar o.tag}:{b}:{r}:{o.off}:{o.kind}:{h}"

def sameObj (a b : ObjRec) : Bool :=
  a.tag == b.tag && a.bitsId == b.bitsId && a.refsId == b.refsId && a.off == b.off && a.kind == b.kind && a.info.hash == b.info.hash

def showIds (l : List Nat) : String := if l.isEmpty then "-" else ".".intercalate (l.map toString)

/-- what changed between two states -/
def delta (σ σ' : State) : String :=
  let objs := (List.range σ'.nObj).filterMap fun i =>
    if i ≥ σ.nObj || !sameObj (σ.obj i) (σ'.obj i) then some (showObj i (σ'.obj i)) else none
  let bs := (List.range σ'.nBit).filterMap fun i =>
    if i ≥ σ.nBit || σ.bitBuf i != σ'.bitBuf i then some s!"B{i}={showBits (σ'.bitBuf i)}" else none
  let rs := (List.range σ'.nRef).filterMap fun i =>
    if i ≥ σ.nRef || σ.refBuf i != σ'.refBuf i then some s!"R{i}={showIds (σ'.refBuf i)}" else none
  let j (l : List String) := if l.isEmpty then "-" else ",".intercalate l
  s!"{j objs} {j (bs ++ rs)}"

def replay (ops : List Op) : String :=
  let rec go (σ : State) (ops : List Op) (acc : List String) : List String :=
    match ops with
    | [] => acc.reverse
    | op :: rest =>
      let (σ', out) := step sha σ op
      go σ' rest (s!"{showOut out} {delta σ σ'}" :: acc)
  "|".intercalate (go Heap.init ops [])

def handle? (op : String) (args : List String) : Option String :=
  match op, args with
  | "heap", [ops] =>
    some (match (ops.splitOn ";").mapM parseOp with
      | none => "bad-op"
      | some l => "ok " ++ replay l)
  | _, _ => none

end Heap
end TonVerif.Drv
