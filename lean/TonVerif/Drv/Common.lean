/-
Shared helpers of the line-protocol driver (see Driver.lean).
Each model area has a file `TonVerif/Drv/<Area>.lean` exporting
  `def handle? (op : String) (args : List String) : Option String`
(`none` = op not mine); Driver.lean tries the areas in order.
-/
import TonVerif.Basic
import TonVerif.Sha256

namespace TonVerif.Drv
open TonVerif

def hexArg (s : String) : Option Bytes := if s == "-" then some [] else bytesOfHex? s

def dashHex (bs : Bytes) : String := if bs.isEmpty then "-" else hexOfBytes bs

def optHex : Option Bytes → String
  | some bs => "ok " ++ dashHex bs
  | none => "err"

def sha := Sha256.sha256

def parseBits (s : String) : Option Bits := if s == "-" then some [] else bitsOfString? s

def parseNatList (s : String) (sep : String := ".") : Option (List Nat) :=
  if s == "-" then some [] else (s.splitOn sep).mapM String.toNat?

def showBits (b : Bits) : String := if b.isEmpty then "-" else stringOfBits b

end TonVerif.Drv
