/- driver ops for the regenerated parsers of tlb/account.py / block.py / config.py (C16 source tie, third part): tlbsrcblk, tlbsrcblkchk -/
import TonVerif.Drv.Tlb
import TonVerif.Generated.TlbParsersBlk
import TonVerif.Spec.Tlb.PyViewBlk

namespace TonVerif.Drv
open TonVerif TonVerif.Tlb

/-- class name ↦ (regenerated reader, spec codec, declared view); the classes with a `c16_src_*` theorem of the third part
    (`ConsensusConfig`, `BlockInfo`: readers of the first generated file) -/
def srcBlkViews : List (String × (Bool → Frag → Rd.R) × Codec × (Val → Val)) := [
  ("ConsensusConfig", Src.ConsensusConfig, consensusConfig, Blk.view_ConsensusConfig),
  ("BlockInfo", Src.BlockInfo, blockInfo, Blk.view_BlockInfo),
  ("DepthBalanceInfo", SrcBlk.DepthBalanceInfo, depthBalanceInfo, Blk.view_DepthBalanceInfo),
  ("ValueFlow", SrcBlk.ValueFlow, valueFlow, Blk.view_ValueFlow),
  ("ShardDescr", SrcBlk.ShardDescr, shardDescr, Blk.view_ShardDescr),
  ("AccountStorage", SrcBlk.AccountStorage, accountStorage, Blk.view_AccountStorage),
  ("Account", SrcBlk.Account, account, Blk.view_Account),
  ("ShardAccount", SrcBlk.ShardAccount, shardAccount, Blk.view_ShardAccount),
  ("ValidatorSet", SrcBlk.ValidatorSet, validatorSet, Blk.view_ValidatorSet),
  ("ShardAccounts", SrcBlk.ShardAccounts, shardAccounts, Blk.view_ShardAccounts),
  ("OldMcBlocksInfo", SrcBlk.OldMcBlocksInfo, oldMcBlocksInfo, Blk.view_OldMcBlocksInfo),
  ("BlockCreateStats", SrcBlk.BlockCreateStats, blockCreateStats, Blk.view_BlockCreateStats),
  ("ConfigParams", SrcBlk.ConfigParams, configParams, Blk.view_ConfigParams),
  ("McStateExtra", SrcBlk.McStateExtra, mcStateExtra, Blk.view_McStateExtra),
  ("ShardStateUnsplit", SrcBlk.ShardStateUnsplit, shardStateUnsplit, Blk.view_ShardStateUnsplit),
  ("McBlockExtra", SrcBlk.McBlockExtra, mcBlockExtra, Blk.view_McBlockExtra),
  ("ShardState", SrcBlk.ShardState, shardState, Blk.view_ShardState),
  ("AccountBlock", SrcBlk.AccountBlock, accountBlock, Blk.view_AccountBlock),
  ("BlockExtra", SrcBlk.BlockExtra, blockExtra, Blk.view_BlockExtra),
  ("Block", SrcBlk.Block, block, Blk.view_Block)]

/-- `tlbsrcblk <Class> <dag> <node>` → `ok <value json> <remaining bits> <remaining refs>` | `none` :
    the regenerated reader of the class run on that cell -/
def handleSrcBlk (cls dag node : String) : String :=
  match srcBlkViews.lookup cls, (dag.splitOn "|").mapM parseNode, node.toNat? with
  | some (r, _, _), some nodes, some ni =>
    match ((cellsOfDag nodes)[ni]?).join with
    | none => "err"
    | some cell =>
      match r cell.exotic ⟨cell.bits, cell.refs⟩ with
      | some (v, k) => s!"ok {showVal v} {showBits k.bits} {k.refs.length}"
      | none => "none"
  | _, _, _ => "bad-op"

/-- `tlbsrcblkchk <Class> <seed>` → `<0|1> <tlbgen answer>` : a generated value of the class's type, spec-encoded with a trailer;
    1 = the regenerated reader returns the declared view of the value and leaves exactly the trailer (what `c16_src_<Class>` proves
    for every value), 0 = it does not -/
def handleSrcBlkChk (cls seedS : String) : String :=
  match srcBlkViews.lookup cls, seedS.toNat? with
  | some (r, c, w), some seed =>
    let (v, g1) := c.gen.run (mkStdGen seed)
    match c.enc v with
    | none => "unenc"
    | some f =>
      if f.bits.length > 1023 ∨ f.refs.length > 4 then "unenc" else
      let ((tb, tr), _) := (do
        let nb ← gNat 0 (min 19 (1023 - f.bits.length))
        let tb ← gBits nb
        let nr ← gNat 0 (min 2 (4 - f.refs.length))
        let tr := (List.range nr).map (fun i => Tlb.Cell.mk false (natToBits 9 (300 + i)) [])
        pure (tb, tr) : Gen (Bits × List Tlb.Cell)).run g1
      let top := Tlb.Cell.mk false (f.bits ++ tb) (f.refs ++ tr)
      let (nodes, _) := flattenCell top #[]
      let good := match r false ⟨f.bits ++ tb, f.refs ++ tr⟩ with
        | some (pv, k) => showVal pv == showVal (w v) && k.bits == tb && k.refs.length == tr.length
        | none => false
      s!"{if good then 1 else 0} ok {showVal v} {"|".intercalate nodes.toList} {showBits tb} {tr.length} 1"
  | _, _ => "bad-op"

namespace TlbSrcBlk
def handle? (op : String) (args : List String) : Option String :=
  match op, args with
  | "tlbsrcblk", [cls, dag, node] => some (handleSrcBlk cls dag node)
  | "tlbsrcblkchk", [cls, seed] => some (handleSrcBlkChk cls seed)
  | _, _ => none
end TlbSrcBlk

end TonVerif.Drv
