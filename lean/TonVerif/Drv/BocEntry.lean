/- driver op for the `one_from_boc` entry-point model (Model/BocEntry.lean), on shared evaluated cells:
   bocone <cell|slice|builder> <b|s> <hex>     b: <hex> = the bytes argument; s: <hex> = the ASCII codes of the str argument
     cell    -> ok <canonical listing of the root (as bocparse)> | err
     slice   -> ok <data bits>;<hashes of the remaining references> | err
     builder -> ok <data bits>;<hashes of the references> | err -/
import TonVerif.Drv.BocParse
import TonVerif.Model.BocEntry

namespace TonVerif.Drv
open TonVerif TonVerif.Model

namespace BocEntry

def input (form hex : String) : Option Model.BocEntry.Input :=
  match form, hexArg hex with
  | "b", some bs => some (.inl bs)
  | "s", some codes => some (.inr (codes.map Char.ofNat))
  | _, _ => none

def handle? (op : String) (args : List String) : Option String :=
  match op, args with
  | "bocone", [entry, form, hex] => some (
      match input form hex with
      | none => "bad-op"
      | some inp =>
        if entry == "cell" then
          BocParse.showParse ((Model.BocEntry.cellOneG BocParse.mkR inp).map (fun c => [c]))
        else if entry == "slice" then
          match Model.BocEntry.sliceOneG BocParse.mkR (fun c => Model.BocEntry.beginParseG c.bits c.refs) inp with
          | some s => s!"ok {showBits s.bits};{showRefs s.refs}"
          | none => "err"
        else if entry == "builder" then
          match Model.BocEntry.builderOneG BocParse.mkR (fun c => Model.BocEntry.toBuilderG c.info.kind c.bits c.refs) inp with
          | some b => s!"ok {showBits b.bits};{showRefs b.refs}"
          | none => "err"
        else "bad-op")
  | _, _ => none

end BocEntry

end TonVerif.Drv
