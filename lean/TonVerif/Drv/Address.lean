/- driver ops: addrstr, addrrestr, addrparse, addrhash, addreq, addrcopy, b64enc, b64dec, b64decurl
   texts are passed as the hex of their ASCII bytes (`-` = empty); results that are texts are printed as such. -/
import TonVerif.Drv.Common
import TonVerif.Model.Address

namespace TonVerif.Drv
open TonVerif TonVerif.Model

namespace Address
open TonVerif.Model.Address

def textArg (s : String) : Option (List Char) :=
  match hexArg s with
  | some bs => if bs.all (· < 128) then some (bs.map Char.ofNat) else none
  | none => none

def showAddr (a : Addr) : String :=
  s!"ok {a.wc} {dashHex a.hash} {if a.bounceable then 1 else 0} {if a.testOnly then 1 else 0}"

def optText : Option (List Char) → String
  | some t => "ok " ++ String.ofList t
  | none => "err"

def flag (s : String) (i : Nat) : Bool := s.toList.getD i '0' == '1'

def handle? (op : String) (args : List String) : Option String :=
  match op, args with
  -- addrstr <wc> <hash hex> <flags: userFriendly urlSafe bounceable testOnly as 4 chars 0/1>
  | "addrstr", [wc, h, fl] => some (match wc.toInt?, hexArg h with
      | some w, some hp => optText (toStr (ofTuple w hp) (flag fl 0) (flag fl 1) (flag fl 2) (flag fl 3))
      | _, _ => "bad-op")
  | "addrparse", [t] => some (match textArg t with
      | some s => (match parse s with | some a => showAddr a | none => "err")
      | none => "bad-op")
  -- Address(text).to_str(flags): re-rendering an object that carries parsed flags (its own flags must not matter)
  | "addrrestr", [t, fl] => some (match textArg t with
      | some s => (match parse s with
          | some a => optText (toStr a (flag fl 0) (flag fl 1) (flag fl 2) (flag fl 3))
          | none => "err")
      | none => "bad-op")
  -- Address(Address(text)) : flags are dropped
  | "addrcopy", [t] => some (match textArg t with
      | some s => (match parse s with | some a => showAddr (ofAddr a) | none => "err")
      | none => "bad-op")
  | "addrhash", [wc, h] => some (match wc.toInt?, hexArg h with
      | some w, some hp => s!"ok {pyHash (ofTuple w hp)}"
      | _, _ => "bad-op")
  | "addreq", [wc1, h1, wc2, h2] => some (match wc1.toInt?, hexArg h1, wc2.toInt?, hexArg h2 with
      | some w1, some p1, some w2, some p2 => s!"ok {if eq (ofTuple w1 p1) (ofTuple w2 p2) then 1 else 0}"
      | _, _, _, _ => "bad-op")
  | "b64enc", [url, d] => some (match hexArg d with
      | some bs => "ok " ++ (let t := Base64.encode (url == "1") bs; if t.isEmpty then "-" else String.ofList t)
      | none => "bad-op")
  | "b64dec", [url, t] => some (match textArg t with
      | some s => optHex (if url == "1" then Base64.decodeUrlsafe s else Base64.decode s)
      | none => "bad-op")
  | _, _ => none
end Address

end TonVerif.Drv
