/- driver ops for the message model/spec (C15):
   msgser <dag|-> <msg>            model `MessageAny.serialize`        -> ok <hash> <bits> <ref hashes> | err
   msgenc <dag|-> <msg> <ib>       spec encoder, i/b = Either choices   -> ok <hash> <bits> <ref hashes> | err
   msgdec <dag> <node>             spec decoder `decodeMessage`         -> ok <canonical msg> | err
   msgpar <dag> <node>             model `MessageAny.deserialize`       -> ok <canonical msg> | err
   siser/sienc, sidec/sipar ; ccser/ccenc, ccdec/ccpar : same for StateInit / CurrencyCollection
   wser <dag|-> <wrapper>  ;  wpar <dag> <node> <kind>                   HashUpdate, wallet data, NFT item data
   msg  := <info>/<init>/<body node>
   info := I;a;b;c;<addr>;<addr>;grams;<dict node|->;ihr;fwd;lt;at | X;<addr>;<addr>;fee | O;<addr>;<addr>;lt;at
   init := - | <sd|->;<tt|->;<code|->;<data|->;<lib|->        (tt = two 0/1 chars)
   addr := n | e:len:val | s:wc:hash[:depth:pfx]
-/
import TonVerif.Drv.Builder
import TonVerif.Model.Message

namespace TonVerif.Drv
open TonVerif TonVerif.Model TonVerif.Spec.Tlb

def rops : CellOps RCell := ⟨mkCell, fun c => (c.bits, c.refs)⟩

namespace Msg

abbrev Ctx := Array (Option RCell)

def node (ctx : Ctx) (s : String) : Option RCell := s.toNat?.bind (fun i => (ctx[i]?).join)

def optNode (ctx : Ctx) (s : String) : Option (Option RCell) :=
  if s == "-" then some none else (node ctx s).map some

def pAddr (s : String) : Option Addr := parseAddr (s.splitOn ":")

def pBool (s : String) : Option Bool := if s == "1" then some true else if s == "0" then some false else none

def pInfo (ctx : Ctx) (s : String) : Option (Info RCell) :=
  match s.splitOn ";" with
  | ["I", a, b, c, src, dest, g, d, ihr, fwd, lt, at_] => do
    pure (Info.int (← pBool a) (← pBool b) (← pBool c) (← pAddr src) (← pAddr dest) ⟨← g.toInt?, ← optNode ctx d⟩
      (← ihr.toInt?) (← fwd.toInt?) (← lt.toInt?) (← at_.toInt?))
  | ["X", src, dest, fee] => do pure (Info.extIn (← pAddr src) (← pAddr dest) (← fee.toInt?))
  | ["O", src, dest, lt, at_] => do pure (Info.extOut (← pAddr src) (← pAddr dest) (← lt.toInt?) (← at_.toInt?))
  | _ => none

def pStateInit (ctx : Ctx) (s : String) : Option (StateInit RCell) :=
  match s.splitOn ";" with
  | [sd, tt, code, data, lib] => do
    let sd' ← (if sd == "-" then some none else sd.toInt?.map some)
    let tt' ← (if tt == "-" then some none else
      match tt.toList with
      | [x, y] => some (some (⟨x == '1', y == '1'⟩ : TickTock))
      | _ => none)
    pure ⟨sd', tt', ← optNode ctx code, ← optNode ctx data, ← optNode ctx lib⟩
  | _ => none

def pMsg (ctx : Ctx) (s : String) : Option (Msg RCell) :=
  match s.splitOn "/" with
  | [i, ini, body] => do
    let info ← pInfo ctx i
    let init ← (if ini == "-" then some none else (pStateInit ctx ini).map some)
    let b ← node ctx body
    pure ⟨info, init, (b.bits, b.refs)⟩
  | _ => none

def b01 (b : Bool) : String := if b then "1" else "0"
def optHash (o : Option RCell) : String := match o with | some c => c.hashHex | none => "-"

def showCurrency (c : Currency RCell) : String := s!"{c.grams};{optHash c.other}"

def showInfo : Info RCell → String
  | .int a b c src dest v ihr fwd lt at_ =>
    s!"I;{b01 a};{b01 b};{b01 c};{showAddr src};{showAddr dest};{showCurrency v};{ihr};{fwd};{lt};{at_}"
  | .extIn src dest fee => s!"X;{showAddr src};{showAddr dest};{fee}"
  | .extOut src dest lt at_ => s!"O;{showAddr src};{showAddr dest};{lt};{at_}"

def showStateInit (s : StateInit RCell) : String :=
  let sd := match s.splitDepth with | some d => toString d | none => "-"
  let tt := match s.special with | some t => b01 t.tick ++ b01 t.tock | none => "-"
  s!"{sd};{tt};{optHash s.code};{optHash s.data};{optHash s.library}"

def showMsg (m : Msg RCell) : String :=
  let ini := match m.init with | some s => showStateInit s | none => "-"
  s!"{showInfo m.info}/{ini}/{showBits m.body.1};{showRefs m.body.2}"

def showCell (o : Option RCell) : String :=
  match o with
  | some c => s!"ok {c.hashHex} {showBits c.bits} {showRefs c.refs}"
  | none => "err"

def withDag (dag : String) (f : Ctx → Option String) : String :=
  let nodes? := if dag == "-" then some [] else (dag.splitOn "|").mapM parseNode
  match nodes? with
  | none => "bad-op"
  | some nodes => (f (evalRDag nodes)).getD "bad-op"

def choices (s : String) : Option (Bool × Bool) :=
  match s.toList with
  | [x, y] => some (x == '1', y == '1')
  | _ => none

def showOpt {α} (f : α → String) (o : Option α) : String := match o with | some a => "ok " ++ f a | none => "err"

/-- wrappers -/
def wser (ctx : Ctx) (s : String) : Option String :=
  let run (op : BOp RCell) : String := showCell (Message.cellOf rops op)
  match s.splitOn ";" with
  | ["hu", o, n] => do pure (run (Message.hashUpdateB (← hexArg o) (← hexArg n)))
  | ["v3", sq, w, pk] => do pure (run (Message.walletV3B (← sq.toInt?) (← w.toInt?) (← hexArg pk)))
  | ["v4", sq, w, pk, p] => do pure (run (Message.walletV4B (← sq.toInt?) (← w.toInt?) (← hexArg pk) (← optNode ctx p)))
  | ["hl", w, lc, pk] => do pure (run (Message.highloadB (← w.toInt?) (← lc.toInt?) (← hexArg pk)))
  | ["nft", i, c, o, r] => do pure (run (Message.nftItemB (← i.toInt?) (← pAddr c) (← pAddr o) (← node ctx r)))
  | _ => none

def wpar (c : RCell) (kind : String) : Option String :=
  let s : Slice RCell := ⟨c.bits, c.refs⟩
  match kind with
  | "hu" => some (showOpt (fun (p : Bytes × Bytes) => s!"{dashHex p.1};{dashHex p.2}") (Message.loadHashUpdate s).2)
  | "v3" => some (showOpt (fun (p : Int × Int × Bytes) => s!"{p.1};{p.2.1};{dashHex p.2.2}") (Message.loadWalletV3 s).2)
  | "v4" => some (showOpt (fun (p : Int × Int × Bytes × Option RCell) => s!"{p.1};{p.2.1};{dashHex p.2.2.1};{optHash p.2.2.2}") (Message.loadWalletV4 s).2)
  | "nft" => some (showOpt (fun (p : Int × Addr × Addr × RCell) => s!"{p.1};{showAddr p.2.1};{showAddr p.2.2.1};{p.2.2.2.hashHex}") (Message.loadNftItem s).2)
  | _ => none

def handle? (op : String) (args : List String) : Option String :=
  match op, args with
  | "msgser", [dag, m] => some (withDag dag fun ctx => do pure (showCell (Message.serialize rops (← pMsg ctx m))))
  | "msgenc", [dag, m, ch] => some (withDag dag fun ctx => do
      let (i, b) ← choices ch
      pure (showCell (encMessage rops (← pMsg ctx m) i b)))
  | "msgdec", [dag, n] => some (withDag dag fun ctx => do pure (showOpt showMsg (decodeMessage rops (← node ctx n))))
  | "msgpar", [dag, n] => some (withDag dag fun ctx => do pure (showOpt showMsg (Message.deserialize rops (← node ctx n))))
  | "siser", [dag, s] => some (withDag dag fun ctx => do pure (showCell (Message.serializeStateInit rops (← pStateInit ctx s))))
  | "sienc", [dag, s] => some (withDag dag fun ctx => do pure (showCell ((encStateInit (← pStateInit ctx s)).bind (mkChunk rops))))
  | "sidec", [dag, n] => some (withDag dag fun ctx => do pure (showOpt showStateInit (decodeStateInit rops (← node ctx n))))
  | "sipar", [dag, n] => some (withDag dag fun ctx => do pure (showOpt showStateInit (Message.deserializeStateInit rops (← node ctx n))))
  | "ccser", [dag, g, d] => some (withDag dag fun ctx => do
      pure (showCell (Message.serializeCurrency rops ⟨← g.toInt?, ← optNode ctx d⟩)))
  | "ccenc", [dag, g, d] => some (withDag dag fun ctx => do
      pure (showCell ((encCurrency (⟨← g.toInt?, ← optNode ctx d⟩ : Currency RCell)).bind (mkChunk rops))))
  | "ccdec", [dag, n] => some (withDag dag fun ctx => do pure (showOpt showCurrency (decodeCurrency rops (← node ctx n))))
  | "ccpar", [dag, n] => some (withDag dag fun ctx => do pure (showOpt showCurrency (Message.deserializeCurrency rops (← node ctx n))))
  | "wser", [dag, w] => some (withDag dag fun ctx => wser ctx w)
  | "wpar", [dag, n, k] => some (withDag dag fun ctx => do wpar (← node ctx n) k)
  | _, _ => none

end Msg
end TonVerif.Drv
