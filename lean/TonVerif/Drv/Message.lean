/- driver ops for the message model/spec (C15):
   msgser <dag|-> <msg>            model `MessageAny.serialize`        -> ok <hash> <bits> <ref hashes> | err
   msgenc <dag|-> <msg> <ib>       spec encoder, i/b = Either choices   -> ok <hash> <bits> <ref hashes> | err
   msgdec <dag> <node>             spec decoder `decodeMessage`         -> ok <canonical msg> | err
   msgdecs <dag> <node>            strict reader `decodeMessageStrict` (address classes of `Message X` proper)
   msgpar <dag> <node>             model `MessageAny.deserialize`       -> ok <canonical msg> | err
   siser/sienc, sidec/sipar ; ccser/ccenc, ccdec/ccpar : same for StateInit / CurrencyCollection
   wser/wenc <dag|-> <wrapper>  ;  wdec/wpar <dag> <node> <kind>        HashUpdate, wallet data, NFT item / sale data
   wmser <dag> <mode> <msg> ; wmenc <dag> <mode> <msg> <ib>              WalletMessage (wdec/wpar kind `wm`)
   msg  := <info>/<init>/<body node>
   info := I;a;b;c;<addr>;<addr>;grams;<dict node|->;ihr;fwd;lt;at | X;<addr>;<addr>;fee | O;<addr>;<addr>;lt;at
   init := - | <sd|->;<tt|->;<code|->;<data|->;<lib|->        (tt = two 0/1 chars)
   addr := n | e:len:val | s:wc:hash[:depth:pfx]
-/
import TonVerif.Drv.Builder
import TonVerif.Model.Wrappers

namespace TonVerif.Drv
open TonVerif TonVerif.Model TonVerif.Spec.Tlb

def rops : CellOps RCell := ⟨mkCell, fun c => (c.bits, c.refs)⟩

namespace Msg

abbrev Ctx := Array (Option RCell)

def node (ctx : Ctx) (s : String) : Option RCell := s.toNat?.bind (fun i => (ctx[i]?).join)

def optNode (ctx : Ctx) (s : String) : Option (Option RCell) :=
  if s == "-" then some none else (node ctx s).map some

def pAddr (s : String) : Option Addr := parseAddr (s.splitOn ":")

def pBool (s : String) : Option Bool := if s == "1" then some true else if s == "0" then some false else none

def pInfo (ctx : Ctx) (s : String) : Option (Info RCell) :=
  match s.splitOn ";" with
  | ["I", a, b, c, src, dest, g, d, ihr, fwd, lt, at_] => do
    pure (Info.int (← pBool a) (← pBool b) (← pBool c) (← pAddr src) (← pAddr dest) ⟨← g.toInt?, ← optNode ctx d⟩
      (← ihr.toInt?) (← fwd.toInt?) (← lt.toInt?) (← at_.toInt?))
  | ["X", src, dest, fee] => do pure (Info.extIn (← pAddr src) (← pAddr dest) (← fee.toInt?))
  | ["O", src, dest, lt, at_] => do pure (Info.extOut (← pAddr src) (← pAddr dest) (← lt.toInt?) (← at_.toInt?))
  | _ => none

def pStateInit (ctx : Ctx) (s : String) : Option (StateInit RCell) :=
  match s.splitOn ";" with
  | [sd, tt, code, data, lib] => do
    let sd' ← (if sd == "-" then some none else sd.toInt?.map some)
    let tt' ← (if tt == "-" then some none else
      match tt.toList with
      | [x, y] => some (some (⟨x == '1', y == '1'⟩ : TickTock))
      | _ => none)
    pure ⟨sd', tt', ← optNode ctx code, ← optNode ctx data, ← optNode ctx lib⟩
  | _ => none

def pMsg (ctx : Ctx) (s : String) : Option (Msg RCell) :=
  match s.splitOn "/" with
  | [i, ini, body] => do
    let info ← pInfo ctx i
    let init ← (if ini == "-" then some none else (pStateInit ctx ini).map some)
    let b ← node ctx body
    pure ⟨info, init, (b.bits, b.refs)⟩
  | _ => none

def b01 (b : Bool) : String := if b then "1" else "0"
def optHash (o : Option RCell) : String := match o with | some c => c.hashHex | none => "-"

def showCurrency (c : Currency RCell) : String := s!"{c.grams};{optHash c.other}"

def showInfo : Info RCell → String
  | .int a b c src dest v ihr fwd lt at_ =>
    s!"I;{b01 a};{b01 b};{b01 c};{showAddr src};{showAddr dest};{showCurrency v};{ihr};{fwd};{lt};{at_}"
  | .extIn src dest fee => s!"X;{showAddr src};{showAddr dest};{fee}"
  | .extOut src dest lt at_ => s!"O;{showAddr src};{showAddr dest};{lt};{at_}"

def showStateInit (s : StateInit RCell) : String :=
  let sd := match s.splitDepth with | some d => toString d | none => "-"
  let tt := match s.special with | some t => b01 t.tick ++ b01 t.tock | none => "-"
  s!"{sd};{tt};{optHash s.code};{optHash s.data};{optHash s.library}"

def showMsg (m : Msg RCell) : String :=
  let ini := match m.init with | some s => showStateInit s | none => "-"
  s!"{showInfo m.info}/{ini}/{showBits m.body.1};{showRefs m.body.2}"

def showCell (o : Option RCell) : String :=
  match o with
  | some c => s!"ok {c.hashHex} {showBits c.bits} {showRefs c.refs}"
  | none => "err"

def withDag (dag : String) (f : Ctx → Option String) : String :=
  let nodes? := if dag == "-" then some [] else (dag.splitOn "|").mapM parseNode
  match nodes? with
  | none => "bad-op"
  | some nodes => (f (evalRDag nodes)).getD "bad-op"

def choices (s : String) : Option (Bool × Bool) :=
  match s.toList with
  | [x, y] => some (x == '1', y == '1')
  | _ => none

def showOpt {α} (f : α → String) (o : Option α) : String := match o with | some a => "ok " ++ f a | none => "err"

/-! wrappers: `<w>` := hu;old;new | v3;seqno;wid;pk | v4;seqno;wid;pk;<plugins node|-> | hl;wid;last_cleaned;pk;<queries node|->
   | nft;index;<addr>;<addr>;<content node> | fees;<addr>;fee;<addr>;royalty
   | sale;<0|1>;created_at;<addr>;<addr>;<addr>;price;<addr>;fee;<addr>;royalty;<0|1>   (the last four before the flag = fees)
   the wallet message has its own ops (its message token contains `;`): wmser/wmenc <dag> <mode> <msg> [<ib>] -/

inductive Wr where
  | hu (h : HashUpd) | v3 (w : WalletV3) | v4 (w : WalletV4 RCell) | hl (w : Highload RCell)
  | nft (n : NftItem RCell) | fees (f : SaleFees) | sale (s : SaleData)

def pWr (ctx : Ctx) (s : String) : Option Wr :=
  match s.splitOn ";" with
  | ["hu", o, n] => do pure (.hu ⟨← hexArg o, ← hexArg n⟩)
  | ["v3", sq, w, pk] => do pure (.v3 ⟨← sq.toInt?, ← w.toInt?, ← hexArg pk⟩)
  | ["v4", sq, w, pk, p] => do pure (.v4 ⟨← sq.toInt?, ← w.toInt?, ← hexArg pk, ← optNode ctx p⟩)
  | ["hl", w, lc, pk, q] => do pure (.hl ⟨← w.toInt?, ← lc.toInt?, ← hexArg pk, ← optNode ctx q⟩)
  | ["nft", i, c, o, r] => do pure (.nft ⟨← i.toInt?, ← pAddr c, ← pAddr o, ← node ctx r⟩)
  | ["fees", a, f, b, r] => do pure (.fees ⟨← pAddr a, ← f.toInt?, ← pAddr b, ← r.toInt?⟩)
  | ["sale", c, t, m, n, o, p, a, f, b, r, e] => do
    pure (.sale ⟨← pBool c, ← t.toInt?, ← pAddr m, ← pAddr n, ← pAddr o, ← p.toInt?,
      ⟨← pAddr a, ← f.toInt?, ← pAddr b, ← r.toInt?⟩, ← pBool e⟩)
  | _ => none

def showFees (f : SaleFees) : String :=
  s!"{showAddr f.marketplaceFeeAddress};{f.marketplaceFee};{showAddr f.royaltyAddress};{f.royaltyAmount}"

def showHu (h : HashUpd) : String := s!"{dashHex h.oldHash};{dashHex h.newHash}"
def showV3 (w : WalletV3) : String := s!"{w.seqno};{w.walletId};{dashHex w.publicKey}"
def showV4 (w : WalletV4 RCell) : String := s!"{w.seqno};{w.walletId};{dashHex w.publicKey};{optHash w.plugins}"
def showHl (w : Highload RCell) : String := s!"{w.walletId};{w.lastCleaned};{dashHex w.publicKey};{optHash w.oldQueries}"
def showNft (n : NftItem RCell) : String := s!"{n.index};{showAddr n.collection};{showAddr n.owner};{n.content.hashHex}"
def showSale (s : SaleData) : String :=
  s!"{b01 s.isComplete};{s.createdAt};{showAddr s.marketplace};{showAddr s.nft};{showAddr s.nftOwner};{s.fullPrice};{showFees s.fees};{b01 s.canDeployByExternal}"
def showWm (w : WalletMsg RCell) : String := s!"{w.sendMode}~{showMsg w.message}"

/-- model `serialize` -/
def wser (ctx : Ctx) (s : String) : Option String := do
  let w ← pWr ctx s
  pure (showCell (match w with
    | .hu h => Message.serializeHashUpd rops h
    | .v3 w => Message.serializeWalletV3 rops w
    | .v4 w => Message.serializeWalletV4 rops w
    | .hl w => Message.serializeHighload rops w
    | .nft n => Message.serializeNftItem rops n
    | .fees f => Message.serializeSaleFees rops f
    | .sale s => Message.serializeSaleData rops s))

/-- spec encoder -/
def wenc (ctx : Ctx) (s : String) : Option String := do
  let w ← pWr ctx s
  pure (showCell (encCell rops (match w with
    | .hu h => encHashUpd h
    | .v3 w => encWalletV3 w
    | .v4 w => encWalletV4 w
    | .hl w => encHighload w
    | .nft n => encNftItem n
    | .fees f => encSaleFees f
    | .sale s => encSaleData rops s)))

/-- spec decoder -/
def wdec (c : RCell) (kind : String) : Option String :=
  match kind with
  | "hu" => some (showOpt showHu (decodeHashUpd rops c))
  | "v3" => some (showOpt showV3 (decodeWalletV3 rops c))
  | "v4" => some (showOpt showV4 (decodeWalletV4 rops c))
  | "hl" => some (showOpt showHl (decodeHighload rops c))
  | "nft" => some (showOpt showNft (decodeNftItem rops c))
  | "fees" => some (showOpt showFees (decodeSaleFees rops c))
  | "sale" => some (showOpt showSale (decodeSaleData rops c))
  | "wm" => some (showOpt showWm (decodeWalletMsg rops c))
  | _ => none

/-- model `deserialize` -/
def wpar (c : RCell) (kind : String) : Option String :=
  match kind with
  | "hu" => some (showOpt showHu (Message.deserializeHashUpd rops c))
  | "v3" => some (showOpt showV3 (Message.deserializeWalletV3 rops c))
  | "v4" => some (showOpt showV4 (Message.deserializeWalletV4 rops c))
  | "hl" => some (showOpt showHl (Message.deserializeHighload rops c))
  | "nft" => some (showOpt showNft (Message.deserializeNftItem rops c))
  | "fees" => some (showOpt showFees (Message.deserializeSaleFees rops c))
  | "sale" => some (showOpt showSale (Message.deserializeSaleData rops c))
  | "wm" => some (showOpt showWm (Message.deserializeWalletMsg rops c))
  | _ => none

def handle? (op : String) (args : List String) : Option String :=
  match op, args with
  | "msgser", [dag, m] => some (withDag dag fun ctx => do pure (showCell (Message.serialize rops (← pMsg ctx m))))
  | "msgenc", [dag, m, ch] => some (withDag dag fun ctx => do
      let (i, b) ← choices ch
      pure (showCell (encMessage rops (← pMsg ctx m) i b)))
  | "msgdec", [dag, n] => some (withDag dag fun ctx => do pure (showOpt showMsg (decodeMessage rops (← node ctx n))))
  | "msgdecs", [dag, n] => some (withDag dag fun ctx => do pure (showOpt showMsg (decodeMessageStrict rops (← node ctx n))))
  | "msgpar", [dag, n] => some (withDag dag fun ctx => do pure (showOpt showMsg (Message.deserialize rops (← node ctx n))))
  | "siser", [dag, s] => some (withDag dag fun ctx => do pure (showCell (Message.serializeStateInit rops (← pStateInit ctx s))))
  | "sienc", [dag, s] => some (withDag dag fun ctx => do pure (showCell ((encStateInit (← pStateInit ctx s)).bind (mkChunk rops))))
  | "sidec", [dag, n] => some (withDag dag fun ctx => do pure (showOpt showStateInit (decodeStateInit rops (← node ctx n))))
  | "sipar", [dag, n] => some (withDag dag fun ctx => do pure (showOpt showStateInit (Message.deserializeStateInit rops (← node ctx n))))
  | "ccser", [dag, g, d] => some (withDag dag fun ctx => do
      pure (showCell (Message.serializeCurrency rops ⟨← g.toInt?, ← optNode ctx d⟩)))
  | "ccenc", [dag, g, d] => some (withDag dag fun ctx => do
      pure (showCell ((encCurrency (⟨← g.toInt?, ← optNode ctx d⟩ : Currency RCell)).bind (mkChunk rops))))
  | "ccdec", [dag, n] => some (withDag dag fun ctx => do pure (showOpt showCurrency (decodeCurrency rops (← node ctx n))))
  | "ccpar", [dag, n] => some (withDag dag fun ctx => do pure (showOpt showCurrency (Message.deserializeCurrency rops (← node ctx n))))
  | "wser", [dag, w] => some (withDag dag fun ctx => wser ctx w)
  | "wenc", [dag, w] => some (withDag dag fun ctx => wenc ctx w)
  | "wdec", [dag, n, k] => some (withDag dag fun ctx => do wdec (← node ctx n) k)
  | "wpar", [dag, n, k] => some (withDag dag fun ctx => do wpar (← node ctx n) k)
  | "wmser", [dag, mode, m] => some (withDag dag fun ctx => do
      pure (showCell (Message.serializeWalletMsg rops ⟨← mode.toInt?, ← pMsg ctx m⟩)))
  | "wmenc", [dag, mode, m, ch] => some (withDag dag fun ctx => do
      let (i, b) ← choices ch
      pure (showCell (encCell rops (encWalletMsg rops ⟨← mode.toInt?, ← pMsg ctx m⟩ i b))))
  | _, _ => none

end Msg
end TonVerif.Drv
