/- driver ops for the cell model: celldag, specdag; evaluated cell values `RCell` shared with other areas -/
import TonVerif.Drv.Common
import TonVerif.Model.Cell
import TonVerif.Spec.Cell

namespace TonVerif.Drv
open TonVerif TonVerif.Model

/-- node syntax: `kind,bits,refs` e.g. `-1,0101,0.2` ; `-` for empty bits / no refs -/
def parseNode (s : String) : Option (Int × Bits × List Nat) :=
  match s.splitOn "," with
  | [k, b, r] => do
    let kind ← k.toInt?
    let bits ← parseBits b
    let refs ← parseNatList r
    pure (kind, bits, refs)
  | _ => none

/-- evaluate a DAG given child-before-parent; each node once. -/
def evalDag (nodes : List (Int × Bits × List Nat)) : Array (Option CellInfo) :=
  nodes.foldl (fun acc (kind, bits, refs) =>
    let kids : Option (List CellInfo) := refs.mapM (fun i => (acc[i]?).join)
    acc.push (kids.bind (fun ks => construct sha kind bits ks))) #[]

def showInfo (i : CellInfo) (kids : List CellInfo) : String :=
  let hs := (List.range 4).map (fun l => match i.getHash l with | some h => dashHex h | none => "x")
  let ds := (List.range 4).map (fun l => match i.getDepth l with | some d => toString d | none => "x")
  let rep := match representation i kids with | some r => hexOfBytes (sha r) | none => "x"
  s!"{i.mask}:{".".intercalate hs}:{".".intercalate ds}:{hexOfBytes i.hash}:{rep}:{i.pyHash}"

def handleDag (arg : String) : String :=
  match (arg.splitOn "|").mapM parseNode with
  | none => "bad-op"
  | some nodes =>
    let infos := evalDag nodes
    let outs := (List.range nodes.length).map (fun k =>
      match infos[k]?, nodes[k]? with
      | some (some i), some (_, _, refs) =>
        let kids := refs.filterMap (fun j => (infos[j]?).join)
        showInfo i kids
      | _, _ => "err")
    "ok " ++ "|".intercalate outs

def specKind (k : Int) : Option Spec.Kind :=
  if k = -1 then some .ordinary else if k = 1 then some .pruned else if k = 2 then some .library
  else if k = 3 then some .merkleProof else if k = 4 then some .merkleUpdate else none

/-- the SPEC (Spec/Cell.lean) evaluated on a DAG: `mask:h0.h1.h2.h3:d0.d1.d2.d3` per node -/
def handleSpecDag (arg : String) : String :=
  match (arg.splitOn "|").mapM parseNode with
  | none => "bad-op"
  | some nodes =>
    let infos : Array (Option Spec.SInfo) := nodes.foldl (fun acc (kind, bits, refs) =>
      let kids : Option (List Spec.SInfo) := refs.mapM (fun i => (acc[i]?).join)
      acc.push (do let ks ← kids; let k ← specKind kind; pure (Spec.node sha k bits ks))) #[]
    let outs := infos.toList.map (fun o => match o with
      | some s =>
        let hs := (List.range 4).map (fun l => dashHex (s.hashAt l))
        let ds := (List.range 4).map (fun l => toString (s.depthAt l))
        s!"{s.mask}:{".".intercalate hs}:{".".intercalate ds}"
      | none => "err")
    "ok " ++ "|".intercalate outs

/-- evaluated cell value used as reference type `R` of the builder/slice model -/
inductive RCell where
  | mk (info : CellInfo) (bits : Bits) (refs : List RCell)

def RCell.info : RCell → CellInfo | .mk i _ _ => i
def RCell.bits : RCell → Bits | .mk _ b _ => b
def RCell.refs : RCell → List RCell | .mk _ _ r => r
def RCell.hashHex (c : RCell) : String := hexOfBytes c.info.hash

/-- `Builder.end_cell` for ordinary cells -/
def mkCell (bits : Bits) (refs : List RCell) : Option RCell :=
  (construct sha (-1) bits (refs.map RCell.info)).map (fun i => RCell.mk i bits refs)

def evalRDag (nodes : List (Int × Bits × List Nat)) : Array (Option RCell) :=
  nodes.foldl (fun acc (kind, bits, refs) =>
    let kids : Option (List RCell) := refs.mapM (fun i => (acc[i]?).join)
    acc.push (kids.bind (fun ks => (construct sha kind bits (ks.map RCell.info)).map (fun i => RCell.mk i bits ks)))) #[]


def showRefs (rs : List RCell) : String := if rs.isEmpty then "-" else ".".intercalate (rs.map RCell.hashHex)

namespace Cell
def handle? (op : String) (args : List String) : Option String :=
  match op, args with
  | "celldag", [d] => some (handleDag d)
  | "specdag", [d] => some (handleSpecDag d)
  | _, _ => none
end Cell

end TonVerif.Drv
