/-
driver ops for C12 (block signature check) and C20 (ADNL channel structure).

  sigcheck <nodes> <sigs> <root> <file> <msg> <table>
      nodes : `-` | key:weight,key:weight,...          (hex keys, decimal weights; list order = Python list order)
      sigs  : `-` | nodeid:signature,...               (hex; order = Python list order)
      root, file : hex | `-`                           (BlockIdExt.root_hash / file_hash)
      msg   : hex — the payload over which the harness evaluated real Ed25519 verification
      table : `-` | key:signature,...                  (pairs that verify TRUE over `msg`)
    H is the executable SHA-256; `verify k m s := m == msg ∧ (k,s) ∈ table`, so the model has to build
    the right payload and look up the right key to get a `true`.
    answer: `ok 1` (returns) | `ok 0` (raises)

  adnl_chan <shared> <local_id> <peer_id>        -> ok <enc_key> <dec_key> <client_aes_key_id> <server_aes_key_id>
      AdnlChannel.__init__ with `dh` answering the given (real) shared secret, H = SHA-256
  adnl_packet <shared> <local_id> <peer_id> <m>  -> ok <key id ‖ checksum> <aes key> <iv>   | err
      AdnlChannel.encrypt with `ctr k iv d := k ‖ iv`: the packet head and the parameters of the cipher object
  adnl_dec <shared> <local_id> <peer_id> <sum>   -> ok <aes key> <iv> | err       (AdnlChannel.decrypt, same trick)
  adnl_cipher <key> <data>                       -> ok <aes key> <iv> | err       (create_aes_ctr_sipher_from_key_n_data)
  sign_slice <crypto_sign output>                -> ok <sign_message result>       (the [:64] slicing)
  rand_num <min> <max> <fuel> <urandom answers r,r,...>  -> ok <value> <urandom calls> | err   (get_secure_random_number)
  mn_valid <n words> <pbkdf2 output>             -> ok 0|1   mnemonic_is_valid with PBKDF2 answering the given bytes
  mn_new <words_count> <fuel> <urandom answers r,r,...> <valid candidates i.i.i;i.i.i…>
      -> ok <indices i.i.i> <urandom calls> | err
      mnemonic_new over the recorded os.urandom stream; a candidate is "basic seed" iff listed
-/
import TonVerif.Drv.Common
import TonVerif.Model.Sig
import TonVerif.Model.Adnl

namespace TonVerif.Drv
open TonVerif

namespace Sig
open TonVerif.Model.Sig

def splitList (s : String) : List String := if s == "-" then [] else s.splitOn ","

def pair? (s : String) : Option (String × String) :=
  match s.splitOn ":" with
  | [a, b] => some (a, b)
  | _ => none

def parseNodes (s : String) : Option (List Validator) :=
  (splitList s).mapM (fun e => do
    let (k, w) ← pair? e
    let key ← hexArg k
    let weight ← w.toNat?
    pure ⟨key, weight⟩)

def parseHexPairs (s : String) : Option (List (Bytes × Bytes)) :=
  (splitList s).mapM (fun e => do
    let (a, b) ← pair? e
    let x ← hexArg a
    let y ← hexArg b
    pure (x, y))

def handle? (op : String) (args : List String) : Option String :=
  match op, args with
  | "sigcheck", [nodes, sigs, root, file, msg, table] => some (
      match parseNodes nodes, parseHexPairs sigs, hexArg root, hexArg file, hexArg msg, parseHexPairs table with
      | some ns, some ss, some r, some f, some m, some t =>
        let verify : Bytes → Bytes → Bytes → Bool := fun k m' s => m' == m && t.contains (k, s)
        let res := checkBlockSignatures sha verify ns (ss.map (fun p => ⟨p.1, p.2⟩)) ⟨r, f⟩
        if res then "ok 1" else "ok 0"
      | _, _, _, _, _, _ => "bad-op")
  | _, _ => none
end Sig

namespace Adnl
open TonVerif.Model.Adnl

def prims (shared : Bytes) (pb : Bytes → Bytes) : Prims Nat where
  H := sha
  dh := fun _ _ => shared
  ctr := fun k iv _ => k ++ iv
  edToXPriv := id
  xPub := id
  edPub := id
  edToXPub := id
  keypair := fun s => (s, s)
  cryptoSign := fun m _ => m
  verify := fun _ _ _ => false
  hmac512 := fun key _ => key
  pbkdf2 := fun pw _ _ => pb pw
  joinWords := fun ws => ws

def chan (shared l p : Bytes) : Channel :=
  Channel.new (prims shared id) (Client.new (prims shared id) []) (Server.new (prims shared id) []) l p

def kiv (x : Option (Bytes × Bytes)) : String :=
  match x with
  | some (k, iv) => "ok " ++ dashHex k ++ " " ++ dashHex iv
  | none => "err"

def handle? (op : String) (args : List String) : Option String :=
  match op, args with
  | "adnl_chan", [sh, l, p] => some (
      match hexArg sh, hexArg l, hexArg p with
      | some sh, some l, some p =>
        let c := chan sh l p
        "ok " ++ dashHex c.encKey ++ " " ++ dashHex c.decKey ++ " " ++ hexOfBytes c.clientAesKeyId ++ " " ++ hexOfBytes c.serverAesKeyId
      | _, _, _ => "bad-op")
  | "adnl_packet", [sh, l, p, m] => some (
      match hexArg sh, hexArg l, hexArg p, hexArg m with
      | some sh, some l, some p, some m =>
        match (chan sh l p).encrypt (prims sh id) m with
        | some pkt => "ok " ++ hexOfBytes (pkt.take 64) ++ " " ++ hexOfBytes ((pkt.drop 64).take 32) ++ " " ++ hexOfBytes (pkt.drop 96)
        | none => "err"
      | _, _, _, _ => "bad-op")
  | "adnl_dec", [sh, l, p, sum] => some (
      match hexArg sh, hexArg l, hexArg p, hexArg sum with
      | some sh, some l, some p, some sum =>
        match (chan sh l p).decrypt (prims sh id) [] sum with
        | some kv => "ok " ++ hexOfBytes (kv.take 32) ++ " " ++ hexOfBytes (kv.drop 32)
        | none => "err"
      | _, _, _, _ => "bad-op")
  | "adnl_cipher", [k, d] => some (
      match hexArg k, hexArg d with
      | some k, some d => kiv (cipherParams k d)
      | _, _ => "bad-op")
  | "sign_slice", [signed] => some (
      match hexArg signed with
      | some sg => "ok " ++ dashHex (signMessage (prims [] id) sg [])
      | none => "bad-op")
  | "rand_num", [lo, hi, fuel, rnds] => some (
      match lo.toNat?, hi.toNat?, fuel.toNat?, (Sig.splitList rnds).mapM hexArg with
      | some lo, some hi, some fuel, some rs =>
        let arr := rs.toArray
        match secureRandomNumber (fun k => arr.getD k []) lo hi fuel 0 with
        | some (v, k) => "ok " ++ toString v ++ " " ++ toString k
        | none => "err"
      | _, _, _, _ => "bad-op")
  | "mn_valid", [n, out] => some (
      match n.toNat?, hexArg out with
      | some n, some out =>
        if mnemonicIsValid (prims [] (fun _ => out)) (List.replicate n 0) then "ok 1" else "ok 0"
      | _, _ => "bad-op")
  | "mn_new", [wc, fuel, rnds, valid] => some (
      match wc.toNat?, fuel.toNat?, (Sig.splitList rnds).mapM hexArg,
            (if valid == "-" then some [] else (valid.splitOn ";").mapM (fun c => parseNatList c)) with
      | some wc, some fuel, some rs, some vs =>
        let arr := rs.toArray
        let rnd : Nat → Bytes := fun k => arr.getD k []
        let P := prims [] (fun pw => if vs.contains pw then [0] else [1])
        match mnemonicNew P (List.range 2048) rnd wc 8 fuel 0 with
        | some (ws, k) => "ok " ++ (if ws.isEmpty then "-" else ".".intercalate (ws.map toString)) ++ " " ++ toString k
        | none => "err"
      | _, _, _, _ => "bad-op")
  | _, _ => none
end Adnl

end TonVerif.Drv
