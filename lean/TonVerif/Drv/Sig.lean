/-
driver ops for C12 (block signature check) and C20 (ADNL channel structure).

  sigcheck <nodes> <sigs> <root> <file> <msg> <table>
      nodes : `-` | key:weight,key:weight,...          (hex keys, decimal weights; list order = Python list order)
      sigs  : `-` | nodeid:signature,...               (hex; order = Python list order)
      root, file : hex | `-`                           (BlockIdExt.root_hash / file_hash)
      msg   : hex — the payload over which the harness evaluated real Ed25519 verification
      table : `-` | key:signature,...                  (pairs that verify TRUE over `msg`)
    H is the executable SHA-256; `verify k m s := m == msg ∧ (k,s) ∈ table`, so the model has to build
    the right payload and look up the right key to get a `true`.
    answer: `ok 1` (returns) | `ok 0` (raises)
-/
import TonVerif.Drv.Common
import TonVerif.Model.Sig

namespace TonVerif.Drv
open TonVerif

namespace Sig
open TonVerif.Model.Sig

def splitList (s : String) : List String := if s == "-" then [] else s.splitOn ","

def pair? (s : String) : Option (String × String) :=
  match s.splitOn ":" with
  | [a, b] => some (a, b)
  | _ => none

def parseNodes (s : String) : Option (List Validator) :=
  (splitList s).mapM (fun e => do
    let (k, w) ← pair? e
    let key ← hexArg k
    let weight ← w.toNat?
    pure ⟨key, weight⟩)

def parseHexPairs (s : String) : Option (List (Bytes × Bytes)) :=
  (splitList s).mapM (fun e => do
    let (a, b) ← pair? e
    let x ← hexArg a
    let y ← hexArg b
    pure (x, y))

def handle? (op : String) (args : List String) : Option String :=
  match op, args with
  | "sigcheck", [nodes, sigs, root, file, msg, table] => some (
      match parseNodes nodes, parseHexPairs sigs, hexArg root, hexArg file, hexArg msg, parseHexPairs table with
      | some ns, some ss, some r, some f, some m, some t =>
        let verify : Bytes → Bytes → Bytes → Bool := fun k m' s => m' == m && t.contains (k, s)
        let res := checkBlockSignatures sha verify ns (ss.map (fun p => ⟨p.1, p.2⟩)) ⟨r, f⟩
        if res then "ok 1" else "ok 0"
      | _, _, _, _, _, _ => "bad-op")
  | _, _ => none
end Sig

end TonVerif.Drv
