/- driver ops for the Builder/Slice model: bscript, sscript -/
import TonVerif.Drv.Cell
import TonVerif.Model.Builder

namespace TonVerif.Drv
open TonVerif TonVerif.Model

def parseAddr : List String → Option Addr
  | ["n"] => some Addr.none
  | ["e", l, v] => do pure (Addr.ext (← l.toNat?) (← v.toInt?))
  | ["s", wc, h] => do pure (Addr.std none (← wc.toInt?) (← hexArg h))
  | ["s", wc, h, d, p] => do pure (Addr.std (some (← d.toNat?, ← p.toInt?)) (← wc.toInt?) (← hexArg h))
  | _ => none

def showAddr : Addr → String
  | .none => "n"
  | .ext l v => s!"e:{l}:{v}"
  | .std none wc h => s!"s:{wc}:{dashHex h}"
  | .std (some (d, p)) wc h => s!"s:{wc}:{dashHex h}:{d}:{p}"

def bop (ctx : Array (Option RCell)) (tok : String) : Option (BOp RCell) :=
  let node (s : String) : Option RCell := s.toNat?.bind (fun i => (ctx[i]?).join)
  match tok.splitOn ":" with
  | ["u", v, n] => do pure (BOp.storeUint (← v.toInt?) (← n.toNat?))
  | ["i", v, n] => do pure (BOp.storeInt (← v.toInt?) (← n.toNat?))
  | ["vu", v, k] => do pure (BOp.storeVarUint (← v.toInt?) (← k.toNat?))
  | ["vi", v, k] => do pure (BOp.storeVarInt (← v.toInt?) (← k.toNat?))
  | ["c", v] => do pure (BOp.storeCoins (← v.toInt?))
  | ["b", bs] => do pure (BOp.storeBits (← parseBits bs))
  | ["by", h] => do pure (BOp.storeBytes (← hexArg h))
  | ["bit", b] => some (BOp.storeBit (b == "1"))
  | ["r", n] => do pure (BOp.storeRef (← node n))
  | ["mr", n] => if n == "-" then some (BOp.storeMaybeRef none) else do pure (BOp.storeMaybeRef (some (← node n)))
  | ["cell", n] => do let c ← node n; pure (BOp.storeCell c.bits c.refs)
  | ["sl", n, sb, sr] => do
      let c ← node n
      pure (BOp.storeSlice (c.bits.drop (← sb.toNat?)) (c.refs.drop (← sr.toNat?)))
  | "a" :: rest => do pure (BOp.storeAddress (← parseAddr rest))
  | ["sn", h] => do pure (BOp.storeSnake mkCell (← hexArg h))
  | ["d", n] => if n == "-" then some (BOp.storeDict none) else do pure (BOp.storeDict (some (← node n)))
  | ["s", h] => do pure (BOp.storeString (← hexArg h))
  | ["sns", h, p] => do pure (BOp.storeSnakeString mkCell (← hexArg h) (p == "1"))
  -- an interim `end_cell()` whose result is dropped: the builder is unchanged (it raises iff the cell cannot be built)
  | ["ec"] => some (fun b => (b, (mkCell b.bits b.refs).isSome))
  | _ => none

/-- `bscript <dag|-> <ops;...>` → `ok <flags> <bits> <refs> <endcell hash|err>` -/
def handleBScript (dag ops : String) : String :=
  let nodes? := if dag == "-" then some [] else (dag.splitOn "|").mapM parseNode
  match nodes? with
  | none => "bad-op"
  | some nodes =>
    let ctx := evalRDag nodes
    let toks := if ops == "-" then [] else ops.splitOn ";"
    match toks.mapM (bop ctx) with
    | none => "bad-op"
    | some fs =>
      let (b, flags) := fs.foldl (fun (acc : Builder RCell × String) f =>
        let r := f acc.1
        (r.1, acc.2 ++ (if r.2 then "1" else "0"))) (Builder.empty, "")
      let fin := match mkCell b.bits b.refs with | some c => c.hashHex | none => "err"
      s!"ok {if flags.isEmpty then "-" else flags} {showBits b.bits} {showRefs b.refs} {fin}"

def sop (tok : String) (s : Slice RCell) : Option (Slice RCell × String) :=
  let fin {α} (r : Slice RCell × Option α) (f : α → String) : Option (Slice RCell × String) :=
    some (r.1, match r.2 with | some a => f a | none => "x")
  let showInt (i : Int) : String := toString i
  let showOptRef (o : Option RCell) : String := match o with | some c => c.hashHex | none => "none"
  match tok.splitOn ":" with
  | ["lu", n] => do fin (SOp.loadUint (← n.toNat?) s) showInt
  | ["li", n] => do fin (SOp.loadInt (← n.toNat?) s) showInt
  | ["pu", n] => do fin (SOp.preloadUint (← n.toNat?) s) showInt
  | ["pi", n] => do fin (SOp.preloadInt (← n.toNat?) s) showInt
  | ["lb", n] => do fin (SOp.loadBits (← n.toNat?) s) showBits
  | ["pb", n] => do fin (SOp.peekBits (← n.toNat?) s) showBits
  | ["lby", n] => do fin (SOp.loadBytes (← n.toNat?) s) dashHex
  | ["pby", n] => do fin (SOp.preloadBytes (← n.toNat?) s) dashHex
  | ["bit"] => fin (SOp.loadBit s) (fun b => if b then "1" else "0")
  | ["pbit"] => fin (SOp.preloadBit s) (fun b => if b then "1" else "0")
  | ["sk", n] => do fin (SOp.skipBits (← n.toNat?) s) (fun _ => "ok")
  | ["lr"] => fin (SOp.loadRef s) RCell.hashHex
  | ["pr"] => fin (SOp.preloadRef s) RCell.hashHex
  | ["lmr"] => fin (SOp.loadMaybeRef s) showOptRef
  | ["pmr"] => fin (SOp.preloadMaybeRef s) showOptRef
  | ["lvu", k] => do fin (SOp.loadVarUint (← k.toNat?) s) showInt
  | ["pvu", k] => do fin (SOp.preloadVarUint (← k.toNat?) s) showInt
  | ["lvi", k] => do fin (SOp.loadVarInt (← k.toNat?) s) showInt
  | ["pvi", k] => do fin (SOp.preloadVarInt (← k.toNat?) s) showInt
  | ["lc"] => fin (SOp.loadCoins s) showInt
  | ["pc"] => fin (SOp.preloadCoins s) showInt
  | ["la"] => fin (SOp.loadAddress s) showAddr
  | ["pa"] => fin (SOp.preloadAddress s) showAddr
  | ["lall"] => fin (SOp.loadAllBytes s) dashHex
  | ["lsn"] => fin (SOp.loadSnakeFuel (fun c => (c.bits, c.refs)) 2000 s) dashHex
  | ["lss"] => fin (SOp.loadSnakeStringFuel (fun c => (c.bits, c.refs)) 2000 s) dashHex
  | ["ld", _] => fin (SOp.loadDict s) showOptRef
  | ["pd", _] => fin (SOp.preloadDict s) showOptRef
  | ["ls", n] => do fin (SOp.loadString (← n.toNat?) s) dashHex
  | ["ps", n] => do fin (SOp.preloadString (← n.toNat?) s) dashHex
  | _ => none

/-- `sscript <dag> <node> <ops;...>` → `ok <r1>;<r2>;... <remaining bits> <remaining refs>` -/
def handleSScript (dag node ops : String) : String :=
  match (dag.splitOn "|").mapM parseNode, node.toNat? with
  | some nodes, some ni =>
    match ((evalRDag nodes)[ni]?).join with
    | none => "err"
    | some c =>
      let toks := if ops == "-" then [] else ops.splitOn ";"
      let rec go (ts : List String) (s : Slice RCell) (acc : List String) : Option (Slice RCell × List String) :=
        match ts with
        | [] => some (s, acc.reverse)
        | t :: rest => match sop t s with
          | none => none
          | some (s', r) => go rest s' (r :: acc)
      match go toks ⟨c.bits, c.refs⟩ [] with
      | none => "bad-op"
      | some (s, rs) => s!"ok {if rs.isEmpty then "-" else ";".intercalate rs} {showBits s.bits} {showRefs s.refs}"
  | _, _ => "bad-op"


namespace Builder
def handle? (op : String) (args : List String) : Option String :=
  match op, args with
  | "bscript", [dag, ops] => some (handleBScript dag ops)
  | "sscript", [dag, node, ops] => some (handleSScript dag node ops)
  | _, _ => none
end Builder

end TonVerif.Drv
