/- driver ops for the C19 cost model: costorder, costboc, costbocparse, costdict, costtl, costtlside, costbuild -/
import TonVerif.Drv.Common
import TonVerif.Model.Cost

namespace TonVerif.Drv
open TonVerif TonVerif.Model TonVerif.Model.Cost

namespace Cost

/-- DAG syntax: `size,kids|size,kids|…` (kids `.`-separated or `-`); the LAST node is the root -/
def parseDag (s : String) : Option Dag :=
  (s.splitOn "|").mapM (fun nd =>
    match nd.splitOn "," with
    | [sz, ks] => do
      let size ← sz.toNat?
      let kids ← parseNatList ks
      pure ({ size, kids } : Node)
    | _ => none)

def natList (xs : List Nat) : String := if xs.isEmpty then "-" else ".".intercalate (xs.map toString)

def handleOrder (d : String) : String :=
  match parseDag d with
  | none => "bad-op"
  | some g =>
    let root := g.length - 1
    let s := orderRun g root
    let done := if s.stack.isEmpty then "1" else "0"
    s!"ok {s.steps} {s.post.length} {done} {natList s.post} {1 + g.length + edges g}"

def flag (c : Char) : Bool := c == '1'

def handleBoc (d : String) (fl : String) : String :=
  match parseDag d, fl.toList with
  | some g, [a, b, c] =>
    let o := toBoc g (g.length - 1) (flag a) (flag b) (flag c)
    s!"ok {o.steps} {o.bytes} {o.cells} {o.refs} {hashWork g}"
  | _, _ => "bad-op"

/-- constructing every cell once: `lvs` = hashes computed per cell (`.`-separated, as many as nodes) -/
def handleBuild (d : String) (lvs : String) : String :=
  match parseDag d, parseNatList lvs with
  | some g, some l =>
    let lv := fun v => l.getD v 1
    let ok4 := if l.all (· ≤ 4) then "1" else "0"
    s!"ok {buildSteps lv g} {buildBytes lv g} {cellBytes g} {g.length} {edges g} {hashWork g} {ok4}"
  | _, _ => "bad-op"

/-- calls of the pre-563b428 recursive order (exponential on shared chains: small inputs only) -/
def handleOldOrder (d : String) : String :=
  match parseDag d with
  | some g => s!"ok {oldOrderCalls g g.length (g.length - 1)}"
  | none => "bad-op"

def handleBocParse (h : String) : String :=
  match hexArg h with
  | none => "bad-op"
  | some bs =>
    let c := bocCost bs
    s!"ok {c.total} {c.outer} {c.hdr} {c.crc} {c.loop1} {c.refs1} {c.loop2} {c.refs2} {c.loop3}"

/-- dictionary DAG syntax: `bits,kids,ord|…`; last node = root -/
def parseDDag (s : String) : Option DDag :=
  (s.splitOn "|").mapM (fun nd =>
    match nd.splitOn "," with
    | [b, ks, o] => do
      let bits ← parseBits b
      let kids ← parseNatList ks
      pure ({ bits, kids, ordinary := o == "1" } : DNode)
    | _ => none)

def showDRes : DRes → String
  | .done s => s!"done.{s}"
  | .raised s => s!"raised.{s}"
  | .oof => "oof"

def handleDict (d : String) (k : String) : String :=
  match parseDDag d, k.toInt? with
  | some g, some keyLen =>
    let f := g.length + 1
    let root := g.length - 1
    let o := dictOut g f root keyLen
    s!"ok {showDRes (dictParse g f root keyLen)} {showDRes (dictCalls g f root keyLen)} {treeSize g f root} {o.1} {o.2}"
  | _, _ => "bad-op"

/-- field syntax: optional `cN?` then `fK` | `FK` (flags field, signed) | `UK` (flags field, unsigned) | `b1` | `b0` | `vS` | `vx` | `sS` | `sx` -/
def parseTy (s : String) : Option Tl.Ty :=
  match s.toList with
  | 'f' :: r => (String.ofList r).toNat?.map (fun k => .fixed k 0)
  | 'F' :: r => (String.ofList r).toNat?.map (fun k => .fixed k 1)
  | 'U' :: r => (String.ofList r).toNat?.map (fun k => .fixed k 2)
  | ['b', '1'] => some (.bytes true)
  | ['b', '0'] => some (.bytes false)
  | ['v', 'x'] => some (.vec none)
  | 'v' :: r => (String.ofList r).toNat?.map (fun k => .vec (some k))
  | ['s', 'x'] => some (.sub none)
  | 's' :: r => (String.ofList r).toNat?.map (fun k => .sub (some k))
  | _ => none

def parseField (s : String) : Option Tl.Field :=
  match s.splitOn "?" with
  | [t] => (parseTy t).map (fun ty => { cond := none, ty })
  | [c, t] =>
    match c.toList with
    | 'c' :: r => do
      let idx ← (String.ofList r).toNat?
      let ty ← parseTy t
      pure { cond := some idx, ty }
    | _ => none
  | _ => none

/-- table syntax: `idhex:field;field|idhex:-|…` -/
def parseTable (s : String) : Option Tl.Table :=
  (s.splitOn "|").mapM (fun sc =>
    match sc.splitOn ":" with
    | [idh, fs] => do
      let id ← hexArg idh
      let fields ← if fs == "-" then some [] else (fs.splitOn ";").mapM parseField
      pure ({ id, fields } : Tl.Schema)
    | _ => none)

def showRes : Tl.Res → String
  | .ok a s => s!"ok.{a}.{s}"
  | .raised s g => if g then s!"guard.{s}" else s!"raised.{s}"
  | .oof => "oof"

/-- inputs: `mode:hex,mode:hex,…` with mode `x` (boxed) or a schema index (bare) -/
def handleTl (t : String) (inputs : String) : String :=
  match parseTable t with
  | none => "bad-op"
  | some tbl =>
    let outs := (inputs.splitOn ",").map (fun inp =>
      match inp.splitOn ":" with
      | [m, h] =>
        match hexArg h with
        | none => "bad"
        | some bs =>
          let mode : Option (Option Nat) := if m == "x" then some none else m.toNat?.map some
          match mode with
          | none => "bad"
          | some md => showRes (Tl.deser tbl ((bs.length / 4 + 2) * (tbl.length + 2)) bs md)
      | _ => "bad")
    "ok " ++ ",".intercalate outs

/-- side conditions of `c19_tl_total` for a table: `ids4`, the smallest `R ≤ 16` with `NoBareCycle tbl R`, max fields, `tlK` -/
def handleTlSide (t : String) : String :=
  match parseTable t with
  | none => "bad-op"
  | some tbl =>
    let ids := if decide (Tl.Ids4 tbl) then "1" else "0"
    match Tl.bareDepth? tbl 16 with
    | none => s!"ok {ids} none {Tl.maxFields tbl} 0"
    | some R => s!"ok {ids} {R} {Tl.maxFields tbl} {Tl.tlK tbl R}"

def handle? (op : String) (args : List String) : Option String :=
  match op, args with
  | "costorder", [d] => some (handleOrder d)
  | "costoldorder", [d] => some (handleOldOrder d)
  | "costboc", [d, fl] => some (handleBoc d fl)
  | "costbuild", [d, l] => some (handleBuild d l)
  | "costbocparse", [h] => some (handleBocParse h)
  | "costdict", [d, k] => some (handleDict d k)
  | "costtl", [t, i] => some (handleTl t i)
  | "costtlside", [t] => some (handleTlSide t)
  | _, _ => none

end Cost
end TonVerif.Drv
