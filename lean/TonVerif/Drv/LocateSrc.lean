/- driver op of the regenerated TL-B walk (Model/LocateSrc.lean): `srcloc <dag> <state idx> <addr>` answers
`eq <hash of the located account cell | x>` when the regenerated walk `srcLocate` and the hand model `locateAccount srcOpaque` agree on
that state cell (what `c11_src_walk` states), else `ne <src: x | c:<bits>> <model: x | hash>`. -/
import TonVerif.Drv.Proof
import TonVerif.Model.LocateSrc

namespace TonVerif.Drv
open TonVerif TonVerif.Model

namespace LocateSrc
def handle? (op : String) (args : List String) : Option String :=
  match op, args with
  | "srcloc", [d, idx, key] => some <|
    match parsePDag d, idx.toNat?, hexArg key with
    | some cells, some i, some kb =>
      match (cells[i]?).join with
      | some c =>
        let src := srcLocate (tcell c) kb
        let mdl := locateAccount srcOpaque c kb
        let same := match src, mdl with
          | none, none => true
          | some a, some b => tcellBeq a (tcell b)
          | _, _ => false
        let sh (o : Option PCell) := match o with | some a => hexOfBytes a.info.hash | none => "x"
        if same then "eq " ++ sh mdl
        else "ne " ++ (match src with | some a => "c:" ++ showBits a.bits | none => "x") ++ " " ++ sh mdl
      | none => "eq x"
    | _, _, _ => "bad-op"
  | _, _ => none
end LocateSrc

end TonVerif.Drv
