/-
Meaning of the Python built-ins that the object-program translator (harness/translate/pyobj.py) emits calls to, in
addition to PyBytes.lean / PyInt.lean.  Hand-written, core Lean only.  This is the translator's trusted reading of
negative list indices, `bitarray.fill()` and `int(bits.to01(), 2)`; it is validated against CPython / bitarray on every
change (harness/translate/cellctor.py `validate`).  `bitsToBytes` (Basic.lean) = `bitarray.tobytes()`,
`toBytesBE?` = `int.to_bytes(w, 'big')`, `xs ++ [x]` = `xs.append(x)`, a hash object = the bytes fed to it so far.
-/
import TonVerif.Basic
import TonVerif.PyBytes

namespace TonVerif.Py

/- `xs[i]` for any Python int `i` (a negative index counts from the end; `none` = IndexError) is `Py.getI?` of
   PyBytes.lean, shared by the bytes / loop translators and this one. -/

/-- `bits.fill()` of a bitarray: zero bits are appended up to the next multiple of 8. -/
def bitsFill (bits : Bits) : Bits := bits ++ List.replicate ((8 - bits.length % 8) % 8) false

/-- `int(bits.to01(), 2)`: the bits read as a big-endian number; `none` = ValueError (`int('', 2)`). -/
def intOfBits? (bits : Bits) : Option Nat := if bits = [] then none else some (natOfBits bits)

end TonVerif.Py
