/-
C08, the typed stores / loads at the alias level: every `store_*` of Generated/BuilderOps.lean and every `load_*` / `preload_*` /
`skip_bits` of Generated/SliceOps.lean (both regenerated from boc/builder.py / boc/slice.py on every run by harness/translate/bsops.py)
touches only the receiver's OWN containers.  Helper lemmas: Proofs/SrcHeapOps.lean.
-/
import TonVerif.Proofs.SrcHeapOps

namespace TonVerif.Properties.C08Typed
open TonVerif TonVerif.Model TonVerif.Proofs.Heap TonVerif.Proofs.SrcHeapOps
open TonVerif.Model.Heap (State)

/-- ALL TYPED STORES AND LOADS STAY IN THEIR OWN CONTAINERS.  On every heap satisfying the invariant (so: after every history):

(stores) for a live builder `b`, live cells `A` and ANY regenerated `store_*` method `f` of Generated/BuilderOps.lean
(`store_uint / int / bits / bytes / bool / bit / bit_int / ref / maybe_ref / dict / var_uint / var_int / coins / string / cell / slice /
address`) whose reference arguments are among `A`: running `f` on the builder's value and writing the result back - the state reached
by a RAISING call included - only appends to the builder's own bit array and own list (`OwnB`): `Sep ∧ WF ∧ Coh` again, nothing
allocated, no object record changed, every other container as it was, every cell (record, hashes, both containers) as it was;

(loads) for a live slice `i` and ANY regenerated `load_* / preload_* / skip_bits` of Generated/SliceOps.lean (`bits, uint, int, bytes,
bit, bool, ref, maybe_ref, var_uint, var_int, coins, string, dict`): the result only lost a prefix of the slice's own bit array and
moved its own `ref_offset` forward, never past the end (`OwnS`): the list is not written, no other container, no other record, no cell
changes, nothing is allocated.

Both are instances of ONE generic lemma each (`liftB_ownB` for extend-only transformers, `liftS_ownS` for prefix-deleting ones). -/
theorem c08_src_typed_ops_own_containers (H : Bytes → Bytes) (σ : State) (h : Inv H σ) :
    (∀ (b : Nat) (A : List Nat) (f : Builder Nat → Builder Nat × Option Unit),
      σ.has b .builder = true → CellsAt σ A → TypedStore A f → OwnB H σ b (liftB (asBOp f) σ b)) ∧
    (∀ (i : Nat) (α : Type) (f : Py.SliceSt Nat → Py.SliceSt Nat × Option α),
      σ.has i .slice = true → TypedLoad f → OwnS H σ i (liftS f σ i)) :=
  ⟨fun b A f hb hA hf => liftB_ownB H σ h b hb A hA (asBOp f) (typedStore_ext hf),
   fun i α f hs hf => liftS_ownS H σ h i hs f (typedLoad_shr hf)⟩

/-- non-vacuity: the empty heap plus one builder / one slice meets the hypotheses, and `store_ref` / `load_uint` are in the families -/
example : TypedStore [3] (Generated.BuilderOps.store_ref 3) ∧ TypedLoad (Generated.SliceOps.load_uint (R := Nat) 8) ∧
    (Model.Heap.step (fun x => x) Model.Heap.init .builderNew).1.has 0 .builder = true ∧
    (Model.Heap.step (fun x => x) Model.Heap.init (.sliceFresh [true] [] (-1))).1.has 0 .slice = true :=
  ⟨.ref 3 (by simp), .load_uint 8, by decide, by decide⟩

end TonVerif.Properties.C08Typed
