/-
C19 (part): the BYTES fed to SHA-256 by the cell constructor, on the REGENERATED constructor (`Generated.CellCtor.init`, re-translated from
pytoniq_core/boc/cell.py on every run and tied to `Model.construct` for all inputs by `c02_src_constructor`).  The cost model's `ctorBytes` /
`buildBytes` (Model/Cost.lean) are thereby theorems about the code as written, not only a measured model.
Proofs: Proofs/SrcCtorBytes.lean.
-/
import TonVerif.Proofs.SrcCtorBytes
import TonVerif.Proofs.SrcCtorCnt
import TonVerif.Model.Cost
import TonVerif.Proofs.SrcHeaderWork

namespace TonVerif.Properties.C19
open TonVerif TonVerif.Model TonVerif.Model.Cost TonVerif.Generated.CellCtor
open TonVerif.Proofs.SrcCtorBytes TonVerif.Proofs.SrcCtorCnt TonVerif.Proofs.SrcCellCtor

/-! ## BEGIN c19src2 -/

/-- BYTES HASHED PER CONSTRUCTED CELL, on the constructor as written.  `H` = `hashlib.sha256` is any function with outputs of at most 32 bytes; the
children are any records whose stored hashes are at most 32 bytes (true of every cell this constructor returned - last clause - and of a
pruned branch, whose `get_hash` slices 32 bytes out of its data).  Whenever `Cell.__init__` returns: its `_hashes` are `H` applied to a list
`ins` of byte strings - the SHA-256 inputs of this call, one per stored hash - with
 * at most `bit_length(level mask) + 1` of them (`levelIters`: the iterations of `for li in range(level + 1)`, `c19_src_hash_work`),
 * each at most `levelBound bits refs = 2 + max(len(data_bytes), 32) + 34·len(refs)` bytes long,
 * in total at most `ctorBytes levels len(refs) (2 + len(data_bytes))` bytes - the cost model's count, now a theorem about the source -
 * which for a cell the builder can produce (≤ 1023 bits, ≤ 4 references) is `≤ levels · 266` (2 + 128 + 4·(2 + 32)),
and every stored hash is again at most 32 bytes.  The constructor never descends into a child (it reads the cached `_hashes` / `_depths`), so hashing
`n` cells feeds SHA-256 `≤ Σ levels · 266` bytes: O(n) (`c19_src_build_bytes`). -/
theorem c19_src_hash_bytes (H : Bytes → Bytes) (hH : ∀ b, (H b).length ≤ 32) (bits : Bits) (refs : List CellInfo) (ty : Int)
    (hr : ∀ r ∈ refs, ∀ x ∈ r.hashes, x.length ≤ 32) (out : CtorOut) (h : init H bits refs ty = some out) :
    ∃ ins : List Bytes, out.hashes = ins.map H ∧
      ins.length ≤ levelIters ty refs bits ∧
      (∀ p ∈ ins, p.length ≤ levelBound bits refs) ∧
      (ins.map List.length).sum ≤ ctorBytes (levelIters ty refs bits) refs.length (2 + (dataBytes bits).length) ∧
      (bits.length ≤ 1023 → refs.length ≤ 4 → (ins.map List.length).sum ≤ levelIters ty refs bits * 266) ∧
      ∀ x ∈ out.hashes, x.length ≤ 32 := by
  obtain ⟨i, hc, hhash, hmask⟩ := init_construct H bits refs ty out h
  obtain ⟨ins, he, hl, hb⟩ := (construct_inputs H H hH ty bits refs hr (fun _ _ => rfl)).2 i hc
  have hlv : levelIters ty refs bits = bitLength i.mask + 1 := by
    unfold levelIters
    rw [init_mask H bits refs ty out h, hmask]
    show Py.bitLength out.mask + 1 = bitLength out.mask + 1
    rw [TonVerif.Proofs.SrcArith.py_bitLength_eq]
  have hsum := sum_len_le _ ins hb
  have hmono : ins.length * levelBound bits refs ≤ levelIters ty refs bits * levelBound bits refs :=
    Nat.mul_le_mul_right _ (by omega)
  refine ⟨ins, by rw [← hhash]; exact he, by omega, hb, ?_, fun h1 h2 => ?_, fun x hx => ?_⟩
  · have : ctorBytes (levelIters ty refs bits) refs.length (2 + (dataBytes bits).length) = levelIters ty refs bits * levelBound bits refs := by
      unfold ctorBytes levelBound
      congr 1
      omega
    omega
  · have := Nat.mul_le_mul_left (levelIters ty refs bits) (levelBound_le bits refs h1 h2)
    omega
  · rw [← hhash, he] at hx
    obtain ⟨p, _, rfl⟩ := List.mem_map.1 hx
    exact hH p

/-- NOTHING LONGER IS EVER HASHED, stated without naming the inputs: a hash function `G` that agrees with `H` on every byte string of at most
`levelBound` bytes makes the regenerated constructor raise / return exactly as `H` does, with the same `_hashes`, `_depths`, `hash` - so the
code as written applies `hashlib.sha256` to no string longer than that (for any cell type, also exotic ones; any number of references). -/
theorem c19_src_hash_input_len (H G : Bytes → Bytes) (hH : ∀ b, (H b).length ≤ 32) (bits : Bits) (refs : List CellInfo) (ty : Int)
    (hr : ∀ r ∈ refs, ∀ x ∈ r.hashes, x.length ≤ 32) (hG : ∀ b, b.length ≤ levelBound bits refs → G b = H b) :
    init G bits refs ty = init H bits refs ty := by
  rw [src_construct_eq_model, src_construct_eq_model, (construct_inputs H G hH ty bits refs hr hG).1]

/-- BUILDING A DAG: `n` constructor calls (one per distinct cell, children first), each on ≤ 1023 bits and ≤ 4 references whose stored hashes are ≤ 32
bytes, each returning: the SHA-256 inputs of all calls together are `≤ 266 · Σ levels` bytes, where `levels ≤ 4` per call for a non-pruned cell over
children of level ≤ 3 and `≤ 9` in general (`c19_src_hash_work`, `c19_src_build_linear_any`): `≤ 1064·n` resp. `≤ 2394·n` bytes - linear in the number of
distinct cells, independent of the number of paths. -/
theorem c19_src_build_bytes (H : Bytes → Bytes) (hH : ∀ b, (H b).length ≤ 32) (calls : List (Bits × List CellInfo × Int × CtorOut × List Bytes))
    (hok : ∀ c ∈ calls, c.1.length ≤ 1023 ∧ c.2.1.length ≤ 4 ∧ (∀ r ∈ c.2.1, r.mask ≤ 255 ∧ ∀ x ∈ r.hashes, x.length ≤ 32) ∧
      init H c.1 c.2.1 c.2.2.1 = some c.2.2.2.1 ∧ c.2.2.2.1.hashes = c.2.2.2.2.map H ∧ c.2.2.2.2.length ≤ levelIters c.2.2.1 c.2.1 c.1 ∧
      ∀ p ∈ c.2.2.2.2, p.length ≤ levelBound c.1 c.2.1) :
    (calls.map (fun c => (c.2.2.2.2.map List.length).sum)).sum ≤ 2394 * calls.length := by
  induction calls with
  | nil => simp
  | cons c cs ih =>
    have ih' := ih (fun x hx => hok x (by simp [hx]))
    obtain ⟨h1, h2, h3, _, _, h6, h7⟩ := hok c (by simp)
    have hs := sum_len_le _ c.2.2.2.2 h7
    have hb : levelBound c.1 c.2.1 ≤ 266 := levelBound_le c.1 c.2.1 h1 h2
    have hlv : levelIters c.2.2.1 c.2.1 c.1 ≤ 9 := by
      unfold levelIters
      split
      · omega
      · rename_i m hm
        have := resolve_mask_le255 c.2.2.1 c.2.1 c.1 (fun r hr => (h3 r hr).1) m hm
        have := bitLength_le8 m (by omega)
        omega
    have : c.2.2.2.2.length * levelBound c.1 c.2.1 ≤ 9 * 266 := Nat.mul_le_mul (by omega) hb
    simp only [List.map_cons, List.sum_cons, List.length_cons]
    omega

/-- non-vacuity (all hypotheses hold and the bound is met): with `H` = "first 32 bytes, zero padded", an ordinary cell of one bit over two leaves
returns one hash (its single SHA input is 2 + 1 + 2·(2 + 32) = 71 bytes; `levelBound` = 2 + 32 + 68 = 102). -/
example : let H : Bytes → Bytes := fun x => (x ++ List.replicate 32 0).take 32
    let leaf : CellInfo := { kind := -1, bits := [], nrefs := 0, mask := 0, hashes := [List.replicate 32 7], depths := [0] }
    ((init H [true] [leaf, leaf] (-1)).map fun o => o.hashes.length) = some 1 ∧ levelBound [true] [leaf, leaf] = 102 ∧
      levelIters (-1) [leaf, leaf] [true] = 1 := by decide +kernel

/-- HEADER WORK, on the regenerated `Boc.deserialize_boc_header` (`Generated.BocHeader.header`, re-translated from deserialize.py on every run), for
every byte string on which it RETURNS.  The three comprehensions of the code: (1) `[bytes_to_uint(data[i:i+size]) for i in range(6, 6+3·size, size)]` runs a
FIXED 3 times (it is unpacked into `cells_num, roots_num, absent_num`; `size_bytes ≥ 1`, otherwise `range` raises), after the pre-check
`len − 5 ≥ 1 + 3·size`; (2) the root list runs `roots_num` times (`len(root_list) = roots_num`), after the check `len − i ≥ roots_num·size`; (3) the index
runs `cells_num` times with `offset_bytes ≥ 1`-wide reads, after the check `len − i ≥ offset_bytes·cells_num`.  Together `3 + len(root_list) + len(index) ≤
len(data) − 3`.  The Python-level CRC loop runs once, over exactly the first `len(data) − 4` bytes, and only when the flag is set.
PARTIAL: the full statement - for EVERY run, also the raising ones, comprehension iterations ≤ len(data) and CRC bytes ≤ len(data) − 4 (a raising run may
have computed the CRC over `i ≤ len − 4` bytes before "Too many bytes in boc") - needs an iteration-counting copy of the header text (the comprehensions
are `List.map` over `Py.range?`, the CRC is `Model.crc32c` there); for raising runs the count remains the cost model's `bocCost.hdr` / `crc`, whose
stage structure is C05's `Path` relation (`c19_boc_parse_all` bounds it by the input length). -/
theorem c19_src_header_work_partial (data : Bytes) (h : Generated.BocHeader.HeaderOut) (hh : Generated.BocHeader.header data = some h) :
    1 ≤ h.size_bytes ∧
    3 + h.root_list.length + (match h.index with | some ix => ix.length | none => 0) + 3 ≤ data.length ∧
    h.root_list.length = h.roots_num ∧
    (∀ ix, h.index = some ix → ix.length = h.cells_num ∧ 1 ≤ h.offset_bytes ∧ h.cells_num * h.offset_bytes ≤ data.length) ∧
    (h.hash_crc32 = true → 4 ≤ data.length ∧
      ∃ c, Model.crc32c (data.take (data.length - 4)) = some c ∧ c = data.drop (data.length - 4)) :=
  TonVerif.Proofs.SrcHeaderWork.header_work data h hh

/-- non-vacuity: the 13-byte generic bag header with one root and an empty cell (size 1, offset 1, no index, no CRC) is accepted: 1 root read -/
example : ((Generated.BocHeader.header [181, 238, 156, 114, 1, 1, 1, 1, 0, 2, 0, 0, 0]).map fun h => (h.root_list.length, h.size_bytes)) = some (1, 1) := by
  decide +kernel

/-! ## END c19src2 -/

end TonVerif.Properties.C19
