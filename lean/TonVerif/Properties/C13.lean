/-
C13 — address text forms round-trip and the friendly form's checksum is enforced.
-/
import TonVerif.Model.Address

namespace TonVerif.Properties.C13
open TonVerif TonVerif.Model TonVerif.Model.Address

/-- `a == b` implies `a.__hash__() == b.__hash__()`. -/
theorem c13_eq_hash (a b : Addr) (h : Address.eq a b = true) : pyHash a = pyHash b := by
  simp only [Address.eq, Bool.and_eq_true, beq_iff_eq] at h
  simp [pyHash, h.1, h.2]

end TonVerif.Properties.C13
