/-
C13 — address text forms round-trip and the friendly form's checksum is enforced.

All statements are about the hand model of `pytoniq_core/boc/address.py` (Model/Address.lean), of Python's
base64 (Model/Base64.lean) and about `Model.crc16`, the translation of `crypto/crc.py` (C18).
`parse s` = `Address(s)`, `toStr a uf url b t` = `a.to_str(uf, url, b, t)`; `none` = an exception.
-/
import TonVerif.Model.Address
import TonVerif.Proofs.Base64
import TonVerif.Proofs.Address
import TonVerif.Proofs.SrcB64
import TonVerif.Generated.AddrTags

namespace TonVerif.Properties.C13
open TonVerif TonVerif.Model TonVerif.Model.Address TonVerif.Model.Base64
open TonVerif.Proofs.Base64 TonVerif.Proofs.Address

/-- `base64.b64decode(base64.b64encode(bs)) == bs` for EVERY byte string (all lengths, `=` padding included). -/
theorem c13_b64_roundtrip (bs : Bytes) (hw : Bytes.WF bs) : decode (encode false bs) = some bs :=
  decode_encode bs hw

/-- `base64.urlsafe_b64decode` (what `is_b64` calls) inverts both `urlsafe_b64encode` and `b64encode`,
for EVERY byte string. -/
theorem c13_b64_roundtrip_urlsafe (url : Bool) (bs : Bytes) (hw : Bytes.WF bs) :
    decodeUrlsafe (encode url bs) = some bs :=
  decodeUrlsafe_encode url bs hw

/-- the sextet form of the friendly text (34-byte body ++ CRC = 36 bytes = 48 characters, no padding). -/
theorem friendly_text (a : Addr) (url b t : Bool) (hw : Bytes.WF a.hash) (hlen : a.hash.length = 32)
    (hwc : -128 ≤ a.wc ∧ a.wc ≤ 127) :
    toStr a true url b t =
      some ((sextets (bodyOf a b t ++ be16N (crcV (bodyOf a b t)))).map (encChar url)) := by
  rw [toStr_friendly a url b t hw hwc, encode_eq_map_sextets]
  simp [bodyOf, be16N, hlen]

/-- FRIENDLY ROUND TRIP.  For every workchain in -128..127, every 32-byte hash and each of the 8 variants
(bounceable?, test-only?, url-safe?): `to_str` succeeds and `Address(text)` has the same workchain, the
same hash and exactly the requested flags. (`a`'s own flags are irrelevant, as in the code.) -/
theorem c13_friendly_roundtrip (a : Addr) (hw : Bytes.WF a.hash) (hlen : a.hash.length = 32)
    (hwc : -128 ≤ a.wc ∧ a.wc ≤ 127) (url b t : Bool) :
    ∃ s, toStr a true url b t = some s ∧ s.length = 48 ∧
      parse s = some { wc := a.wc, hash := a.hash, bounceable := b, testOnly := t } := by
  refine ⟨_, toStr_friendly a url b t hw hwc, ?_, ?_⟩
  · have hl : (bodyOf a b t ++ be16N (crcV (bodyOf a b t))).length = 36 := by simp [bodyOf, be16N, hlen]
    rw [encode_eq_map_sextets _ _ (by omega), List.length_map]
    have := sextets_length _ (show (bodyOf a b t ++ be16N (crcV (bodyOf a b t))).length % 3 = 0 by omega)
    omega
  · unfold parse
    have hl : (bodyOf a b t ++ be16N (crcV (bodyOf a b t))).length % 3 = 0 := by simp [bodyOf, be16N, hlen]
    have hnc : isHex (encode url (bodyOf a b t ++ be16N (crcV (bodyOf a b t)))) = none := by
      rw [encode_eq_map_sextets _ _ hl]
      exact isHex_no_colon _ (map_encChar_no_colon url _
        (sextets_lt _ (codeword_wf _ (bodyOf_wf a b t hw))))
    rw [hnc]
    exact isB64_friendly a url b t hw hlen hwc

/-- outside -128..127 there is no friendly form: `to_str` raises. -/
theorem c13_friendly_out_of_range (a : Addr) (hwc : ¬ (-128 ≤ a.wc ∧ a.wc ≤ 127)) (url b t : Bool) :
    toStr a true url b t = none :=
  toStr_friendly_none a url b t hwc

/-- SUBSTITUTION REJECTED.  Take any friendly text `s` produced by `to_str` (any workchain in -128..127,
any 32-byte hash, any of the 8 variants), any position `i < 48` and any character `c'` of the SAME
alphabet other than `s[i]`: `Address(s with s[i] := c')` raises.
(All 256 x 2^256 addresses x 8 variants x 48 x 63 substitutions.) -/
theorem c13_substitution_rejected (a : Addr) (hw : Bytes.WF a.hash) (hlen : a.hash.length = 32)
    (url b t : Bool) (s : List Char) (hs : toStr a true url b t = some s)
    (i : Nat) (hi : i < 48) (c' : Char) (hc : c' ∈ alphabet url) (hne : s[i]? ≠ some c') :
    parse (s.set i c') = none := by
  by_cases hwc : -128 ≤ a.wc ∧ a.wc ≤ 127
  · rw [friendly_text a url b t hw hlen hwc] at hs
    injection hs with hs
    obtain ⟨j, hj, rfl⟩ := mem_alphabet hc
    have hbw := bodyOf_wf a b t hw
    have hblen : (bodyOf a b t).length = 34 := by simp [bodyOf, hlen]
    subst hs
    rw [← List.map_set]
    have hSlt := sextets_lt _ (codeword_wf _ hbw)
    have hne' : (sextets (bodyOf a b t ++ be16N (crcV (bodyOf a b t))))[i]? ≠ some j := by
      intro h
      apply hne
      rw [List.getElem?_map, h]; rfl
    unfold parse
    rw [isHex_no_colon]
    · exact isB64_subst_none _ hbw hblen url i j hi hj hne'
    · apply map_encChar_no_colon
      intro x hx
      rcases List.mem_or_eq_of_mem_set hx with h | rfl
      · exact hSlt x h
      · exact hj
  · rw [toStr_friendly_none a url b t hwc] at hs
    cases hs

/-- RAW ROUND TRIP.  Whenever the raw text `"{wc}:{hash.hex()}"` exists (any integer workchain whose `str()`
exists, i.e. at most 4300 digits; any non-empty hash — in particular every 32-byte account id),
`Address(text)` has the same workchain and hash, and both flags false. -/
theorem c13_raw_roundtrip (a : Addr) (hw : Bytes.WF a.hash) (hne : a.hash ≠ []) (url b t : Bool)
    (s : List Char) (hs : toStr a false url b t = some s) :
    parse s = some { wc := a.wc, hash := a.hash, bounceable := false, testOnly := false } := by
  simp only [toStr, Bool.not_false, if_true] at hs
  cases hz : pyStrInt a.wc with
  | none => rw [hz] at hs; cases hs
  | some w =>
    rw [hz] at hs
    injection hs with hs
    rw [← hs]
    unfold parse
    rw [isHex_raw a.wc w a.hash hz hw hne]

/-- the raw text exists for every workchain of at most 4300 decimal digits (CPython's default limit). -/
theorem c13_raw_exists (a : Addr) (h : a.wc.natAbs < 10 ^ (4299 + 1)) (url b t : Bool) :
    (toStr a false url b t).isSome = true := by
  have := pyStrInt_isSome a.wc h
  simp only [toStr, Bool.not_false, if_true]
  cases hz : pyStrInt a.wc with
  | none => rw [hz] at this; cases this
  | some w => rfl

/-- `a == b` implies `a.__hash__() == b.__hash__()` (and therefore `hash(a) == hash(b)`). -/
theorem c13_eq_hash (a b : Addr) (h : Address.eq a b = true) : pyHash a = pyHash b := by
  simp only [Address.eq, Bool.and_eq_true, beq_iff_eq] at h
  simp [pyHash, h.1, h.2]

/-- `Address(Address(..))` and the tuple form carry the same workchain and hash, hence are `==`. -/
theorem c13_copy_eq (a : Addr) : Address.eq (ofAddr a) a = true ∧ Address.eq (ofTuple a.wc a.hash) a = true := by
  simp [Address.eq, ofAddr, ofTuple]

/-- RE-RENDERING (history independence of `to_str`).  Parse ANY of the 8 friendly texts of an address and render the
resulting object - which now carries the parsed flags `b₁, t₁` - in ANY of the 8 variants: the text is the one the
tuple-built address gives (the object's own flags never leak into `to_str`), and parsing it yields exactly the flags
requested the second time. -/
theorem c13_rerender (a : Addr) (hw : Bytes.WF a.hash) (hlen : a.hash.length = 32)
    (hwc : -128 ≤ a.wc ∧ a.wc ≤ 127) (url₁ b₁ t₁ url₂ b₂ t₂ : Bool) :
    ∃ s₁ a₁ s₂, toStr a true url₁ b₁ t₁ = some s₁ ∧ parse s₁ = some a₁ ∧
      toStr a₁ true url₂ b₂ t₂ = some s₂ ∧ toStr (ofTuple a.wc a.hash) true url₂ b₂ t₂ = some s₂ ∧
      parse s₂ = some { wc := a.wc, hash := a.hash, bounceable := b₂, testOnly := t₂ } := by
  obtain ⟨s₁, h₁, _, hp₁⟩ := c13_friendly_roundtrip a hw hlen hwc url₁ b₁ t₁
  obtain ⟨s₂, h₂, _, hp₂⟩ := c13_friendly_roundtrip
    { wc := a.wc, hash := a.hash, bounceable := b₁, testOnly := t₁ } hw hlen hwc url₂ b₂ t₂
  refine ⟨s₁, _, s₂, h₁, hp₁, h₂, ?_, hp₂⟩
  simpa [toStr, ofTuple] using h₂

/-! ### non-vacuity: a concrete address and its texts -/

/-- the hypotheses of the round-trip / substitution theorems are met by a concrete non-trivial address … -/
def sample : Addr := { wc := -1, hash := List.replicate 32 0x55 }
example : Bytes.WF sample.hash ∧ sample.hash.length = 32 ∧ (-128 ≤ sample.wc ∧ sample.wc ≤ 127) := by decide
/-- … whose bounceable url-safe text is the 48-character string below, which parses back … -/
example : toStr sample true true true false = some "Ef9VVVVVVVVVVVVVVVVVVVVVVVVVVVVVVVVVVVVVVVVVVbxn".toList := by
  decide +kernel
example : parse "Ef9VVVVVVVVVVVVVVVVVVVVVVVVVVVVVVVVVVVVVVVVVVbxn".toList
    = some { wc := -1, hash := List.replicate 32 0x55, bounceable := true, testOnly := false } := by
  decide +kernel
/-- … and is rejected after one substitution (`V` -> `W` at position 10). -/
example : parse ("Ef9VVVVVVVVVVVVVVVVVVVVVVVVVVVVVVVVVVVVVVVVVVbxn".toList.set 10 'W') = none := by
  decide +kernel
example : 'W' ∈ alphabet true := by decide +kernel
/-- the raw form of the same address, and its parse. -/
example : toStr sample false true true false
    = some "-1:5555555555555555555555555555555555555555555555555555555555555555".toList := by
  decide +kernel
example : parse "-1:5555555555555555555555555555555555555555555555555555555555555555".toList
    = some { wc := -1, hash := List.replicate 32 0x55 } := by
  decide +kernel
example : sample.hash ≠ [] := by decide

/-! ## Source-regenerated tag arithmetic (`Generated/AddrTags.lean`: re-translated from boc/address.py on every run)

`Generated.addrTag bounceable testOnly` is the statement sequence of `Address.to_str` that computes the tag byte
(`tag = 0x11`, `if not is_bounceable: tag = 0x51`, `if is_test_only: tag |= 0x80`); `Generated.b64TestOnly tag0 t0 b0` /
`b64Bounceable tag0 t0 b0` are the final values of `self.is_test_only` / `self.is_bounceable` after the tag-decoding
statements of `Address.is_b64` (`tag = decoded[0]` … `if tag == 0x11: self.is_bounceable = True`), as functions of the first
decoded byte and of the flags' previous values (`False` in a fresh object). -/
section Src
open TonVerif.Proofs.SrcB64

/-- the tag byte written by `to_str`, for all four flag combinations: 0x11 / 0x51, with 0x80 or-ed in for test-only. -/
theorem c13_src_tag (b t : Bool) :
    Generated.addrTag_sideOk b t ∧
    Generated.addrTag b t = (if t then (if b then 0x11 else 0x51) ||| 0x80 else (if b then 0x11 else 0x51)) := by
  refine ⟨by cases b <;> cases t <;> decide, ?_⟩
  cases b <;> cases t <;> decide

/-- the flags read back by `is_b64`, for EVERY byte value of `decoded[0]` and every previous flag value: test-only iff
bit 7 is set (or it was set before), bounceable iff the tag with bit 7 cleared is exactly 0x11 (or it was set before). -/
theorem c13_src_b64_flags : ∀ tag0 < 256, ∀ t0 b0 : Bool,
    Generated.b64TestOnly_sideOk tag0 t0 b0 ∧ Generated.b64Bounceable_sideOk tag0 t0 b0 ∧
    Generated.b64TestOnly tag0 t0 b0 = (t0 || (tag0 &&& 0x80) != 0) ∧
    Generated.b64Bounceable tag0 t0 b0 = (b0 || (if (tag0 &&& 0x80) != 0 then tag0 ^^^ 0x80 else tag0) == 0x11) := by
  decide +kernel

/-- `to_str` of the hand model (what `c13_friendly_roundtrip`, `c13_substitution_rejected`, `c13_rerender` … are proved
about) writes exactly the regenerated tag byte. -/
theorem c13_src_model_to_str (a : Addr) (url b t : Bool) :
    toStr a true url b t =
      (match wcByte? a.wc with
       | none => none
       | some wcb =>
         match Model.crc16 (Generated.addrTag b t :: wcb :: a.hash) with
         | none => none
         | some crc => some (Base64.encode url ((Generated.addrTag b t :: wcb :: a.hash) ++ crc))) := by
  rw [(c13_src_tag b t).2]
  cases b <;> cases t <;> rfl

/-- `is_b64` of the hand model sets exactly the regenerated flags (a fresh object: both flags `False` before). -/
theorem c13_src_model_b64 (s : List Char) :
    isB64 s =
      (match Base64.decodeUrlsafe s with
       | none => none
       | some [] => none
       | some (tag0 :: rest) =>
         let d := tag0 :: rest
         match Model.crc16 (d.take 34) with
         | none => none
         | some crc =>
           if d.drop 34 != crc then none
           else some { wc := signedByte ((d.drop 1).take 1), hash := (d.drop 2).take 32,
                       bounceable := Generated.b64Bounceable tag0 false false,
                       testOnly := Generated.b64TestOnly tag0 false false }) := by
  unfold isB64
  cases hd : Base64.decodeUrlsafe s with
  | none => rfl
  | some d =>
    cases d with
    | nil => rfl
    | cons tag0 rest =>
      have h256 : tag0 < 256 := decodeUrlsafe_wf s _ hd tag0 (by simp)
      obtain ⟨_, _, h1, h2⟩ := c13_src_b64_flags tag0 h256 false false
      simp only [h1, h2, Bool.false_or]
      cases Model.crc16 (List.take 34 (tag0 :: rest)) with
      | none => rfl
      | some crc => rfl

/-- concrete values: the four tags written, and the flags read from each of them and from a foreign tag. -/
example : Generated.addrTag true false = 0x11 ∧ Generated.addrTag false false = 0x51 ∧ Generated.addrTag true true = 0x91 ∧
    Generated.addrTag false true = 0xd1 ∧
    Generated.b64Bounceable 0x11 false false = true ∧ Generated.b64TestOnly 0x11 false false = false ∧
    Generated.b64Bounceable 0x91 false false = true ∧ Generated.b64TestOnly 0x91 false false = true ∧
    Generated.b64Bounceable 0x51 false false = false ∧ Generated.b64TestOnly 0xd1 false false = true ∧
    Generated.b64Bounceable 0x00 false false = false := by decide

end Src

end TonVerif.Properties.C13
