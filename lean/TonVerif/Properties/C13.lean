/-
C13 — address text forms round-trip and the friendly form's checksum is enforced.

All statements are about the hand model of `pytoniq_core/boc/address.py` (Model/Address.lean), of Python's
base64 (Model/Base64.lean) and about `Model.crc16`, the translation of `crypto/crc.py` (C18).
`parse s` = `Address(s)`, `toStr a uf url b t` = `a.to_str(uf, url, b, t)`; `none` = an exception.
-/
import TonVerif.Model.Address
import TonVerif.Proofs.Base64
import TonVerif.Proofs.Address
import TonVerif.Proofs.SrcB64
import TonVerif.Generated.AddrTags
import TonVerif.Proofs.SrcAddr

namespace TonVerif.Properties.C13
open TonVerif TonVerif.Model TonVerif.Model.Address TonVerif.Model.Base64
open TonVerif.Proofs.Base64 TonVerif.Proofs.Address

/-- `base64.b64decode(base64.b64encode(bs)) == bs` for EVERY byte string (all lengths, `=` padding included). -/
theorem c13_b64_roundtrip (bs : Bytes) (hw : Bytes.WF bs) : decode (encode false bs) = some bs :=
  decode_encode bs hw

/-- `base64.urlsafe_b64decode` (what `is_b64` calls) inverts both `urlsafe_b64encode` and `b64encode`,
for EVERY byte string. -/
theorem c13_b64_roundtrip_urlsafe (url : Bool) (bs : Bytes) (hw : Bytes.WF bs) :
    decodeUrlsafe (encode url bs) = some bs :=
  decodeUrlsafe_encode url bs hw

/-- the sextet form of the friendly text (34-byte body ++ CRC = 36 bytes = 48 characters, no padding). -/
theorem friendly_text (a : Addr) (url b t : Bool) (hw : Bytes.WF a.hash) (hlen : a.hash.length = 32)
    (hwc : -128 ≤ a.wc ∧ a.wc ≤ 127) :
    toStr a true url b t =
      some ((sextets (bodyOf a b t ++ be16N (crcV (bodyOf a b t)))).map (encChar url)) := by
  rw [toStr_friendly a url b t hw hwc, encode_eq_map_sextets]
  simp [bodyOf, be16N, hlen]

/-- FRIENDLY ROUND TRIP.  For every workchain in -128..127, every 32-byte hash and each of the 8 variants
(bounceable?, test-only?, url-safe?): `to_str` succeeds and `Address(text)` has the same workchain, the
same hash and exactly the requested flags. (`a`'s own flags are irrelevant, as in the code.) -/
theorem c13_friendly_roundtrip (a : Addr) (hw : Bytes.WF a.hash) (hlen : a.hash.length = 32)
    (hwc : -128 ≤ a.wc ∧ a.wc ≤ 127) (url b t : Bool) :
    ∃ s, toStr a true url b t = some s ∧ s.length = 48 ∧
      parse s = some { wc := a.wc, hash := a.hash, bounceable := b, testOnly := t } := by
  refine ⟨_, toStr_friendly a url b t hw hwc, ?_, ?_⟩
  · have hl : (bodyOf a b t ++ be16N (crcV (bodyOf a b t))).length = 36 := by simp [bodyOf, be16N, hlen]
    rw [encode_eq_map_sextets _ _ (by omega), List.length_map]
    have := sextets_length _ (show (bodyOf a b t ++ be16N (crcV (bodyOf a b t))).length % 3 = 0 by omega)
    omega
  · unfold parse
    have hl : (bodyOf a b t ++ be16N (crcV (bodyOf a b t))).length % 3 = 0 := by simp [bodyOf, be16N, hlen]
    have hnc : isHex (encode url (bodyOf a b t ++ be16N (crcV (bodyOf a b t)))) = none := by
      rw [encode_eq_map_sextets _ _ hl]
      exact isHex_no_colon _ (map_encChar_no_colon url _
        (sextets_lt _ (codeword_wf _ (bodyOf_wf a b t hw))))
    rw [hnc]
    exact isB64_friendly a url b t hw hlen hwc

/-- outside -128..127 there is no friendly form: `to_str` raises. -/
theorem c13_friendly_out_of_range (a : Addr) (hwc : ¬ (-128 ≤ a.wc ∧ a.wc ≤ 127)) (url b t : Bool) :
    toStr a true url b t = none :=
  toStr_friendly_none a url b t hwc

/-- SUBSTITUTION REJECTED.  Take any friendly text `s` produced by `to_str` (any workchain in -128..127,
any 32-byte hash, any of the 8 variants), any position `i < 48` and any character `c'` of the SAME
alphabet other than `s[i]`: `Address(s with s[i] := c')` raises.
(All 256 x 2^256 addresses x 8 variants x 48 x 63 substitutions.) -/
theorem c13_substitution_rejected (a : Addr) (hw : Bytes.WF a.hash) (hlen : a.hash.length = 32)
    (url b t : Bool) (s : List Char) (hs : toStr a true url b t = some s)
    (i : Nat) (hi : i < 48) (c' : Char) (hc : c' ∈ alphabet url) (hne : s[i]? ≠ some c') :
    parse (s.set i c') = none := by
  by_cases hwc : -128 ≤ a.wc ∧ a.wc ≤ 127
  · rw [friendly_text a url b t hw hlen hwc] at hs
    injection hs with hs
    obtain ⟨j, hj, rfl⟩ := mem_alphabet hc
    have hbw := bodyOf_wf a b t hw
    have hblen : (bodyOf a b t).length = 34 := by simp [bodyOf, hlen]
    subst hs
    rw [← List.map_set]
    have hSlt := sextets_lt _ (codeword_wf _ hbw)
    have hne' : (sextets (bodyOf a b t ++ be16N (crcV (bodyOf a b t))))[i]? ≠ some j := by
      intro h
      apply hne
      rw [List.getElem?_map, h]; rfl
    unfold parse
    rw [isHex_no_colon]
    · exact isB64_subst_none _ hbw hblen url i j hi hj hne'
    · apply map_encChar_no_colon
      intro x hx
      rcases List.mem_or_eq_of_mem_set hx with h | rfl
      · exact hSlt x h
      · exact hj
  · rw [toStr_friendly_none a url b t hwc] at hs
    cases hs

/-- RAW ROUND TRIP.  Whenever the raw text `"{wc}:{hash.hex()}"` exists (any integer workchain whose `str()`
exists, i.e. at most 4300 digits; any non-empty hash — in particular every 32-byte account id),
`Address(text)` has the same workchain and hash, and both flags false. -/
theorem c13_raw_roundtrip (a : Addr) (hw : Bytes.WF a.hash) (hne : a.hash ≠ []) (url b t : Bool)
    (s : List Char) (hs : toStr a false url b t = some s) :
    parse s = some { wc := a.wc, hash := a.hash, bounceable := false, testOnly := false } := by
  simp only [toStr, Bool.not_false, if_true] at hs
  cases hz : pyStrInt a.wc with
  | none => rw [hz] at hs; cases hs
  | some w =>
    rw [hz] at hs
    injection hs with hs
    rw [← hs]
    unfold parse
    rw [isHex_raw a.wc w a.hash hz hw hne]

/-- the raw text exists for every workchain of at most 4300 decimal digits (CPython's default limit). -/
theorem c13_raw_exists (a : Addr) (h : a.wc.natAbs < 10 ^ (4299 + 1)) (url b t : Bool) :
    (toStr a false url b t).isSome = true := by
  have := pyStrInt_isSome a.wc h
  simp only [toStr, Bool.not_false, if_true]
  cases hz : pyStrInt a.wc with
  | none => rw [hz] at this; cases this
  | some w => rfl

/-- `a == b` implies `a.__hash__() == b.__hash__()` (and therefore `hash(a) == hash(b)`). -/
theorem c13_eq_hash (a b : Addr) (h : Address.eq a b = true) : pyHash a = pyHash b := by
  simp only [Address.eq, Bool.and_eq_true, beq_iff_eq] at h
  simp [pyHash, h.1, h.2]

/-- `a == b` holds EXACTLY when the workchains and the account ids agree (flags do not count): no two different (workchain, id) pairs
compare equal - in particular not the pairs `(wc, id)` / `(wc + k, id - k * 2^s)` that a packing of both fields into one integer with a wrong
width `s` would identify. -/
theorem c13_eq_iff (a b : Addr) : Address.eq a b = true ↔ a.wc = b.wc ∧ a.hash = b.hash := by
  simp [Address.eq]

/-- non-vacuity of the "only if" direction: two addresses that `__hash__` packs to the same integer (workchain + 1, id - 1) are NOT equal. -/
example : pyHash ⟨0, [0, 1], false, false⟩ = pyHash ⟨1, [0, 0], false, false⟩ ∧
    Address.eq ⟨0, [0, 1], false, false⟩ ⟨1, [0, 0], false, false⟩ = false := by decide

/-- `Address(Address(..))` and the tuple form carry the same workchain and hash, hence are `==`. -/
theorem c13_copy_eq (a : Addr) : Address.eq (ofAddr a) a = true ∧ Address.eq (ofTuple a.wc a.hash) a = true := by
  simp [Address.eq, ofAddr, ofTuple]

/-- RE-RENDERING (history independence of `to_str`).  Parse ANY of the 8 friendly texts of an address and render the
resulting object - which now carries the parsed flags `b₁, t₁` - in ANY of the 8 variants: the text is the one the
tuple-built address gives (the object's own flags never leak into `to_str`), and parsing it yields exactly the flags
requested the second time. -/
theorem c13_rerender (a : Addr) (hw : Bytes.WF a.hash) (hlen : a.hash.length = 32)
    (hwc : -128 ≤ a.wc ∧ a.wc ≤ 127) (url₁ b₁ t₁ url₂ b₂ t₂ : Bool) :
    ∃ s₁ a₁ s₂, toStr a true url₁ b₁ t₁ = some s₁ ∧ parse s₁ = some a₁ ∧
      toStr a₁ true url₂ b₂ t₂ = some s₂ ∧ toStr (ofTuple a.wc a.hash) true url₂ b₂ t₂ = some s₂ ∧
      parse s₂ = some { wc := a.wc, hash := a.hash, bounceable := b₂, testOnly := t₂ } := by
  obtain ⟨s₁, h₁, _, hp₁⟩ := c13_friendly_roundtrip a hw hlen hwc url₁ b₁ t₁
  obtain ⟨s₂, h₂, _, hp₂⟩ := c13_friendly_roundtrip
    { wc := a.wc, hash := a.hash, bounceable := b₁, testOnly := t₁ } hw hlen hwc url₂ b₂ t₂
  refine ⟨s₁, _, s₂, h₁, hp₁, h₂, ?_, hp₂⟩
  simpa [toStr, ofTuple] using h₂

/-! ### non-vacuity: a concrete address and its texts -/

/-- the hypotheses of the round-trip / substitution theorems are met by a concrete non-trivial address … -/
def sample : Addr := { wc := -1, hash := List.replicate 32 0x55 }
example : Bytes.WF sample.hash ∧ sample.hash.length = 32 ∧ (-128 ≤ sample.wc ∧ sample.wc ≤ 127) := by decide
/-- … whose bounceable url-safe text is the 48-character string below, which parses back … -/
example : toStr sample true true true false = some "Ef9VVVVVVVVVVVVVVVVVVVVVVVVVVVVVVVVVVVVVVVVVVbxn".toList := by
  decide +kernel
example : parse "Ef9VVVVVVVVVVVVVVVVVVVVVVVVVVVVVVVVVVVVVVVVVVbxn".toList
    = some { wc := -1, hash := List.replicate 32 0x55, bounceable := true, testOnly := false } := by
  decide +kernel
/-- … and is rejected after one substitution (`V` -> `W` at position 10). -/
example : parse ("Ef9VVVVVVVVVVVVVVVVVVVVVVVVVVVVVVVVVVVVVVVVVVbxn".toList.set 10 'W') = none := by
  decide +kernel
example : 'W' ∈ alphabet true := by decide +kernel
/-- the raw form of the same address, and its parse. -/
example : toStr sample false true true false
    = some "-1:5555555555555555555555555555555555555555555555555555555555555555".toList := by
  decide +kernel
example : parse "-1:5555555555555555555555555555555555555555555555555555555555555555".toList
    = some { wc := -1, hash := List.replicate 32 0x55 } := by
  decide +kernel
example : sample.hash ≠ [] := by decide

/-! ## Source-regenerated tag arithmetic (`Generated/AddrTags.lean`: re-translated from boc/address.py on every run)

`Generated.addrTag bounceable testOnly` is the statement sequence of `Address.to_str` that computes the tag byte
(`tag = 0x11`, `if not is_bounceable: tag = 0x51`, `if is_test_only: tag |= 0x80`); `Generated.b64TestOnly tag0 t0 b0` /
`b64Bounceable tag0 t0 b0` are the final values of `self.is_test_only` / `self.is_bounceable` after the tag-decoding
statements of `Address.is_b64` (`tag = decoded[0]` … `if tag == 0x11: self.is_bounceable = True`), as functions of the first
decoded byte and of the flags' previous values (`False` in a fresh object). -/
section Src
open TonVerif.Proofs.SrcB64

/-- the tag byte written by `to_str`, for all four flag combinations: 0x11 / 0x51, with 0x80 or-ed in for test-only. -/
theorem c13_src_tag (b t : Bool) :
    Generated.addrTag_sideOk b t ∧
    Generated.addrTag b t = (if t then (if b then 0x11 else 0x51) ||| 0x80 else (if b then 0x11 else 0x51)) := by
  refine ⟨by cases b <;> cases t <;> decide, ?_⟩
  cases b <;> cases t <;> decide

/-- the flags read back by `is_b64`, for EVERY byte value of `decoded[0]` and every previous flag value: test-only iff
bit 7 is set (or it was set before), bounceable iff the tag with bit 7 cleared is exactly 0x11 (or it was set before). -/
theorem c13_src_b64_flags : ∀ tag0 < 256, ∀ t0 b0 : Bool,
    Generated.b64TestOnly_sideOk tag0 t0 b0 ∧ Generated.b64Bounceable_sideOk tag0 t0 b0 ∧
    Generated.b64TestOnly tag0 t0 b0 = (t0 || (tag0 &&& 0x80) != 0) ∧
    Generated.b64Bounceable tag0 t0 b0 = (b0 || (if (tag0 &&& 0x80) != 0 then tag0 ^^^ 0x80 else tag0) == 0x11) := by
  decide +kernel

/-- `to_str` of the hand model (what `c13_friendly_roundtrip`, `c13_substitution_rejected`, `c13_rerender` … are proved
about) writes exactly the regenerated tag byte. -/
theorem c13_src_model_to_str (a : Addr) (url b t : Bool) :
    toStr a true url b t =
      (match wcByte? a.wc with
       | none => none
       | some wcb =>
         match Model.crc16 (Generated.addrTag b t :: wcb :: a.hash) with
         | none => none
         | some crc => some (Base64.encode url ((Generated.addrTag b t :: wcb :: a.hash) ++ crc))) := by
  rw [(c13_src_tag b t).2]
  cases b <;> cases t <;> rfl

/-- `is_b64` of the hand model sets exactly the regenerated flags (a fresh object: both flags `False` before). -/
theorem c13_src_model_b64 (s : List Char) :
    isB64 s =
      (match Base64.decodeUrlsafe s with
       | none => none
       | some [] => none
       | some (tag0 :: rest) =>
         let d := tag0 :: rest
         match Model.crc16 (d.take 34) with
         | none => none
         | some crc =>
           if d.drop 34 != crc then none
           else some { wc := signedByte ((d.drop 1).take 1), hash := (d.drop 2).take 32,
                       bounceable := Generated.b64Bounceable tag0 false false,
                       testOnly := Generated.b64TestOnly tag0 false false }) := by
  unfold isB64
  cases hd : Base64.decodeUrlsafe s with
  | none => rfl
  | some d =>
    cases d with
    | nil => rfl
    | cons tag0 rest =>
      have h256 : tag0 < 256 := decodeUrlsafe_wf s _ hd tag0 (by simp)
      obtain ⟨_, _, h1, h2⟩ := c13_src_b64_flags tag0 h256 false false
      simp only [h1, h2, Bool.false_or]
      cases Model.crc16 (List.take 34 (tag0 :: rest)) with
      | none => rfl
      | some crc => rfl

/-- concrete values: the four tags written, and the flags read from each of them and from a foreign tag. -/
example : Generated.addrTag true false = 0x11 ∧ Generated.addrTag false false = 0x51 ∧ Generated.addrTag true true = 0x91 ∧
    Generated.addrTag false true = 0xd1 ∧
    Generated.b64Bounceable 0x11 false false = true ∧ Generated.b64TestOnly 0x11 false false = false ∧
    Generated.b64Bounceable 0x91 false false = true ∧ Generated.b64TestOnly 0x91 false false = true ∧
    Generated.b64Bounceable 0x51 false false = false ∧ Generated.b64TestOnly 0xd1 false false = true ∧
    Generated.b64Bounceable 0x00 false false = false := by decide

end Src

/-! ## WHOLE methods regenerated from the source (`Generated/AddrFull.lean`: `Address.__init__`, `is_hex`, `is_b64`, `to_str`, `__eq__`,
`__hash__` re-translated from boc/address.py on every run by harness/translate/addrfull.py)

`Generated.AddrFull.to_str` is the method body statement by statement (raw form `f'{wc}:{hash.hex()}'`; tag byte, signed
workchain byte, hash, CRC16, the two base64 alphabets); `is_b64 (addr := text) …` is the body of the `try` of `Address.is_b64` on an
object whose flags are given: base64 decode, tag / flag decoding, signed workchain byte, hash slice, CRC comparison; its result
is the tuple `(hash_part, is_bounceable, is_test_only, wc)` left behind, `none` = raises OR returns `False` (both make `Address(text)`
raise).  `is_hex` is the body of its `try` (`split(':')` into exactly two parts, `int(hash, 16)`, `int(wc)`, `bytes.fromhex(hash)`),
`none` = returns `False`.  `init_str` / `init_tuple` / `init_addr` are `Address.__init__` for a `str` / `(int, bytes)` / `Address`
argument (the `isinstance` tests resolved by the declared argument type): flags reset, then the dispatch `is_hex`, `is_b64`, raise.
Result = the attributes `(hash_part, is_bounceable, is_test_only, wc)` of the new object.
Hand models of the built-ins used by BOTH sides: `Base64.encode` / `decodeUrlsafe`, `pyStrInt`, `hexChars`, `splitColon`, `pyInt`,
`pyFromHex`; `Model.crc16` is C18's regenerated CRC. -/
section SrcFull
open TonVerif.Generated.AddrFull TonVerif.Proofs.SrcAddr

/-- the regenerated methods ARE the hand model: `to_str` for every address and each of the 16 flag combinations (raw and the 8
friendly variants), `is_b64` for every text on a fresh object, `==` and `__hash__` for every pair. -/
theorem c13_src_fn_methods (a b : Addr) (uf url bo t : Bool) (s : List Char) :
    to_str (is_user_friendly := uf) (is_url_safe := url) (is_bounceable := bo) (is_test_only := t)
      (self_wc := a.wc) (self_hash_part := a.hash) = toStr a uf url bo t ∧
    is_b64 (addr := s) (self_is_bounceable := false) (self_is_test_only := false) =
      ((isB64 s).map fun x => (x.hash, x.bounceable, x.testOnly, x.wc)) ∧
    Generated.AddrFull.eq (self_wc := a.wc) (self_hash_part := a.hash) (other := b) = some (Address.eq a b) ∧
    Generated.AddrFull.hash (self_wc := a.wc) (self_hash_part := a.hash) = some (pyHash a) :=
  ⟨src_to_str_eq a uf url bo t, src_is_b64_eq s, src_eq_eq a b, src_hash_eq a⟩

/-- the regenerated CONSTRUCTOR is the hand model: `Address(text)` = `parse` for EVERY text (same decision to raise, same workchain,
hash and flags), its first stage `is_hex` = `isHex`; `Address((wc, hash))` = `ofTuple`, `Address(address)` = `ofAddr` (flags dropped). -/
theorem c13_src_fn_init (s : List Char) (a : Addr) (wc : Int) (h : Bytes) :
    init_str (address := s) = ((parse s).map fun x => (x.hash, x.bounceable, x.testOnly, x.wc)) ∧
    is_hex (addr := s) = ((isHex s).map fun x => (x.hash, x.wc)) ∧
    init_tuple (address := (wc, h)) = some ((ofTuple wc h).hash, (ofTuple wc h).bounceable, (ofTuple wc h).testOnly, (ofTuple wc h).wc) ∧
    init_addr (address := a) = some ((ofAddr a).hash, (ofAddr a).bounceable, (ofAddr a).testOnly, (ofAddr a).wc) :=
  ⟨src_init_str_eq s, src_is_hex_eq s, (src_init_tuple_eq wc h).1, (src_init_addr_eq a).1⟩

/-- FRIENDLY ROUND TRIP for the regenerated code: for every workchain in -128..127, every 32-byte hash and each of the 8 variants
the regenerated `to_str` returns a 48-character text on which the regenerated constructor `Address(text)` (`init_str`: `is_hex`
declines, `is_b64` accepts) builds exactly this workchain, this hash and the requested flags. -/
theorem c13_src_friendly_roundtrip (a : Addr) (hw : Bytes.WF a.hash) (hlen : a.hash.length = 32)
    (hwc : -128 ≤ a.wc ∧ a.wc ≤ 127) (url b t : Bool) :
    ∃ s, to_str (is_user_friendly := true) (is_url_safe := url) (is_bounceable := b) (is_test_only := t)
        (self_wc := a.wc) (self_hash_part := a.hash) = some s ∧ s.length = 48 ∧
      init_str (address := s) = some (a.hash, b, t, a.wc) ∧ is_hex (addr := s) = none ∧
      is_b64 (addr := s) (self_is_bounceable := false) (self_is_test_only := false) = some (a.hash, b, t, a.wc) := by
  obtain ⟨s, hs, hl, hp⟩ := c13_friendly_roundtrip a hw hlen hwc url b t
  refine ⟨s, by rw [src_to_str_eq]; exact hs, hl, by rw [src_init_str_eq, hp]; rfl, ?_, ?_⟩
  · rw [src_is_hex_eq]
    cases hh : isHex s with
    | none => rfl
    | some x =>
      exfalso
      obtain ⟨f1, f2⟩ := isHex_flags s x hh
      rw [toStr_friendly a url b t hw hwc] at hs
      injection hs with hs
      subst hs
      have hl3 : (bodyOf a b t ++ be16N (crcV (bodyOf a b t))).length % 3 = 0 := by simp [bodyOf, be16N, hlen]
      rw [encode_eq_map_sextets _ _ hl3, isHex_no_colon _ (map_encChar_no_colon url _
        (sextets_lt _ (codeword_wf _ (bodyOf_wf a b t hw))))] at hh
      cases hh
  · rw [toStr_friendly a url b t hw hwc] at hs
    injection hs with hs
    subst hs
    rw [src_is_b64_eq, isB64_friendly a url b t hw hlen hwc]
    rfl

/-- RAW ROUND TRIP for the regenerated code: whenever the regenerated `to_str(is_user_friendly=False)` returns a text (any integer
workchain whose `str()` exists, any non-empty hash - in particular every 32-byte account id), the regenerated constructor
`Address(text)` builds the same workchain and hash with both flags false (it is `is_hex` that accepts). -/
theorem c13_src_raw_roundtrip (a : Addr) (hw : Bytes.WF a.hash) (hne : a.hash ≠ []) (url b t : Bool) (s : List Char)
    (hs : to_str (is_user_friendly := false) (is_url_safe := url) (is_bounceable := b) (is_test_only := t)
      (self_wc := a.wc) (self_hash_part := a.hash) = some s) :
    init_str (address := s) = some (a.hash, false, false, a.wc) := by
  rw [src_to_str_eq] at hs
  rw [src_init_str_eq, c13_raw_roundtrip a hw hne url b t s hs]
  rfl

/-- the regenerated raw text exists for every workchain of at most 4300 decimal digits (so the hypothesis of
`c13_src_raw_roundtrip` is met by every address the library can print). -/
theorem c13_src_raw_exists (a : Addr) (h : a.wc.natAbs < 10 ^ (4299 + 1)) (url b t : Bool) :
    (to_str (is_user_friendly := false) (is_url_safe := url) (is_bounceable := b) (is_test_only := t)
      (self_wc := a.wc) (self_hash_part := a.hash)).isSome = true := by
  rw [src_to_str_eq]
  exact c13_raw_exists a h url b t

/-- SUBSTITUTION REJECTED for the regenerated code: any friendly text the regenerated `to_str` produces, with the character at
any position `i < 48` replaced by another character of the same alphabet, makes the regenerated constructor `Address(text)` raise:
`is_hex` declines it and `is_b64` fails (raise or `False`) — the CRC16 comparison of the source is what rejects it. -/
theorem c13_src_substitution_rejected (a : Addr) (hw : Bytes.WF a.hash) (hlen : a.hash.length = 32)
    (url b t : Bool) (s : List Char)
    (hs : to_str (is_user_friendly := true) (is_url_safe := url) (is_bounceable := b) (is_test_only := t)
      (self_wc := a.wc) (self_hash_part := a.hash) = some s)
    (i : Nat) (hi : i < 48) (c' : Char) (hc : c' ∈ alphabet url) (hne : s[i]? ≠ some c') :
    init_str (address := s.set i c') = none ∧
    is_b64 (addr := s.set i c') (self_is_bounceable := false) (self_is_test_only := false) = none := by
  rw [src_to_str_eq] at hs
  have hp := c13_substitution_rejected a hw hlen url b t s hs i hi c' hc hne
  refine ⟨by rw [src_init_str_eq, hp]; rfl, ?_⟩
  rw [src_is_b64_eq]
  unfold parse at hp
  cases hh : isHex (s.set i c') with
  | none => rw [hh] at hp; simp only at hp; rw [hp]; rfl
  | some x => rw [hh] at hp; cases hp

/-- RE-RENDERING for the regenerated code.  Parse any of the 8 friendly texts of an address with the regenerated constructor; the
object it builds carries the parsed flags `b₁, t₁`; render that object's workchain and hash with the regenerated `to_str` in ANY of
the 8 variants (the regenerated `to_str` has no parameter for the object's own flags: they cannot leak into the text): the text is
the one the tuple-built address `Address((wc, hash))` gives, and the regenerated constructor reads back exactly the flags requested
the second time. -/
theorem c13_src_rerender (a : Addr) (hw : Bytes.WF a.hash) (hlen : a.hash.length = 32)
    (hwc : -128 ≤ a.wc ∧ a.wc ≤ 127) (url₁ b₁ t₁ url₂ b₂ t₂ : Bool) :
    ∃ s₁ h₁ wc₁ s₂ h₀ f₁ f₂ wc₀,
      to_str (is_user_friendly := true) (is_url_safe := url₁) (is_bounceable := b₁) (is_test_only := t₁)
        (self_wc := a.wc) (self_hash_part := a.hash) = some s₁ ∧
      init_str (address := s₁) = some (h₁, b₁, t₁, wc₁) ∧
      to_str (is_user_friendly := true) (is_url_safe := url₂) (is_bounceable := b₂) (is_test_only := t₂)
        (self_wc := wc₁) (self_hash_part := h₁) = some s₂ ∧
      init_tuple (address := (a.wc, a.hash)) = some (h₀, f₁, f₂, wc₀) ∧
      to_str (is_user_friendly := true) (is_url_safe := url₂) (is_bounceable := b₂) (is_test_only := t₂)
        (self_wc := wc₀) (self_hash_part := h₀) = some s₂ ∧
      init_str (address := s₂) = some (a.hash, b₂, t₂, a.wc) := by
  obtain ⟨s₁, h₁, _, hp₁, _⟩ := c13_src_friendly_roundtrip a hw hlen hwc url₁ b₁ t₁
  obtain ⟨s₂, h₂, _, hp₂, _⟩ := c13_src_friendly_roundtrip a hw hlen hwc url₂ b₂ t₂
  exact ⟨s₁, a.hash, a.wc, s₂, a.hash, false, false, a.wc, h₁, hp₁, h₂, (src_init_tuple_eq a.wc a.hash).1, h₂, hp₂⟩

/-- equal addresses have equal hashes, for the regenerated `==` / `__hash__`. -/
theorem c13_src_eq_hash (a b : Addr)
    (h : Generated.AddrFull.eq (self_wc := a.wc) (self_hash_part := a.hash) (other := b) = some true) :
    Generated.AddrFull.hash (self_wc := a.wc) (self_hash_part := a.hash) =
      Generated.AddrFull.hash (self_wc := b.wc) (self_hash_part := b.hash) := by
  rw [src_eq_eq] at h
  rw [src_hash_eq, src_hash_eq, c13_eq_hash a b (by simpa using h)]

/-- the regenerated `__eq__` returns True EXACTLY when the workchains and the account ids agree. -/
theorem c13_src_eq_iff (a b : Addr) :
    Generated.AddrFull.eq (self_wc := a.wc) (self_hash_part := a.hash) (other := b) = some true ↔ a.wc = b.wc ∧ a.hash = b.hash := by
  rw [src_eq_eq]
  simp [Address.eq]

/-- the copies built by the regenerated constructor (`Address(address)`, `Address((wc, hash))`) are `==` the original under the
regenerated `__eq__` (the flags are not compared, and not copied). -/
theorem c13_src_copy_eq (a : Addr) :
    (∃ h f₁ f₂ wc, init_addr (address := a) = some (h, f₁, f₂, wc) ∧
      Generated.AddrFull.eq (self_wc := wc) (self_hash_part := h) (other := a) = some true) ∧
    (∃ h f₁ f₂ wc, init_tuple (address := (a.wc, a.hash)) = some (h, f₁, f₂, wc) ∧
      Generated.AddrFull.eq (self_wc := wc) (self_hash_part := h) (other := a) = some true) := by
  refine ⟨⟨_, _, _, _, (src_init_addr_eq a).1, ?_⟩, ⟨_, _, _, _, (src_init_tuple_eq a.wc a.hash).1, ?_⟩⟩ <;>
    simp [Generated.AddrFull.eq]

/-- non-vacuity: the regenerated methods evaluated on the sample address: its bounceable url-safe text, the text parsed back by the
regenerated constructor, one substituted character rejected, the raw form and its parse, a lenient raw text. -/
example : to_str (is_user_friendly := true) (is_url_safe := true) (is_bounceable := true) (is_test_only := false)
      (self_wc := sample.wc) (self_hash_part := sample.hash) = some "Ef9VVVVVVVVVVVVVVVVVVVVVVVVVVVVVVVVVVVVVVVVVVbxn".toList ∧
    init_str (address := "Ef9VVVVVVVVVVVVVVVVVVVVVVVVVVVVVVVVVVVVVVVVVVbxn".toList) = some (List.replicate 32 0x55, true, false, -1) ∧
    init_str (address := "Ef9VVVVVVVVVVVVVVVVVVVVVVVVVVVVVVVVVVVVVVVVVVbxn".toList.set 10 'W') = none ∧
    to_str (is_user_friendly := false) (is_url_safe := true) (is_bounceable := true) (is_test_only := false)
      (self_wc := sample.wc) (self_hash_part := sample.hash) =
      some "-1:5555555555555555555555555555555555555555555555555555555555555555".toList ∧
    init_str (address := "-1:5555555555555555555555555555555555555555555555555555555555555555".toList) =
      some (List.replicate 32 0x55, false, false, -1) ∧
    init_str (address := " +0_1 : 0aFF ".toList) = some ([0x0a, 0xff], false, false, 1) ∧
    is_hex (addr := "0:0:0".toList) = none ∧ init_str (address := "".toList) = none := by
  decide +kernel

end SrcFull

end TonVerif.Properties.C13
