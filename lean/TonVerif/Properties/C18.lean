/-
C18 — CRC-16/XMODEM and CRC-32C equal their bitwise definitions.

The statements are about `Model.crc16`/`Model.crc32c`, whose integer loop is the
mechanical translation of `pytoniq_core/crypto/crc.py` (regenerated on every run),
for EVERY byte string.
-/
import TonVerif.Model.Crc
import TonVerif.Proofs.Crc

namespace TonVerif.Properties.C18
open TonVerif TonVerif.Spec TonVerif.Proofs.Crc

/-- the integer computed by the translated Python loop is the bitwise CRC-16/XMODEM. -/
theorem c18_crc16_value (data : Bytes) (h : Bytes.WF data) :
    Generated.crc16 data = (Spec.crc16 (data.map (BitVec.ofNat 8))).toNat := by
  unfold Generated.crc16 Spec.crc16
  exact gen16_fold data h 0 0#16 rfl

/-- the integer computed by the translated Python loop is the bitwise CRC-32C. -/
theorem c18_crc32c_value (data : Bytes) (h : Bytes.WF data) :
    Generated.crc32c data = (Spec.crc32c (data.map (BitVec.ofNat 8))).toNat := by
  unfold Generated.crc32c Spec.crc32c
  have := gen32_fold data h 4294967295 0xFFFFFFFF#32 rfl
  simp only [this, BitVec.toNat_xor]
  rfl

theorem natToBE2 (v : Nat) : natToBE 2 v = [(v / 256) % 256, v % 256] := by
  simp [natToBE]

theorem natToBE4 (v : Nat) :
    natToBE 4 v = [(v / 16777216) % 256, (v / 65536) % 256, (v / 256) % 256, v % 256] := by
  simp [natToBE, Nat.div_div_eq_div_mul]

/-- `crc16` never raises and returns the big-endian bytes of CRC-16/XMODEM. -/
theorem c18_crc16 (data : Bytes) (h : Bytes.WF data) :
    Model.crc16 data = some ((be16 (Spec.crc16 (data.map (BitVec.ofNat 8)))).map BitVec.toNat) := by
  unfold Model.crc16 Model.crcToBytes
  rw [c18_crc16_value data h]
  generalize Spec.crc16 _ = V
  have hV : V.toNat < 65536 := V.isLt
  simp only [show Generated.crc16_width = 2 from rfl, show Generated.crc16_bigEndian = some true from rfl,
    toBytesBE?, if_true]
  rw [if_pos (by omega), natToBE2]
  simp [be16, BitVec.toNat_ushiftRight, BitVec.toNat_setWidth, Nat.shiftRight_eq_div_pow]

/-- `crc32c` never raises and returns CRC-32C in the requested byte order. -/
theorem c18_crc32c (data : Bytes) (h : Bytes.WF data) (big : Bool) :
    Model.crc32c data big = some
      ((if big then be32 (Spec.crc32c (data.map (BitVec.ofNat 8)))
        else le32 (Spec.crc32c (data.map (BitVec.ofNat 8)))).map BitVec.toNat) := by
  unfold Model.crc32c Model.crcToBytes
  rw [c18_crc32c_value data h]
  generalize Spec.crc32c _ = V
  have hV : V.toNat < 4294967296 := V.isLt
  simp only [show Generated.crc32c_width = 4 from rfl, show Generated.crc32c_bigEndian = none from rfl,
    toBytesBE?, toBytesLE?]
  cases big <;> simp only [Bool.false_eq_true, if_false, if_true] <;>
    rw [if_pos (by omega)] <;>
    simp [natToBE4, be32, le32, BitVec.toNat_ushiftRight, BitVec.toNat_setWidth,
      Nat.shiftRight_eq_div_pow]

/-! Sanity of the spec itself: the standard check values (tests, not proofs). -/
def check9 : List (BitVec 8) := "123456789".toList.map (fun c => BitVec.ofNat 8 c.toNat)
example : Spec.crc16 check9 = 0x31C3#16 := by decide +kernel
example : Spec.crc32c check9 = 0xE3069283#32 := by decide +kernel
/-- non-vacuity: `Bytes.WF` is satisfiable by a non-trivial input. -/
example : Bytes.WF [0, 255, 17] := by decide

end TonVerif.Properties.C18
