/-
C18 — CRC-16/XMODEM and CRC-32C equal their bitwise definitions.

The statements are about `Model.crc16`/`Model.crc32c`, whose integer loop is the
mechanical translation of `pytoniq_core/crypto/crc.py` (regenerated on every run),
for EVERY byte string.
-/
import TonVerif.Model.Crc
import TonVerif.Proofs.Crc
import TonVerif.Proofs.CrcFramed

namespace TonVerif.Properties.C18
open TonVerif TonVerif.Spec TonVerif.Proofs.Crc TonVerif.Proofs.CrcFramed

/-- the integer computed by the translated Python loop is the bitwise CRC-16/XMODEM. -/
theorem c18_crc16_value (data : Bytes) (h : Bytes.WF data) :
    Generated.crc16 data = (Spec.crc16 (data.map (BitVec.ofNat 8))).toNat := by
  unfold Generated.crc16 Spec.crc16
  exact gen16_fold data h 0 0#16 rfl

/-- the integer computed by the translated Python loop is the bitwise CRC-32C. -/
theorem c18_crc32c_value (data : Bytes) (h : Bytes.WF data) :
    Generated.crc32c data = (Spec.crc32c (data.map (BitVec.ofNat 8))).toNat := by
  unfold Generated.crc32c Spec.crc32c
  have := gen32_fold data h 4294967295 0xFFFFFFFF#32 rfl
  simp only [this, BitVec.toNat_xor]
  rfl

theorem natToBE2 (v : Nat) : natToBE 2 v = [(v / 256) % 256, v % 256] := by
  simp [natToBE]

theorem natToBE4 (v : Nat) :
    natToBE 4 v = [(v / 16777216) % 256, (v / 65536) % 256, (v / 256) % 256, v % 256] := by
  simp [natToBE, Nat.div_div_eq_div_mul]

/-- `crc16` never raises and returns the big-endian bytes of CRC-16/XMODEM. -/
theorem c18_crc16 (data : Bytes) (h : Bytes.WF data) :
    Model.crc16 data = some ((be16 (Spec.crc16 (data.map (BitVec.ofNat 8)))).map BitVec.toNat) := by
  unfold Model.crc16 Model.crcToBytes
  rw [c18_crc16_value data h]
  generalize Spec.crc16 _ = V
  have hV : V.toNat < 65536 := V.isLt
  simp only [show Generated.crc16_width = 2 from rfl, show Generated.crc16_bigEndian = some true from rfl,
    toBytesBE?, if_true]
  rw [if_pos (by omega), natToBE2]
  simp [be16, BitVec.toNat_ushiftRight, BitVec.toNat_setWidth, Nat.shiftRight_eq_div_pow]

/-- `crc32c` never raises and returns CRC-32C in the requested byte order. -/
theorem c18_crc32c (data : Bytes) (h : Bytes.WF data) (big : Bool) :
    Model.crc32c data big = some
      ((if big then be32 (Spec.crc32c (data.map (BitVec.ofNat 8)))
        else le32 (Spec.crc32c (data.map (BitVec.ofNat 8)))).map BitVec.toNat) := by
  unfold Model.crc32c Model.crcToBytes
  rw [c18_crc32c_value data h]
  generalize Spec.crc32c _ = V
  have hV : V.toNat < 4294967296 := V.isLt
  simp only [show Generated.crc32c_width = 4 from rfl, show Generated.crc32c_bigEndian = none from rfl,
    toBytesBE?, toBytesLE?]
  cases big <;> simp only [Bool.false_eq_true, if_false, if_true] <;>
    rw [if_pos (by omega)] <;>
    simp [natToBE4, be32, le32, BitVec.toNat_ushiftRight, BitVec.toNat_setWidth,
      Nat.shiftRight_eq_div_pow]

/-! ### Round 10: framed records - messages that drive the register to zero (the class the harness samples, for ALL inputs) -/

/-- CRC-16/XMODEM of `record ‖ crc16(record) ‖ any number of zero bytes` is 0, for EVERY record: the two big-endian CRC bytes clear the
shift register wherever they stand, and zero bytes keep it clear (bitwise definition). -/
theorem c18_crc16_framed (m : List (BitVec 8)) (k : Nat) :
    Spec.crc16 (m ++ be16 (Spec.crc16 m) ++ List.replicate k 0#8) = 0#16 := by
  unfold Spec.crc16
  rw [List.foldl_append, List.foldl_append]
  generalize List.foldl byte16 0#16 m = c
  simp only [be16, List.foldl_cons, List.foldl_nil]
  rw [byte16_hi, byte16_lo, fold_zero16]

/-- CRC-32C of `record ‖ little-endian UN-INVERTED register of the record ‖ any number of zero bytes` is 0xFFFFFFFF (register 0), for
EVERY record (bitwise definition). -/
theorem c18_crc32c_framed (m : List (BitVec 8)) (k : Nat) :
    Spec.crc32c (m ++ le32 (Spec.crc32c m ^^^ 0xFFFFFFFF#32) ++ List.replicate k 0#8) = 0xFFFFFFFF#32 := by
  unfold Spec.crc32c
  rw [List.foldl_append, List.foldl_append]
  generalize List.foldl byte32 0xFFFFFFFF#32 m = c
  rw [BitVec.xor_assoc, BitVec.xor_self, BitVec.xor_zero]
  simp only [le32, List.foldl_cons, List.foldl_nil]
  rw [byte32_self c]
  rw [show (c >>> 16) = (c >>> 8) >>> 8 by rw [← BitVec.shiftRight_add], byte32_self (c >>> 8)]
  rw [show (c >>> 24) = ((c >>> 8) >>> 8) >>> 8 by rw [← BitVec.shiftRight_add, ← BitVec.shiftRight_add],
    byte32_self ((c >>> 8) >>> 8)]
  rw [byte32_self (((c >>> 8) >>> 8) >>> 8)]
  rw [show (((c >>> 8) >>> 8) >>> 8) >>> 8 = 0#32 by
    rw [← BitVec.shiftRight_add, ← BitVec.shiftRight_add, ← BitVec.shiftRight_add]; ext i hi; simp]
  rw [fold_zero32]; rfl

/-- the same for the CODE of `crc16` (translated from crc.py): if `crc16(data)` returns `c`, then `crc16(data + c + bytes(k))` returns
`b'\x00\x00'`, for every byte string `data` and every `k` - whatever fast path the code takes, the register must pass through 0. -/
theorem c18_crc16_framed_code (data : Bytes) (h : Bytes.WF data) (k : Nat) (c : Bytes)
    (hc : Model.crc16 data = some c) :
    Model.crc16 (data ++ c ++ List.replicate k 0) = some [0, 0] := by
  rw [c18_crc16 data h] at hc
  injection hc with hc
  subst hc
  rw [c18_crc16 _ (wf_framed _ _ k h (wf_map_toNat _))]
  simp only [List.map_append, map_ofNat_toNat, List.map_replicate]
  rw [show BitVec.ofNat 8 0 = 0#8 from rfl, c18_crc16_framed]
  rfl

/-- the same for the CODE of `crc32c`: if `crc32c(data)` (little-endian, the default) returns `c`, then
`crc32c(data + bytes(b ^ 0xff for b in c) + bytes(k), byteorder)` returns `b'\xff\xff\xff\xff'` in either byte order. -/
theorem c18_crc32c_framed_code (data : Bytes) (h : Bytes.WF data) (k : Nat) (c : Bytes) (big : Bool)
    (hc : Model.crc32c data false = some c) :
    Model.crc32c (data ++ c.map (fun b => b ^^^ 255) ++ List.replicate k 0) big = some [255, 255, 255, 255] := by
  rw [c18_crc32c data h] at hc
  injection hc with hc
  subst hc
  simp only [Bool.false_eq_true, if_false]
  rw [map_xor255, ← le32_inv]
  rw [c18_crc32c _ (wf_framed _ _ k h (wf_map_toNat _))]
  simp only [List.map_append, map_ofNat_toNat, List.map_replicate]
  rw [show BitVec.ofNat 8 0 = 0#8 from rfl, c18_crc32c_framed]
  cases big <;> rfl

/-- non-vacuity: the hypotheses of the two `_framed_code` theorems are met by a concrete record, and the conclusion is what the
evaluated code gives on the framed message. -/
example : Model.crc16 [49, 50, 51] = some [151, 82] := by decide +kernel
example : Model.crc16 ([49, 50, 51] ++ [151, 82] ++ List.replicate 3 0) = some [0, 0] := by decide +kernel
example : Model.crc32c [49, 50, 51] false = some [178, 47, 123, 16] := by decide +kernel
example : Model.crc32c ([49, 50, 51] ++ [178, 47, 123, 16].map (fun b => b ^^^ 255) ++ List.replicate 5 0) true
    = some [255, 255, 255, 255] := by decide +kernel

/-! Sanity of the spec itself: the standard check values (tests, not proofs). -/
def check9 : List (BitVec 8) := "123456789".toList.map (fun c => BitVec.ofNat 8 c.toNat)
example : Spec.crc16 check9 = 0x31C3#16 := by decide +kernel
example : Spec.crc32c check9 = 0xE3069283#32 := by decide +kernel
/-- non-vacuity: `Bytes.WF` is satisfiable by a non-trivial input. -/
example : Bytes.WF [0, 255, 17] := by decide

end TonVerif.Properties.C18
