/-
C14 — TL serialisation inverts TL parsing and follows TL framing for the bundled schemas.
-/
import TonVerif.Proofs.Tl

namespace TonVerif.Properties.C14
open TonVerif TonVerif.Spec.Tl TonVerif.Model.Tl TonVerif.Proofs.Tl

/-- framing of `bytes`/`string` for EVERY length below 2^24 (0, 253, 254, 2^24-1, every residue mod 4):
what `serialize_field` writes is the TL framing, its length is a multiple of 4, and the parser's framing
reader returns exactly the content and skips exactly the frame, whatever follows. -/
theorem c14_string_lengths (b rest : Bytes) (hl : b.length < 2 ^ 24) :
    frame b = encodeBytes b ∧ (encodeBytes b).length % 4 = 0 ∧
      readFrame (encodeBytes b ++ rest) = (b, b.length, (encodeBytes b).length) :=
  ⟨frame_eq_encodeBytes b, encodeBytes_length_mod4 b, readFrame_encodeBytes b rest hl⟩

end TonVerif.Properties.C14
