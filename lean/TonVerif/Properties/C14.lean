/-
C14 — TL serialisation inverts TL parsing and follows TL framing for the bundled schemas.

`Model.Tl.serialize / deserialize` mirror `TlSchemas.serialize / deserialize` of pytoniq_core/tl/generator.py
and are generic in the schema table `T`; `Generated.Tl.table` is the table of all bundled constructors
(lite_api.tl, ton_api.tl, tonlib_api.tl), regenerated from the library on every run.  `Spec.Tl.tlEncode T P c v bs`
says: `v` is a well-typed canonical value of constructor `c` (any flag combination, nesting, polymorphic
objects, vectors, strings of any length < 2^24) and `bs` is its boxed TL binary encoding.  `fuel` is the
recursion-depth budget of the Python calls: statements hold for every sufficiently large budget.
The generic theorems need `TableOK T` (ids < 2^32; constructors sharing an id agree in name and fields; every
conditional field's flags variable precedes it and is the one `result.get('mode', result.get('flags'))`
finds), which `c14_table_wf` establishes for the bundled table by kernel evaluation.
With auto-deserialisation on the parse returns `normalize v` (Model/TlNorm.lean: every `bytes`/`string` content run
through the library's re-parse loop); `c14_fuel_suffices` bounds the needed budget by `tlFuel R (input length)` for
tables without a cycle of bare references (`NoBareCycle T R`; `c14_table_bare_depth`: R = 5 for the bundled table).
-/
import TonVerif.Proofs.TlTable
import TonVerif.Proofs.TlFuel
import TonVerif.Proofs.TlBare
import TonVerif.Proofs.TlVec
import TonVerif.Proofs.TlMono
import TonVerif.Proofs.SrcTl
import TonVerif.Generated.TlFraming
import TonVerif.Proofs.SrcTlEngine
import TonVerif.Proofs.SrcTlParser

namespace TonVerif.Properties.C14
open TonVerif TonVerif.Spec.Tl TonVerif.Model.Tl TonVerif.Proofs.Tl

/-- constructor ids: for EVERY bundled constructor the id the library computed (`TlRegistrator.get_id`, or the
explicit `#id`) equals the id of the independently normalised declaration text — CRC-32 (IEEE) recomputed
bit by bit in Lean. -/
theorem c14_table_ids : ∀ c ∈ Generated.Tl.ctors, c.id = tlId c.decl := Proofs.TlTable.table_ids

/-- the bundled table meets the well-formedness conditions used below (`TableWF`). -/
theorem c14_table_wf : TableOK Generated.Tl.table := Proofs.TlTable.table_ok

/-- wire format: for every table, every constructor and every well-typed value, `serialize` returns exactly
the TL binary encoding (little-endian id and integers, framed and padded strings, counted vectors, flag-selected
optional fields). -/
theorem c14_wire (T : Table) (P : Bytes → Prop) (c : Ctor) (v : Val) (bs : Bytes) (h : tlEncode T P c v bs) :
    ∃ N, ∀ fuel, N ≤ fuel → serialize T fuel c v = some bs := by
  obtain ⟨fs, body, rfl, _, hb, rfl⟩ := h
  exact wire_top T P c fs body hb

/-- round trip, auto-deserialisation off: parsing the serialisation of a well-typed value (followed by
anything) returns the same value and reports exactly the serialised length as consumed. -/
theorem c14_roundtrip_plain (T : Table) (hT : TableOK T) (c : Ctor) (hc : c ∈ T.ctors) (v : Val) (bs : Bytes)
    (h : tlEncode T (fun _ => True) c v bs) :
    ∃ N, ∀ fuel, N ≤ fuel → ∀ rest,
      serialize T fuel c v = some bs ∧ deserialize T false fuel (bs ++ rest) = some (v, bs.length) := by
  obtain ⟨N1, h1⟩ := c14_wire T _ c v bs h
  obtain ⟨fs, body, rfl, hcan, hb, rfl⟩ := h
  obtain ⟨N2, h2⟩ := roundtrip_top T _ false hT (fun h => by cases h) c hc fs body hcan hb
  exact ⟨max N1 N2, fun fuel hf rest => ⟨h1 fuel (by omega), h2 fuel (by omega) rest⟩⟩

/-- round trip, auto-deserialisation ON, in general (DESIGN §6 `c14_roundtrip_auto`): for every constructor of any
table satisfying `TableOK`, every well-typed value `v` and whatever follows the serialisation,
`deserialize(serialize(c, v) + rest)` returns `(normalize v, len(serialize(c, v)))`, and raises exactly when `normalize v`
is `none`.  `normalize T fuel c v` (Model/TlNorm.lean) is `v` in which the content `b` of every `bytes` field - except
the untouchables of a boxed object - has been replaced by `reparse T _ b`, i.e. by what the library's loop
`temp, j = deserialize(b); while j < len(b): ...` makes of it (an object, a list, or `b` itself); a `string` field
whose content is re-parsed into anything but bytes makes the call raise.  No side condition on the contents. -/
theorem c14_roundtrip_auto (T : Table) (hT : TableOK T) (c : Ctor) (hc : c ∈ T.ctors) (v : Val) (bs : Bytes)
    (h : tlEncode T (fun _ => True) c v bs) :
    ∃ N, ∀ fuel, N ≤ fuel → ∀ rest,
      serialize T fuel c v = some bs ∧
      deserialize T true fuel (bs ++ rest) = (normalize T fuel c v).map (fun w => (w, bs.length)) := by
  obtain ⟨N1, h1⟩ := c14_wire T _ c v bs h
  obtain ⟨fs, body, rfl, _, hb, rfl⟩ := h
  obtain ⟨N2, h2⟩ := normalized_top T hT c hc fs body hb
  exact ⟨max N1 N2, fun fuel hf rest => ⟨h1 fuel (by omega), h2 fuel (by omega) rest⟩⟩

/-- `normalize v = v` whenever no `bytes`/`string` content of `v` starts with a registered constructor id
(`byIdLE T b = none` for every content `b`: decidable). -/
theorem c14_normalize_id (T : Table) (hT : TableOK T) (c : Ctor) (hc : c ∈ T.ctors) (v : Val) (bs : Bytes)
    (h : tlEncode T (fun b => byIdLE T b = none) c v bs) :
    ∃ N, ∀ fuel, N ≤ fuel → normalize T fuel c v = some v := by
  obtain ⟨fs, body, rfl, hcan, hb, rfl⟩ := h
  exact normalize_id T hT c hc fs body hcan hb

/-- hence, under that side condition, the round trip with auto-deserialisation on is the identity: same value,
exactly the serialised length consumed. -/
theorem c14_roundtrip_auto_id (T : Table) (hT : TableOK T) (c : Ctor) (hc : c ∈ T.ctors) (v : Val) (bs : Bytes)
    (h : tlEncode T (fun b => byIdLE T b = none) c v bs) :
    ∃ N, ∀ fuel, N ≤ fuel → ∀ rest,
      serialize T fuel c v = some bs ∧ deserialize T true fuel (bs ++ rest) = some (v, bs.length) := by
  obtain ⟨N1, h1⟩ := c14_roundtrip_auto T hT c hc v bs
    (by obtain ⟨fs, body, a, b, hb, d⟩ := h; exact ⟨fs, body, a, b, enc_mono T (fun _ _ => trivial) hb, d⟩)
  obtain ⟨N2, h2⟩ := c14_normalize_id T hT c hc v bs h
  refine ⟨max N1 N2, fun fuel hf rest => ?_⟩
  have a := h1 fuel (by omega) rest
  rw [h2 fuel (by omega)] at a
  exact a

/-- the other side of the side condition, in closed form.  A `bytes` content that is the serialisation of ONE
well-typed object is replaced by that object's own normal form (the outer call raises iff the inner one does);
a content that consists of TWO OR MORE serialised well-typed objects (`catSer l`) becomes the list of their normal
forms (`normEach`).  Together with the definition of `normalize` this relates the result for nested objects to
the nested objects' own round trips. -/
theorem c14_reparse_objects (T : Table) (hT : TableOK T) :
    (∀ (c : Ctor) (v : Val) (b : Bytes), c ∈ T.ctors → tlEncode T (fun _ => True) c v b →
      ∃ N, ∀ fuel, N ≤ fuel → reparse T fuel b = normalize T fuel c v) ∧
    (∀ (x y : Ctor × Fields × Bytes) (l : List (Ctor × Fields × Bytes)), AllEnc T (x :: y :: l) →
      ∃ N, ∀ fuel, N ≤ fuel →
        reparse T fuel (catSer (x :: y :: l)) = (normEach T fuel (x :: y :: l)).map (fun ws => .list ws)) := by
  refine ⟨fun c v b hc h => ?_, fun x y l hl => reparse_many T hT x y l hl⟩
  obtain ⟨fs, body, rfl, _, hb, rfl⟩ := h
  exact reparse_one T hT c hc fs body hb

/-- the depth budget is monotone for EVERY table and EVERY input: a parse that returns with budget `fuel` returns the
same value and consumed count with every larger budget (more budget can only turn "recursion too deep" into a result);
hence a normal form that exists (`some w`) at a large budget is the normal form at every larger budget. -/
theorem c14_fuel_monotone (T : Table) :
    (∀ (auto : Bool) (d : Bytes) (fuel fuel' : Nat) (r : Val × Nat), fuel ≤ fuel' →
      deserialize T auto fuel d = some r → deserialize T auto fuel' d = some r) ∧
    (∀ (c : Ctor) (v : Val) (bs : Bytes), TableOK T → c ∈ T.ctors → tlEncode T (fun _ => True) c v bs →
      ∃ N, ∀ fuel fuel' w, N ≤ fuel → fuel ≤ fuel' → normalize T fuel c v = some w → normalize T fuel' c v = some w) := by
  refine ⟨fun auto d fuel fuel' r hf hr => deserialize_mono T auto d fuel fuel' hf r hr, fun c v bs hT hc h => ?_⟩
  obtain ⟨N, hN⟩ := c14_roundtrip_auto T hT c hc v bs h
  refine ⟨N, fun fuel fuel' w h1 h2 hw => ?_⟩
  have a := (hN fuel h1 []).2
  have b := (hN fuel' (by omega) []).2
  rw [hw] at a
  rw [deserialize_mono T true _ fuel fuel' h2 _ a] at b
  cases hn : normalize T fuel' c v with
  | none => rw [hn] at b; simp at b
  | some w' => rw [hn] at b; simp only [Option.map_some, Option.some.injEq, Prod.mk.injEq, and_true] at b; rw [b]

/-- "fuel suffices": if no constructor of the table reaches itself through bare references (`NoBareCycle T R`: bare
references nest at most `R` deep), then for ANY input `d` (well formed or not) and either mode the recursion depth of
`deserialize` is at most `tlFuel R |d| = (|d|/4 + 1)(R + 2)`: every budget from there on gives the same value and
consumed count, or raises alike.  The same holds for the re-parse of a content. -/
theorem c14_fuel_suffices (T : Table) (R : Nat) (hR : NoBareCycle T R) (auto : Bool) (d : Bytes) (fuel : Nat)
    (hf : tlFuel R d.length ≤ fuel) :
    deserialize T auto fuel d = deserialize T auto (tlFuel R d.length) d ∧
      reparse T fuel d = reparse T (tlFuel R d.length) d :=
  ⟨fuel_suffices T R hR auto d fuel hf, reparse_fuel_suffices T R hR d fuel hf⟩

/-- the bundled table has no cycle of bare references: they nest at most 5 deep (kernel evaluation over the
regenerated table). -/
theorem c14_table_bare_depth : NoBareCycle Generated.Tl.table 5 := Proofs.TlBare.no_bare_cycle

/-- the auto round trip with an explicit budget: under `NoBareCycle T R` the normal form `normalize T fuel c v` is
the same `w` for all large budgets, and `deserialize(serialize(c, v) + rest)` returns `(w, len)` (or raises, if `w` is
`none`) with EVERY budget of at least `tlFuel R (len + |rest|)`. -/
theorem c14_roundtrip_auto_explicit (T : Table) (hT : TableOK T) (R : Nat) (hR : NoBareCycle T R) (c : Ctor)
    (hc : c ∈ T.ctors) (v : Val) (bs : Bytes) (h : tlEncode T (fun _ => True) c v bs) :
    ∃ w : Option Val, (∃ N, ∀ fuel, N ≤ fuel → normalize T fuel c v = w) ∧
      ∀ rest fuel, tlFuel R (bs ++ rest).length ≤ fuel →
        deserialize T true fuel (bs ++ rest) = w.map (fun x => (x, bs.length)) := by
  obtain ⟨fs, body, rfl, _, hb, rfl⟩ := h
  exact normalized_explicit T hT R hR c hc fs body hb

/-- the side condition of the vector rule of the spec (`Enc.vector`: element count ≤ encoded length, because the
repaired parser rejects a declared count larger than the remaining input) is implied by the table: a well-typed
element list of a type whose values occupy at least one byte (`minLen T k e ≥ 1`, bare references followed `k` deep)
is never longer than its encoding; every vector field of the bundled table has such an element type (`VecOK`, kernel
evaluation over the regenerated table). -/
theorem c14_vector_side_condition (T : Table) (P : Bytes → Prop) (k : Nat) :
    (∀ (e : ETy) (vs : List Val) (bs : Bytes), 1 ≤ minLen T k e → Enc T P (.many e vs) bs → vs.length ≤ bs.length) ∧
    VecOK Generated.Tl.table 1 :=
  ⟨fun e vs bs hmin h => many_length_le T P k e vs bs hmin h, bundled_vecOK⟩

/-- the round trips instantiated for ALL bundled constructors at once: auto-deserialisation off; on, under the side
condition (identity); on, in general (normal form, explicit budget `tlFuel 5`). -/
theorem c14_bundled (c : Ctor) (hc : c ∈ Generated.Tl.ctors) (v : Val) (bs : Bytes) :
    (tlEncode Generated.Tl.table (fun _ => True) c v bs → ∃ N, ∀ fuel, N ≤ fuel → ∀ rest,
      serialize Generated.Tl.table fuel c v = some bs ∧
      deserialize Generated.Tl.table false fuel (bs ++ rest) = some (v, bs.length)) ∧
    (tlEncode Generated.Tl.table (fun b => byIdLE Generated.Tl.table b = none) c v bs → ∃ N, ∀ fuel, N ≤ fuel → ∀ rest,
      serialize Generated.Tl.table fuel c v = some bs ∧
      deserialize Generated.Tl.table true fuel (bs ++ rest) = some (v, bs.length)) ∧
    (tlEncode Generated.Tl.table (fun _ => True) c v bs →
      ∃ w : Option Val, (∃ N, ∀ fuel, N ≤ fuel → normalize Generated.Tl.table fuel c v = w) ∧
        ∀ rest fuel, tlFuel 5 (bs ++ rest).length ≤ fuel →
          deserialize Generated.Tl.table true fuel (bs ++ rest) = w.map (fun x => (x, bs.length))) :=
  ⟨c14_roundtrip_plain _ c14_table_wf c hc v bs, c14_roundtrip_auto_id _ c14_table_wf c hc v bs,
    c14_roundtrip_auto_explicit _ c14_table_wf 5 c14_table_bare_depth c hc v bs⟩

/-- framing of `bytes`/`string` for EVERY length below 2^24 (0, 253, 254, 2^24-1, every residue mod 4):
what `serialize_field` writes is the TL framing, its length is a multiple of 4, and the parser's framing
reader returns exactly the content and skips exactly the frame, whatever follows. -/
theorem c14_string_lengths (b rest : Bytes) (hl : b.length < 2 ^ 24) :
    frame b = encodeBytes b ∧ (encodeBytes b).length % 4 = 0 ∧
      readFrame (encodeBytes b ++ rest) = (b, b.length, (encodeBytes b).length) :=
  ⟨frame_eq_encodeBytes b, encodeBytes_length_mod4 b, readFrame_encodeBytes b rest hl⟩

/-- block ids: `BlockIdExt.from_bytes(b.to_bytes())` is `b` (80 bytes) for in-range fields and 32-byte hashes;
`from_dict(to_dict())` is the identity for `BlockIdExt` and `BlockId`; `a == b` implies `a = b` and equal
`__hash__` values (`H` = Python's tuple hash, an `int`). -/
theorem c14_blockid (b : BlockIdExt) (s : BlockId) (H : Int × Int × Int × Bytes × Bytes → Int)
    (hw : -2^31 ≤ b.workchain ∧ b.workchain < 2^31) (hs : -2^63 ≤ b.shard ∧ b.shard < 2^63)
    (hq : -2^31 ≤ b.seqno ∧ b.seqno < 2^31) (hr : b.rootHash.length = 32) (hf : b.fileHash.length = 32) :
    (∃ d, b.toBytes = some d ∧ d.length = 80 ∧ BlockIdExt.fromBytes d = b) ∧
    BlockIdExt.fromDict b.toDict = some b ∧ BlockId.fromDict s.toDict = s ∧
    (∀ a, a.pyEq b = true → a = b ∧ a.pyHash H = b.pyHash H) :=
  ⟨blockIdExt_bytes b hw hs hq hr hf, blockIdExt_dict b, blockId_dict s, fun a h => blockIdExt_eq_hash H a b h⟩

/-! ### non-vacuity -/

/-- a toy table: `c10 mode:# data:mode.0?bytes xs:(vector int) = C11` and `c20 inner:c10 any:C11 = C21`. -/
def c10 : Ctor := ⟨10, 11, 0x12345678, [⟨0, none, false, .nat⟩, ⟨2, some (0, 0), false, .bytes⟩, ⟨3, none, true, .int⟩], []⟩
def c20 : Ctor := ⟨20, 21, 0x9abcdef0, [⟨4, none, false, .bare 10⟩, ⟨5, none, false, .boxed 11⟩], []⟩
def toy : Table := ⟨[c10, c20], 0, 1, []⟩

example : TableOK toy := by unfold TableOK; decide

def v10 : Fields := [(0, .int 1), (2, .bytes [1, 2, 3]), (3, .list [.int 5, .int (-1)])]
def b10 : Bytes := intLE 4 1 ++ (encodeBytes [1, 2, 3] ++ ((natToLE 4 2 ++ (intLE 4 5 ++ (intLE 4 (-1) ++ []))) ++ []))

theorem enc10 (P : Bytes → Prop) (hP : P [1, 2, 3]) : Enc toy P (.body c10.args v10) b10 :=
  Enc.bodyReq rfl rfl (Enc.scalar rfl (Enc.nat (by decide) (by decide)))
    (Enc.bodyOn (fl := 0) (bit := 0) (m := 1) rfl rfl (by decide) (by decide) rfl
      (Enc.scalar rfl (Enc.bytes (by decide) (by decide) hP))
      (Enc.bodyReq rfl rfl
        (Enc.vector rfl (by decide) (by decide)
          (Enc.manyCons (Enc.int (by decide) (by decide)) (Enc.manyCons (Enc.int (by decide) (by decide)) Enc.manyNil)))
        Enc.bodyNil))

/-- a value with a set flag bit, a present optional `bytes` field and a two-element vector is well typed. -/
example : tlEncode toy (fun _ => True) c10 (.obj (some 10) v10) (natToLE 4 0x12345678 ++ b10) :=
  ⟨v10, b10, rfl, rfl, enc10 _ trivial, rfl⟩

/-- ... also under the auto-deserialise side condition (its content `010203` is not a registered id). -/
example : tlEncode toy (fun b => byIdLE toy b = none) c10 (.obj (some 10) v10) (natToLE 4 0x12345678 ++ b10) :=
  ⟨v10, b10, rfl, rfl, enc10 _ (by decide), rfl⟩

/-- nesting: a bare and a boxed (polymorphic) reference to `c10`. -/
example : tlEncode toy (fun _ => True) c20
    (.obj (some 20) [(4, .obj (some 10) v10), (5, .obj (some 10) v10)]) (natToLE 4 0x9abcdef0 ++ (b10 ++ ((natToLE 4 0x12345678 ++ b10) ++ []))) :=
  ⟨_, _, rfl, rfl,
    Enc.bodyReq rfl rfl (Enc.scalar rfl (Enc.bare (c := c10) (iv := false) rfl rfl (enc10 _ trivial)))
      (Enc.bodyReq rfl rfl (Enc.scalar rfl (Enc.boxed (c := c10) (iv := false) (by decide) rfl rfl (enc10 _ trivial))) Enc.bodyNil),
    rfl⟩

/-- the other side of the side condition: a `bytes` content that IS a serialised registered object comes back
as that object under auto-deserialisation (and as the raw bytes without it). -/
def inner : Bytes := natToLE 4 0x12345678 ++ (intLE 4 0 ++ natToLE 4 0)
example : byIdLE toy inner ≠ none := by decide
example : deserialize toy true 5 (natToLE 4 0x12345678 ++ (intLE 4 1 ++ (encodeBytes inner ++ natToLE 4 0))) =
    some (.obj (some 10) [(0, .int 1), (2, .obj (some 10) [(0, .int 0), (3, .list [])]), (3, .list [])], 28) := by rfl
example : deserialize toy false 5 (natToLE 4 0x12345678 ++ (intLE 4 1 ++ (encodeBytes inner ++ natToLE 4 0))) =
    some (.obj (some 10) [(0, .int 1), (2, .bytes inner), (3, .list [])], 28) := by rfl

/-- `normalize` on both sides of the side condition: content `010203` (no registered id) is left alone ... -/
example : normalize toy 5 c10 (.obj (some 10) v10) = some (.obj (some 10) v10) := by rfl
/-- ... a content that is one serialised `c10` becomes that object ... -/
example : normalize toy 5 c10 (.obj (some 10) [(0, .int 1), (2, .bytes inner), (3, .list [])]) =
    some (.obj (some 10) [(0, .int 1), (2, .obj (some 10) [(0, .int 0), (3, .list [])]), (3, .list [])]) := by rfl
/-- ... two of them become a list of two objects, three bytes of an unknown id after an object stay bytes in the
list, and contents nest: an object whose own `bytes` field holds an object. -/
example : normalize toy 5 c10 (.obj (some 10) [(0, .int 1), (2, .bytes (inner ++ inner)), (3, .list [])]) =
    some (.obj (some 10) [(0, .int 1),
      (2, .list [.obj (some 10) [(0, .int 0), (3, .list [])], .obj (some 10) [(0, .int 0), (3, .list [])]]),
      (3, .list [])]) := by rfl
example : normalize toy 5 c10 (.obj (some 10) [(0, .int 1), (2, .bytes (inner ++ [7, 7, 7])), (3, .list [])]) =
    some (.obj (some 10) [(0, .int 1),
      (2, .list [.obj (some 10) [(0, .int 0), (3, .list [])], .bytes [7, 7, 7]]), (3, .list [])]) := by rfl
def inner2 : Bytes := natToLE 4 0x12345678 ++ (intLE 4 1 ++ (encodeBytes inner ++ natToLE 4 0))
example : normalize toy 5 c10 (.obj (some 10) [(0, .int 1), (2, .bytes inner2), (3, .list [])]) =
    some (.obj (some 10) [(0, .int 1),
      (2, .obj (some 10) [(0, .int 1), (2, .obj (some 10) [(0, .int 0), (3, .list [])]), (3, .list [])]),
      (3, .list [])]) := by rfl
/-- the value with the nested content is well typed (hypothesis of `c14_roundtrip_auto`), and `inner` is a
serialisation as `c14_reparse_objects` wants it. -/
example : tlEncode toy (fun _ => True) c10 (.obj (some 10) [(0, .int 1), (2, .bytes inner), (3, .list [])])
    (natToLE 4 0x12345678 ++ (intLE 4 1 ++ (encodeBytes inner ++ ((natToLE 4 0 ++ []) ++ [])))) :=
  ⟨_, _, rfl, rfl,
    Enc.bodyReq rfl rfl (Enc.scalar rfl (Enc.nat (by decide) (by decide)))
      (Enc.bodyOn (fl := 0) (bit := 0) (m := 1) rfl rfl (by decide) (by decide) rfl
        (Enc.scalar rfl (Enc.bytes (by decide) (by decide) trivial))
        (Enc.bodyReq rfl rfl (Enc.vector rfl (by decide) (by decide) Enc.manyNil) Enc.bodyNil)), rfl⟩
example : tlEncode toy (fun _ => True) c10 (.obj (some 10) [(0, .int 0), (3, .list [])])
    (natToLE 4 0x12345678 ++ (intLE 4 0 ++ ((natToLE 4 0 ++ []) ++ []))) :=
  ⟨_, _, rfl, rfl,
    Enc.bodyReq rfl rfl (Enc.scalar rfl (Enc.nat (by decide) (by decide)))
      (Enc.bodyOff (fl := 0) (bit := 0) (m := 0) rfl rfl (by decide) (by decide) rfl
        (Enc.bodyReq rfl rfl (Enc.vector rfl (by decide) (by decide) Enc.manyNil) Enc.bodyNil)), rfl⟩

/-- a `string` whose UTF-8 bytes start with a registered id: `normalize` is `none` and the library call raises
(`c30 s:string = C31`, id 0x64636261 = "abcd" little-endian; the content "abcd" is re-parsed into an object and
`.decode()` fails), while without auto-deserialisation the value comes back. -/
def c30 : Ctor := ⟨30, 31, 0x64636261, [⟨6, none, false, .string⟩], []⟩
def toy2 : Table := ⟨[c10, c20, c30], 0, 1, []⟩
example : TableOK toy2 := by unfold TableOK; decide
example : byIdLE toy2 [97, 98, 99, 100] ≠ none := by decide
example : normalize toy2 5 c30 (.obj (some 30) [(6, .str [97, 98, 99, 100])]) = none := by rfl
example : deserialize toy2 true 5 (natToLE 4 0x64636261 ++ encodeBytes [97, 98, 99, 100]) = none := by rfl
example : deserialize toy2 false 5 (natToLE 4 0x64636261 ++ encodeBytes [97, 98, 99, 100]) =
    some (.obj (some 30) [(6, .str [97, 98, 99, 100])], 12) := by rfl

/-- depth budgets: `toy` has no bare cycle (bare references nest 2 deep), 28 input bytes need at most depth 32; in a
table whose constructor refers to itself by a bare reference (`cyc x:cyc = Cyc`) no budget suffices - `deserialize`
fails for every `fuel` (Python: RecursionError), so the side condition of `c14_fuel_suffices` is needed. -/
example : NoBareCycle toy 2 := by unfold NoBareCycle; decide
example : tlFuel 2 28 = 32 := by decide
def cyc : Table := ⟨[⟨1, 2, 7, [⟨3, none, false, .bare 1⟩], []⟩], 0, 1, []⟩
example (R : Nat) : ¬ NoBareCycle cyc R := by
  intro h
  have key : ∀ k, bareArgsOK cyc k [⟨3, none, false, .bare 1⟩] = false := by
    intro k
    induction k with
    | zero => rfl
    | succ k ih =>
      have hb : cyc.byName 1 = some ⟨1, 2, 7, [⟨3, none, false, .bare 1⟩], []⟩ := by decide
      simp [bareArgsOK, hb, ih]
  have := h _ (List.mem_singleton.mpr rfl)
  rw [key] at this
  cases this
example (fuel : Nat) : deserialize cyc true fuel (natToLE 4 7) = none := by
  have hb : cyc.byName 1 = some ⟨1, 2, 7, [⟨3, none, false, .bare 1⟩], []⟩ := by decide
  have key : ∀ f d, deserObj cyc true f d (some [⟨3, none, false, .bare 1⟩]) = none := by
    intro f
    induction f with
    | zero => intro d; rfl
    | succ f ih => intro d; simp [deserObj, deserBody, deserArg, deserOne, hb, ih]
  cases fuel with
  | zero => rfl
  | succ f =>
    have hid : byIdLE cyc (natToLE 4 7) = some ⟨1, 2, 7, [⟨3, none, false, .bare 1⟩], []⟩ := by decide
    simp [deserialize, deserObj, hid, deserBody, deserArg, deserOne, hb, key]

/-- `c14_vector_side_condition` on the toy table: `xs:(vector int)` elements occupy 4 bytes; the two-element list of
`v10` is shorter than its 8-byte encoding. -/
example : VecOK toy 0 := vecOK_of_b toy 0 (by decide)

/-- block ids: the masterchain shard id with 32-byte hashes meets the hypotheses. -/
example : let b : BlockIdExt := ⟨-1, -9223372036854775808, 5, List.replicate 32 7, List.replicate 32 9⟩
    (-2^31 ≤ b.workchain ∧ b.workchain < 2^31) ∧ (-2^63 ≤ b.shard ∧ b.shard < 2^63) ∧ b.rootHash.length = 32 := by
  decide

/-- the standard CRC-32 check value ("123456789") and the well-known id of `boolTrue = Bool`. -/
example : crc32 [49, 50, 51, 52, 53, 54, 55, 56, 57] = 0xCBF43926 := by decide +kernel
example : tlId [98, 111, 111, 108, 84, 114, 117, 101, 32, 61, 32, 66, 111, 111, 108] = boolTrueId := by decide +kernel

/-! ## Source-regenerated framing arithmetic (`Generated/TlFraming.lean`: re-translated from tl/generator.py on every run)

From `TlSchemas.serialize_field` (bytes / string): `tlShortLen n` = the test `bytes_len <= 253`; `tlShortHeader n` /
`tlLongHeader n` = what is appended to `temp` in the two branches (`n.to_bytes(1, 'little')`, `b'\xFE' + n.to_bytes(3, 'little')`);
`tlPad temp` = the statement `if len(temp) % 4: temp += (4 - len(temp) % 4) * b'\x00'`.
From `TlSchemas.deserialize` (bytes / string): `tlHdrLong data i` = the test `data[i:i+1] == b'\xFE'`; `tlHdrLen`, `tlHdrAttach`,
`tlHdrNext` = the values of `byte_len`, `attach_len`, `i` after the header `if`; `tlSkip i n a` = the value of `i` after
`i += byte_len; if (byte_len + attach_len) % 4: i += 4 - (byte_len + attach_len) % 4`; `tlVecTooLong length total i` = the test of the
vector-length guard (fix 110bf4a) over Python ints. -/
section Src
open TonVerif.Proofs.SrcArith2 TonVerif.Proofs.SrcTl
set_option linter.unusedSimpArgs false

/-- serialising side, for ALL lengths / byte strings: the one-byte form is chosen exactly below 254; the headers are the
little-endian length in 1 byte, resp. `FE` + 3 bytes (whenever the length has such an encoding: `to_bytes` raises beyond, which is
the side condition); the padding statement brings the length to the next multiple of 4 with zero bytes. -/
theorem c14_src_frame_tests (n : Nat) (temp : Bytes) :
    (Generated.tlShortLen_sideOk n ∧ (n < 256 → Generated.tlShortHeader_sideOk n) ∧ (n < 2 ^ 24 → Generated.tlLongHeader_sideOk n) ∧
     Generated.tlPad_sideOk temp) ∧
    Generated.tlShortLen n = decide (n ≤ 253) ∧
    Generated.tlShortHeader n = natToLE 1 n ∧
    Generated.tlLongHeader n = 254 :: natToLE 3 n ∧
    Generated.tlPad temp = (if temp.length % 4 ≠ 0 then temp ++ List.replicate (4 - temp.length % 4) 0 else temp) := by
  refine ⟨⟨by simp only [Generated.tlShortLen_sideOk] <;> src_prop, ?_, ?_, ?_⟩, ?_, ?_, ?_, ?_⟩
  · intro h; simp only [Generated.tlShortHeader_sideOk] <;> omega
  · intro h; simp only [Generated.tlLongHeader_sideOk] <;> omega
  · simp only [Generated.tlPad_sideOk] <;> omega
  · simp only [Generated.tlShortLen] <;> src_bool
  · simp only [Generated.tlShortHeader, py_toBytes_le] <;> src_close
  · simp only [Generated.tlLongHeader, py_toBytes_le, List.cons_append, List.nil_append, List.singleton_append] <;> src_close
  · simp only [Generated.tlPad, py_repeat_zero] <;> src_close

/-- `frame` of the hand model (the framing `c14_roundtrip`, `c14_roundtrip_wire` … are proved about) is exactly the composition of
the regenerated pieces. -/
theorem c14_src_model_frame (b : Bytes) :
    frame b = Generated.tlPad ((if Generated.tlShortLen b.length then Generated.tlShortHeader b.length
                                else Generated.tlLongHeader b.length) ++ b) := by
  obtain ⟨_, h1, h2, h3, _⟩ := c14_src_frame_tests b.length []
  have h4 := fun t => (c14_src_frame_tests 0 t).2.2.2.2
  simp only [h1, h2, h3, h4, frame, decide_eq_true_eq]

/-- parsing side, for ALL inputs and offsets: the long form is recognised by the byte `FE` at `i`; the declared length is the
little-endian number in `data[i+1:i+4]` resp. `data[i:i+1]`; the offset moves by 4 resp. 1; after the content the offset is
advanced to the next multiple of 4 counted from the header. -/
theorem c14_src_read_tests (data : Bytes) (i n a : Nat) :
    (Generated.tlHdrLong_sideOk data i ∧ Generated.tlHdrLen_sideOk data i ∧ Generated.tlHdrAttach_sideOk data i ∧
     Generated.tlHdrNext_sideOk data i ∧ Generated.tlSkip_sideOk i n a) ∧
    Generated.tlHdrLong data i = decide ((data.drop i).take 1 = [254]) ∧
    Generated.tlHdrLen data i = (if (data.drop i).take 1 = [254] then natOfLE (((data.drop i).drop 1).take 3)
                                 else natOfLE ((data.drop i).take 1)) ∧
    Generated.tlHdrAttach data i = (if (data.drop i).take 1 = [254] then 4 else 1) ∧
    Generated.tlHdrNext data i = i + (if (data.drop i).take 1 = [254] then 4 else 1) ∧
    Generated.tlSkip i n a = i + n + (if (n + a) % 4 ≠ 0 then 4 - (n + a) % 4 else 0) := by
  have s1 : Py.slice data i (i + 1) = (data.drop i).take 1 := py_slice_shift0 data i 1
  have s3 : Py.slice data (i + 1) (i + 4) = ((data.drop i).drop 1).take 3 := by
    rw [py_slice_shift data i 1 4]; simp [Py.slice, List.take_drop]
  refine ⟨⟨by simp only [Generated.tlHdrLong_sideOk] <;> src_prop, by simp only [Generated.tlHdrLen_sideOk] <;> src_prop,
    by simp only [Generated.tlHdrAttach_sideOk] <;> src_prop, by simp only [Generated.tlHdrNext_sideOk] <;> src_prop,
    by simp only [Generated.tlSkip_sideOk] <;> omega⟩, ?_, ?_, ?_, ?_, ?_⟩
  · simp only [Generated.tlHdrLong, s1] <;> src_bool
  · simp only [Generated.tlHdrLen, s1, s3, py_fromBytes_le] <;> src_close
  · simp only [Generated.tlHdrAttach, s1, s3] <;> src_close
  · simp only [Generated.tlHdrNext, s1, s3] <;> src_close
  · simp only [Generated.tlSkip] <;> src_close

/-- `readFrame` of the hand model on `data[i:]` = (content, declared length, bytes consumed) written with the regenerated
pieces evaluated at the absolute offset `i`. -/
theorem c14_src_model_read (data : Bytes) (i : Nat) :
    readFrame (data.drop i) =
      ((data.drop (Generated.tlHdrNext data i)).take (Generated.tlHdrLen data i), Generated.tlHdrLen data i,
       Generated.tlSkip (Generated.tlHdrNext data i) (Generated.tlHdrLen data i) (Generated.tlHdrAttach data i) - i) := by
  obtain ⟨_, _, h2, h3, h4, _⟩ := c14_src_read_tests data i 0 0
  have h5 := fun i n a => (c14_src_read_tests data i n a).2.2.2.2.2
  rw [h5, h2, h3, h4]
  unfold readFrame
  by_cases h : (data.drop i).take 1 = [254]
  · simp only [h, if_true, List.drop_drop]
    refine Prod.ext ?_ (Prod.ext rfl ?_)
    · simp [Nat.add_comm]
    · simp only; split <;> omega
  · simp only [h, if_false, List.drop_drop]
    refine Prod.ext ?_ (Prod.ext rfl ?_)
    · simp [Nat.add_comm]
    · simp only; split <;> omega

/-- the vector-length guard (fix 110bf4a) over Python ints is the model's test on the remaining input: with the 4-byte count read
at offset `i0` of `data`, the guard fires exactly when fewer than `4 + count` bytes remain from `i0` — also when `i0` is already
past the end (`len(data) - i` negative) — and then `deserArg` of the hand model fails. -/
theorem c14_src_vector_guard (data : Bytes) (i0 cnt : Nat) :
    Generated.tlVecTooLong_sideOk cnt data.length (i0 + 4) ∧
    Generated.tlVecTooLong cnt data.length ((i0 : Int) + 4) = decide ((data.drop i0).length < 4 + cnt) := by
  refine ⟨by simp only [Generated.tlVecTooLong_sideOk] <;> src_prop, ?_⟩
  simp only [Generated.tlVecTooLong, List.length_drop, decide_eq_decide] <;> omega

/-- concrete values: 253 / 254 bytes, the two headers, padding of 5 bytes to 8; a long-form header read at offset 2; a guard that
fires past the end of the input. -/
example : Generated.tlShortLen 253 = true ∧ Generated.tlShortLen 254 = false ∧ Generated.tlShortHeader 5 = [5] ∧
    Generated.tlLongHeader 258 = [254, 2, 1, 0] ∧ Generated.tlPad [5, 1, 2, 3, 4] = [5, 1, 2, 3, 4, 0, 0, 0] ∧
    Generated.tlHdrLong [9, 9, 254, 2, 1, 0] 2 = true ∧ Generated.tlHdrLen [9, 9, 254, 2, 1, 0] 2 = 258 ∧
    Generated.tlHdrNext [9, 9, 254, 2, 1, 0] 2 = 6 ∧ Generated.tlSkip 1 5 1 = 8 ∧
    Generated.tlVecTooLong 0 3 4 = true ∧ Generated.tlVecTooLong 2 6 4 = false := by decide

end Src

/-! ### The engine regenerated from source (Generated/TlEngine.lean)

`harness/translate/tlengine.py` (translator `pydyn.py` on `pyobj.py`) re-translates on every run the METHODS of
`pytoniq_core/tl/generator.py`: the class dict `TlSchemas.base_types` (`baseKey` / `baseLen`), `TlSchema.little_id`,
`TlSchemas.serialize_field` and `TlSchemas.serialize` as Lean functions over dynamically typed values (`Val`), schema records (`Ctor`
of the regenerated table) and classified type strings (`Py.Tl.TyS`); recursion is open (`rec_serialize`, `rec_serialize_field`) and tied
by `serializeF` with an explicit depth budget (one unit per nested `serialize`).  Meaning of the Python built-ins: `PyTl.lean`. -/
section SrcEngine
open TonVerif.Generated.TlEngine TonVerif.Proofs.SrcTlEngine TonVerif.Py.Tl

/-- THE TIE of the serialiser, for ALL tables, constructors, values (well typed or not) and depth budgets: the regenerated
`schemas.serialize(schema, data, boxed)` is the hand model's `serObj` (same bytes, same decision to raise: OverflowError of
`to_bytes`, KeyError of a missing field, unknown `@type`, `bytes.fromhex`, unknown implicit value, a content of 2^24 bytes or more,
`None` for the schema, a non-dict for an object with fields), hence `Model.Tl.serialize` on dicts; and the regenerated
`serialize_field(type_, value)` on the type string of ANY field (flags prefix stripped as `serialize` does) is the model's `serArg`:
`isinstance` dispatch bool / bytes / int / str of the fixed-size types with `signed = type_ != '#'`, the string / bytes framing with the
`<= 253` boundary and zero padding, nested objects in `bytes`, boxed classes with one / several constructors, bare references written
without id, vectors with their 4-byte count. -/
theorem c14_src_serializer (T : Table) (fuel : Nat) (c : Ctor) (v : Val) (boxed : Bool) :
    serializeF T fuel (some c) v boxed = (objFields? c v).bind (fun fs => serObj T fuel c fs boxed) ∧
    serializeF T fuel none v boxed = none ∧
    (∀ ty fs, serializeF T fuel (some c) (.obj ty fs) true = Model.Tl.serialize T fuel c (.obj ty fs)) ∧
    (∀ (a : Arg) x, serializeFieldAt T (serializeF T fuel) ⟨none, a.vec, a.ty⟩ x = serArg T (serObj T fuel) a x) :=
  ⟨(src_serialize_rel T fuel).2 c v boxed, (src_serialize_rel T fuel).1 v boxed,
   fun ty fs => by rw [src_serialize_eq_model]; rfl,
   fun a x => serialize_field_arg T _ _ _ (src_serialize_rel T fuel)
     (fun e y => serialize_field_one T _ _ _ (src_serialize_rel T fuel) e y) a x⟩

/-- `c14_wire` for the REGENERATED serialiser: for every table, every constructor and every well-typed value the code's
`serialize` returns exactly the TL binary encoding (for every large enough depth budget). -/
theorem c14_src_wire (T : Table) (P : Bytes → Prop) (c : Ctor) (v : Val) (bs : Bytes) (h : tlEncode T P c v bs) :
    ∃ N, ∀ fuel, N ≤ fuel → serializeF T fuel (some c) v true = some bs := by
  obtain ⟨N, hN⟩ := c14_wire T P c v bs h
  obtain ⟨fs, body, rfl, _, _, _⟩ := h
  exact ⟨N, fun fuel hf => by rw [src_serialize_eq_model]; exact hN fuel hf⟩

/-- `c14_string_lengths`, serialising side, for the REGENERATED `serialize_field` and EVERY content: a `bytes` value (and a `str`
value of a `string` field, through `.encode()`) of fewer than 2^24 bytes is written as the TL framing `encodeBytes` - one length byte
below 254, `FE` + 3 little-endian bytes from 254 on, zero padding to a multiple of 4 - whose length is a multiple of 4; from 2^24
bytes on the call raises (`to_bytes(3)` overflows) instead of writing a truncated length.  (Parsing side: `c14_src_read_tests`,
`c14_src_model_read`, `c14_string_lengths`.) -/
theorem c14_src_string_lengths (T : Table) (ser : Option Ctor → Val → Bool → Option Bytes) (recf : TyS → Val → Option Bytes) (b : Bytes) :
    (b.length < 2 ^ 24 →
      serialize_field T ser recf (TyS.base .bytes) (.bytes b) = some (encodeBytes b) ∧
      serialize_field T ser recf (TyS.base .string) (.str b) = some (encodeBytes b) ∧
      serialize_field T ser recf (TyS.base .string) (.bytes b) = some (encodeBytes b) ∧
      (encodeBytes b).length % 4 = 0) ∧
    (¬ b.length < 2 ^ 24 → serialize_field T ser recf (TyS.base .bytes) (.bytes b) = none) := by
  have k1 : serialize_field T ser recf (TyS.base .bytes) (.bytes b) = frame? b := by
    simp [serialize_field, baseKey, baseLen, TyS.base, isStr, isDict, isBytes, getBytes, repeatI_zero, lt_254, frame_core, Option.bind_assoc]
  have k2 : serialize_field T ser recf (TyS.base .string) (.str b) = frame? b := by
    simp [serialize_field, baseKey, baseLen, TyS.base, isStr, isDict, isBytes, getBytes, encodeStr, repeatI_zero, lt_254, frame_core, Option.bind_assoc]
  have k3 : serialize_field T ser recf (TyS.base .string) (.bytes b) = frame? b := by
    simp [serialize_field, baseKey, baseLen, TyS.base, isStr, isDict, isBytes, getBytes, repeatI_zero, lt_254, frame_core, Option.bind_assoc]
  refine ⟨fun hl => ?_, fun hl => by rw [k1]; simp [frame?, hl]⟩
  simp [k1, k2, k3, frame?, hl, frame_eq_encodeBytes, encodeBytes_length_mod4]

/-- the regenerated tables: what `base_types` holds (fixed sizes, `None` for the framed types) -/
theorem c14_src_base_types (e : ETy) :
    baseLen (TyS.base e) = fixedLen e ∧
    (baseKey (TyS.base e) = true ↔ e = .int ∨ e = .long ∨ e = .nat ∨ e = .int128 ∨ e = .int256 ∨ e = .bool ∨ e = .bytes ∨ e = .string) ∧
    ∀ c : Ctor, little_id (idBytes c) = some (natToLE 4 c.id) := by
  refine ⟨by cases e <;> rfl, by cases e <;> simp [baseKey, TyS.base], little_id_eq⟩

/-- non-vacuity: the regenerated serialiser evaluated on the toy table (flags field, conditional bytes, vector, bare and boxed
reference), on the 253 / 254 boundary and on a signed / unsigned `#` distinction; an ill-typed value raises. -/
example : serializeF toy 3 (some c10) (.obj (some 10) v10) true = some (natToLE 4 0x12345678 ++ b10) := by decide
example : serializeF toy 3 (some c20) (.obj (some 20) [(4, .obj none [(0, .int 0), (3, .list [])]), (5, .obj (some 10) [(0, .int 0), (3, .list [])])]) true =
    some (natToLE 4 0x9abcdef0 ++ ((natToLE 4 0 ++ natToLE 4 0) ++ (natToLE 4 0x12345678 ++ (natToLE 4 0 ++ natToLE 4 0)))) := by decide
example : serializeFieldAt toy (serializeF toy 1) (TyS.base .nat) (.int (2 ^ 31)) = some [0, 0, 0, 128] ∧
    serializeFieldAt toy (serializeF toy 1) (TyS.base .int) (.int (2 ^ 31)) = none ∧
    serializeFieldAt toy (serializeF toy 1) (TyS.base .nat) (.int (-1)) = none ∧
    serializeFieldAt toy (serializeF toy 1) (TyS.base .bool) (.bool true) = some [0xb5, 0x75, 0x72, 0x99] := by decide
example : (serializeFieldAt toy (serializeF toy 1) (TyS.base .bytes) (.bytes (List.replicate 253 7))).map List.length = some 256 ∧
    ((serializeFieldAt toy (serializeF toy 1) (TyS.base .bytes) (.bytes (List.replicate 254 7))).map (fun x => (x.take 4, x.length))) =
      some ([254, 254, 0, 0], 260) := by decide +kernel

/-- block.py REGENERATED (`Generated.TlEngine.Block`: `BlockIdExt.__init__`, `to_bytes`, `from_bytes`, `__eq__`, `__hash__`; declared:
the first three attributes are ints, the hashes are bytes): for ALL ids the regenerated methods are the model's `toBytes` (big-endian
signed 4 / 8 / 4 bytes, OverflowError = raises), `fromBytes`, `pyEq`, `pyHash`; hence `c14_blockid` holds of the code as regenerated:
`from_bytes(to_bytes(b)) = b` on 80 bytes for in-range ids, and `a == b` implies `a = b` and equal hashes. -/
theorem c14_src_blockid (a b : BlockIdExt) (d : Bytes) (H : Int × Int × Int × Bytes × Bytes → Int) :
    Block.to_bytes b.fileHash b.rootHash b.seqno b.shard b.workchain = b.toBytes ∧
    Block.from_bytes d = some (BlockIdExt.fromBytes d) ∧
    Block.eq b a.fileHash a.rootHash a.seqno a.shard a.workchain = some (a.pyEq b) ∧
    Block.hash H a.fileHash a.rootHash a.seqno a.shard a.workchain = some (a.pyHash H) ∧
    ((-2^31 ≤ b.workchain ∧ b.workchain < 2^31) → (-2^63 ≤ b.shard ∧ b.shard < 2^63) → (-2^31 ≤ b.seqno ∧ b.seqno < 2^31) →
      b.rootHash.length = 32 → b.fileHash.length = 32 →
      ∃ x, Block.to_bytes b.fileHash b.rootHash b.seqno b.shard b.workchain = some x ∧ x.length = 80 ∧ Block.from_bytes x = some b) ∧
    (Block.eq b a.fileHash a.rootHash a.seqno a.shard a.workchain = some true →
      a = b ∧ Block.hash H a.fileHash a.rootHash a.seqno a.shard a.workchain = Block.hash H b.fileHash b.rootHash b.seqno b.shard b.workchain) := by
  refine ⟨block_to_bytes_eq b, block_from_bytes_eq d, block_eq_eq a b, block_hash_eq H a, ?_, ?_⟩
  · intro hw hs hq hr hf
    obtain ⟨x, h1, h2, h3⟩ := blockIdExt_bytes b hw hs hq hr hf
    exact ⟨x, by rw [block_to_bytes_eq]; exact h1, h2, by rw [block_from_bytes_eq, h3]⟩
  · intro h
    rw [block_eq_eq] at h
    have := blockIdExt_eq_hash H a b (by simpa using h)
    exact ⟨this.1, by rw [block_hash_eq, block_hash_eq, this.2]⟩

example : Block.to_bytes [9] [7] 5 (-9223372036854775808) (-1) =
    some ([255, 255, 255, 255] ++ [128, 0, 0, 0, 0, 0, 0, 0] ++ [0, 0, 0, 5] ++ [7] ++ [9]) ∧
    Block.to_bytes [] [] 0 0 (2 ^ 31) = none := by decide

/-- block.py, the dict forms, REGENERATED (`Generated.TlEngine.Block.to_dict / from_dict / init_dyn`, `BlockIdS.init / init_dyn / to_dict /
from_dict` from `BlockIdExt` / `BlockId`): a Python dict with the str keys `workchain … file_hash` is `dictVal d` (the model's `BlockDict`; hashes
as `.hex()` strings).  For ALL ids / dicts: `to_dict` of both classes is the model's `toDict`; `from_dict` is the model's `fromDict` - `__init__` read
with dynamically typed arguments: `isinstance(root_hash, str)` → `bytes.fromhex`, an absent hash builds no `BlockIdExt`, extra keys are ignored
by `BlockId.from_dict`; hence `from_dict(to_dict(x)) = x` for both classes of the regenerated code; a dict WITHOUT `shard` gets the masterchain shard
`-2^63` (`if shard is None`). -/
theorem c14_src_blockid_dict (b : BlockIdExt) (s : BlockId) (d : BlockDict) (w q : Int) :
    Block.to_dict b.fileHash b.rootHash b.seqno b.shard b.workchain = some (dictVal b.toDict) ∧
    Block.from_dict (dictVal d) = BlockIdExt.fromDict d ∧
    BlockIdS.to_dict s.seqno s.shard s.workchain = some (dictVal s.toDict) ∧
    BlockIdS.from_dict (dictVal d) = some (BlockId.fromDict d) ∧
    Block.from_dict (dictVal b.toDict) = some b ∧ BlockIdS.from_dict (dictVal s.toDict) = some s ∧
    BlockIdS.from_dict (.obj none [(kWorkchain, .int w), (kSeqno, .int q)]) = some ⟨w, -9223372036854775808, q⟩ := by
  refine ⟨block_to_dict_eq b, block_from_dict_eq d, blockid_to_dict_eq s, blockid_from_dict_eq d, ?_, ?_, ?_⟩
  · rw [block_from_dict_eq]; exact blockIdExt_dict b
  · rw [blockid_from_dict_eq, blockId_dict]
  · simp [BlockIdS.from_dict, BlockIdS.init_dyn, dictGet?, List.lookup, kWorkchain, kShard, kSeqno, asInt?]

example : Block.from_dict (.obj none [(kWorkchain, .int (-1)), (kShard, .int 5), (kSeqno, .int 7), (kRootHash, .hex [1, 2]), (kFileHash, .hex [3])]) =
    some ⟨-1, 5, 7, [1, 2], [3]⟩ ∧
    Block.from_dict (.obj none [(kWorkchain, .int (-1)), (kShard, .int 5), (kSeqno, .int 7), (kRootHash, .hex [1, 2])]) = none := by decide

end SrcEngine

/-! ### The PARSER regenerated from source (Generated/TlEngine.lean: `deserialize`, `deserialize_loop1/2/3`, `deserialize_rest1`)

`TlSchemas.deserialize` is re-translated on every run as ONE Lean function per loop body: `deserialize` (the call: id lookup through
`get_by_id(data[0:4], 'little')`, the `@type` entry, the field loop), `deserialize_loop1` (one field: the flags test through
`bin(..)[::-1]`), `deserialize_rest1` (the value of a present field: fixed-size reads, `bytes` / `string` framing and the auto-deserialise
branch, vectors with the guard of fix 110bf4a, bare / boxed references), `deserialize_loop2` (one iteration of `while j < byte_len`),
`deserialize_loop3` (one vector element).  `deserializeF T auto slack fuel` ties the knot: depth budget `fuel` (one unit per nested call; the
call through the pseudo schema `{'_': subtype}` runs at the same depth) and `len(data) + 2 + slack` iterations for the `while` loop.
`TableArgsOK T`: the field names of every constructor are distinct (`schema.args` is a Python dict). -/
section SrcParser
open TonVerif.Generated.TlEngine TonVerif.Proofs.SrcTlParser TonVerif.Py.Tl

/-- THE TIE of the parser, for ALL byte strings (well formed or not), both modes, all depth budgets, all loop budgets from
`len(data) + 2` on and EVERY schema table with distinct field names: the regenerated `schemas.deserialize(data)` is the hand model's
`deserialize` (same value, same consumed count, same decision to raise: `bin(None)`, `.decode()` of invalid UTF-8 or of a re-parsed
object, the vector guard, a missing `'_'` of an invalid `Bool` element, `None.items()`); a boxed call ignores `args`; the bare call
`deserialize(data, False, args)` is the model's bare parse. -/
theorem c14_src_parser (T : Table) (hT : TableArgsOK T) (auto : Bool) (slack fuel : Nat) (d : Bytes) :
    deserializeF T auto slack fuel d true none = Model.Tl.deserialize T auto fuel d ∧
    (∀ args, deserializeF T auto slack fuel d true args = deserObj T auto fuel d none) ∧
    (∀ as, ArgsOK as → deserializeF T auto slack fuel d false (some as) = deserObj T auto fuel d (some as)) :=
  ⟨(src_parser T hT auto slack fuel).1 d none, (src_parser T hT auto slack fuel).1 d, (src_parser T hT auto slack fuel).2 d⟩

/-- the bundled table has distinct field names in every constructor (kernel evaluation over the regenerated table). -/
theorem c14_table_args : TableArgsOK Generated.Tl.table := by
  unfold TableArgsOK ArgsOK; decide +kernel

/-- `c14_roundtrip_plain` on the REGENERATED code on both sides: regenerated `deserialize` ∘ regenerated `serialize` is the identity on
well-typed values (auto-deserialisation off), consuming exactly the serialised length, whatever follows, for every loop budget. -/
theorem c14_src_roundtrip_plain (T : Table) (hT : TableOK T) (hA : TableArgsOK T) (c : Ctor) (hc : c ∈ T.ctors) (v : Val) (bs : Bytes)
    (h : tlEncode T (fun _ => True) c v bs) :
    ∃ N, ∀ fuel, N ≤ fuel → ∀ rest slack,
      serializeF T fuel (some c) v true = some bs ∧ deserializeF T false slack fuel (bs ++ rest) true none = some (v, bs.length) := by
  obtain ⟨N, hN⟩ := c14_roundtrip_plain T hT c hc v bs h
  obtain ⟨N2, hN2⟩ := c14_src_wire T _ c v bs h
  exact ⟨max N N2, fun fuel hf rest slack =>
    ⟨hN2 fuel (by omega), by rw [(c14_src_parser T hA false slack fuel _).1]; exact (hN fuel (by omega) rest).2⟩⟩

/-- `c14_roundtrip_auto` on the REGENERATED code on both sides (auto-deserialisation ON): the parse of the serialisation returns
`normalize v` and the serialised length, and raises exactly when `normalize v` is `none`. -/
theorem c14_src_roundtrip_auto (T : Table) (hT : TableOK T) (hA : TableArgsOK T) (c : Ctor) (hc : c ∈ T.ctors) (v : Val) (bs : Bytes)
    (h : tlEncode T (fun _ => True) c v bs) :
    ∃ N, ∀ fuel, N ≤ fuel → ∀ rest slack,
      serializeF T fuel (some c) v true = some bs ∧
      deserializeF T true slack fuel (bs ++ rest) true none = (normalize T fuel c v).map (fun w => (w, bs.length)) := by
  obtain ⟨N, hN⟩ := c14_roundtrip_auto T hT c hc v bs h
  obtain ⟨N2, hN2⟩ := c14_src_wire T _ c v bs h
  exact ⟨max N N2, fun fuel hf rest slack =>
    ⟨hN2 fuel (by omega), by rw [(c14_src_parser T hA true slack fuel _).1]; exact (hN fuel (by omega) rest).2⟩⟩

/-- `c14_string_lengths`, READING side, for the regenerated code and EVERY content `b` below 2^24 bytes (0, 253, 254, every residue
mod 4): the regenerated field step on a `bytes` field (auto-deserialisation off) at offset `i`, where the input continues with the TL
framing of `b` followed by anything, stores exactly `b` and advances by exactly the frame length (header + content + padding); on a
`string` field it stores the decoded text when `b` is valid UTF-8 and raises otherwise. -/
theorem c14_src_string_lengths_reader (T : Table) (rg rp : Bytes → Bool → Option (List Arg) → Option (Val × Nat))
    (rm : Bytes → Option (List Arg) → Option (Val × Nat)) (hr : RecOK T rg rm) (L : Nat) (data : Bytes) (hL : data.length + 2 ≤ L)
    (k i : Nat) (ty : Option Nat) (acc : Fields) (schema : Option Ctor) (hk : acc.lookup k = none) (b rest : Bytes)
    (hb : b.length < 2 ^ 24) (hd : data.drop i = encodeBytes b ++ rest) :
    deserialize_rest1 T rg rp L false data k i (.obj ty acc) schema (TyS.base .bytes) =
      some (i + (encodeBytes b).length, .obj ty (acc ++ [(k, .bytes b)])) ∧
    deserialize_rest1 T rg rp L false data k i (.obj ty acc) schema (TyS.base .string) =
      (if utf8Valid b then some (i + (encodeBytes b).length, .obj ty (acc ++ [(k, .str b)])) else none) := by
  have hf := readFrame_encodeBytes b rest hb
  constructor
  · have := rest1_bytes T rg rp rm hr L false data k i ty acc schema .bytes hk hL (Or.inl rfl)
    rw [show TyS.base .bytes = ⟨none, false, .bytes⟩ from rfl, this, hd]
    simp [deserOne, hf, stepRes]
  · have := rest1_bytes T rg rp rm hr L false data k i ty acc schema .string hk hL (Or.inr rfl)
    rw [show TyS.base .string = ⟨none, false, .string⟩ from rfl, this, hd]
    by_cases hu : utf8Valid b = true <;> simp [deserOne, hf, stepRes, hu]

/-- non-vacuity: the regenerated parser evaluated on the toy table (flags field, conditional bytes, vector, bare + boxed reference),
with a re-parsed content (auto on) and raw (auto off); the toy tables have distinct field names; an invalid `Bool` is left unset. -/
example : TableArgsOK toy ∧ TableArgsOK toy2 := by unfold TableArgsOK ArgsOK; decide
example : deserializeF toy true 0 5 (natToLE 4 0x12345678 ++ (intLE 4 1 ++ (encodeBytes inner ++ natToLE 4 0))) true none =
    some (.obj (some 10) [(0, .int 1), (2, .obj (some 10) [(0, .int 0), (3, .list [])]), (3, .list [])], 28) := by rfl
example : deserializeF toy false 0 5 (natToLE 4 0x12345678 ++ (intLE 4 1 ++ (encodeBytes inner ++ natToLE 4 0))) true none =
    some (.obj (some 10) [(0, .int 1), (2, .bytes inner), (3, .list [])], 28) := by rfl
example : deserializeF toy true 0 5 (natToLE 4 0x12345678 ++ (intLE 4 1 ++ (encodeBytes (inner ++ inner) ++ natToLE 4 0))) true none =
    some (.obj (some 10) [(0, .int 1),
      (2, .list [.obj (some 10) [(0, .int 0), (3, .list [])], .obj (some 10) [(0, .int 0), (3, .list [])]]), (3, .list [])], 40) := by
  rfl
example : deserializeF toy2 true 0 5 (natToLE 4 0x64636261 ++ encodeBytes [97, 98, 99, 100]) true none = none := by rfl

end SrcParser

end TonVerif.Properties.C14
