/-
C20 — ADNL channel crypto is symmetric between peers; signatures and keys are consistent.   PARTIAL.

PARTIAL in this sense: X25519, the Ed25519↔Curve25519 conversions, AES-256-CTR, SHA-256, Ed25519
signing/verification, HMAC-SHA512 and PBKDF2 are PARAMETERS (`Prims`); the theorems assume only their
textbook algebraic laws (`ChannelLaws`, `SignLaw` in Proofs/Adnl.lean — hypotheses, never axioms) and
prove that the library's OWN logic (which key each side encrypts/decrypts with in each of the three id
orderings, the key/iv slicing, the packet layout, the signing helpers' slicing, the generator's retry loop)
is correct on top of them, for all seeds, ids and plaintexts.  That the real primitives satisfy the laws,
and every REJECTION statement of the property (a signature fails for another message / key / altered
signature = Ed25519 unforgeability), is only TESTED by harness/props/C20.py.

Model: Model/Adnl.lean (mirror of crypto/ciphers.py, crypto/signature.py, crypto/keys.py).
`chanOf P a b ida idb` = `AdnlChannel(Client(a), Server(_, _, ed_pub(b)), local_id = ida, peer_id = idb)`.
-/
import TonVerif.Proofs.Adnl
import TonVerif.Proofs.SrcAdnl
import TonVerif.Proofs.SrcAdnlLoop
import TonVerif.Generated.MnemonicNew

namespace TonVerif.Properties.C20
open TonVerif TonVerif.Model.Adnl TonVerif.Proofs.Adnl
open TonVerif.Generated.AdnlSrc TonVerif.Proofs.SrcAdnl TonVerif.Proofs.SrcAdnlLoop

/-- CHANNEL SYMMETRY.  For any two seeds `a`, `b` and ANY two ids (so: `ida > idb`, `ida < idb`, `ida = idb`),
let `A` be the channel `a` opens towards `b` and `B` the channel `b` opens towards `a`.  For every plaintext `m`:
`A.encrypt(m)` succeeds and is `B.server_aes_key_id ‖ H(m) ‖ body` with `len(body) = len(m)`, and
`B.decrypt(body, H(m)) = m`; and the same with the roles of `A` and `B` exchanged. -/
theorem c20_symmetric {W : Type} (P : Prims W) (L : ChannelLaws P) (a b ida idb m : Bytes) :
    (∃ body, (chanOf P a b ida idb).encrypt P m =
          some ((chanOf P b a idb ida).serverAesKeyId ++ P.H m ++ body) ∧
        body.length = m.length ∧ (chanOf P b a idb ida).decrypt P body (P.H m) = some m) ∧
    (∃ body, (chanOf P b a idb ida).encrypt P m =
          some ((chanOf P a b ida idb).serverAesKeyId ++ P.H m ++ body) ∧
        body.length = m.length ∧ (chanOf P a b ida idb).decrypt P body (P.H m) = some m) :=
  ⟨one_way P L a b ida idb m, one_way P L b a idb ida m⟩

/-- the same with counter mode described by its DEFINITION (output = input xor a key stream fixed by key and
initial counter) instead of the involution law: involution and length preservation are then proved, not assumed. -/
theorem c20_symmetric_stream {W : Type} (P : Prims W)
    (dh_comm : ∀ a b, P.dh a (P.xPub b) = P.dh b (P.xPub a))
    (conv : ∀ seed, P.edToXPub (P.edPub seed) = P.xPub (P.edToXPriv seed))
    (H_len : ∀ x, (P.H x).length = 32) (dh_len : ∀ a b, (P.dh a b).length = 32)
    (hs : CtrIsStream P) (a b ida idb m : Bytes) :
    (∃ body, (chanOf P a b ida idb).encrypt P m =
          some ((chanOf P b a idb ida).serverAesKeyId ++ P.H m ++ body) ∧
        body.length = m.length ∧ (chanOf P b a idb ida).decrypt P body (P.H m) = some m) ∧
    (∃ body, (chanOf P b a idb ida).encrypt P m =
          some ((chanOf P a b ida idb).serverAesKeyId ++ P.H m ++ body) ∧
        body.length = m.length ∧ (chanOf P a b ida idb).decrypt P body (P.H m) = some m) :=
  c20_symmetric P (channelLaws_of_stream P dh_comm conv H_len dh_len hs) a b ida idb m

/-- the three-way decision spelled out: with `s` the shared secret, the (enc, dec) keys are
`(s, reverse s)` if `local_id > peer_id`, `(reverse s, s)` if `local_id < peer_id`, `(s, s)` if equal; the
advertised key ids are `H(d4adbc2d ‖ enc)` / `H(d4adbc2d ‖ dec)`; and both ends derive the same `s`. -/
theorem c20_channel_keys {W : Type} (P : Prims W) (L : ChannelLaws P) (a b ida idb : Bytes) :
    let A := chanOf P a b ida idb
    A.shared = (chanOf P b a idb ida).shared ∧
    A.clientAesKeyId = P.H (magicAes ++ A.encKey) ∧ A.serverAesKeyId = P.H (magicAes ++ A.decKey) ∧
    (A.encKey, A.decKey) =
      if bytesLt idb ida then (A.shared, A.shared.reverse)
      else if bytesLt ida idb then (A.shared.reverse, A.shared) else (A.shared, A.shared) := by
  obtain ⟨h1, h2, h3, h4⟩ := chan_keys P a b ida idb
  refine ⟨shared_eq P L a b ida idb, h2, h3, ?_⟩
  rw [h1]; exact h4

/-- `bytesLt` is Python's strict order on `bytes`: asymmetric, and "neither smaller nor greater" is equality —
so the three branches of `__init__` are exactly `local_id > peer_id`, `local_id < peer_id`, `local_id == peer_id`. -/
theorem c20_id_order (a b : Bytes) :
    (bytesLt a b = true → bytesLt b a = false) ∧
    ((bytesLt a b = false ∧ bytesLt b a = false) ↔ a = b) :=
  ⟨bytesLt_asymm a b, ⟨fun h => bytesLt_total a b h.1 h.2, fun h => by subst h; exact ⟨bytesLt_irrefl a, bytesLt_irrefl a⟩⟩⟩

/-- the self channel (same seed, equal ids): what the object encrypts it also decrypts. -/
theorem c20_self_channel {W : Type} (P : Prims W) (L : ChannelLaws P) (a id m : Bytes) :
    ∃ body, (chanOf P a a id id).encrypt P m =
        some ((chanOf P a a id id).serverAesKeyId ++ P.H m ++ body) ∧
      (chanOf P a a id id).decrypt P body (P.H m) = some m := by
  obtain ⟨body, h1, _, h3⟩ := one_way P L a a id id m
  exact ⟨body, h1, h3⟩

/-- the guard of the cipher construction, covered exactly: a cipher object exists iff the key and the
checksum have at least 32 bytes (else "key should be 32 bytes exactly!" / AES.new raises); then its AES key is
`key[0:16] ‖ sum[16:32]` and its initial counter `sum[0:4] ‖ key[20:32]`. -/
theorem c20_cipher_guard (key sum : Bytes) :
    ((cipherParams key sum).isSome ↔ 32 ≤ key.length ∧ 32 ≤ sum.length) ∧
    (32 ≤ key.length → 32 ≤ sum.length → cipherParams key sum =
      some (slice key 0 16 ++ slice sum 16 32, slice sum 0 4 ++ slice key 20 32)) :=
  ⟨cipherParams_isSome_iff key sum, cipherParams_some key sum⟩

/-- SIGNATURES (completeness only).  Given the correctness of the primitive, the signature returned by
`sign_message(m, sk)` has 64 bytes and `verify_sign(pk, m, ·)` accepts it, for `(pk, sk)` the key pair of any
seed; `Client(seed).sign(m)` / `get_signature` returns the same signature and it verifies under the client's
own public key.  NOT proved (only tested): rejection for another message, key or an altered signature. -/
theorem c20_sign {W : Type} (P : Prims W) (S : SignLaw P) (seed m : Bytes) :
    (signMessage P m (P.keypair seed).2).length = 64 ∧
    verifySign P (P.keypair seed).1 m (signMessage P m (P.keypair seed).2) = true ∧
    getSignature P seed m = signMessage P m (P.keypair seed).2 ∧
    verifySign P (Client.new P seed).edPub m (getSignature P seed m) = true := by
  obtain ⟨sig, hl, hs, hv⟩ := S.sign_ok seed m
  have h : signMessage P m (P.keypair seed).2 = sig := by
    unfold signMessage; rw [hs]; exact slice_append_left sig m 64 hl
  refine ⟨by rw [h, hl], by rw [h]; exact hv, rfl, ?_⟩
  show P.verify (P.edPub seed) m (getSignature P seed m) = true
  rw [S.pub_ok seed]
  show P.verify _ m (signMessage P m (P.keypair seed).2) = true
  rw [h]; exact hv

/-- MNEMONICS.  Whatever the random stream, every list RETURNED by `mnemonic_new()` (24 words) passes
`mnemonic_is_valid`, and consists of words of the word list. -/
theorem c20_mnemonic {W : Type} (P : Prims W) (words : List W) (rnd : Nat → Bytes)
    (inner fuel k : Nat) (arr : List W) (k' : Nat)
    (h : mnemonicNew P words rnd 24 inner fuel k = some (arr, k')) :
    mnemonicIsValid P arr = true ∧ ∀ w ∈ arr, w ∈ words := by
  obtain ⟨h1, h2, h3⟩ := mnemonicNew_spec P words rnd 24 inner fuel k arr k' h
  exact ⟨by simp [mnemonicIsValid, h1, h3], h2⟩

/-- noted limitation of the API (outside the property, which is about the default generator):
`mnemonic_new(n)` with `n ≠ 24` returns lists that `mnemonic_is_valid` rejects (by length). -/
theorem c20_mnemonic_other_counts {W : Type} (P : Prims W) (words : List W) (rnd : Nat → Bytes)
    (wc inner fuel k : Nat) (arr : List W) (k' : Nat) (hwc : wc ≠ 24)
    (h : mnemonicNew P words rnd wc inner fuel k = some (arr, k')) :
    mnemonicIsValid P arr = false := by
  obtain ⟨h1, _, _⟩ := mnemonicNew_spec P words rnd wc inner fuel k arr k' h
  simp [mnemonicIsValid, h1, hwc]

/-- every index drawn by `get_secure_random_number(lo, hi)` lies in `[lo, hi)` (so `words[idx]` never raises). -/
theorem c20_random_in_range (rnd : Nat → Bytes) (lo hi fuel k r k' : Nat)
    (h : secureRandomNumber rnd lo hi fuel k = some (r, k')) : lo ≤ r ∧ r < hi :=
  secureRandomNumber_range rnd lo hi fuel k r k' h

/-- key derivation is a function of the word list: the model of `mnemonic_to_private_key` /
`mnemonic_to_wallet_key` / `mnemonic_to_seed` has no state, randomness or I/O besides its arguments, so equal
mnemonics give equal keys.  (In Lean this is congruence; the content is that the MODEL needs no hidden input —
that the library has none is what the correspondence checks by deriving twice.) -/
theorem c20_derivation_deterministic {W : Type} (P : Prims W) (ws ws' : List W) (h : ws = ws') :
    mnemonicToPrivateKey P ws = mnemonicToPrivateKey P ws' ∧
    mnemonicToWalletKey P ws = mnemonicToWalletKey P ws' ∧
    ∀ salt, mnemonicToSeed P ws salt = mnemonicToSeed P ws' salt := by
  subst h; exact ⟨rfl, rfl, fun _ => rfl⟩

/-- `mnemonic_to_wallet_key` equals `mnemonic_to_private_key` whenever the secret key returned by
`crypto_sign_seed_keypair(seed)` starts with the 32-byte seed (libsodium: `sk = seed ‖ pk`) and PBKDF2 returns at
least 32 bytes. -/
theorem c20_wallet_key_eq {W : Type} (P : Prims W) (ws : List W)
    (hsk : ∀ s : Bytes, s.length = 32 → slice (P.keypair s).2 0 32 = s)
    (hlen : ∀ pw salt n, 32 ≤ (P.pbkdf2 pw salt n).length) :
    mnemonicToWalletKey P ws = mnemonicToPrivateKey P ws := by
  unfold mnemonicToWalletKey mnemonicToPrivateKey
  rw [hsk]
  have := hlen (mnemonicToEntropy P ws) saltDefault pbkdfIterations
  simp only [slice_length, mnemonicToSeed]; omega

/-! ## Non-vacuity: toy primitives satisfying every law, and concrete runs

`dh a p = BE32(a·p)` on naturals with `pub = id` (commutative), CTR = xor with a key/iv dependent byte,
`H x = x` padded/truncated to 32 bytes, signature of `m` under `k` = `k ‖ m` padded/truncated to 64 bytes,
HMAC/PBKDF2 = projections, word = its index. -/

theorem natToBE_length : ∀ w v, (natToBE w v).length = w
  | 0, _ => rfl
  | w + 1, v => by simp [natToBE, natToBE_length w]

def pad (n : Nat) (x : Bytes) : Bytes := (x ++ List.replicate n 0).take n
theorem pad_length (n : Nat) (x : Bytes) : (pad n x).length = n := by simp [pad]

def toySig (k m : Bytes) : Bytes := pad 64 (k ++ m)

def toy : Prims Nat where
  H := fun x => pad 32 x
  dh := fun a p => natToBE 32 (natOfBE a * natOfBE p)
  ctr := fun k iv m => m.map (fun b => b ^^^ ((natOfBE k + natOfBE iv) % 256))
  edToXPriv := id
  xPub := id
  edPub := id
  edToXPub := id
  keypair := fun s => (s, s)
  cryptoSign := fun m sk => toySig sk m ++ m
  verify := fun pk m sig => sig == toySig pk m
  hmac512 := fun key _ => key
  pbkdf2 := fun pw _ _ => pw
  joinWords := fun ws => ws

/-- the toy primitives satisfy the channel laws … -/
theorem toy_channel_laws : ChannelLaws toy where
  dh_comm := fun a b => by simp [toy, Nat.mul_comm]
  conv := fun _ => rfl
  ctr_invol := fun k iv m => by
    simp only [toy, List.map_map]
    conv => rhs; rw [← List.map_id m]
    congr 1
    funext b
    simp [Nat.xor_assoc]
  ctr_len := fun k iv m => by simp [toy]
  H_len := fun x => pad_length 32 x
  dh_len := fun a b => natToBE_length 32 _

/-- the toy counter mode is a stream cipher in the sense of `CtrIsStream`. -/
theorem toy_ctr_stream : CtrIsStream toy := by
  refine ⟨fun k iv n => List.replicate n ((natOfBE k + natOfBE iv) % 256), fun _ _ _ => by simp, ?_⟩
  intro k iv m
  simp only [toy, xorBytes]
  generalize (natOfBE k + natOfBE iv) % 256 = c
  induction m with
  | nil => rfl
  | cons x xs ih => simp [List.replicate_succ, ih]

/-- … and the signing law. -/
theorem toy_sign_law : SignLaw toy where
  sign_ok := fun seed m => ⟨toySig seed m, pad_length 64 _, rfl, by simp [toy]⟩
  pub_ok := fun _ => rfl

/-- so the hypotheses of `c20_symmetric` / `c20_sign` are satisfiable; a concrete non-trivial instance
(ids in both orders and equal, 5-byte plaintext) evaluated through the model: -/
example :
    let A := chanOf toy [3, 1] [7] [2, 0] [1, 9]
    let B := chanOf toy [7] [3, 1] [1, 9] [2, 0]
    A.encKey = A.shared ∧ A.decKey = A.shared.reverse ∧ B.encKey = B.shared.reverse ∧ B.decKey = B.shared ∧
    A.shared ≠ A.shared.reverse ∧
    (A.encrypt toy [1, 2, 3, 4, 5]).map (fun p => B.decrypt toy (p.drop 64) (slice p 32 64)) =
      some (some [1, 2, 3, 4, 5]) ∧
    (B.encrypt toy [1, 2, 3, 4, 5]).map (fun p => A.decrypt toy (p.drop 64) (slice p 32 64)) =
      some (some [1, 2, 3, 4, 5]) ∧
    (A.encrypt toy [1, 2, 3, 4, 5]).map (fun p => p.take 32) = some B.serverAesKeyId := by
  decide +kernel

example : verifySign toy [9, 9] [1, 2] (signMessage toy [1, 2] (toy.keypair [9, 9]).2) = true ∧
    verifySign toy [9, 9] [1, 3] (signMessage toy [1, 2] (toy.keypair [9, 9]).2) = false := by
  decide +kernel

example : bytesLt [1] [1, 0] = true ∧ bytesLt [0x7f, 9] [0x80] = true ∧ bytesLt [] [] = false ∧ bytesLt [2] [1, 9] = false := by
  decide

/-- a short key makes `encrypt` raise (the `none` branch is reachable, the guard is not decoration). -/
example : cipherParams (List.replicate 31 0) (List.replicate 32 0) = none ∧
    (cipherParams (List.replicate 32 1) (List.replicate 32 2)).isSome = true := by decide +kernel

/-- the generator model really returns: word list = indices 0..2047, a stream whose first 24 draws give
word 5 (candidate rejected: first entropy byte 5 ≠ 0) and whose next 24 draws give word 0 (accepted). -/
def toyRnd (k : Nat) : Bytes := if k < 24 then [0, 5, 1, 1, 1, 1, 1, 1, 1, 1, 1] else [8, 0, 1, 1, 1, 1, 1, 1, 1, 1, 1]
example : mnemonicNew toy (List.range 2048) toyRnd 24 4 4 0 = some (List.replicate 24 0, 48) := by
  decide +kernel
example : mnemonicIsValid toy (List.replicate 24 0) = true ∧ mnemonicIsValid toy (List.replicate 24 5) = false ∧
    mnemonicIsValid toy (List.replicate 12 0) = false := by decide +kernel
/-- the hypotheses of `c20_wallet_key_eq` are satisfiable (secret key = seed ‖ seed, PBKDF2 padding to 64). -/
example : let P : Prims Nat := { toy with keypair := fun s => (s, s ++ s), pbkdf2 := fun pw _ _ => pad 64 pw }
    (∀ s : Bytes, s.length = 32 → slice (P.keypair s).2 0 32 = s) ∧
    (∀ pw salt n, 32 ≤ (P.pbkdf2 pw salt n).length) := by
  refine ⟨fun s hs => slice_append_left s s 32 hs, fun pw _ _ => ?_⟩
  simp [pad_length]

/-! ## The same statements about the code REGENERATED from the Python source

`Generated/AdnlSrc.lean` is rewritten from `crypto/ciphers.py`, `crypto/signature.py`, `crypto/keys.py` on every run of the check
(translator harness/translate/pyprims.py, declared interface harness/translate/adnlsrc.py); `Proofs/SrcAdnl.lean` proves each
regenerated function equal to its hand model for ALL inputs and ALL primitives `P`.  The theorems below restate the property
theorems over the regenerated functions, so a change of the key schedule, the id comparison, the slicing, the packet layout, the
signing helpers or the validity test in the source breaks a proof obligation here. -/

/-- `AdnlChannel(Client(a), Server(host, port, ed_pub(b)), local_id = ida, peer_id = idb)` built by the REGENERATED constructors. -/
def srcChan {W : Type} (P : Prims W) (a b ida idb : Bytes) : Option Channel :=
  (Client_init P a).bind fun c => (Server_init P () 0 (P.edPub b)).bind fun s => AdnlChannel_init P c s ida idb

theorem srcChan_eq {W : Type} (P : Prims W) (a b ida idb : Bytes) : srcChan P a b ida idb = some (chanOf P a b ida idb) := by
  simp [srcChan, chanOf, Client_init_eq, Server_init_eq, AdnlChannel_init_eq]

/-- CHANNEL KEYS of the regenerated `AdnlChannel.__init__` / `Client.__init__` / `Server.__init__` (ciphers.py).
(1) for ALL client / server key records and ids the regenerated constructors return exactly what the hand model returns (none of
them raises), and `get_key_aes_id(k) = H(d4adbc2d ‖ k)`; (2) so the channel object they build is `chanOf`; (3) given the laws of the
primitives, both ends derive the same shared secret, advertise `H(d4adbc2d ‖ enc)` / `H(d4adbc2d ‖ dec)`, and the (enc, dec) keys
are `(s, reverse s)` for `local_id > peer_id`, `(reverse s, s)` for `local_id < peer_id`, `(s, s)` for equal ids — the comparison
being Python's order on `bytes`. -/
theorem c20_src_channel_keys {W : Type} (P : Prims W) (L : ChannelLaws P) (a b ida idb : Bytes) :
    (∀ (c : Client) (s : Server) (l p : Bytes), AdnlChannel_init P c s l p = some (Channel.new P c s l p)) ∧
    (∀ seed, Client_init P seed = some (Client.new P seed)) ∧
    (∀ host port pub, Server_init P host port pub = some (Server.new P pub)) ∧
    (∀ k, get_key_aes_id P k = some (P.H (magicAes ++ k))) ∧
    ∃ A B, srcChan P a b ida idb = some A ∧ srcChan P b a idb ida = some B ∧
      A.shared = B.shared ∧
      A.clientAesKeyId = P.H (magicAes ++ A.encKey) ∧ A.serverAesKeyId = P.H (magicAes ++ A.decKey) ∧
      (A.encKey, A.decKey) =
        if bytesLt idb ida then (A.shared, A.shared.reverse)
        else if bytesLt ida idb then (A.shared.reverse, A.shared) else (A.shared, A.shared) :=
  ⟨AdnlChannel_init_eq P, Client_init_eq P, Server_init_eq P, get_key_aes_id_eq P,
    _, _, srcChan_eq P a b ida idb, srcChan_eq P b a idb ida, c20_channel_keys P L a b ida idb⟩

/-- CLIENT-SIDE KEY IDS of the regenerated code (ciphers.py `Crypto.get_key_id` / `Crypto.get_aes_key_id`, inherited by `Client`): for
every client record they never raise, `get_key_id() = H(c6b41348 ‖ ed25519_public)` and `get_aes_key_id() = H(d4adbc2d ‖ ed25519_private)`
— the latter is `get_key_aes_id` applied to the seed, i.e. the same function the channel uses for its two key ids. -/
theorem c20_src_client_ids {W : Type} (P : Prims W) (c : Client) :
    Crypto_get_key_id_obj P c = some (P.H (magicKey ++ c.edPub)) ∧
    Crypto_get_aes_key_id_obj P c = some (P.H (magicAes ++ c.edPriv)) ∧
    Crypto_get_aes_key_id_obj P c = get_key_aes_id P c.edPriv :=
  ⟨get_key_id_eq P c, get_aes_key_id_eq P c, by rw [get_aes_key_id_eq, get_key_aes_id_eq]⟩

example : Crypto_get_aes_key_id_obj toy (Client.new toy [3, 1]) = some (toy.H ([0xd4, 0xad, 0xbc, 0x2d] ++ [3, 1])) := by decide +kernel

/-- CHANNEL SYMMETRY of the regenerated code: the channel objects `A` (opened by `a` towards `b`) and `B` (by `b` towards `a`) are
built by the regenerated constructors for ANY ids; the regenerated `A.encrypt(m)` returns `B.server_aes_key_id ‖ H(m) ‖ body` with
`len(body) = len(m)` and the regenerated `B.decrypt(body, H(m))` returns `m`; and the same with `A` and `B` exchanged. -/
theorem c20_src_symmetric {W : Type} (P : Prims W) (L : ChannelLaws P) (a b ida idb m : Bytes) :
    ∃ A B, srcChan P a b ida idb = some A ∧ srcChan P b a idb ida = some B ∧
      (∃ body, AdnlChannel_encrypt_obj P A m = some (B.serverAesKeyId ++ P.H m ++ body) ∧
        body.length = m.length ∧ AdnlChannel_decrypt_obj P B body (P.H m) = some m) ∧
      (∃ body, AdnlChannel_encrypt_obj P B m = some (A.serverAesKeyId ++ P.H m ++ body) ∧
        body.length = m.length ∧ AdnlChannel_decrypt_obj P A body (P.H m) = some m) := by
  refine ⟨_, _, srcChan_eq P a b ida idb, srcChan_eq P b a idb ida, ?_⟩
  simp only [encrypt_eq, decrypt_eq]
  exact c20_symmetric P L a b ida idb m

/-- the regenerated `AdnlChannel.encrypt` / `decrypt` are the model's for EVERY channel record (also ones no constructor builds),
and the regenerated `create_aes_ctr_sipher_from_key_n_data` + `create_aes_ctr_cipher` build a cipher exactly when key and checksum
have at least 32 bytes, with AES key `key[0:16] ‖ sum[16:32]` and initial counter `sum[0:4] ‖ key[20:32]`
(`AES.new` is read as raising unless the key has 16/24/32 and the counter 16 bytes). -/
theorem c20_src_cipher {W : Type} (P : Prims W) (c : Channel) (key sum data : Bytes) :
    AdnlChannel_encrypt_obj P c data = c.encrypt P data ∧
    AdnlChannel_decrypt_obj P c data sum = c.decrypt P data sum ∧
    ((create_aes_ctr_sipher_from_key_n_data P key sum).isSome ↔ 32 ≤ key.length ∧ 32 ≤ sum.length) ∧
    (32 ≤ key.length → 32 ≤ sum.length → create_aes_ctr_sipher_from_key_n_data P key sum =
      some (slice key 0 16 ++ slice sum 16 32, slice sum 0 4 ++ slice key 20 32)) := by
  refine ⟨encrypt_eq P c data, decrypt_eq P c data sum, ?_, ?_⟩
  · rw [cipher_eq]; exact cipherParams_isSome_iff key sum
  · rw [cipher_eq]; exact cipherParams_some key sum

/-- SIGNATURES, regenerated `sign_message` / `verify_sign` (signature.py) and `Client.sign` / `get_signature` (ciphers.py):
none of them raises; `sign_message(m, sk)` (default encoder) is the first 64 bytes of `crypto_sign(m, sk)`; `verify_sign` is `True`
exactly when `VerifyKey(pk).verify(m, sig)` returns; and with a correct primitive the 64-byte signature of either signer is
accepted under the matching public key. -/
theorem c20_src_sign {W : Type} (P : Prims W) (S : SignLaw P) (seed m : Bytes) :
    (∀ msg sk, sign_message P msg sk () = some (slice (P.cryptoSign msg sk) 0 64)) ∧
    (∀ pk msg sig, verify_sign P pk msg sig = some (P.verify pk msg sig)) ∧
    ∃ sig, sign_message P m (P.keypair seed).2 () = some sig ∧ sig.length = 64 ∧
      verify_sign P (P.keypair seed).1 m sig = some true ∧
      (Client_init P seed).bind (fun c => Client_sign_obj P c m) = some sig ∧
      (Client_init P seed).bind (fun c => verify_sign P c.edPub m sig) = some true := by
  obtain ⟨h1, h2, h3, h4⟩ := c20_sign P S seed m
  refine ⟨fun msg sk => sign_message_eq P msg sk, fun pk msg sig => verify_sign_eq P pk msg sig,
    signMessage P m (P.keypair seed).2, sign_message_eq P _ _, h1, ?_, ?_, ?_⟩
  · rw [verify_sign_eq, h2]
  · simp only [Client_init_eq, Option.bind_some, Client_sign_eq, Client.new, h3]
  · simp only [Client_init_eq, Option.bind_some, verify_sign_eq]
    rw [← h3]; exact congrArg some h4

/-- MNEMONICS, regenerated `mnemonic_is_valid` / `is_basic_seed` / `mnemonic_to_entropy` / key derivations (keys.py).
(1) `mnemonic_is_valid(ws)` is `len(ws) == 24 and PBKDF2(HMAC(" ".join(ws), b''), "TON seed version", max(1, 100000 // 256))[0] == 0`
— it raises (IndexError) only if the list has 24 words AND PBKDF2 returns no bytes, and is the model's decision otherwise;
(2) every list RETURNED by the model of `mnemonic_new()` (any random stream) is accepted by the regenerated `mnemonic_is_valid`
(`some true`: no exception) and consists of list words; (3) `mnemonic_to_private_key` / `mnemonic_to_wallet_key` / `mnemonic_to_seed`
never raise and are the model's functions (HMAC → PBKDF2 100000 rounds with "TON default seed" → first 32 bytes → key pair; the
wallet key a second key pair from the first 32 bytes of the secret key). -/
theorem c20_src_mnemonic {W : Type} (P : Prims W) (words : List W) (rnd : Nat → Bytes)
    (inner fuel k : Nat) (arr : List W) (k' : Nat)
    (h : mnemonicNew P words rnd 24 inner fuel k = some (arr, k')) :
    (∀ ws : List W, mnemonic_is_valid P ws =
        if ws.length = 24 ∧ P.pbkdf2 (P.hmac512 (P.joinWords ws) []) saltVersion (max 1 (100000 / 256)) = [] then none
        else some (ws.length == 24 && ((P.pbkdf2 (P.hmac512 (P.joinWords ws) []) saltVersion (max 1 (100000 / 256))).head? == some 0))) ∧
    (mnemonic_is_valid P arr = some true ∧ ∀ w ∈ arr, w ∈ words) ∧
    (∀ ws : List W, mnemonic_to_private_key P ws () = some (mnemonicToPrivateKey P ws) ∧
      mnemonic_to_wallet_key P ws () = some (mnemonicToWalletKey P ws) ∧
      ∀ salt, mnemonic_to_seed P ws salt () = some (mnemonicToSeed P ws salt)) := by
  obtain ⟨hv, hw⟩ := c20_mnemonic P words rnd inner fuel k arr k' h
  refine ⟨fun ws => ?_, ⟨?_, hw⟩, fun ws => ⟨mnemonic_to_private_key_eq P ws, mnemonic_to_wallet_key_eq P ws,
    fun salt => mnemonic_to_seed_eq P ws salt⟩⟩
  · rw [mnemonic_is_valid_eq]; simp [mnemonicIsValid, isBasicSeed, mnemonicToEntropy, pbkdfIterations]
  · rw [mnemonic_is_valid_eq, hv]
    have hb : isBasicSeed P (mnemonicToEntropy P arr) = true := by
      simp only [mnemonicIsValid, Bool.and_eq_true] at hv; exact hv.2
    have hne : P.pbkdf2 (mnemonicToEntropy P arr) saltVersion (max 1 (pbkdfIterations / 256)) ≠ [] := by
      intro he; simp [isBasicSeed, he] at hb
    simp [hne]

/-- THE TWO `while True` FUNCTIONS of keys.py (`get_secure_random_number`: float arithmetic, `mnemonic_new`: unbounded retry) are not
translated as a whole; their DECISION LINES are regenerated from the source on every run (Generated/MnemonicNew.lean): the word
appended is `words[idx]` for the index drawn, the index is drawn from `[0, len(words))`, a candidate has `words_count` draws, the
candidate is dropped exactly when it is not a basic seed; the random number raises for more than 53 bits, rejects exactly
`number >= range` and returns `min + number`.  The second half shows that the hand model's loops (`drawWords`, `mnemonicNew`,
`secureRandomNumber`, about which `c20_mnemonic` / `c20_random_in_range` are proved) are written with exactly these pieces. -/
theorem c20_src_generator {W : Type} (P : Prims W) (words : List W) (rnd : Nat → Bytes) :
    ((∀ idx, Generated.mnWordIndex idx = idx) ∧ Generated.mnDrawLo = 0 ∧ (∀ n, Generated.mnDrawHi n = n) ∧
      (∀ wc, Generated.mnDraws wc = wc) ∧ (∀ b, Generated.mnRetry b = !b) ∧
      (∀ bits, Generated.rnTooLarge bits = decide (bits > 53)) ∧
      (∀ number range, Generated.rnReject number range = decide (number ≥ range)) ∧
      (∀ lo number, Generated.rnResult lo number = lo + number)) ∧
    (∀ fuel n k, drawWords words rnd fuel (n + 1) k =
      match secureRandomNumber rnd Generated.mnDrawLo (Generated.mnDrawHi words.length) fuel k with
      | none => none
      | some (idx, k') =>
        match words[Generated.mnWordIndex idx]? with
        | none => none
        | some w =>
          match drawWords words rnd fuel n k' with
          | none => none
          | some (ws, k'') => some (w :: ws, k'')) ∧
    (∀ wc inner fuel k, mnemonicNew P words rnd wc inner (fuel + 1) k =
      match drawWords words rnd inner (Generated.mnDraws wc) k with
      | none => none
      | some (arr, k') =>
        if Generated.mnRetry (isBasicSeed P (mnemonicToEntropy P arr)) then mnemonicNew P words rnd wc inner fuel k'
        else some (arr, k')) ∧
    (∀ minV maxV fuel k, secureRandomNumber rnd minV maxV (fuel + 1) k =
      if maxV ≤ minV then none
      else if Generated.rnTooLarge (clog2 (maxV - minV)) then none
      else if (rnd k).length < (clog2 (maxV - minV) + 7) / 8 then none
      else
        let number := natOfBE ((rnd k).take ((clog2 (maxV - minV) + 7) / 8)) % (2 ^ clog2 (maxV - minV) - 1 + 1)
        if Generated.rnReject number (maxV - minV) then secureRandomNumber rnd minV maxV fuel (k + 1)
        else some (Generated.rnResult minV number, k + 1)) := by
  have e1 : ∀ idx, Generated.mnWordIndex idx = idx := fun _ => rfl
  have e2 : Generated.mnDrawLo = 0 := rfl
  have e3 : ∀ n, Generated.mnDrawHi n = n := fun _ => rfl
  have e4 : ∀ wc, Generated.mnDraws wc = wc := fun _ => rfl
  have e5 : ∀ b, Generated.mnRetry b = !b := fun b => by cases b <;> simp [Generated.mnRetry]
  have e6 : ∀ bits, Generated.rnTooLarge bits = decide (bits > 53) := fun _ => by simp [Generated.rnTooLarge]
  have e7 : ∀ number range, Generated.rnReject number range = decide (number ≥ range) := fun _ _ => by simp [Generated.rnReject]
  have e8 : ∀ lo number, Generated.rnResult lo number = lo + number := fun _ _ => by simp [Generated.rnResult]
  refine ⟨⟨e1, e2, e3, e4, e5, e6, e7, e8⟩, ?_, ?_, ?_⟩
  · intro fuel n k
    rw [drawWords]; simp only [e1, e2, e3]; rfl
  · intro wc inner fuel k
    rw [mnemonicNew]; simp only [e4, e5]; rfl
  · intro minV maxV fuel k
    rw [secureRandomNumber]; simp only [e6, e7, e8, decide_eq_true_eq]


/-- non-vacuity of the `c20_src_*` theorems: the regenerated constructors, `encrypt` and `decrypt` evaluated on the toy primitives
(ids in both orders; 5-byte plaintext) — both directions round-trip and the packet starts with the key id the peer expects;
with a 31-byte checksum the regenerated `decrypt` raises. -/
example :
    (srcChan toy [3, 1] [7] [2, 0] [1, 9]).isSome = true ∧
    ((srcChan toy [3, 1] [7] [2, 0] [1, 9]).bind fun A => (srcChan toy [7] [3, 1] [1, 9] [2, 0]).bind fun B =>
      (AdnlChannel_encrypt_obj toy A [1, 2, 3, 4, 5]).bind fun p =>
        (AdnlChannel_decrypt_obj toy B (p.drop 64) (slice p 32 64)).map fun m => (m, decide (p.take 32 = B.serverAesKeyId)))
      = some ([1, 2, 3, 4, 5], true) ∧
    ((srcChan toy [3, 1] [7] [2, 0] [1, 9]).bind fun A => AdnlChannel_decrypt_obj toy A [1, 2] (List.replicate 31 0)) = none := by
  decide +kernel

example : (sign_message toy [1, 2] (toy.keypair [9, 9]).2 ()).bind (fun s => verify_sign toy [9, 9] [1, 2] s) = some true ∧
    (sign_message toy [1, 2] (toy.keypair [9, 9]).2 ()).bind (fun s => verify_sign toy [9, 9] [1, 3] s) = some false := by
  decide +kernel

example : mnemonic_is_valid toy (List.replicate 24 0) = some true ∧ mnemonic_is_valid toy (List.replicate 24 5) = some false ∧
    mnemonic_is_valid toy (List.replicate 12 0) = some false ∧ mnemonic_is_valid toy ([] : List Nat) = some false ∧
    is_basic_seed toy [] = none := by decide +kernel

/-! ## The two `while True` functions of keys.py, REGENERATED AS A WHOLE (Generated/AdnlSrc.lean group `keysloop`, translator pyrand.py)

`mnemonic_new P Fl rnd fuel words_count () words k` / `get_secure_random_number P Fl rnd fuel min_v max_v k` are the source functions with
  * `rnd : Nat → Bytes` = the answers of the successive `os.urandom` calls, an ARBITRARY stream (`k` = index of the next call; the result
    carries the index after the last call),
  * `fuel` = the iteration budget of each `while True:` (`none` = the code raises, or it would still be running),
  * `Fl : Py.FloatIf` = Python's float arithmetic (`math.log2`, `math.pow`, `+ - *`, `int()`), a DECLARED INTERFACE: the theorems below hold
    for EVERY such interface (the range theorem under one stated sign condition), so they do not depend on IEEE rounding;
  * `words` = the module's word list, an arbitrary list. -/

/-- GENERATED MNEMONICS ARE VALID (the property's sentence, on the regenerated code).  Whatever the random source answers, whatever the
float arithmetic computes and for every budget: if `mnemonic_new()` (default 24 words; the password is ignored by the code) returns a
list, then the regenerated `mnemonic_is_valid` returns `True` on it without raising; the list has 24 entries, all from the word list;
and the regenerated derivations `mnemonic_to_private_key` / `mnemonic_to_wallet_key` do not raise on it and are pure functions of the
list (the model's: HMAC → PBKDF2 → first 32 bytes → key pair). -/
theorem c20_src_mnemonic_new {W : Type} (P : Prims W) (Fl : Py.FloatIf) (rnd : Nat → Bytes) (fuel : Nat) (words : List W) (k : Nat)
    (arr : List W) (k' : Nat) (h : mnemonic_new P Fl rnd fuel 24 () words k = some (arr, k')) :
    mnemonic_is_valid P arr = some true ∧ arr.length = 24 ∧ (∀ w ∈ arr, w ∈ words) ∧
    mnemonic_to_private_key P arr () = some (mnemonicToPrivateKey P arr) ∧
    mnemonic_to_wallet_key P arr () = some (mnemonicToWalletKey P arr) := by
  rw [mnemonic_new] at h
  obtain ⟨hlen, hmem, hbasic⟩ := mnemonic_new_loop_spec P Fl rnd fuel 24 words fuel k arr k' h
  refine ⟨?_, hlen, hmem, mnemonic_to_private_key_eq P arr, mnemonic_to_wallet_key_eq P arr⟩
  rw [mnemonic_is_valid]
  simp only [hlen, if_true]
  cases he : mnemonic_to_entropy P arr () with
  | none => simp [he] at hbasic
  | some e =>
    simp only [he, Option.bind_some] at hbasic ⊢
    simp [hbasic]

/-- the same for ANY word count, in the terms of the loop itself: the returned list has exactly `words_count` entries of the word list and
its entropy passed the regenerated `is_basic_seed`; so for `words_count ≠ 24` the regenerated `mnemonic_is_valid` answers `False` on
every generated list (the API limitation noted for the hand model, now on the source). -/
theorem c20_src_mnemonic_new_counts {W : Type} (P : Prims W) (Fl : Py.FloatIf) (rnd : Nat → Bytes) (fuel wc : Nat) (words : List W) (k : Nat)
    (arr : List W) (k' : Nat) (h : mnemonic_new P Fl rnd fuel wc () words k = some (arr, k')) :
    arr.length = wc ∧ (∀ w ∈ arr, w ∈ words) ∧
    ((mnemonic_to_entropy P arr ()).bind fun e => is_basic_seed P e) = some true ∧
    (wc ≠ 24 → mnemonic_is_valid P arr = some false) := by
  rw [mnemonic_new] at h
  obtain ⟨hlen, hmem, hbasic⟩ := mnemonic_new_loop_spec P Fl rnd fuel wc words fuel k arr k' h
  refine ⟨hlen, hmem, hbasic, fun hne => ?_⟩
  rw [mnemonic_is_valid]
  simp [hlen, hne]

/-- THE RESULT IS FIXED BY THE RANDOM STREAM, NOT BY THE BUDGET: once `mnemonic_new` returns with budget `fuel` (i.e. `fuel` reaches the
first accepted candidate and every random-number retry before it), it returns the same list after the same number of draws with every
larger budget; hence any two budgets under which it returns agree.  (The Python loop is the limit `fuel → ∞`.) -/
theorem c20_src_mnemonic_fuel {W : Type} (P : Prims W) (Fl : Py.FloatIf) (rnd : Nat → Bytes) (wc : Nat) (words : List W) (k : Nat) :
    (∀ fuel fuel' res, fuel ≤ fuel' → mnemonic_new P Fl rnd fuel wc () words k = some res →
      mnemonic_new P Fl rnd fuel' wc () words k = some res) ∧
    (∀ f1 f2 r1 r2, mnemonic_new P Fl rnd f1 wc () words k = some r1 → mnemonic_new P Fl rnd f2 wc () words k = some r2 → r1 = r2) := by
  have mono : ∀ fuel fuel' res, fuel ≤ fuel' → mnemonic_new P Fl rnd fuel wc () words k = some res →
      mnemonic_new P Fl rnd fuel' wc () words k = some res := by
    intro fuel fuel' res hle h
    rw [mnemonic_new] at h ⊢
    exact mnemonic_new_loop_mono P Fl rnd fuel fuel' hle wc words fuel fuel' k res hle h
  refine ⟨mono, fun f1 f2 r1 r2 h1 h2 => ?_⟩
  rcases Nat.le_total f1 f2 with hle | hle
  · have := mono f1 f2 r1 hle h1; rw [h2] at this; exact (Option.some.inj this).symm
  · have := mono f2 f1 r2 hle h2; rw [h1] at this; exact Option.some.inj this

/-- RANGE OF `get_secure_random_number(min_v, max_v)` on the regenerated code, for ALL ints `min_v`, `max_v`, every random stream, every
budget and every float interface with `int(math.pow(2, b) - 1) ≥ 0` for `b ≥ 0` (true of CPython: `math.pow(2, b) ≥ 1.0`): a returned value
`v` satisfies `min_v ≤ v < max_v`, and at least one `os.urandom` call was made.  NOTHING else about floats is used: the bound comes from
the integer rejection test `number_val >= range_betw` and from `&` with a non-negative mask being non-negative.  The result does not depend
on the budget once it is returned.  (Uniformity is NOT claimed: for ranges ≥ 2^49 `math.ceil(math.log2(r))` can round down and for 7-byte
draws the float sum rounds — the returned value is then still in range, see design/C20.md.) -/
theorem c20_src_random_range {W : Type} (P : Prims W) (Fl : Py.FloatIf) (rnd : Nat → Bytes)
    (hmask : ∀ b : Int, 0 ≤ b → 0 ≤ Fl.trunc (Fl.sub (Fl.pow (Fl.ofInt 2) (Fl.ofInt b)) (Fl.ofInt 1))) :
    (∀ fuel lo hi k v k', get_secure_random_number P Fl rnd fuel lo hi k = some (v, k') → lo ≤ v ∧ v < hi ∧ k < k') ∧
    (∀ fuel fuel' lo hi k res, fuel ≤ fuel' → get_secure_random_number P Fl rnd fuel lo hi k = some res →
      get_secure_random_number P Fl rnd fuel' lo hi k = some res) :=
  ⟨fun fuel lo hi k v k' h => get_secure_random_number_range P Fl rnd fuel lo hi k hmask v k' h,
   fun fuel fuel' lo hi k res hle h => get_secure_random_number_mono P Fl rnd fuel fuel' hle lo hi k res h⟩

/-- the sign condition of `c20_src_random_range` holds for the exact float reading `Py.intFloat` (the one validated against CPython). -/
theorem c20_src_random_range_exact {W : Type} (P : Prims W) (rnd : Nat → Bytes) (fuel : Nat) (lo hi : Int) (k : Nat) (v : Int) (k' : Nat)
    (h : get_secure_random_number P Py.intFloat rnd fuel lo hi k = some (v, k')) : lo ≤ v ∧ v < hi ∧ k < k' :=
  (c20_src_random_range P Py.intFloat rnd intFloat_mask_nonneg).1 fuel lo hi k v k' h

/-- non-vacuity: the regenerated `mnemonic_new` run on the toy primitives and the exact float reading over the stream `toyRnd` (first
candidate 24 × word 5: not a basic seed, rejected; second candidate 24 × word 0: accepted after 48 draws) — with budget 2 and budget 9;
budget 1 is used up; the regenerated random number: range 5 rejects the draws 7 and 5 and returns `10 + 4`; an empty range raises. -/
example : mnemonic_new toy Py.intFloat toyRnd 2 24 () (List.range 2048) 0 = some (List.replicate 24 0, 48) ∧
    mnemonic_new toy Py.intFloat toyRnd 9 24 () (List.range 2048) 0 = some (List.replicate 24 0, 48) ∧
    mnemonic_new toy Py.intFloat toyRnd 1 24 () (List.range 2048) 0 = none ∧
    get_secure_random_number toy Py.intFloat (fun k => [[7], [5], [12], [1]].getD k []) 3 10 15 0 = some (14, 3) ∧
    get_secure_random_number toy Py.intFloat (fun _ => [1]) 3 10 10 0 = none := by
  decide +kernel

end TonVerif.Properties.C20
