/-
C20 — ADNL channel crypto is symmetric between peers; signatures and keys are consistent.   PARTIAL.

PARTIAL in this sense: X25519, the Ed25519↔Curve25519 conversions, AES-256-CTR, SHA-256, Ed25519
signing/verification, HMAC-SHA512 and PBKDF2 are PARAMETERS (`Prims`); the theorems assume only their
textbook algebraic laws (`ChannelLaws`, `SignLaw` in Proofs/Adnl.lean — hypotheses, never axioms) and
prove that the library's OWN logic (which key each side encrypts/decrypts with in each of the three id
orderings, the key/iv slicing, the packet layout, the signing helpers' slicing, the generator's retry loop)
is correct on top of them, for all seeds, ids and plaintexts.  That the real primitives satisfy the laws,
and every REJECTION statement of the property (a signature fails for another message / key / altered
signature = Ed25519 unforgeability), is only TESTED by harness/props/C20.py.

Model: Model/Adnl.lean (mirror of crypto/ciphers.py, crypto/signature.py, crypto/keys.py).
`chanOf P a b ida idb` = `AdnlChannel(Client(a), Server(_, _, ed_pub(b)), local_id = ida, peer_id = idb)`.
-/
import TonVerif.Proofs.Adnl

namespace TonVerif.Properties.C20
open TonVerif TonVerif.Model.Adnl TonVerif.Proofs.Adnl

/-- CHANNEL SYMMETRY.  For any two seeds `a`, `b` and ANY two ids (so: `ida > idb`, `ida < idb`, `ida = idb`),
let `A` be the channel `a` opens towards `b` and `B` the channel `b` opens towards `a`.  For every plaintext `m`:
`A.encrypt(m)` succeeds and is `B.server_aes_key_id ‖ H(m) ‖ body` with `len(body) = len(m)`, and
`B.decrypt(body, H(m)) = m`; and the same with the roles of `A` and `B` exchanged. -/
theorem c20_symmetric {W : Type} (P : Prims W) (L : ChannelLaws P) (a b ida idb m : Bytes) :
    (∃ body, (chanOf P a b ida idb).encrypt P m =
          some ((chanOf P b a idb ida).serverAesKeyId ++ P.H m ++ body) ∧
        body.length = m.length ∧ (chanOf P b a idb ida).decrypt P body (P.H m) = some m) ∧
    (∃ body, (chanOf P b a idb ida).encrypt P m =
          some ((chanOf P a b ida idb).serverAesKeyId ++ P.H m ++ body) ∧
        body.length = m.length ∧ (chanOf P a b ida idb).decrypt P body (P.H m) = some m) :=
  ⟨one_way P L a b ida idb m, one_way P L b a idb ida m⟩

/-- the same with counter mode described by its DEFINITION (output = input xor a key stream fixed by key and
initial counter) instead of the involution law: involution and length preservation are then proved, not assumed. -/
theorem c20_symmetric_stream {W : Type} (P : Prims W)
    (dh_comm : ∀ a b, P.dh a (P.xPub b) = P.dh b (P.xPub a))
    (conv : ∀ seed, P.edToXPub (P.edPub seed) = P.xPub (P.edToXPriv seed))
    (H_len : ∀ x, (P.H x).length = 32) (dh_len : ∀ a b, (P.dh a b).length = 32)
    (hs : CtrIsStream P) (a b ida idb m : Bytes) :
    (∃ body, (chanOf P a b ida idb).encrypt P m =
          some ((chanOf P b a idb ida).serverAesKeyId ++ P.H m ++ body) ∧
        body.length = m.length ∧ (chanOf P b a idb ida).decrypt P body (P.H m) = some m) ∧
    (∃ body, (chanOf P b a idb ida).encrypt P m =
          some ((chanOf P a b ida idb).serverAesKeyId ++ P.H m ++ body) ∧
        body.length = m.length ∧ (chanOf P a b ida idb).decrypt P body (P.H m) = some m) :=
  c20_symmetric P (channelLaws_of_stream P dh_comm conv H_len dh_len hs) a b ida idb m

/-- the three-way decision spelled out: with `s` the shared secret, the (enc, dec) keys are
`(s, reverse s)` if `local_id > peer_id`, `(reverse s, s)` if `local_id < peer_id`, `(s, s)` if equal; the
advertised key ids are `H(d4adbc2d ‖ enc)` / `H(d4adbc2d ‖ dec)`; and both ends derive the same `s`. -/
theorem c20_channel_keys {W : Type} (P : Prims W) (L : ChannelLaws P) (a b ida idb : Bytes) :
    let A := chanOf P a b ida idb
    A.shared = (chanOf P b a idb ida).shared ∧
    A.clientAesKeyId = P.H (magicAes ++ A.encKey) ∧ A.serverAesKeyId = P.H (magicAes ++ A.decKey) ∧
    (A.encKey, A.decKey) =
      if bytesLt idb ida then (A.shared, A.shared.reverse)
      else if bytesLt ida idb then (A.shared.reverse, A.shared) else (A.shared, A.shared) := by
  obtain ⟨h1, h2, h3, h4⟩ := chan_keys P a b ida idb
  refine ⟨shared_eq P L a b ida idb, h2, h3, ?_⟩
  rw [h1]; exact h4

/-- `bytesLt` is Python's strict order on `bytes`: asymmetric, and "neither smaller nor greater" is equality —
so the three branches of `__init__` are exactly `local_id > peer_id`, `local_id < peer_id`, `local_id == peer_id`. -/
theorem c20_id_order (a b : Bytes) :
    (bytesLt a b = true → bytesLt b a = false) ∧
    ((bytesLt a b = false ∧ bytesLt b a = false) ↔ a = b) :=
  ⟨bytesLt_asymm a b, ⟨fun h => bytesLt_total a b h.1 h.2, fun h => by subst h; exact ⟨bytesLt_irrefl a, bytesLt_irrefl a⟩⟩⟩

/-- the self channel (same seed, equal ids): what the object encrypts it also decrypts. -/
theorem c20_self_channel {W : Type} (P : Prims W) (L : ChannelLaws P) (a id m : Bytes) :
    ∃ body, (chanOf P a a id id).encrypt P m =
        some ((chanOf P a a id id).serverAesKeyId ++ P.H m ++ body) ∧
      (chanOf P a a id id).decrypt P body (P.H m) = some m := by
  obtain ⟨body, h1, _, h3⟩ := one_way P L a a id id m
  exact ⟨body, h1, h3⟩

/-- the guard of the cipher construction, covered exactly: a cipher object exists iff the key and the
checksum have at least 32 bytes (else "key should be 32 bytes exactly!" / AES.new raises); then its AES key is
`key[0:16] ‖ sum[16:32]` and its initial counter `sum[0:4] ‖ key[20:32]`. -/
theorem c20_cipher_guard (key sum : Bytes) :
    ((cipherParams key sum).isSome ↔ 32 ≤ key.length ∧ 32 ≤ sum.length) ∧
    (32 ≤ key.length → 32 ≤ sum.length → cipherParams key sum =
      some (slice key 0 16 ++ slice sum 16 32, slice sum 0 4 ++ slice key 20 32)) :=
  ⟨cipherParams_isSome_iff key sum, cipherParams_some key sum⟩

/-- SIGNATURES (completeness only).  Given the correctness of the primitive, the signature returned by
`sign_message(m, sk)` has 64 bytes and `verify_sign(pk, m, ·)` accepts it, for `(pk, sk)` the key pair of any
seed; `Client(seed).sign(m)` / `get_signature` returns the same signature and it verifies under the client's
own public key.  NOT proved (only tested): rejection for another message, key or an altered signature. -/
theorem c20_sign {W : Type} (P : Prims W) (S : SignLaw P) (seed m : Bytes) :
    (signMessage P m (P.keypair seed).2).length = 64 ∧
    verifySign P (P.keypair seed).1 m (signMessage P m (P.keypair seed).2) = true ∧
    getSignature P seed m = signMessage P m (P.keypair seed).2 ∧
    verifySign P (Client.new P seed).edPub m (getSignature P seed m) = true := by
  obtain ⟨sig, hl, hs, hv⟩ := S.sign_ok seed m
  have h : signMessage P m (P.keypair seed).2 = sig := by
    unfold signMessage; rw [hs]; exact slice_append_left sig m 64 hl
  refine ⟨by rw [h, hl], by rw [h]; exact hv, rfl, ?_⟩
  show P.verify (P.edPub seed) m (getSignature P seed m) = true
  rw [S.pub_ok seed]
  show P.verify _ m (signMessage P m (P.keypair seed).2) = true
  rw [h]; exact hv

/-- MNEMONICS.  Whatever the random stream, every list RETURNED by `mnemonic_new()` (24 words) passes
`mnemonic_is_valid`, and consists of words of the word list. -/
theorem c20_mnemonic {W : Type} (P : Prims W) (words : List W) (rnd : Nat → Bytes)
    (inner fuel k : Nat) (arr : List W) (k' : Nat)
    (h : mnemonicNew P words rnd 24 inner fuel k = some (arr, k')) :
    mnemonicIsValid P arr = true ∧ ∀ w ∈ arr, w ∈ words := by
  obtain ⟨h1, h2, h3⟩ := mnemonicNew_spec P words rnd 24 inner fuel k arr k' h
  exact ⟨by simp [mnemonicIsValid, h1, h3], h2⟩

/-- noted limitation of the API (outside the property, which is about the default generator):
`mnemonic_new(n)` with `n ≠ 24` returns lists that `mnemonic_is_valid` rejects (by length). -/
theorem c20_mnemonic_other_counts {W : Type} (P : Prims W) (words : List W) (rnd : Nat → Bytes)
    (wc inner fuel k : Nat) (arr : List W) (k' : Nat) (hwc : wc ≠ 24)
    (h : mnemonicNew P words rnd wc inner fuel k = some (arr, k')) :
    mnemonicIsValid P arr = false := by
  obtain ⟨h1, _, _⟩ := mnemonicNew_spec P words rnd wc inner fuel k arr k' h
  simp [mnemonicIsValid, h1, hwc]

/-- every index drawn by `get_secure_random_number(lo, hi)` lies in `[lo, hi)` (so `words[idx]` never raises). -/
theorem c20_random_in_range (rnd : Nat → Bytes) (lo hi fuel k r k' : Nat)
    (h : secureRandomNumber rnd lo hi fuel k = some (r, k')) : lo ≤ r ∧ r < hi :=
  secureRandomNumber_range rnd lo hi fuel k r k' h

/-- key derivation is a function of the word list: the model of `mnemonic_to_private_key` /
`mnemonic_to_wallet_key` / `mnemonic_to_seed` has no state, randomness or I/O besides its arguments, so equal
mnemonics give equal keys.  (In Lean this is congruence; the content is that the MODEL needs no hidden input —
that the library has none is what the correspondence checks by deriving twice.) -/
theorem c20_derivation_deterministic {W : Type} (P : Prims W) (ws ws' : List W) (h : ws = ws') :
    mnemonicToPrivateKey P ws = mnemonicToPrivateKey P ws' ∧
    mnemonicToWalletKey P ws = mnemonicToWalletKey P ws' ∧
    ∀ salt, mnemonicToSeed P ws salt = mnemonicToSeed P ws' salt := by
  subst h; exact ⟨rfl, rfl, fun _ => rfl⟩

/-- `mnemonic_to_wallet_key` equals `mnemonic_to_private_key` whenever the secret key returned by
`crypto_sign_seed_keypair(seed)` starts with the 32-byte seed (libsodium: `sk = seed ‖ pk`) and PBKDF2 returns at
least 32 bytes. -/
theorem c20_wallet_key_eq {W : Type} (P : Prims W) (ws : List W)
    (hsk : ∀ s : Bytes, s.length = 32 → slice (P.keypair s).2 0 32 = s)
    (hlen : ∀ pw salt n, 32 ≤ (P.pbkdf2 pw salt n).length) :
    mnemonicToWalletKey P ws = mnemonicToPrivateKey P ws := by
  unfold mnemonicToWalletKey mnemonicToPrivateKey
  rw [hsk]
  have := hlen (mnemonicToEntropy P ws) saltDefault pbkdfIterations
  simp only [slice_length, mnemonicToSeed]; omega

/-! ## Non-vacuity: toy primitives satisfying every law, and concrete runs

`dh a p = BE32(a·p)` on naturals with `pub = id` (commutative), CTR = xor with a key/iv dependent byte,
`H x = x` padded/truncated to 32 bytes, signature of `m` under `k` = `k ‖ m` padded/truncated to 64 bytes,
HMAC/PBKDF2 = projections, word = its index. -/

theorem natToBE_length : ∀ w v, (natToBE w v).length = w
  | 0, _ => rfl
  | w + 1, v => by simp [natToBE, natToBE_length w]

def pad (n : Nat) (x : Bytes) : Bytes := (x ++ List.replicate n 0).take n
theorem pad_length (n : Nat) (x : Bytes) : (pad n x).length = n := by simp [pad]

def toySig (k m : Bytes) : Bytes := pad 64 (k ++ m)

def toy : Prims Nat where
  H := fun x => pad 32 x
  dh := fun a p => natToBE 32 (natOfBE a * natOfBE p)
  ctr := fun k iv m => m.map (fun b => b ^^^ ((natOfBE k + natOfBE iv) % 256))
  edToXPriv := id
  xPub := id
  edPub := id
  edToXPub := id
  keypair := fun s => (s, s)
  cryptoSign := fun m sk => toySig sk m ++ m
  verify := fun pk m sig => sig == toySig pk m
  hmac512 := fun key _ => key
  pbkdf2 := fun pw _ _ => pw
  joinWords := fun ws => ws

/-- the toy primitives satisfy the channel laws … -/
theorem toy_channel_laws : ChannelLaws toy where
  dh_comm := fun a b => by simp [toy, Nat.mul_comm]
  conv := fun _ => rfl
  ctr_invol := fun k iv m => by
    simp only [toy, List.map_map]
    conv => rhs; rw [← List.map_id m]
    congr 1
    funext b
    simp [Nat.xor_assoc]
  ctr_len := fun k iv m => by simp [toy]
  H_len := fun x => pad_length 32 x
  dh_len := fun a b => natToBE_length 32 _

/-- the toy counter mode is a stream cipher in the sense of `CtrIsStream`. -/
theorem toy_ctr_stream : CtrIsStream toy := by
  refine ⟨fun k iv n => List.replicate n ((natOfBE k + natOfBE iv) % 256), fun _ _ _ => by simp, ?_⟩
  intro k iv m
  simp only [toy, xorBytes]
  generalize (natOfBE k + natOfBE iv) % 256 = c
  induction m with
  | nil => rfl
  | cons x xs ih => simp [List.replicate_succ, ih]

/-- … and the signing law. -/
theorem toy_sign_law : SignLaw toy where
  sign_ok := fun seed m => ⟨toySig seed m, pad_length 64 _, rfl, by simp [toy]⟩
  pub_ok := fun _ => rfl

/-- so the hypotheses of `c20_symmetric` / `c20_sign` are satisfiable; a concrete non-trivial instance
(ids in both orders and equal, 5-byte plaintext) evaluated through the model: -/
example :
    let A := chanOf toy [3, 1] [7] [2, 0] [1, 9]
    let B := chanOf toy [7] [3, 1] [1, 9] [2, 0]
    A.encKey = A.shared ∧ A.decKey = A.shared.reverse ∧ B.encKey = B.shared.reverse ∧ B.decKey = B.shared ∧
    A.shared ≠ A.shared.reverse ∧
    (A.encrypt toy [1, 2, 3, 4, 5]).map (fun p => B.decrypt toy (p.drop 64) (slice p 32 64)) =
      some (some [1, 2, 3, 4, 5]) ∧
    (B.encrypt toy [1, 2, 3, 4, 5]).map (fun p => A.decrypt toy (p.drop 64) (slice p 32 64)) =
      some (some [1, 2, 3, 4, 5]) ∧
    (A.encrypt toy [1, 2, 3, 4, 5]).map (fun p => p.take 32) = some B.serverAesKeyId := by
  decide +kernel

example : verifySign toy [9, 9] [1, 2] (signMessage toy [1, 2] (toy.keypair [9, 9]).2) = true ∧
    verifySign toy [9, 9] [1, 3] (signMessage toy [1, 2] (toy.keypair [9, 9]).2) = false := by
  decide +kernel

example : bytesLt [1] [1, 0] = true ∧ bytesLt [0x7f, 9] [0x80] = true ∧ bytesLt [] [] = false ∧ bytesLt [2] [1, 9] = false := by
  decide

/-- a short key makes `encrypt` raise (the `none` branch is reachable, the guard is not decoration). -/
example : cipherParams (List.replicate 31 0) (List.replicate 32 0) = none ∧
    (cipherParams (List.replicate 32 1) (List.replicate 32 2)).isSome = true := by decide +kernel

/-- the generator model really returns: word list = indices 0..2047, a stream whose first 24 draws give
word 5 (candidate rejected: first entropy byte 5 ≠ 0) and whose next 24 draws give word 0 (accepted). -/
def toyRnd (k : Nat) : Bytes := if k < 24 then [0, 5, 1, 1, 1, 1, 1, 1, 1, 1, 1] else [8, 0, 1, 1, 1, 1, 1, 1, 1, 1, 1]
example : mnemonicNew toy (List.range 2048) toyRnd 24 4 4 0 = some (List.replicate 24 0, 48) := by
  decide +kernel
example : mnemonicIsValid toy (List.replicate 24 0) = true ∧ mnemonicIsValid toy (List.replicate 24 5) = false ∧
    mnemonicIsValid toy (List.replicate 12 0) = false := by decide +kernel
/-- the hypotheses of `c20_wallet_key_eq` are satisfiable (secret key = seed ‖ seed, PBKDF2 padding to 64). -/
example : let P : Prims Nat := { toy with keypair := fun s => (s, s ++ s), pbkdf2 := fun pw _ _ => pad 64 pw }
    (∀ s : Bytes, s.length = 32 → slice (P.keypair s).2 0 32 = s) ∧
    (∀ pw salt n, 32 ≤ (P.pbkdf2 pw salt n).length) := by
  refine ⟨fun s hs => slice_append_left s s 32 hs, fun pw _ _ => ?_⟩
  simp [pad_length]

end TonVerif.Properties.C20
