/-
C02 — exotic cells: level masks, per-level hashes/depths, constructibility, Merkle pruning invariance.

`Model.Cell.info` is the executable mirror of the Python constructor (resolve_mask + calculate_hashes);
`Spec/Cell.lean` is the TON rule written as recursion on the level.  Helper lemmas: Proofs/CellSpec.lean,
Proofs/Prune.lean.  `H` (SHA-256) is an arbitrary function: no hash assumption is needed for C02.
-/
import TonVerif.Proofs.CellSpec
import TonVerif.Proofs.Prune
import TonVerif.Proofs.OrdCell
import TonVerif.Proofs.PruneWF

namespace TonVerif.Properties.C02
open TonVerif TonVerif.Model TonVerif.Proofs.CellSpec

/-- For every spec-valid tree — pruned branches of any mask 1..7, library cells, Merkle proofs and updates,
any nesting — construction succeeds, and the level mask and the hash and depth reported at EVERY level
equal the spec's. -/
theorem c02_model_eq_spec (H : Bytes → Bytes) (c : Cell) (wf : TreeWF H c) :
    ∃ i s, Cell.info H c = some i ∧ specInfo H c = some s ∧
      i.mask = s.mask ∧ ∀ l, i.getHash l = some (s.hashAt l) ∧ i.getDepth l = some (s.depthAt l) := by
  obtain ⟨i, s, hi, hs, hm, hl⟩ := tree_agrees H c wf
  exact ⟨i, s, hi, hs, hm, hl⟩

/-- Every spec-valid cell can be constructed (in particular pruned branches whose mask has gaps). -/
theorem c02_constructible (H : Bytes → Bytes) (c : Cell) (wf : TreeWF H c) : Cell.info H c ≠ none := by
  obtain ⟨i, _, hi, _⟩ := tree_agrees H c wf
  simp [hi]

/-- One node: a well-formed node over children that agree with their specs agrees with its spec. -/
theorem c02_node (H : Bytes → Bytes) (k : Spec.Kind) (bits : Bits) (kis : List CellInfo) (kss : List Spec.SInfo)
    (hk : AllAgree kis kss) (wf : NodeWF H k bits kss) :
    ∃ i, construct H (kindCode k) bits kis = some i ∧ Agrees i (Spec.node H k bits kss) := by
  obtain ⟨i, h1, h2, _⟩ := construct_agrees H k bits kis kss hk wf
  exact ⟨i, h1, h2⟩

/-! Non-vacuity: a pruned branch with the gap mask 0b110 (two stored hashes/depths, 560 data bits)
is spec-valid, hence constructible — the case that the pinned code could not build (defect F2). -/
def prunedMask6 : Cell := .mk 1 (bytesToBits ([1, 6] ++ List.replicate 68 0)) []

example (H : Bytes → Bytes) : TreeWF H prunedMask6 := by
  unfold prunedMask6 TreeWF
  refine ⟨by simp [TreesWF], .pruned, [], by decide, by simp [specInfos], ?_⟩
  refine ⟨by decide +kernel, by decide, by simp, by simp, ?_, by simp, by simp, by simp⟩
  intro _
  refine ⟨rfl, by decide +kernel, ?_, ?_⟩ <;> decide +kernel

/-! ## Pruning invariance (second half of C02) -/
open TonVerif.Proofs.Prune

/-- SPEC LEVEL, all Merkle depths. Let `t'` be `t` with ANY set of subtrees replaced by pruned-branch cells
(`PruneRel H d`: a subtree `s` under `d` enclosing Merkle cells becomes the pruned branch with level mask
`(mask s % 2^(d-1)) ||| 2^(d-1)` carrying `hashAt s l`, `depthAt s l` for the significant `l < d`; `d` grows by
one below every Merkle proof/update cell, so all nestings up to level 3 are covered).  Then `t'` has spec
values and, for every level `l < d`, hash, depth and the level-mask bits below `l` are those of `t`.
`H` is arbitrary: no collision-freeness (or any other property of SHA-256) is used. -/
theorem c02_prune_invariant_spec (H : Bytes → Bytes) (d : Nat) (t t' : Cell) (s : Spec.SInfo)
    (hrel : PruneRel H d t t') (hs : specInfo H t = some s) :
    ∃ s', specInfo H t' = some s' ∧
      ∀ l, l < d → s'.hashAt l = s.hashAt l ∧ s'.depthAt l = s.depthAt l ∧ s'.mask % 2 ^ l = s.mask % 2 ^ l :=
  prune_invariant H d t t' s hrel hs

/-- VALIDITY OF THE PRUNED TREE (no assumption on `t'`). Let `t` be spec-valid, living under `d ≥ 1` Merkle cells, with
no level above its Merkle nesting (`level_mask < 2^(d-1)`; for `d = 1`: a level-0 tree, e.g. a block or a shard state).
Then EVERY pruning `t'` of `t` is spec-valid: the pruned-branch cells have `16 + 272·k ≤ 832` bits, level mask
1..7 and no references; kept cells keep data and reference count; and the depth limit 1023 is preserved because at
every level `t'` is at most as deep as `t`.  Hence `t'` can be constructed (`c02_constructible`). -/
theorem c02_prune_valid (H : Bytes → Bytes) (d : Nat) (t t' : Cell) (s : Spec.SInfo) (hd : 1 ≤ d) (wf : TreeWF H t)
    (hs : specInfo H t = some s) (hlev : s.mask < 2 ^ (d - 1)) (hrel : PruneRel H d t t') :
    TreeWF H t' ∧ Cell.info H t' ≠ none ∧ ∀ s', specInfo H t' = some s' → ∀ l, s'.depthAt l ≤ s.depthAt l := by
  obtain ⟨wf', hle⟩ := TonVerif.Proofs.PruneWF.prune_treeWF H d t t' s hd wf hs hlev hrel
  exact ⟨wf', c02_constructible H t' wf', hle⟩

/-- MODEL LEVEL (what the library reports): for a spec-valid `t` (at Merkle depth `d ≥ 1`, `level_mask < 2^(d-1)`) and
ANY pruning `t'` of it, both cells can be constructed and `get_hash(l)`, `get_depth(l)` and
`level_mask & (2^l - 1)` coincide for all `l < d`.  Validity of `t'` is derived (`c02_prune_valid`), not assumed. -/
theorem c02_prune_invariant (H : Bytes → Bytes) (d : Nat) (t t' : Cell) (hd : 1 ≤ d) (wf : TreeWF H t)
    (hlev : ∀ i, Cell.info H t = some i → i.mask < 2 ^ (d - 1)) (hrel : PruneRel H d t t') :
    ∃ i i', Cell.info H t = some i ∧ Cell.info H t' = some i' ∧
      ∀ l, l < d → i'.getHash l = i.getHash l ∧ i'.getDepth l = i.getDepth l ∧ i'.mask % 2 ^ l = i.mask % 2 ^ l := by
  obtain ⟨i, s, hi, hs, hm, hl⟩ := tree_agrees H t wf
  have hlev' : s.mask < 2 ^ (d - 1) := by rw [← hm]; exact hlev i hi
  obtain ⟨wf', _, _⟩ := c02_prune_valid H d t t' s hd wf hs hlev' hrel
  obtain ⟨i', s', hi', hs', hm', hl'⟩ := tree_agrees H t' wf'
  obtain ⟨s'', hs'', hinv⟩ := prune_invariant H d t t' s hrel hs
  rw [hs'] at hs''; cases hs''
  refine ⟨i, i', hi, hi', fun l hlt => ?_⟩
  obtain ⟨h1, h2, h3⟩ := hinv l hlt
  exact ⟨by rw [(hl' l).1, (hl l).1, h1], by rw [(hl' l).2, (hl l).2, h2], by rw [hm', hm, h3]⟩

/-- The headline case `d = 1`: replacing any subtrees of a spec-valid level-0 tree `t` by pruned-branch cells carrying
their hash and depth gives a constructible tree and leaves the level-0 hash and depth of the enclosing cell `t`
unchanged (apply it to every enclosing cell: `PruneRel` descends through kept cells). -/
theorem c02_prune_level0 (H : Bytes → Bytes) (t t' : Cell) (wf : TreeWF H t)
    (hlev : ∀ i, Cell.info H t = some i → i.mask = 0) (hrel : PruneRel H 1 t t') :
    ∃ i i', Cell.info H t = some i ∧ Cell.info H t' = some i' ∧ i'.getHash 0 = i.getHash 0 ∧ i'.getDepth 0 = i.getDepth 0 := by
  obtain ⟨i, i', hi, hi', h⟩ := c02_prune_invariant H 1 t t' (Nat.le_refl _) wf
    (fun i hi => by rw [hlev i hi]; decide) hrel
  exact ⟨i, i', hi, hi', (h 0 (by omega)).1, (h 0 (by omega)).2.1⟩

/-- Every non-pruned spec-valid cell may be pruned at every Merkle depth 1..3 once `H` returns 32 bytes
(so `PruneRel` relates every tree to each of its prunings; SHA-256 has 32-byte output). -/
theorem c02_prunable (H : Bytes → Bytes) (h32 : ∀ x, (H x).length = 32 ∧ Bytes.WF (H x))
    (k : Spec.Kind) (bits : Bits) (kids : List Spec.SInfo) (hk : k ≠ .pruned) (wf : NodeWF H k bits kids)
    (d : Nat) (h1 : 1 ≤ d) (h3 : d ≤ 3) : Prunable d (Spec.node H k bits kids) :=
  prunable_node H h32 k bits kids hk wf d h1 h3

/-! Non-vacuity: a two-cell tree, its child replaced by the pruned branch (toy hash with 32-byte output). -/
def toyH : Bytes → Bytes := fun _ => List.replicate 32 0
def leaf0 : Cell := .mk (-1) [true, false] []
def tree0 : Cell := .mk (-1) [true] [leaf0]
def sLeaf0 : Spec.SInfo := Spec.node toyH .ordinary [true, false] []
def tree0Pruned : Cell := .mk (-1) [true] [prunedCell 1 sLeaf0]

theorem toyH_32 : ∀ x, (toyH x).length = 32 ∧ Bytes.WF (toyH x) := by
  intro x; refine ⟨by simp [toyH], ?_⟩
  intro b hb; simp [toyH] at hb; omega

theorem leaf0_nodeWF : NodeWF toyH .ordinary [true, false] [] := by
  refine ⟨by decide, by decide, by simp, ?_, by simp, by simp, by simp, by simp⟩
  intro _ l
  rw [node_plain toyH .ordinary _ _ (by decide)]
  show Spec.plainDepthAt .ordinary [] (Spec.nodeMask .ordinary [true, false] []) l ≤ 1023
  have : Spec.nodeMask .ordinary [true, false] [] = 0 := rfl
  rw [this, TonVerif.Proofs.OrdCell.plainDepthAt_zero]
  decide

/-- the two-cell example tree is spec-valid (hypothesis of `c02_prune_valid`) -/
theorem tree0_wf : TreeWF toyH tree0 := by
  unfold tree0 leaf0
  rw [TreeWF]
  refine ⟨⟨?_, trivial⟩, .ordinary, [sLeaf0], by decide, by simp [specInfos, specInfo, kindOf, sLeaf0], ?_⟩
  · rw [TreeWF]
    exact ⟨trivial, .ordinary, [], by decide, by simp [specInfos], leaf0_nodeWF⟩
  · have hm : Spec.nodeMask .ordinary [true] [sLeaf0] = 0 := by decide +kernel
    refine ⟨by decide, by simp, ?_, ?_, by simp, by simp, by simp, by simp⟩
    · intro c hc; simp at hc; subst hc; decide +kernel
    · intro _ l
      rw [node_plain toyH .ordinary _ _ (by decide)]
      simp only [hm]
      rw [TonVerif.Proofs.OrdCell.plainDepthAt_zero]
      decide +kernel

/-- all hypotheses of `c02_prune_valid` / `c02_prune_level0` hold for the two-cell tree with its child pruned -/
example : PruneRel toyH 1 tree0 tree0Pruned ∧ TreeWF toyH tree0 ∧
    ∃ s, specInfo toyH tree0 = some s ∧ s.mask < 2 ^ (1 - 1) := by
  refine ⟨?_, tree0_wf, ?_⟩
  · unfold tree0 tree0Pruned
    rw [PruneRel]
    refine Or.inr ⟨.ordinary, _, by decide, rfl, ?_⟩
    rw [PruneRels]
    refine ⟨_, [], rfl, ?_, by rw [PruneRels]⟩
    unfold leaf0
    rw [PruneRel]
    refine Or.inl ⟨sLeaf0, by simp [specInfo, specInfos, kindOf, sLeaf0], ?_, rfl⟩
    exact c02_prunable toyH toyH_32 .ordinary _ [] (by decide) leaf0_nodeWF 1 (by omega) (by omega)
  · refine ⟨Spec.node toyH .ordinary [true] [sLeaf0], by simp [tree0, leaf0, specInfo, specInfos, kindOf, sLeaf0], ?_⟩
    decide +kernel

end TonVerif.Properties.C02
