/-
C02 — exotic cells: level masks, per-level hashes/depths, constructibility, Merkle pruning invariance.

`Model.Cell.info` is the executable mirror of the Python constructor (resolve_mask + calculate_hashes);
`Spec/Cell.lean` is the TON rule written as recursion on the level.  Helper lemmas: Proofs/CellSpec.lean,
Proofs/Prune.lean.  `H` (SHA-256) is an arbitrary function: no hash assumption is needed for C02.
-/
import TonVerif.Proofs.CellSpec
import TonVerif.Proofs.Prune
import TonVerif.Proofs.OrdCell
import TonVerif.Proofs.PruneWF
import TonVerif.Proofs.SrcArith
import TonVerif.Generated.LevelMask
import TonVerif.Generated.CellArith
import TonVerif.Proofs.SrcCellCtor

namespace TonVerif.Properties.C02
open TonVerif TonVerif.Model TonVerif.Proofs.CellSpec

/-- For every spec-valid tree — pruned branches of any mask 1..7, library cells, Merkle proofs and updates,
any nesting — construction succeeds, and the level mask and the hash and depth reported at EVERY level
equal the spec's. -/
theorem c02_model_eq_spec (H : Bytes → Bytes) (c : Cell) (wf : TreeWF H c) :
    ∃ i s, Cell.info H c = some i ∧ specInfo H c = some s ∧
      i.mask = s.mask ∧ ∀ l, i.getHash l = some (s.hashAt l) ∧ i.getDepth l = some (s.depthAt l) := by
  obtain ⟨i, s, hi, hs, hm, hl⟩ := tree_agrees H c wf
  exact ⟨i, s, hi, hs, hm, hl⟩

/-- Every spec-valid cell can be constructed (in particular pruned branches whose mask has gaps). -/
theorem c02_constructible (H : Bytes → Bytes) (c : Cell) (wf : TreeWF H c) : Cell.info H c ≠ none := by
  obtain ⟨i, _, hi, _⟩ := tree_agrees H c wf
  simp [hi]

/-- One node: a well-formed node over children that agree with their specs agrees with its spec. -/
theorem c02_node (H : Bytes → Bytes) (k : Spec.Kind) (bits : Bits) (kis : List CellInfo) (kss : List Spec.SInfo)
    (hk : AllAgree kis kss) (wf : NodeWF H k bits kss) :
    ∃ i, construct H (kindCode k) bits kis = some i ∧ Agrees i (Spec.node H k bits kss) := by
  obtain ⟨i, h1, h2, _⟩ := construct_agrees H k bits kis kss hk wf
  exact ⟨i, h1, h2⟩

/-! Non-vacuity: a pruned branch with the gap mask 0b110 (two stored hashes/depths, 560 data bits)
is spec-valid, hence constructible — the case that the pinned code could not build (defect F2). -/
def prunedMask6 : Cell := .mk 1 (bytesToBits ([1, 6] ++ List.replicate 68 0)) []

example (H : Bytes → Bytes) : TreeWF H prunedMask6 := by
  unfold prunedMask6 TreeWF
  refine ⟨by simp [TreesWF], .pruned, [], by decide, by simp [specInfos], ?_⟩
  refine ⟨by decide +kernel, by decide, by simp, by simp, ?_, by simp, by simp, by simp⟩
  intro _
  refine ⟨rfl, by decide +kernel, ?_, ?_⟩ <;> decide +kernel

/-! ## Pruning invariance (second half of C02) -/
open TonVerif.Proofs.Prune

/-- SPEC LEVEL, all Merkle depths. Let `t'` be `t` with ANY set of subtrees replaced by pruned-branch cells
(`PruneRel H d`: a subtree `s` under `d` enclosing Merkle cells becomes the pruned branch with level mask
`(mask s % 2^(d-1)) ||| 2^(d-1)` carrying `hashAt s l`, `depthAt s l` for the significant `l < d`; `d` grows by
one below every Merkle proof/update cell, so all nestings up to level 3 are covered).  Then `t'` has spec
values and, for every level `l < d`, hash, depth and the level-mask bits below `l` are those of `t`.
`H` is arbitrary: no collision-freeness (or any other property of SHA-256) is used. -/
theorem c02_prune_invariant_spec (H : Bytes → Bytes) (d : Nat) (t t' : Cell) (s : Spec.SInfo)
    (hrel : PruneRel H d t t') (hs : specInfo H t = some s) :
    ∃ s', specInfo H t' = some s' ∧
      ∀ l, l < d → s'.hashAt l = s.hashAt l ∧ s'.depthAt l = s.depthAt l ∧ s'.mask % 2 ^ l = s.mask % 2 ^ l :=
  prune_invariant H d t t' s hrel hs

/-- VALIDITY OF THE PRUNED TREE (no assumption on `t'`). Let `t` be spec-valid, living under `d ≥ 1` Merkle cells, with
no level above its Merkle nesting (`level_mask < 2^(d-1)`; for `d = 1`: a level-0 tree, e.g. a block or a shard state).
Then EVERY pruning `t'` of `t` is spec-valid: the pruned-branch cells have `16 + 272·k ≤ 832` bits, level mask
1..7 and no references; kept cells keep data and reference count; and the depth limit 1023 is preserved because at
every level `t'` is at most as deep as `t`.  Hence `t'` can be constructed (`c02_constructible`). -/
theorem c02_prune_valid (H : Bytes → Bytes) (d : Nat) (t t' : Cell) (s : Spec.SInfo) (hd : 1 ≤ d) (wf : TreeWF H t)
    (hs : specInfo H t = some s) (hlev : s.mask < 2 ^ (d - 1)) (hrel : PruneRel H d t t') :
    TreeWF H t' ∧ Cell.info H t' ≠ none ∧ ∀ s', specInfo H t' = some s' → ∀ l, s'.depthAt l ≤ s.depthAt l := by
  obtain ⟨wf', hle⟩ := TonVerif.Proofs.PruneWF.prune_treeWF H d t t' s hd wf hs hlev hrel
  exact ⟨wf', c02_constructible H t' wf', hle⟩

/-- MODEL LEVEL (what the library reports): for a spec-valid `t` (at Merkle depth `d ≥ 1`, `level_mask < 2^(d-1)`) and
ANY pruning `t'` of it, both cells can be constructed and `get_hash(l)`, `get_depth(l)` and
`level_mask & (2^l - 1)` coincide for all `l < d`.  Validity of `t'` is derived (`c02_prune_valid`), not assumed. -/
theorem c02_prune_invariant (H : Bytes → Bytes) (d : Nat) (t t' : Cell) (hd : 1 ≤ d) (wf : TreeWF H t)
    (hlev : ∀ i, Cell.info H t = some i → i.mask < 2 ^ (d - 1)) (hrel : PruneRel H d t t') :
    ∃ i i', Cell.info H t = some i ∧ Cell.info H t' = some i' ∧
      ∀ l, l < d → i'.getHash l = i.getHash l ∧ i'.getDepth l = i.getDepth l ∧ i'.mask % 2 ^ l = i.mask % 2 ^ l := by
  obtain ⟨i, s, hi, hs, hm, hl⟩ := tree_agrees H t wf
  have hlev' : s.mask < 2 ^ (d - 1) := by rw [← hm]; exact hlev i hi
  obtain ⟨wf', _, _⟩ := c02_prune_valid H d t t' s hd wf hs hlev' hrel
  obtain ⟨i', s', hi', hs', hm', hl'⟩ := tree_agrees H t' wf'
  obtain ⟨s'', hs'', hinv⟩ := prune_invariant H d t t' s hrel hs
  rw [hs'] at hs''; cases hs''
  refine ⟨i, i', hi, hi', fun l hlt => ?_⟩
  obtain ⟨h1, h2, h3⟩ := hinv l hlt
  exact ⟨by rw [(hl' l).1, (hl l).1, h1], by rw [(hl' l).2, (hl l).2, h2], by rw [hm', hm, h3]⟩

/-- The headline case `d = 1`: replacing any subtrees of a spec-valid level-0 tree `t` by pruned-branch cells carrying
their hash and depth gives a constructible tree and leaves the level-0 hash and depth of the enclosing cell `t`
unchanged (apply it to every enclosing cell: `PruneRel` descends through kept cells). -/
theorem c02_prune_level0 (H : Bytes → Bytes) (t t' : Cell) (wf : TreeWF H t)
    (hlev : ∀ i, Cell.info H t = some i → i.mask = 0) (hrel : PruneRel H 1 t t') :
    ∃ i i', Cell.info H t = some i ∧ Cell.info H t' = some i' ∧ i'.getHash 0 = i.getHash 0 ∧ i'.getDepth 0 = i.getDepth 0 := by
  obtain ⟨i, i', hi, hi', h⟩ := c02_prune_invariant H 1 t t' (Nat.le_refl _) wf
    (fun i hi => by rw [hlev i hi]; decide) hrel
  exact ⟨i, i', hi, hi', (h 0 (by omega)).1, (h 0 (by omega)).2.1⟩

/-- Every non-pruned spec-valid cell may be pruned at every Merkle depth 1..3 once `H` returns 32 bytes
(so `PruneRel` relates every tree to each of its prunings; SHA-256 has 32-byte output). -/
theorem c02_prunable (H : Bytes → Bytes) (h32 : ∀ x, (H x).length = 32 ∧ Bytes.WF (H x))
    (k : Spec.Kind) (bits : Bits) (kids : List Spec.SInfo) (hk : k ≠ .pruned) (wf : NodeWF H k bits kids)
    (d : Nat) (h1 : 1 ≤ d) (h3 : d ≤ 3) : Prunable d (Spec.node H k bits kids) :=
  prunable_node H h32 k bits kids hk wf d h1 h3

/-! Non-vacuity: a two-cell tree, its child replaced by the pruned branch (toy hash with 32-byte output). -/
def toyH : Bytes → Bytes := fun _ => List.replicate 32 0
def leaf0 : Cell := .mk (-1) [true, false] []
def tree0 : Cell := .mk (-1) [true] [leaf0]
def sLeaf0 : Spec.SInfo := Spec.node toyH .ordinary [true, false] []
def tree0Pruned : Cell := .mk (-1) [true] [prunedCell 1 sLeaf0]

theorem toyH_32 : ∀ x, (toyH x).length = 32 ∧ Bytes.WF (toyH x) := by
  intro x; refine ⟨by simp [toyH], ?_⟩
  intro b hb; simp [toyH] at hb; omega

theorem leaf0_nodeWF : NodeWF toyH .ordinary [true, false] [] := by
  refine ⟨by decide, by decide, by simp, ?_, by simp, by simp, by simp, by simp⟩
  intro _ l
  rw [node_plain toyH .ordinary _ _ (by decide)]
  show Spec.plainDepthAt .ordinary [] (Spec.nodeMask .ordinary [true, false] []) l ≤ 1023
  have : Spec.nodeMask .ordinary [true, false] [] = 0 := rfl
  rw [this, TonVerif.Proofs.OrdCell.plainDepthAt_zero]
  decide

/-- the two-cell example tree is spec-valid (hypothesis of `c02_prune_valid`) -/
theorem tree0_wf : TreeWF toyH tree0 := by
  unfold tree0 leaf0
  rw [TreeWF]
  refine ⟨⟨?_, trivial⟩, .ordinary, [sLeaf0], by decide, by simp [specInfos, specInfo, kindOf, sLeaf0], ?_⟩
  · rw [TreeWF]
    exact ⟨trivial, .ordinary, [], by decide, by simp [specInfos], leaf0_nodeWF⟩
  · have hm : Spec.nodeMask .ordinary [true] [sLeaf0] = 0 := by decide +kernel
    refine ⟨by decide, by simp, ?_, ?_, by simp, by simp, by simp, by simp⟩
    · intro c hc; simp at hc; subst hc; decide +kernel
    · intro _ l
      rw [node_plain toyH .ordinary _ _ (by decide)]
      simp only [hm]
      rw [TonVerif.Proofs.OrdCell.plainDepthAt_zero]
      decide +kernel

/-- all hypotheses of `c02_prune_valid` / `c02_prune_level0` hold for the two-cell tree with its child pruned -/
example : PruneRel toyH 1 tree0 tree0Pruned ∧ TreeWF toyH tree0 ∧
    ∃ s, specInfo toyH tree0 = some s ∧ s.mask < 2 ^ (1 - 1) := by
  refine ⟨?_, tree0_wf, ?_⟩
  · unfold tree0 tree0Pruned
    rw [PruneRel]
    refine Or.inr ⟨.ordinary, _, by decide, rfl, ?_⟩
    rw [PruneRels]
    refine ⟨_, [], rfl, ?_, by rw [PruneRels]⟩
    unfold leaf0
    rw [PruneRel]
    refine Or.inl ⟨sLeaf0, by simp [specInfo, specInfos, kindOf, sLeaf0], ?_, rfl⟩
    exact c02_prunable toyH toyH_32 .ordinary _ [] (by decide) leaf0_nodeWF 1 (by omega) (by omega)
  · refine ⟨Spec.node toyH .ordinary [true] [sLeaf0], by simp [tree0, leaf0, specInfo, specInfos, kindOf, sLeaf0], ?_⟩
    decide +kernel

/-! ## Source-regenerated arithmetic (`Generated/LevelMask.lean`, `Generated/CellArith.lean`: re-translated from
exotic.py / cell.py on every run by harness/translate/pyarith.py)

`Generated.lmLevel / lmHashIndex / lmApply / lmIsSignificant` are the translations of `LevelMask.get_level /
get_hash_index / apply / is_significant`; `Generated.prunedHashLo/Hi`, `prunedDepthOff/Lo/Hi` are the slice bounds that
`Cell.get_hash` / `Cell.get_depth` use on a pruned branch.  Each theorem also proves the translator's side conditions
(`*_sideOk`: the Nat subtractions `(1 << level) - 1` and `level - 1` never underflow where Python evaluates them). -/
section Src
open TonVerif.Proofs.SrcArith
set_option linter.unusedSimpArgs false

/-- `LevelMask.get_level` = the hand model's `bitLength`, for ALL masks. -/
theorem c02_src_level (m : Nat) : Generated.lmLevel_sideOk m ∧ Generated.lmLevel m = bitLength m := by
  refine ⟨by simp only [Generated.lmLevel_sideOk]; src_arith, ?_⟩
  simp only [Generated.lmLevel, py_bitLength_eq, py_popcount_eq]

/-- `LevelMask.get_hash_index` = the number of one bits (`Spec.popcount` = the hand model's `popcount`), for ALL masks. -/
theorem c02_src_hash_index (m : Nat) :
    Generated.lmHashIndex_sideOk m ∧ Generated.lmHashIndex m = popcount m ∧ Generated.lmHashIndex m = Spec.popcount m := by
  refine ⟨by simp only [Generated.lmHashIndex_sideOk]; src_arith, ?_, ?_⟩
  · simp only [Generated.lmHashIndex, py_bitLength_eq, py_popcount_eq]
  · simp only [Generated.lmHashIndex, py_bitLength_eq, py_popcount_eq, popcount_eq]

/-- `LevelMask.apply(level).mask` = `mask mod 2^level` (the spec's `mask % 2^l`), for ALL masks and levels. -/
theorem c02_src_apply (m level : Nat) :
    Generated.lmApply_sideOk m level ∧ Generated.lmApply m level = maskApply m level := by
  have hp : 0 < 2 ^ level := Nat.pow_pos (by decide)
  refine ⟨?_, ?_⟩
  · simp only [Generated.lmApply_sideOk, shiftLeft_lit, Nat.one_mul] <;> omega
  · simp only [Generated.lmApply, maskApply, shiftLeft_lit, Nat.one_mul, and_mask]

/-- `LevelMask.is_significant(level)` = level 0 or bit `level-1` of the mask (the spec's `mask.testBit (l-1)`). -/
theorem c02_src_is_significant (m level : Nat) :
    Generated.lmIsSignificant_sideOk m level ∧ Generated.lmIsSignificant m level = isSignificant m level ∧
    (Generated.lmIsSignificant m (level + 1) = m.testBit level) := by
  refine ⟨?_, ?_, ?_⟩
  · simp only [Generated.lmIsSignificant_sideOk] <;> omega
  · rw [Bool.eq_iff_iff]
    simp only [Generated.lmIsSignificant, isSignificant, and_one, decide_eq_true_eq, Bool.or_eq_true, beq_iff_eq, bne_iff_ne]
  · rw [Bool.eq_iff_iff]
    simp only [Generated.lmIsSignificant, and_one, decide_eq_true_eq, Nat.add_sub_cancel, Nat.testBit, shiftRight_lit,
      Nat.add_eq_zero_iff, Nat.one_ne_zero, and_false, false_or, Nat.one_and_eq_mod_two, Nat.and_one_is_mod, bne_iff_ne]

/-- the hash index the code uses at a level (`apply(level).get_hash_index()`) is the hand model's `hashIndexAt`. -/
theorem c02_src_hash_index_at (m level : Nat) :
    Generated.lmHashIndex (Generated.lmApply m level) = hashIndexAt m level := by
  rw [(c02_src_hash_index _).2.1, (c02_src_apply m level).2]; rfl

/-- pruned-branch offsets: `get_hash` reads `data[2 + 32·i : 2 + 32·(i+1)]`, `get_depth` reads the two bytes at
`2 + 32·popcount(mask) + 2·i` — exactly the offsets of `Spec.prunedHashAt` / `Spec.prunedDepthAt`. -/
theorem c02_src_pruned_offsets (pi hi off : Nat) :
    (Generated.prunedHashLo_sideOk hi ∧ Generated.prunedHashHi_sideOk hi ∧ Generated.prunedDepthOff_sideOk pi hi ∧
      Generated.prunedDepthLo_sideOk off ∧ Generated.prunedDepthHi_sideOk off) ∧
    Generated.prunedHashLo hi = 2 + 32 * hi ∧ Generated.prunedHashHi hi = 2 + 32 * (hi + 1) ∧
    Generated.prunedDepthOff pi hi = 2 + 32 * pi + 2 * hi ∧
    Generated.prunedDepthLo off = off ∧ Generated.prunedDepthHi off = off + 2 := by
  refine ⟨⟨?_, ?_, ?_, ?_, ?_⟩, ?_, ?_, ?_, ?_, ?_⟩
  · simp only [Generated.prunedHashLo_sideOk]; src_arith
  · simp only [Generated.prunedHashHi_sideOk]; src_arith
  · simp only [Generated.prunedDepthOff_sideOk]; src_arith
  · simp only [Generated.prunedDepthLo_sideOk]; src_arith
  · simp only [Generated.prunedDepthHi_sideOk]; src_arith
  · simp only [Generated.prunedHashLo]; src_arith
  · simp only [Generated.prunedHashHi]; src_arith
  · simp only [Generated.prunedDepthOff]; src_arith
  · simp only [Generated.prunedDepthLo]; src_arith
  · simp only [Generated.prunedDepthHi]; src_arith

/-- the hand model's `get_hash` / `get_depth` (what `c02_model_eq_spec` is proved about) are the source's index
computations: hash index from `apply`+`get_hash_index`, pruned slices at the generated offsets. -/
theorem c02_src_get_hash_depth (c : CellInfo) (lvl : Nat) :
    c.getHash lvl =
      (let hi := Generated.lmHashIndex (Generated.lmApply c.mask lvl)
       if c.kind == kPruned then
         (if hi != Generated.lmHashIndex c.mask then
            some (pySlice (dataBytes c.bits) (Generated.prunedHashLo hi) (Generated.prunedHashHi hi))
          else c.hashes[0]?)
       else c.hashes[hi]?) ∧
    c.getDepth lvl =
      (let hi := Generated.lmHashIndex (Generated.lmApply c.mask lvl)
       if c.kind == kPruned then
         (if hi != Generated.lmHashIndex c.mask then
            (let off := Generated.prunedDepthOff (Generated.lmHashIndex c.mask) hi
             some (natOfBE (pySlice (dataBytes c.bits) (Generated.prunedDepthLo off) (Generated.prunedDepthHi off))))
          else c.depths[0]?)
       else c.depths[hi]?) := by
  have e1 : ∀ hi, Generated.prunedHashLo hi = 2 + 32 * hi := fun hi => (c02_src_pruned_offsets 0 hi 0).2.1
  have e2 : ∀ hi, Generated.prunedHashHi hi = 2 + 32 * (hi + 1) := fun hi => (c02_src_pruned_offsets 0 hi 0).2.2.1
  have e3 : ∀ pi hi, Generated.prunedDepthOff pi hi = 2 + 32 * pi + 2 * hi := fun pi hi => (c02_src_pruned_offsets pi hi 0).2.2.2.1
  have e4 : ∀ off, Generated.prunedDepthLo off = off := fun off => (c02_src_pruned_offsets 0 0 off).2.2.2.2.1
  have e5 : ∀ off, Generated.prunedDepthHi off = off + 2 := fun off => (c02_src_pruned_offsets 0 0 off).2.2.2.2.2
  have hP : ∀ m, Generated.lmHashIndex m = popcount m := fun m => (c02_src_hash_index m).2.1
  simp only [CellInfo.getHash, CellInfo.getDepth, c02_src_hash_index_at]
  simp only [hP, e1, e2, e3, e4, e5]
  constructor
  · have : ∀ h, 2 + h * 32 = 2 + 32 * h ∧ 2 + (h + 1) * 32 = 2 + 32 * (h + 1) := by intro h; omega
    simp only [this]
  · have : ∀ p h, 2 + 32 * p + h * 2 = 2 + 32 * p + 2 * h := by intro p h; omega
    simp only [this]

/-- descriptors of exotic cells: `get_refs_descriptor` / `get_bits_descriptor` compute the spec's d1 (with the exotic flag
and the level MASK) and d2, for ALL reference counts, flags, masks and bit lengths — the two bytes every per-level hash of
`c02_model_eq_spec` starts with (`Spec.plainHashAt`, `Spec.prunedHashAt`). -/
theorem c02_src_descriptors (r : Nat) (exotic : Bool) (mask b : Nat) :
    (Generated.refsDescriptor_sideOk r exotic mask ∧ Generated.bitsDescriptor_sideOk b) ∧
    Generated.refsDescriptor r exotic mask = Spec.d1 r exotic mask ∧ Generated.bitsDescriptor b = Spec.d2 b ∧
    descriptors r exotic b mask =
      (do let d1 ← toBytesBE? Generated.refsDescriptor_width (Generated.refsDescriptor r exotic mask)
          let d2 ← toBytesBE? Generated.bitsDescriptor_width (Generated.bitsDescriptor b)
          pure (d1 ++ d2)) := by
  have h1 : Generated.refsDescriptor r exotic mask = Spec.d1 r exotic mask := by
    simp only [Generated.refsDescriptor, Spec.d1] <;> (cases exotic <;> src_arith)
  have h2 : Generated.bitsDescriptor b = Spec.d2 b := by
    simp only [Generated.bitsDescriptor, Spec.d2]; src_arith
  refine ⟨⟨?_, ?_⟩, h1, h2, ?_⟩
  · simp only [Generated.refsDescriptor_sideOk]; src_arith
  · simp only [Generated.bitsDescriptor_sideOk]; src_arith
  · rw [h1, h2, show Generated.refsDescriptor_width = 1 from rfl, show Generated.bitsDescriptor_width = 1 from rfl]
    unfold descriptors Spec.d1 Spec.d2
    have : (b / 8) * 2 + (if b % 8 != 0 then 1 else 0) = b / 8 + (b + 7) / 8 := by
      by_cases h : b % 8 = 0 <;> simp [h] <;> omega
    rw [this]

/-- concrete values of the regenerated definitions on the gap mask 0b101. -/
example : Generated.lmLevel 5 = 3 ∧ Generated.lmHashIndex 5 = 2 ∧ Generated.lmApply 7 2 = 3 ∧
    Generated.lmIsSignificant 5 2 = false ∧ Generated.lmIsSignificant 5 3 = true ∧ Generated.prunedDepthOff 2 1 = 68 := by
  decide +kernel

end Src

/-! ## Source-regenerated constructor (`Generated/CellCtor.lean`: `Cell.__init__`, `resolve_mask`, the `calculate_hashes` loop,
`get_descriptors`, `get_data_bytes` (completion tag), `get_hash` / `get_depth`, `NullCell.__init__` and the `CellTypes` constants
are re-translated from cell.py / deserialize.py / exotic.py on every run by harness/translate/cellctor.py + pyobj.py)

`Generated.CellCtor.init H bits refs cell_type` is the mechanical translation of the constructor: `none` where the Python code
raises (the three `raise` points of `calculate_hashes`, `resolve_mask`'s checks, `to_bytes` overflow, IndexError), otherwise the
level mask, `_hashes` and `_depths` of the new cell; a child is given by its `CellInfo`, `hashlib.sha256` is the parameter `H`.
The hand model `Model.construct` — about which `c02_model_eq_spec`, the pruning theorems, C01 and the C11 binding theorems are
proved — is thereby tied to the source for ALL inputs, not by samples. -/
section SrcCtor
open TonVerif.Generated.CellCtor TonVerif.Proofs.SrcCellCtor

/-- For ALL cell types (also unknown ones), bit strings (any length) and lists of child infos (any number, any contents):
the regenerated constructor and the hand model take the same decision to raise and return the same cell info (level mask,
`_hashes`, `_depths`), and the other attributes the constructor sets are the model's: `_hash` = `CellInfo.hash` (the LAST entry of
`_hashes`), `_descriptors`, `_data_bytes` (`CtorOut.ofModel`, Model/CellCtorView.lean); and the
regenerated `get_hash` / `get_depth` / `get_data_bytes` / `resolve_mask` (what other cells and C11 read from a constructed cell)
are the hand model's. -/
theorem c02_src_constructor (H : Bytes → Bytes) (kind : Int) (bits : Bits) (refs : List CellInfo) :
    init H bits refs kind = (construct H kind bits refs).map CtorOut.ofModel ∧
    (init H bits refs kind).map CtorOut.toInfo = construct H kind bits refs ∧
    resolve_mask (self_type_ := kind) (self_refs := refs) (self_bits := bits) = resolveMask kind bits refs ∧
    get_data_bytes (self_bits := bits) = some (dataBytes bits) ∧
    (∀ (c : CellInfo) (l : Nat),
      get_hash l (self_level_mask := c.mask) (self_type_ := c.kind) (self_bits := c.bits) (self__hashes := c.hashes) = c.getHash l ∧
      get_depth l (self_level_mask := c.mask) (self_type_ := c.kind) (self_bits := c.bits) (self__depths := c.depths) = c.getDepth l) :=
  ⟨src_construct_eq_model H kind bits refs, src_construct_info H kind bits refs, resolve_mask_eq kind bits refs, get_data_bytes_eq bits,
    fun c l => ⟨get_hash_eq l c, get_depth_eq l c⟩⟩

/-- the hashing loop alone: `calculate_hashes` on a fresh cell (empty `_hashes` / `_depths`) is the fold of the hand model's
`hashStep` over the levels `0..level`, with the hash-index offset `total - hash_count` of the source. -/
theorem c02_src_calculate_hashes (H : Bytes → Bytes) (mask : Nat) (kind : Int) (refs : List CellInfo) (bits : Bits) :
    calculate_hashes H (self_level_mask := mask) (self_type_ := kind) (self__depths := []) (self__hashes := []) (self_refs := refs)
        (self_is_exotic := decide (kind ≠ -1)) (self_bits := bits) =
      ((List.range (bitLength mask + 1)).foldlM
          (hashStep H kind bits refs mask (popcount mask + 1 - (if kind == kPruned then 1 else popcount mask + 1))) ⟨0, [], []⟩).map
        (fun st => (st.depths, st.hashes)) :=
  calculate_hashes_eq H mask kind refs bits

/-- `c02_model_eq_spec` for the regenerated code: applying the REGENERATED constructor bottom-up to any spec-valid tree (pruned
branches of any mask, library cells, Merkle proofs / updates in any nesting) succeeds and yields the spec's level mask and the
spec's hash and depth at every level. -/
theorem c02_src_eq_spec (H : Bytes → Bytes) (c : Cell) (wf : TreeWF H c) :
    ∃ i s, srcInfo H c = some i ∧ specInfo H c = some s ∧
      i.mask = s.mask ∧ ∀ l, i.getHash l = some (s.hashAt l) ∧ i.getDepth l = some (s.depthAt l) := by
  rw [srcInfo_eq]; exact c02_model_eq_spec H c wf

/-! Non-vacuity: the regenerated constructor builds the gap-mask pruned branch of `prunedMask6` (spec-valid, see above) and the
two-cell tree; and it refuses a pruned branch that has a reference. -/
example (H : Bytes → Bytes) : (srcInfo H prunedMask6).isSome = true := by
  obtain ⟨i, _, hi, _⟩ := c02_src_eq_spec H prunedMask6 (by
    unfold prunedMask6 TreeWF
    refine ⟨by simp [TreesWF], .pruned, [], by decide, by simp [specInfos], ?_⟩
    refine ⟨by decide +kernel, by decide, by simp, by simp, ?_, by simp, by simp, by simp⟩
    intro _
    refine ⟨rfl, by decide +kernel, ?_, ?_⟩ <;> decide +kernel)
  simp [hi]

example : (srcInfo toyH tree0).isSome = true := by
  obtain ⟨i, _, hi, _⟩ := c02_src_eq_spec toyH tree0 tree0_wf
  simp [hi]

example (H : Bytes → Bytes) (i : CellInfo) : init H (bytesToBits ([1, 1] ++ List.replicate 34 0)) [i] 1 = none := by
  rw [(c02_src_constructor H _ _ _).1]
  simp [construct, resolveMask, kPruned, kOrdinary]

/-- a cell of level 1 has two hashes and `Cell.hash` is the LAST one (ofModel on a concrete info) -/
example : (CtorOut.ofModel { kind := -1, bits := [], nrefs := 1, mask := 1, hashes := [[1], [2]], depths := [1, 1] }).hash = [2] := by
  decide

end SrcCtor

end TonVerif.Properties.C02
