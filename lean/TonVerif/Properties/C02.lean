/-
C02 — exotic cells: level masks, per-level hashes/depths, constructibility, Merkle pruning invariance.

`Model.Cell.info` is the executable mirror of the Python constructor (resolve_mask + calculate_hashes);
`Spec/Cell.lean` is the TON rule written as recursion on the level.  Helper lemmas: Proofs/CellSpec.lean,
Proofs/Prune.lean.  `H` (SHA-256) is an arbitrary function: no hash assumption is needed for C02.
-/
import TonVerif.Proofs.CellSpec

namespace TonVerif.Properties.C02
open TonVerif TonVerif.Model TonVerif.Proofs.CellSpec

/-- For every spec-valid tree — pruned branches of any mask 1..7, library cells, Merkle proofs and updates,
any nesting — construction succeeds, and the level mask and the hash and depth reported at EVERY level
equal the spec's. -/
theorem c02_model_eq_spec (H : Bytes → Bytes) (c : Cell) (wf : TreeWF H c) :
    ∃ i s, Cell.info H c = some i ∧ specInfo H c = some s ∧
      i.mask = s.mask ∧ ∀ l, i.getHash l = some (s.hashAt l) ∧ i.getDepth l = some (s.depthAt l) := by
  obtain ⟨i, s, hi, hs, hm, hl⟩ := tree_agrees H c wf
  exact ⟨i, s, hi, hs, hm, hl⟩

/-- Every spec-valid cell can be constructed (in particular pruned branches whose mask has gaps). -/
theorem c02_constructible (H : Bytes → Bytes) (c : Cell) (wf : TreeWF H c) : Cell.info H c ≠ none := by
  obtain ⟨i, _, hi, _⟩ := tree_agrees H c wf
  simp [hi]

/-- One node: a well-formed node over children that agree with their specs agrees with its spec. -/
theorem c02_node (H : Bytes → Bytes) (k : Spec.Kind) (bits : Bits) (kis : List CellInfo) (kss : List Spec.SInfo)
    (hk : AllAgree kis kss) (wf : NodeWF H k bits kss) :
    ∃ i, construct H (kindCode k) bits kis = some i ∧ Agrees i (Spec.node H k bits kss) := by
  obtain ⟨i, h1, h2, _⟩ := construct_agrees H k bits kis kss hk wf
  exact ⟨i, h1, h2⟩

/-! Non-vacuity: a pruned branch with the gap mask 0b110 (two stored hashes/depths, 560 data bits)
is spec-valid, hence constructible — the case that the pinned code could not build (defect F2). -/
def prunedMask6 : Cell := .mk 1 (bytesToBits ([1, 6] ++ List.replicate 68 0)) []

example (H : Bytes → Bytes) : TreeWF H prunedMask6 := by
  unfold prunedMask6 TreeWF
  refine ⟨by simp [TreesWF], .pruned, [], by decide, by simp [specInfos], ?_⟩
  refine ⟨by decide +kernel, by decide, by simp, by simp, ?_, by simp, by simp, by simp⟩
  intro _
  refine ⟨rfl, by decide +kernel, ?_, ?_⟩ <;> decide +kernel

end TonVerif.Properties.C02
