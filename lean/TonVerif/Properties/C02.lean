import TonVerif.Model.Cell
import TonVerif.Spec.Cell
namespace TonVerif.Properties.C02
theorem placeholder : True := trivial
end TonVerif.Properties.C02
