/-
C10 — dictionaries use the canonical TON Hashmap encoding; the parsers accept every valid tree.

Spec/Hashmap.lean transcribes hashmap.tlb (`LabelEnc`, `ValidHMK`, `ValidAug`) and the reference label choice
of ton/crypto/vm/dict.cpp (`refLabelKind`).  `Generated.LabelFns` is translated from hashmap/utils.py on every
run; `Model.Hashmap` mirrors hashmap.py / utils.py / parse.py.
-/
import TonVerif.Proofs.Hashmap
import TonVerif.Proofs.SrcHashmap
import TonVerif.Proofs.SrcHashmapSer
import TonVerif.Proofs.SrcHashmapGlue
import TonVerif.Proofs.HashmapEmbed

namespace TonVerif.Properties.C10
open TonVerif TonVerif.Model TonVerif.Model.Hashmap TonVerif.Spec.Hashmap TonVerif.Proofs.Hashmap
open TonVerif.Generated.LabelFns

/-- `detect_label_type(src, key_size)` of utils.py (as translated from the source) picks exactly the constructor the
reference serialiser picks, for EVERY label `src` and EVERY bound `key_size` (in particular all len ≤ max ≤ 1023,
constant or not): with k = bit_length(key_size): same iff constant ∧ len > 1 ∧ k < 2·len−1; else long iff k < len; else short. -/
theorem c10_label_kind (s : Bits) (max : Nat) :
    detect_label_type s max = refLabelKind s.length max (allSame s) := detect_eq s max

/-- `is_same(src)` of utils.py holds exactly for labels consisting of one repeated bit (incl. the empty and 1-bit label). -/
theorem c10_is_same (s : Bits) : is_same s = true ↔ ∃ v, s = List.replicate s.length v := by
  rw [is_same_eq]; exact allSame_iff s

/-- tie-break order of the reference: short before long before same -/
def rank : LabelKind → Nat
  | .short => 0 | .long => 1 | .same => 2

/-- the chosen constructor is admissible, has the minimal encoded length among all admissible constructors
(2+2·len / 2+k+len / 3+k bits), and on equal length the earlier of short < long < same is taken — for all
len, max, same (pure arithmetic in k = bit_length(max), no enumeration). -/
theorem c10_label_minimal (len max : Nat) (same : Bool) (k : LabelKind) (hk : kindAdmissible k same) :
    kindAdmissible (refLabelKind len max same) same ∧
    encLen (refLabelKind len max same) len max ≤ encLen k len max ∧
    (encLen (refLabelKind len max same) len max = encLen k len max → rank (refLabelKind len max same) ≤ rank k) := by
  unfold refLabelKind kindAdmissible encLen rank at *
  generalize lenBits max = kk
  by_cases h1 : (same = true ∧ len > 1 ∧ kk < 2 * len - 1) <;> by_cases h2 : kk < len <;>
    simp only [h1, h2, if_true, if_false] <;> cases k <;> cases same <;> simp at hk h1 ⊢ <;> omega

/-- the same statement about the translated source function -/
theorem c10_detect_minimal (s : Bits) (max : Nat) (k : LabelKind) (hk : kindAdmissible k (allSame s)) :
    encLen (detect_label_type s max) s.length max ≤ encLen k s.length max ∧
    (encLen (detect_label_type s max) s.length max = encLen k s.length max → rank (detect_label_type s max) ≤ rank k) := by
  rw [c10_label_kind]
  exact (c10_label_minimal s.length max (allSame s) k hk).2


/-- CANONICAL.  Whenever `HashMap.serialize()` returns a cell `c` for a map `d` built by `set_int_key` (distinct keys < 2^n),
`c` is a spec-valid `Hashmap n X` in which EVERY label uses the reference constructor (`Canonical` = `ValidHMK refPolicy`), whose
leaves `kv` are, in strictly ascending key order, exactly the entries of the map (key = the n-bit big-endian string of the int key,
value = what the value serialiser wrote).  Labels are maximal common prefixes because both sides of every fork hold a leaf. -/
theorem c10_canonical {V : Type} (n : Nat) (hn : 0 < n) (ser : V → Option Val) (d : Dict V) (c : Cell)
    (hd : DictOK n d) (h : serialize n ser d = some (some c)) :
    ∃ kv : List (Bits × Val), Canonical n c kv ∧ ValidHashmap n c kv ∧
      kv.Pairwise (fun a b => natOfBits a.1 < natOfBits b.1) ∧ (∀ p ∈ kv, p.1.length = n) ∧
      ∀ kb val, (kb, val) ∈ kv ↔ ∃ k v, (k, v) ∈ d ∧ kb = keyBits n k ∧ ser v = some val := by
  obtain ⟨kv, hc, h1, h2, h3⟩ := serialize_canonical n hn ser d c hd h
  exact ⟨kv, hc, valid_mono (fun _ _ _ _ => trivial) hc, h1, h2, h3⟩

/-- maps produced by `set_int_key` calls satisfy the hypothesis of `c10_canonical` -/
theorem c10_canonical_hyp {V : Type} (n : Nat) (ins : List (Int × V)) (d : Dict V) (h : setAll n ins [] = some d) : DictOK n d :=
  setAll_ok n ins [] d ⟨by simp, by simp⟩ h


/-- UNIQUE.  Two canonical dictionary cells (spec-valid, every label in the reference constructor, nothing pruned) with the same
leaf list are the SAME cell (bits and references, recursively) — so, with `c10_canonical`, the cell `HashMap.serialize()` returns
is the one the reference serialiser produces for that map, and its hash (C01) is the on-chain hash. -/
theorem c10_unique {n : Nat} {c₁ c₂ : Cell} {kv : List (Bits × Val)} (h₁ : Canonical n c₁ kv) (h₂ : Canonical n c₂ kv) : c₁ = c₂ :=
  canonical_unique' h₁ rfl c₂ kv rfl h₂

/-- PARSE ANY VALID TREE (plain): if `c` is a spec-valid `Hashmap n X` — every label in ANY of the constructors
short/long/same that can express it, edges possibly replaced by pruned branches when `p = true` — whose non-pruned leaves
are `kv`, then `parse_hashmap(c.begin_parse(), n)` returns exactly `kv` (same keys, same value slices, same order). -/
theorem c10_parse_any {ok : Nat → Bits → LabelKind → Prop} {p : Bool} {n : Nat} {c : Cell} {kv : List (Bits × Val)}
    (hn : 0 < n) (h : ValidHMK ok p n c kv) : parseHashmap c n = some kv := by
  have := parseEdge_valid h [] (Or.inr hn)
  simpa [parseHashmap, map_pre_nil] using this

/-- the same through `HashMap.parse` (int keys) when the root is an ordinary cell; a pruned ROOT gives `None`. -/
theorem c10_parse_any_api {ok : Nat → Bits → LabelKind → Prop} {p : Bool} {n : Nat} {c : Cell} {kv : List (Bits × Val)}
    (hn : 0 < n) (h : ValidHMK ok p n c kv) :
    hashMapParse c n = (match c with | .mk kind _ _ => if kind = -1 then PResult.dict (intKeys kv) else PResult.none) ∧
    (fromCell c n = some (intKeys kv)) := by
  have hp := c10_parse_any hn h
  cases c with
  | mk kind bits refs =>
    simp only [hashMapParse, fromCell, hp, Option.map_some]
    by_cases hk : kind = -1 <;> simp [hk]

/-- PARSE ANY VALID TREE (augmented): for a spec-valid `HashmapAug n X Y` (any label constructors, any non-ordinary
cell standing for a pruned edge) `parse_aug` returns the leaves of the non-pruned part and the extras in the order
leaf: own extra; fork: left subtree, right subtree, own extra. -/
theorem c10_parse_any_aug {X Y : Type} {D : AugDec X Y} {p : Bool} {n : Nat} {c : Cell} {kv : List (Bits × X)} {ex : List Y}
    (h : ValidAug D p n c kv ex) : parseAugEdge D c n [] = some (kv, ex) := by
  have := parseAugEdge_valid h []
  simpa [map_pre_nil] using this


/-- the same through the public entry points: `parse_hashmap_aug` / `Slice.load_hashmap_aug` on an ordinary root return
(int-keyed dict of the leaves, extras); `Slice.load_hashmap_aug_e` on a slice `1 ^root extra` (`ahme_root`) likewise, provided the
top-level extra is readable; on `0 extra` (`ahme_empty`) it returns the empty dict and that extra; on a special (exotic) slice
the cell itself. -/
theorem c10_parse_any_aug_api {X Y : Type} {D : AugDec X Y} {p : Bool} {n : Nat} {bits refs} {kv : List (Bits × X)} {ex : List Y}
    (hn : 0 < n) (h : ValidAug D p n (.mk (-1) bits refs) kv ex) (rest : Bits) (more : List Cell)
    (y : Y) (sl : Spec.Hashmap.Val) (hy : D.decY (rest, more) = some (y, sl)) :
    (match parseHashmapAug D (.mk (-1) bits refs) n with | .dict r => r = (intKeys kv, ex) | _ => False) ∧
    (match loadHashmapAugE D (-1) (true :: rest) (.mk (-1) bits refs :: more) n with
      | .dict r e => r = intKeys kv ∧ e = ex | _ => False) ∧
    (match loadHashmapAugE D (-1) (false :: rest) more n with | .empty y' => y' = y | _ => False) ∧
    (match loadHashmapAugE D 1 rest more n with | .cell => True | _ => False) := by
  have h1 := parseHashmapAug_valid hn h
  refine ⟨h1, ?_, by simp [loadHashmapAugE, hy], by simp [loadHashmapAugE]⟩
  simp only [loadHashmapAugE, ne_eq, not_true_eq_false, if_false]
  cases hq : parseHashmapAug D (.mk (-1) bits refs) n with
  | err => rw [hq] at h1; exact h1.elim
  | none => rw [hq] at h1; exact h1.elim
  | dict r => rw [hq] at h1; simp only at h1; subst h1; simp [hy]

/-- an unreadable top-level extra makes `load_hashmap_aug_e` raise (both constructors) -/
theorem c10_aug_e_extra_required {X Y : Type} {D : AugDec X Y} (n : Nat) (c : Cell) (rest : Bits) (more : List Cell)
    (hy : D.decY (rest, more) = none) :
    (match loadHashmapAugE D (-1) (true :: rest) (c :: more) n with | .err => True | _ => False) ∧
    (match loadHashmapAugE D (-1) (false :: rest) more n with | .err => True | _ => False) := by
  constructor
  · simp only [loadHashmapAugE, ne_eq, not_true_eq_false, if_false]
    cases parseHashmapAug D c n with
    | err => trivial
    | none => simp [hy]
    | dict r => simp [hy]
  · simp [loadHashmapAugE, hy]

/-! ### labels longer than the remaining key are refused (repaired behaviour) -/

/-- hashmap.tlb puts `{n <= m}` on all three `HmLabel` constructors.  `deserialize_hml` on the bit pattern of ANY constructor for a
label `s` under bound `m` (`LabelBits`: the pattern without the side condition) returns `(|s|, s, rest)` iff `|s| ≤ m` and raises
otherwise; the patterns it returns are exactly the spec's `LabelEnc`. -/
theorem c10_label_accepted_iff {m : Nat} {s : Bits} {k : LabelKind} {lb : Bits} (h : LabelBits m s k lb) (rest : Bits) :
    (deserializeHml (lb ++ rest) (m : Int) = some (s.length, s, rest) ↔ LabelEnc m s k lb) ∧
    (deserializeHml (lb ++ rest) (m : Int) = none ↔ m < s.length) := by
  rw [deserializeHml_bits h, labelEnc_iff_bits]
  by_cases hl : s.length ≤ m
  · simp [hl, h] <;> omega
  · simp [hl] <;> omega

/-- A LABEL LONGER THAN THE REMAINING KEY IS REFUSED, at the root: a cell whose data starts with the pattern of any label
constructor for a label of more than `m` bits makes `parse` raise at key length `m` (whatever the cell type: `parse` reads the
label first), hence `parse_hashmap`, `HashMap.parse`, `HashMap.from_cell`, `load_dict` raise; an ordinary such cell makes
`parse_aug` / `parse_hashmap_aug` / `load_hashmap_aug_e` raise.  Before the repair the remaining length `m - n` went negative and
the parsers walked on below such an edge, returning an empty result. -/
theorem c10_label_too_long_rejected {m : Nat} {s : Bits} {k : LabelKind} {lb : Bits} (h : LabelBits m s k lb) (hlong : m < s.length)
    (rest : Bits) (kind : Int) (refs : List Cell) (pfx : Bits) :
    parseEdge (.mk kind (lb ++ rest) refs) m pfx = none ∧
    parseHashmap (.mk kind (lb ++ rest) refs) m = none ∧
    (match hashMapParse (.mk (-1) (lb ++ rest) refs) m with | .err => True | _ => False) ∧
    fromCell (.mk kind (lb ++ rest) refs) m = none ∧
    (∀ (b : Bits) (more : List Cell),
      match loadDict (true :: b) (.mk (-1) (lb ++ rest) refs :: more) m with | .err => True | _ => False) ∧
    (∀ {X Y : Type} (D : AugDec X Y), parseAugEdge D (.mk (-1) (lb ++ rest) refs) m pfx = none ∧
      (match parseHashmapAug D (.mk (-1) (lb ++ rest) refs) m with | .err => True | _ => False) ∧
      (∀ (b : Bits) (more : List Cell),
        match loadHashmapAugE D (-1) (true :: b) (.mk (-1) (lb ++ rest) refs :: more) m with | .err => True | _ => False)) := by
  have hd : deserializeHml (lb ++ rest) (m : Int) = none := ((c10_label_accepted_iff h rest).2).2 hlong
  have hp : ∀ pfx, parseEdge (.mk kind (lb ++ rest) refs) m pfx = none := fun _ => parseEdge_label_none hd
  have hp' : ∀ pfx, parseEdge (.mk (-1) (lb ++ rest) refs) m pfx = none := fun _ => parseEdge_label_none hd
  refine ⟨hp pfx, hp [], ?_, ?_, ?_, ?_⟩
  · simp [hashMapParse, parseHashmap, hp']
  · simp [fromCell, parseHashmap, hp]
  · intro b more; simp [loadDict, hashMapParse, parseHashmap, hp']
  · intro X Y D
    have ha : ∀ pfx, parseAugEdge D (.mk (-1) (lb ++ rest) refs) m pfx = none := fun _ => parseAugEdge_label_none D hd
    refine ⟨ha pfx, by simp [parseHashmapAug, ha], ?_⟩
    intro b more
    simp [loadHashmapAugE, parseHashmapAug, ha]

/-- … and BELOW FORKS: under a fork with a valid label (`LabelEnc`, `m` key bits remaining for the children) a child — left or
right, whatever the other child is — whose label pattern announces more than `m` bits makes the whole parse raise, in `parse` and
in `parse_aug` (an exception anywhere ends the whole parse: `parseFork_none`, `parseAugFork_none`). -/
theorem c10_label_too_long_below_fork {n m : Nat} {s : Bits} {k : LabelKind} {lb : Bits} (hl : LabelEnc n s k lb)
    (hn : n = s.length + 1 + m) {s' : Bits} {k' : LabelKind} {lb' : Bits} (h' : LabelBits m s' k' lb') (hlong : m < s'.length)
    (rest rest' : Bits) (kind' : Int) (refs' more : List Cell) (other : Cell) (pfx : Bits) :
    parseEdge (.mk (-1) (lb ++ rest) (.mk kind' (lb' ++ rest') refs' :: other :: more)) n pfx = none ∧
    parseEdge (.mk (-1) (lb ++ rest) (other :: .mk kind' (lb' ++ rest') refs' :: more)) n pfx = none ∧
    (∀ {X Y : Type} (D : AugDec X Y),
      parseAugEdge D (.mk (-1) (lb ++ rest) (.mk (-1) (lb' ++ rest') refs' :: other :: more)) n pfx = none ∧
      parseAugEdge D (.mk (-1) (lb ++ rest) (other :: .mk (-1) (lb' ++ rest') refs' :: more)) n pfx = none) := by
  have hm : ((n : Int) - (s.length : Int) = 0) = False := by simp; omega
  have hm2 : (n : Int) - (s.length : Int) - 1 = (m : Int) := by omega
  have hbad : ∀ kind pfx, parseEdge (.mk kind (lb' ++ rest') refs') m pfx = none :=
    fun kind pfx => (c10_label_too_long_rejected h' hlong rest' kind refs' pfx).1
  refine ⟨?_, ?_, ?_⟩
  · rw [parseEdge, deserializeHml_enc hl]
    simp only [ne_eq, not_true_eq_false, if_false, hm, hm2]
    exact parseFork_none (Or.inl (hbad _ _))
  · rw [parseEdge, deserializeHml_enc hl]
    simp only [ne_eq, not_true_eq_false, if_false, hm, hm2]
    exact parseFork_none (Or.inr (hbad _ _))
  · intro X Y D
    have hbadA : ∀ pfx, parseAugEdge D (.mk (-1) (lb' ++ rest') refs') m pfx = none :=
      fun pfx => ((c10_label_too_long_rejected h' hlong rest' (-1) refs' pfx).2.2.2.2.2 D).1
    constructor
    · rw [parseAugEdge, deserializeHml_enc hl]
      simp only [ne_eq, not_true_eq_false, if_false, hm, hm2]
      exact parseAugFork_none D (Or.inl (hbadA _))
    · rw [parseAugEdge, deserializeHml_enc hl]
      simp only [ne_eq, not_true_eq_false, if_false, hm, hm2]
      exact parseAugFork_none D (Or.inr (hbadA _))

/-- AT EVERY DEPTH: a `parse` that returns has walked only through edges whose label is readable and not longer than the key
length remaining at that edge (`labelsFit`: the walk follows the first two references of ordinary cells whose label leaves key
bits over, with the remaining length minus the fork bit) — so the remaining key length is `≥ 0` at every edge of the walk, and
a negative key length is refused at once. -/
theorem c10_parse_labels_fit (c : Cell) (n : Int) (kv : List (Bits × Val)) (h : parseEdge c n [] = some kv) :
    labelsFit c n ∧ 0 ≤ n :=
  ⟨parseEdge_labelsFit c n [] kv h, labelsFit_nonneg c n (parseEdge_labelsFit c n [] kv h)⟩

theorem c10_negative_key_rejected (c : Cell) (n : Int) (hn : n < 0) (pfx : Bits) :
    parseEdge c n pfx = none ∧
    (∀ {X Y : Type} (D : AugDec X Y) (bits : Bits) (refs : List Cell), parseAugEdge D (.mk (-1) bits refs) n pfx = none) :=
  ⟨parseEdge_neg c hn pfx, fun D bits refs => parseAugEdge_neg D bits refs hn pfx⟩

/-! non-vacuity: over-long labels of all three constructors at key length 2 (3 bits announced; the `#<= 2` field is 2 bits wide) -/
example : parseHashmap (.mk (-1) [false, true, true, true, false, true, false, true] []) 2 = none
    ∧ parseHashmap (.mk (-1) [true, false, true, true, true, false, true] []) 2 = none
    ∧ parseHashmap (.mk (-1) [true, true, true, true, true] []) 2 = none := by
  have overShort : LabelBits 2 [true, false, true] .short [false, true, true, true, false, true, false, true] := by
    have := LabelBits.short (m := 2) (s := [true, false, true]); simpa using this
  have overLong : LabelBits 2 [true, false, true] .long [true, false, true, true, true, false, true] := by
    have := LabelBits.long (m := 2) (s := [true, false, true]) (by simp [lenBits, bitLength])
    simpa [lenBits, bitLength, natToBits] using this
  have overSame : LabelBits 2 [true, true, true] .same [true, true, true, true, true] := by
    have := LabelBits.same (m := 2) (s := [true, true, true]) true (by simp) (by simp [lenBits, bitLength])
    simpa [lenBits, bitLength, natToBits] using this
  have a := (c10_label_too_long_rejected overShort (by decide) [] (-1) [] []).2.1
  have b := (c10_label_too_long_rejected overLong (by decide) [] (-1) [] []).2.1
  have c := (c10_label_too_long_rejected overSame (by decide) [] (-1) [] []).2.1
  simp only [List.append_nil, Nat.cast_ofNat] at a b c
  exact ⟨a, b, c⟩
/-- below a fork: the right child announces 2 bits with 1 remaining -/
example : parseHashmap (.mk (-1) [false, false] [.mk (-1) [false, true, false, true] [], .mk (-1) [false, true, true, false, true, true] []]) 2 = none
    ∧ parseHashmap (.mk (-1) [false, false] [.mk (-1) [false, true, false, true] [], .mk (-1) [false, true, false, true] []]) 2
      = some [([false, true], ([], [])), ([true, true], ([], []))] := by
  refine ⟨by rfl, by rfl⟩

/-! non-vacuity of `c10_parse_any`: -/
/-- a non-canonical but valid 1-bit dictionary {0 ↦ 1111, 1 ↦ 0000}: root label `hml_long`, leaf labels `hml_same` / `hml_long` -/
def exCell : Cell :=
  .mk (-1) [true, false, false] [.mk (-1) [true, true, true, true, true, true, true] [], .mk (-1) [true, false, false, false, false, false] []]

theorem exCell_valid : ValidHashmap 1 exCell
    [([false], ([true, true, true, true], [])), ([true], ([false, false, false, false], []))] := by
  have l1 : LabelEnc 1 [] .long [true, false, false] := by
    have := LabelEnc.long (m := 1) (s := []) (by simp); simpa [lenBits, bitLength, natToBits] using this
  have l2 : LabelEnc 0 [] .same [true, true, true] := by
    have := LabelEnc.same (m := 0) (s := []) true (by simp) (by simp); simpa [lenBits, bitLength, natToBits] using this
  have l3 : LabelEnc 0 [] .long [true, false] := by
    have := LabelEnc.long (m := 0) (s := []) (by simp); simpa [lenBits, bitLength, natToBits] using this
  have a := ValidHMK.leaf (ok := fun _ _ _ => True) (p := false) (vb := [true, true, true, true]) (vr := []) l2 trivial rfl
  have b := ValidHMK.leaf (ok := fun _ _ _ => True) (p := false) (vb := [false, false, false, false]) (vr := []) l3 trivial rfl
  have := ValidHMK.fork (m := 0) l1 trivial (by simp) a b
  simpa [exCell, pre] using this

example : parseHashmap exCell 1 = some [([false], ([true, true, true, true], [])), ([true], ([false, false, false, false], []))] :=
  c10_parse_any (by decide) exCell_valid

/-! ### the parser REGENERATED from parse.py (Generated/HashmapSrc.lean, translator pyrec.py / hashmapsrc.py)

`Py.Slice` = (cell type, remaining bits, remaining references); a regenerated function returns its result next to the final
values of the parameters it mutates; `none` = the Python code raises; `fuel` bounds the recursion depth — every statement
holds for EVERY fuel ≥ 2·key_length + 2 (Python has no fuel). -/

open TonVerif.Generated.HashmapSrc TonVerif.Proofs.SrcHashmap

/-- LABEL READER FROM THE SOURCE.  `deserialize_hml(ser, m)` as regenerated from parse.py equals the hand model's reader on the
remaining bits of ANY slice, for EVERY int `m` (also negative): same decision to raise, same `(n, s)`, same bits left. -/
theorem c10_src_label_reader (ser : Py.Slice) (m : Int) :
    deserialize_hml ser m = (deserializeHml ser.bits m).map fun t => ((t.1, t.2.1), withBits ser t.2.2) :=
  deserialize_hml_eq ser m

/-- `deserialize_unary(ser)` from the source = `readUnary`; its `while` loop gives the same result for every loop fuel at least the
declared variant (the number of remaining bits), so the variant loses nothing. -/
theorem c10_src_unary (ser : Py.Slice) :
    deserialize_unary ser = (readUnary ser.bits).map (fun p => (p.1, withBits ser p.2)) ∧
    ∀ lf n r, ser.bits.length ≤ lf →
      deserialize_unary_while1 lf (n, r, ser) = deserialize_unary_while1 ser.bits.length (n, r, ser) :=
  ⟨deserialize_unary_eq ser, fun lf n r h => unary_loop_fuel_indep lf n r ser h⟩

/-- `c10_label_accepted_iff` for the regenerated reader: on the bit pattern of ANY label constructor it returns `(|s|, s)` and
the slice behind the label iff the pattern is a spec encoding (`{n <= m}` holds), and raises iff the label is longer than `m`. -/
theorem c10_src_label_accepted_iff {m : Nat} {s : Bits} {k : LabelKind} {lb : Bits} (h : LabelBits m s k lb) (rest : Bits)
    (kind : Int) (refs : List Cell) :
    (deserialize_hml ⟨kind, lb ++ rest, refs⟩ (m : Int) = some ((s.length, s), ⟨kind, rest, refs⟩) ↔ LabelEnc m s k lb) ∧
    (deserialize_hml ⟨kind, lb ++ rest, refs⟩ (m : Int) = none ↔ m < s.length) := by
  obtain ⟨h1, h2⟩ := c10_label_accepted_iff h rest
  rw [c10_src_label_reader]
  constructor
  · rw [← h1]
    cases hd : deserializeHml (lb ++ rest) (m : Int) with
    | none => simp
    | some t =>
      obtain ⟨n, s', r'⟩ := t
      simp only [Option.map_some, Option.some.injEq, Prod.mk.injEq, withBits]
      constructor
      · rintro ⟨⟨rfl, rfl⟩, hsl⟩
        have : r' = rest := by simpa using congrArg Py.Slice.bits hsl
        subst this; exact ⟨rfl, rfl, rfl⟩
      · rintro ⟨rfl, rfl, rfl⟩; exact ⟨⟨rfl, rfl⟩, rfl⟩
  · rw [← h2]; simp

/-- PARSE RECURSION FROM THE SOURCE.  `parse` / `deserialize_hashmap_node` as regenerated from parse.py: for every cell, key
length, dict and prefix, what `parse` leaves in `ret_dict` is the dict updated (`d[key] = slice`) with the entries of the hand
model's `parseEdge`, in order — and it raises exactly when the model does. -/
theorem c10_src_parse (fuel : Nat) (c : Cell) (k : Int) (d : List (Bits × Py.Slice)) (pfx : Bits) (hf : 2 * k.toNat + 2 ≤ fuel) :
    (parse fuel (Py.beginParse c) k d pfx).map (·.2.1) = (parseEdge c k pfx).map (addAll d) :=
  src_parse_eq fuel c k d pfx hf

/-- `parse_hashmap(cell.begin_parse(), n)` from the source returns exactly the entries of `parseHashmap` (same keys, same order;
each value the ordinary slice behind the leaf's label) or raises exactly when it does. -/
theorem c10_src_parse_hashmap (fuel : Nat) (c : Cell) (n : Nat) (hf : 2 * n + 2 ≤ fuel) :
    (parse_hashmap fuel (Py.beginParse c) (n : Int)).map (·.1) =
      (parseHashmap c n).map fun kv => kv.map fun p => (p.1, valSlice p.2) :=
  src_parse_hashmap_eq fuel c n hf

/-- `c10_parse_any` holds of the regenerated parser: every spec-valid `Hashmap n X` (any label constructors, pruned edges) is
decoded by the code of parse.py to exactly its non-pruned leaves. -/
theorem c10_src_parse_any {ok : Nat → Bits → LabelKind → Prop} {p : Bool} {n : Nat} {c : Cell} {kv : List (Bits × Val)}
    (hn : 0 < n) (h : ValidHMK ok p n c kv) (fuel : Nat) (hf : 2 * n + 2 ≤ fuel) :
    (parse_hashmap fuel (Py.beginParse c) (n : Int)).map (·.1) = some (kv.map fun p => (p.1, valSlice p.2)) := by
  rw [c10_src_parse_hashmap fuel c n hf, c10_parse_any hn h]; rfl

/-- the augmented recursion from the source (`parse_aug` / `deserialize_hashmap_aug_node`), for every decoder pair `D`
(callbacks `x_deserializer = xdOf D`, `y_deserializer = ydOf D`): `ret_dict` and `extras` afterwards are the model's. -/
theorem c10_src_parse_aug {X Y : Type} (D : AugDec X Y) (fuel : Nat) (c : Cell) (k : Int) (d : List (Bits × X)) (ex : List Y)
    (pfx : Bits) (hf : 2 * k.toNat + 2 ≤ fuel) :
    (parse_aug (xdOf D) (ydOf D) fuel (Py.beginParse c) k d ex pfx).map (fun r => (r.2.1, r.2.2.1)) =
      (parseAugEdge D c k pfx).map (augOut d ex) :=
  src_parse_aug_eq D fuel c k d ex pfx hf

/-- `c10_parse_any_aug` holds of the regenerated `parse_aug`: entries `d[key] = x` for the leaves, extras in left/right/own order -/
theorem c10_src_parse_any_aug {X Y : Type} {D : AugDec X Y} {p : Bool} {n : Nat} {c : Cell} {kv : List (Bits × X)} {ex : List Y}
    (h : ValidAug D p n c kv ex) (fuel : Nat) (hf : 2 * n + 2 ≤ fuel) :
    (parse_aug (xdOf D) (ydOf D) fuel (Py.beginParse c) (n : Int) [] [] []).map (fun r => (r.2.1, r.2.2.1)) =
      some (addAllX [] kv, ex) := by
  rw [c10_src_parse_aug D fuel c n [] [] [] (by simpa using hf), c10_parse_any_aug h]; rfl

/-- an over-long label makes the regenerated `parse_hashmap` raise (root position), for every fuel above the bound -/
theorem c10_src_label_too_long_rejected {m : Nat} {s : Bits} {k : LabelKind} {lb : Bits} (h : LabelBits m s k lb) (hlong : m < s.length)
    (rest : Bits) (kind : Int) (refs : List Cell) (fuel : Nat) (hf : 2 * m + 2 ≤ fuel) :
    parse_hashmap fuel (Py.beginParse (.mk kind (lb ++ rest) refs)) (m : Int) = none := by
  have h1 := c10_src_parse_hashmap fuel (.mk kind (lb ++ rest) refs) m hf
  rw [(c10_label_too_long_rejected h hlong rest kind refs []).2.1] at h1
  simpa using h1

/-! non-vacuity: the regenerated parser on `exCell` (non-canonical constructors), and on an over-long label -/
example : (parse_hashmap 4 (Py.beginParse exCell) 1).map (·.1) =
    some [([false], ⟨-1, [true, true, true, true], []⟩), ([true], ⟨-1, [false, false, false, false], []⟩)] :=
  c10_src_parse_any (by decide) exCell_valid 4 (by decide)
example : parse_hashmap 6 (Py.beginParse (.mk (-1) [true, true, true, true, true] [])) 2 = none := by rfl
example : (deserialize_hml ⟨-1, [true, true, true, true, false, true], []⟩ 2).map (·.1) = some (2, [true, true]) := by rfl

/-! ### a dictionary as a FIELD of a larger constructor (round 10)

`Hashmap n X` (unlike `HashmapE`) is stored INLINE: its root edge lives in the caller's cell, which may carry further bits and
references behind the dictionary (`holder#_ entries:(Hashmap 16 X) owner:^Cell`).  `ValidHMK.fork` describes a fork in a cell of
its own (exactly the label, exactly two references); these statements cover the root that does not own its cell. -/
section Embedded
open TonVerif.Proofs.HashmapEmbed TonVerif.Generated.HashmapSrc TonVerif.Proofs.SrcHashmap

/-- EMBEDDED DICTIONARY (hand model).  A fork root (label `lb` of `s`, spec-valid children `l`, `r`, any label constructors,
pruned edges allowed) followed IN THE SAME CELL by ANY further bits `postB` and ANY further references `postR`:
`parse_hashmap` / `HashMap.parse` / `Slice.load_hashmap` on that slice return exactly the leaves of the non-pruned part.  (A leaf
root is `c10_parse_any` itself: `ValidHMK.leaf` lets the value be everything behind the label.)  A `HashmapE` among other fields:
`load_dict` / `preload_dict` on `1 ^root …` give `HashMap.parse(root)` whatever bits and references follow, on `0 …` None. -/
theorem c10_parse_embedded {ok : Nat → Bits → LabelKind → Prop} {p : Bool} {n m : Nat} {s : Bits} {k : LabelKind} {lb : Bits}
    {l r : Cell} {kvl kvr : List (Bits × Val)}
    (hl : LabelEnc n s k lb) (hn : n = s.length + 1 + m) (hL : ValidHMK ok p m l kvl) (hR : ValidHMK ok p m r kvr)
    (postB : Bits) (postR : List Cell) :
    parseHashmap (.mk (-1) (lb ++ postB) (l :: r :: postR)) n = some (kvl.map (pre (s ++ [false])) ++ kvr.map (pre (s ++ [true]))) ∧
    hashMapParse (.mk (-1) (lb ++ postB) (l :: r :: postR)) n
      = .dict (intKeys (kvl.map (pre (s ++ [false])) ++ kvr.map (pre (s ++ [true])))) ∧
    (∀ c : Cell, loadDict (true :: postB) (c :: postR) n = hashMapParse c n) ∧
    loadDict (false :: postB) postR n = .none := by
  have h := parseEdge_fork_trailing hl hn hL hR postB postR []
  rw [map_pre_nil] at h
  refine ⟨h, ?_, fun c => rfl, rfl⟩
  simp only [hashMapParse, parseHashmap, h]
  simp

/-- EXACT CONSUMPTION (regenerated from parse.py).  On the same slice the code of `parse_hashmap` returns those leaves AND leaves
the caller's slice standing exactly behind the dictionary: the bits `postB` and the references `postR` - the two children
consumed, nothing else - for every fuel ≥ 2n+2.  So the fields after an inline `Hashmap` read back. -/
theorem c10_src_parse_embedded {ok : Nat → Bits → LabelKind → Prop} {p : Bool} {n m : Nat} {s : Bits} {k : LabelKind} {lb : Bits}
    {l r : Cell} {kvl kvr : List (Bits × Val)}
    (hl : LabelEnc n s k lb) (hn : n = s.length + 1 + m) (hL : ValidHMK ok p m l kvl) (hR : ValidHMK ok p m r kvr)
    (postB : Bits) (postR : List Cell) (fuel : Nat) (hf : 2 * n + 2 ≤ fuel) :
    parse_hashmap fuel ⟨-1, lb ++ postB, l :: r :: postR⟩ (n : Int)
      = some ((kvl.map (pre (s ++ [false])) ++ kvr.map (pre (s ++ [true]))).map (fun q => (q.1, valSlice q.2)), ⟨-1, postB, postR⟩) := by
  have h1 := c10_src_parse_hashmap fuel (.mk (-1) (lb ++ postB) (l :: r :: postR)) n hf
  rw [(c10_parse_embedded hl hn hL hR postB postR).1] at h1
  simp only [Py.beginParse, Option.map_some] at h1
  rcases hq : parse_hashmap fuel ⟨-1, lb ++ postB, l :: r :: postR⟩ (n : Int) with _ | ⟨res, sl⟩
  · rw [hq] at h1; simp at h1
  · rw [hq] at h1
    simp only [Option.map_some, Option.some.injEq] at h1
    subst h1
    unfold parse_hashmap at hq
    simp only [Option.bind_eq_bind, Option.pure_def] at hq
    obtain ⟨a, ha1, ha2⟩ := Option.bind_eq_some_iff.1 hq
    obtain ⟨sl0, d0, p0⟩ := a
    obtain ⟨n', s', rest', hd, hsl⟩ := src_parse_final_slice fuel (-1) (lb ++ postB) (l :: r :: postR) n [] [] sl0 d0 p0 ha1
    rw [deserializeHml_enc hl] at hd
    simp only [Option.some.injEq, Prod.mk.injEq] at hd ha2
    obtain ⟨rfl, rfl, rfl⟩ := hd
    have hne : (n : Int) - (s.length : Int) ≠ 0 := by omega
    simp only [hne, ne_eq, not_false_eq_true, and_self, if_true, List.drop_succ_cons, List.drop_zero] at hsl
    rw [← ha2.2, hsl]

/-- non-vacuity: `exCell`'s root (label `hml_long` of 0 bits, two valid leaves) followed by the bits `101` and a third reference:
parsed to the same two leaves, the slice left on `101` and that reference -/
example : parse_hashmap 4 ⟨-1, [true, false, false] ++ [true, false, true],
      .mk (-1) [true, true, true, true, true, true, true] [] :: .mk (-1) [true, false, false, false, false, false] [] :: [exCell]⟩ 1
    = some ([([false], ⟨-1, [true, true, true, true], []⟩), ([true], ⟨-1, [false, false, false, false], []⟩)], ⟨-1, [true, false, true], [exCell]⟩) := by
  have l1 : LabelEnc 1 [] .long [true, false, false] := by
    have := LabelEnc.long (m := 1) (s := []) (by simp); simpa [lenBits, bitLength, natToBits] using this
  have l2 : LabelEnc 0 [] .same [true, true, true] := by
    have := LabelEnc.same (m := 0) (s := []) true (by simp) (by simp); simpa [lenBits, bitLength, natToBits] using this
  have l3 : LabelEnc 0 [] .long [true, false] := by
    have := LabelEnc.long (m := 0) (s := []) (by simp); simpa [lenBits, bitLength, natToBits] using this
  have a := ValidHMK.leaf (ok := fun _ _ _ => True) (p := false) (vb := [true, true, true, true]) (vr := []) l2 trivial rfl
  have b := ValidHMK.leaf (ok := fun _ _ _ => True) (p := false) (vb := [false, false, false, false]) (vr := []) l3 trivial rfl
  have := c10_src_parse_embedded (m := 0) l1 (by simp) a b [true, false, true] [exCell] 4 (by decide)
  simpa [pre, valSlice] using this
example : hashMapParse (.mk (-1) ([true, false, false] ++ [true, false, true])
      (.mk (-1) [true, true, true, true, true, true, true] [] :: .mk (-1) [true, false, false, false, false, false] [] :: [exCell])) 1
    = .dict [(0, ([true, true, true, true], [])), (1, ([false, false, false, false], []))] := by
  have l1 : LabelEnc 1 [] .long [true, false, false] := by
    have := LabelEnc.long (m := 1) (s := []) (by simp); simpa [lenBits, bitLength, natToBits] using this
  have l2 : LabelEnc 0 [] .same [true, true, true] := by
    have := LabelEnc.same (m := 0) (s := []) true (by simp) (by simp); simpa [lenBits, bitLength, natToBits] using this
  have l3 : LabelEnc 0 [] .long [true, false] := by
    have := LabelEnc.long (m := 0) (s := []) (by simp); simpa [lenBits, bitLength, natToBits] using this
  have a := ValidHMK.leaf (ok := fun _ _ _ => True) (p := false) (vb := [true, true, true, true]) (vr := []) l2 trivial rfl
  have b := ValidHMK.leaf (ok := fun _ _ _ => True) (p := false) (vb := [false, false, false, false]) (vr := []) l3 trivial rfl
  have := (c10_parse_embedded (m := 0) l1 (by simp) a b [true, false, true] [exCell]).2.1
  simpa [pre, intKeys, dictSet, natOfBits] using this

end Embedded

/-- a value serialiser for the examples: two copies of the bit -/
def exSerC10 (v : Bool) : Option Val := some ([v, v], [])

/-! ### the serialiser REGENERATED from utils.py (Generated/HashmapSrc.lean; proofs in Proofs/SrcHashmapSer.lean)

`Py.Bld` = (bits, references) stored so far; `none` = the Python code raises; a value serialiser callback is `serCb ser` (appends the
bits and references `ser v`; more than 1023 bits / 4 references raise); every statement holds for EVERY fuel ≥ 2·key_size + 2. -/
section SrcSerialiser
open TonVerif.Proofs.SrcHashmapSer

/-- LABEL WRITER FROM THE SOURCE.  `write_label(src, key_size, to)` as regenerated from utils.py (with `write_label_short / long /
same`) appends exactly the bits of the hand model's `labelBits` to ANY builder, for EVERY label and EVERY int `key_size`, and raises
exactly when the model has no label (`store_uint` refuses the length) or the builder would exceed 1023 bits. -/
theorem c10_src_label_writer (src : Bits) (key_size : Int) (to_ : Py.Bld) :
    write_label src key_size to_ = (labelBits src key_size.natAbs).bind to_.extend? :=
  write_label_eq src key_size to_

/-- LABEL KIND FROM THE SOURCE.  For every label that fits its bound (`|src| ≤ n`, as everywhere in a tree of n-bit keys) the regenerated
`write_label` appends a hashmap.tlb encoding `lb` of `src` in the constructor the REFERENCE serialiser chooses (`refLabelKind`: same iff
constant ∧ len > 1 ∧ k < 2·len − 1, else long iff k < len, else short; k = bit_length(n)) — nothing else, and it raises only on overflow. -/
theorem c10_src_label_kind (src : Bits) (n : Nat) (hl : src.length ≤ n) (to_ : Py.Bld) :
    ∃ lb, LabelEnc n src (refLabelKind src.length n (allSame src)) lb ∧ write_label src (n : Int) to_ = to_.extend? lb := by
  obtain ⟨lb, h⟩ := labelBits_some (s := src) (n := n) hl
  exact ⟨lb, labelBits_enc hl h, by rw [c10_src_label_writer]; simp [h]⟩

/-- LABEL MINIMAL FROM THE SOURCE.  The number of bits the regenerated `write_label` appends is the minimum over all admissible
constructors (2+2·len / 2+k+len / 3+k), and among constructors of that length it uses the earliest of short < long < same. -/
theorem c10_src_label_minimal (src : Bits) (n : Nat) (hl : src.length ≤ n) (to_ to' : Py.Bld)
    (h : write_label src (n : Int) to_ = some to') (k : LabelKind) (hk : kindAdmissible k (allSame src)) :
    to'.bits.length = to_.bits.length + encLen (detect_label_type src n) src.length n ∧
    encLen (detect_label_type src n) src.length n ≤ encLen k src.length n ∧
    (encLen (detect_label_type src n) src.length n = encLen k src.length n → rank (detect_label_type src n) ≤ rank k) := by
  obtain ⟨lb, henc, hw⟩ := c10_src_label_kind src n hl to_
  have hlen := LabelEnc_length henc
  rw [hw, extend_eq] at h
  split at h
  · simp at h
  · simp only [Option.some.injEq] at h
    subst h
    refine ⟨?_, c10_detect_minimal src n k hk⟩
    rw [c10_label_kind]; simp [hlen]

/-- `find_common_prefix(src)` from the source = the common prefix of the lexicographically least and greatest string, for EVERY list of
'0'/'1' strings (it never raises); `pad(bin(k)[2:], n)` = the model's key string. -/
theorem c10_src_common_prefix (src : List Bits) (k n : Nat) :
    find_common_prefix src = some (findCommonPrefix src) ∧ pad (Py.binDigits k) n = some (keyBits n k) :=
  ⟨find_common_prefix_eq src, pad_key k n⟩

/-- `build_tree(map, n)` from the source (`pad`, `find_common_prefix`, `remove_prefix_map`, `fork_map`, `build_node`, `build_edge`) builds
the hand model's tree for every map built by `set_int_key`: same labels (maximal common prefixes), same split at the next key bit
(0 left, 1 right), same leaves. -/
theorem c10_src_build_tree {V : Type} (n : Nat) (hn : 0 < n) (d : Dict V) (hd : DictOK n d) (fuel : Nat) (hf : 2 * n + 2 ≤ fuel) :
    build_tree fuel d n = (buildTree n d).map toTree :=
  build_tree_eq n hn d hd fuel hf

/-- SERIALISER FROM THE SOURCE.  `serialize_dict(map, n, serializer).end_cell()` as regenerated from utils.py is what the hand model's
`HashMap.serialize()` returns, for every non-empty map built by `set_int_key`, every value serialiser, every fuel ≥ 2n + 2 — same cell
or both raise. -/
theorem c10_src_serializer {V : Type} (n : Nat) (hn : 0 < n) (ser : V → Option Val) (d : Dict V) (hd : DictOK n d) (hne : d ≠ [])
    (fuel : Nat) (hf : 2 * n + 2 ≤ fuel) :
    (serialize_dict (serCb ser) fuel d n).map (fun b => some b.endCell) = serialize n ser d :=
  serialize_dict_eq n hn ser d hd hne fuel hf

/-- CANONICAL, FROM THE SOURCE.  `c10_canonical` holds of the regenerated serialiser: whenever `serialize_dict` returns a builder for a
map built by `set_int_key`, its cell is a spec-valid `Hashmap n X` in which every label uses the reference constructor, whose leaves are,
in strictly ascending key order, exactly the entries of the map — hence (`c10_unique`) THE canonical cell of that map. -/
theorem c10_src_canonical {V : Type} (n : Nat) (hn : 0 < n) (ser : V → Option Val) (d : Dict V) (b : Py.Bld)
    (hd : DictOK n d) (fuel : Nat) (hf : 2 * n + 2 ≤ fuel) (h : serialize_dict (serCb ser) fuel d n = some b) :
    ∃ kv : List (Bits × Val), Canonical n b.endCell kv ∧ ValidHashmap n b.endCell kv ∧
      kv.Pairwise (fun a b => natOfBits a.1 < natOfBits b.1) ∧ (∀ p ∈ kv, p.1.length = n) ∧
      ∀ kb val, (kb, val) ∈ kv ↔ ∃ k v, (k, v) ∈ d ∧ kb = keyBits n k ∧ ser v = some val := by
  have hne : d ≠ [] := by rintro rfl; rw [serialize_dict_nil] at h; simp at h
  have := c10_src_serializer n hn ser d hd hne fuel hf
  rw [h] at this
  exact c10_canonical n hn ser d b.endCell hd this.symm

/-! non-vacuity: the regenerated serialiser on the 2-bit map {2 ↦ 00, 1 ↦ 00} (insertion order 2, 1), and the three label kinds -/
set_option linter.unusedSimpArgs false in
example : write_label [true, false] 2 Py.Bld.empty = some ⟨[false, true, true, false, true, false], []⟩ := by
  rw [write_label_eq]
  simp [labelBits, detect_label_type, label_short_length, label_long_length, label_same_length, is_same, bitLength, Py.Bld.extend?, Py.Bld.empty]
set_option linter.unusedSimpArgs false in
example : write_label [true, false, true, false, true] 5 Py.Bld.empty = some ⟨[true, false, true, false, true, true, false, true, false, true], []⟩ := by
  rw [write_label_eq]
  simp [labelBits, detect_label_type, label_short_length, label_long_length, label_same_length, is_same, bitLength, Py.Bld.extend?, Py.Bld.empty, BOp.int2baU, natToBits]
set_option linter.unusedSimpArgs false in
example : write_label [true, true, true, true, true] 5 Py.Bld.empty = some ⟨[true, true, true, true, false, true], []⟩ := by
  rw [write_label_eq]
  simp [labelBits, detect_label_type, label_short_length, label_long_length, label_same_length, is_same, bitLength, Py.Bld.extend?, Py.Bld.empty, BOp.int2baU, natToBits]
set_option maxRecDepth 4000 in
example : (serialize_dict (serCb exSerC10) 6 [(2, false), (1, false)] 2).map (·.endCell) =
    some (.mk (-1) [false, false] [.mk (-1) [false, true, false, true, false, false] [], .mk (-1) [false, true, false, false, false, false] []]) := by
  have hd : DictOK 2 [(2, false), (1, false)] := ⟨by decide, by decide⟩
  have := serialize_dict_eq 2 (by decide) exSerC10 [(2, false), (1, false)] hd (by simp) 6 (by decide)
  have h2 : serialize 2 exSerC10 [(2, false), (1, false)] = some (some (.mk (-1) [false, false] [.mk (-1) [false, true, false, true, false, false] [], .mk (-1) [false, true, false, false, false, false] []])) := by
    simp [serialize, buildTree, buildEdge, keyBits, binDigits, bitLength, natToBits, findCommonPrefix, lexMin, lexMax, lexLe,
      commonPrefix, forkMap, writeEdge, labelBits, detect_label_type, label_short_length, label_long_length, label_same_length,
      is_same, exSerC10]
  rw [h2] at this
  cases h : serialize_dict (serCb exSerC10) 6 [(2, false), (1, false)] 2 with
  | none => rw [h] at this; simp at this
  | some b => rw [h] at this; simpa using this

end SrcSerialiser

/-! ### `parse_hashmap_aug`'s int-key conversion and `Slice.load_hashmap_aug`, from the source -/
section SrcAugApi
open TonVerif.Generated TonVerif.Proofs.SrcHashmapGlue

/-- `parse_hashmap_aug(cell.begin_parse(), n, x, y)` as regenerated from parse.py — recursion AND the final `{int(i, 2): j …}`
conversion (ValueError on the empty key of a 0-bit dictionary) — and `Slice.load_hashmap_aug` as regenerated from slice.py ARE the hand
model's `parseHashmapAug` (`outAug`: raise = none, None for a non-ordinary root = some none), for every decoder pair, every fuel ≥ 2n+2. -/
theorem c10_src_parse_hashmap_aug {X Y : Type} (D : AugDec X Y) (fuel : Nat) (c : Cell) (n : Nat) (hf : 2 * n + 2 ≤ fuel) :
    (parse_hashmap_aug (xdOf D) (ydOf D) fuel (Py.beginParse c) (n : Int)).map (·.1) = outAug (parseHashmapAug D c n) ∧
    (HashmapGlue.load_hashmap_aug (xdOf D) (ydOf D) fuel (Py.beginParse c) (n : Int)).map (·.1) = outAug (parseHashmapAug D c n) :=
  ⟨parse_hashmap_aug_eq D fuel c n hf, load_hashmap_aug_eq D fuel c n hf⟩

/-- hence `c10_parse_any_aug_api` (first part) holds of the regenerated entry point: every spec-valid `HashmapAug n X Y` with an
ordinary root is decoded to (int-keyed dict of the leaves, extras) -/
theorem c10_src_parse_any_aug_api {X Y : Type} {D : AugDec X Y} {p : Bool} {n : Nat} {bits refs} {kv : List (Bits × X)} {ex : List Y}
    (hn : 0 < n) (h : ValidAug D p n (.mk (-1) bits refs) kv ex) (fuel : Nat) (hf : 2 * n + 2 ≤ fuel) :
    (parse_hashmap_aug (xdOf D) (ydOf D) fuel (Py.beginParse (.mk (-1) bits refs)) (n : Int)).map (·.1) = some (some (intKeys kv, ex)) := by
  rw [(c10_src_parse_hashmap_aug D fuel _ n hf).1]
  have h1 := parseHashmapAug_valid hn h
  cases hq : parseHashmapAug D (.mk (-1) bits refs) n with
  | err => rw [hq] at h1; exact h1.elim
  | none => rw [hq] at h1; exact h1.elim
  | dict r => rw [hq] at h1; simp only at h1; subst h1; rfl

/-- `Slice.load_hashmap_aug_e(n, x, y)` as regenerated from slice.py, on an ordinary slice (for a special slice its first statement
returns the cell itself), IS the hand model's `loadHashmapAugE` — the function `c10_parse_any_aug_api` and `c10_aug_e_extra_required`
are about: `0 extra` gives `({}, [extra])`, `1 ^root extra` gives the parse of the root after the top-level extra was read. -/
theorem c10_src_load_hashmap_aug_e {X Y : Type} (D : AugDec X Y) (fuel : Nat) (bits : Bits) (refs : List Cell) (n : Nat)
    (hf : 2 * n + 2 ≤ fuel) :
    (HashmapGlue.load_hashmap_aug_e (xdOf D) (ydOf D) fuel ⟨-1, bits, refs⟩ (n : Int)).map (·.1) =
      outAugE (loadHashmapAugE D (-1) bits refs n) :=
  load_hashmap_aug_e_eq D fuel bits refs n hf

end SrcAugApi

end TonVerif.Properties.C10
