/-
C09 — dictionary (HashMap) serialise/parse round trip.

`Model.Hashmap` mirrors `HashMap.set_int_key/set/serialize/parse/from_cell`, `build_tree … serialize_dict`,
`parse_hashmap` and `store_dict/load_dict`; a value serialiser is a function `ser : V → Option (bits, refs)`
(what it appends to the leaf cell; `none` = it raises).  The label constructor is chosen by the function
translated from utils.py on every run.
-/
import TonVerif.Proofs.Hashmap
import TonVerif.Proofs.SrcArith2
import TonVerif.Generated.DictKey
import TonVerif.Proofs.SrcHashmap
import TonVerif.Proofs.SrcHashmapSer
import TonVerif.Proofs.SrcHashmapGlue

namespace TonVerif.Properties.C09
open TonVerif TonVerif.Model TonVerif.Model.Hashmap TonVerif.Spec.Hashmap TonVerif.Proofs.Hashmap
open TonVerif.Generated.LabelFns

/-- EMPTY MAP: `serialize()` of the empty map returns None (no cell); `store_dict(None)` writes the single bit 0;
`load_dict`/`preload_dict` on it return None. -/
theorem c09_empty {V : Type} (n : Nat) (ser : V → Option Val) :
    serialize n ser ([] : Dict V) = some none ∧
    storeDictCell none = .mk (-1) [false] [] ∧
    (∀ refs, (match loadDict [false] refs n with | .none => True | _ => False)) := by
  simp [serialize, storeDictCell, loadDict]

/-- BAD KEYS: `set_int_key(k, v)` with k < 0 or k ≥ 2^n raises (and the map is not touched: the model returns no new map),
    for every width n (also n = 0) -/
theorem c09_bad_keys {V : Type} (n : Nat) (k : Int) (v : V) (d : Dict V) (h : k < 0 ∨ k ≥ 2 ^ n) :
    setIntKey n k v d = none := setIntKey_none n k v d h

/-- … and every key 0 ≤ k < 2^n is accepted and stored under exactly k. -/
theorem c09_good_keys {V : Type} (n : Nat) (k : Int) (v : V) (d : Dict V) (h0 : 0 ≤ k) (h : k < 2 ^ n) :
    setIntKey n k v d = some (dictSet k.toNat v d) := setIntKey_some n k v d h0 h

/-- NO ALIASING: the padded bit string `build_tree` derives from an accepted key has exactly n bits and denotes the key,
so distinct accepted keys give distinct bit strings. -/
theorem c09_no_alias (n a b : Nat) (hn : 0 < n) (ha : a < 2 ^ n) (_hb : b < 2 ^ n) :
    (keyBits n a).length = n ∧ natOfBits (keyBits n a) = a ∧ (keyBits n a = keyBits n b → a = b) := by
  refine ⟨keyBits_length n a hn ha, natOfBits_keyBits n a, fun h => ?_⟩
  have := congrArg natOfBits h
  simpa [natOfBits_keyBits] using this


/-- ROUND TRIP.  For every key width n ≥ 1, every value serialiser and EVERY sequence `ins` of `set_int_key(k, v)` calls on a
fresh HashMap (any order, keys may repeat) all of which are accepted (`setAll … = some d`): if `serialize()` returns a cell `c`
(the only way it can fail is a cell over 1023 bits / 4 refs, see `c09_capacity_explicit`), then `HashMap.parse(c.begin_parse(), n)`,
`HashMap.from_cell(c, n).map` and `store_dict(c)` + `load_dict(n)`/`preload_dict(n)` all return the same dict `r` with
  * keys strictly ascending (in iteration order), and
  * (k ↦ val) ∈ r  iff  the LAST value v written for k in `ins` serialises to val  (`lastWrite` = last write wins);
so the result is exactly the set of pairs of the map, independent of the insertion order. -/
theorem c09_roundtrip {V : Type} (n : Nat) (hn : 0 < n) (ser : V → Option Val) (ins : List (Int × V)) (d : Dict V) (c : Cell)
    (hset : setAll n ins [] = some d) (hser : serialize n ser d = some (some c)) :
    ∃ r : Dict Val,
      hashMapParse c n = .dict r ∧ fromCell c n = some r ∧
      (match storeDictCell (some c) with | .mk _ bits refs => loadDict bits refs n) = .dict r ∧
      r.Pairwise (fun a b => a.1 < b.1) ∧
      ∀ k val, (k, val) ∈ r ↔ ∃ v, lastWrite ins k = some v ∧ ser v = some val := by
  have hd : DictOK n d := setAll_ok n ins [] d ⟨by simp, by simp⟩ hset
  obtain ⟨kv, hcan, hsorted, hlen, hmem⟩ := serialize_canonical n hn ser d c hd hser
  obtain ⟨b, rf, rfl⟩ := valid_ordinary hcan
  have hp : parseHashmap (.mk (-1) b rf) n = some kv := by
    have := parseEdge_valid hcan [] (Or.inr hn)
    simpa [parseHashmap, map_pre_nil] using this
  refine ⟨kv.map (fun p => (natOfBits p.1, p.2)), ?_, ?_, ?_, ?_, ?_⟩
  · simp [hashMapParse, hp, intKeys_sorted kv hsorted]
  · simp [fromCell, hp, intKeys_sorted kv hsorted]
  · simp [storeDictCell, loadDict, hashMapParse, hp, intKeys_sorted kv hsorted]
  · rw [List.pairwise_map]; exact hsorted
  · intro k val
    have hget : ∀ k, dictGet k d = lastWrite ins k := by
      intro k
      have := dictGet_setAll n ins [] d hset k
      simpa [dictGet] using this
    simp only [List.mem_map, Prod.mk.injEq]
    constructor
    · rintro ⟨⟨kb, val'⟩, hin, hk, rfl⟩
      obtain ⟨k', v, hd', hkb, hs⟩ := (hmem kb val').1 hin
      simp only at hk hkb
      rw [hkb, natOfBits_keyBits] at hk
      subst hk
      exact ⟨v, by rw [← hget]; exact (dictGet_mem d hd.1 k' v).1 hd', hs⟩
    · rintro ⟨v, hl, hs⟩
      rw [← hget] at hl
      have hd' := (dictGet_mem d hd.1 k v).2 hl
      exact ⟨(keyBits n k, val), (hmem _ _).2 ⟨k, v, hd', rfl, hs⟩, natOfBits_keyBits n k, rfl⟩

/-- the map after a sequence of accepted `set_int_key` calls holds, for each key, the last value written (and nothing else) -/
theorem c09_last_write_wins {V : Type} (n : Nat) (ins : List (Int × V)) (d : Dict V) (hset : setAll n ins [] = some d) (k : Nat) :
    dictGet k d = lastWrite ins k := by
  have := dictGet_setAll n ins [] d hset k
  simpa [dictGet] using this

def exSerH (v : Bool) : Option Val := some ([v, v], [])

/-- HISTORY INDEPENDENCE of `serialize()`.  On one `HashMap` object, after ANY history of `set_int_key` and `serialize()`
calls (interleaved in any way, rejected keys included), the object's map is the one the `set` calls alone produce, and a
`serialize()` made now returns `serialize` of THAT map: earlier `serialize()` calls leave no trace (nothing is memoised), so the
round-trip theorem applies to the cell returned at any point of an object's life, e.g. after a key was overwritten. -/
theorem c09_serialize_history_free {V : Type} (n : Nat) (ser : V → Option Val) (ops : List (HOp V)) (d : Dict V) :
    (runOps n ser ops d).1 = applySets n (setsOf ops) d ∧
    (runOps n ser (ops ++ [.serialize]) d).2.getLast? = some (serialize n ser (applySets n (setsOf ops) d)) := by
  induction ops generalizing d with
  | nil => simp [runOps, setsOf, applySets]
  | cons op rest ih =>
    cases op with
    | set k v => simpa [runOps, setsOf, applySets] using ih _
    | serialize =>
      obtain ⟨h1, h2⟩ := ih d
      refine ⟨by simpa [runOps, setsOf] using h1, ?_⟩
      simp only [List.cons_append, runOps, setsOf]
      rw [List.getLast?_cons]
      simp [h2]

/-- when every `set` of the history is accepted, the lenient application is `setAll` (so `c09_roundtrip` speaks about it) -/
theorem c09_applySets_eq_setAll {V : Type} (n : Nat) (ins : List (Int × V)) (d d' : Dict V) (h : setAll n ins d = some d') :
    applySets n ins d = d' := by
  induction ins generalizing d with
  | nil => simpa [setAll, applySets] using h
  | cons kv rest ih =>
    obtain ⟨k, v⟩ := kv
    simp only [setAll] at h
    cases hs : setIntKey n k v d with
    | none => simp [hs] at h
    | some d1 =>
      rw [hs] at h
      simpa [applySets, hs] using ih d1 h

/-- non-vacuity: set 2↦T, serialize, overwrite 2↦F (same entry count), serialize: the second result is the cell of {2↦F}, not the first one -/
example : (runOps 2 exSerH [.set 2 true, .serialize, .set 2 false, .serialize] []).2
    = [serialize 2 exSerH [(2, true)], serialize 2 exSerH [(2, false)]] := by
  simp [runOps, setIntKey, bitLength, dictSet]

/-! non-vacuity of the round trip: a 2-bit map written as 2 ↦ T, 1 ↦ F, 2 ↦ F is accepted and serialises -/
def exSer (v : Bool) : Option Val := some ([v, v], [])
def exIns : List (Int × Bool) := [(2, true), (1, false), (2, false)]
example : setAll 2 exIns [] = some [(2, false), (1, false)] := by
  simp [exIns, setAll, setIntKey, bitLength, dictSet]
set_option maxRecDepth 4000 in
example : ∃ c, serialize 2 exSer [(2, false), (1, false)] = some (some c) := by
  simp [serialize, buildTree, buildEdge, keyBits, binDigits, bitLength, natToBits, findCommonPrefix, lexMin, lexMax, lexLe,
    commonPrefix, forkMap, writeEdge, labelBits, detect_label_type, label_short_length, label_long_length, label_same_length,
    is_same, exSer]


/-- CAPACITY, EXPLICITLY.  For a non-empty map built by `set_int_key` (`DictOK`: distinct keys < 2^n) the Patricia tree `t` of
`build_tree` always exists (the assertions of `fork_map` never fire; recursion depth ≤ n+1) and spells n-bit keys, and
`serialize()` returns a cell  iff  every cell of the tree fits (`Edge.Fits`): for each edge, the encoded label in the reference
constructor — 2+2·len (short), 2+k+len (long) or 3+k (same) bits, k = bit_length(remaining key length) — plus, on a leaf, the
value's bits is ≤ 1023 and the value has ≤ 4 refs (and the value serialiser itself does not raise).  So cell capacity is the only
way serialisation fails, and the hypothesis of `c09_roundtrip` is not vacuous. -/
theorem c09_capacity_explicit {V : Type} (n : Nat) (hn : 0 < n) (ser : V → Option Val) (d : Dict V) (hd : DictOK n d) (hne : d ≠ []) :
    ∃ t, buildTree n d = some t ∧ Edge.Sized t n ∧ ((serialize n ser d).isSome ↔ Edge.Fits ser t n) :=
  serialize_iff_fits n hn ser d hd hne

/-- every map reached by accepted `set_int_key` calls satisfies `DictOK` -/
theorem c09_dict_ok {V : Type} (n : Nat) (ins : List (Int × V)) (d : Dict V) (h : setAll n ins [] = some d) : DictOK n d :=
  setAll_ok n ins [] d ⟨by simp, by simp⟩ h

/-- width 1023, the single all-zero key: the label is `hml_same` (13 bits); any value of ≤ 1010 bits and ≤ 4 refs fits. -/
theorem c09_capacity_zero_key_1023 {V : Type} (ser : V → Option Val) (v : V) (vb : Bits) (vr : List Cell) (hv : ser v = some (vb, vr))
    (hb : vb.length ≤ 1010) (hr : vr.length ≤ 4) : Edge.Fits ser (.leaf (List.replicate 1023 false) v) 1023 :=
  fits_zero_key ser v vb vr hv hb hr

/-- width 1023, a single key that is not all-0/all-1 can never be serialised: its shortest label needs 2+10+1023 bits. -/
theorem c09_capacity_wide_key_1023 {V : Type} (ser : V → Option Val) (v : V) (s : Bits) (hl : s.length = 1023) (hs : allSame s = false) :
    ¬ Edge.Fits ser (.leaf s v) 1023 := not_fits_wide_key ser v s hl hs

/-- width 1: both keys present — root fork (label short, 2 bits), two leaves with 2-bit labels: fits with 2-bit values. -/
example : Edge.Fits exSer (.fork [] (.leaf [] true) (.leaf [] false)) 1 := by
  simp [Edge.Fits, exSer, encLen, refLabelKind, lenBits, bitLength, allSame]

/-! non-vacuity of the key checks -/
example : setIntKey 8 (-1) 7 ([] : Dict Nat) = none := by decide
example : setIntKey 8 256 7 ([] : Dict Nat) = none := by simp [setIntKey, bitLength]
example : setIntKey 8 255 7 ([] : Dict Nat) = some [(255, 7)] := by simp [setIntKey, bitLength, dictSet]

/-! ## Source-regenerated key-range test (`Generated/DictKey.lean`: re-translated from boc/hashmap/hashmap.py on every run)

`Generated.keyRejected key size` is the test of the `if …: raise DictError('Key sizes must be the same.')` of
`HashMap.set_int_key` (after fix F11): `int_key < 0 or int_key.bit_length() > self.size`. -/
section Src
open TonVerif.Proofs.SrcArith TonVerif.Proofs.SrcArith2
set_option linter.unusedSimpArgs false

/-- for EVERY integer key and EVERY width: `set_int_key` raises exactly for the keys outside `0 ≤ k < 2^n` — the
hypothesis of `c09_good_keys` / the complement of `c09_bad_keys`; the test is the one of the hand model. -/
theorem c09_src_key_range (k : Int) (n : Nat) :
    Generated.keyRejected_sideOk k n ∧
    Generated.keyRejected k n = decide (k < 0 ∨ bitLength k.natAbs > n) ∧
    (Generated.keyRejected k n = false ↔ 0 ≤ k ∧ k < 2 ^ n) := by
  have hb : ∀ m : Nat, bitLength m ≤ n ↔ m < 2 ^ n := fun m => by rw [← py_bitLength_eq]; exact bitLength_le_iff m n
  have hp : (2 : Int) ^ n = ((2 ^ n : Nat) : Int) := by simp
  refine ⟨by simp only [Generated.keyRejected_sideOk] <;> src_prop, ?_, ?_⟩
  · simp only [Generated.keyRejected, py_bitLength_eq] <;> src_bool
  · simp only [Generated.keyRejected, py_bitLength_eq, decide_eq_false_iff_not, not_or, Nat.not_lt, Int.not_lt, gt_iff_lt, hb, hp]
    omega

/-- `set_int_key` of the hand model (what `c09_roundtrip`, `c09_serialize_history_free` … are proved about) accepts and
rejects by exactly the regenerated test. -/
theorem c09_src_model_set {V : Type} (n : Nat) (k : Int) (v : V) (d : Dict V) :
    setIntKey n k v d = (if Generated.keyRejected k n then none else some (dictSet k.toNat v d)) := by
  rw [(c09_src_key_range k n).2.1]
  unfold setIntKey
  by_cases h : k < 0 ∨ bitLength k.natAbs > n <;> simp [h]

/-- the regenerated test at the boundary of an 8-bit and of a 0-bit dictionary. -/
example : Generated.keyRejected 255 8 = false ∧ Generated.keyRejected 256 8 = true ∧ Generated.keyRejected (-1) 8 = true ∧
    Generated.keyRejected 0 0 = false ∧ Generated.keyRejected 1 0 = true := by decide

end Src

/-! ### the round trip through the parser REGENERATED from parse.py (Generated/HashmapSrc.lean) -/
section SrcParser
open TonVerif.Generated.HashmapSrc TonVerif.Proofs.SrcHashmap

/-- ROUND TRIP WITH THE PARSER FROM THE SOURCE.  Under the hypotheses of `c09_roundtrip` (accepted `set_int_key` calls, `serialize()`
returned `c`) the function `parse_hashmap` as regenerated from the current text of parse.py — `parse`, `deserialize_hashmap_node`,
`deserialize_hml`, `deserialize_unary`, for every fuel ≥ 2n + 2 — returns on `c.begin_parse()` a list `kv` of (key string, ordinary
slice behind the leaf label) whose int-keyed form `r` is the dict of `c09_roundtrip`: keys strictly ascending, and `(k ↦ val) ∈ r` iff
the LAST value written for `k` serialises to `val`. -/
theorem c09_src_roundtrip {V : Type} (n : Nat) (hn : 0 < n) (ser : V → Option Val) (ins : List (Int × V)) (d : Dict V) (c : Cell)
    (hset : setAll n ins [] = some d) (hser : serialize n ser d = some (some c)) (fuel : Nat) (hf : 2 * n + 2 ≤ fuel) :
    ∃ (kv : List (Bits × Val)) (r : Dict Val),
      (parse_hashmap fuel (Py.beginParse c) (n : Int)).map (·.1) = some (kv.map fun p => (p.1, valSlice p.2)) ∧
      intKeys kv = r ∧ hashMapParse c n = .dict r ∧
      r.Pairwise (fun a b => a.1 < b.1) ∧
      ∀ k val, (k, val) ∈ r ↔ ∃ v, lastWrite ins k = some v ∧ ser v = some val := by
  obtain ⟨r, h1, h2, _, h4, h5⟩ := c09_roundtrip n hn ser ins d c hset hser
  rcases hp : parseHashmap c n with _ | kv
  · simp [fromCell, hp] at h2
  · simp only [fromCell, hp, Option.map_some, Option.some.injEq] at h2
    refine ⟨kv, r, ?_, h2, h1, h4, h5⟩
    rw [src_parse_hashmap_eq fuel c n hf, hp]; rfl

/-- the key-range test, the label reader and the parse recursion the round trip rests on are the regenerated ones -/
theorem c09_src_parse_is_model (fuel : Nat) (c : Cell) (n : Nat) (hf : 2 * n + 2 ≤ fuel) :
    (parse_hashmap fuel (Py.beginParse c) (n : Int)).map (·.1) =
      (parseHashmap c n).map fun kv => kv.map fun p => (p.1, valSlice p.2) :=
  src_parse_hashmap_eq fuel c n hf

/-- non-vacuity (the hypotheses are those of `c09_roundtrip`, whose examples above show a map that is accepted and serialises): the
regenerated parser on the canonical cell of the 1-bit dictionary {0 ↦ 1, 1 ↦ 0} -/
example : (parse_hashmap 4 (Py.beginParse (.mk (-1) [false, false] [.mk (-1) [false, false, true] [], .mk (-1) [false, false, false] []])) 1).map (·.1)
    = some [([false], ⟨-1, [true], []⟩), ([true], ⟨-1, [false], []⟩)] := by rfl

end SrcParser

/-! ### the round trip through the serialiser AND the parser regenerated from utils.py / parse.py -/
section SrcFull
open TonVerif.Generated.HashmapSrc TonVerif.Proofs.SrcHashmap TonVerif.Proofs.SrcHashmapSer

/-- the serialiser the round trip rests on is the regenerated one: `serialize_dict(map, n, serializer).end_cell()` from utils.py is
what the hand model's `serialize()` returns for every non-empty map reached by accepted `set_int_key` calls -/
theorem c09_src_serialize_is_model {V : Type} (n : Nat) (hn : 0 < n) (ser : V → Option Val) (ins : List (Int × V)) (d : Dict V)
    (hset : setAll n ins [] = some d) (hne : d ≠ []) (fuel : Nat) (hf : 2 * n + 2 ≤ fuel) :
    (serialize_dict (serCb ser) fuel d n).map (fun b => some b.endCell) = serialize n ser d :=
  serialize_dict_eq n hn ser d (c09_dict_ok n ins d hset) hne fuel hf

/-- FULL ROUND TRIP FROM THE SOURCE.  For every key width n ≥ 1, every value serialiser and EVERY sequence `ins` of accepted
`set_int_key(k, v)` calls on a fresh HashMap (any order, keys may repeat): if `serialize_dict(map, n, serializer)` AS REGENERATED FROM
utils.py returns a builder `b`, then `parse_hashmap(b.end_cell().begin_parse(), n)` AS REGENERATED FROM parse.py returns a list `kv` of
(key string, ordinary slice behind the leaf label) whose int-keyed form `r` has strictly ascending keys and contains `(k ↦ val)` iff the
LAST value written for `k` serialises to `val` — the regenerated serialiser followed by the regenerated parser is the identity on
every finite map of every key width (fuels: any ≥ 2n + 2 on both sides; Python has none). -/
theorem c09_src_roundtrip_full {V : Type} (n : Nat) (hn : 0 < n) (ser : V → Option Val) (ins : List (Int × V)) (d : Dict V) (b : Py.Bld)
    (hset : setAll n ins [] = some d) (fuel : Nat) (hf : 2 * n + 2 ≤ fuel)
    (hser : serialize_dict (serCb ser) fuel d n = some b) (fuel' : Nat) (hf' : 2 * n + 2 ≤ fuel') :
    ∃ (kv : List (Bits × Val)) (r : Dict Val),
      (parse_hashmap fuel' (Py.beginParse b.endCell) (n : Int)).map (·.1) = some (kv.map fun p => (p.1, valSlice p.2)) ∧
      intKeys kv = r ∧
      r.Pairwise (fun a b => a.1 < b.1) ∧
      ∀ k val, (k, val) ∈ r ↔ ∃ v, lastWrite ins k = some v ∧ ser v = some val := by
  have hne : d ≠ [] := by rintro rfl; rw [serialize_dict_nil] at hser; simp at hser
  have hm := c09_src_serialize_is_model n hn ser ins d hset hne fuel hf
  rw [hser] at hm
  obtain ⟨kv, r, h1, h2, _, h4, h5⟩ := c09_src_roundtrip n hn ser ins d b.endCell hset hm.symm fuel' hf'
  exact ⟨kv, r, h1, h2, h4, h5⟩

/-- non-vacuity: the map written as 2 ↦ T, 1 ↦ F, 2 ↦ F (see `exIns` above) is accepted, and the regenerated serialiser returns a builder for it -/
example : ∃ b, serialize_dict (serCb exSer) 6 [(2, false), (1, false)] 2 = some b := by
  have hd : DictOK 2 [(2, false), (1, false)] := ⟨by decide, by decide⟩
  have := serialize_dict_eq 2 (by decide) exSer [(2, false), (1, false)] hd (by simp) 6 (by decide)
  cases h : serialize_dict (serCb exSer) 6 [(2, false), (1, false)] 2 with
  | some b => exact ⟨b, rfl⟩
  | none =>
    rw [h] at this
    have : serialize 2 exSer [(2, false), (1, false)] = none := this.symm
    have hex : ∃ c, serialize 2 exSer [(2, false), (1, false)] = some (some c) := by
      simp [serialize, buildTree, buildEdge, keyBits, binDigits, bitLength, natToBits, findCommonPrefix, lexMin, lexMax, lexLe,
        commonPrefix, forkMap, writeEdge, labelBits, detect_label_type, label_short_length, label_long_length, label_same_length,
        is_same, exSer]
    obtain ⟨c, hc⟩ := hex
    rw [hc] at this; simp at this

end SrcFull

/-! ### the HashMap / Slice methods around the serialiser and the parser, REGENERATED from hashmap.py and slice.py
(Generated/HashmapGlue.lean, translator hashmapglue.py = specialiser + pyrec.py; proofs in Proofs/SrcHashmapGlue.lean) -/
section SrcGlue
open TonVerif.Generated TonVerif.Generated.HashmapSrc TonVerif.Proofs.SrcHashmap TonVerif.Proofs.SrcHashmapSer TonVerif.Proofs.SrcHashmapGlue

/-- `HashMap.set_int_key(int_key, value)` as regenerated from hashmap.py IS the hand model's `setIntKey`, for every map, width, int key:
it raises exactly for `int_key < 0 or int_key.bit_length() > size` and otherwise performs `self.map[int_key] = value`. -/
theorem c09_src_set_int_key {V : Type} (d : Dict V) (size : Nat) (k : Int) (v : V) :
    HashmapGlue.set_int_key d size k v = setIntKey size k v d := set_int_key_eq d size k v

/-- KEY NORMALISATION FROM THE SOURCE.  `HashMap.set(key, value[, hash_key])` as regenerated from hashmap.py, specialised to each key
form the method dispatches on — int; bytes (`int.from_bytes(key, 'big', signed=False)`); '0'/'1' string (`int(key, 2)`, ValueError on
''); Address (`Builder().store_address(key).end_cell().begin_parse().load_uint(267)`); text with `hash_key=True` (sha256 of the text,
then as bytes) — equals the hand model's `set` = `normKey` followed by `setIntKey`, for every map, width and key. -/
theorem c09_src_set_forms {V : Type} (H : Bytes → Bytes) (d : Dict V) (size : Nat) (v : V) :
    (∀ k : Int, HashmapGlue.set_int d size k v = Hashmap.set H size (.int k) v d) ∧
    (∀ bs : Bytes, HashmapGlue.set_bytes d size bs v = Hashmap.set H size (.bytes bs) v d) ∧
    (∀ s : Bits, HashmapGlue.set_str d size s v = Hashmap.set H size (.bitstr s) v d) ∧
    (∀ a : Addr, HashmapGlue.set_addr d size a v = Hashmap.set H size (.addr a) v d) ∧
    (∀ u : Bytes, HashmapGlue.set_hashed H d size u v = Hashmap.set H size (.hashed u) v d) := set_forms_eq H d size v

/-- … and with a `key_serializer`: the int it returns goes through `set_int_key` (so it is range-checked like any int key) -/
theorem c09_src_set_key_serializer {V K : Type} (ks : K → Option Int) (d : Dict V) (size : Nat) (key : K) (v : V) :
    HashmapGlue.set_ks ks d size key v = (ks key).bind fun k => setIntKey size k v d := set_ks_eq ks d size key v

/-- `HashMap.serialize()` as regenerated from hashmap.py (None for the empty map, else `serialize_dict(...).end_cell()` with the
regenerated `serialize_dict`) IS the hand model's `serialize`, for every map built by `set_int_key` -/
theorem c09_src_serialize {V : Type} (n : Nat) (hn : 0 < n) (ser : V → Option Val) (d : Dict V) (hd : DictOK n d)
    (fuel : Nat) (hf : 2 * n + 2 ≤ fuel) :
    HashmapGlue.serialize (serCb ser) fuel d n = serialize n ser d := serialize_eq n hn ser d hd fuel hf

/-- `HashMap.parse` (default deserialisers), `HashMap.from_cell(...).map`, `Slice.load_dict / preload_dict / load_hashmap` as
regenerated from hashmap.py / slice.py ARE the hand model's `hashMapParse`, `fromCell`, `loadDict` (`outP` / `outDict` render the
model's result: raise = none, None = some none, each value the ordinary slice behind the leaf label); `load_dict` consumes the
presence bit and one reference, `preload_dict` nothing. -/
theorem c09_src_parse_api (fuel : Nat) (c : Cell) (n : Nat) (hf : 2 * n + 2 ≤ fuel) (sl : Py.Slice) :
    (HashmapGlue.hm_parse fuel (Py.beginParse c) (n : Int)).map (·.1) = outP (hashMapParse c n) ∧
    HashmapGlue.from_cell fuel c (n : Int) = (fromCell c n).map outDict ∧
    (HashmapGlue.load_hashmap fuel (Py.beginParse c) (n : Int)).map (·.1) = outP (hashMapParse c n) ∧
    (HashmapGlue.load_dict fuel sl (n : Int)).map (·.1) = outP (loadDict sl.bits sl.refs n) ∧
    (∀ r sl', HashmapGlue.load_dict fuel sl (n : Int) = some (r, sl') →
      sl'.kind = sl.kind ∧ sl'.bits = sl.bits.tail ∧ sl'.refs = (if sl.bits.head? = some true then sl.refs.tail else sl.refs)) ∧
    HashmapGlue.preload_dict fuel sl (n : Int) = outP (loadDict sl.bits sl.refs n) :=
  ⟨hm_parse_outP fuel c n hf, from_cell_eq fuel c n hf, load_hashmap_eq fuel c n hf, (load_dict_eq fuel sl n hf).1,
    (load_dict_eq fuel sl n hf).2, preload_dict_eq fuel sl n hf⟩

/-- a sequence of `set_int_key` calls through the regenerated method -/
def setAllSrc {V : Type} (size : Nat) : List (Int × V) → Dict V → Option (Dict V)
  | [], d => some d
  | (k, v) :: rest, d => (HashmapGlue.set_int_key d size k v).bind (setAllSrc size rest)

theorem setAllSrc_eq {V : Type} (size : Nat) (ins : List (Int × V)) (d : Dict V) : setAllSrc size ins d = setAll size ins d := by
  induction ins generalizing d with
  | nil => rfl
  | cons x rest ih =>
    obtain ⟨k, v⟩ := x
    simp only [setAllSrc, setAll, set_int_key_eq]
    cases setIntKey size k v d with
    | none => rfl
    | some d' => simp [ih]

/-- ROUND TRIP THROUGH THE API, EVERYTHING FROM THE SOURCE.  For every key width n ≥ 1, value serialiser and sequence `ins` of
`set_int_key` calls, all through the REGENERATED methods: if the calls are accepted and `HashMap.serialize()` returns a cell `c`, then
`HashMap.parse(c.begin_parse(), n)`, `HashMap.from_cell(c, n).map`, and `store_dict(c)` followed by `load_dict(n)` / `preload_dict(n)`
all return the dict `outDict r`, where `r` has strictly ascending keys and `(k ↦ val) ∈ r` iff the LAST value written for `k`
serialises to `val`. -/
theorem c09_src_roundtrip_api {V : Type} (n : Nat) (hn : 0 < n) (ser : V → Option Val) (ins : List (Int × V)) (d : Dict V) (c : Cell)
    (fuel : Nat) (hf : 2 * n + 2 ≤ fuel)
    (hset : setAllSrc n ins [] = some d) (hser : HashmapGlue.serialize (serCb ser) fuel d n = some (some c)) :
    ∃ r : Dict Val,
      (HashmapGlue.hm_parse fuel (Py.beginParse c) (n : Int)).map (·.1) = some (some (outDict r)) ∧
      HashmapGlue.from_cell fuel c (n : Int) = some (outDict r) ∧
      (HashmapGlue.load_dict fuel (Py.beginParse (storeDictCell (some c))) (n : Int)).map (·.1) = some (some (outDict r)) ∧
      HashmapGlue.preload_dict fuel (Py.beginParse (storeDictCell (some c))) (n : Int) = some (some (outDict r)) ∧
      r.Pairwise (fun a b => a.1 < b.1) ∧
      ∀ k val, (k, val) ∈ r ↔ ∃ v, lastWrite ins k = some v ∧ ser v = some val := by
  rw [setAllSrc_eq] at hset
  rw [serialize_eq n hn ser d (c09_dict_ok n ins d hset) fuel hf] at hser
  obtain ⟨r, h1, h2, h3, h4, h5⟩ := c09_roundtrip n hn ser ins d c hset hser
  refine ⟨r, ?_, ?_, ?_, ?_, h4, h5⟩
  · rw [hm_parse_outP fuel c n hf, h1]; rfl
  · rw [from_cell_eq fuel c n hf, h2]; rfl
  · have := (load_dict_eq fuel (Py.beginParse (storeDictCell (some c))) n hf).1
    rw [this]
    simp only [storeDictCell, Py.beginParse] at h3 ⊢
    rw [h3]; rfl
  · rw [preload_dict_eq fuel (Py.beginParse (storeDictCell (some c))) n hf]
    simp only [storeDictCell, Py.beginParse] at h3 ⊢
    rw [h3]; rfl

/-! non-vacuity of the key forms: the regenerated `set` on a 8-bit map -/
example : HashmapGlue.set_bytes ([] : Dict Nat) 8 [5] 7 = some [(5, 7)] ∧ HashmapGlue.set_bytes ([] : Dict Nat) 8 [1, 0] 7 = none ∧
    HashmapGlue.set_str ([] : Dict Nat) 8 [true, false, true] 7 = some [(5, 7)] ∧ HashmapGlue.set_str ([] : Dict Nat) 8 [] 7 = none ∧
    HashmapGlue.set_int ([] : Dict Nat) 8 (-1) 7 = none ∧ HashmapGlue.set_int ([(5, 1)] : Dict Nat) 8 5 7 = some [(5, 7)] := by
  simp [c09_src_set_forms (fun b => b), Hashmap.set, normKey, setIntKey, bitLength, dictSet, natOfBE, natOfBits]

end SrcGlue

end TonVerif.Properties.C09
