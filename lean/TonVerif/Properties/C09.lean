/-
C09 — dictionary (HashMap) serialise/parse round trip.

`Model.Hashmap` mirrors `HashMap.set_int_key/set/serialize/parse/from_cell`, `build_tree … serialize_dict`,
`parse_hashmap` and `store_dict/load_dict`; a value serialiser is a function `ser : V → Option (bits, refs)`
(what it appends to the leaf cell; `none` = it raises).  The label constructor is chosen by the function
translated from utils.py on every run.
-/
import TonVerif.Proofs.Hashmap

namespace TonVerif.Properties.C09
open TonVerif TonVerif.Model TonVerif.Model.Hashmap TonVerif.Spec.Hashmap TonVerif.Proofs.Hashmap

/-- EMPTY MAP: `serialize()` of the empty map returns None (no cell); `store_dict(None)` writes the single bit 0;
`load_dict`/`preload_dict` on it return None. -/
theorem c09_empty {V : Type} (n : Nat) (ser : V → Option Val) :
    serialize n ser ([] : Dict V) = some none ∧
    storeDictCell none = .mk (-1) [false] [] ∧
    (∀ refs, (match loadDict [false] refs n with | .none => True | _ => False)) := by
  simp [serialize, storeDictCell, loadDict]

/-- BAD KEYS: `set_int_key(k, v)` with k < 0 or k ≥ 2^n raises (and the map is not touched: the model returns no new map),
    for every width n (also n = 0) -/
theorem c09_bad_keys {V : Type} (n : Nat) (k : Int) (v : V) (d : Dict V) (h : k < 0 ∨ k ≥ 2 ^ n) :
    setIntKey n k v d = none := setIntKey_none n k v d h

/-- … and every key 0 ≤ k < 2^n is accepted and stored under exactly k. -/
theorem c09_good_keys {V : Type} (n : Nat) (k : Int) (v : V) (d : Dict V) (h0 : 0 ≤ k) (h : k < 2 ^ n) :
    setIntKey n k v d = some (dictSet k.toNat v d) := setIntKey_some n k v d h0 h

/-- NO ALIASING: the padded bit string `build_tree` derives from an accepted key has exactly n bits and denotes the key,
so distinct accepted keys give distinct bit strings. -/
theorem c09_no_alias (n a b : Nat) (hn : 0 < n) (ha : a < 2 ^ n) (hb : b < 2 ^ n) :
    (keyBits n a).length = n ∧ natOfBits (keyBits n a) = a ∧ (keyBits n a = keyBits n b → a = b) := by
  refine ⟨keyBits_length n a hn ha, natOfBits_keyBits n a, fun h => ?_⟩
  have := congrArg natOfBits h
  simpa [natOfBits_keyBits] using this

/-! non-vacuity -/
example : setIntKey 8 (-1) 7 ([] : Dict Nat) = none := by decide
example : setIntKey 8 256 7 ([] : Dict Nat) = none := by simp [setIntKey, bitLength]
example : setIntKey 8 255 7 ([] : Dict Nat) = some [(255, 7)] := by simp [setIntKey, bitLength, dictSet]

end TonVerif.Properties.C09
