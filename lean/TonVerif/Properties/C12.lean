/-
C12 — block signature sets are accepted only with a genuine validator supermajority.

`Model.Sig.checkBlockSignatures H verify nodes sigs blk` is the executable mirror of
`pytoniq_core.proof.check_proof.check_block_signatures(nodes, signatures, blk)` (`true` = returns,
`false` = raises ProofError / any exception).  `H` (SHA-256) and `verify` (Ed25519 `verify_sign`)
are ARBITRARY functions: the theorems are about the decision logic for every validator list, every
signature list (any length, order, multiset) and every block id.

Vocabulary (Proofs/Sig.lean):
  `nodeIdShort H key   = H (c6b41348 ++ key)`                     (calculate_node_id_short)
  `toSign blk          = 706e0bc5 ++ root_hash ++ file_hash`      (the signed payload)
  `validatorOf H nodes id`  = the LAST entry of `nodes` with `nodeIdShort H key = id`
  `weightOf H nodes id`     = that entry's weight (0 if none)
  `signedWeight H nodes sigs = Σ_{s∈sigs} weightOf s.nodeId`,  `totalWeight nodes = Σ_{v∈nodes} v.weight`
  `GoodSig … s`  = `validatorOf s.nodeId = some v ∧ verify v.key (toSign blk) s.signature`

Subtle points, visible in the statements:
  * two list entries with the same node id (same key twice, or an `H` collision): the map keeps the
    LAST one (its key verifies, its weight is credited) while BOTH weights count in the total — this
    can only lower the signed share.  With pairwise distinct node ids (`c12_accept_iff_distinct`)
    `validatorOf` is plain membership.
  * weights are naturals (`uint64` in the TL-B scheme); the comparison is `3·signed > 2·total` in ℕ,
    no division, no overflow.
-/
import TonVerif.Proofs.Sig
import TonVerif.Generated.SigCheck
import TonVerif.Proofs.SrcSig

namespace TonVerif.Properties.C12
open TonVerif TonVerif.Model.Sig TonVerif.Proofs.Sig

/-- MAIN: the check returns iff every signature entry names a validator of the set (by node id) whose
key verifies it over this block's payload, the signer ids are pairwise distinct, and three times the
signed weight strictly exceeds twice the total weight. -/
theorem c12_accept_iff (H : Bytes → Bytes) (verify : Bytes → Bytes → Bytes → Bool)
    (nodes : List Validator) (sigs : List SigEntry) (blk : Blk) :
    checkBlockSignatures H verify nodes sigs blk = true ↔
      (∀ s ∈ sigs, GoodSig H verify nodes blk s) ∧ (sigs.map (·.nodeId)).Nodup ∧
      3 * signedWeight H nodes sigs > 2 * totalWeight nodes := by
  unfold checkBlockSignatures runSigs
  rw [buildNodes_eq]
  simp only
  cases hr : sigs.foldl (sigStep verify (mapOf H nodes) (toSign blk)) (some ([], 0)) with
  | none =>
    simp only [Bool.false_eq_true, false_iff]
    rintro ⟨h1, h2, _⟩
    have := (fold_some verify (mapOf H nodes) (toSign blk) sigs [] 0 _).2
      ⟨by simpa only [GoodSig, lookup_mapOf] using h1, h2, by simp, rfl⟩
    rw [hr] at this; cases this
  | some r =>
    obtain ⟨h1, h2, _, h4⟩ := (fold_some verify (mapOf H nodes) (toSign blk) sigs [] 0 r).1 hr
    subst h4
    simp only [decide_eq_true_eq, Nat.zero_add, lookup_mapOf]
    constructor
    · intro h
      refine ⟨by simpa only [GoodSig, lookup_mapOf] using h1, h2, ?_⟩
      unfold signedWeight weightOf; omega
    · rintro ⟨_, _, h⟩
      unfold signedWeight weightOf at h; omega

/-- `validatorOf` finds nothing iff no entry of the list has this node id. -/
theorem validatorOf_eq_none (H : Bytes → Bytes) (nodes : List Validator) (id : Bytes) :
    validatorOf H nodes id = none ↔ ∀ v ∈ nodes, nodeIdShort H v.key ≠ id := by
  unfold validatorOf
  simp only [List.find?_eq_none, List.mem_reverse, beq_iff_eq, ne_eq]
  exact ⟨fun h v hv e => h v hv e.symm, fun h v hv e => h v hv e.symm⟩

/-- a validator found by id is an entry of the list with that id. -/
theorem validatorOf_some_mem (H : Bytes → Bytes) (nodes : List Validator) (id : Bytes) (v : Validator)
    (h : validatorOf H nodes id = some v) : v ∈ nodes ∧ nodeIdShort H v.key = id := by
  unfold validatorOf at h
  have h1 := List.find?_some h
  have h2 := List.mem_of_find?_eq_some h
  simp only [beq_iff_eq] at h1
  exact ⟨by simpa using h2, h1.symm⟩

/-- with pairwise distinct node ids in the validator list, `validatorOf` is membership. -/
theorem validatorOf_distinct (H : Bytes → Bytes) (nodes : List Validator) (id : Bytes) (v : Validator)
    (hd : (nodes.map (fun v => nodeIdShort H v.key)).Nodup) :
    validatorOf H nodes id = some v ↔ v ∈ nodes ∧ nodeIdShort H v.key = id := by
  refine ⟨validatorOf_some_mem H nodes id v, ?_⟩
  rintro ⟨hm, hid⟩
  cases hf : validatorOf H nodes id with
  | none => exact absurd hid ((validatorOf_eq_none H nodes id).1 hf v hm)
  | some w =>
    obtain ⟨hw, hwid⟩ := validatorOf_some_mem H nodes id w hf
    have : w = v := by
      exact inj_of_nodup_map _ nodes hd hw hm (by rw [hwid, hid])
    rw [this]

/-- the statement of DESIGN §6 verbatim, for validator lists with pairwise distinct node ids:
accepted iff every signature is by SOME member of the set with that id and verifies under the member's
key, signer ids are distinct, and `3·Σ signed > 2·Σ total`. -/
theorem c12_accept_iff_distinct (H : Bytes → Bytes) (verify : Bytes → Bytes → Bytes → Bool)
    (nodes : List Validator) (sigs : List SigEntry) (blk : Blk)
    (hd : (nodes.map (fun v => nodeIdShort H v.key)).Nodup) :
    checkBlockSignatures H verify nodes sigs blk = true ↔
      (∀ s ∈ sigs, ∃ v ∈ nodes, nodeIdShort H v.key = s.nodeId ∧
          verify v.key (toSign blk) s.signature = true) ∧
      (sigs.map (·.nodeId)).Nodup ∧
      3 * signedWeight H nodes sigs > 2 * totalWeight nodes := by
  rw [c12_accept_iff]
  have : ∀ s, GoodSig H verify nodes blk s ↔ ∃ v ∈ nodes, nodeIdShort H v.key = s.nodeId ∧
      verify v.key (toSign blk) s.signature = true := by
    intro s
    unfold GoodSig
    constructor
    · rintro ⟨v, hv, hver⟩
      obtain ⟨h1, h2⟩ := (validatorOf_distinct H nodes s.nodeId v hd).1 hv
      exact ⟨v, h1, h2, hver⟩
    · rintro ⟨v, h1, h2, hver⟩
      exact ⟨v, (validatorOf_distinct H nodes s.nodeId v hd).2 ⟨h1, h2⟩, hver⟩
  simp only [this]

/-- combined weight of the DISTINCT members of the validator list whose node id occurs among the signer ids
(a sum over the validator list, each member at most once — not a sum over signature entries). -/
def membersWeight (H : Bytes → Bytes) (nodes : List Validator) (sigs : List SigEntry) : Nat :=
  sumWhere (fun v => nodeIdShort H v.key) (·.weight) (sigs.map (·.nodeId)) nodes

/-- with distinct node ids in the set, distinct signer ids and known signers, the weight the loop adds up
entry by entry IS the combined weight of the distinct members who signed. -/
theorem c12_signed_weight_members (H : Bytes → Bytes) (nodes : List Validator) (sigs : List SigEntry)
    (hd : (nodes.map (fun v => nodeIdShort H v.key)).Nodup) (hs : (sigs.map (·.nodeId)).Nodup)
    (hk : ∀ s ∈ sigs, ∃ v ∈ nodes, nodeIdShort H v.key = s.nodeId) :
    signedWeight H nodes sigs = membersWeight H nodes sigs := by
  induction sigs with
  | nil =>
    have : nodes.filter (fun _ => false) = [] := List.filter_eq_nil_iff.2 (by simp)
    simp [signedWeight, membersWeight, sumWhere, this]
  | cons s ss ih =>
    simp only [List.map_cons, List.nodup_cons] at hs
    obtain ⟨v, hv, hid⟩ := hk s (List.mem_cons_self ..)
    have ih' := ih hs.2 (fun x hx => hk x (List.mem_cons_of_mem _ hx))
    have hw : weightOf H nodes s.nodeId = v.weight := by
      unfold weightOf
      rw [(validatorOf_distinct H nodes s.nodeId v hd).2 ⟨hv, hid⟩]; rfl
    unfold signedWeight membersWeight at ih' ⊢
    simp only [List.map_cons, List.sum_cons, hw, ih']
    rw [← hid]
    exact (sumWhere_cons (fun v => nodeIdShort H v.key) (·.weight) (ss.map (·.nodeId)) nodes hd v hv
      (by rw [hid]; exact hs.1)).symm

/-- the property in its own words, for validator sets with pairwise distinct node ids: accepted iff every entry
is a valid signature over the block's payload by a member of the set, no signer id occurs twice, and the
COMBINED WEIGHT OF THE DISTINCT MEMBERS WHO SIGNED exceeds two thirds of the total (`3·signed > 2·total`). -/
theorem c12_accept_iff_members (H : Bytes → Bytes) (verify : Bytes → Bytes → Bytes → Bool)
    (nodes : List Validator) (sigs : List SigEntry) (blk : Blk)
    (hd : (nodes.map (fun v => nodeIdShort H v.key)).Nodup) :
    checkBlockSignatures H verify nodes sigs blk = true ↔
      (∀ s ∈ sigs, ∃ v ∈ nodes, nodeIdShort H v.key = s.nodeId ∧
          verify v.key (toSign blk) s.signature = true) ∧
      (sigs.map (·.nodeId)).Nodup ∧
      3 * membersWeight H nodes sigs > 2 * totalWeight nodes := by
  rw [c12_accept_iff_distinct H verify nodes sigs blk hd]
  constructor
  · rintro ⟨h1, h2, h3⟩
    rw [c12_signed_weight_members H nodes sigs hd h2
      (fun s hs => let ⟨v, hv, hid, _⟩ := h1 s hs; ⟨v, hv, hid⟩)] at h3
    exact ⟨h1, h2, h3⟩
  · rintro ⟨h1, h2, h3⟩
    rw [← c12_signed_weight_members H nodes sigs hd h2
      (fun s hs => let ⟨v, hv, hid, _⟩ := h1 s hs; ⟨v, hv, hid⟩)] at h3
    exact ⟨h1, h2, h3⟩

/-- the signed payload determines the block's hashes: for 32-byte root/file hashes, equal payloads mean equal
(root_hash, file_hash) — a signature checked here was checked against THIS block's identifier hashes.
(workchain/shard/seqno are not part of the payload, as in the reference node.) -/
theorem c12_payload_injective (b b' : Blk) (hr : b.rootHash.length = 32) (hr' : b'.rootHash.length = 32)
    (h : toSign b = toSign b') : b = b' := by
  cases b with | mk r f => cases b' with | mk r' f' =>
  simp only [toSign, List.append_assoc, List.append_cancel_left_eq] at h
  have := List.append_inj h (by simpa using hr.trans hr'.symm)
  simp [this.1, this.2]

/-- rejected if any entry fails verification under the key its node id denotes. -/
theorem c12_reject_invalid (H : Bytes → Bytes) (verify : Bytes → Bytes → Bytes → Bool)
    (nodes : List Validator) (sigs : List SigEntry) (blk : Blk) (s : SigEntry) (v : Validator)
    (hs : s ∈ sigs) (hv : validatorOf H nodes s.nodeId = some v)
    (hbad : verify v.key (toSign blk) s.signature = false) :
    checkBlockSignatures H verify nodes sigs blk = false := by
  rw [← Bool.not_eq_true, c12_accept_iff]
  rintro ⟨h, _⟩
  obtain ⟨w, hw, hver⟩ := h s hs
  rw [hv] at hw; cases hw
  rw [hbad] at hver; cases hver

/-- rejected if any entry's node id belongs to no validator of the set (unknown / foreign signer),
whatever its signature. -/
theorem c12_reject_unknown (H : Bytes → Bytes) (verify : Bytes → Bytes → Bytes → Bool)
    (nodes : List Validator) (sigs : List SigEntry) (blk : Blk) (s : SigEntry)
    (hs : s ∈ sigs) (hu : ∀ v ∈ nodes, nodeIdShort H v.key ≠ s.nodeId) :
    checkBlockSignatures H verify nodes sigs blk = false := by
  rw [← Bool.not_eq_true, c12_accept_iff]
  rintro ⟨h, _⟩
  obtain ⟨w, hw, _⟩ := h s hs
  rw [(validatorOf_eq_none H nodes s.nodeId).2 hu] at hw; cases hw

/-- rejected if two entries (at different positions) carry the same node id — a validator is never
counted twice, whether the repeated entry is a copy or a different byte string. -/
theorem c12_reject_duplicate (H : Bytes → Bytes) (verify : Bytes → Bytes → Bytes → Bool)
    (nodes : List Validator) (sigs : List SigEntry) (blk : Blk) (i j : Nat) (hij : i < j)
    (hj : j < sigs.length) (hsame : (sigs[i]'(by omega)).nodeId = (sigs[j]'hj).nodeId) :
    checkBlockSignatures H verify nodes sigs blk = false := by
  rw [← Bool.not_eq_true, c12_accept_iff]
  rintro ⟨_, hn, _⟩
  rw [List.Nodup, List.pairwise_iff_getElem] at hn
  have := hn i j (by simp; omega) (by simpa using hj) hij
  simp only [List.getElem_map] at this
  exact this hsame

/-- an empty validator set accepts nothing, not even the empty signature list. -/
theorem c12_reject_empty_set (H : Bytes → Bytes) (verify : Bytes → Bytes → Bytes → Bool)
    (sigs : List SigEntry) (blk : Blk) :
    checkBlockSignatures H verify [] sigs blk = false := by
  rw [← Bool.not_eq_true, c12_accept_iff]
  rintro ⟨h, _, hw⟩
  cases sigs with
  | nil => simp [signedWeight, totalWeight] at hw
  | cons s ss =>
    obtain ⟨v, hv, _⟩ := h s (List.mem_cons_self ..)
    simp [validatorOf] at hv

/-- rejected when the signed weight is exactly two thirds of the total (or anything not strictly above). -/
theorem c12_reject_two_thirds_exact (H : Bytes → Bytes) (verify : Bytes → Bytes → Bytes → Bool)
    (nodes : List Validator) (sigs : List SigEntry) (blk : Blk)
    (hw : 3 * signedWeight H nodes sigs ≤ 2 * totalWeight nodes) :
    checkBlockSignatures H verify nodes sigs blk = false := by
  rw [← Bool.not_eq_true, c12_accept_iff]
  rintro ⟨_, _, h⟩
  omega

/-- completeness: every signature list that meets the condition is accepted. -/
theorem c12_accept_all_valid (H : Bytes → Bytes) (verify : Bytes → Bytes → Bytes → Bool)
    (nodes : List Validator) (sigs : List SigEntry) (blk : Blk)
    (hgood : ∀ s ∈ sigs, GoodSig H verify nodes blk s) (hnd : (sigs.map (·.nodeId)).Nodup)
    (hw : 3 * signedWeight H nodes sigs > 2 * totalWeight nodes) :
    checkBlockSignatures H verify nodes sigs blk = true :=
  (c12_accept_iff H verify nodes sigs blk).2 ⟨hgood, hnd, hw⟩

/-- the verdict does not depend on the order of the signature entries. -/
theorem c12_order_irrelevant (H : Bytes → Bytes) (verify : Bytes → Bytes → Bytes → Bool)
    (nodes : List Validator) (sigs sigs' : List SigEntry) (blk : Blk) (hp : sigs.Perm sigs') :
    checkBlockSignatures H verify nodes sigs blk = checkBlockSignatures H verify nodes sigs' blk := by
  rw [Bool.eq_iff_iff, c12_accept_iff, c12_accept_iff]
  have h1 : (∀ s ∈ sigs, GoodSig H verify nodes blk s) ↔ (∀ s ∈ sigs', GoodSig H verify nodes blk s) :=
    ⟨fun h s hs => h s (hp.mem_iff.2 hs), fun h s hs => h s (hp.mem_iff.1 hs)⟩
  have h2 : (sigs.map (·.nodeId)).Nodup ↔ (sigs'.map (·.nodeId)).Nodup := (hp.map _).nodup_iff
  have h3 : signedWeight H nodes sigs = signedWeight H nodes sigs' := by
    unfold signedWeight
    exact (hp.map _).sum_nat
  rw [h1, h2, h3]

/-! ## Non-vacuity and the examples of DESIGN §6

Toy primitives: `H` = identity (node id = magic ++ key), a signature verifies iff it equals
`key ++ msg`.  Validators `0..n-1` with key `[i]`, all weights 1. -/

def toyH : Bytes → Bytes := id
def toyVerify (key msg sig : Bytes) : Bool := sig == key ++ msg
def toyBlk : Blk := ⟨[1, 2, 3], [4, 5]⟩
def toyNodes (n : Nat) : List Validator := (List.range n).map (fun i => ⟨[i], 1⟩)
def toySig (i : Nat) : SigEntry := ⟨nodeIdMagic ++ [i], [i] ++ toSign toyBlk⟩
def toySigs (k : Nat) : List SigEntry := (List.range k).map toySig

/-- 7 of 10 equal weights: accepted (21 > 20). -/
example : checkBlockSignatures toyH toyVerify (toyNodes 10) (toySigs 7) toyBlk = true := by decide
/-- 6 of 9 equal weights — exactly two thirds: rejected (18 > 18 fails). -/
example : checkBlockSignatures toyH toyVerify (toyNodes 9) (toySigs 6) toyBlk = false := by decide
/-- 7 of 9: accepted; the same 7 with one entry repeated: rejected; one validator seven times: rejected. -/
example : checkBlockSignatures toyH toyVerify (toyNodes 9) (toySigs 7) toyBlk = true := by decide
example : checkBlockSignatures toyH toyVerify (toyNodes 9) (toySigs 7 ++ [toySig 3]) toyBlk = false := by decide
example : checkBlockSignatures toyH toyVerify (toyNodes 10) (List.replicate 7 (toySig 0)) toyBlk = false := by decide
/-- a foreign signer (id 11 not in the set) or an altered signature spoils an otherwise sufficient list. -/
example : checkBlockSignatures toyH toyVerify (toyNodes 10) (toySigs 8 ++ [toySig 11]) toyBlk = false := by decide
example : checkBlockSignatures toyH toyVerify (toyNodes 10)
    (toySigs 8 ++ [⟨nodeIdMagic ++ [9], [9] ++ toSign ⟨[1, 2, 3], [4, 6]⟩⟩]) toyBlk = false := by decide
/-- empty set, empty list: rejected. -/
example : checkBlockSignatures toyH toyVerify [] [] toyBlk = false := by decide
/-- same key twice in the validator list (weights 5 then 1): the map keeps the last (weight 1) but the
total is 6+…; one signature of that key is credited 1, not 5 and not 6. -/
example : signedWeight toyH [⟨[0], 5⟩, ⟨[0], 1⟩, ⟨[1], 1⟩] [toySig 0] = 1 ∧
    totalWeight [⟨[0], 5⟩, ⟨[0], 1⟩, ⟨[1], 1⟩] = 7 := by decide
/-- the hypotheses of `c12_accept_all_valid` / `c12_accept_iff_distinct` are met by the 7-of-10 instance. -/
example : (∀ s ∈ toySigs 7, GoodSig toyH toyVerify (toyNodes 10) toyBlk s) ∧
    ((toySigs 7).map (·.nodeId)).Nodup ∧
    3 * signedWeight toyH (toyNodes 10) (toySigs 7) > 2 * totalWeight (toyNodes 10) ∧
    ((toyNodes 10).map (fun v => nodeIdShort toyH v.key)).Nodup :=
  ⟨((c12_accept_iff toyH toyVerify (toyNodes 10) (toySigs 7) toyBlk).1 (by decide)).1,
   by decide, by decide, by decide⟩
example : membersWeight toyH (toyNodes 10) (toySigs 7) = 7 ∧ signedWeight toyH (toyNodes 10) (toySigs 7) = 7 := by decide
example : toyBlk.rootHash.length = 3 ∧ toSign toyBlk = [0x70, 0x6e, 0x0b, 0xc5, 1, 2, 3, 4, 5] := by decide
/-- the hypotheses of the rejection corollaries are met by concrete instances. -/
example : validatorOf toyH (toyNodes 10) (nodeIdMagic ++ [9]) = some ⟨[9], 1⟩ ∧
    toyVerify [9] (toSign toyBlk) ([9] ++ toSign ⟨[1, 2, 3], [4, 6]⟩) = false := by decide
example : ∀ v ∈ toyNodes 10, nodeIdShort toyH v.key ≠ (toySig 11).nodeId := by decide
example : 3 * signedWeight toyH (toyNodes 9) (toySigs 6) ≤ 2 * totalWeight (toyNodes 9) := by decide

/-! ## Source-regenerated decision lines (`Generated/SigCheck.lean`: re-translated from proof/check_proof.py on every run)

`Generated.sigAccept signed total` is the test of the only `if …: return` of `check_block_signatures` (the acceptance test
after both loops), `sigUnknown` / `sigDuplicate` / `sigInvalid` are the tests of the three `if …: raise ProofError` of the
signature loop, read over the truth values of `node is None`, `node_id in seen`, `result`. -/
section Src
set_option linter.unusedSimpArgs false

/-- the acceptance line of the source is the strict two-thirds test, for ALL weights (unbounded naturals, no division):
`check_block_signatures` returns after the loops iff `3·signed > 2·total`; at exactly two thirds it does not. -/
theorem c12_src_threshold (signed total : Nat) :
    Generated.sigAccept_sideOk signed total ∧
    Generated.sigAccept signed total = decide (signed * 3 > total * 2) ∧
    (Generated.sigAccept signed total = true ↔ 3 * signed > 2 * total) := by
  refine ⟨by simp only [Generated.sigAccept_sideOk], ?_, ?_⟩
  · simp only [Generated.sigAccept, decide_eq_decide] <;> omega
  · simp only [Generated.sigAccept, decide_eq_true_eq] <;> omega

/-- the three rejection lines of the signature loop raise exactly on an unknown id, on an id seen before, on a failed
verification (polarity of each test, for both truth values). -/
theorem c12_src_loop_tests (missing seen ok : Bool) :
    (Generated.sigUnknown_sideOk missing ∧ Generated.sigDuplicate_sideOk seen ∧ Generated.sigInvalid_sideOk ok) ∧
    Generated.sigUnknown missing = missing ∧ Generated.sigDuplicate seen = seen ∧ Generated.sigInvalid ok = !ok := by
  refine ⟨⟨by simp only [Generated.sigUnknown_sideOk], by simp only [Generated.sigDuplicate_sideOk],
    by simp only [Generated.sigInvalid_sideOk]⟩, ?_, ?_, ?_⟩
  · cases missing <;> simp [Generated.sigUnknown]
  · cases seen <;> simp [Generated.sigDuplicate]
  · cases ok <;> simp [Generated.sigInvalid]

/-- the hand model (what `c12_accept_iff` and its corollaries are proved about) decides with exactly these source lines:
the loop body raises by the three regenerated tests in the order of the code, and the final verdict is the regenerated
acceptance test applied to the two accumulated weights. -/
theorem c12_src_model (H : Bytes → Bytes) (verify : Bytes → Bytes → Bytes → Bool)
    (nodes : List Validator) (sigs : List SigEntry) (blk : Blk) (map : NodeMap) (msg : Bytes)
    (seen : List Bytes) (signed : Nat) (sig : SigEntry) :
    checkBlockSignatures H verify nodes sigs blk =
      (match runSigs verify (buildNodes H nodes).2 (toSign blk) sigs with
       | none => false
       | some (_, sw) => Generated.sigAccept sw (buildNodes H nodes).1) ∧
    sigStep verify map msg (some (seen, signed)) sig =
      (if Generated.sigUnknown (map.lookup sig.nodeId).isNone then none
       else if Generated.sigDuplicate (decide (sig.nodeId ∈ seen)) then none
       else match map.lookup sig.nodeId with
         | none => none
         | some node =>
           if Generated.sigInvalid (verify node.key msg sig.signature) then none
           else some (sig.nodeId :: seen, signed + node.weight)) := by
  constructor
  · have hA : ∀ s t, Generated.sigAccept s t = decide (s * 3 > t * 2) := fun s t => (c12_src_threshold s t).2.1
    simp only [checkBlockSignatures, hA]
    cases runSigs verify (buildNodes H nodes).2 (toSign blk) sigs with
    | none => rfl
    | some r => rfl
  · have hU : ∀ b, Generated.sigUnknown b = b := fun b => (c12_src_loop_tests b false false).2.1
    have hD : ∀ b, Generated.sigDuplicate b = b := fun b => (c12_src_loop_tests false b false).2.2.1
    have hI : ∀ b, Generated.sigInvalid b = !b := fun b => (c12_src_loop_tests false false b).2.2.2
    simp only [hU, hD, hI, sigStep]
    cases hl : map.lookup sig.nodeId with
    | none => simp
    | some node =>
      by_cases hs : sig.nodeId ∈ seen <;> cases hv : verify node.key msg sig.signature <;> simp [hs, hv]

/-- concrete values of the regenerated tests on both sides of the threshold (6 of 9 is exactly two thirds; 2^63-weights). -/
example : Generated.sigAccept 7 10 = true ∧ Generated.sigAccept 6 9 = false ∧ Generated.sigAccept 7 9 = true ∧
    Generated.sigAccept (2 * 2^63) (3 * 2^63) = false ∧ Generated.sigAccept (2 * 2^63 + 1) (3 * 2^63) = true ∧
    Generated.sigAccept 0 0 = false ∧ Generated.sigDuplicate true = true ∧ Generated.sigInvalid false = true := by decide

end Src

/-! ## The WHOLE function regenerated from the source (`Generated/SigFull.lean`: `check_block_signatures` and
`calculate_node_id_short` re-translated from proof/check_proof.py on every run by harness/translate/pyfunc.py)

`Generated.SigFull.check_block_signatures H verify nodes signatures blk : Option Unit` is the function body statement by
statement: the loop over `nodes` (weight total, `node_map[calculate_node_id_short(key)] = node`), the payload, the loop over
`signatures` (`node_map.get`, the three `raise`, `seen.add`, `verify_sign`, weight accumulation) and the threshold; `some ()` =
returns, `none` = raises.  `H` (SHA-256) and `verify` (`verify_sign`) are parameters.  Declared reading of the arguments
(harness/translate/sigfull.py): a `ValidatorDescr` is read through `.weight` (a natural) and `.public_key.pubkey`, a signature
entry through `bytes.fromhex(sig['node_id_short'])` and `sig['signature']`, the block id through `.root_hash` / `.file_hash`. -/
section SrcFull
open TonVerif.Generated.SigFull

/-- the regenerated function IS the hand model: for every validator list, signature list, block id, hash function and
verification function it returns exactly when `Model.Sig.checkBlockSignatures` is `true` and raises otherwise; the regenerated
`calculate_node_id_short` is `sha256(c6b41348 ++ key)` and never raises. -/
theorem c12_src_function (H : Bytes → Bytes) (verify : Bytes → Bytes → Bytes → Bool)
    (nodes : List Validator) (sigs : List SigEntry) (blk : Blk) (key : Bytes) :
    check_block_signatures H verify nodes sigs blk =
      (if checkBlockSignatures H verify nodes sigs blk then some () else none) ∧
    calculate_node_id_short H key = some (nodeIdShort H key) :=
  ⟨Proofs.SrcSig.src_check_block_signatures_eq H verify nodes sigs blk, Proofs.SrcSig.src_node_id_eq H key⟩

/-- `c12_accept_iff` for the regenerated function: `check_block_signatures` (as re-translated from the current source)
returns iff every signature entry names a validator of the set whose key verifies it over this block's payload, the signer ids
are pairwise distinct, and three times the signed weight strictly exceeds twice the total weight. -/
theorem c12_src_accept_iff (H : Bytes → Bytes) (verify : Bytes → Bytes → Bytes → Bool)
    (nodes : List Validator) (sigs : List SigEntry) (blk : Blk) :
    check_block_signatures H verify nodes sigs blk = some () ↔
      (∀ s ∈ sigs, GoodSig H verify nodes blk s) ∧ (sigs.map (·.nodeId)).Nodup ∧
      3 * signedWeight H nodes sigs > 2 * totalWeight nodes := by
  rw [Proofs.SrcSig.src_check_block_signatures_eq, ← c12_accept_iff]
  cases checkBlockSignatures H verify nodes sigs blk <;> simp

/-- the property in its own words for the regenerated function (validator sets with pairwise distinct node ids): it returns
iff every entry is a valid signature by a member, no signer id occurs twice and the combined weight of the DISTINCT members who
signed exceeds two thirds of the total. -/
theorem c12_src_accept_iff_members (H : Bytes → Bytes) (verify : Bytes → Bytes → Bytes → Bool)
    (nodes : List Validator) (sigs : List SigEntry) (blk : Blk)
    (hd : (nodes.map (fun v => nodeIdShort H v.key)).Nodup) :
    check_block_signatures H verify nodes sigs blk = some () ↔
      (∀ s ∈ sigs, ∃ v ∈ nodes, nodeIdShort H v.key = s.nodeId ∧
          verify v.key (toSign blk) s.signature = true) ∧
      (sigs.map (·.nodeId)).Nodup ∧
      3 * membersWeight H nodes sigs > 2 * totalWeight nodes := by
  rw [Proofs.SrcSig.src_check_block_signatures_eq, ← c12_accept_iff_members H verify nodes sigs blk hd]
  cases checkBlockSignatures H verify nodes sigs blk <;> simp

/-- the regenerated function raises (`none`) on: a signed weight of at most two thirds (in particular exactly two thirds), two
entries with the same node id, an entry of an unknown signer, an entry whose signature does not verify, an empty validator set. -/
theorem c12_src_rejects (H : Bytes → Bytes) (verify : Bytes → Bytes → Bytes → Bool)
    (nodes : List Validator) (sigs : List SigEntry) (blk : Blk) :
    (3 * signedWeight H nodes sigs ≤ 2 * totalWeight nodes → check_block_signatures H verify nodes sigs blk = none) ∧
    (¬ (sigs.map (·.nodeId)).Nodup → check_block_signatures H verify nodes sigs blk = none) ∧
    ((∃ s ∈ sigs, ∀ v ∈ nodes, nodeIdShort H v.key ≠ s.nodeId) → check_block_signatures H verify nodes sigs blk = none) ∧
    ((∃ s ∈ sigs, ∃ v, validatorOf H nodes s.nodeId = some v ∧ verify v.key (toSign blk) s.signature = false) →
      check_block_signatures H verify nodes sigs blk = none) ∧
    check_block_signatures H verify [] sigs blk = none := by
  have hn : ∀ ns, checkBlockSignatures H verify ns sigs blk = false → check_block_signatures H verify ns sigs blk = none := by
    intro ns h; rw [Proofs.SrcSig.src_check_block_signatures_eq, h]; rfl
  refine ⟨fun h => hn _ (c12_reject_two_thirds_exact H verify nodes sigs blk h), fun h => hn _ ?_, ?_, ?_,
    hn _ (c12_reject_empty_set H verify sigs blk)⟩
  · rw [← Bool.not_eq_true, c12_accept_iff]; exact fun ⟨_, h2, _⟩ => h h2
  · rintro ⟨s, hs, hu⟩; exact hn _ (c12_reject_unknown H verify nodes sigs blk s hs hu)
  · rintro ⟨s, hs, v, hv, hbad⟩; exact hn _ (c12_reject_invalid H verify nodes sigs blk s v hs hv hbad)

/-- the regenerated function accepts every list meeting the condition, in any order. -/
theorem c12_src_accept_all_valid (H : Bytes → Bytes) (verify : Bytes → Bytes → Bytes → Bool)
    (nodes : List Validator) (sigs sigs' : List SigEntry) (blk : Blk) (hp : sigs.Perm sigs')
    (hgood : ∀ s ∈ sigs, GoodSig H verify nodes blk s) (hnd : (sigs.map (·.nodeId)).Nodup)
    (hw : 3 * signedWeight H nodes sigs > 2 * totalWeight nodes) :
    check_block_signatures H verify nodes sigs' blk = some () := by
  rw [Proofs.SrcSig.src_check_block_signatures_eq, ← c12_order_irrelevant H verify nodes sigs sigs' blk hp,
    c12_accept_all_valid H verify nodes sigs blk hgood hnd hw]
  rfl

/-- non-vacuity: the regenerated function itself, evaluated on the DESIGN §6 instances (toy `H`, `verify`): 7 of 10 returns,
6 of 9 (exactly two thirds) raises, 7 of 9 returns, 7 of 9 plus a repeated entry raises, one validator seven times raises, a
foreign signer raises, the empty set raises. -/
example : check_block_signatures toyH toyVerify (toyNodes 10) (toySigs 7) toyBlk = some () ∧
    check_block_signatures toyH toyVerify (toyNodes 9) (toySigs 6) toyBlk = none ∧
    check_block_signatures toyH toyVerify (toyNodes 9) (toySigs 7) toyBlk = some () ∧
    check_block_signatures toyH toyVerify (toyNodes 9) (toySigs 7 ++ [toySig 3]) toyBlk = none ∧
    check_block_signatures toyH toyVerify (toyNodes 10) (List.replicate 7 (toySig 0)) toyBlk = none ∧
    check_block_signatures toyH toyVerify (toyNodes 10) (toySigs 8 ++ [toySig 11]) toyBlk = none ∧
    check_block_signatures toyH toyVerify [] [] toyBlk = none := by decide
/-- the hypotheses of `c12_src_accept_all_valid` are met by the 7-of-10 instance in reversed order. -/
example : (toySigs 7).Perm (toySigs 7).reverse ∧
    check_block_signatures toyH toyVerify (toyNodes 10) (toySigs 7).reverse toyBlk = some () :=
  ⟨(List.reverse_perm _).symm, by decide⟩

end SrcFull

end TonVerif.Properties.C12
