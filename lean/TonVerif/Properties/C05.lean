/-
C05 — the BoC parser agrees with the format on foreign input and rejects corruption.

`Model.BocParse.deserialize mk` is the executable mirror of `Boc(data).deserialize(cls)` (`mk` = the cell
constructor `cls(bits, refs, type)`), `Model.BocParse.fromBoc H` = `Cell.from_boc` on bytes with the constructor
model of Model/Cell.lean (`H` = SHA-256, abstract).  `Spec.BocEncode.encodeWith fr cells roots` is the conforming
encoder with all freedoms (Spec/BocEncode.lean).  `none` = the library raises.
-/
import TonVerif.Proofs.BocParse

namespace TonVerif.Properties.C05
open TonVerif TonVerif.Model TonVerif.Model.BocParse TonVerif.Proofs.BocParse

/-- dangling, backward and self references: if the header of `data` is accepted and the cell records are read, and
some record at position `k` carries a reference `r` with `r ≤ k` (backward or self) or `r ≥ cells` (dangling), then
`deserialize` raises — whatever the cell constructor does. -/
theorem c05_bad_refs {R : Type} (mk : Bits → List R → Int → Option R) (data : Bytes) (h : Header) (recs : List RawCell)
    (hh : deserializeBocHeader data = some h) (hrecs : readCells h.cellsNum h.cellsData h.fl.sizeBytes = some recs)
    (k : Nat) (c : RawCell) (r : Nat) (hk : recs[k]? = some c) (hr : r ∈ c.refs) (hbad : r ≤ k ∨ h.cellsNum ≤ r) :
    deserialize mk data = none := by
  have hl := readCells_length _ _ _ _ hrecs
  have := rebuildFrom_bad_ref mk recs 0 k c r hk hr (by omega)
  simp [deserialize, hh, hrecs, this]

theorem deserialize_header {R : Type} (mk : Bits → List R → Int → Option R) (d : Bytes)
    (h : deserialize mk d ≠ none) : ∃ hd, deserializeBocHeader d = some hd := by
  cases hh : deserializeBocHeader d with
  | none => simp [deserialize, hh] at h
  | some hd => exact ⟨hd, rfl⟩

/-- truncation / extension, intrinsic form: of a byte string and a proper extension of it the parser accepts at most
one (the header's length fields fix the only acceptable total length, and they lie inside every accepted prefix). -/
theorem c05_trunc_ext {R : Type} (mk : Bits → List R → Int → Option R) (p t : Bytes) (ht : t ≠ []) :
    deserialize mk p = none ∨ deserialize mk (p ++ t) = none := by
  by_cases h1 : deserialize mk p = none
  · exact Or.inl h1
  · by_cases h2 : deserialize mk (p ++ t) = none
    · exact Or.inr h2
    · obtain ⟨a, ha⟩ := deserialize_header mk p h1
      obtain ⟨b, hb⟩ := deserialize_header mk (p ++ t) h2
      exact absurd (header_prefix_unique p t a b ha hb) ht

/-- every proper prefix of an accepted input is rejected. -/
theorem c05_truncation {R : Type} (mk : Bits → List R → Int → Option R) (d : Bytes) (hd : deserialize mk d ≠ none)
    (p t : Bytes) (hpt : d = p ++ t) (ht : t ≠ []) : deserialize mk p = none := by
  subst hpt
  rcases c05_trunc_ext mk p t ht with h | h
  · exact h
  · exact absurd h hd

/-- every proper extension of an accepted input is rejected. -/
theorem c05_extension {R : Type} (mk : Bits → List R → Int → Option R) (d : Bytes) (hd : deserialize mk d ≠ none)
    (t : Bytes) (ht : t ≠ []) : deserialize mk (d ++ t) = none := by
  rcases c05_trunc_ext mk d t ht with h | h
  · exact absurd h hd
  · exact h

/-- CRC protection, intrinsic form: if `d` (bytes < 256) is accepted and carries a CRC (flag bit 6 of the generic
constructor, or magic acc3a728), then `d` with ANY single bit flipped is rejected — for every length of `d`. -/
theorem c05_crc_single_bit_accepted {R : Type} (mk : Bits → List R → Int → Option R) (d : Bytes) (hwf : Bytes.WF d)
    (h : Header) (hh : deserializeBocHeader d = some h) (hc : h.fl.hasCrc = true) (k : Nat) (hk : k < 8 * d.length) :
    deserialize mk (flipBit d k) = none := by
  have hj : k / 8 < d.length := by omega
  obtain ⟨m0, m1, m2⟩ := flipMask_props k
  have := header_crc_byte_error d hwf h hh hc (k / 8) hj (128 >>> (k % 8)) m0 m1 (fun _ => m2)
  unfold flipBit
  rw [show d.getD (k / 8) 0 = d[k / 8] by simp [List.getD_eq_getElem?_getD, hj]]
  simp [deserialize, this]

/-- more than single bits: any non-zero error pattern confined to one byte other than the flag byte. -/
theorem c05_crc_byte_error {R : Type} (mk : Bits → List R → Int → Option R) (d : Bytes) (hwf : Bytes.WF d)
    (h : Header) (hh : deserializeBocHeader d = some h) (hc : h.fl.hasCrc = true)
    (j : Nat) (hj : j < d.length) (hj4 : j ≠ 4) (e : Nat) (he0 : 0 < e) (he : e < 256) :
    deserialize mk (d.set j (d[j] ^^^ e)) = none := by
  have := header_crc_byte_error d hwf h hh hc j hj e he0 he (fun h => absurd h hj4)
  simp [deserialize, this]

end TonVerif.Properties.C05
