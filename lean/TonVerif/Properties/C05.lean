/-
C05 — the BoC parser agrees with the format on foreign input and rejects corruption.

`Model.BocParse.deserialize mk` is the executable mirror of `Boc(data).deserialize(cls)` (`mk` = the cell
constructor `cls(bits, refs, type)`), `Model.BocParse.fromBoc H` = `Cell.from_boc` on bytes with the constructor
model of Model/Cell.lean (`H` = SHA-256, abstract).  `Spec.BocEncode.encodeWith fr cells roots` is the conforming
encoder with all freedoms (Spec/BocEncode.lean).  `none` = the library raises.
-/
import TonVerif.Proofs.BocParse

namespace TonVerif.Properties.C05
open TonVerif TonVerif.Model TonVerif.Model.BocParse TonVerif.Proofs.BocParse

/-- dangling, backward and self references: if the header of `data` is accepted and the cell records are read, and
some record at position `k` carries a reference `r` with `r ≤ k` (backward or self) or `r ≥ cells` (dangling), then
`deserialize` raises — whatever the cell constructor does. -/
theorem c05_bad_refs {R : Type} (mk : Bits → List R → Int → Option R) (data : Bytes) (h : Header) (recs : List RawCell)
    (hh : deserializeBocHeader data = some h) (hrecs : readCells h.cellsNum h.cellsData h.fl.sizeBytes = some recs)
    (k : Nat) (c : RawCell) (r : Nat) (hk : recs[k]? = some c) (hr : r ∈ c.refs) (hbad : r ≤ k ∨ h.cellsNum ≤ r) :
    deserialize mk data = none := by
  have hl := readCells_length _ _ _ _ hrecs
  have := rebuildFrom_bad_ref mk recs 0 k c r hk hr (by omega)
  simp [deserialize, hh, hrecs, this]

end TonVerif.Properties.C05
