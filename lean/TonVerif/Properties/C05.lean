/-
C05 — the BoC parser agrees with the format on foreign input and rejects corruption.

`Model.BocParse.deserialize mk` is the executable mirror of `Boc(data).deserialize(cls)` (`mk` = the cell
constructor `cls(bits, refs, type)`), `Model.BocParse.fromBoc H` = `Cell.from_boc` on bytes with the constructor
model of Model/Cell.lean (`H` = SHA-256, abstract).  `Spec.BocEncode.encodeWith fr cells roots` is the conforming
encoder with all freedoms (Spec/BocEncode.lean).  `none` = the library raises.
-/
import TonVerif.Proofs.BocParse
import TonVerif.Proofs.SrcBocHeader
import TonVerif.Proofs.SrcBocCell
import TonVerif.Proofs.SrcBocCells
import TonVerif.Proofs.SrcBocDeser
import TonVerif.Properties.C01

namespace TonVerif.Properties.C05
open TonVerif TonVerif.Model TonVerif.Model.BocParse TonVerif.Proofs.BocParse TonVerif.Spec.BocEncode

/-- dangling, backward and self references: if the header of `data` is accepted and the cell records are read, and
some record at position `k` carries a reference `r` with `r ≤ k` (backward or self) or `r ≥ cells` (dangling), then
`deserialize` raises — whatever the cell constructor does. -/
theorem c05_bad_refs {R : Type} (mk : Bits → List R → Int → Option R) (data : Bytes) (h : Header) (recs : List RawCell)
    (hh : deserializeBocHeader data = some h) (hrecs : readCells h.cellsNum h.cellsData h.fl.sizeBytes = some recs)
    (k : Nat) (c : RawCell) (r : Nat) (hk : recs[k]? = some c) (hr : r ∈ c.refs) (hbad : r ≤ k ∨ h.cellsNum ≤ r) :
    deserialize mk data = none := by
  have hl := readCells_length _ _ _ _ hrecs
  have := rebuildFrom_bad_ref mk recs 0 k c r hk hr (by omega)
  simp [deserialize, hh, hrecs, this]

theorem deserialize_header {R : Type} (mk : Bits → List R → Int → Option R) (d : Bytes)
    (h : deserialize mk d ≠ none) : ∃ hd, deserializeBocHeader d = some hd := by
  cases hh : deserializeBocHeader d with
  | none => simp [deserialize, hh] at h
  | some hd => exact ⟨hd, rfl⟩

/-- truncation / extension, intrinsic form: of a byte string and a proper extension of it the parser accepts at most
one (the header's length fields fix the only acceptable total length, and they lie inside every accepted prefix). -/
theorem c05_trunc_ext {R : Type} (mk : Bits → List R → Int → Option R) (p t : Bytes) (ht : t ≠ []) :
    deserialize mk p = none ∨ deserialize mk (p ++ t) = none := by
  by_cases h1 : deserialize mk p = none
  · exact Or.inl h1
  · by_cases h2 : deserialize mk (p ++ t) = none
    · exact Or.inr h2
    · obtain ⟨a, ha⟩ := deserialize_header mk p h1
      obtain ⟨b, hb⟩ := deserialize_header mk (p ++ t) h2
      exact absurd (header_prefix_unique p t a b ha hb) ht

/-- every proper prefix of an accepted input is rejected. -/
theorem c05_truncation {R : Type} (mk : Bits → List R → Int → Option R) (d : Bytes) (hd : deserialize mk d ≠ none)
    (p t : Bytes) (hpt : d = p ++ t) (ht : t ≠ []) : deserialize mk p = none := by
  subst hpt
  rcases c05_trunc_ext mk p t ht with h | h
  · exact h
  · exact absurd h hd

/-- every proper extension of an accepted input is rejected. -/
theorem c05_extension {R : Type} (mk : Bits → List R → Int → Option R) (d : Bytes) (hd : deserialize mk d ≠ none)
    (t : Bytes) (ht : t ≠ []) : deserialize mk (d ++ t) = none := by
  rcases c05_trunc_ext mk d t ht with h | h
  · exact absurd h hd
  · exact h

/-- CRC protection, intrinsic form: if `d` (bytes < 256) is accepted and carries a CRC (flag bit 6 of the generic
constructor, or magic acc3a728), then `d` with ANY single bit flipped is rejected — for every length of `d`. -/
theorem c05_crc_single_bit_accepted {R : Type} (mk : Bits → List R → Int → Option R) (d : Bytes) (hwf : Bytes.WF d)
    (h : Header) (hh : deserializeBocHeader d = some h) (hc : h.fl.hasCrc = true) (k : Nat) (hk : k < 8 * d.length) :
    deserialize mk (flipBit d k) = none := by
  have hj : k / 8 < d.length := by omega
  obtain ⟨m0, m1, m2⟩ := flipMask_props k
  have := header_crc_byte_error d hwf h hh hc (k / 8) hj (128 >>> (k % 8)) m0 m1 (fun _ => m2)
  unfold flipBit
  rw [show d.getD (k / 8) 0 = d[k / 8] by simp [List.getD_eq_getElem?_getD, hj]]
  simp [deserialize, this]

/-- more than single bits: any non-zero error pattern confined to one byte other than the flag byte. -/
theorem c05_crc_byte_error {R : Type} (mk : Bits → List R → Int → Option R) (d : Bytes) (hwf : Bytes.WF d)
    (h : Header) (hh : deserializeBocHeader d = some h) (hc : h.fl.hasCrc = true)
    (j : Nat) (hj : j < d.length) (hj4 : j ≠ 4) (e : Nat) (he0 : 0 < e) (he : e < 256) :
    deserialize mk (d.set j (d[j] ^^^ e)) = none := by
  have := header_crc_byte_error d hwf h hh hc j hj e he0 he (fun h => absurd h hj4)
  simp [deserialize, this]

/-! ## statements about the encodings of the spec encoder -/

/-- ACCEPTS: for every admissible choice of freedoms `fr` (any of the three constructors, any size ≤ 4 and off_bytes ≤ 8
that fit, index / CRC / cache bits, per-cell stored hashes and cache flags), every forward listing `cells` and root
positions `roots` (`Valid`), if the listing denotes the trees `trees` and each of them passes the cell constructor
(local hypothesis about the cells at hand; `H` arbitrary, no injectivity needed), then `Cell.from_boc` on the encoding
returns exactly the denoted roots, in order, each with the constructor's cached info. -/
theorem c05_accepts (H : Bytes → Bytes) (fr : Freedoms) (cells : List SCell) (roots : List Nat)
    (hv : Valid fr cells roots) (trees : List Cell) (hden : denote cells = some trees)
    (hcon : ∀ t ∈ trees, (Cell.info H t).isSome) :
    ∃ out, fromBoc H (encodeWith fr cells roots) = some out ∧
      roots.mapM (fun r => trees[r]?) = some (out.map (·.1)) ∧ ∀ p ∈ out, Cell.info H p.1 = some p.2 :=
  encode_accepts H fr cells roots hv trees hden hcon

/-- every proper prefix and every proper extension of a valid encoding is rejected. -/
theorem c05_trunc_ext_encoding (H : Bytes → Bytes) (fr : Freedoms) (cells : List SCell) (roots : List Nat)
    (hv : Valid fr cells roots) (trees : List Cell) (hden : denote cells = some trees)
    (hcon : ∀ t ∈ trees, (Cell.info H t).isSome) :
    (∀ p t, encodeWith fr cells roots = p ++ t → t ≠ [] → fromBoc H p = none) ∧
    (∀ t, t ≠ [] → fromBoc H (encodeWith fr cells roots ++ t) = none) := by
  obtain ⟨out, h, -⟩ := c05_accepts H fr cells roots hv trees hden hcon
  have hne : deserialize (mkCell H) (encodeWith fr cells roots) ≠ none := by
    unfold fromBoc at h; rw [h]; simp
  exact ⟨fun p t e ht => c05_truncation (mkCell H) _ hne p t e ht, fun t ht => c05_extension (mkCell H) _ hne t ht⟩

/-- with a CRC (generic constructor with has_crc32c, or acc3a728), flipping ANY single bit of a valid encoding makes
the parser raise — for every size of the bag. -/
theorem c05_crc_single_bit (H : Bytes → Bytes) (fr : Freedoms) (cells : List SCell) (roots : List Nat)
    (hv : Valid fr cells roots) (hcrc : fr.withCrc = true) (k : Nat) (hk : k < 8 * (encodeWith fr cells roots).length) :
    fromBoc H (flipBit (encodeWith fr cells roots) k) = none := by
  obtain ⟨h, h1, -, -, -, -, h6, h7⟩ := encode_header fr cells roots hv
  exact c05_crc_single_bit_accepted (mkCell H) _ h7 h h1 (by rw [h6, hcrc]) k hk

/-! ## non-vacuity -/

def exCells : List SCell := [
  { kind := -1, bits := [true, false, true], refs := [1, 1], mask := 0, hashes := [List.replicate 32 7], depths := [1] },
  { kind := -1, bits := [], refs := [], mask := 0, hashes := [List.replicate 32 9], depths := [0] } ]

def exFr : Freedoms :=
  { magic := .generic, size := 2, offBytes := 3, hasIdx := true, hasCrc := true, hasCacheBits := true,
    storeHashes := [true, false], cacheFlags := [false, true] }

def exTrees : List Cell := [.mk (-1) [true, false, true] [.mk (-1) [] [], .mk (-1) [] []], .mk (-1) [] []]

theorem exValid : Valid exFr exCells [0, 1] := by
  refine ⟨?_, by decide, by decide, by decide, by decide, ?_, ?_⟩
  · intro pos h
    have : pos = 0 ∨ pos = 1 := by simp [exCells] at h; omega
    rcases this with rfl | rfl
    · simp [exCells, CellOK, Spec.popcount, Bytes.WF]
    · simp [exCells, CellOK, Spec.popcount, Bytes.WF]
  · simp [exFr, exCells, Freedoms.withCache, Freedoms.withIdx, records, encodeCell, hashBlock, Spec.dataBytes, Spec.padBits,
      bitsToBytes, natToBE, Spec.d2]
  · simp [exFr, exCells]

theorem exDenote : denote exCells = some exTrees := by
  simp [denote, denoteFrom, exCells, exTrees]

open TonVerif.Proofs.OrdCell in
theorem exConstructible (H : Bytes → Bytes) : ∀ t ∈ exTrees, (Cell.info H t).isSome := by
  intro t ht
  simp only [exTrees, List.mem_cons, List.not_mem_nil, or_false] at ht
  have w1 : OrdWF (.mk (-1) [true, false, true] [.mk (-1) [] [], .mk (-1) [] []]) ∧
      ordDepth (.mk (-1) [true, false, true] [.mk (-1) [] [], .mk (-1) [] []]) ≤ 1023 := by
    simp [OrdWF, OrdWFs, ordDepth, ordDepthMax]
  have w2 : OrdWF (.mk (-1) [] []) ∧ ordDepth (.mk (-1) [] []) ≤ 1023 := by
    simp [OrdWF, OrdWFs, ordDepth]
  rcases ht with rfl | rfl
  · obtain ⟨i, hi, _⟩ := TonVerif.Properties.C01.c01_hash_depth H _ w1.1 w1.2
    simp [hi]
  · obtain ⟨i, hi, _⟩ := TonVerif.Properties.C01.c01_hash_depth H _ w2.1 w2.2
    simp [hi]

/-- non-vacuity of `c05_bad_refs`: a one-cell bag whose only cell refers to itself has an acceptable header and a
readable record with the self reference `0 ≤ 0`. -/
def selfRefBag : Bytes := [0xb5, 0xee, 0x9c, 0x72, 1, 1, 1, 1, 0, 3, 0, 1, 0, 0]

example : ∃ h recs c, deserializeBocHeader selfRefBag = some h ∧
    readCells h.cellsNum h.cellsData h.fl.sizeBytes = some recs ∧ recs[0]? = some c ∧ 0 ∈ c.refs ∧ (0 ≤ 0 ∨ h.cellsNum ≤ 0) := by
  refine ⟨{ fl := { generic := true, hasIdx := false, hasCrc := false, hasCacheBits := false, flags := 0, sizeBytes := 1 },
             offsetBytes := 1, cellsNum := 1, rootsNum := 1, absentNum := 0, totCellsSize := 3, rootList := [0], index := [],
             cellsData := [1, 0, 0] }, [{ bits := [], refs := [0], type := -1 }], { bits := [], refs := [0], type := -1 },
    by decide +kernel, by decide +kernel, rfl, by simp, Or.inl (Nat.le_refl 0)⟩

/-- the hypotheses of `c05_accepts`, `c05_trunc_ext_encoding` and `c05_crc_single_bit` are met by a concrete non-trivial
bag (two cells, a doubled reference, two roots, generic constructor with index, cache bits, CRC, one stored-hash record). -/
example (H : Bytes → Bytes) : ∃ out, fromBoc H (encodeWith exFr exCells [0, 1]) = some out ∧
    [0, 1].mapM (fun r => exTrees[r]?) = some (out.map (·.1)) ∧ ∀ p ∈ out, Cell.info H p.1 = some p.2 :=
  c05_accepts H exFr exCells [0, 1] exValid exTrees exDenote (exConstructible H)

example (H : Bytes → Bytes) (k : Nat) (hk : k < 8 * (encodeWith exFr exCells [0, 1]).length) :
    fromBoc H (flipBit (encodeWith exFr exCells [0, 1]) k) = none :=
  c05_crc_single_bit H exFr exCells [0, 1] exValid rfl k hk

/-! ## the header parser of the working tree (regenerated from the source on every run) -/

open TonVerif.Generated.BocHeader in
/-- SOURCE TIE for the header parser: `Generated.BocHeader.header` is regenerated on every run from the text of
`Boc.deserialize_boc_header` (pytoniq_core/boc/deserialize.py; `bytes_to_uint` from boc/utils.py, the three magic constants
from the module; translator harness/translate/pybytes.py).  For EVERY byte list it raises exactly when the hand model's
header parser `deserializeBocHeader` (about which all theorems above are proved) returns `none`, and otherwise returns
the dict with the hand model's `has_idx`, `hash_crc32`, `has_cache_bits` (as truth values), `flags`, `size_bytes`,
`offset_bytes`, `cells_num`, `roots_num`, `absent_num`, `tot_cells_size`, `root_list`, `index` (`None` exactly when there is
no index) and `cells_data` — including the CRC-32C comparison and the trailing-bytes check at the end.  `crc32c` is the
model of crypto/crc.py (its own source tie: C18). -/
theorem c05_src_header (data : Bytes) :
    header data = (deserializeBocHeader data).map HeaderOut.ofModel :=
  TonVerif.Proofs.SrcBocHeader.src_header_eq_model data

open TonVerif.Generated.BocHeader in
/-- consequence: the source's header parser and the hand model accept the same byte lists. -/
theorem c05_src_header_accepts (data : Bytes) : (header data).isSome = (deserializeBocHeader data).isSome := by
  rw [c05_src_header]; cases deserializeBocHeader data <;> rfl

open TonVerif.Generated.BocHeader in
/-- SOURCE TIE for the first part of the cell record reader: `Generated.BocHeader.cell_layout` is regenerated on every run
from the statements of `Boc.deserialize_cell` that precede `bits = bitarray()` (descriptor bytes `d1`, `d2`, absent-cell
marker, `popcount(level mask) + 1` stored hashes and depths, the length check).  For EVERY byte list and index width it raises
exactly when the hand model's `deserializeCell` fails in that part, and otherwise yields the hand model's number of
references, exotic flag, completion-tag flag, number of data bytes and data start position; and the hand model's
`deserializeCell` IS that part followed by `cellRest` (data bits, completion tag, exotic type byte, reference indices - these
stay tied by differential correspondence only). -/
theorem c05_src_cell_layout (data : Bytes) (refSize : Nat) :
    cell_layout data refSize = cellLayout data refSize ∧
    deserializeCell data refSize = (cell_layout data refSize).bind (cellRest data refSize) := by
  have h := TonVerif.Proofs.SrcBocCell.src_cell_layout_eq data refSize
  exact ⟨h, by rw [h]; exact TonVerif.Proofs.SrcBocCell.deserializeCell_eq data refSize⟩

open TonVerif.Generated.BocHeader in
/-- non-vacuity of `c05_src_cell_layout`: an exotic record with stored hashes of a level-mask-1 cell (two hashes, two depths:
68 bytes), 36 data bytes with completion tag, one reference of width 2. -/
example : cell_layout ([0x39, 0x49] ++ List.replicate 68 0 ++ List.replicate 37 1 ++ [0, 5]) 2 =
    some { total_refs := 1, is_exotic := true, is_augmented := true, data_size := 37, i := 70 } := by
  decide +kernel

/-- non-vacuity of `c05_src_header`: a well-formed header (generic constructor, index present, one cell, one root, three
bytes of cell data) on which the regenerated parser and the hand model both return the expected fields. -/
def idxBag : Bytes := [0xb5, 0xee, 0x9c, 0x72, 0x81, 1, 1, 1, 0, 3, 0, 3, 0, 2, 0xaa]

def idxBagOut : Generated.BocHeader.HeaderOut :=
  { has_idx := true, hash_crc32 := false, has_cache_bits := false, flags := 0, size_bytes := 1, offset_bytes := 1,
    cells_num := 1, roots_num := 1, absent_num := 0, tot_cells_size := 3, root_list := [0], index := some [3],
    cells_data := [0, 2, 0xaa] }

def idxBagHeader : Header :=
  { fl := { generic := true, hasIdx := true, hasCrc := false, hasCacheBits := false, flags := 0, sizeBytes := 1 },
    offsetBytes := 1, cellsNum := 1, rootsNum := 1, absentNum := 0, totCellsSize := 3, rootList := [0], index := [3],
    cellsData := [0, 2, 0xaa] }

open TonVerif.Generated.BocHeader in
example : header idxBag = some idxBagOut ∧ deserializeBocHeader idxBag = some idxBagHeader := by
  constructor <;> decide +kernel

open TonVerif.Generated.BocHeader in
/-- and a rejected one (one byte missing): both raise. -/
example : header idxBag.dropLast = none ∧ deserializeBocHeader idxBag.dropLast = none := by
  constructor <;> decide +kernel

/-! ## the whole cell record reader of the working tree (regenerated from the source on every run) -/

open TonVerif.Generated.BocCells in
/-- SOURCE TIE for the cell record reader: `Generated.BocCells.deserialize_cell` is regenerated on every run from the text of
the WHOLE `Boc.deserialize_cell` (pytoniq_core/boc/deserialize.py; translator harness/translate/pyloops.py: `bitarray()`,
`frombytes`, the completion-tag loop `for j in range(-1, -8, -1)` with `break`, `bits[:end]` with `end` = `None` or a negative
index, `TvmBitarray(1023, ..)`, `ba2int(bits[:8], signed=True)`, the reference-index loop with `append`, the returned
`(dict, consumed)`).  For EVERY byte list and EVERY index width it raises exactly when the hand model's `deserializeCell`
(about which all theorems above are proved) returns `none`, and otherwise returns the same data bits, reference indices,
cell type (`-1` or the signed first data byte), `'result': None`, and the same number of consumed bytes. -/
theorem c05_src_deserialize_cell {R : Type} (data : Bytes) (refSize : Nat) :
    deserialize_cell (R := R) data refSize =
      (deserializeCell data refSize).map fun p => (CellOut.ofModel p.1, p.2) :=
  TonVerif.Proofs.SrcBocCells.src_deserialize_cell_eq data refSize

open TonVerif.Generated.BocCells in
/-- non-vacuity of `c05_src_deserialize_cell`: an exotic record (type byte 0xFE = -2) with 3 data bytes whose completion tag
is the fourth-last bit, and two references of width 2; both functions return the 20 data bits, `[5, 258]`, `-2`, 9 bytes. -/
example : deserialize_cell (R := Unit) [0x0a, 0x05, 0xfe, 0x12, 0x38, 0, 5, 1, 2, 0xff] 2 =
      some ({ bits := bytesToBits [0xfe, 0x12] ++ [false, false, true, true], refs := [5, 258], type := -2, result := none }, 9) ∧
    deserializeCell [0x0a, 0x05, 0xfe, 0x12, 0x38, 0, 5, 1, 2, 0xff] 2 =
      some ({ bits := bytesToBits [0xfe, 0x12] ++ [false, false, true, true], refs := [5, 258], type := -2 }, 9) := by
  constructor <;> decide +kernel

open TonVerif.Generated.BocCells in
/-- and a rejected one (an exotic record with fewer than eight data bits): both raise. -/
example : deserialize_cell (R := Unit) [0x08, 0x01, 0x90] 1 = none ∧ deserializeCell [0x08, 0x01, 0x90] 1 = none := by
  constructor <;> decide +kernel

/-! ## `Boc.deserialize` of the working tree (regenerated from the source on every run) -/

open TonVerif.Generated.BocCells in
/-- SOURCE TIE for the parser entry point: `Generated.BocCells.deserialize` is regenerated on every run from the text of
`Boc.deserialize` (pytoniq_core/boc/deserialize.py): the call of `deserialize_boc_header(self.data)`, the first loop
(`deserialize_cell` on `cells_data[i:]`, `i += j`, `cells_array.append`), the second loop over `reversed(range(cells_num))`
with the inner reference loop, the topological-order check `r < ci`, the constructor call and the in-place update
`cells_array[ci]['result'] = ..`, and the third loop over `root_list`.  It calls the regenerated header parser and the
regenerated cell reader (`c05_src_header`, `c05_src_deserialize_cell`).  The cell constructor `cls` stays a parameter: for EVERY
byte list and EVERY constructor model `mk`, the regenerated function with the callback `liftMk mk` (= `mk` on the children,
raising when a child is `None`, which is what a self reference picks up) raises exactly when the hand model
`Model.BocParse.deserialize mk` - about which `c05_accepts`, `c05_trunc_ext`, `c05_crc_single_bit`, `c05_bad_refs` are proved -
returns `none`, and otherwise returns the same list of roots.  What is left to the hand model + sampled correspondence:
`Boc.__init__` (bytes / hex / base64 detection) and the cell constructor itself (Model/Cell.lean: C01 / C02). -/
theorem c05_src_deserialize {R : Type} (mk : Bits → List R → Int → Option R) (data : Bytes) :
    Generated.BocCells.deserialize data (liftMk mk) = (Model.BocParse.deserialize mk data).map (·.map some) :=
  TonVerif.Proofs.SrcBocDeser.src_deserialize_eq mk data

open TonVerif.Generated.BocCells in
/-- the same for `Cell.from_boc` on bytes: the regenerated parser run with the constructor model of Model/Cell.lean. -/
theorem c05_src_from_boc (H : Bytes → Bytes) (data : Bytes) :
    Generated.BocCells.deserialize data (liftMk (mkCell H)) = (fromBoc H data).map (·.map some) :=
  c05_src_deserialize (mkCell H) data

/-- a constructor that just records what it is given (data length, number of children, then the children's records). -/
def mkFlat (bits : Bits) (refs : List (List Nat)) (_ty : Int) : Option (List Nat) := some (bits.length :: refs.length :: refs.flatten)

def triBag : Bytes := [0xb5, 0xee, 0x9c, 0x72, 1, 1, 3, 1, 0, 10, 0,  3, 0, 1, 1, 2,  1, 0, 2,  0, 0]
def triBagSelf : Bytes := [0xb5, 0xee, 0x9c, 0x72, 1, 1, 3, 1, 0, 10, 0,  3, 0, 0, 1, 2,  1, 0, 2,  0, 0]

open TonVerif.Generated.BocCells in
/-- non-vacuity of `c05_src_deserialize`: a three-cell bag (root with two references to the same child and one to a leaf; the
child refers to the leaf) parsed with `mkFlat`: both functions return the root with its children; with the root's first
reference rewritten to the root itself both raise. -/
example :
    Generated.BocCells.deserialize triBag (liftMk mkFlat) = some [some [0, 3, 0, 1, 0, 0, 0, 1, 0, 0, 0, 0]] ∧
    Model.BocParse.deserialize mkFlat triBag = some [[0, 3, 0, 1, 0, 0, 0, 1, 0, 0, 0, 0]] ∧
    Generated.BocCells.deserialize triBagSelf (liftMk mkFlat) = none ∧ Model.BocParse.deserialize mkFlat triBagSelf = none := by
  decide +kernel

end TonVerif.Properties.C05
