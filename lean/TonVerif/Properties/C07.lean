import TonVerif.Model.Builder
namespace TonVerif.Properties.C07
theorem placeholder : True := trivial
end TonVerif.Properties.C07
